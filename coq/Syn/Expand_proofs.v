(* Proofs about Syn/Expand.v: expandExpr preserves the denotation (all expression kinds, including lists,
   sets and lookaheads through the extracted nonterminals), multiConcat is the product of languages,
   every produced alternative is free of syntactic sugar. *)
From Coq Require Import List ZArith Bool Arith Lia.
From TM Require Import Util.Ident Syn.Expr Syn.Expand Syn.ExtLang.
Import ListNotations.
Local Open Scope Z_scope.

(* ---------- induction principle for the nested expr type ---------- *)
Section ExprInd.
  Variable P : expr -> Prop.
  Hypothesis Hempty : P EEmpty.
  Hypothesis Hopt : forall e, P e -> P (EOpt e).
  Hypothesis Hchoice : forall l, Forall P l -> P (EChoice l).
  Hypothesis Hseq : forall l, Forall P l -> P (ESeq l).
  Hypothesis Href : forall s a, P (ERef s a).
  Hypothesis Hassign : forall n e, P e -> P (EAssign n e).
  Hypothesis Happend : forall n e, P e -> P (EAppend n e).
  Hypothesis Harrow : forall n f e, P e -> P (EArrow n f e).
  Hypothesis Hset : forall i, P (ESet i).
  Hypothesis Hmarker : forall n, P (EMarker n).
  Hypothesis Hcmd : forall n, P (ECmd n).
  Hypothesis Hla : forall l, Forall P l -> P (ELookahead l).
  Hypothesis Hlanot : forall e, P e -> P (ELaNot e).
  Hypothesis Hlist : forall f e s, P e -> (forall x, s = Some x -> P x) -> P (EList f e s).
  Hypothesis Hcond : forall p e, P e -> P (ECond p e).
  Hypothesis Hprec : forall s e, P e -> P (EPrec s e).

  Fixpoint expr_ind2 (e : expr) : P e :=
    let fix all (l : list expr) : Forall P l :=
      match l with [] => Forall_nil P | x :: r => Forall_cons x (expr_ind2 x) (all r) end in
    match e with
    | EEmpty => Hempty
    | EOpt s => Hopt s (expr_ind2 s)
    | EChoice l => Hchoice l (all l)
    | ESeq l => Hseq l (all l)
    | ERef s a => Href s a
    | EAssign n s => Hassign n s (expr_ind2 s)
    | EAppend n s => Happend n s (expr_ind2 s)
    | EArrow n f s => Harrow n f s (expr_ind2 s)
    | ESet i => Hset i
    | EMarker n => Hmarker n
    | ECmd n => Hcmd n
    | ELookahead l => Hla l (all l)
    | ELaNot s => Hlanot s (expr_ind2 s)
    | EList f el sep =>
        Hlist f el sep (expr_ind2 el)
          (match sep as o return (forall x, o = Some x -> P x) with
           | Some y => fun x H => match H in (_ = o') return (match o' with Some z => P z | None => True end) with
                                  | eq_refl => expr_ind2 y end
           | None => fun x H => match H in (_ = o') return (match o' with Some z => P z | None => True end) with
                                | eq_refl => I end
           end)
    | ECond p s => Hcond p s (expr_ind2 s)
    | EPrec sym s => Hprec sym s (expr_ind2 s)
    end.
End ExprInd.

(* ---------- languages ---------- *)
Lemma lang_any_in (ls : list lang) w : lang_any ls w <-> exists l, In l ls /\ l w.
Proof.
  induction ls as [|l r IH]; cbn.
  - split; [tauto | intros (l & [] & _)].
  - rewrite IH. split.
    + intros [H | (l' & Hin & H)]; [exists l; auto | exists l'; auto].
    + intros (l' & [<- | Hin] & H); [auto | right; exists l'; auto].
Qed.

Lemma lang_any_map {A} (f : A -> lang) (xs : list A) w :
  lang_any (map f xs) w <-> exists x, In x xs /\ f x w.
Proof.
  rewrite lang_any_in. split.
  - intros (l & Hin & H). apply in_map_iff in Hin as (x & <- & Hx). eauto.
  - intros (x & Hx & H). exists (f x). split; [apply in_map; auto | auto].
Qed.

Lemma lang_any_app a b w : lang_any (a ++ b) w <-> lang_any a w \/ lang_any b w.
Proof. induction a as [|x a IH]; cbn; [tauto | rewrite IH; tauto]. Qed.

Lemma lang_cat_app a b w :
  lang_cat (a ++ b) w <-> exists w1 w2, w = w1 ++ w2 /\ lang_cat a w1 /\ lang_cat b w2.
Proof.
  revert w. induction a as [|x a IH]; intro w; cbn.
  - split.
    + intro H. exists [], w. auto.
    + intros (w1 & w2 & -> & -> & H). exact H.
  - split.
    + intros (w1 & w2 & -> & Hx & H). apply IH in H as (u & v & -> & Ha & Hb).
      exists (w1 ++ u), v. rewrite app_assoc. repeat split; auto. exists w1, u. auto.
    + intros (w1 & w2 & -> & (u & v & -> & Hx & Ha) & Hb).
      exists u, (v ++ w2). rewrite app_assoc. repeat split; auto. apply IH. exists v, w2. auto.
Qed.

Lemma lang_cat_one (l : lang) w : lang_cat [l] w <-> l w.
Proof.
  cbn. split.
  - intros (w1 & w2 & -> & H & ->). now rewrite app_nil_r.
  - intro H. exists w, []. now rewrite app_nil_r.
Qed.

Section Sem.
  Variable T : Z.
  Variable rho : Z -> lang.
  Variable setden : Z -> Z -> Prop.
  Notation den := (den T rho setden).

  Lemma den_mk_seq l w : den (mk_seq l) w <-> lang_cat (map den l) w.
  Proof.
    destruct l as [|x [|y r]]; cbn [mk_seq].
    - cbn. reflexivity.
    - cbn [map]. now rewrite lang_cat_one.
    - reflexivity.
  Qed.

  Lemma den_seq_parts e w : lang_cat (map den (seq_parts e)) w <-> den e w.
  Proof.
    destruct e; cbn [seq_parts]; try (cbn [map]; now rewrite lang_cat_one).
    - cbn. reflexivity.
    - reflexivity.
  Qed.

  Lemma den_concat_list l w : den (concat_list l) w <-> lang_cat (map den l) w.
  Proof.
    unfold concat_list. rewrite den_mk_seq. revert w.
    induction l as [|x l IH]; intro w; cbn [flat_map map].
    - reflexivity.
    - rewrite map_app, lang_cat_app. cbn [lang_cat]. split.
      + intros (w1 & w2 & -> & H1 & H2). exists w1, w2. rewrite den_seq_parts in H1. rewrite IH in H2. auto.
      + intros (w1 & w2 & -> & H1 & H2). exists w1, w2. rewrite den_seq_parts, IH. auto.
  Qed.

  Lemma den_concat2 a b w : den (concat2 a b) w <-> exists w1 w2, w = w1 ++ w2 /\ den a w1 /\ den b w2.
  Proof.
    unfold concat2. rewrite den_concat_list. cbn [map lang_cat]. split.
    - intros (w1 & w2 & -> & Ha & (u & v & -> & Hb & ->)). exists w1, u. now rewrite app_nil_r.
    - intros (w1 & w2 & -> & Ha & Hb). exists w1, w2. repeat split; auto. exists w2, []. now rewrite app_nil_r.
  Qed.

  (* multiConcat = product of the two families of languages *)
  Lemma den_multi_concat a b w :
    lang_any (map den (multi_concat a b)) w <->
    exists w1 w2, w = w1 ++ w2 /\ lang_any (map den a) w1 /\ lang_any (map den b) w2.
  Proof.
    unfold multi_concat. rewrite lang_any_map. split.
    - intros (x & Hin & H). apply in_flat_map in Hin as (p & Hp & Hq).
      apply in_map_iff in Hq as (q & <- & Hq). apply den_concat2 in H as (w1 & w2 & -> & H1 & H2).
      exists w1, w2. rewrite !lang_any_map. eauto 8.
    - intros (w1 & w2 & -> & H1 & H2). rewrite lang_any_map in H1, H2.
      destruct H1 as (p & Hp & H1). destruct H2 as (q & Hq & H2).
      exists (concat2 p q). split.
      + apply in_flat_map. exists p. split; auto. apply in_map. auto.
      + apply den_concat2. eauto.
  Qed.

  Lemma den_collapse_empty l w : lang_any (map den (collapse_empty l)) w <-> lang_any (map den l) w.
  Proof.
    unfold collapse_empty. destruct (Nat.leb _ 1); [reflexivity|].
    assert (G : forall seen, (seen = true -> In EEmpty l \/ True) ->
                forall l0, (lang_any (map den (drop_later_empties l0 seen)) w \/ (seen = true /\ w = [])) <->
                           (lang_any (map den l0) w \/ (seen = true /\ w = []))).
    { intros seen _ l0. revert seen. induction l0 as [|r rest IH]; intro seen; cbn [drop_later_empties map lang_any].
      - tauto.
      - destruct (is_empty_e r) eqn:Er.
        + destruct r; try discriminate. destruct seen.
          * rewrite IH. cbn. unfold lang_eps. tauto.
          * cbn [map lang_any]. specialize (IH true). cbn in *. unfold lang_eps in *. tauto.
        + cbn [map lang_any]. specialize (IH seen). tauto. }
    specialize (G false (fun H => or_intror I) l). split; intro H.
    - destruct G as [G _]. destruct (G (or_introl H)) as [?|[? _]]; [auto | discriminate].
    - destruct G as [_ G]. destruct (G (or_introl H)) as [?|[? _]]; [auto | discriminate].
  Qed.
End Sem.

(* ---------- congruences ---------- *)
Lemma plus_sep_ext (E E' S S' : lang) :
  (forall w, E w <-> E' w) -> (forall w, S w <-> S' w) -> forall w, plus_sep E S w <-> plus_sep E' S' w.
Proof.
  intros HE HS w. split; induction 1.
  - apply ps_one. now apply HE.
  - apply ps_more; auto. now apply HS. now apply HE.
  - apply ps_one. now apply HE.
  - apply ps_more; auto. now apply HS. now apply HE.
Qed.

Lemma lang_any_ext (a b : list lang) : Forall2 (fun x y => forall w, x w <-> y w) a b -> forall w, lang_any a w <-> lang_any b w.
Proof. induction 1; intro w; cbn; [tauto|]. rewrite H, IHForall2. tauto. Qed.

Lemma lang_cat_ext (a b : list lang) : Forall2 (fun x y => forall w, x w <-> y w) a b -> forall w, lang_cat a w <-> lang_cat b w.
Proof.
  induction 1; intro w; cbn; [tauto|]. split; intros (w1 & w2 & -> & H1 & H2); exists w1, w2.
  - rewrite <- H, <- IHForall2. auto.
  - rewrite H, IHForall2. auto.
Qed.

Section Main.
  Variable T : Z.
  Variable rho : Z -> lang.
  Variable setden : Z -> Z -> Prop.
  Notation den := (den T rho setden).

  (* Expr.Equal implies equal denotations *)
  Lemma expr_eqb_den : forall a b, expr_eqb a b = true -> forall w, den a w <-> den b w.
  Proof.
    induction a using expr_ind2; intros b Hb; destruct b; try discriminate; cbn [expr_eqb] in Hb; cbn [ExtLang.den].
    - tauto.
    - intro w. rewrite (IHa _ Hb). tauto.
    - apply lang_any_ext. revert es Hb. induction H as [|x l Hx Hl IH]; intros [|y ys] Hb; try discriminate; cbn [map].
      + constructor.
      + apply andb_true_iff in Hb as [H1 H2]. constructor; auto.
    - apply lang_cat_ext. revert es Hb. induction H as [|x l Hx Hl IH]; intros [|y ys] Hb; try discriminate; cbn [map].
      + constructor.
      + apply andb_true_iff in Hb as [H1 H2]. constructor; auto.
    - apply andb_true_iff in Hb as [_ Hs]. apply Z.eqb_eq in Hs. subst. tauto.
    - apply andb_true_iff in Hb as [_ Hs]. auto.
    - apply andb_true_iff in Hb as [_ Hs]. auto.
    - apply andb_true_iff in Hb as [_ Hs]. auto.
    - apply Z.eqb_eq in Hb. subst. tauto.
    - tauto.
    - tauto.
    - tauto.
    - tauto.
    - apply andb_true_iff in Hb as [Hb Hsep]. apply andb_true_iff in Hb as [Hf He]. apply Z.eqb_eq in Hf. subst.
      intro w. assert (G : forall w, plus_sep (den a) (match s with None => lang_eps | Some x => den x end) w <->
                                    plus_sep (den b) (match sep with None => lang_eps | Some x => den x end) w).
      { apply plus_sep_ext; [apply IHa; auto|]. destruct s as [x|], sep as [y|]; try discriminate; [|tauto].
        apply (H x eq_refl). auto. }
      rewrite G. tauto.
    - apply andb_true_iff in Hb as [_ Hs]. auto.
    - apply andb_true_iff in Hb as [_ Hs]. auto.
  Qed.

  Variable c : xctx.
  Hypothesis HT : T = cT c.

  (* rho agrees with the (unexpanded) value of every extracted nonterminal *)
  Definition consistent (st : xst) : Prop :=
    forall k nv, nth_error (x_extras st) k = Some nv ->
    forall w, rho (cT c + Z.of_nat (n_orig c + k)) w <-> den (snd nv) w.

  Definition prefix (st st' : xst) : Prop := exists more, x_extras st' = x_extras st ++ more.

  Lemma prefix_refl st : prefix st st. Proof. exists []. now rewrite app_nil_r. Qed.
  Lemma prefix_trans a b d : prefix a b -> prefix b d -> prefix a d.
  Proof. intros [m1 H1] [m2 H2]. exists (m1 ++ m2). now rewrite H2, H1, app_assoc. Qed.

  Lemma consistent_prefix st st' : prefix st st' -> consistent st' -> consistent st.
  Proof.
    intros [more Hm] Hc k nv Hk. apply Hc. rewrite Hm. rewrite nth_error_app1; auto.
    apply nth_error_Some. congruence.
  Qed.

  Lemma find_extra_nth name l : forall k0 k v, find_extra name l k0 = Some (k, v) ->
    exists n, (k0 <= k)%nat /\ nth_error l (k - k0) = Some (n, v).
  Proof.
    induction l as [|[n v0] l IH]; intros k0 k v H; cbn [find_extra] in H; [discriminate|].
    destruct (bytes_eqb n name).
    - injection H as <- <-. exists n. rewrite Nat.sub_diag. auto.
    - apply IH in H as (n' & Hle & Hn). exists n'. split; [lia|].
      replace (k - k0)%nat with (S (k - S k0)) by lia. exact Hn.
  Qed.

  Lemma den_extracted_ref idx w : den (ERef (cT c + Z.of_nat idx) []) w <-> rho (cT c + Z.of_nat idx) w.
  Proof. cbn [ExtLang.den]. replace (cT c + Z.of_nat idx <? T) with false; [tauto|]. symmetry. apply Z.ltb_ge. lia. Qed.

  Definition fatal_mono (st st' : xst) : Prop := x_fatal st = true -> x_fatal st' = true.

  Lemma not_fatal_back st st' : fatal_mono st st' -> x_fatal st' = false -> x_fatal st = false.
  Proof. unfold fatal_mono. destruct (x_fatal st); auto. intros H H2. rewrite H in H2; auto. Qed.

  Lemma extract_spec st e r st' : extract c st e = (r, st') ->
    prefix st st' /\ fatal_mono st st' /\ (consistent st' -> forall w, den r w <-> den e w).
  Proof.
    unfold extract. intro H.
    destruct (find_extra _ (x_extras st) 0) as [[k v]|] eqn:Ef.
    - destruct (expr_eqb e v) eqn:Eq.
      + injection H as <- <-. split; [apply prefix_refl|]. split; [now intro|]. intros Hc w.
        apply find_extra_nth in Ef as (n & _ & Hn). rewrite Nat.sub_0_r in Hn.
        rewrite den_extracted_ref. rewrite (Hc k (n, v) Hn). cbn [snd]. symmetry. now apply expr_eqb_den.
      + injection H as <- <-. split; [eexists; cbn; reflexivity|]. split; [now intro|]. intros Hc w.
        rewrite den_extracted_ref.
        match type of Hc with consistent {| x_extras := ?l ++ [(?nm, _)] |} =>
          rewrite (Hc (length l) (nm, e)); [cbn [snd]; tauto|] end.
        cbn [x_extras]. rewrite nth_error_app2 by lia. now rewrite Nat.sub_diag.
    - injection H as <- <-. split; [eexists; cbn; reflexivity|]. split; [now intro|]. intros Hc w.
      rewrite den_extracted_ref.
        match type of Hc with consistent {| x_extras := ?l ++ [(?nm, _)] |} =>
          rewrite (Hc (length l) (nm, e)); [cbn [snd]; tauto|] end.
        cbn [x_extras]. rewrite nth_error_app2 by lia. now rewrite Nat.sub_diag.
  Qed.

  Definition good (st st' : xst) (e : expr) (alts : list expr) : Prop :=
    prefix st st' /\ fatal_mono st st' /\
    (consistent st' -> x_fatal st' = false -> forall w, den e w <-> lang_any (map den alts) w).

  Lemma lang_any_map_wrap (f : expr -> expr) alts :
    (forall v w, den (f v) w <-> den v w) -> forall w, lang_any (map den (map f alts)) w <-> lang_any (map den alts) w.
  Proof.
    intros Hf w. rewrite !lang_any_map. split.
    - intros (x & Hx & H). apply in_map_iff in Hx as (v & <- & Hv). exists v. split; auto. now apply Hf.
    - intros (v & Hv & H). exists (f v). split; [now apply in_map|]. now apply Hf.
  Qed.

  Theorem expand_expr_good : forall e st alts st', expand_expr c st e = (alts, st') -> good st st' e alts.
  Proof.
    induction e using expr_ind2; intros st alts st' Hx; cbn [expand_expr] in Hx.
    - (* Empty *) injection Hx as <- <-. split; [apply prefix_refl|]. split; [now intro|]. intros _ _ w. cbn. tauto.
    - (* Optional *)
      destruct (expand_expr c st e) as [r st1] eqn:E1. injection Hx as <- <-.
      destruct (IHe _ _ _ E1) as (Hp & Hf & Hd). split; auto. split; auto. intros Hc Hnf w.
      rewrite map_app, lang_any_app. cbn [ExtLang.den map lang_any]. rewrite (Hd Hc Hnf w). unfold lang_eps. tauto.
    - (* Choice *)
      revert st alts st' Hx. induction H as [|x l Hxl Hl IH]; intros st alts st' Hx.
      + injection Hx as <- <-. split; [apply prefix_refl|]. split; [now intro|]. intros _ _ w. cbn. tauto.
      + destruct (expand_expr c st x) as [r st1] eqn:E1.
        match type of Hx with (let '(r2, st) := ?G in _) = _ => destruct G as [r2 st2] eqn:E2 end.
        injection Hx as <- <-. destruct (Hxl _ _ _ E1) as (Hp1 & Hf1 & Hd1). destruct (IH _ _ _ E2) as (Hp2 & Hf2 & Hd2).
        split; [eapply prefix_trans; eauto|]. split; [unfold fatal_mono in *; intro; auto 10|]. intros Hc Hnf w.
        assert (Hnf1 : x_fatal st1 = false) by (apply (not_fatal_back _ _ Hf2 Hnf)).
        rewrite map_app, lang_any_app. cbn [ExtLang.den map lang_any].
        rewrite (Hd1 (consistent_prefix _ _ Hp2 Hc) Hnf1 w). specialize (Hd2 Hc Hnf w). cbn [ExtLang.den] in Hd2. rewrite Hd2. tauto.
    - (* Sequence *)
      assert (G : forall l, Forall (fun e => forall st alts st', expand_expr c st e = (alts, st') -> good st st' e alts) l ->
                forall acc st alts st',
                (fix go (subs : list expr) (acc : list expr) (st : xst) {struct subs} : list expr * xst :=
                   match subs with
                   | [] => (acc, st)
                   | s :: rest => let '(r, st) := expand_expr c st s in go rest (multi_concat acc r) st
                   end) l acc st = (alts, st') ->
                prefix st st' /\ fatal_mono st st' /\
                (consistent st' -> x_fatal st' = false -> forall w,
                   lang_any (map den alts) w <->
                   exists w1 w2, w = w1 ++ w2 /\ lang_any (map den acc) w1 /\ lang_cat (map den l) w2)).
      { clear. intros l HF. induction HF as [|x l Hxl Hl IH]; intros acc st alts st' Hx.
        - injection Hx as <- <-. split; [apply prefix_refl|]. split; [now intro|]. intros _ _ w. cbn [map lang_cat]. split.
          + intro Hw. exists w, []. now rewrite app_nil_r.
          + intros (w1 & w2 & -> & Hw & ->). now rewrite app_nil_r.
        - destruct (expand_expr c st x) as [r st1] eqn:E1.
          destruct (Hxl _ _ _ E1) as (Hp1 & Hf1 & Hd1). destruct (IH _ _ _ _ Hx) as (Hp2 & Hf2 & Hd2).
          split; [eapply prefix_trans; eauto|]. split; [unfold fatal_mono in *; intro; auto 10|]. intros Hc Hnf w.
          assert (Hnf1 : x_fatal st1 = false) by (apply (not_fatal_back _ _ Hf2 Hnf)).
          rewrite (Hd2 Hc Hnf w). cbn [map lang_cat]. split.
          + intros (w1 & w2 & -> & Hm & Hr). apply den_multi_concat in Hm as (u & v & -> & Hu & Hv).
            exists u, (v ++ w2). rewrite app_assoc. repeat split; auto. exists v, w2. repeat split; auto.
            apply (Hd1 (consistent_prefix _ _ Hp2 Hc) Hnf1). exact Hv.
          + intros (w1 & w2 & -> & Hu & (v & w3 & -> & Hv & Hr)). exists (w1 ++ v), w3. rewrite app_assoc. repeat split; auto.
            apply den_multi_concat. exists w1, v. repeat split; auto. apply (Hd1 (consistent_prefix _ _ Hp2 Hc) Hnf1). exact Hv. }
      destruct (G l H _ _ _ _ Hx) as (Hp & Hf & Hd). split; auto. split; auto. intros Hc Hnf w.
      rewrite (Hd Hc Hnf w). cbn [ExtLang.den map lang_any]. split.
      + intro Hw. exists [], w. repeat split; auto. left. reflexivity.
      + intros (w1 & w2 & -> & [Hw|[]] & H2). unfold lang_eps in Hw. subst. exact H2.
    - (* Reference *) injection Hx as <- <-. split; [apply prefix_refl|]. split; [now intro|]. intros _ _ w. cbn [map lang_any]. tauto.
    - (* Assign *)
      destruct (expand_expr c st e) as [r st1] eqn:E1. injection Hx as <- <-.
      destruct (IHe _ _ _ E1) as (Hp & Hf & Hd). split; auto. split; auto. intros Hc Hnf w.
      rewrite lang_any_map_wrap; [apply (Hd Hc Hnf)|]. intros v u. destruct (is_empty_e v); cbn [ExtLang.den]; tauto.
    - (* Append *)
      destruct (expand_expr c st e) as [r st1] eqn:E1. injection Hx as <- <-.
      destruct (IHe _ _ _ E1) as (Hp & Hf & Hd). split; auto. split; auto. intros Hc Hnf w.
      rewrite lang_any_map_wrap; [apply (Hd Hc Hnf)|]. intros v u. destruct (is_empty_e v); cbn [ExtLang.den]; tauto.
    - (* Arrow *)
      destruct (expand_expr c st e) as [r st1] eqn:E1. injection Hx as <- <-.
      destruct (IHe _ _ _ E1) as (Hp & Hf & Hd). split; auto. split; auto. intros Hc Hnf w.
      rewrite lang_any_map_wrap; [apply (Hd Hc Hnf)|]. intros v u. cbn [ExtLang.den]. tauto.
    - (* Set *)
      destruct (extract c st (ESet i)) as [r st1] eqn:E1. injection Hx as <- <-.
      destruct (extract_spec _ _ _ _ E1) as (Hp & Hf & Hd). split; auto. split; auto. intros Hc _ w.
      cbn [map lang_any]. rewrite (Hd Hc w). tauto.
    - injection Hx as <- <-. split; [apply prefix_refl|]. split; [now intro|]. intros _ _ w. cbn [map lang_any]. tauto.
    - injection Hx as <- <-. split; [apply prefix_refl|]. split; [now intro|]. intros _ _ w. cbn [map lang_any]. tauto.
    - (* Lookahead *)
      destruct (extract c st (ELookahead l)) as [r st1] eqn:E1. injection Hx as <- <-.
      destruct (extract_spec _ _ _ _ E1) as (Hp & Hf & Hd). split; auto. split; auto. intros Hc _ w.
      cbn [map lang_any]. rewrite (Hd Hc w). tauto.
    - injection Hx as <- <-. split; [apply prefix_refl|]. split; [now intro|]. intros _ _ w. cbn [map lang_any]. tauto.
    - (* List *)
      destruct (expand_expr c st e) as [el st1] eqn:E1.
      destruct (IHe _ _ _ E1) as (Hp1 & Hf1 & Hd1).
      set (el1 := match el with [x] => x | _ => EChoice el end) in *.
      assert (Hel1 : forall w, den el1 w <-> lang_any (map den el) w).
      { intro w. subst el1. destruct el as [|x [|y r]]; cbn [ExtLang.den map lang_any]; tauto. }
      destruct s as [sp|].
      + destruct (expand_expr c st1 sp) as [spl st2] eqn:E2.
        destruct (H sp eq_refl _ _ _ E2) as (Hp2 & Hf2 & Hd2).
        set (st3 := match spl with [_] => st2 | _ => set_fatal st2 end) in *.
        destruct (extract c st3 (EList (Z.lor f 1) el1 (Some (hd EEmpty spl)))) as [ret st4] eqn:E3.
        destruct (extract_spec _ _ _ _ E3) as (Hp3 & Hf3 & Hd3).
        assert (Hp23 : prefix st2 st3) by (subst st3; destruct spl as [|? [|? ?]]; exists []; cbn; now rewrite app_nil_r).
        assert (Hf23 : fatal_mono st2 st3) by (subst st3; destruct spl as [|? [|? ?]]; intro; cbn; auto).
        assert (Hodd : Z.odd (Z.lor f 1) = true).
        { rewrite <- Z.bit0_odd, Z.lor_spec. cbn. apply orb_true_r. }
        assert (Hcore : consistent st4 -> x_fatal st4 = false -> forall w,
                  den ret w <-> plus_sep (den e) (den sp) w).
        { intros Hc Hnf w. rewrite (Hd3 Hc w). cbn [ExtLang.den]. rewrite Hodd.
          assert (Hnf3 : x_fatal st3 = false) by (apply (not_fatal_back _ _ Hf3 Hnf)).
          assert (Hsp1 : exists x, spl = [x]).
          { subst st3. destruct spl as [|x [|y r]]; [discriminate Hnf3| eauto | discriminate Hnf3]. }
          destruct Hsp1 as (x & ->). cbn [hd]. subst st3.
          assert (Hnf1 : x_fatal st1 = false) by (apply (not_fatal_back _ _ Hf2 Hnf3)).
          assert (Hc2 : consistent st2) by (eapply consistent_prefix; [exact Hp3| exact Hc]).
          assert (Hc1 : consistent st1) by (eapply consistent_prefix; [exact Hp2| exact Hc2]).
          assert (G : forall w, plus_sep (den el1) (den x) w <-> plus_sep (den e) (den sp) w).
          { apply plus_sep_ext.
            - intro u. rewrite Hel1. symmetry. apply (Hd1 Hc1 Hnf1).
            - intro u. rewrite (Hd2 Hc2 Hnf3 u). cbn [map lang_any]. tauto. }
          rewrite <- G. split; [intros [[? _]|?]; [discriminate | auto] | auto]. }
        destruct (negb (Z.odd f) && Z.odd (Z.lor f 1)) eqn:Eopt.
        * destruct (extract c st4 (EOpt ret)) as [ret2 st5] eqn:E4. injection Hx as <- <-.
          destruct (extract_spec _ _ _ _ E4) as (Hp4 & Hf4 & Hd4).
          split; [eapply prefix_trans; [exact Hp1|]; eapply prefix_trans; [exact Hp2|]; eapply prefix_trans; [exact Hp23|];
                  eapply prefix_trans; eauto|].
          split; [unfold fatal_mono in *; intro; auto 10|]. intros Hc Hnf w. cbn [map lang_any]. rewrite (Hd4 Hc w). cbn [ExtLang.den].
          assert (Hnf4 : x_fatal st4 = false) by (apply (not_fatal_back _ _ Hf4 Hnf)).
          rewrite (Hcore (consistent_prefix _ _ Hp4 Hc) Hnf4 w).
          apply andb_true_iff in Eopt as [Eo _]. apply negb_true_iff in Eo. rewrite Eo. tauto.
        * injection Hx as <- <-.
          split; [eapply prefix_trans; [exact Hp1|]; eapply prefix_trans; [exact Hp2|]; eapply prefix_trans; eauto|].
          split; [unfold fatal_mono in *; intro; auto 10|]. intros Hc Hnf w. cbn [map lang_any]. rewrite (Hcore Hc Hnf w). cbn [ExtLang.den].
          rewrite Hodd, andb_true_r in Eopt. apply negb_false_iff in Eopt. rewrite Eopt.
          split; [intros [[? _]|?]; [discriminate | left; auto] | intros [?|[]]; right; auto].
      + destruct (extract c st1 (EList f el1 None)) as [ret st4] eqn:E3.
        destruct (extract_spec _ _ _ _ E3) as (Hp3 & Hf3 & Hd3).
        assert (Hcore : consistent st4 -> x_fatal st4 = false -> forall w,
                  den ret w <-> ((Z.odd f = false /\ w = []) \/ plus_sep (den e) lang_eps w)).
        { intros Hc Hnf w. rewrite (Hd3 Hc w). cbn [ExtLang.den].
          assert (Hnf1 : x_fatal st1 = false) by (apply (not_fatal_back _ _ Hf3 Hnf)).
          assert (Hc1 : consistent st1) by (eapply consistent_prefix; [exact Hp3| exact Hc]).
          assert (G : forall w, plus_sep (den el1) lang_eps w <-> plus_sep (den e) lang_eps w).
          { apply plus_sep_ext; [|tauto]. intro u. rewrite Hel1. symmetry. apply (Hd1 Hc1 Hnf1). }
          rewrite G. tauto. }
        assert (Eopt : negb (Z.odd f) && Z.odd f = false) by (destruct (Z.odd f); reflexivity).
        rewrite Eopt in Hx. injection Hx as <- <-.
        split; [eapply prefix_trans; eauto|]. split; [unfold fatal_mono in *; intro; auto 10|]. intros Hc Hnf w.
        cbn [map lang_any]. rewrite (Hcore Hc Hnf w). cbn [ExtLang.den]. tauto.
    - injection Hx as <- <-. split; [apply prefix_refl|]. split; [now intro|]. intros _ _ w. cbn [map lang_any]. tauto.
    - injection Hx as <- <-. split; [apply prefix_refl|]. split; [now intro|]. intros _ _ w. cbn [map lang_any]. tauto.
  Qed.
End Main.

(* ---------- phase 2: the rules synthesised for an extracted list / optional ---------- *)
Lemma plus_sep_right (E S : lang) w :
  plus_sep E S w <-> E w \/ exists w1 s w2, w = w1 ++ s ++ w2 /\ E w1 /\ S s /\ plus_sep E S w2.
Proof.
  split.
  - induction 1 as [w H | w1 s w2 H1 IH Hs He].
    + now left.
    + right. destruct IH as [IH | (u & s' & v & -> & Hu & Hs' & Hv)].
      * exists w1, s, w2. repeat split; auto. now apply ps_one.
      * exists u, s', (v ++ s ++ w2). rewrite <- !app_assoc. repeat split; auto. now apply ps_more.
  - intros [H | (w1 & s & w2 & -> & H1 & Hs & H2)]; [now apply ps_one|].
    revert w1 s H1 Hs. induction H2 as [w H | u s' v Hu IH Hs' Hv]; intros w1 s H1 Hs.
    + apply ps_more; auto. now apply ps_one.
    + replace (w1 ++ s ++ u ++ s' ++ v) with ((w1 ++ s ++ u) ++ s' ++ v) by now rewrite <- !app_assoc.
      apply ps_more; auto.
Qed.

Lemma plus_sep_left (E S : lang) w :
  plus_sep E S w <-> E w \/ exists w1 s w2, w = w1 ++ s ++ w2 /\ plus_sep E S w1 /\ S s /\ E w2.
Proof.
  split.
  - destruct 1 as [w H | w1 s w2 H1 Hs He]; [now left | right; eauto 8].
  - intros [H | (w1 & s & w2 & -> & H1 & Hs & H2)]; [now apply ps_one | now apply ps_more].
Qed.

Section Top.
  Variable T : Z.
  Variable rho : Z -> lang.
  Variable setden : Z -> Z -> Prop.
  Notation den := (den T rho setden).

  (* Under an interpretation in which the extracted nonterminal [self] means its (list / optional) value,
     the rules Expand writes for it denote the same language: the new right-hand side is a correct
     unfolding of the list, for left- and right-recursive lists, with and without separator, for
     reference, choice and other element shapes. *)
  Theorem expand_top_good self v :
    0 <= T ->
    (forall fl el sep, v = EList fl el sep -> Z.odd fl = false -> sep = None) ->
    (forall w, rho (T + Z.of_nat self) w <-> den v w) ->
    forall w, den (expand_top T self v) w <-> den v w.
  Proof.
    intros HT Hstar0 Hself w. destruct v; cbn [expand_top]; try tauto.
    - (* Optional *) cbn [ExtLang.den map lang_any]. unfold lang_eps. tauto.
    - (* List *)
      assert (Hstar : Z.odd flags = false -> sep = None) by (intro; eapply Hstar0; eauto).
      clear Hstar0.
      set (self_ref := ERef (T + Z.of_nat self) []).
      assert (Href : forall u, den self_ref u <-> den (EList flags v sep) u).
      { intro u. subst self_ref. cbn [ExtLang.den]. replace (T + Z.of_nat self <? T) with false by (symmetry; apply Z.ltb_ge; lia).
        apply Hself. }
      set (E := den v). set (S := match sep with None => lang_eps | Some s => den s end).
      assert (HL : forall u, den (EList flags v sep) u <-> ((Z.odd flags = false /\ u = []) \/ plus_sep E S u)) by (intro; cbn [ExtLang.den]; tauto).
      (* when there is a separator the list is non-empty *)
      set (rr := Z.testbit flags 1).
      set (rec := match sep with
                  | None => ESeq [self_ref]
                  | Some s => if rr then concat_list [s; ESeq [self_ref]] else concat_list [ESeq [self_ref]; s]
                  end).
      (* the two unfoldings at the level of languages *)
      assert (Hrec_l : rr = false -> forall u, den (concat_list [rec; v]) u <->
                exists w1 s w2, u = w1 ++ s ++ w2 /\ den self_ref w1 /\ S s /\ E w2).
      { intros Hrr u. rewrite den_concat_list. subst rec S. cbn [map lang_cat]. destruct sep as [sp|].
        - rewrite Hrr. split.
          + intros (a & b & -> & Ha & (b1 & b2 & -> & Hb & ->)). rewrite den_concat_list in Ha. cbn [map lang_cat ExtLang.den] in Ha.
            destruct Ha as (a1 & a2 & -> & (x & y & -> & Hx & ->) & (a3 & a4 & -> & Hs & ->)).
            exists x, a3, b1. rewrite !app_nil_r, <- app_assoc. auto.
          + intros (w1 & s & w2 & -> & H1 & Hs & H2). exists (w1 ++ s), w2. rewrite <- app_assoc. repeat split; auto.
            * rewrite den_concat_list. cbn [map lang_cat ExtLang.den]. exists w1, s. repeat split; auto.
              -- exists w1, []. now rewrite app_nil_r.
              -- exists s, []. now rewrite app_nil_r.
            * exists w2, []. now rewrite app_nil_r.
        - split.
          + intros (a & b & -> & Ha & (b1 & b2 & -> & Hb & ->)). cbn [ExtLang.den map lang_cat] in Ha.
            destruct Ha as (x & y & -> & Hx & ->). exists x, [], b1. rewrite !app_nil_r. cbn. unfold lang_eps. auto.
          + intros (w1 & s & w2 & -> & H1 & Hs & H2). unfold lang_eps in Hs. subst s. exists w1, w2. cbn [app]. repeat split; auto.
            * cbn [ExtLang.den map lang_cat]. exists w1, []. now rewrite app_nil_r.
            * exists w2, []. now rewrite app_nil_r. }
      assert (Hrec_r : rr = true -> forall u, den (concat_list [v; rec]) u <->
                exists w1 s w2, u = w1 ++ s ++ w2 /\ E w1 /\ S s /\ den self_ref w2).
      { intros Hrr u. rewrite den_concat_list. subst rec S. cbn [map lang_cat]. destruct sep as [sp|].
        - rewrite Hrr. split.
          + intros (a & b & -> & Ha & (b1 & b2 & -> & Hb & ->)). rewrite den_concat_list in Hb. cbn [map lang_cat ExtLang.den] in Hb.
            destruct Hb as (a1 & a2 & -> & Hs & (a3 & a4 & -> & (x & y & -> & Hx & ->) & ->)).
            exists a, a1, x. rewrite !app_nil_r. auto.
          + intros (w1 & s & w2 & -> & H1 & Hs & H2). exists w1, (s ++ w2). repeat split; auto.
            exists (s ++ w2), []. rewrite app_nil_r. repeat split; auto.
            rewrite den_concat_list. cbn [map lang_cat ExtLang.den]. exists s, w2. repeat split; auto.
            exists w2, []. rewrite app_nil_r. repeat split; auto. exists w2, []. now rewrite app_nil_r.
        - split.
          + intros (a & b & -> & Ha & (b1 & b2 & -> & Hb & ->)). cbn [ExtLang.den map lang_cat] in Hb.
            destruct Hb as (x & y & -> & Hx & ->). exists a, [], x. rewrite !app_nil_r. cbn. unfold lang_eps. auto.
          + intros (w1 & s & w2 & -> & H1 & Hs & H2). unfold lang_eps in Hs. subst s. exists w1, w2. cbn [app]. repeat split; auto.
            exists w2, []. rewrite app_nil_r. repeat split; auto.
            cbn [ExtLang.den map lang_cat]. exists w2, []. now rewrite app_nil_r. }
      (* a star list has no separator *)
      assert (Hgoal : forall (body : lang),
                (forall u, body u <-> if rr then (exists w1 s w2, u = w1 ++ s ++ w2 /\ E w1 /\ S s /\ den self_ref w2)
                                       else (exists w1 s w2, u = w1 ++ s ++ w2 /\ den self_ref w1 /\ S s /\ E w2)) ->
                (Z.odd flags = false -> S = lang_eps) ->
                (body w \/ (if Z.odd flags then E w else w = [])) <-> den (EList flags v sep) w).
      { intros body Hbody HstarS. rewrite HL. rewrite Hbody. destruct rr.
        - rewrite (plus_sep_right E S w). destruct (Z.odd flags) eqn:Eo.
          + split.
            * intros [(w1 & s & w2 & -> & H1 & Hs & H2) | H]; [|auto]. apply Href, HL in H2 as [[? _]|H2]; [discriminate|].
              right. right. eauto 8.
            * intros [[? _] | [H | (w1 & s & w2 & -> & H1 & Hs & H2)]]; [discriminate | auto |].
              left. exists w1, s, w2. repeat split; auto. apply Href, HL. auto.
          + rewrite (HstarS eq_refl) in *. split.
            * intros [(w1 & s & w2 & -> & H1 & Hs & H2) | ->]; [|auto]. unfold lang_eps in Hs. subst s.
              apply Href, HL in H2 as [[_ ->]|H2].
              -- right. left. now rewrite app_nil_r.
              -- right. right. exists w1, [], w2. unfold lang_eps. auto.
            * intros [[_ ->] | [H | (w1 & s & w2 & -> & H1 & Hs & H2)]]; [auto | |].
              -- left. exists w, [], []. rewrite app_nil_r. unfold lang_eps. repeat split; auto. apply Href, HL. auto.
              -- left. exists w1, s, w2. repeat split; auto. apply Href, HL. auto.
        - rewrite (plus_sep_left E S w). destruct (Z.odd flags) eqn:Eo.
          + split.
            * intros [(w1 & s & w2 & -> & H1 & Hs & H2) | H]; [|auto]. apply Href, HL in H1 as [[? _]|H1]; [discriminate|].
              right. right. eauto 8.
            * intros [[? _] | [H | (w1 & s & w2 & -> & H1 & Hs & H2)]]; [discriminate | auto |].
              left. exists w1, s, w2. repeat split; auto. apply Href, HL. auto.
          + rewrite (HstarS eq_refl) in *. split.
            * intros [(w1 & s & w2 & -> & H1 & Hs & H2) | ->]; [|auto]. unfold lang_eps in Hs. subst s.
              apply Href, HL in H1 as [[_ ->]|H1].
              -- right. left. exact H2.
              -- right. right. exists w1, [], w2. unfold lang_eps. auto.
            * intros [[_ ->] | [H | (w1 & s & w2 & -> & H1 & Hs & H2)]]; [auto | |].
              -- left. exists [], [], w. unfold lang_eps. repeat split; auto. apply Href, HL. auto.
              -- left. exists w1, s, w2. repeat split; auto. apply Href, HL. auto. }
      assert (Hbody : forall u, (if rr then den (concat_list [v; rec]) u else den (concat_list [rec; v]) u) <->
                (if rr then (exists w1 s w2, u = w1 ++ s ++ w2 /\ E w1 /\ S s /\ den self_ref w2)
                 else (exists w1 s w2, u = w1 ++ s ++ w2 /\ den self_ref w1 /\ S s /\ E w2))).
      { intro u. destruct rr eqn:Err; [apply Hrec_r | apply Hrec_l]; auto. }
      assert (HS : Z.odd flags = false -> S = lang_eps).
      { intro Ho. subst S. destruct sep as [sp|]; [|reflexivity]. specialize (Hstar Ho). discriminate. }
      specialize (Hgoal _ Hbody HS).
      assert (Hone : forall x u, den (concat_list [x]) u <-> den x u).
      { intros x u. rewrite den_concat_list. cbn [map]. apply lang_cat_one. }
      fold self_ref. fold rr. fold rec.
      destruct v; cbn [ExtLang.den map lang_any];
        try (rewrite <- Hgoal; destruct rr, (Z.odd flags); rewrite ?Hone; cbn [ExtLang.den]; unfold lang_eps, E; cbn [ExtLang.den]; tauto).
      (* element is a choice *)
      rewrite <- Hgoal. rewrite map_app, lang_any_app.
      assert (Hm1 : forall u, lang_any (map den (multi_concat es [rec])) u <-> den (concat_list [EChoice es; rec]) u).
      { intro u. rewrite den_multi_concat. change (concat_list [EChoice es; rec]) with (concat2 (EChoice es) rec).
        rewrite den_concat2. cbn [ExtLang.den map lang_any]. split; intros (a & b & -> & Ha & Hb); exists a, b; tauto. }
      assert (Hm2 : forall u, lang_any (map den (multi_concat [rec] es)) u <-> den (concat_list [rec; EChoice es]) u).
      { intro u. rewrite den_multi_concat. change (concat_list [rec; EChoice es]) with (concat2 rec (EChoice es)).
        rewrite den_concat2. cbn [ExtLang.den map lang_any]. split; intros (a & b & -> & Ha & Hb); exists a, b; tauto. }
      destruct rr, (Z.odd flags); rewrite ?Hm1, ?Hm2; cbn [map lang_any ExtLang.den]; unfold lang_eps, E; cbn [ExtLang.den]; tauto.
  Qed.
End Top.

(* ---------- shape of the produced alternatives ---------- *)
(* a production body: references, state markers, commands, possibly grouped by Arrow/Assign/Append *)
Fixpoint sugar_free (e : expr) : bool :=
  match e with
  | EEmpty | ERef _ _ | EMarker _ | ECmd _ => true
  | ESeq l => forallb sugar_free l
  | EArrow _ _ s | EAssign _ s | EAppend _ s => sugar_free s
  | _ => false
  end.

(* what convertPart can produce below a rule: no conditional, no nested %prec, LookaheadNot only inside Lookahead *)
Fixpoint plain (e : expr) : bool :=
  match e with
  | EEmpty | ERef _ _ | EMarker _ | ECmd _ | ESet _ | ELookahead _ => true
  | EOpt s | EArrow _ _ s | EAssign _ s | EAppend _ s => plain s
  | EChoice l | ESeq l => forallb plain l
  | EList _ el sep => plain el && match sep with None => true | Some s => plain s end
  | ELaNot _ | ECond _ _ | EPrec _ _ => false
  end.

Lemma sugar_free_seq_parts e : sugar_free e = true -> forallb sugar_free (seq_parts e) = true.
Proof. destruct e; cbn; intro H; rewrite ?H; auto. Qed.

Lemma sugar_free_mk_seq l : forallb sugar_free l = true -> sugar_free (mk_seq l) = true.
Proof. destruct l as [|x [|y r]]; cbn; auto. now rewrite andb_true_r. Qed.

Lemma sugar_free_concat2 a b : sugar_free a = true -> sugar_free b = true -> sugar_free (concat2 a b) = true.
Proof.
  intros Ha Hb. unfold concat2, concat_list. apply sugar_free_mk_seq. cbn [flat_map]. rewrite app_nil_r, forallb_app.
  now rewrite !sugar_free_seq_parts.
Qed.

Lemma sugar_free_multi_concat a b :
  Forall (fun x => sugar_free x = true) a -> Forall (fun x => sugar_free x = true) b ->
  Forall (fun x => sugar_free x = true) (multi_concat a b).
Proof.
  rewrite !Forall_forall. intros Ha Hb x Hx. unfold multi_concat in Hx.
  apply in_flat_map in Hx as (p & Hp & Hq). apply in_map_iff in Hq as (q & <- & Hq). apply sugar_free_concat2; auto.
Qed.

Lemma extract_is_ref c st e r st' : extract c st e = (r, st') -> sugar_free r = true.
Proof.
  unfold extract. destruct (find_extra _ _ 0) as [[k v]|]; [destruct (expr_eqb e v)|]; intro H; injection H as <- <-; reflexivity.
Qed.

Theorem expand_expr_shape c : forall e st alts st', plain e = true -> expand_expr c st e = (alts, st') ->
  Forall (fun a => sugar_free a = true) alts.
Proof.
  induction e using expr_ind2; intros st alts st' Hp Hx; cbn [expand_expr] in Hx; cbn [plain] in Hp; try discriminate.
  - injection Hx as <- <-. repeat constructor.
  - destruct (expand_expr c st e) as [r st1] eqn:E1. injection Hx as <- <-.
    apply Forall_app. split; [eapply IHe; eauto | repeat constructor].
  - revert st alts st' Hx. induction H as [|x l Hxl Hl IH]; intros st alts st' Hx.
    + injection Hx as <- <-. constructor.
    + cbn [forallb] in Hp. apply andb_true_iff in Hp as [Hp1 Hp2].
      destruct (expand_expr c st x) as [r st1] eqn:E1.
      match type of Hx with (let '(r2, st) := ?G in _) = _ => destruct G as [r2 st2] eqn:E2 end.
      injection Hx as <- <-. apply Forall_app. split; [eapply Hxl; eauto | eapply IH; eauto].
  - assert (G : forall l, Forall (fun e => forall st alts st', plain e = true -> expand_expr c st e = (alts, st') ->
                                  Forall (fun a => sugar_free a = true) alts) l -> forallb plain l = true ->
              forall acc st alts st', Forall (fun a => sugar_free a = true) acc ->
              (fix go (subs : list expr) (acc : list expr) (st : xst) {struct subs} : list expr * xst :=
                 match subs with
                 | [] => (acc, st)
                 | s :: rest => let '(r, st) := expand_expr c st s in go rest (multi_concat acc r) st
                 end) l acc st = (alts, st') -> Forall (fun a => sugar_free a = true) alts).
    { clear. intros l HF. induction HF as [|x l Hxl Hl IH]; intros Hp acc st alts st' Hacc Hx.
      - injection Hx as <- <-. exact Hacc.
      - cbn [forallb] in Hp. apply andb_true_iff in Hp as [Hp1 Hp2].
        destruct (expand_expr c st x) as [r st1] eqn:E1. eapply IH; [exact Hp2 | | exact Hx].
        apply sugar_free_multi_concat; auto. eapply Hxl; eauto. }
    apply (G l H Hp [EEmpty] st alts st'); [repeat constructor | exact Hx].
  - injection Hx as <- <-. repeat constructor.
  - destruct (expand_expr c st e) as [r st1] eqn:E1. injection Hx as <- <-.
    specialize (IHe _ _ _ Hp E1). rewrite Forall_forall in *. intros x Hx. apply in_map_iff in Hx as (v & <- & Hv).
    destruct (is_empty_e v) eqn:Ev; [destruct v; try discriminate; reflexivity | cbn; auto].
  - destruct (expand_expr c st e) as [r st1] eqn:E1. injection Hx as <- <-.
    specialize (IHe _ _ _ Hp E1). rewrite Forall_forall in *. intros x Hx. apply in_map_iff in Hx as (v & <- & Hv).
    destruct (is_empty_e v) eqn:Ev; [destruct v; try discriminate; reflexivity | cbn; auto].
  - destruct (expand_expr c st e) as [r st1] eqn:E1. injection Hx as <- <-.
    specialize (IHe _ _ _ Hp E1). rewrite Forall_forall in *. intros x Hx. apply in_map_iff in Hx as (v & <- & Hv). cbn. auto.
  - destruct (extract c st (ESet i)) as [r st1] eqn:E1. injection Hx as <- <-. constructor; [eapply extract_is_ref; eauto | constructor].
  - injection Hx as <- <-. repeat constructor.
  - injection Hx as <- <-. repeat constructor.
  - destruct (extract c st (ELookahead l)) as [r st1] eqn:E1. injection Hx as <- <-. constructor; [eapply extract_is_ref; eauto | constructor].
  - destruct (expand_expr c st e) as [el st1] eqn:E1.
    destruct s as [sp|].
    + destruct (expand_expr c st1 sp) as [spl st2] eqn:E2.
      match type of Hx with (let '(ret, st) := ?G in _) = _ => destruct G as [ret st4] eqn:E3 end.
      destruct (negb (Z.odd f) && Z.odd (Z.lor f 1)).
      * match type of Hx with (let '(ret, st) := ?G in _) = _ => destruct G as [ret2 st5] eqn:E4 end.
        injection Hx as <- <-. constructor; [eapply extract_is_ref; eauto | constructor].
      * injection Hx as <- <-. constructor; [eapply extract_is_ref; eauto | constructor].
    + match type of Hx with (let '(ret, st) := ?G in _) = _ => destruct G as [ret st4] eqn:E3 end.
      destruct (negb (Z.odd f) && Z.odd f).
      * match type of Hx with (let '(ret, st) := ?G in _) = _ => destruct G as [ret2 st5] eqn:E4 end.
        injection Hx as <- <-. constructor; [eapply extract_is_ref; eauto | constructor].
      * injection Hx as <- <-. constructor; [eapply extract_is_ref; eauto | constructor].
Qed.

(* ---------- rules and whole nonterminals (phase 1) ---------- *)
Section Nonterm.
  Variable T : Z.
  Variable rho : Z -> lang.
  Variable setden : Z -> Z -> Prop.
  Notation den := (den T rho setden).
  Variable c : xctx.
  Hypothesis HT : T = cT c.
  Notation good := (good T rho setden c).
  Notation consistent := (consistent T rho setden c).

  Lemma expand_rule_good rule st alts st' : expand_rule c st rule = (alts, st') -> good st st' rule alts.
  Proof.
    destruct rule; cbn [expand_rule]; try (apply expand_expr_good; exact HT).
    intro Hx. destruct (expand_expr c st rule) as [r st1] eqn:E1. injection Hx as <- <-.
    destruct (expand_expr_good T rho setden c HT _ _ _ _ E1) as (Hp & Hf & Hd). split; auto. split; auto.
    intros Hc Hnf w. rewrite (lang_any_map_wrap T rho setden (EPrec sym) r); [apply (Hd Hc Hnf)|].
    intros v u. cbn [ExtLang.den]. tauto.
  Qed.

  Theorem expand_nonterm_good v st v' st' : expand_nonterm c st v = (v', st') ->
    prefix st st' /\ fatal_mono st st' /\
    (consistent st' -> x_fatal st' = false -> forall w, den v w <-> den v' w).
  Proof.
    assert (Gdef : forall v, (let '(r, st) := expand_rule c st v in (EChoice (collapse_empty r), st)) = (v', st') ->
              prefix st st' /\ fatal_mono st st' /\
              (consistent st' -> x_fatal st' = false -> forall w, den v w <-> den v' w)).
    { intros v0 Hx. destruct (expand_rule c st v0) as [r st1] eqn:E1. injection Hx as <- <-.
      destruct (expand_rule_good _ _ _ _ E1) as (Hp & Hf & Hd). split; auto. split; auto. intros Hc Hnf w.
      cbn [ExtLang.den]. rewrite den_collapse_empty. apply (Hd Hc Hnf). }
    destruct v; cbn [expand_nonterm]; try apply Gdef.
    - (* Choice of rules *)
      intro Hx.
      assert (G : forall rules out st out' st',
                fold_left (fun '(out, st) rule => let '(r, st) := expand_rule c st rule in (out ++ r, st)) rules (out, st) = (out', st') ->
                prefix st st' /\ fatal_mono st st' /\
                (consistent st' -> x_fatal st' = false -> forall w,
                   lang_any (map den out') w <-> lang_any (map den out) w \/ lang_any (map den rules) w)).
      { clear Hx Gdef. clear st v' st' es. induction rules as [|x rules IH]; intros out st out' st' Hx; cbn [fold_left] in Hx.
        - injection Hx as <- <-. split; [apply prefix_refl|]. split; [now intro|]. intros _ _ w. cbn. tauto.
        - destruct (expand_rule c st x) as [r st1] eqn:E1.
          destruct (expand_rule_good _ _ _ _ E1) as (Hp1 & Hf1 & Hd1). destruct (IH _ _ _ _ Hx) as (Hp2 & Hf2 & Hd2).
          split; [eapply prefix_trans; eauto|]. split; [unfold fatal_mono in *; intro; auto|]. intros Hc Hnf w.
          assert (Hnf1 : x_fatal st1 = false) by (apply (not_fatal_back _ _ Hf2 Hnf)).
          rewrite (Hd2 Hc Hnf w), map_app, lang_any_app. cbn [map lang_any].
          rewrite (Hd1 (consistent_prefix _ _ _ _ _ _ Hp2 Hc) Hnf1 w). tauto. }
      destruct (fold_left _ es ([], st)) as [out st1] eqn:E1. injection Hx as <- <-.
      destruct (G _ _ _ _ _ E1) as (Hp & Hf & Hd). split; auto. split; auto. intros Hc Hnf w.
      cbn [ExtLang.den]. rewrite den_collapse_empty, (Hd Hc Hnf w). cbn. tauto.
    - intro Hx. injection Hx as <- <-. split; [apply prefix_refl|]. split; [now intro|]. tauto.
    - intro Hx. injection Hx as <- <-. split; [apply prefix_refl|]. split; [now intro|]. tauto.
  Qed.
End Nonterm.
