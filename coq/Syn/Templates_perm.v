(* C14: the final sort of Instantiate (by nonterminal and suffix) builds a permutation, for every model. *)
From Coq Require Import List ZArith Bool Arith Lia Permutation.
From TM Require Import Util.Ident Gram.Cfg Syn.Expr Syn.Expand Syn.ExtLang Syn.Expand_global Syn.Expand_correct Syn.SortPerm
  Syn.Templates Syn.Templates_proofs Syn.Templates_global.
Import ListNotations.
Local Open Scope Z_scope.

Lemma insert_inst_perm keys x l : Permutation (insert_inst keys x l) (x :: l).
Proof.
  induction l as [|y l IH]; cbn [insert_inst]; [apply Permutation_refl|].
  destruct (inst_lt (keys x) (keys y)); [apply Permutation_refl|].
  eapply Permutation_trans; [apply perm_skip; exact IH|apply perm_swap].
Qed.

Lemma sort_inst_perm keys l : forall acc,
  Permutation (fold_left (fun acc x => insert_inst keys x acc) l acc) (l ++ acc).
Proof.
  induction l as [|x l IH]; intro acc; cbn [fold_left app]; [apply Permutation_refl|].
  eapply Permutation_trans; [apply IH|]. eapply Permutation_trans; [apply Permutation_app_head, insert_inst_perm|].
  apply Permutation_sym, Permutation_middle.
Qed.

(* sort IS a permutation: no side condition *)
Theorem inst_perm_ok m insts : perm_ok (inst_perm m insts) (length insts) = true.
Proof.
  unfold inst_perm. apply inverse_perm_ok.
  eapply Permutation_trans; [apply sort_inst_perm|]. rewrite app_nil_r. apply Permutation_refl.
Qed.

Theorem inst_checks_core_implies fuel m : inst_checks_core fuel m = true -> inst_checks fuel m = true.
Proof.
  unfold inst_checks_core, inst_checks. destruct (m_params m); [auto|].
  destruct (inst_loop fuel (nterms m) (m_nonterms m) O (inst_start m) []) as [vals st] eqn:Hloop.
  intro H. apply andb_true_iff in H as [H Hb]. apply andb_true_iff in H as [Hnf Hnd].
  rewrite Hnf, Hnd, Hb. cbn [andb]. rewrite andb_true_r.
  apply negb_true_iff in Hnf.
  destruct (inst_facts (nterms m) (m_nonterms m) fuel (inst_start m) vals st Hloop Hnf) as [-> _].
  apply inst_perm_ok.
Qed.

Theorem instantiate_correct_core setden fuel m :
  m_params m <> [] -> inst_checks_core fuel m = true -> 0 <= nterms m ->
  let st := snd (inst_loop fuel (nterms m) (m_nonterms m) O (inst_start m) []) in
  forall k cur, nth_error (is_list st) k = Some cur -> forall w,
    tlfp (nterms m) setden (m_nonterms m) (nterms m + i_nt cur) (i_sig cur) w <->
    lfp (nterms m) setden (map val3 (tr_nonterms (instantiate fuel m)))
        (nterms m + Z.of_nat (nth k (inst_perm m (is_list st)) O)) w.
Proof. intros Hp Hc. apply instantiate_correct; [exact Hp|now apply inst_checks_core_implies]. Qed.
