From Coq Require Import List ZArith Bool Arith Lia.
From TM Require Import Util.Ident Gram.Cfg Gram.Derive Syn.Expr Syn.Expand Syn.ExtLang Syn.Expand_proofs Syn.Expand_global.
Import ListNotations.
Local Open Scope Z_scope.

(* ---------- the least solution of a flat table is the derivation relation of the grammar read from it ---------- *)
Scheme derives_mut := Induction for derives Sort Prop
  with derives_seq_mut := Induction for derives_seq Sort Prop.

Section Bridge.
  Variable T : Z.
  Variable setden : Z -> Z -> Prop.
  Hypothesis HT : 0 <= T.

  (* the language of one symbol under an interpretation of the nonterminals *)
  Definition sym_lang (rho : Z -> lang) (s : Z) : lang := if s <? T then (fun w => w = [s]) else rho s.

  Lemma flat_den rho : forall a rhs, rhs_of a = Some rhs ->
    forall w, den T rho setden a w <-> lang_cat (map (sym_lang rho) rhs) w.
  Proof.
    induction a using expr_ind2; intros rhs Hr w; cbn [rhs_of] in Hr; try discriminate; cbn [den].
    - injection Hr as <-. cbn. unfold lang_eps. tauto.
    - (* Sequence *)
      revert rhs Hr w. induction H as [|x l Hx Hl IH]; intros rhs Hr w; cbn [map fold_right] in Hr.
      + injection Hr as <-. cbn. tauto.
      + destruct (rhs_of x) as [r1|] eqn:E1; [|discriminate].
        destruct (fold_right _ (Some []) (map rhs_of l)) as [r2|] eqn:E2; [|discriminate]. injection Hr as <-.
        cbn [map lang_cat]. rewrite map_app, lang_cat_app. split.
        * intros (w1 & w2 & -> & H1 & H2). exists w1, w2. repeat split; auto; [now apply (Hx r1 eq_refl) | now apply (IH r2 eq_refl)].
        * intros (w1 & w2 & -> & H1 & H2). exists w1, w2. repeat split; auto; [now apply (Hx r1 eq_refl) | now apply (IH r2 eq_refl)].
    - injection Hr as <-. cbn [map]. rewrite lang_cat_one. unfold sym_lang. tauto.
    - auto.
    - auto.
    - auto.
    - injection Hr as <-. cbn. unfold lang_eps. tauto.
    - injection Hr as <-. cbn. unfold lang_eps. tauto.
    - auto.
  Qed.

  Variable vals : list expr.
  (* every value is a choice of flat rules over non-negative symbols *)
  Hypothesis Hflat : forall k, (k < length vals)%nat ->
    exists alts, nth k vals (EChoice []) = EChoice alts /\
      forall a, In a alts -> exists rhs, rhs_of a = Some rhs /\ forall s, In s rhs -> 0 <= s.

  Variable g : grammar.
  Hypothesis Hterms : g_terms g = T.
  (* the rules of g are exactly the flat alternatives of the table *)
  Hypothesis Hrules : forall r, In r (g_rules g) <->
    exists k alts a, (k < length vals)%nat /\ nth k vals (EChoice []) = EChoice alts /\ In a alts /\
                     r_lhs r = T + Z.of_nat k /\ rhs_of a = Some (r_rhs r) /\ r_prec r = 0.

  Lemma seq_of_lang rhs : (forall s, In s rhs -> 0 <= s) ->
    forall (rho : Z -> lang), (forall s w, T <= s -> rho s w -> derives g s w) ->
    forall w, lang_cat (map (sym_lang rho) rhs) w -> derives_seq g rhs w.
  Proof.
    intros Hpos rho Hrho. induction rhs as [|s rhs IH]; intro w; cbn [map lang_cat].
    - intros ->. constructor.
    - intros (w1 & w2 & -> & H1 & H2). constructor; [|apply IH; auto; intros; apply Hpos; now right].
      unfold sym_lang in H1. destruct (s <? T) eqn:Es.
      + subst w1. apply d_term. unfold is_term. rewrite Hterms, Es. rewrite andb_true_r. apply Z.leb_le. apply Hpos. now left.
      + apply Hrho; auto. now apply Z.ltb_ge.
  Qed.

  Theorem lfp_derives : forall X w, lfp T setden vals X w -> T <= X -> derives g X w.
  Proof.
    intros X w Hl HX.
    set (rho := fun Y u => T <= Y /\ derives g Y u).
    assert (Hp : prefixpoint T setden vals rho).
    { intros Y u Hin Hd. split; [destruct Hin; lia|]. destruct (in_sys_self T vals Y Hin) as (k & Hk & ->).
      destruct (Hflat k Hk) as (alts & Ev & Ha). unfold value_of in Hd. replace (Z.to_nat (T + Z.of_nat k - T)) with k in Hd by lia.
      rewrite Ev in Hd. cbn [den] in Hd. apply lang_any_map in Hd as (a & Hin_a & Hda).
      destruct (Ha a Hin_a) as (rhs & Er & Hpos). rewrite (flat_den rho a rhs Er) in Hda.
      assert (Hr : In (mkRule (T + Z.of_nat k) rhs 0) (g_rules g)).
      { apply Hrules. exists k, alts, a. repeat split; auto. }
      apply (d_rule g _ u Hr). cbn [r_rhs]. apply (seq_of_lang rhs Hpos rho); [|exact Hda]. intros s v _ [_ Hv]. exact Hv. }
    exact (proj2 (Hl rho Hp)).
  Qed.

  Theorem derives_lfp : forall X w, derives g X w -> T <= X -> lfp T setden vals X w.
  Proof.
    intros X w Hd.
    apply (derives_mut g
             (fun X w _ => T <= X -> lfp T setden vals X w)
             (fun xs w _ => lang_cat (map (sym_lang (lfp T setden vals)) xs) w)); auto.
    - (* terminal *) intros a Ha Hge. unfold is_term in Ha. rewrite Hterms in Ha. apply andb_true_iff in Ha as [_ Ha]. apply Z.ltb_lt in Ha. lia.
    - (* rule *)
      intros r u Hr Hseq IH _. apply Hrules in Hr as (k & alts & a & Hk & Ev & Hin_a & Hl & Er & _). rewrite Hl.
      apply lfp_prefixpoint; [split; lia|]. unfold value_of. replace (Z.to_nat (T + Z.of_nat k - T)) with k by lia.
      rewrite Ev. cbn [den]. apply lang_any_map. exists a. split; auto. now apply (flat_den _ a (r_rhs r) Er).
    - (* empty sequence *) reflexivity.
    - (* cons *)
      intros x xs w1 w2 Hx IHx Hxs IHxs. cbn [map lang_cat]. exists w1, w2. repeat split; auto.
      unfold sym_lang. destruct (x <? T) eqn:Ex.
      + inversion Hx; subst; [reflexivity|].
        (* a rule with a terminal on the left: impossible, left-hand sides are nonterminals *)
        match goal with H : In _ (g_rules g) |- _ => apply Hrules in H as (k & _ & _ & _ & _ & _ & Hl & _) end.
        apply Z.ltb_lt in Ex. lia.
      + apply IHx. now apply Z.ltb_ge.
  Qed.

  (* the language of a nonterminal of a flat table is what the plain grammar derives *)
  Theorem flat_table_language : forall X w, T <= X -> (lfp T setden vals X w <-> derives g X w).
  Proof. intros X w HX. split; [intro H; now apply lfp_derives | intro H; now apply derives_lfp]. Qed.
End Bridge.


Lemma fold_right_opt_app {A B} (f : A -> option (list B)) (l : list A) rs :
  fold_right (fun x acc => match f x, acc with Some a, Some b => Some (a ++ b) | _, _ => None end) (Some []) l = Some rs ->
  forall r, In r rs <-> exists x a, In x l /\ f x = Some a /\ In r a.
Proof.
  revert rs. induction l as [|x l IH]; intros rs H r; cbn [fold_right] in H.
  - injection H as <-. split; [intros [] | intros (x & a & [] & _)].
  - destruct (f x) as [a|] eqn:Ef; [|discriminate].
    destruct (fold_right _ (Some []) l) as [b|] eqn:Eb; [|discriminate]. injection H as <-.
    rewrite in_app_iff, (IH b eq_refl r). split.
    + intros [Ha | (y & c & Hy & Hc & Hr)]; [exists x, a; split; [now left | auto] | exists y, c; split; [now right | auto]].
    + intros (y & c & [<- | Hy] & Hc & Hr); [left; congruence | right; eauto].
Qed.

Lemma rules_of_choice X alts rs :
  fold_right (fun a acc => match rhs_of a, acc with Some r, Some rs => Some (mkRule X r 0 :: rs) | _, _ => None end) (Some []) alts = Some rs ->
  forall r, In r rs <-> exists a, In a alts /\ rhs_of a = Some (r_rhs r) /\ r_lhs r = X /\ r_prec r = 0.
Proof.
  revert rs. induction alts as [|a alts IH]; intros rs H r; cbn [fold_right] in H.
  - injection H as <-. split; [intros [] | intros (a & [] & _)].
  - destruct (rhs_of a) as [ra|] eqn:Ea; [|discriminate].
    destruct (fold_right _ (Some []) alts) as [b|] eqn:Eb; [|discriminate]. injection H as <-.
    cbn [In]. rewrite (IH b eq_refl r). split.
    + intros [<- | (y & Hy & Hr)]; [exists a; cbn; auto | exists y; split; [now right | auto]].
    + intros (y & [<- | Hy] & Hr & Hl & Hp); [left; destruct r; cbn in *; congruence | right; eauto].
Qed.

Lemma in_combine_seq {A} (l : list A) d k v : In (k, v) (List.combine (seq 0 (length l)) l) <-> (k < length l)%nat /\ v = nth k l d.
Proof.
  assert (G : forall s, In (k, v) (List.combine (seq s (length l)) l) <-> (s <= k < s + length l)%nat /\ v = nth (k - s) l d).
  { induction l as [|x l IH]; intro s; cbn [length seq List.combine In].
    - split; [tauto | lia].
    - rewrite IH. split.
      + intros [H | [H1 H2]]; [injection H as <- <-; split; [lia | now rewrite Nat.sub_diag]|].
        split; [lia|]. replace (k - s)%nat with (S (k - S s)) by lia. exact H2.
      + intros [H1 H2]. destruct (Nat.eq_dec k s) as [->|N]; [left; rewrite Nat.sub_diag in H2; now subst|].
        right. split; [lia|]. replace (k - s)%nat with (S (k - S s)) in H2 by lia. exact H2. }
  rewrite G. rewrite Nat.sub_0_r. split; intros [H1 H2]; split; auto; lia.
Qed.

(* the grammar computed by to_cfg from a table of flat choices has the language of the table *)
Theorem to_cfg_language T setden vals g :
  0 <= T ->
  to_cfg T (fun _ => []) vals = Some g ->
  (forall k, (k < length vals)%nat ->
    exists alts, nth k vals (EChoice []) = EChoice alts /\
      forall a, In a alts -> exists rhs, rhs_of a = Some rhs /\ forall s, In s rhs -> 0 <= s) ->
  forall X w, T <= X -> (lfp T setden vals X w <-> derives g X w).
Proof.
  intros HT Hg Hflat. unfold to_cfg in Hg.
  destruct (fold_right _ (Some []) (List.combine (seq 0 (length vals)) vals)) as [rules|] eqn:Er; [|discriminate].
  injection Hg as <-. apply (flat_table_language T setden vals Hflat); [reflexivity|].
  intro r. cbn [g_rules].
  assert (Er' : fold_right (fun x acc => match (fun '(k, v) => rules_of_nonterm (fun _ => []) (T + Z.of_nat k) v) x, acc with
                                         | Some a, Some b => Some (a ++ b) | _, _ => None end)
                           (Some []) (List.combine (seq 0 (length vals)) vals) = Some rules).
  { rewrite <- Er. clear. induction (List.combine (seq 0 (length vals)) vals) as [|[k v] l IH]; [reflexivity|].
    cbn [fold_right]. now rewrite IH. }
  rewrite (fold_right_opt_app _ _ rules Er').
  split.
    + intros ([k v] & a & Hin & Hf & Hr). apply (in_combine_seq vals (EChoice [])) in Hin as [Hk ->].
      destruct (Hflat k Hk) as (alts & Ev & _). rewrite Ev in Hf. cbn [rules_of_nonterm] in Hf.
      apply (rules_of_choice _ alts a Hf) in Hr as (alt & Halt & Hrhs & Hl & Hp). exists k, alts, alt. auto 10.
    + intros (k & alts & a & Hk & Ev & Ha & Hl & Hrhs & Hprec).
      destruct (Hflat k Hk) as (alts' & Ev' & _). assert (alts' = alts) by congruence. subst alts'.
      (* the rules of nonterminal k exist because the whole fold succeeded *)
      assert (Hin : In (k, EChoice alts) (List.combine (seq 0 (length vals)) vals)).
      { apply (in_combine_seq vals (EChoice [])). split; auto. }
      assert (Hsome : exists rs, rules_of_nonterm (fun _ => []) (T + Z.of_nat k) (EChoice alts) = Some rs).
      { clear -Er Hin. revert rules Er. induction (List.combine (seq 0 (length vals)) vals) as [|[k0 v0] l IH]; intros rules Er; [destruct Hin|].
        cbn [fold_right] in Er. destruct (rules_of_nonterm _ (T + Z.of_nat k0) v0) as [a0|] eqn:E0; [|discriminate].
        destruct (fold_right _ (Some []) l) as [b|] eqn:Eb; [|discriminate].
        destruct Hin as [H | H]; [injection H as -> ->; eauto | eapply IH; eauto]. }
      destruct Hsome as (rs & Hrs). exists (k, EChoice alts), rs. split; [exact Hin|]. split; [exact Hrs|].
      cbn [rules_of_nonterm] in Hrs. apply (rules_of_choice _ alts rs Hrs). exists a. repeat split; auto.
Qed.
