(* Step-by-step model of syntax/types.go ExtractTypes (EventFields mode): newTypeCollector (reachable
   nonterminals, arrows, token set), resolveTypes, resolveFields (exprPhrase for every Expr kind, nontermPhrase
   with its Tarjan state and the cycle rule, concatPhrases, mergePhrases with graph.LongestPath and topoSort,
   mergeFields), resolveCategories (cardinality walk + the union closure) and fixConflictingFields.
   Names are byte strings (list N) compared like Go strings. Executable definitions only; proofs are in
   Infer_proofs.v. *)
From Coq Require Import List NArith ZArith Bool Arith.
Import ListNotations.
Local Open Scope nat_scope.

(* ---------- strings ---------- *)
Definition str := list N.

Fixpoint str_eqb (a b : str) : bool :=
  match a, b with
  | [], [] => true
  | x :: a', y :: b' => N.eqb x y && str_eqb a' b'
  | _, _ => false
  end.

Fixpoint str_ltb (a b : str) : bool :=
  match a, b with
  | _, [] => false
  | [], _ :: _ => true
  | x :: a', y :: b' => if N.ltb x y then true else if N.ltb y x then false else str_ltb a' b'
  end.

(* sort.Strings followed by the removal of adjacent duplicates (sortAndDedup) *)
Fixpoint str_insert (s : str) (l : list str) : list str :=
  match l with
  | [] => [s]
  | x :: r => if str_ltb s x then s :: l else if str_eqb s x then l else x :: str_insert s r
  end.
Definition sort_dedup (l : list str) : list str := fold_left (fun acc s => str_insert s acc) l [].

Fixpoint nat_insert (n : nat) (l : list nat) : list nat :=
  match l with
  | [] => [n]
  | x :: r => if n <? x then n :: l else if n =? x then l else x :: nat_insert n r
  end.
Definition nat_sort_dedup (l : list nat) : list nat := fold_left (fun acc s => nat_insert s acc) l [].

Definition mem_nat (n : nat) (l : list nat) : bool := existsb (Nat.eqb n) l.
Definition mem_str (s : str) (l : list str) : bool := existsb (str_eqb s) l.

Fixpoint index_str (s : str) (l : list str) (i : nat) : option nat :=
  match l with
  | [] => None
  | x :: r => if str_eqb s x then Some i else index_str s r (S i)
  end.

Fixpoint assoc_nat {A} (k : nat) (l : list (nat * A)) : option A :=
  match l with
  | [] => None
  | (k', v) :: r => if k =? k' then Some v else assoc_nat k r
  end.

Fixpoint set_nth {A} (i : nat) (v : A) (l : list A) : list A :=
  match l, i with
  | [], _ => []
  | _ :: r, O => v :: r
  | x :: r, S j => x :: set_nth j v r
  end.

(* ---------- the grammar as ExtractTypes sees it (after Instantiate, before Expand) ---------- *)
Inductive expr :=
| XEmpty                                   (* Empty, Set, StateMarker, Command *)
| XLook                                    (* Lookahead, LookaheadNot: never descended into *)
| XRef (sym : nat)                         (* terminal (sym < nterms) or nonterminal *)
| XArrow (name : str) (e : expr)
| XSeq (l : list expr)
| XChoice (l : list expr)
| XAssign (name : str) (e : expr)
| XAppend (name : str) (e : expr)
| XOpt (e : expr)
| XList (e sep : expr) (one_or_more : bool) (* sep = XEmpty when there is no separator *)
| XPrec (e : expr).

Record model := mkModel {
  m_nterms : nat;
  m_nonterms : list expr;
  m_inputs : list (nat * bool);      (* nonterminal, synthetic *)
  m_cats : list str;
  m_tokens : list (nat * str)        (* RangeToken: terminal -> node name *)
}.

Definition ignore_content : str :=  (* "__ignoreContent" *)
  [95;95;105;103;110;111;114;101;67;111;110;116;101;110;116]%N.

Definition body (m : model) (nt : nat) : expr := nth nt (m_nonterms m) XEmpty.

(* ---------- newTypeCollector ---------- *)
Fixpoint reach (fuel : nat) (m : model) (nt : nat) (seen : list nat) {struct fuel} : list nat :=
  match fuel with
  | O => seen
  | S f =>
      if mem_nat nt seen then seen else
      (fix go (e : expr) (seen : list nat) {struct e} : list nat :=
         match e with
         | XEmpty | XLook => seen
         | XRef sym => if m_nterms m <=? sym then reach f m (sym - m_nterms m) seen else seen
         | XArrow _ e1 | XAssign _ e1 | XAppend _ e1 | XOpt e1 | XPrec e1 => go e1 seen
         | XList e1 s _ => go s (go e1 seen)
         | XSeq l | XChoice l =>
             (fix gol (l : list expr) (seen : list nat) {struct l} : list nat :=
                match l with [] => seen | x :: r => gol r (go x seen) end) l seen
         end) (body m nt) (nt :: seen)
  end.

Definition reachable (m : model) : list nat :=
  nat_sort_dedup (fold_left (fun (seen : list nat) '((nt, synthetic) : nat * bool) => if synthetic then seen else reach (S (length (m_nonterms m))) m nt seen)
                            (m_inputs m) []).

(* arrows in visiting order (an arrow before the arrows of its body) *)
Fixpoint arrows_of (e : expr) : list (str * expr) :=
  match e with
  | XEmpty | XLook | XRef _ => []
  | XArrow n b => (n, b) :: arrows_of b
  | XAssign _ e1 | XAppend _ e1 | XOpt e1 | XPrec e1 => arrows_of e1
  | XList e1 s _ => arrows_of e1 ++ arrows_of s
  | XSeq l | XChoice l => flat_map arrows_of l
  end.

(* terminals referenced outside lookaheads *)
Fixpoint terms_of (nterms : nat) (e : expr) : list nat :=
  match e with
  | XEmpty | XLook => []
  | XRef sym => if sym <? nterms then [sym] else []
  | XArrow _ e1 | XAssign _ e1 | XAppend _ e1 | XOpt e1 | XPrec e1 => terms_of nterms e1
  | XList e1 s _ => terms_of nterms e1 ++ terms_of nterms s
  | XSeq l | XChoice l => flat_map (terms_of nterms) l
  end.

Definition is_cat (m : model) (name : str) : bool := mem_str name (m_cats m).
Definition tok_name (m : model) (sym : nat) : option str := assoc_nat sym (m_tokens m).

Definition all_arrows (m : model) : list (str * expr) := flat_map (fun nt => arrows_of (body m nt)) (reachable m).

Definition token_set (m : model) : list nat :=
  nat_sort_dedup (filter (fun t => match tok_name m t with Some _ => true | None => false end)
                         (flat_map (fun nt => terms_of (m_nterms m) (body m nt)) (reachable m))).

(* ---------- resolveTypes: the names of out.RangeTypes ---------- *)
Definition type_names (m : model) : list str :=
  let types := sort_dedup (map fst (filter (fun '(n, _) => negb (is_cat m n) && negb (str_eqb n ignore_content)) (all_arrows m))) in
  fold_left (fun acc '(_, n) => if mem_str n acc then acc else acc ++ [n]) (m_tokens m) types.

Definition type_index (tnames : list str) (n : str) : nat :=
  match index_str n tnames 0 with Some i => i | None => 0 end.

(* ---------- fields and phrases ---------- *)
Record pfield := mkPF {
  pf_name : str;             (* non-empty iff set explicitly *)
  pf_types : list str;
  pf_list : bool;
  pf_null : bool;
  pf_ident : str
}.

Record phrase := mkPh { ph_fields : list pfield; ph_ordered : bool }.

Fixpoint join_types (l : list str) : str :=
  match l with
  | [] => []
  | [t] => t
  | t :: r => t ++ [124%N] ++ join_types r
  end.

Definition identity_of (name : str) (types : list str) : str :=
  match name with
  | [] => 61%N :: join_types types
  | _ => name
  end.

Definition new_phrase (name : str) : phrase :=
  mkPh [mkPF [] [name] false false (identity_of [] [name])] true.

Definition merge_fields (first : pfield) (rest : list pfield) : pfield :=
  let r := fold_left (fun ret f =>
             mkPF (if str_eqb (pf_name f) (pf_name ret) then pf_name ret else [])
                  (pf_types ret ++ pf_types f) (pf_list ret || pf_list f) (pf_null ret || pf_null f) (pf_ident ret))
           rest first in
  mkPF (pf_name r) (sort_dedup (pf_types r)) (pf_list r) (pf_null r) (pf_ident r).

Fixpoint find_ident (id : str) (fs : list pfield) (i : nat) : option nat :=
  match fs with
  | [] => None
  | f :: r => if str_eqb id (pf_ident f) then Some i else find_ident id r (S i)
  end.

Definition dummy_field : pfield := mkPF [] [] false false [].

Definition set_list (f : pfield) : pfield := mkPF (pf_name f) (pf_types f) true (pf_null f) (pf_ident f).
Definition set_null (f : pfield) : pfield := mkPF (pf_name f) (pf_types f) (pf_list f) true (pf_ident f).

Definition concat_step (ret : phrase) (f : pfield) : phrase :=
  match find_ident (pf_ident f) (ph_fields ret) 0 with
  | Some i =>
      let merged := set_list (merge_fields (nth i (ph_fields ret) dummy_field) [f]) in
      mkPh (set_nth i merged (ph_fields ret)) (ph_ordered ret && (S i =? length (ph_fields ret)))
  | None => mkPh (ph_fields ret ++ [f]) (ph_ordered ret)
  end.

Definition concat_phrases (ps : list phrase) : phrase :=
  fold_left (fun ret p => fold_left concat_step (ph_fields p) (mkPh (ph_fields ret) (ph_ordered ret && ph_ordered p)))
            ps (mkPh [] true).

(* ---- graph.LongestPath ---- *)
Record lp_st := mkLp { lp_data : list (Z * Z); lp_cycle : bool }.

Fixpoint lp_dfs (fuel : nat) (g : list (list nat)) (i : nat) (st : lp_st) {struct fuel} : lp_st :=
  match fuel with
  | O => st
  | S f =>
      let h := fst (nth i (lp_data st) (0, 0)%Z) in
      if negb (h =? 0)%Z then (if (h =? -1)%Z then mkLp (lp_data st) true else st)
      else
        let st1 := mkLp (set_nth i (-1, snd (nth i (lp_data st) (0, 0)%Z))%Z (lp_data st)) (lp_cycle st) in
        let '(st2, ret) :=
          fold_left (fun '(st, ret) next =>
                       let st' := lp_dfs f g next st in
                       let height := fst (nth next (lp_data st') (0, 0)%Z) in
                       if (fst ret <=? height)%Z then (st', (height + 1, Z.of_nat next)%Z) else (st', ret))
                    (nth i g []) (st1, (1, -1)%Z) in
        mkLp (set_nth i ret (lp_data st2)) (lp_cycle st2)
  end.

Fixpoint lp_follow (fuel : nat) (data : list (Z * Z)) (i : Z) : list nat :=
  match fuel with
  | O => []
  | S f => if (i <? 0)%Z then [] else Z.to_nat i :: lp_follow f data (snd (nth (Z.to_nat i) data (0, -1)%Z))
  end.

Definition longest_path (g : list (list nat)) : list nat :=
  let n := length g in
  let '(st, first) :=
    fold_left (fun '(st, first) i =>
                 let st' := lp_dfs (S n) g i st in
                 let better := (first <? 0)%Z ||
                               (fst (nth (Z.to_nat first) (lp_data st') (0, 0)%Z) <? fst (nth i (lp_data st') (0, 0)%Z))%Z in
                 (st', if better then Z.of_nat i else first))
              (seq 0 n) (mkLp (repeat (0, 0)%Z n) false, (-1)%Z) in
  if lp_cycle st then [] else lp_follow (S n) (lp_data st) first.

(* ---- topoSort: heights (cycle tolerant), then groups ordered by (height, identity of the first field) ---- *)
Fixpoint topo_height (fuel : nat) (g : list (list nat)) (i : nat) (st : list Z * list bool) {struct fuel}
  : Z * (list Z * list bool) :=
  match fuel with
  | O => (0%Z, st)
  | S f =>
      let '(height, done) := st in
      if nth i done false then (nth i height 0%Z, st)
      else
        let st1 := (height, set_nth i true done) in
        let '(ret, st2) :=
          fold_left (fun '(ret, st) e =>
                       let '(v, st') := topo_height f g e st in
                       if (ret <? v + 1)%Z then ((v + 1)%Z, st') else (ret, st'))
                    (nth i g []) (0%Z, st1) in
        (ret, (set_nth i ret (fst st2), snd st2))
  end.

Definition topo_heights (g : list (list nat)) : list Z :=
  let n := length g in
  fst (fold_left (fun st i => snd (topo_height (S n) g i st)) (seq 0 n) (repeat 0%Z n, repeat false n)).

Definition group_ident (grp : list pfield) : str := match grp with f :: _ => pf_ident f | [] => [] end.

Fixpoint topo_insert (x : Z * list pfield) (l : list (Z * list pfield)) : list (Z * list pfield) :=
  match l with
  | [] => [x]
  | y :: r =>
      if (fst x <? fst y)%Z || ((fst x =? fst y)%Z && str_ltb (group_ident (snd x)) (group_ident (snd y)))
      then x :: l else y :: topo_insert x r
  end.

Definition topo_sort (groups : list (list pfield)) (g : list (list nat)) : list (list pfield) :=
  map snd (fold_left (fun acc x => topo_insert x acc) (combine (topo_heights g) groups) []).

(* ---- mergePhrases ---- *)
Fixpoint find_group (id : str) (groups : list (list pfield)) (i : nat) : option nat :=
  match groups with
  | [] => None
  | grp :: r => if str_eqb id (group_ident grp) then Some i else find_group id r (S i)
  end.

Record mg_st := mkMg { mg_groups : list (list pfield); mg_g : list (list nat) }.

Definition merge_field_step (acc : mg_st * nat * nat) (f : pfield) : mg_st * nat * nat :=
  let '(st, prev, i) := acc in
  let '(index, st1) :=
    match find_group (pf_ident f) (mg_groups st) 0 with
    | None => (length (mg_groups st), mkMg (mg_groups st ++ [[f]]) (mg_g st ++ [[]]))
    | Some index => (index, mkMg (set_nth index (nth index (mg_groups st) [] ++ [f]) (mg_groups st)) (mg_g st))
    end in
  let st2 := if 0 <? i then mkMg (mg_groups st1) (set_nth index (nth index (mg_g st1) [] ++ [prev]) (mg_g st1)) else st1 in
  (st2, index, S i).

Definition group_field (nphrases : nat) (grp : list pfield) : pfield :=
  match grp with
  | [] => dummy_field
  | f :: rest =>
      let m := merge_fields f rest in
      if length grp <? nphrases then set_null m else m
  end.

Definition merge_phrases (ps : list phrase) : phrase :=
  match ps with
  | [p] => p
  | _ =>
      let ordered := forallb ph_ordered ps in
      let st := fold_left (fun st p => fst (fst (fold_left merge_field_step (ph_fields p) (st, 0, 0)))) ps (mkMg [] []) in
      let n := length ps in
      let path := longest_path (mg_g st) in
      if ordered && (length path =? length (mg_g st)) then
        mkPh (map (fun index => group_field n (nth index (mg_groups st) [])) (rev path)) true
      else
        mkPh (map (group_field n) (topo_sort (mg_groups st) (mg_g st))) false
  end.

(* ---------- exprPhrase / nontermPhrase ---------- *)
Record tj := mkTj {
  tj_stack : list nat;
  tj_index : list Z;
  tj_low : list Z;
  tj_on : list nat;
  tj_self : list nat;
  tj_curr : Z;
  tj_ref : Z;                       (* referrer, -1 = none *)
  tj_cache : list (nat * phrase);
  tj_err : bool                     (* "multiple fields found behind an assignment" *)
}.

Definition init_tarjan (size : nat) : tj := mkTj [] (repeat (-1)%Z size) (repeat 0%Z size) [] [] 0 (-1) [] false.

Definition getz (l : list Z) (i : nat) : Z := nth i l 0%Z.

Definition tj_set_low (st : tj) (i : nat) (v : Z) : tj :=
  mkTj (tj_stack st) (tj_index st) (set_nth i v (tj_low st)) (tj_on st) (tj_self st) (tj_curr st) (tj_ref st)
       (tj_cache st) (tj_err st).
Definition tj_set_ref (st : tj) (r : Z) : tj :=
  mkTj (tj_stack st) (tj_index st) (tj_low st) (tj_on st) (tj_self st) (tj_curr st) r (tj_cache st) (tj_err st).
Definition tj_set_err (st : tj) : tj :=
  mkTj (tj_stack st) (tj_index st) (tj_low st) (tj_on st) (tj_self st) (tj_curr st) (tj_ref st) (tj_cache st) true.

Definition named_field (name : str) (append : bool) (f : pfield) : pfield :=
  mkPF name (pf_types f) (pf_list f || append) (pf_null f) (identity_of name (pf_types f)).

(* exprPhrase, with the handler of nonterminal references as a parameter *)
Fixpoint expr_phrase_with (np : nat -> tj -> phrase * tj) (m : model) (e : expr) (st : tj) {struct e} : phrase * tj :=
  match e with
  | XArrow name _ => if str_eqb name ignore_content then (mkPh [] true, st) else (new_phrase name, st)
  | XSeq l =>
      let '(ps, st') :=
        (fix go (l : list expr) (st : tj) {struct l} : list phrase * tj :=
           match l with
           | [] => ([], st)
           | x :: r => let '(p, st1) := expr_phrase_with np m x st in
                       let '(ps, st2) := go r st1 in (p :: ps, st2)
           end) l st in
      (concat_phrases ps, st')
  | XChoice l =>
      let '(ps, st') :=
        (fix go (l : list expr) (st : tj) {struct l} : list phrase * tj :=
           match l with
           | [] => ([], st)
           | x :: r => let '(p, st1) := expr_phrase_with np m x st in
                       let '(ps, st2) := go r st1 in (p :: ps, st2)
           end) l st in
      (merge_phrases ps, st')
  | XAssign name e1 =>
      let '(p, st1) := expr_phrase_with np m e1 st in
      match ph_fields p with
      | [f] => (mkPh [named_field name false f] true, st1)
      | _ => (p, tj_set_err st1)
      end
  | XAppend name e1 =>
      let '(p, st1) := expr_phrase_with np m e1 st in
      match ph_fields p with
      | [f] => (mkPh [named_field name true f] true, st1)
      | _ => (p, tj_set_err st1)
      end
  | XRef sym =>
      if m_nterms m <=? sym then np (sym - m_nterms m) st
      else match tok_name m sym with
           | Some n => (new_phrase n, st)
           | None => (mkPh [] true, st)
           end
  | XPrec e1 => expr_phrase_with np m e1 st
  | XOpt e1 =>
      let '(p, st1) := expr_phrase_with np m e1 st in
      (mkPh (map set_null (ph_fields p)) (ph_ordered p), st1)
  | XList e1 _ oom =>
      let '(p, st1) := expr_phrase_with np m e1 st in
      (mkPh (map (fun f => mkPF (pf_name f) (pf_types f) true (pf_null f || negb oom) (pf_ident f)) (ph_fields p)) (ph_ordered p), st1)
  | XEmpty | XLook => (mkPh [] true, st)
  end.

Fixpoint nonterm_phrase (fuel : nat) (m : model) (nt : nat) (st : tj) {struct fuel} : phrase * tj :=
  match fuel with
  | O => (mkPh [] false, tj_set_err st)
  | S f =>
      match assoc_nat nt (tj_cache st) with
      | Some p => (p, st)
      | None =>
          if (0 <=? getz (tj_index st) nt)%Z then
            (* already entered: only the Tarjan bookkeeping, an empty (unordered) phrase *)
            let st' :=
              if (0 <=? tj_ref st)%Z then
                let r := Z.to_nat (tj_ref st) in
                let st1 := if mem_nat nt (tj_on st) && (getz (tj_index st) nt <? getz (tj_low st) r)%Z
                           then tj_set_low st r (getz (tj_index st) nt) else st in
                let st2 := if (getz (tj_low st1) nt <? getz (tj_low st1) r)%Z
                           then tj_set_low st1 r (getz (tj_low st1) nt) else st1 in
                if r =? nt then mkTj (tj_stack st2) (tj_index st2) (tj_low st2) (tj_on st2) (nt :: tj_self st2)
                                     (tj_curr st2) (tj_ref st2) (tj_cache st2) (tj_err st2)
                else st2
              else st in
            (mkPh [] false, st')
          else
            let base := length (tj_stack st) in
            let old := tj_ref st in
            let st1 := mkTj (tj_stack st ++ [nt]) (set_nth nt (tj_curr st) (tj_index st)) (set_nth nt (tj_curr st) (tj_low st))
                            (nt :: tj_on st) (tj_self st) (tj_curr st + 1)%Z (Z.of_nat nt) (tj_cache st) (tj_err st) in
            let '(ret, st2) := expr_phrase_with (nonterm_phrase f m) m (body m nt) st1 in
            let st3 := tj_set_ref st2 old in
            let '(ret', st4) :=
              if (getz (tj_low st3) nt =? getz (tj_index st3) nt)%Z then
                let comp := skipn base (tj_stack st3) in
                let ret' := if (1 <? length comp) || mem_nat nt (tj_self st3)
                            then mkPh (map set_list (ph_fields ret)) false else ret in
                (ret', mkTj (firstn base (tj_stack st3)) (tj_index st3) (tj_low st3)
                            (filter (fun x => negb (mem_nat x comp)) (tj_on st3)) (tj_self st3) (tj_curr st3) (tj_ref st3)
                            (map (fun x => (x, ret')) comp ++ tj_cache st3) (tj_err st3))
              else (ret, st3) in
            let st5 := if (0 <=? tj_ref st4)%Z && (getz (tj_low st4) nt <? getz (tj_low st4) (Z.to_nat (tj_ref st4)))%Z
                       then tj_set_low st4 (Z.to_nat (tj_ref st4)) (getz (tj_low st4) nt) else st4 in
            (ret', st5)
      end
  end.

Definition expr_phrase (m : model) (e : expr) (st : tj) : phrase * tj :=
  expr_phrase_with (nonterm_phrase (S (length (m_nonterms m))) m) m e st.

(* ---------- resolveFields ---------- *)
Record rfield := mkRF {
  rf_name : str;
  rf_sel : list str;
  rf_after : Z;
  rf_req : bool;
  rf_list : bool
}.

Fixpoint out_fields (ordered : bool) (fs : list pfield) (i : Z) : list rfield :=
  match fs with
  | [] => []
  | f :: r =>
      mkRF (match pf_name f with [] => hd [] (pf_types f) | n => n end) (pf_types f)
           (if ordered then i - 1 else -1)%Z (negb (pf_null f)) (pf_list f)
      :: out_fields ordered r (i + 1)%Z
  end.

Definition type_phrase (m : model) (exprs : list expr) (st : tj) : phrase * tj :=
  let '(ps, st') := fold_left (fun '(ps, st) e => let '(p, st1) := expr_phrase m e st in (ps ++ [p], st1)) exprs ([], st) in
  (merge_phrases ps, st').

Definition resolve_fields (m : model) (tnames : list str) : list (list rfield) * bool :=
  let arrows := filter (fun '(n, _) => negb (is_cat m n) && negb (str_eqb n ignore_content)) (all_arrows m) in
  let '(out, st) :=
    fold_left (fun '(out, st) tn =>
                 let exprs := map snd (filter (fun '(n, _) => str_eqb n tn) arrows) in
                 match exprs with
                 | [] => (out ++ [[]], st)         (* a reported token *)
                 | _ => let '(p, st1) := type_phrase m exprs st in
                        (out ++ [out_fields (ph_ordered p) (ph_fields p) 0%Z], st1)
                 end)
              tnames ([], init_tarjan (length (m_nonterms m))) in
  (out, tj_err st).

(* ---------- resolveCategories ---------- *)
Record cst := mkCs {
  cs_nodes : list (list nat * list nat);   (* closure nodes: own elements, included nodes *)
  cs_nts : list (nat * nat);               (* nonterminal -> node *)
  cs_card : list (nat * N);
  cs_cycle : list nat;
  cs_target : nat;
  cs_err : bool
}.

Definition card_one : N := 1.
Definition card_nothing : N := 2.
Definition card_ambiguous : N := 4.

Definition cs_add (st : cst) (set : list nat) : nat * cst :=
  (length (cs_nodes st),
   mkCs (cs_nodes st ++ [(set, [])]) (cs_nts st) (cs_card st) (cs_cycle st) (cs_target st) (cs_err st)).

Definition cs_include (st : cst) (node : nat) : cst :=
  let t := cs_target st in
  let '(b, es) := nth t (cs_nodes st) ([], []) in
  mkCs (set_nth t (b, es ++ [node]) (cs_nodes st)) (cs_nts st) (cs_card st) (cs_cycle st) (cs_target st) (cs_err st).

Definition cs_set_err (st : cst) : cst :=
  mkCs (cs_nodes st) (cs_nts st) (cs_card st) (cs_cycle st) (cs_target st) true.
Definition cs_set_target (st : cst) (t : nat) : cst :=
  mkCs (cs_nodes st) (cs_nts st) (cs_card st) (cs_cycle st) t (cs_err st).

Definition is_one_or_nothing (c : N) : bool := N.eqb c card_one || N.eqb c card_nothing.

(* the cardinality walk; [catnode name] = node of a category, [np] handles nonterminal references *)
Fixpoint cat_expr_with (np : nat -> cst -> N * cst) (m : model) (tnames : list str) (catnode : str -> nat)
         (e : expr) (st : cst) {struct e} : N * cst :=
  match e with
  | XArrow name _ =>
      if str_eqb name ignore_content then (card_nothing, st)
      else if is_cat m name then (card_one, cs_include st (catnode name))
      else let '(nd, st1) := cs_add st [type_index tnames name] in (card_one, cs_include st1 nd)
  | XSeq l =>
      let '(ret, suppress, st') :=
        (fix go (l : list expr) (acc : N * bool * cst) {struct l} : N * bool * cst :=
           match l with
           | [] => acc
           | x :: r =>
               let '(ret, suppress, st) := acc in
               let '(v, st1) := cat_expr_with np m tnames catnode x st in
               go r (if N.eqb ret card_one && N.eqb v card_one then (card_ambiguous, suppress, st1)
                     else if N.eqb v card_ambiguous then (v, true, st1)
                     else if N.eqb ret card_nothing then (v, suppress, st1)
                     else (ret, suppress, st1))
           end) l (card_nothing, false, st) in
      if is_one_or_nothing ret then (ret, st')
      else (card_ambiguous, if suppress then st' else cs_set_err st')
  | XChoice l =>
      let '(ret, st') :=
        (fix go (l : list expr) (acc : N * cst) {struct l} : N * cst :=
           match l with
           | [] => acc
           | x :: r =>
               let '(ret, st) := acc in
               let '(v, st1) := cat_expr_with np m tnames catnode x st in
               go r (N.lor ret v, st1)
           end) l (0%N, st) in
      if is_one_or_nothing ret then (ret, st')
      else (card_ambiguous, if N.eqb (N.land ret card_ambiguous) 0 then cs_set_err st' else st')
  | XRef sym =>
      if m_nterms m <=? sym then np (sym - m_nterms m) st
      else match tok_name m sym with
           | Some n => let '(nd, st1) := cs_add st [type_index tnames n] in (card_nothing, cs_include st1 nd)
           | None => (card_nothing, st)
           end
  | XPrec e1 | XAssign _ e1 | XAppend _ e1 => cat_expr_with np m tnames catnode e1 st
  | XOpt e1 | XList e1 _ _ =>
      let '(ret, st1) := cat_expr_with np m tnames catnode e1 st in
      if N.eqb ret card_nothing then (ret, st1) else (card_ambiguous, cs_set_err st1)
  | XEmpty | XLook => (card_nothing, st)
  end.

Fixpoint cat_nonterm (fuel : nat) (m : model) (tnames : list str) (catnode : str -> nat) (nt : nat) (st : cst)
         {struct fuel} : N * cst :=
  match fuel with
  | O => (card_ambiguous, cs_set_err st)
  | S f =>
      let '(set, st1) :=
        match assoc_nat nt (cs_nts st) with
        | Some s => (s, st)
        | None => let '(s, st') := cs_add st [] in
                  (s, mkCs (cs_nodes st') ((nt, s) :: cs_nts st') (cs_card st') (cs_cycle st') (cs_target st') (cs_err st'))
        end in
      let st2 := cs_include st1 set in
      match assoc_nat nt (cs_card st2) with
      | Some ret => (ret, st2)
      | None =>
          if mem_nat nt (cs_cycle st2) then (card_ambiguous, cs_set_err st2)
          else
            let old := cs_target st2 in
            let st3 := mkCs (cs_nodes st2) (cs_nts st2) (cs_card st2) (nt :: cs_cycle st2) set (cs_err st2) in
            let '(ret, st4) := cat_expr_with (cat_nonterm f m tnames catnode) m tnames catnode (body m nt) st3 in
            (ret, mkCs (cs_nodes st4) (cs_nts st4) ((nt, ret) :: cs_card st4)
                       (filter (fun x => negb (x =? nt)) (cs_cycle st4)) old (cs_err st4))
      end
  end.

(* set.Closure.Compute for union-only sets: every node gets the elements of all nodes it reaches *)
Definition closure_step (nodes : list (list nat * list nat)) (sets : list (list nat)) : list (list nat) :=
  map (fun '(b, es) => nat_sort_dedup (b ++ flat_map (fun e => nth e sets []) es)) nodes.

Fixpoint closure_iter (fuel : nat) (nodes : list (list nat * list nat)) (sets : list (list nat)) : list (list nat) :=
  match fuel with
  | O => sets
  | S f => closure_iter f nodes (closure_step nodes sets)
  end.

Definition closure_sets (nodes : list (list nat * list nat)) : list (list nat) :=
  closure_iter (S (length nodes)) nodes (map (fun '(b, _) => nat_sort_dedup b) nodes).

Definition token_set_name : str := [84;111;107;101;110;83;101;116]%N.   (* "TokenSet" *)

Fixpoint cat_insert (x : str * list nat) (l : list (str * list nat)) : list (str * list nat) :=
  match l with
  | [] => [x]
  | y :: r => if str_ltb (fst x) (fst y) then x :: l else y :: cat_insert x r
  end.

(* result: categories sorted by name, each with its set of type indices; error flag *)
Definition resolve_categories (m : model) (tnames : list str) : list (str * list nat) * bool :=
  let arrows := filter (fun '(n, _) => is_cat m n && negb (str_eqb n ignore_content)) (all_arrows m) in
  let names := fold_left (fun acc '(n, _) => if mem_str n acc then acc else acc ++ [n]) arrows [] in
  (* category i is closure node i *)
  let nodes0 := map (fun _ => (@nil nat, @nil nat)) names in
  let synthetic := negb (mem_str token_set_name names) && negb (match token_set m with [] => true | _ => false end) in
  let nodes1 := if synthetic
                then nodes0 ++ [(nat_sort_dedup (map (fun t => match tok_name m t with Some n => type_index tnames n | None => 0 end)
                                                  (token_set m)), [])]
                else nodes0 in
  let all_names := if synthetic then names ++ [token_set_name] else names in
  let catnode := fun n => type_index names n in
  let fuel := S (length (m_nonterms m)) in
  let st :=
    fold_left (fun st '(index, cname) =>
      fold_left (fun st '(n, e) =>
        if str_eqb n cname then
          let '(c, st1) := cat_expr_with (cat_nonterm fuel m tnames catnode) m tnames catnode e (cs_set_target st index) in
          if negb (N.eqb c card_nothing) then st1
          else match e with
               | XArrow an _ => if str_eqb an ignore_content then st1 else cs_set_err st1
               | _ => cs_set_err st1
               end
        else st) arrows st)
      (combine (seq 0 (length names)) names) (mkCs nodes1 [] [] [] 0 false) in
  let sets := closure_sets (cs_nodes st) in
  (fold_left (fun acc x => cat_insert x acc) (combine all_names (firstn (length all_names) sets)) [], cs_err st).

(* ---------- fixConflictingFields ---------- *)
Definition resolve_sel (tnames : list str) (cats : list (str * list nat)) (sel : list str) : list nat :=
  nat_sort_dedup (flat_map (fun t =>
    match find (fun '(n, _) => str_eqb n t) cats with
    | Some (_, set) => set
    | None => [type_index tnames t]
    end) sel).

Definition fix_type (tnames : list str) (cats : list (str * list nat)) (fs : list rfield) : list rfield * bool :=
  match fs with
  | [] | [_] => (fs, false)
  | _ :: f1 :: _ =>
      let ordered := (rf_after f1 =? 0)%Z in
      (* first pass: dependencies *)
      let '(_, resolved, _) :=
        fold_left (fun '(seen, resolved, i) f =>
          let '(seen', resolved', has_dep) :=
            fold_left (fun '(seen, resolved, has_dep) t =>
              match assoc_nat t seen with
              | Some prev => ((t, i) :: seen, set_nth prev (fst (nth prev resolved (false, 0)), i) resolved, true)
              | None => ((t, i) :: seen, resolved, has_dep)
              end) (resolve_sel tnames cats (rf_sel f)) (seen, resolved, false) in
          (seen', resolved' ++ [(has_dep, 0)], S i))
          fs ([], [], 0) in
      (* second pass *)
      let '(out, _, _, err, _) :=
        fold_left (fun '(out, prev, suppress, err, i) f =>
          let '(has_dep, incoming) := nth i resolved (false, 0) in
          let after := if ordered && (negb (incoming =? 0) || has_dep) then prev else (-1)%Z in
          let f' := mkRF (rf_name f) (rf_sel f) after (rf_req f) (rf_list f) in
          if negb (incoming =? 0) then
            let report := negb suppress && (rf_list f || negb (rf_req f) || negb ordered) in
            (out ++ [f'], Z.of_nat i, suppress || report, err || report, S i)
          else (out ++ [f'], prev, suppress, err, S i))
          fs ([], (-1)%Z, false, false, 0) in
      (out, err)
  end.

(* ---------- ExtractTypes ---------- *)
Record types_out := mkTypes {
  t_names : list str;
  t_fields : list (list rfield);
  t_cats : list (str * list str);
  t_err_assign : bool;
  t_err_cats : bool;
  t_err_overlap : bool
}.

Definition extract_types (m : model) : types_out :=
  let tnames := type_names m in
  let '(fields, e1) := resolve_fields m tnames in
  let '(cats, e2) := resolve_categories m tnames in
  let fixed := map (fix_type tnames cats) fields in
  mkTypes tnames (map fst fixed)
          (map (fun '(n, set) => (n, sort_dedup (map (fun t => nth t tnames []) set))) cats)
          e1 e2 (existsb snd fixed).
