(* C15: the generated-system check of Syn/SetsGen.v (keys first / last) extended to the keys (any, s), (follow, s),
   (precede, s) and to the union / intersection / complement trees that translate builds over the key nodes.
   Proved sound in Syn/SetsGenAll_proofs.v (sets_gen_all_ok = true -> every top-level closed set expression returned
   by the model of ResolveSets is exactly set_den), evaluated by ocaml/p_c15.ml on every case in scope.
   Executable definitions only. *)
From Coq Require Import List ZArith Bool Arith.
From TM Require Import Util.IntSet Util.Graph Util.Closure Gram.Cfg Syn.Expr Syn.Sets Syn.SetsSpec Syn.SetsGen.
Import ListNotations.
Local Open Scope Z_scope.

Fixpoint concat_opt {A} (l : list (option (list A))) : option (list A) :=
  match l with
  | [] => Some []
  | x :: r => match x, concat_opt r with Some a, Some b => Some (a ++ b) | _, _ => None end
  end.

(* the nodes of op(y) for every symbol y of [syms] *)
Fixpoint all_keys (keys : list (Z * Z * nat)) (op : Z) (syms : list Z) : option (list nat) :=
  match syms with
  | [] => Some []
  | y :: rest =>
      match find_key op y keys, all_keys keys op rest with
      | Some w, Some E => Some (w :: E)
      | _, _ => None
      end
  end.

(* v is a union node in range with the finite constant [cst] *)
Definition union_node (nodes : list cnode) (v : nat) (cst : list Z) : bool :=
  let nd := nth v nodes dummy_node in
  Nat.ltb v (length nodes) && (match n_op nd with OpUnion => true | _ => false end) && negb (inverse (n_val nd)) &&
  zl_eqb (elems (n_val nd)) cst.

(* the node of the key (any, s): a terminal is the singleton {s}; a nonterminal is the union of the any-nodes of all
   symbols of all its rules *)
Definition any_key_ok (T : Z) (rules : list orule) (nodes : list cnode) (keys : list (Z * Z * nat))
    (k : Z * Z * nat) : bool :=
  let '(op, s, v) := k in
  if op =? 0 then
    if s <? T then
      (0 <=? s) && union_node nodes v [s] && (match n_edges (nth v nodes dummy_node) with [] => true | _ => false end)
    else
      union_node nodes v [] &&
      match concat_opt (map (all_keys keys 0) (map o_rhs (defs_of rules s))) with
      | Some E => list_eqb Nat.eqb (n_edges (nth v nodes dummy_node)) E
      | None => false
      end
  else true.

(* the contexts of the occurrences of s: (lhs, what comes after s) for follow (4), (lhs, what comes before s,
   reversed) for precede (3), in the order of the usage index *)
Definition ctxs (op : Z) (rules : list orule) (s : Z) : list (Z * list Z) :=
  map (fun '(r, pos) => (o_lhs r, if op =? 3 then rev (firstn pos (o_rhs r)) else skipn (S pos) (o_rhs r)))
      (usages rules s).

(* one occurrence: the first-like scan of the context, then the key of the lhs when the whole context is nullable *)
Definition ctx_edges (keys : list (Z * Z * nat)) (nl : list Z) (fiop fop : Z) (c : Z * list Z) : option (list nat) :=
  match scan_keys keys nl fiop (snd c) with
  | None => None
  | Some E =>
      if all_null nl (snd c) then
        match find_key fop (fst c) keys with Some w => Some (E ++ [w]) | None => None end
      else Some E
  end.

Definition fol_key_ok (nl : list Z) (rules : list orule) (nodes : list cnode) (keys : list (Z * Z * nat))
    (k : Z * Z * nat) : bool :=
  let '(op, s, v) := k in
  if (op =? 3) || (op =? 4) then
    union_node nodes v [] &&
    match concat_opt (map (ctx_edges keys nl (if op =? 3 then 2 else 1) op) (ctxs op rules s)) with
    | Some E => list_eqb Nat.eqb (n_edges (nth v nodes dummy_node)) E
    | None => false
    end
  else true.

Definition gen_all_keys_ok (T : Z) (nl : list Z) (rules : list orule) (nodes : list cnode) (keys : list (Z * Z * nat)) : bool :=
  gen_keys_ok T nl rules nodes keys &&
  forallb (any_key_ok T rules nodes keys) keys &&
  forallb (fol_key_ok nl rules nodes keys) keys.

(* ---------- the trees of translate ---------- *)
(* p is an edge-only union node: a proxy for its single operand *)
Definition is_proxy (nodes : list cnode) (p : nat) : option nat :=
  if union_node nodes p [] then
    match n_edges (nth p nodes dummy_node) with [w] => Some w | _ => None end
  else None.

Definition cop_eqb (a b : cop) : bool :=
  match a, b with
  | OpUnion, OpUnion | OpIntersection, OpIntersection | OpComplement, OpComplement => true
  | _, _ => false
  end.

(* r is a node of kind o in range without a constant: its operands *)
Definition op_node (nodes : list cnode) (o : cop) (r : nat) : option (list nat) :=
  let nd := nth r nodes dummy_node in
  if Nat.ltb r (length nodes) && cop_eqb (n_op nd) o && negb (inverse (n_val nd)) &&
     (match elems (n_val nd) with [] => true | _ => false end)
  then Some (n_edges nd) else None.

(* the node p carries the tree of the closed expression t: proxy -> key node | union / intersection node over the
   proxies of the operands | complement node over the proxy of the operand *)
Fixpoint tree_ok (nodes : list cnode) (keys : list (Z * Z * nat)) (t : tset) (p : nat) : bool :=
  match is_proxy nodes p with
  | None => false
  | Some r =>
    match t with
    | TSym op s =>
        (0 <=? op) && (op <=? 4) &&
        match find_key op s keys with Some v => Nat.eqb v r | None => false end
    | TUnion l =>
        match op_node nodes OpUnion r with
        | Some ws =>
            (fix go (l : list tset) (ws : list nat) : bool :=
               match l, ws with
               | [], [] => true
               | x :: l', w :: ws' => tree_ok nodes keys x w && go l' ws'
               | _, _ => false
               end) l ws
        | None => false
        end
    | TInter l =>
        match op_node nodes OpIntersection r with
        | Some ws =>
            (fix go (l : list tset) (ws : list nat) : bool :=
               match l, ws with
               | [], [] => true
               | x :: l', w :: ws' => tree_ok nodes keys x w && go l' ws'
               | _, _ => false
               end) l ws
        | None => false
        end
    | TCompl _ x =>
        match op_node nodes OpComplement r with
        | Some [v] => tree_ok nodes keys x v
        | _ => false
        end
    | TNamed _ => false
    end
  end.

(* scope of the tree check: closed expressions (no reference to a named set) over any / first / last / precede / follow *)
Fixpoint tree_scope (t : tset) : bool :=
  match t with
  | TSym op _ => (0 <=? op) && (op <=? 4)
  | TUnion l | TInter l => forallb tree_scope l
  | TCompl _ x => tree_scope x
  | TNamed _ => false
  end.

Definition sets_gen_all_ok (T : Z) (vals : list expr) (sets : list tset) (inputs : list input) : bool :=
  let nl := nullable_syms T vals in
  let rules := rules_of T vals sets inputs in
  let '(result, st) := resolve_est T vals sets inputs in
  gen_all_keys_ok T nl rules (e_nodes st) (e_keys st) &&
  Nat.eqb (length result) (length sets) &&
  forallb (fun '(t, p) => if tree_scope t then tree_ok (e_nodes st) (e_keys st) t p else true) (List.combine sets result).

(* statistics for the glue: number of top-level sets in the scope of the tree check *)
Definition sets_in_tree_scope (sets : list tset) : nat := length (filter tree_scope sets).
