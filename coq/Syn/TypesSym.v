(* A symbolic validator for inferred fields against an arrow body with lists of ANY length (Syn/Types.v's
   check_type enumerates the child sequences and therefore bounds the repetitions). It covers types whose
   accessors all fetch from the parent (FetchAfter = -1, what fixConflictingFields leaves when no two fields
   share a node type): per field, the number of children matching its selector is bounded statically
   (0, 1, "2 or more") over the body. Executable definitions only; proofs are in TypesSym_proofs.v. *)
From Coq Require Import List NArith ZArith Bool Arith.
From TM Require Import Syn.Types.
Import ListNotations.
Local Open Scope nat_scope.

Definition sat_add (a b : nat) : nat := if 2 <=? a + b then 2 else a + b.

(* lower / upper bound (saturating at 2) of the number of children of [e] whose type is in [sel] *)
Fixpoint cnt_min (sel : list N) (e : cexpr) : nat :=
  match e with
  | CEmpty => 0
  | CNode t => if sel_has sel t then 1 else 0
  | CSeq a b => sat_add (cnt_min sel a) (cnt_min sel b)
  | CChoice a b => Nat.min (cnt_min sel a) (cnt_min sel b)
  | COpt _ => 0
  | CList a ne => if ne then cnt_min sel a else 0
  end.

Fixpoint cnt_max (sel : list N) (e : cexpr) : nat :=
  match e with
  | CEmpty => 0
  | CNode t => if sel_has sel t then 1 else 0
  | CSeq a b => sat_add (cnt_max sel a) (cnt_max sel b)
  | CChoice a b => Nat.max (cnt_max sel a) (cnt_max sel b)
  | COpt a => cnt_max sel a
  | CList a _ => if cnt_max sel a =? 0 then 0 else 2
  end.

(* node types that can occur among the children *)
Fixpoint cnodes (e : cexpr) : list N :=
  match e with
  | CEmpty => []
  | CNode t => [t]
  | CSeq a b | CChoice a b => cnodes a ++ cnodes b
  | COpt a | CList a _ => cnodes a
  end.

(* decidable form of Types_proofs.assert_covers *)
Definition assert_covers_b (cats : list category) (f : field) : bool :=
  if (f_assert f <=? 0)%Z then true
  else match nth_error cats (Z.to_nat (f_assert f - 1)) with
       | None => false
       | Some c => c_nil c && forallb (fun t => sel_has (c_types c) t) (f_sel f)
       end.

Definition check_sym (cats : list category) (fs : list field) (inj : N) (e : cexpr) : bool :=
  forallb (fun f => (f_after f =? -1)%Z && assert_covers_b cats f) fs &&
  forallb (fun f => (if f_required f && negb (f_list f) then 1 <=? cnt_min (f_sel f) e else true) &&
                    (if f_list f then true else cnt_max (f_sel f) e <=? 1)) fs &&
  forallb (fun t => N.eqb t inj || existsb (fun f => sel_has (f_sel f) t) fs) (cnodes e).

(* the validator used on the implementation's output: symbolic where it applies (then lists of any length
   are covered), otherwise the enumeration of Types.check_type with at most [rep] repetitions per list *)
Definition check_body (cats : list category) (fs : list field) (inj : N) (rep : nat) (e : cexpr) : bool :=
  check_sym cats fs inj e || (list_free e && forallb (node_ok cats fs inj) (child_seqs rep e)).

Definition check_type_any (cats : list category) (fs : list field) (inj : N) (rep : nat) (bodies : list cexpr) : bool :=
  forallb (check_body cats fs inj rep) bodies.
