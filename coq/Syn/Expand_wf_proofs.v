(* C13: the run-time side conditions [expand_checks] of the correctness theorem of Expand follow from the static
   predicate [ExpandWf.wf_model]: no Fatal branch, references stay in range through phase 1, and sortTail builds
   a permutation (loop invariant of phase 1). *)
From Coq Require Import List ZArith Bool Arith Lia Permutation.
From TM Require Import Util.Ident Syn.Expr Syn.Expand Syn.ExtLang Syn.Expand_proofs Syn.Expand_global
  Syn.Expand_correct Syn.SortPerm Syn.Expand_perm Syn.ExpandWf.
Import ListNotations.
Local Open Scope Z_scope.

(* ---------- bounded ---------- *)
Lemma bounded_mono B B' : B <= B' -> forall e, bounded B e = true -> bounded B' e = true.
Proof.
  intro HB. induction e using expr_ind2; cbn [bounded]; intro Hb; auto.
  - rewrite forallb_forall in *. rewrite Forall_forall in H. intros x Hx. apply H; auto.
  - rewrite forallb_forall in *. rewrite Forall_forall in H. intros x Hx. apply H; auto.
  - apply Z.ltb_lt in Hb. apply Z.ltb_lt. lia.
  - apply andb_true_iff in Hb as [H1 H2]. rewrite (IHe H1). destruct s as [x|]; cbn; auto.
Qed.

Notation bnd B := (fun a : expr => bounded B a = true).

Lemma Forall_bounded_mono B B' l : B <= B' -> Forall (bnd B) l -> Forall (bnd B') l.
Proof. intros HB H. eapply Forall_impl; [|exact H]. intros a Ha. eapply bounded_mono; eauto. Qed.

Lemma forallb_Forall {A} (f : A -> bool) l : forallb f l = true <-> Forall (fun x => f x = true) l.
Proof. rewrite forallb_forall, Forall_forall. tauto. Qed.

Lemma bounded_seq_parts B e : bounded B e = true -> Forall (bnd B) (seq_parts e).
Proof.
  destruct e; cbn [seq_parts]; intro H; try (constructor; [exact H | constructor]).
  - constructor.
  - cbn [bounded] in H. now apply forallb_Forall.
Qed.

Lemma bounded_mk_seq B l : Forall (bnd B) l -> bounded B (mk_seq l) = true.
Proof.
  intro H. destruct l as [|x [|y r]]; cbn [mk_seq bounded]; auto.
  - now inversion H.
  - now apply forallb_Forall.
Qed.

Lemma Forall_flat_map {A B} (P : B -> Prop) (f : A -> list B) l : (forall x, In x l -> Forall P (f x)) -> Forall P (flat_map f l).
Proof. induction l as [|x l IH]; cbn; intro H; [constructor|]. apply Forall_app. split; [apply H; now left | apply IH; intros; apply H; now right]. Qed.

Lemma bounded_concat2 B a b : bounded B a = true -> bounded B b = true -> bounded B (concat2 a b) = true.
Proof.
  intros Ha Hb. unfold concat2, concat_list. apply bounded_mk_seq. apply Forall_flat_map.
  intros x [<-|[<-|[]]]; now apply bounded_seq_parts.
Qed.

Lemma bounded_multi_concat B a b : Forall (bnd B) a -> Forall (bnd B) b -> Forall (bnd B) (multi_concat a b).
Proof.
  intros Ha Hb. unfold multi_concat. apply Forall_flat_map. intros x Hx. rewrite Forall_forall in *.
  intros y Hy. apply in_map_iff in Hy as (z & <- & Hz). apply bounded_concat2; auto.
Qed.

Lemma length_multi_concat a b : length (multi_concat a b) = (length a * length b)%nat.
Proof.
  unfold multi_concat. induction a as [|x a IH]; cbn [flat_map length]; [reflexivity|].
  rewrite app_length, map_length, IH. lia.
Qed.

Lemma collapse_empty_in l x : In x (collapse_empty l) -> In x l.
Proof.
  unfold collapse_empty. destruct (Nat.leb _ 1); [auto|].
  generalize false. induction l as [|y l IH]; intros seen H; cbn [drop_later_empties] in H; [destruct H|].
  destruct (is_empty_e y).
  - destruct seen; [right; eapply IH; eauto|]. destruct H as [->|H]; [now left | right; eapply IH; eauto].
  - destruct H as [->|H]; [now left | right; eapply IH; eauto].
Qed.

Lemma n_alts_choice l : n_alts (EChoice l) = fold_right (fun s acc => (n_alts s + acc)%nat) 0%nat l.
Proof. reflexivity. Qed.
Lemma n_alts_seq l : n_alts (ESeq l) = fold_right (fun s acc => (n_alts s * acc)%nat) 1%nat l.
Proof. reflexivity. Qed.

(* ---------- the expander state through expandExpr ---------- *)
Section Expr.
  Variable c : xctx.
  Let N : Z := cT c + Z.of_nat (n_orig c).

  (* lengths agree with the counter; the extracted values only mention existing nonterminals *)
  Definition xinv (st : xst) : Prop :=
    length (x_perm st) = (n_orig c + x_extra st)%nat /\ length (x_extras st) = x_extra st /\
    Forall (fun nv => bounded (N + Z.of_nat (x_extra st)) (snd nv) = true) (x_extras st).

  Definition xrel (st st' : xst) : Prop :=
    x_start st' = x_start st /\ x_base st' = x_base st /\ x_fatal st' = x_fatal st /\
    (x_extra st <= x_extra st')%nat /\ exists more, x_perm st' = x_perm st ++ more.

  Lemma xrel_refl st : xrel st st.
  Proof. unfold xrel. repeat split; auto. exists []. now rewrite app_nil_r. Qed.

  Lemma xrel_trans a b d : xrel a b -> xrel b d -> xrel a d.
  Proof.
    intros (A1 & A2 & A3 & A4 & m1 & A5) (B1 & B2 & B3 & B4 & m2 & B5). unfold xrel.
    repeat split; try congruence; try lia. exists (m1 ++ m2). now rewrite B5, A5, app_assoc.
  Qed.

  Lemma extract_wf st e r st' :
    xinv st -> bounded (N + Z.of_nat (x_extra st)) e = true -> extract c st e = (r, st') ->
    xinv st' /\ xrel st st' /\ bounded (N + Z.of_nat (x_extra st')) r = true.
  Proof.
    intros (Hl & He & Hb) Hbe. unfold extract.
    destruct (match find_extra _ (x_extras st) 0 with Some (k, v) => if expr_eqb e v then Some k else None | None => None end) as [k|] eqn:Er.
    - intro H. injection H as <- <-. split; [repeat split; auto|]. split; [apply xrel_refl|].
      destruct (find_extra _ (x_extras st) 0) as [[k0 v]|] eqn:Ef; [|discriminate].
      destruct (expr_eqb e v); [|discriminate]. injection Er as ->.
      apply find_extra_nth in Ef as (n0 & _ & Hn). rewrite Nat.sub_0_r in Hn.
      assert (Hk : (k < length (x_extras st))%nat) by (apply nth_error_Some; congruence).
      cbn [bounded]. apply Z.ltb_lt. unfold N. lia.
    - intro H. injection H as <- <-. unfold xinv, xrel. cbn [x_perm x_extras x_extra x_start x_base x_fatal].
      split; [|split].
      + split; [rewrite app_length; cbn [length]; lia|]. split; [rewrite app_length; cbn [length]; lia|].
        apply Forall_app. split.
        * eapply Forall_impl; [|exact Hb]. intros nv Hnv. eapply bounded_mono; [|exact Hnv]. lia.
        * constructor; [|constructor]. cbn [snd]. eapply bounded_mono; [|exact Hbe]. lia.
      + repeat split; auto. eexists. reflexivity.
      + cbn [bounded]. apply Z.ltb_lt. unfold N. lia.
  Qed.

  Definition ewf (st : xst) (alts : list expr) (st' : xst) (e : expr) : Prop :=
    xinv st' /\ xrel st st' /\ Forall (bnd (N + Z.of_nat (x_extra st'))) alts /\ length alts = n_alts e.

  Lemma xrel_extra st st' : xrel st st' -> N + Z.of_nat (x_extra st) <= N + Z.of_nat (x_extra st').
  Proof. intros (_ & _ & _ & H & _). lia. Qed.

  Lemma N_le st : N <= N + Z.of_nat (x_extra st). Proof. lia. Qed.

  Lemma Forall_map_wrap B (f : expr -> expr) alts :
    (forall v, bounded B v = true -> bounded B (f v) = true) -> Forall (bnd B) alts -> Forall (bnd B) (map f alts).
  Proof. intros Hf H. induction H; cbn [map]; constructor; auto. Qed.

  Theorem expand_expr_wf : forall e st alts st',
    bounded N e = true -> seps_ok e = true -> xinv st -> expand_expr c st e = (alts, st') -> ewf st alts st' e.
  Proof.
    induction e using expr_ind2; intros st alts st' Hb Hs Hi Hx; cbn [expand_expr] in Hx;
      try (injection Hx as <- <-; split; [exact Hi|]; split; [apply xrel_refl|]; split; [|reflexivity];
           constructor; [|constructor]; eapply bounded_mono; [apply N_le | exact Hb]).
    - (* Optional *)
      destruct (expand_expr c st e) as [r st1] eqn:E1. injection Hx as <- <-.
      destruct (IHe _ _ _ Hb Hs Hi E1) as (Hi1 & Hr1 & Hf1 & Hn1). split; auto. split; auto. split.
      + apply Forall_app. split; auto.
      + rewrite app_length. cbn [length n_alts]. lia.
    - (* Choice *)
      cbn [bounded seps_ok] in Hb, Hs. rewrite forallb_Forall in Hb, Hs.
      revert st alts st' Hi Hx. unfold ewf. rewrite n_alts_choice.
      induction H as [|x l Hxl Hl IH]; intros st alts st' Hi Hx.
      + injection Hx as <- <-. split; auto. split; [apply xrel_refl|]. split; [constructor | reflexivity].
      + destruct (expand_expr c st x) as [r st1] eqn:E1.
        match type of Hx with (let '(r2, st) := ?G in _) = _ => destruct G as [r2 st2] eqn:E2 end.
        injection Hx as <- <-. inversion Hb as [|? ? Hbx Hbl]; subst. inversion Hs as [|? ? Hsx Hsl]; subst.
        destruct (Hxl _ _ _ Hbx Hsx Hi E1) as (Hi1 & Hr1 & Hf1 & Hn1).
        destruct (IH Hbl Hsl _ _ _ Hi1 E2) as (Hi2 & Hr2 & Hf2 & Hn2).
        split; auto. split; [eapply xrel_trans; eauto|]. split.
        * apply Forall_app. split; auto. eapply Forall_bounded_mono; [|exact Hf1]. now apply xrel_extra.
        * rewrite app_length. cbn [fold_right]. lia.
    - (* Sequence *)
      cbn [bounded seps_ok] in Hb, Hs. rewrite forallb_Forall in Hb, Hs. unfold ewf. rewrite n_alts_seq.
      assert (G : forall l, Forall (fun e => forall st alts st', bounded N e = true -> seps_ok e = true -> xinv st ->
                                     expand_expr c st e = (alts, st') -> ewf st alts st' e) l ->
                Forall (bnd N) l -> Forall (fun x => seps_ok x = true) l ->
                forall acc st alts st', xinv st -> Forall (bnd (N + Z.of_nat (x_extra st))) acc ->
                (fix go (subs : list expr) (acc : list expr) (st : xst) {struct subs} : list expr * xst :=
                   match subs with
                   | [] => (acc, st)
                   | s :: rest => let '(r, st) := expand_expr c st s in go rest (multi_concat acc r) st
                   end) l acc st = (alts, st') ->
                xinv st' /\ xrel st st' /\ Forall (bnd (N + Z.of_nat (x_extra st'))) alts /\
                length alts = (length acc * fold_right (fun s a => (n_alts s * a)%nat) 1%nat l)%nat).
      { clear. intros l HF. induction HF as [|x l Hxl Hl IH]; intros Hb Hs acc st alts st' Hi Ha Hx.
        - injection Hx as <- <-. split; auto. split; [apply xrel_refl|]. split; auto. cbn. lia.
        - destruct (expand_expr c st x) as [r st1] eqn:E1.
          inversion Hb as [|? ? Hbx Hbl]; subst. inversion Hs as [|? ? Hsx Hsl]; subst.
          destruct (Hxl _ _ _ Hbx Hsx Hi E1) as (Hi1 & Hr1 & Hf1 & Hn1).
          assert (Ha1 : Forall (bnd (N + Z.of_nat (x_extra st1))) (multi_concat acc r)).
          { apply bounded_multi_concat; auto. eapply Forall_bounded_mono; [|exact Ha]. now apply xrel_extra. }
          destruct (IH Hbl Hsl _ _ _ _ Hi1 Ha1 Hx) as (Hi2 & Hr2 & Hf2 & Hn2).
          split; auto. split; [eapply xrel_trans; eauto|]. split; auto.
          rewrite Hn2, length_multi_concat, Hn1. cbn [fold_right]. lia. }
      destruct (G l H Hb Hs [EEmpty] st alts st' Hi) as (Hi2 & Hr2 & Hf2 & Hn2); [constructor; [reflexivity | constructor] | exact Hx|].
      split; auto. split; auto. split; auto. rewrite Hn2. cbn [length]. lia.
    - (* Assign *)
      cbn [bounded seps_ok] in Hb, Hs.
      destruct (expand_expr c st e) as [r st1] eqn:E1. injection Hx as <- <-.
      destruct (IHe _ _ _ Hb Hs Hi E1) as (Hi1 & Hr1 & Hf1 & Hn1). split; auto. split; auto. split.
      + apply Forall_map_wrap; auto. intros v Hv. destruct (is_empty_e v); auto.
      + rewrite map_length. exact Hn1.
    - (* Append *)
      cbn [bounded seps_ok] in Hb, Hs.
      destruct (expand_expr c st e) as [r st1] eqn:E1. injection Hx as <- <-.
      destruct (IHe _ _ _ Hb Hs Hi E1) as (Hi1 & Hr1 & Hf1 & Hn1). split; auto. split; auto. split.
      + apply Forall_map_wrap; auto. intros v Hv. destruct (is_empty_e v); auto.
      + rewrite map_length. exact Hn1.
    - (* Arrow *)
      cbn [bounded seps_ok] in Hb, Hs.
      destruct (expand_expr c st e) as [r st1] eqn:E1. injection Hx as <- <-.
      destruct (IHe _ _ _ Hb Hs Hi E1) as (Hi1 & Hr1 & Hf1 & Hn1). split; auto. split; auto. split.
      + apply Forall_map_wrap; auto.
      + rewrite map_length. exact Hn1.
    - (* Set *)
      destruct (extract c st (ESet i)) as [r st1] eqn:E1. injection Hx as <- <-.
      destruct (extract_wf st (ESet i) _ _ Hi eq_refl E1) as (Hi1 & Hr1 & Hb1). split; [exact Hi1|]. split; [exact Hr1|]. split; [|reflexivity].
      constructor; [exact Hb1 | constructor].
    - (* Lookahead *)
      destruct (extract c st (ELookahead l)) as [r st1] eqn:E1. injection Hx as <- <-.
      destruct (extract_wf st (ELookahead l) _ _ Hi eq_refl E1) as (Hi1 & Hr1 & Hb1). split; [exact Hi1|]. split; [exact Hr1|]. split; [|reflexivity].
      constructor; [exact Hb1 | constructor].
    - (* List *)
      cbn [bounded seps_ok] in Hb, Hs. apply andb_true_iff in Hb as [Hbe Hbs]. apply andb_true_iff in Hs as [Hse Hss].
      destruct (expand_expr c st e) as [el st1] eqn:E1.
      destruct (IHe _ _ _ Hbe Hse Hi E1) as (Hi1 & Hr1 & Hf1 & Hn1).
      set (el1 := match el with [x] => x | _ => EChoice el end) in *.
      assert (Hel1 : bounded (N + Z.of_nat (x_extra st1)) el1 = true).
      { subst el1. destruct el as [|x [|y r]]; [reflexivity | now inversion Hf1 | cbn [bounded]; now apply forallb_Forall]. }
      cbn [n_alts].
      destruct s as [sp|].
      + apply andb_true_iff in Hss as [Hss Hone]. apply Nat.eqb_eq in Hone.
        destruct (expand_expr c st1 sp) as [spl st2] eqn:E2.
        destruct (H sp eq_refl _ _ _ Hbs Hss Hi1 E2) as (Hi2 & Hr2 & Hf2 & Hn2).
        rewrite Hone in Hn2. destruct spl as [|x [|y r]]; try discriminate Hn2. cbn [hd] in Hx.
        match type of Hx with (let '(ret, st) := extract c ?s3 ?v in _) = _ =>
          destruct (extract c s3 v) as [ret st4] eqn:E3 end.
        assert (Hb3 : bounded (N + Z.of_nat (x_extra st2)) (EList (Z.lor f 1) el1 (Some x)) = true).
        { cbn [bounded]. apply andb_true_iff. split; [|now inversion Hf2].
          eapply bounded_mono; [|exact Hel1]. now apply xrel_extra. }
        destruct (extract_wf _ _ _ _ Hi2 Hb3 E3) as (Hi4 & Hr4 & Hb4).
        destruct (negb (Z.odd f) && Z.odd (Z.lor f 1)).
        * destruct (extract c st4 (EOpt ret)) as [ret2 st5] eqn:E4. injection Hx as <- <-.
          destruct (extract_wf st4 (EOpt ret) _ _ Hi4 Hb4 E4) as (Hi5 & Hr5 & Hb5).
          split; [assumption|]. split; [repeat (eapply xrel_trans; [eassumption|]); apply xrel_refl|]. split; [|reflexivity].
          constructor; [exact Hb5 | constructor].
        * injection Hx as <- <-.
          split; [assumption|]. split; [repeat (eapply xrel_trans; [eassumption|]); apply xrel_refl|]. split; [|reflexivity].
          constructor; [exact Hb4 | constructor].
      + match type of Hx with (let '(ret, st) := extract c ?s3 ?v in _) = _ =>
          destruct (extract c s3 v) as [ret st4] eqn:E3 end.
        assert (Hb3 : bounded (N + Z.of_nat (x_extra st1)) (EList f el1 None) = true).
        { cbn [bounded]. now rewrite Hel1. }
        destruct (extract_wf _ _ _ _ Hi1 Hb3 E3) as (Hi4 & Hr4 & Hb4).
        destruct (negb (Z.odd f) && Z.odd f).
        * destruct (extract c st4 (EOpt ret)) as [ret2 st5] eqn:E4. injection Hx as <- <-.
          destruct (extract_wf st4 (EOpt ret) _ _ Hi4 Hb4 E4) as (Hi5 & Hr5 & Hb5).
          split; [assumption|]. split; [repeat (eapply xrel_trans; [eassumption|]); apply xrel_refl|]. split; [|reflexivity].
          constructor; [exact Hb5 | constructor].
        * injection Hx as <- <-.
          split; [assumption|]. split; [repeat (eapply xrel_trans; [eassumption|]); apply xrel_refl|]. split; [|reflexivity].
          constructor; [exact Hb4 | constructor].
  Qed.
End Expr.

(* ---------- rules and nonterminals ---------- *)
Definition cN (c : xctx) : Z := cT c + Z.of_nat (n_orig c).

Lemma expand_rule_wf c rule st alts st' :
  bounded (cN c) rule = true -> seps_ok_rule rule = true -> xinv c st -> expand_rule c st rule = (alts, st') ->
  xinv c st' /\ xrel st st' /\ Forall (bnd (cN c + Z.of_nat (x_extra st'))) alts.
Proof.
  intros Hb Hs Hi Hx.
  destruct rule; cbn [expand_rule seps_ok_rule] in Hx, Hs;
    try (destruct (expand_expr_wf c _ _ _ _ Hb Hs Hi Hx) as (A & B & C & _); split; [exact A|]; split; [exact B | exact C]).
  match type of Hx with (let '(_, _) := expand_expr c st ?s in _) = _ => destruct (expand_expr c st s) as [r st1] eqn:E1 end.
  injection Hx as <- <-. cbn [bounded] in Hb.
  destruct (expand_expr_wf c _ _ _ _ Hb Hs Hi E1) as (A & B & C & _). split; [exact A|]. split; [exact B|].
  apply Forall_map_wrap; auto.
Qed.

Lemma bounded_collapse B out : Forall (bnd B) out -> bounded B (EChoice (collapse_empty out)) = true.
Proof.
  intro H. cbn [bounded]. apply forallb_forall. intros x Hx. apply collapse_empty_in in Hx.
  rewrite Forall_forall in H. now apply H.
Qed.

Lemma expand_nonterm_wf c v st v' st' :
  bounded (cN c) v = true -> seps_ok_nt v = true -> xinv c st -> expand_nonterm c st v = (v', st') ->
  xinv c st' /\ xrel st st' /\ bounded (cN c + Z.of_nat (x_extra st')) v' = true.
Proof.
  intros Hb Hs Hi.
  assert (Gdef : forall v0, bounded (cN c) v0 = true -> seps_ok_rule v0 = true ->
            (let '(r, st) := expand_rule c st v0 in (EChoice (collapse_empty r), st)) = (v', st') ->
            xinv c st' /\ xrel st st' /\ bounded (cN c + Z.of_nat (x_extra st')) v' = true).
  { intros v0 Hb0 Hs0 Hx. destruct (expand_rule c st v0) as [r st1] eqn:E1. injection Hx as <- <-.
    destruct (expand_rule_wf c _ _ _ _ Hb0 Hs0 Hi E1) as (A & B & C). split; [exact A|]. split; [exact B|].
    now apply bounded_collapse. }
  destruct v; cbn [expand_nonterm]; try (apply Gdef; [exact Hb | exact Hs]).
  - (* Choice: the rules *)
    intro Hx. cbn [bounded seps_ok_nt] in Hb, Hs. rewrite forallb_Forall in Hb, Hs.
    assert (G : forall rules out st out' st', Forall (bnd (cN c)) rules -> Forall (fun r => seps_ok_rule r = true) rules ->
              xinv c st -> Forall (bnd (cN c + Z.of_nat (x_extra st))) out ->
              fold_left (fun '(out, st) rule => let '(r, st) := expand_rule c st rule in (out ++ r, st)) rules (out, st) = (out', st') ->
              xinv c st' /\ xrel st st' /\ Forall (bnd (cN c + Z.of_nat (x_extra st'))) out').
    { clear. induction rules as [|x rules IH]; intros out st out' st' Hb Hs Hi Ho Hx; cbn [fold_left] in Hx.
      - injection Hx as <- <-. split; [exact Hi|]. split; [apply xrel_refl | exact Ho].
      - destruct (expand_rule c st x) as [r st1] eqn:E1.
        inversion Hb as [|? ? Hbx Hbl]; subst. inversion Hs as [|? ? Hsx Hsl]; subst.
        destruct (expand_rule_wf c _ _ _ _ Hbx Hsx Hi E1) as (A & B & C).
        assert (Ho1 : Forall (bnd (cN c + Z.of_nat (x_extra st1))) (out ++ r)).
        { apply Forall_app. split; [|exact C]. eapply Forall_bounded_mono; [|exact Ho]. now apply (xrel_extra c). }
        destruct (IH _ _ _ _ Hbl Hsl A Ho1 Hx) as (A2 & B2 & C2). split; [exact A2|]. split; [eapply xrel_trans; eauto | exact C2]. }
    destruct (fold_left _ es ([], st)) as [out st1] eqn:E1. injection Hx as <- <-.
    destruct (G es [] st out st1 Hb Hs Hi (Forall_nil _) E1) as (A & B & C). split; [exact A|]. split; [exact B|].
    now apply bounded_collapse.
  - intro Hx. injection Hx as <- <-. split; [exact Hi|]. split; [apply xrel_refl | reflexivity].
  - intro Hx. injection Hx as <- <-. split; [exact Hi|]. split; [apply xrel_refl | reflexivity].
Qed.

(* ---------- sortTail ---------- *)
Lemma upd_nat_length l : forall i v, length (upd_nat l i v) = length l.
Proof. induction l as [|x l IH]; intros [|i] v; cbn [upd_nat length]; auto. Qed.

Lemma nth_upd_nat_same l : forall i v, (i < length l)%nat -> nth i (upd_nat l i v) O = v.
Proof. induction l as [|x l IH]; intros [|i] v H; cbn [upd_nat length nth] in *; try lia; auto. apply IH. lia. Qed.

Lemma nth_upd_nat_other l : forall i j v, i <> j -> nth j (upd_nat l i v) O = nth j l O.
Proof.
  induction l as [|x l IH]; intros [|i] [|j] v H; cbn [upd_nat nth]; auto; try congruence.
Qed.

Definition pos_vals (perm : list nat) (ps : list nat) : list nat := map (fun j => nth j perm O) ps.

Lemma assign_fold (s : nat) : forall sorted perm k, NoDup sorted -> (forall x, In x sorted -> (x < length perm)%nat) ->
  let perm' := fst (fold_left (fun '(perm, k) nt => (upd_nat perm nt (s + k)%nat, S k)) sorted (perm, k)) in
  length perm' = length perm /\ (forall j, ~ In j sorted -> nth j perm' O = nth j perm O) /\
  pos_vals perm' sorted = seq (s + k) (length sorted).
Proof.
  induction sorted as [|x rest IH]; intros perm k Hnd Hlt; cbn [fold_left fst].
  - repeat split; auto.
  - inversion Hnd as [|? ? Hx Hnd']; subst.
    destruct (IH (upd_nat perm x (s + k)%nat) (S k) Hnd') as (H1 & H2 & H3).
    { intros y Hy. rewrite upd_nat_length. apply Hlt. now right. }
    cbv zeta in H1, H2, H3 |- *. rewrite upd_nat_length in H1. split; [exact H1|]. split.
    + intros j Hj. rewrite H2 by (intro; apply Hj; now right). apply nth_upd_nat_other. intro; apply Hj; now left.
    + unfold pos_vals in *. cbn [map length seq]. f_equal.
      * rewrite (H2 x Hx). apply nth_upd_nat_same. apply Hlt. now left.
      * rewrite H3. f_equal. lia.
Qed.

Lemma map_seq_shift (f : nat -> nat) b : forall k s, (forall j, (s <= j < s + k)%nat -> f j = (j + b)%nat) -> map f (seq s k) = seq (s + b) k.
Proof.
  induction k as [|k IH]; intros s H; cbn [seq map]; [reflexivity|]. f_equal; [apply H; lia|].
  rewrite IH by (intros j Hj; apply H; lia). reflexivity.
Qed.

Lemma perm_4 {A} (a b c d : list A) : Permutation ((a ++ b) ++ (c ++ d)) ((a ++ c) ++ (b ++ d)).
Proof.
  rewrite <- !app_assoc. apply Permutation_app_head. rewrite !app_assoc. apply Permutation_app_tail. apply Permutation_app_comm.
Qed.

Lemma map_nth_seq (l : list nat) : map (fun j => nth j l O) (seq 0 (length l)) = l.
Proof.
  induction l as [|x l IH]; cbn [length seq map nth]; [reflexivity|]. f_equal.
  rewrite <- seq_shift, map_map. exact IH.
Qed.

(* ---------- phase 1: the loop invariant ---------- *)
Section Phase1Inv.
  Variable m : model.
  Let n := length (m_nonterms m).
  Let N : Z := nterms m + Z.of_nat n.

  Lemma n_orig_ctx i : n_orig (ctx_at m i) = n.
  Proof. unfold n_orig, ctx_at. cbn [c_names]. apply map_length. Qed.

  Lemma cN_ctx i : cN (ctx_at m i) = N.
  Proof. unfold cN. rewrite n_orig_ctx. reflexivity. Qed.

  Definition xinv' (st : xst) : Prop :=
    length (x_perm st) = (n + x_extra st)%nat /\ length (x_extras st) = x_extra st /\
    Forall (fun nv => bounded (N + Z.of_nat (x_extra st)) (snd nv) = true) (x_extras st).

  Lemma xinv_ctx i st : xinv (ctx_at m i) st <-> xinv' st.
  Proof. unfold xinv, xinv'. fold (cN (ctx_at m i)). rewrite cN_ctx, n_orig_ctx. tauto. Qed.

  Definition pinv (i : nat) (vals : list expr) (st : xst) : Prop :=
    xinv' st /\ (x_start st <= i <= n)%nat /\ (x_base st <= x_extra st)%nat /\
    Permutation (pos_vals (x_perm st) (seq 0 (x_start st) ++ seq n (x_base st))) (seq 0 (x_start st + x_base st)) /\
    (x_extra st = x_base st -> forall j, (x_start st <= j < i)%nat -> nth j (x_perm st) O = (j + x_base st)%nat) /\
    (i = n -> x_start st = n /\ x_base st = x_extra st) /\
    Forall (bnd (N + Z.of_nat (x_extra st))) vals /\ length vals = i /\ x_fatal st = false.

  Lemma step_pinv i vals st vals' st' :
    (i < n)%nat -> bounded N (value_at m i) = true -> seps_ok_nt (value_at m i) = true ->
    pinv i vals st -> step m (vals, st) i = (vals', st') -> pinv (S i) vals' st'.
  Proof.
    intros Hi Hb Hs (Hx & Hst & Hbe & Hperm & Hd & He & Hv & Hlv & Hf). unfold step. fold (value_at m i).
    match goal with |- context [expand_nonterm (ctx_at m i) ?s (value_at m i)] => set (st0 := s) end.
    destruct (expand_nonterm (ctx_at m i) st0 (value_at m i)) as [v st2] eqn:E. intro H. injection H as <- <-.
    destruct Hx as (Hl & Hle & Hbx).
    assert (Hx0 : xinv (ctx_at m i) st0).
    { apply xinv_ctx. unfold xinv', st0. cbn [x_perm x_extras x_extra]. rewrite upd_nat_length. repeat split; auto. }
    rewrite <- (cN_ctx i) in Hb.
    destruct (expand_nonterm_wf _ _ _ _ _ Hb Hs Hx0 E) as (Hx2 & (Hs2 & Hb2 & Hf2 & Hle2 & more & Hp2) & Hbv).
    unfold st0 in Hs2, Hb2, Hf2, Hle2, Hp2. cbn [x_perm x_extra x_start x_base x_fatal] in Hs2, Hb2, Hf2, Hle2, Hp2.
    rewrite cN_ctx in Hbv.
    assert (Hnth : forall j, (j < length (x_perm st))%nat -> j <> i -> nth j (x_perm st2) O = nth j (x_perm st) O).
    { intros j Hj Hne. rewrite Hp2, app_nth1 by (now rewrite upd_nat_length). apply nth_upd_nat_other. congruence. }
    assert (Hnthi : nth i (x_perm st2) O = (i + x_extra st)%nat).
    { rewrite Hp2, app_nth1 by (rewrite upd_nat_length; lia). apply nth_upd_nat_same. lia. }
    assert (Hperm2 : Permutation (pos_vals (x_perm st2) (seq 0 (x_start st) ++ seq n (x_base st))) (seq 0 (x_start st + x_base st))).
    { replace (pos_vals (x_perm st2) (seq 0 (x_start st) ++ seq n (x_base st))) with
        (pos_vals (x_perm st) (seq 0 (x_start st) ++ seq n (x_base st))); [exact Hperm|].
      unfold pos_vals. apply map_ext_in. intros j Hj. symmetry. apply in_app_or in Hj as [Hj|Hj]; apply in_seq in Hj; apply Hnth; lia. }
    assert (Hd2 : x_extra st2 = x_base st -> forall j, (x_start st <= j < S i)%nat -> nth j (x_perm st2) O = (j + x_base st)%nat).
    { intros Heq j Hj. assert (Heq0 : x_extra st = x_base st) by lia.
      destruct (Nat.eq_dec j i) as [->|Hne]; [rewrite Hnthi; lia|]. rewrite Hnth by lia. apply Hd; [exact Heq0 | lia]. }
    assert (Hv2 : Forall (bnd (N + Z.of_nat (x_extra st2))) (vals ++ [v])).
    { apply Forall_app. split; [eapply Forall_bounded_mono; [|exact Hv]; lia | constructor; [exact Hbv | constructor]]. }
    assert (Hlv2 : length (vals ++ [v]) = S i) by (rewrite app_length; cbn [length]; lia).
    apply xinv_ctx in Hx2. destruct Hx2 as (Hl2 & Hle2' & Hbx2).
    destruct ((0 <? group_at (m_nonterms m) i) && Nat.ltb (S i) (length (m_nonterms m)) && (group_at (m_nonterms m) i =? group_at (m_nonterms m) (S i))) eqn:Edelay.
    - (* delayed: no sort *)
      assert (HSi : (S i < n)%nat).
      { apply andb_true_iff in Edelay as [Ed _]. apply andb_true_iff in Ed as [_ Ed]. apply Nat.ltb_lt in Ed. exact Ed. }
      unfold pinv. rewrite Hs2, Hb2, Hf2.
      split; [unfold xinv'; repeat split; assumption|].
      split; [lia|]. split; [lia|]. split; [exact Hperm2|]. split; [exact Hd2|]. split; [lia|]. repeat split; assumption.
    - (* sortTail *)
      unfold sort_tail. rewrite Hs2, Hb2. cbn [c_curr ctx_at].
      destruct (Nat.eqb (x_extra st2 - x_base st) 0) eqn:Esz.
      + apply Nat.eqb_eq in Esz. assert (Heq : x_extra st2 = x_base st) by lia.
        unfold pinv. cbn [x_perm x_extras x_extra x_start x_base x_fatal].
        split; [unfold xinv'; repeat split; assumption|].
        split; [lia|]. split; [lia|]. split.
        * rewrite Heq. replace (S i) with (x_start st + (S i - x_start st))%nat at 1 by lia.
          rewrite seq_app. rewrite !Nat.add_0_l. unfold pos_vals. rewrite !map_app.
          eapply Permutation_trans; [rewrite <- app_assoc; apply Permutation_app_head, Permutation_app_comm|].
          rewrite app_assoc.
          rewrite (map_seq_shift (fun j => nth j (x_perm st2) O) (x_base st) (S i - x_start st) (x_start st))
            by (intros j Hj; apply Hd2; [exact Heq | lia]).
          replace (S i + x_base st)%nat with ((x_start st + x_base st) + (S i - x_start st))%nat by lia.
          rewrite (seq_app (x_start st + x_base st)). rewrite !Nat.add_0_l. apply Permutation_app_tail.
          unfold pos_vals in Hperm2. rewrite map_app in Hperm2. exact Hperm2.
        * split; [intros _ j Hj; lia|]. split; [auto|]. repeat split; try assumption. congruence.
      + apply Nat.eqb_neq in Esz.
        set (size := (x_extra st2 - x_base st)%nat) in *.
        rewrite n_orig_ctx, Hle2'.
        replace (n + x_extra st2 - size)%nat with (n + x_base st)%nat by lia.
        set (local := seq (x_start st) (S i - x_start st) ++ seq (n + x_base st) size).
        set (sorted := sort_by_name (fun i0 => nt_name_at (ctx_at m i) st2 (Z.of_nat i0)) local).
        assert (HPs : Permutation sorted local) by apply sort_by_name_perm.
        assert (Hndl : NoDup local).
        { unfold local. replace (n + x_base st)%nat with ((n + x_extra st2) - size)%nat by lia.
          apply sort_tail_local_nodup. lia. }
        assert (Hnds : NoDup sorted) by (eapply Permutation_NoDup; [apply Permutation_sym; exact HPs | exact Hndl]).
        assert (Hlt : forall x, In x sorted -> (x < length (x_perm st2))%nat).
        { intros x Hx. apply (Permutation_in _ HPs) in Hx. unfold local in Hx.
          apply in_app_or in Hx as [Hx|Hx]; apply in_seq in Hx; lia. }
        destruct (assign_fold (x_start st + x_base st) sorted (x_perm st2) O Hnds Hlt) as (A1 & A2 & A3).
        cbv zeta in A1, A2, A3.
        match goal with |- pinv _ _ {| x_perm := ?p |} => set (perm' := p) in * end.
        unfold pinv. cbn [x_perm x_extras x_extra x_start x_base x_fatal].
        split; [unfold xinv'; cbn [x_perm x_extras x_extra]; repeat split; try assumption; lia|].
        split; [lia|]. split; [lia|]. split.
        * replace (S i) with (x_start st + (S i - x_start st))%nat at 1 by lia.
          replace (x_extra st2) with (x_base st + size)%nat at 1 by lia.
          rewrite (seq_app (x_start st) (S i - x_start st) 0), (seq_app (x_base st) size n). rewrite !Nat.add_0_l. unfold pos_vals.
          eapply Permutation_trans; [apply Permutation_map, perm_4|]. fold local. rewrite map_app.
          replace (S i + x_extra st2)%nat with ((x_start st + x_base st) + length sorted)%nat.
          2:{ rewrite (Permutation_length HPs). unfold local. rewrite app_length, !seq_length. lia. }
          rewrite (seq_app (x_start st + x_base st)). rewrite !Nat.add_0_l. apply Permutation_app.
          -- replace (map (fun j => nth j perm' O) (seq 0 (x_start st) ++ seq n (x_base st))) with
               (pos_vals (x_perm st2) (seq 0 (x_start st) ++ seq n (x_base st))); [exact Hperm2|].
             unfold pos_vals. apply map_ext_in. intros j Hj. symmetry. apply A2. intro Hin.
             apply (Permutation_in _ HPs) in Hin. unfold local in Hin.
             apply in_app_or in Hj as [Hj|Hj]; apply in_seq in Hj; apply in_app_or in Hin as [Hin|Hin]; apply in_seq in Hin; lia.
          -- eapply Permutation_trans; [apply Permutation_map, Permutation_sym, HPs|].
             unfold pos_vals in A3. rewrite A3. rewrite Nat.add_0_r. apply Permutation_refl.
        * split; [intros _ j Hj; lia|]. split; [auto|]. repeat split; try assumption. congruence.
  Qed.

  Hypothesis Hwf : wf_model m = true.

  Lemma wf_at i : (i < n)%nat -> bounded N (value_at m i) = true /\ seps_ok_nt (value_at m i) = true.
  Proof.
    intro Hi. unfold wf_model in Hwf. rewrite forallb_forall in Hwf.
    specialize (Hwf (nth i (m_nonterms m) (mkNt [] [] EEmpty 0)) (nth_In _ _ Hi)).
    apply andb_true_iff in Hwf. exact Hwf.
  Qed.

  Lemma fold_step_pinv : forall k i vals st vals' st', (i + k = n)%nat -> pinv i vals st ->
    fold_left (step m) (seq i k) (vals, st) = (vals', st') -> pinv n vals' st'.
  Proof.
    induction k as [|k IH]; intros i vals st vals' st' Hik Hp Hx; cbn [seq fold_left] in Hx.
    - injection Hx as <- <-. replace n with i by lia. exact Hp.
    - destruct (step m (vals, st) i) as [vals1 st1] eqn:E1.
      destruct (wf_at i) as [Hb Hs]; [lia|].
      apply (IH (S i) vals1 st1); [lia | | exact Hx]. eapply step_pinv; eauto. lia.
  Qed.

  Theorem phase1_pinv vals st : phase1 m = (vals, st) -> pinv n vals st.
  Proof.
    rewrite phase1_fold. fold n. apply (fold_step_pinv n 0); [lia|].
    unfold pinv, xinv'. cbn [x_perm x_extras x_extra x_start x_base x_fatal]. rewrite repeat_length.
    repeat split; auto; try lia.
  Qed.
End Phase1Inv.

(* the static predicate implies the run-time side conditions of the correctness theorem *)
Theorem wf_model_expand_checks m : wf_model m = true -> expand_checks m = true.
Proof.
  intro Hwf. unfold expand_checks. destruct (phase1 m) as [vals st] eqn:Hp.
  destruct (phase1_pinv m Hwf vals st Hp) as ((Hl & Hle & Hbx) & Hst & Hbe & Hperm & _ & He & Hv & Hlv & Hf).
  destruct (He eq_refl) as [Hs Hb].
  set (n := length (m_nonterms m)) in *.
  assert (HlB : length (vals ++ map snd (x_extras st)) = (n + x_extra st)%nat) by (rewrite app_length, map_length; lia).
  rewrite HlB. rewrite Hf. cbn [negb andb].
  apply andb_true_iff. split; [apply andb_true_iff; split|].
  - apply forallb_forall. intros nt Hnt. unfold wf_model in Hwf. rewrite forallb_forall in Hwf.
    specialize (Hwf nt Hnt). apply andb_true_iff in Hwf as [H1 _]. exact H1.
  - apply permutation_perm_ok. rewrite Hs, Hb in Hperm. rewrite <- seq_app in Hperm.
    unfold pos_vals in Hperm. rewrite <- Hl, map_nth_seq in Hperm. rewrite Hl in Hperm. exact Hperm.
  - apply forallb_Forall. replace (nterms m + Z.of_nat (n + x_extra st)) with (nterms m + Z.of_nat n + Z.of_nat (x_extra st)) by lia.
    apply Forall_app. split; [exact Hv|]. apply Forall_forall. intros v Hin. apply in_map_iff in Hin as (nv & <- & Hnv).
    rewrite Forall_forall in Hbx. exact (Hbx nv Hnv).
Qed.

(* the whole of Expand, with a static hypothesis only *)
Theorem expand_correct_wf setden m :
  wf_model m = true ->
  forall X, nterms m <= X < nterms m + Z.of_nat (length (m_nonterms m)) -> forall w,
    lfp (nterms m) setden (map nt_value (m_nonterms m)) X w <->
    lfp (nterms m) setden (map snd (res_nonterms (expand m))) (perm_sym (nterms m) (x_perm (snd (phase1 m))) X) w.
Proof.
  intros Hwf. apply expand_correct_checked; [now apply wf_model_expand_checks | unfold nterms; lia].
Qed.
