(* infer_fits: for the fragment of Syn/InferFit.v the fields the inference model computes for an arrow body
   are accepted by the (proved sound) symbolic validator, hence fit every child sequence of the body. *)
From Coq Require Import List NArith ZArith Bool Arith Lia.
From TM Require Import Syn.Types Syn.Types_proofs Syn.TypesSym Syn.TypesSym_proofs Syn.Infer Syn.InferFit.
Import ListNotations.
Local Open Scope nat_scope.

(* ---------- strings ---------- *)
Lemma str_eqb_eq : forall a b, str_eqb a b = true <-> a = b.
Proof.
  induction a as [|x a IH]; intros [|y b]; cbn [str_eqb]; split; intro H; try reflexivity; try discriminate.
  - apply andb_true_iff in H. destruct H as [H1 H2]. apply N.eqb_eq in H1. apply IH in H2. now subst.
  - injection H as -> ->. rewrite N.eqb_refl. apply IH. reflexivity.
Qed.

Lemma str_eqb_refl : forall a, str_eqb a a = true.
Proof. intro a. now apply str_eqb_eq. Qed.

Lemma str_eqb_sym : forall a b, str_eqb a b = str_eqb b a.
Proof.
  intros a b. destruct (str_eqb a b) eqn:E.
  - apply str_eqb_eq in E. subst. symmetry. apply str_eqb_refl.
  - destruct (str_eqb b a) eqn:E2; [|reflexivity]. apply str_eqb_eq in E2. subst. rewrite str_eqb_refl in E. discriminate.
Qed.

Lemma str_ltb_irrefl : forall a, str_ltb a a = false.
Proof. induction a as [|x a IH]; cbn [str_ltb]; [reflexivity|]. rewrite N.ltb_irrefl. exact IH. Qed.

(* ---------- induction on expressions (lists of sub-expressions) ---------- *)
Section ExprInd.
  Variable P : expr -> Prop.
  Hypothesis H_empty : P XEmpty.
  Hypothesis H_look : P XLook.
  Hypothesis H_ref : forall s, P (XRef s).
  Hypothesis H_arrow : forall n e, P e -> P (XArrow n e).
  Hypothesis H_seq : forall l, Forall P l -> P (XSeq l).
  Hypothesis H_choice : forall l, Forall P l -> P (XChoice l).
  Hypothesis H_assign : forall n e, P e -> P (XAssign n e).
  Hypothesis H_append : forall n e, P e -> P (XAppend n e).
  Hypothesis H_opt : forall e, P e -> P (XOpt e).
  Hypothesis H_list : forall e s o, P e -> P s -> P (XList e s o).
  Hypothesis H_prec : forall e, P e -> P (XPrec e).

  Fixpoint expr_ind2 (e : expr) : P e :=
    match e with
    | XEmpty => H_empty
    | XLook => H_look
    | XRef s => H_ref s
    | XArrow n e1 => H_arrow n e1 (expr_ind2 e1)
    | XSeq l => H_seq l ((fix go (l : list expr) : Forall P l :=
                            match l with [] => Forall_nil P | x :: r => Forall_cons x (expr_ind2 x) (go r) end) l)
    | XChoice l => H_choice l ((fix go (l : list expr) : Forall P l :=
                            match l with [] => Forall_nil P | x :: r => Forall_cons x (expr_ind2 x) (go r) end) l)
    | XAssign n e1 => H_assign n e1 (expr_ind2 e1)
    | XAppend n e1 => H_append n e1 (expr_ind2 e1)
    | XOpt e1 => H_opt e1 (expr_ind2 e1)
    | XList e1 s o => H_list e1 s o (expr_ind2 e1) (expr_ind2 s)
    | XPrec e1 => H_prec e1 (expr_ind2 e1)
    end.
End ExprInd.

(* ---------- the model's exprPhrase on the fragment is [phr], and leaves the Tarjan state alone ---------- *)
Lemma phr_correct : forall np m e, simple m e = true -> forall st, expr_phrase_with np m e st = (phr m e, st).
Proof.
  intros np m e. induction e using expr_ind2; intro S; cbn [simple] in S; try discriminate; intro st;
    cbn [expr_phrase_with phr].
  - reflexivity.
  - reflexivity.
  - apply Nat.ltb_lt in S. destruct (m_nterms m <=? s) eqn:E; [apply Nat.leb_le in E; lia|].
    destruct (tok_name m s); reflexivity.
  - apply negb_true_iff in S. rewrite S. reflexivity.
  - assert (G : forall st,
      (fix go (l : list expr) (st : tj) {struct l} : list phrase * tj :=
         match l with
         | [] => ([], st)
         | x :: r => let '(p, st1) := expr_phrase_with np m x st in let '(ps, st2) := go r st1 in (p :: ps, st2)
         end) l st = (map (phr m) l, st)).
    { induction l as [|x r IHr]; intro st0; [reflexivity|]. cbn [forallb] in S. apply andb_true_iff in S. destruct S as [S1 S2].
      inversion H as [|? ? Hx Hr]; subst. rewrite (Hx S1 st0). rewrite (IHr Hr S2 st0). reflexivity. }
    rewrite G. reflexivity.
  - rewrite (IHe S st). reflexivity.
  - apply andb_true_iff in S. destruct S as [S1 S2]. rewrite (IHe1 S1 st). reflexivity.
  - apply IHe. exact S.
Qed.

(* ---------- fields of the fragment: one type each, unnamed ---------- *)
Definition ftype (f : pfield) : str := hd [] (pf_types f).
Definition wf_field (f : pfield) : Prop := pf_types f = [ftype f] /\ pf_ident f = 61%N :: ftype f /\ pf_name f = [].

Definition lookup (t : str) (fs : list pfield) : option (bool * bool) :=
  match find (fun f => str_eqb t (ftype f)) fs with
  | Some f => Some (pf_list f, pf_null f)
  | None => None
  end.

Fixpoint upd (f : pfield) (fs : list pfield) : list pfield :=
  match fs with
  | [] => [f]
  | g :: r => if str_eqb (pf_ident f) (pf_ident g) then set_list (merge_fields g [f]) :: r else g :: upd f r
  end.

Lemma find_ident_upd : forall f fs i,
  match find_ident (pf_ident f) fs i with
  | Some k => exists j, k = i + j /\ upd f fs = set_nth j (set_list (merge_fields (nth j fs dummy_field) [f])) fs
  | None => upd f fs = fs ++ [f]
  end.
Proof.
  intros f fs. induction fs as [|g r IH]; intro i; cbn [find_ident upd]; [reflexivity|].
  destruct (str_eqb (pf_ident f) (pf_ident g)) eqn:E.
  - exists 0. split; [lia | reflexivity].
  - specialize (IH (S i)). destruct (find_ident (pf_ident f) r (S i)) as [k|].
    + destruct IH as (j & -> & Hu). exists (S j). split; [lia|]. cbn [nth set_nth]. now rewrite Hu.
    + cbn [app]. now rewrite IH.
Qed.

Lemma concat_step_upd : forall ret f, ph_fields (concat_step ret f) = upd f (ph_fields ret).
Proof.
  intros ret f. unfold concat_step. pose proof (find_ident_upd f (ph_fields ret) 0) as H.
  destruct (find_ident (pf_ident f) (ph_fields ret) 0) as [k|].
  - destruct H as (j & -> & Hu). cbn [Nat.add ph_fields]. now rewrite Hu.
  - cbn [ph_fields]. now rewrite H.
Qed.

Lemma fold_concat_step_upd : forall qs ret,
  ph_fields (fold_left concat_step qs ret) = fold_left (fun acc f => upd f acc) qs (ph_fields ret).
Proof.
  induction qs as [|q qs IH]; intro ret; cbn [fold_left]; [reflexivity|]. rewrite IH, concat_step_upd. reflexivity.
Qed.

Lemma wf_merge : forall g f, wf_field g -> wf_field f -> ftype g = ftype f ->
  let mg := set_list (merge_fields g [f]) in
  wf_field mg /\ ftype mg = ftype g /\ pf_list mg = true /\ pf_null mg = pf_null g || pf_null f.
Proof.
  intros g f (Gt & Gi & Gn) (Ft & Fi & Fn) E. cbv zeta. unfold set_list, merge_fields. cbn [fold_left].
  cbn [pf_name pf_types pf_list pf_null pf_ident]. rewrite Gt, Ft, Gn, Fn, E. cbn [str_eqb app].
  assert (SD : sort_dedup [ftype f; ftype f] = [ftype f]).
  { unfold sort_dedup. cbn [fold_left str_insert]. rewrite str_ltb_irrefl, str_eqb_refl. reflexivity. }
  rewrite SD. unfold wf_field, ftype. cbn [pf_name pf_types pf_list pf_null pf_ident hd].
  repeat split; try reflexivity. rewrite Gi, E. reflexivity.
Qed.

Lemma ident_eqb_wf : forall f g, wf_field f -> wf_field g -> str_eqb (pf_ident f) (pf_ident g) = str_eqb (ftype f) (ftype g).
Proof. intros f g (_ & Fi & _) (_ & Gi & _). rewrite Fi, Gi. cbn [str_eqb]. rewrite N.eqb_refl. reflexivity. Qed.

Lemma wf_upd : forall f fs, wf_field f -> Forall wf_field fs -> Forall wf_field (upd f fs).
Proof.
  intros f fs Wf. induction fs as [|g r IH]; intro W; cbn [upd]; [constructor; [exact Wf | constructor]|].
  inversion W as [|? ? Wg Wr]; subst. rewrite (ident_eqb_wf f g Wf Wg).
  destruct (str_eqb (ftype f) (ftype g)) eqn:E.
  - apply str_eqb_eq in E. constructor; [|exact Wr]. apply (wf_merge g f Wg Wf). now symmetry.
  - constructor; [exact Wg | now apply IH].
Qed.

Definition combine_flags (a b : option (bool * bool)) : option (bool * bool) :=
  match a, b with
  | Some (_, n1), Some (_, n2) => Some (true, n1 || n2)
  | Some x, None => Some x
  | None, y => y
  end.

Lemma lookup_upd : forall t f fs, wf_field f -> Forall wf_field fs ->
  lookup t (upd f fs) =
    if str_eqb t (ftype f) then combine_flags (lookup t fs) (Some (pf_list f, pf_null f)) else lookup t fs.
Proof.
  intros t f fs Wf. induction fs as [|g r IH]; intro W; cbn [upd].
  - unfold lookup. cbn [find]. destruct (str_eqb t (ftype f)); reflexivity.
  - inversion W as [|? ? Wg Wr]; subst. rewrite (ident_eqb_wf f g Wf Wg).
    destruct (str_eqb (ftype f) (ftype g)) eqn:E.
    + apply str_eqb_eq in E. destruct (wf_merge g f Wg Wf (eq_sym E)) as (_ & Mt & Ml & Mn). cbv zeta in Mt, Ml, Mn.
      unfold lookup. cbn [find]. rewrite Mt, <- E.
      destruct (str_eqb t (ftype f)) eqn:T; [|reflexivity]. rewrite Ml, Mn. reflexivity.
    + unfold lookup in *. cbn [find]. destruct (str_eqb t (ftype g)) eqn:T.
      * destruct (str_eqb t (ftype f)) eqn:T2; [|reflexivity].
        apply str_eqb_eq in T, T2. rewrite <- T, <- T2, str_eqb_refl in E. discriminate.
      * apply IH. exact Wr.
Qed.

Lemma lookup_none : forall t fs, ~ In t (map ftype fs) -> lookup t fs = None.
Proof.
  intros t fs. unfold lookup. induction fs as [|g r IH]; intro H; cbn [find]; [reflexivity|].
  destruct (str_eqb t (ftype g)) eqn:E.
  - apply str_eqb_eq in E. exfalso. apply H. left. now symmetry.
  - apply IH. intro X. apply H. now right.
Qed.

Lemma lookup_some_in : forall t fs x, lookup t fs = Some x -> In t (map ftype fs).
Proof.
  intros t fs x. unfold lookup. induction fs as [|g r IH]; cbn [find]; [discriminate|].
  destruct (str_eqb t (ftype g)) eqn:E; intro H.
  - apply str_eqb_eq in E. left. now symmetry.
  - right. now apply IH.
Qed.

Lemma map_ftype_upd : forall f fs, wf_field f -> Forall wf_field fs ->
  map ftype (upd f fs) = if existsb (str_eqb (ftype f)) (map ftype fs) then map ftype fs else map ftype fs ++ [ftype f].
Proof.
  intros f fs Wf. induction fs as [|g r IH]; intro W; cbn [upd map existsb]; [reflexivity|].
  inversion W as [|? ? Wg Wr]; subst. rewrite (ident_eqb_wf f g Wf Wg).
  destruct (str_eqb (ftype f) (ftype g)) eqn:E; cbn [orb map].
  - apply str_eqb_eq in E. destruct (wf_merge g f Wg Wf (eq_sym E)) as (_ & Mt & _). cbv zeta in Mt. now rewrite Mt.
  - rewrite (IH Wr). destruct (existsb (str_eqb (ftype f)) (map ftype r)); reflexivity.
Qed.

Lemma nodup_upd : forall f fs, wf_field f -> Forall wf_field fs -> NoDup (map ftype fs) -> NoDup (map ftype (upd f fs)).
Proof.
  intros f fs Wf W ND. rewrite (map_ftype_upd f fs Wf W). destruct (existsb (str_eqb (ftype f)) (map ftype fs)) eqn:E; [exact ND|].
  apply NoDup_app_one || idtac.
  assert (NI : ~ In (ftype f) (map ftype fs)).
  { intro X. assert (existsb (str_eqb (ftype f)) (map ftype fs) = true); [|congruence].
    apply existsb_exists. exists (ftype f). split; [exact X | apply str_eqb_refl]. }
  clear E. induction (map ftype fs) as [|x l IH]; cbn [app]; [constructor; [intros []|constructor]|].
  inversion ND as [|? ? Nx Nl]; subst. constructor.
  - intro X. apply in_app_or in X. destruct X as [X|[X|[]]]; [contradiction|]. apply NI. now left.
  - apply IH; [exact Nl|]. intro X. apply NI. now right.
Qed.

Lemma lookup_cons : forall t q qs,
  lookup t (q :: qs) = if str_eqb t (ftype q) then Some (pf_list q, pf_null q) else lookup t qs.
Proof. intros. unfold lookup. cbn [find]. destruct (str_eqb t (ftype q)); reflexivity. Qed.

Lemma lookup_fold : forall t qs fs, Forall wf_field qs -> Forall wf_field fs -> NoDup (map ftype qs) ->
  lookup t (fold_left (fun acc f => upd f acc) qs fs) = combine_flags (lookup t fs) (lookup t qs).
Proof.
  intros t qs. induction qs as [|q qs IH]; intros fs Wq Wf ND; cbn [fold_left].
  - replace (lookup t []) with (@None (bool * bool)) by reflexivity. destruct (lookup t fs) as [[? ?]|]; reflexivity.
  - inversion Wq as [|? ? W1 W2]; subst. cbn [map] in ND. inversion ND as [|? ? N1 N2]; subst.
    rewrite (IH (upd q fs) W2 (wf_upd q fs W1 Wf) N2). rewrite (lookup_upd t q fs W1 Wf). rewrite lookup_cons.
    destruct (str_eqb t (ftype q)) eqn:E; [|reflexivity].
    apply str_eqb_eq in E. subst t. rewrite (lookup_none (ftype q) qs N1).
    destruct (lookup (ftype q) fs) as [[? ?]|]; reflexivity.
Qed.

Lemma wf_fold : forall qs fs, Forall wf_field qs -> Forall wf_field fs -> NoDup (map ftype fs) ->
  Forall wf_field (fold_left (fun acc f => upd f acc) qs fs) /\ NoDup (map ftype (fold_left (fun acc f => upd f acc) qs fs)).
Proof.
  induction qs as [|q qs IH]; intros fs Wq Wf ND; cbn [fold_left]; [now split|].
  inversion Wq as [|? ? W1 W2]; subst. apply IH; [exact W2 | now apply wf_upd | now apply nodup_upd].
Qed.

(* ---------- counting facts ---------- *)
Ltac sat := unfold sat_add; repeat match goal with |- context [2 <=? ?x] => destruct (Nat.leb_spec 2 x) end; lia.

Lemma cnodes_cnt_max : forall sel c n, In n (cnodes c) -> sel_has sel n = true -> 1 <= cnt_max sel c.
Proof.
  intros sel c. induction c; intros n H S; cbn [cnodes cnt_max] in *; try contradiction.
  - destruct H as [->|[]]. rewrite S. lia.
  - apply in_app_or in H. destruct H as [H|H]; [specialize (IHc1 n H S) | specialize (IHc2 n H S)]; sat.
  - apply in_app_or in H. destruct H as [H|H]; [specialize (IHc1 n H S) | specialize (IHc2 n H S)]; lia.
  - eauto.
  - specialize (IHc n H S). destruct (cnt_max sel c =? 0) eqn:E; [apply Nat.eqb_eq in E; lia | lia].
Qed.

Lemma sel_has_single : forall a n, sel_has [a] n = N.eqb n a.
Proof. intros. unfold sel_has. cbn [existsb]. apply orb_false_r. Qed.

(* ---------- the invariant: the flags of the phrase bound the number of children per type ---------- *)
Definition wf_phrase (p : phrase) : Prop := Forall wf_field (ph_fields p) /\ NoDup (map ftype (ph_fields p)).

Definition flags_ok (tid : str -> N) (fs : list pfield) (c : cexpr) : Prop :=
  forall t, match lookup t fs with
            | Some (l, n) => (n = false -> 1 <= cnt_min [tid t] c) /\ (l = false -> cnt_max [tid t] c <= 1)
            | None => cnt_max [tid t] c = 0
            end.

Definition inv (tid : str -> N) (p : phrase) (c : cexpr) : Prop :=
  wf_phrase p /\ flags_ok tid (ph_fields p) c /\ (forall n, In n (cnodes c) -> exists t, n = tid t).

Lemma inv_seq : forall tid p1 c1 p2 c2 p,
  inv tid p1 c1 -> inv tid p2 c2 ->
  ph_fields p = fold_left (fun acc f => upd f acc) (ph_fields p2) (ph_fields p1) ->
  inv tid p (CSeq c1 c2).
Proof.
  intros tid p1 c1 p2 c2 p ((W1 & N1) & F1 & C1) ((W2 & N2) & F2 & C2) E. unfold inv, wf_phrase. rewrite E. split; [|split].
  - apply wf_fold; assumption.
  - intro t. rewrite (lookup_fold t _ _ W2 W1 N2). specialize (F1 t). specialize (F2 t). cbn [cnt_min cnt_max].
    destruct (lookup t (ph_fields p1)) as [[l1 n1]|]; destruct (lookup t (ph_fields p2)) as [[l2 n2]|]; cbn [combine_flags].
    + split; [|discriminate]. intro H. apply orb_false_iff in H. destruct H as [H _]. destruct F1 as [F1 _]. specialize (F1 H). sat.
    + destruct F1 as [Fa Fb]. split; intro H; [specialize (Fa H) | specialize (Fb H)]; sat.
    + destruct F2 as [Fa Fb]. split; intro H; [specialize (Fa H) | specialize (Fb H)]; sat.
    + sat.
  - intros n H. cbn [cnodes] in H. apply in_app_or in H. destruct H; auto.
Qed.

Lemma inv_empty : forall tid, inv tid (mkPh [] true) CEmpty.
Proof.
  intro tid. split; [split; [constructor | constructor]|]. split; [intro t; reflexivity | intros n []].
Qed.

Lemma inv_node : forall tid name, (forall a b, tid a = tid b -> a = b) -> inv tid (new_phrase name) (CNode (tid name)).
Proof.
  intros tid name Inj. unfold new_phrase. split; [|split].
  - split; cbn [ph_fields map]; [|constructor; [intros []|constructor]].
    constructor; [|constructor]. unfold wf_field, ftype. cbn. repeat split.
  - intro t. unfold lookup. cbn [ph_fields find]. unfold ftype at 1. cbn [pf_types hd]. cbn [cnt_min cnt_max].
    rewrite sel_has_single. destruct (str_eqb t name) eqn:E.
    + apply str_eqb_eq in E. subst. rewrite N.eqb_refl. cbn [pf_list pf_null]. split; intros _; lia.
    + destruct (N.eqb (tid name) (tid t)) eqn:E2; [|reflexivity]. apply N.eqb_eq in E2. apply Inj in E2. subst.
      rewrite str_eqb_refl in E. discriminate.
  - intros n [<-|[]]. now exists name.
Qed.

Lemma lookup_map : forall t g fs, (forall f, ftype (g f) = ftype f) ->
  lookup t (map g fs) = match find (fun f => str_eqb t (ftype f)) fs with
                        | Some f => Some (pf_list (g f), pf_null (g f)) | None => None end.
Proof.
  intros t g fs Hg. unfold lookup. induction fs as [|f r IH]; cbn [map find]; [reflexivity|].
  rewrite Hg. destruct (str_eqb t (ftype f)); [reflexivity | exact IH].
Qed.

Lemma wf_map : forall g p, (forall f, wf_field f -> wf_field (g f) /\ ftype (g f) = ftype f) -> wf_phrase p ->
  Forall wf_field (map g (ph_fields p)) /\ NoDup (map ftype (map g (ph_fields p))).
Proof.
  intros g p Hg (W & ND). split.
  - apply Forall_map. eapply Forall_impl; [|exact W]. intros f Wf. apply (Hg f Wf).
  - rewrite map_map. replace (map (fun x => ftype (g x)) (ph_fields p)) with (map ftype (ph_fields p)); [exact ND|].
    apply map_ext_in. intros f Hf. rewrite Forall_forall in W. symmetry. apply (Hg f (W f Hf)).
Qed.

Lemma inv_opt : forall tid p c o, inv tid p c -> inv tid (mkPh (map set_null (ph_fields p)) o) (COpt c).
Proof.
  intros tid p c o (W & F & C). split; [|split]; cbn [ph_fields].
  - apply (wf_map set_null p); [|exact W]. intros f (A & B & D). split; [|reflexivity]. unfold wf_field, ftype, set_null. cbn. auto.
  - intro t. rewrite (lookup_map t set_null); [|reflexivity]. specialize (F t). unfold lookup in F. cbn [cnt_min cnt_max].
    destruct (find (fun f => str_eqb t (ftype f)) (ph_fields p)) as [f|]; [|exact F].
    cbn [set_null pf_list pf_null]. destruct F as [_ F]. split; [discriminate | exact F].
  - exact C.
Qed.

Lemma inv_list : forall tid p c o oom, inv tid p c ->
  inv tid (mkPh (map (fun f => mkPF (pf_name f) (pf_types f) true (pf_null f || negb oom) (pf_ident f)) (ph_fields p)) o) (CList c oom).
Proof.
  intros tid p c o oom (W & F & C). split; [|split]; cbn [ph_fields].
  - apply (wf_map (fun f => mkPF (pf_name f) (pf_types f) true (pf_null f || negb oom) (pf_ident f)) p); [|exact W].
    intros f (A & B & D). split; [|reflexivity]. unfold wf_field, ftype. cbn. auto.
  - intro t. rewrite (lookup_map t (fun f => mkPF (pf_name f) (pf_types f) true (pf_null f || negb oom) (pf_ident f))); [|reflexivity].
    specialize (F t). unfold lookup in F. cbn [cnt_min cnt_max].
    destruct (find (fun f => str_eqb t (ftype f)) (ph_fields p)) as [f|].
    + cbn [pf_list pf_null]. destruct F as [F _]. split; [|discriminate]. intro H. apply orb_false_iff in H. destruct H as [H1 H2].
      apply negb_false_iff in H2. subst oom. auto.
    + rewrite F. reflexivity.
  - exact C.
Qed.

Lemma simple_inv : forall tid m, (forall a b, tid a = tid b -> a = b) ->
  forall e, simple m e = true -> inv tid (phr m e) (cexpr_of tid m e).
Proof.
  intros tid m Inj e. induction e using expr_ind2; cbn [simple]; intro S; try discriminate; cbn [phr cexpr_of].
  - apply inv_empty.
  - apply inv_empty.
  - destruct (tok_name m s); [now apply inv_node | apply inv_empty].
  - now apply inv_node.
  - unfold concat_phrases.
    assert (G : forall l accp accc, inv tid accp accc ->
              Forall (fun e => simple m e = true -> inv tid (phr m e) (cexpr_of tid m e)) l -> forallb (simple m) l = true ->
              inv tid (fold_left (fun ret p => fold_left concat_step (ph_fields p) (mkPh (ph_fields ret) (ph_ordered ret && ph_ordered p)))
                                 (map (phr m) l) accp)
                      ((fix go (l : list expr) (acc : cexpr) {struct l} : cexpr :=
                          match l with [] => acc | x :: r => go r (CSeq acc (cexpr_of tid m x)) end) l accc)).
    { clear. induction l as [|x r IH]; intros accp accc IA HF HS; cbn [map fold_left]; [exact IA|].
      cbn [forallb] in HS. apply andb_true_iff in HS. destruct HS as [S1 S2]. inversion HF as [|? ? Hx Hr]; subst.
      apply IH; [|exact Hr | exact S2].
      eapply inv_seq; [exact IA | exact (Hx S1) |]. rewrite fold_concat_step_upd. reflexivity. }
    apply G; [apply inv_empty | exact H | exact S].
  - apply inv_opt. now apply IHe.
  - apply andb_true_iff in S. destruct S as [S1 S2]. apply inv_list. now apply IHe1.
  - now apply IHe.
Qed.

Lemma lookup_in : forall f fs, NoDup (map ftype fs) -> In f fs -> lookup (ftype f) fs = Some (pf_list f, pf_null f).
Proof.
  intros f fs. induction fs as [|g r IH]; intros ND H; [contradiction|]. rewrite lookup_cons.
  cbn [map] in ND. inversion ND as [|? ? N1 N2]; subst. destruct H as [->|H]; [now rewrite str_eqb_refl|].
  destruct (str_eqb (ftype f) (ftype g)) eqn:E; [|now apply IH].
  apply str_eqb_eq in E. exfalso. apply N1. rewrite <- E. now apply in_map.
Qed.

(* infer_fits: the symbolic validator accepts what the model infers *)
Theorem infer_fits : forall tid m np e st inj,
  (forall a b, tid a = tid b -> a = b) -> simple m e = true ->
  check_sym [] (to_fields tid (fst (expr_phrase_with np m e st))) inj (cexpr_of tid m e) = true.
Proof.
  intros tid m np e st inj Inj S. rewrite (phr_correct np m e S st). cbn [fst].
  destruct (simple_inv tid m Inj e S) as ((W & ND) & F & C). unfold check_sym, to_fields.
  repeat (apply andb_true_iff; split).
  - apply forallb_forall. intros f' Hf. apply in_map_iff in Hf. destruct Hf as (f & <- & Hf). cbn [f_after f_assert].
    unfold assert_covers_b. cbn [f_assert]. destruct (length (pf_types f) =? 1); reflexivity.
  - apply forallb_forall. intros f' Hf. apply in_map_iff in Hf. destruct Hf as (f & <- & Hf). cbn [f_required f_list f_sel].
    rewrite Forall_forall in W. destruct (W f Hf) as (Ft & _ & _). rewrite Ft. cbn [map].
    specialize (F (ftype f)). rewrite (lookup_in f _ ND Hf) in F. destruct F as [Fa Fb].
    destruct (pf_null f), (pf_list f); cbn [negb andb]; try reflexivity.
    + apply Nat.leb_le. now apply Fb.
    + apply andb_true_iff. split; apply Nat.leb_le; [now apply Fa | now apply Fb].
  - apply forallb_forall. intros n Hn. apply orb_true_iff. right. destruct (C n Hn) as (t & ->).
    assert (HS : sel_has [tid t] (tid t) = true) by (rewrite sel_has_single; apply N.eqb_refl).
    pose proof (cnodes_cnt_max [tid t] _ _ Hn HS) as CM. specialize (F t).
    destruct (lookup t (ph_fields (phr m e))) as [[l nl]|] eqn:L; [|lia].
    apply lookup_some_in in L. apply in_map_iff in L. destruct L as (f & Ef & Hf).
    apply existsb_exists. exists (mkF (map tid (pf_types f)) (-1) (negb (pf_null f)) (pf_list f)
                                      (if length (pf_types f) =? 1 then 0%Z else (-1)%Z)).
    split; [apply in_map_iff; exists f; split; [reflexivity | exact Hf]|]. cbn [f_sel].
    rewrite Forall_forall in W. destruct (W f Hf) as (Ft & _ & _). rewrite Ft, Ef. exact HS.
Qed.

(* ... hence they fit every child sequence the body can produce (lists of any length) *)
Theorem infer_fits_all_trees : forall tid m np e st inj,
  (forall a b, tid a = tid b -> a = b) -> simple m e = true ->
  forall kids, produces (cexpr_of tid m e) kids ->
  node_ok [] (to_fields tid (fst (expr_phrase_with np m e st))) inj kids = true.
Proof.
  intros tid m np e st inj Inj S kids P. eapply check_sym_sound; [|exact P]. now apply infer_fits.
Qed.

(* ---------- the hypothesis on [tid] is satisfiable ---------- *)
Lemma iter_xO_inj : forall x y p q, Nat.iter x xO (xI p) = Nat.iter y xO (xI q) -> x = y /\ p = q.
Proof.
  induction x as [|x IH]; intros [|y] p q H; cbn [Nat.iter nat_rect] in H.
  - injection H as ->. now split.
  - discriminate.
  - discriminate.
  - injection H as H. destruct (IH _ _ _ H) as [-> ->]. now split.
Qed.

Lemma iter_xO_not_xH : forall x p, Nat.iter x xO (xI p) <> xH.
Proof. intros [|x] p; cbn [Nat.iter nat_rect]; discriminate. Qed.

Lemma tid_enc_inj : forall a b, tid_enc a = tid_enc b -> a = b.
Proof.
  unfold tid_enc. induction a as [|x a IH]; intros [|y b] H; [reflexivity| | |]; injection H as H; cbn [enc_str] in H.
  - symmetry in H. now apply iter_xO_not_xH in H.
  - now apply iter_xO_not_xH in H.
  - apply iter_xO_inj in H. destruct H as [H1 H2]. apply N2Nat.inj in H1. subst. f_equal. apply IH. now f_equal.
Qed.
