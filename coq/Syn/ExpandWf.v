(* Static well-formedness of the input of syntax.Expand (C13): a boolean over the model alone (no run of the
   pass) that implies the run-time side conditions [Expand.expand_checks] of the correctness theorem
   (Syn/Expand_wf_proofs.v).  Executable definitions only; evaluated by ocaml/p_c13.ml on every case. *)
From Coq Require Import List ZArith Bool Arith.
From TM Require Import Syn.Expr Syn.Expand.
Import ListNotations.
Local Open Scope Z_scope.

(* the number of alternatives expandExpr produces for e (it does not depend on the expander state) *)
Fixpoint n_alts (e : expr) : nat :=
  match e with
  | EOpt s => S (n_alts s)
  | ESeq subs => fold_right (fun s acc => (n_alts s * acc)%nat) 1%nat subs
  | EChoice subs => fold_right (fun s acc => (n_alts s + acc)%nat) 0%nat subs
  | EArrow _ _ s | EAssign _ s | EAppend _ s => n_alts s
  | _ => 1%nat
  end.

(* "only simple separators": every list separator reached by expandExpr expands to exactly one alternative
   (otherwise Expand stops with log.Fatal) *)
Fixpoint seps_ok (e : expr) : bool :=
  match e with
  | EOpt s | EArrow _ _ s | EAssign _ s | EAppend _ s => seps_ok s
  | ESeq l | EChoice l => forallb seps_ok l
  | EList _ el sep =>
      seps_ok el && match sep with None => true | Some s => seps_ok s && Nat.eqb (n_alts s) 1 end
  | _ => true
  end.

(* expandRule strips a top-level %prec *)
Definition seps_ok_rule (r : expr) : bool :=
  match r with EPrec _ s => seps_ok s | _ => seps_ok r end.

(* the loop of Expand over a nonterminal: rules of a top-level choice; set / lookahead nonterminals are kept *)
Definition seps_ok_nt (v : expr) : bool :=
  match v with
  | EChoice rules => forallb seps_ok_rule rules
  | ESet _ | ELookahead _ => true
  | _ => seps_ok_rule v
  end.

(* well-formed input of Expand: references in range, simple separators *)
Definition wf_model (m : model) : bool :=
  forallb (fun nt => bounded (nterms m + Z.of_nat (length (m_nonterms m))) (nt_value nt) && seps_ok_nt (nt_value nt))
          (m_nonterms m).
