(* Context-free grammars as lalr.Grammar sees them: symbols are integers, terminals 0..T-1 (0 = EOI),
   nonterminals T..T+N-1.  Executable helpers: nullable, FIRST. *)
From Coq Require Import List ZArith Bool.
Import ListNotations.
Local Open Scope Z_scope.

Record rule := mkRule { r_lhs : Z; r_rhs : list Z; r_prec : Z }.

Record grammar := mkGrammar {
  g_terms : Z;
  g_nonterms : Z;
  g_rules : list rule;
  g_inputs : list (Z * bool);          (* (nonterminal, eoi) *)
  g_prec : list (Z * list Z)           (* (assoc: 0 left 1 right 2 nonassoc, terminals); later = higher *)
}.

Definition is_term (g : grammar) (s : Z) : bool := (0 <=? s) && (s <? g_terms g).
Definition rule_at (g : grammar) (r : Z) : rule := nth (Z.to_nat r) (g_rules g) (mkRule (-1) [] 0).

(* sorted duplicate-free lists of Z as sets *)
Fixpoint ins (x : Z) (l : list Z) : list Z :=
  match l with
  | [] => [x]
  | y :: t => if x <? y then x :: l else if x =? y then l else y :: ins x t
  end.
Definition union (a b : list Z) : list Z := fold_left (fun acc x => ins x acc) a b.
Definition mem (x : Z) (l : list Z) : bool := existsb (Z.eqb x) l.
Fixpoint zl_eqb (a b : list Z) : bool :=
  match a, b with [], [] => true | x :: a', y :: b' => (x =? y) && zl_eqb a' b' | _, _ => false end.

Fixpoint iterate {A} (n : nat) (f : A -> A) (x : A) : A := match n with O => x | S k => iterate k f (f x) end.

(* nullable nonterminals (markers are not part of the model) *)
Definition nullable_step (g : grammar) (nl : list Z) : list Z :=
  fold_left (fun nl r => if forallb (fun s => mem s nl) (r_rhs r) then ins (r_lhs r) nl else nl) (g_rules g) nl.
Definition nullable_set (g : grammar) : list Z := iterate (S (Z.to_nat (g_nonterms g))) (nullable_step g) [].

(* FIRST of a symbol string given FIRST of nonterminals *)
Fixpoint first_seq (g : grammar) (nl : list Z) (fst_nt : Z -> list Z) (w : list Z) : list Z * bool (* nullable *) :=
  match w with
  | [] => ([], true)
  | s :: rest =>
      if is_term g s then ([s], false)
      else if mem s nl then let '(f, n) := first_seq g nl fst_nt rest in (union (fst_nt s) f, n)
      else (fst_nt s, false)
  end.

Definition first_table := list (Z * list Z).
Fixpoint ft_get (t : first_table) (x : Z) : list Z :=
  match t with [] => [] | (y, l) :: rest => if y =? x then l else ft_get rest x end.
Fixpoint ft_add (t : first_table) (x : Z) (l : list Z) : first_table :=
  match t with
  | [] => [(x, l)]
  | (y, l0) :: rest => if y =? x then (y, union l l0) :: rest else (y, l0) :: ft_add rest x l
  end.

Definition first_step (g : grammar) (nl : list Z) (t : first_table) : first_table :=
  fold_left (fun t r => ft_add t (r_lhs r) (fst (first_seq g nl (ft_get t) (r_rhs r)))) (g_rules g) t.

Definition first_sets (g : grammar) : first_table :=
  iterate (S (Z.to_nat (g_nonterms g * g_terms g))) (first_step g (nullable_set g)) [].
