(* C06, part 5a: gotoState (linear and binary search) as a lookup in the (from, to) pairs of a symbol;
   insertion sort + compaction of edges. *)
From Coq Require Import List ZArith Bool Lia ZifyBool.
From TM Require Import Lib.ListX Gram.PTables Gram.Optimize Gram.Run Gram.Minimize Gram.Minimize_proofs
  Gram.MinNumber_proofs Gram.MinimizeWf.
Import ListNotations.
Local Open Scope Z_scope.

(* [q] is what a lookup of [s] in the association list [l] may return *)
Definition goto_rel (l : list (Z * Z)) (s q : Z) : Prop :=
  In (s, q) l \/ (q = -1 /\ forall q', ~ In (s, q') l).

Fixpoint pairs_from (ft : list Z) (i : Z) (cnt : nat) : list (Z * Z) :=
  match cnt with O => [] | S c => (zn ft i, zn ft (i + 1)) :: pairs_from ft (i + 2) c end.

Lemma pairs_from_map ft c : forall i,
  map (fun k => (zn ft (i + 2 * k), zn ft (i + 2 * k + 1))) (zseq (Z.of_nat c)) = pairs_from ft i c.
Proof.
  induction c as [|c IH]; intro i; [reflexivity|].
  unfold zseq in *. rewrite Nat2Z.id in *. cbn [seq map pairs_from]. rewrite <- IH, <- seq_shift, !map_map.
  f_equal; [f_equal; f_equal; lia|]. apply map_ext. intro k. f_equal; f_equal; lia.
Qed.

Lemma seg_pairs_from t x :
  seg t x = pairs_from (d_from_to t) (zn (d_goto t) x) (Z.to_nat ((zn (d_goto t) (x + 1) - zn (d_goto t) x) / 2)).
Proof.
  unfold seg. rewrite <- pairs_from_map. f_equal. unfold zseq. now rewrite Nat2Z.id.
Qed.

Lemma pairs_from_length ft c : forall i, length (pairs_from ft i c) = c.
Proof. induction c as [|c IH]; intro i; cbn; [reflexivity|now rewrite IH]. Qed.

Lemma pairs_from_nth ft c : forall i k, (k < c)%nat ->
  nth k (pairs_from ft i c) (0, 0) = (zn ft (i + 2 * Z.of_nat k), zn ft (i + 2 * Z.of_nat k + 1)).
Proof.
  induction c as [|c IH]; intros i k Hk; [lia|]. destruct k as [|k]; cbn [pairs_from nth].
  - f_equal; f_equal; lia.
  - rewrite IH by lia. f_equal; f_equal; lia.
Qed.

Lemma pairs_from_In ft c : forall i a b, In (a, b) (pairs_from ft i c) <->
  exists k, 0 <= k < Z.of_nat c /\ a = zn ft (i + 2 * k) /\ b = zn ft (i + 2 * k + 1).
Proof.
  induction c as [|c IH]; intros i a b; cbn [pairs_from In].
  - split; [tauto|]. intros (k & Hk & _). lia.
  - rewrite IH. split.
    + intros [[= <- <-]|(k & Hk & -> & ->)].
      * exists 0. split; [lia|]. split; f_equal; lia.
      * exists (k + 1). split; [lia|]. split; f_equal; lia.
    + intros (k & Hk & -> & ->). destruct (Z.eq_dec k 0) as [->|Hne].
      * left. f_equal; f_equal; lia.
      * right. exists (k - 1). split; [lia|]. split; f_equal; lia.
Qed.

(* ---------- linear search ---------- *)
Lemma goto_linear_spec ft s c : forall fuel i, (c < fuel)%nat ->
  goto_rel (pairs_from ft i c) s (goto_linear fuel ft i (i + 2 * Z.of_nat c) s).
Proof.
  induction c as [|c IH]; intros fuel i Hf; (destruct fuel as [|f]; [lia|]); cbn [goto_linear pairs_from].
  - replace (i <? i + 2 * Z.of_nat 0) with false by lia. right. split; [reflexivity|]. intros q' [].
  - replace (i <? i + 2 * Z.of_nat (S c)) with true by lia. destruct (zn ft i =? s) eqn:E.
    + apply Z.eqb_eq in E. left. left. now rewrite E.
    + apply Z.eqb_neq in E. replace (i + 2 * Z.of_nat (S c)) with (i + 2 + 2 * Z.of_nat c) by lia.
      destruct (IH f (i + 2) ltac:(lia)) as [H|[H1 H2]].
      * left. right. exact H.
      * right. split; [exact H1|]. intros q' [[= E1 _]|H3]; [contradiction|]. exact (H2 q' H3).
Qed.

(* ---------- strictly increasing lists ---------- *)
Lemma si_cons a l : strictly_increasing (a :: l) = true -> strictly_increasing l = true /\ forall x, In x l -> a < x.
Proof.
  revert a. induction l as [|b l IH]; intros a H; [split; [reflexivity|intros x []]|].
  cbn [strictly_increasing] in H. apply andb_true_iff in H. destruct H as [H1 H2]. split; [exact H2|].
  destruct (IH b H2) as [_ H3]. intros x [<-|Hx]; [lia|]. specialize (H3 x Hx). lia.
Qed.

Lemma si_nth l d : strictly_increasing l = true -> forall j k, (j < k < length l)%nat -> nth j l d < nth k l d.
Proof.
  induction l as [|a l IH]; intros H j k Hjk; [cbn in Hjk; lia|].
  destruct (si_cons _ _ H) as [H1 H2]. destruct k as [|k]; [lia|]. cbn [length] in Hjk. destruct j as [|j]; cbn [nth].
  - apply H2. apply nth_In. lia.
  - apply IH; [exact H1|lia].
Qed.

Lemma si_functional (l : list (Z * Z)) : strictly_increasing (map fst l) = true ->
  forall s q q', In (s, q) l -> In (s, q') l -> q = q'.
Proof.
  induction l as [|[a b] l IH]; intros H s q q' H1 H2; [contradiction|]. cbn [map fst] in H.
  destruct (si_cons _ _ H) as [H3 H4].
  assert (Hno : forall q0, In (a, q0) l -> False).
  { intros q0 Hin. specialize (H4 a). assert (In a (map fst l)) by (apply in_map_iff; exists (a, q0); auto). specialize (H4 H0). lia. }
  destruct H1 as [H1|H1], H2 as [H2|H2].
  - congruence.
  - injection H1 as E1 E2. subst. exfalso. eapply Hno; eauto.
  - injection H2 as E1 E2. subst. exfalso. eapply Hno; eauto.
  - now apply (IH H3 s).
Qed.

(* ---------- binary search ---------- *)
Lemma bin_mid base a b : base mod 2 = 0 -> Z.shiftr (base + 2 * a + (base + 2 * b)) 1 / 2 * 2 = base + 2 * ((a + b) / 2).
Proof.
  intro H. rewrite Z.shiftr_div_pow2 by lia. change (2 ^ 1) with 2.
  assert (E : exists B, base = 2 * B) by (exists (base / 2); pose proof (Z.div_mod base 2); lia). destruct E as [B ->].
  replace (2 * B + 2 * a + (2 * B + 2 * b)) with ((2 * B + a + b) * 2) by lia. rewrite Z.div_mul by lia.
  replace (2 * B + a + b) with (a + b + B * 2) by lia. rewrite Z.div_add by lia. lia.
Qed.

Lemma goto_binary_spec ft s base cnt : base mod 2 = 0 ->
  (forall j k, 0 <= j < k -> k < cnt -> zn ft (base + 2 * j) < zn ft (base + 2 * k)) ->
  forall fuel a b, 0 <= a <= b -> b <= cnt -> (Z.to_nat (b - a) < fuel)%nat ->
  let r := goto_binary fuel ft (base + 2 * a) (base + 2 * b) s in
  (exists k, a <= k < b /\ zn ft (base + 2 * k) = s /\ r = zn ft (base + 2 * k + 1)) \/
  ((forall k, a <= k < b -> zn ft (base + 2 * k) <> s) /\ r = -1).
Proof.
  intros Hb Hmono. induction fuel as [|f IH]; intros a b Hab Hbc Hf; [lia|]. cbn zeta. cbn [goto_binary].
  destruct (base + 2 * a <? base + 2 * b) eqn:E0.
  - rewrite (bin_mid base a b Hb). set (mid := (a + b) / 2).
    assert (Hmid : a <= mid < b) by (unfold mid; pose proof (Z.div_mod (a + b) 2); pose proof (Z.mod_pos_bound (a + b) 2); lia).
    destruct (zn ft (base + 2 * mid) =? s) eqn:E1.
    + left. exists mid. apply Z.eqb_eq in E1. split; [exact Hmid|]. split; [exact E1|]. f_equal; lia.
    + apply Z.eqb_neq in E1. destruct (zn ft (base + 2 * mid) <? s) eqn:E2.
      * replace (base + 2 * mid + 2) with (base + 2 * (mid + 1)) by lia.
        destruct (IH (mid + 1) b ltac:(lia) Hbc ltac:(lia)) as [(k & Hk & H1 & H2)|[H1 H2]].
        -- left. exists k. split; [lia|]. split; assumption.
        -- right. split; [|exact H2]. intros k Hk. destruct (Z_lt_le_dec k (mid + 1)) as [Hlt|Hge]; [|apply H1; lia].
           destruct (Z.eq_dec k mid) as [->|Hne]; [exact E1|]. pose proof (Hmono k mid ltac:(lia) ltac:(lia)). lia.
      * destruct (IH a mid ltac:(lia) ltac:(lia) ltac:(lia)) as [(k & Hk & H1 & H2)|[H1 H2]].
        -- left. exists k. split; [lia|]. split; assumption.
        -- right. split; [|exact H2]. intros k Hk. destruct (Z_lt_le_dec k mid) as [Hlt|Hge]; [apply H1; lia|].
           destruct (Z.eq_dec k mid) as [->|Hne]; [exact E1|]. pose proof (Hmono mid k ltac:(lia) ltac:(lia)). lia.
  - right. split; [intros k Hk; lia|reflexivity].
Qed.

(* ---------- gotoState ---------- *)
(* the part of wf_goto_sym that the search needs *)
Definition goto_layout_ok (t : default_enc) (x : Z) : Prop :=
  let mn := zn (d_goto t) x in let mx := zn (d_goto t) (x + 1) in
  0 <= mn <= mx /\ mx <= zlength (d_from_to t) /\ mn mod 2 = 0 /\ mx mod 2 = 0 /\
  strictly_increasing (map fst (seg t x)) = true.

Theorem goto_state_spec t x s : goto_layout_ok t x -> goto_rel (seg t x) s (goto_state t s x).
Proof.
  intros (H1 & H2 & H3 & H4 & H5). rewrite seg_pairs_from in *. unfold goto_state.
  set (mn := zn (d_goto t) x) in *. set (mx := zn (d_goto t) (x + 1)) in *. set (ft := d_from_to t) in *.
  set (c := Z.to_nat ((mx - mn) / 2)) in *.
  assert (Hmx : mx = mn + 2 * Z.of_nat c).
  { unfold c. pose proof (Z.div_mod mn 2). pose proof (Z.div_mod mx 2). pose proof (Z.div_mod (mx - mn) 2).
    assert ((mx - mn) mod 2 = 0) by (rewrite Zminus_mod, H3, H4; reflexivity).
    assert (0 <= (mx - mn) / 2) by (apply Z.div_pos; lia). lia. }
  assert (Hc : (c < S (length ft))%nat) by (unfold zlength in H2; lia).
  destruct (mx - mn <? 32).
  - rewrite Hmx. apply goto_linear_spec. exact Hc.
  - assert (Hmono : forall j k, 0 <= j < k -> k < Z.of_nat c -> zn ft (mn + 2 * j) < zn ft (mn + 2 * k)).
    { intros j k Hj Hk. pose proof (si_nth _ (fst (0, 0)) H5 (Z.to_nat j) (Z.to_nat k)) as Hs.
      rewrite map_length, pairs_from_length in Hs. specialize (Hs ltac:(lia)).
      rewrite !map_nth in Hs. rewrite (pairs_from_nth ft c mn (Z.to_nat j)) in Hs by lia.
      rewrite (pairs_from_nth ft c mn (Z.to_nat k)) in Hs by lia. cbn [fst] in Hs. now rewrite !Z2Nat.id in Hs by lia. }
    pose proof (goto_binary_spec ft s mn (Z.of_nat c) H3 Hmono (S (length ft)) 0 (Z.of_nat c) ltac:(lia) ltac:(lia) ltac:(lia)) as Hb.
    cbn zeta in Hb. replace (mn + 2 * 0) with mn in Hb by lia. rewrite <- Hmx in Hb.
    destruct Hb as [(k & Hk & E1 & E2)|[Hn E2]].
    + left. rewrite E2. apply pairs_from_In. exists k. split; [lia|]. split; [now symmetry|reflexivity].
    + right. split; [exact E2|]. intros q' Hin. apply pairs_from_In in Hin. destruct Hin as (k & Hk & E3 & _).
      apply (Hn k ltac:(lia)). now symmetry.
Qed.

(* under the layout conditions the pairs are functional, so the lookup result is determined *)
Lemma goto_rel_functional l s q q' : strictly_increasing (map fst l) = true -> goto_rel l s q -> goto_rel l s q' -> q = q'.
Proof.
  intros Hsi [H1|[-> H1]] [H2|[-> H2]]; [eapply si_functional; eauto| | |reflexivity].
  - exfalso. eapply H2; eauto.
  - exfalso. eapply H1; eauto.
Qed.

(* ---------- insertion sort and compaction of edges ---------- *)
Fixpoint nondec (l : list Z) : bool :=
  match l with a :: (b :: _) as rest => (a <=? b) && nondec rest | _ => true end.

Lemma insert_edge_In e l x : In x (insert_edge e l) <-> x = e \/ In x l.
Proof.
  induction l as [|y l IH]; cbn [insert_edge In]; [intuition|].
  destruct (fst e <? fst y); cbn [In]; [intuition|]. rewrite IH. intuition.
Qed.

Lemma isort_In edges : forall acc x, In x (fold_left (fun acc e => insert_edge e acc) edges acc) <-> In x edges \/ In x acc.
Proof.
  induction edges as [|e edges IH]; intros acc x; cbn [fold_left In]; [tauto|].
  rewrite IH, insert_edge_In. intuition.
Qed.

Lemma insert_edge_nondec e l : nondec (map fst l) = true -> nondec (map fst (insert_edge e l)) = true.
Proof.
  induction l as [|y l IH]; intro H; [reflexivity|]. cbn [insert_edge].
  destruct (fst e <? fst y) eqn:E.
  - cbn [map nondec] in *. rewrite H. replace (fst e <=? fst y) with true by lia. reflexivity.
  - assert (H' : nondec (map fst l) = true).
    { cbn [map nondec] in H. destruct (map fst l); [reflexivity|]. apply andb_true_iff in H. tauto. }
    specialize (IH H'). destruct l as [|z l].
    + cbn. replace (fst y <=? fst e) with true by lia. reflexivity.
    + cbn [insert_edge] in *. cbn [map nondec] in H. apply andb_true_iff in H. destruct H as [H1 H2].
      destruct (fst e <? fst z); cbn [map nondec] in *.
      * rewrite IH. replace (fst y <=? fst e) with true by lia. reflexivity.
      * rewrite IH, H1. reflexivity.
Qed.

Lemma isort_nondec edges : forall acc, nondec (map fst acc) = true ->
  nondec (map fst (fold_left (fun acc e => insert_edge e acc) edges acc)) = true.
Proof.
  induction edges as [|e edges IH]; intros acc H; [exact H|]. cbn [fold_left]. apply IH. now apply insert_edge_nondec.
Qed.

Lemma si_cons2 a b l : strictly_increasing (a :: b :: l) = (a <? b) && strictly_increasing (b :: l).
Proof. reflexivity. Qed.

Lemma compact_aux_si l : forall prev, nondec (prev :: map fst l) = true ->
  strictly_increasing (prev :: map fst (compact_aux prev l)) = true.
Proof.
  induction l as [|b l IH]; intros prev H; [reflexivity|]. cbn [map] in H. cbn [nondec] in H.
  apply andb_true_iff in H. destruct H as [H1 H2]. cbn [compact_aux]. destruct (fst b =? prev) eqn:E.
  - apply Z.eqb_eq in E. rewrite E in H2. now apply IH.
  - cbn [map]. rewrite si_cons2, (IH _ H2). replace (prev <? fst b) with true by lia. reflexivity.
Qed.

Lemma compact_si l : nondec (map fst l) = true -> strictly_increasing (map fst (compact_by_from l)) = true.
Proof. destruct l as [|a l]; intro H; [reflexivity|]. cbn [compact_by_from map]. now apply compact_aux_si. Qed.

Lemma compact_aux_incl l : forall prev x, In x (compact_aux prev l) -> In x l.
Proof.
  induction l as [|b l IH]; intros prev x; cbn [compact_aux]; [tauto|].
  destruct (fst b =? prev); cbn [In]; [intro H; right; eapply IH; eauto|].
  intros [H|H]; [now left|right; eapply IH; eauto].
Qed.

Lemma compact_incl l x : In x (compact_by_from l) -> In x l.
Proof. destruct l as [|a l]; cbn [compact_by_from In]; [tauto|]. intros [H|H]; [now left|right; eapply compact_aux_incl; eauto]. Qed.

Lemma compact_aux_keeps l : forall prev f q, In (f, q) l -> f = prev \/ exists q', In (f, q') (compact_aux prev l).
Proof.
  induction l as [|b l IH]; intros prev f q; cbn [In compact_aux]; [tauto|].
  destruct (fst b =? prev) eqn:E.
  - apply Z.eqb_eq in E. intros [->|H]; [left; exact E|]. eapply IH; eauto.
  - intros [->|H].
    + right. exists q. now left.
    + destruct (IH (fst b) f q H) as [->|[q' Hq']].
      * right. exists (snd b). left. now destruct b.
      * right. exists q'. now right.
Qed.

Lemma compact_keeps l f q : In (f, q) l -> exists q', In (f, q') (compact_by_from l).
Proof.
  destruct l as [|a l]; cbn [compact_by_from In]; [tauto|]. intros [->|H]; [exists q; now left|].
  destruct (compact_aux_keeps l (fst a) f q H) as [->|[q' Hq']].
  - exists (snd a). left. now destruct a.
  - exists q'. now right.
Qed.

(* sort + compact of a functional edge list is a lookup table for the same function *)
Definition rebuilt (edges : list (Z * Z)) : list (Z * Z) :=
  compact_by_from (fold_left (fun acc e => insert_edge e acc) edges []).

Lemma rebuilt_si edges : strictly_increasing (map fst (rebuilt edges)) = true.
Proof. apply compact_si. now apply isort_nondec. Qed.

Lemma rebuilt_incl edges x : In x (rebuilt edges) -> In x edges.
Proof. intro H. apply compact_incl, isort_In in H. destruct H as [H|[]]. exact H. Qed.

Lemma rebuilt_keeps edges f q : In (f, q) edges -> exists q', In (f, q') (rebuilt edges).
Proof. intro H. apply (compact_keeps _ f q). apply isort_In. now left. Qed.
