(* Proofs about the Names table that push_name / convert (Gram/ActionRefs.v) build:
   - every entry of every command's table maps  name / name#0  to the positions of the FIRST push of that
     name and  name#k  to those of its k-th push (pushes in textual order, an alias after its content);
   - an alias is pushed with exactly the positions of the symbols beneath it;
   - the table of the top-level rule is exactly { name -> its only push } + { name#k -> k-th push } for the
     names pushed at least twice. *)
From Coq Require Import List NArith ZArith Bool Arith Lia.
From TM Require Import Gram.ActionRefs Gram.ActionRefs_proofs.
Import ListNotations.
Local Open Scope nat_scope.

(* ---------- association-list facts ---------- *)
Lemma name_eqb_eq : forall a b, name_eqb a b = true <-> a = b.
Proof.
  intros [a1 a2] [b1 b2]. unfold name_eqb. cbn [fst snd]. rewrite andb_true_iff, N.eqb_eq.
  destruct a2 as [x|], b2 as [y|]; split; intro H.
  - destruct H as [-> H]. apply N.eqb_eq in H. now subst.
  - inversion H; subst. split; [reflexivity|apply N.eqb_refl].
  - destruct H as [_ H]. discriminate.
  - discriminate.
  - destruct H as [_ H]. discriminate.
  - discriminate.
  - destruct H as [-> _]. reflexivity.
  - inversion H; subst. split; reflexivity.
Qed.

Lemma name_eqb_refl : forall a, name_eqb a a = true.
Proof. intro a. now apply name_eqb_eq. Qed.

Lemma name_eqb_neq : forall a b, name_eqb a b = false <-> a <> b.
Proof.
  intros a b. split.
  - intros H E. apply name_eqb_eq in E. congruence.
  - intro H. destruct (name_eqb a b) eqn:E; [|reflexivity]. apply name_eqb_eq in E. contradiction.
Qed.

Lemma nm_get_del : forall m k k', nm_get (nm_del m k) k' = if name_eqb k k' then None else nm_get m k'.
Proof.
  induction m as [|[k0 v] r IH]; intros k k'; cbn [nm_del nm_get].
  - now destruct (name_eqb k k').
  - destruct (name_eqb k0 k) eqn:E0.
    + apply name_eqb_eq in E0. subst k0. rewrite IH. now destruct (name_eqb k k').
    + cbn [nm_get]. rewrite IH. destruct (name_eqb k k') eqn:E1; [|reflexivity].
      apply name_eqb_eq in E1. subst k'. now rewrite E0.
Qed.

Lemma nm_get_set : forall m k v k', nm_get (nm_set m k v) k' = if name_eqb k k' then Some v else nm_get m k'.
Proof.
  intros m k v k'. unfold nm_set. cbn [nm_get]. rewrite nm_get_del. now destruct (name_eqb k k').
Qed.

Lemma nm_get_In : forall m k v, nm_get m k = Some v -> In (k, v) m.
Proof.
  induction m as [|[k0 v0] r IH]; intros k v H; cbn [nm_get] in H; [discriminate|].
  destruct (name_eqb k0 k) eqn:E.
  - apply name_eqb_eq in E. subst k0. left. congruence.
  - right. now apply IH.
Qed.

Lemma In_nm_del : forall m k x, In x (nm_del m k) -> In x m.
Proof.
  induction m as [|[k0 v0] r IH]; intros k x H; cbn [nm_del] in H; [exact H|].
  destruct (name_eqb k0 k).
  - right. eapply IH; exact H.
  - destruct H as [H|H]; [now left|right; eapply IH; exact H].
Qed.

Lemma In_nm_set : forall m k v x, In x (nm_set m k v) -> x = (k, v) \/ In x m.
Proof.
  intros m k v x [H|H]; [left; now symmetry | right; eapply In_nm_del; exact H].
Qed.

Lemma nm_del_length : forall m k, length (nm_del m k) <= length m.
Proof.
  induction m as [|[k0 v0] r IH]; intro k; cbn [nm_del]; [lia|].
  specialize (IH k). destruct (name_eqb k0 k); cbn [length]; lia.
Qed.

Lemma nm_del_length_lt : forall m k, nm_get m k <> None -> length (nm_del m k) < length m.
Proof.
  induction m as [|[k0 v0] r IH]; intros k H; cbn [nm_del nm_get] in *; [congruence|].
  destruct (name_eqb k0 k).
  - pose proof (nm_del_length r k). cbn [length]. lia.
  - specialize (IH k H). cbn [length]. lia.
Qed.

(* as many distinct keys name#0 .. name#(n-1) are bound, as many entries the map has *)
Lemma bound_keys_count : forall nm n m,
  (forall j, j < n -> nm_get m (nm, Some (N.of_nat j)) <> None) -> n <= length m.
Proof.
  intros nm. induction n as [|n IH]; intros m H; [lia|].
  pose proof (nm_del_length_lt m (nm, Some (N.of_nat n)) (H n (Nat.lt_succ_diag_r n))) as Hlt.
  assert (Hn : n <= length (nm_del m (nm, Some (N.of_nat n)))).
  { apply IH. intros j Hj. rewrite nm_get_del.
    destruct (name_eqb (nm, Some (N.of_nat n)) (nm, Some (N.of_nat j))) eqn:E.
    - apply name_eqb_eq in E. inversion E as [E']. apply Nat2N.inj in E'. lia.
    - apply H. lia. }
  lia.
Qed.

(* ---------- the pushes of a converted part, in the order convert performs them ---------- *)
Definition pushl := list (N * list nat).

Fixpoint pushes (p : part) : pushl :=
  match p with
  | PSym _ nm pos => [(nm, [pos])]
  | PAlias nm q => pushes q ++ match collect q with [] => [] | ps => [(nm, ps)] end
  | POpt q | PScope q => pushes q
  | PSeq a b | PChoice a b => pushes a ++ pushes b
  | PEmpty | PList _ _ | PCmd _ | PMark _ => []
  end.

(* the position lists pushed under the base name nm: occurrence 0, 1, 2, ... *)
Definition occs (nm : N) (l : pushl) : list (list nat) :=
  map snd (filter (fun x => N.eqb (fst x) nm) l).

Lemma occs_app : forall nm l1 l2, occs nm (l1 ++ l2) = occs nm l1 ++ occs nm l2.
Proof. intros. unfold occs. now rewrite filter_app, map_app. Qed.

Lemma occs_one_same : forall nm ps, occs nm [(nm, ps)] = [ps].
Proof. intros. unfold occs. cbn. now rewrite N.eqb_refl. Qed.

Lemma occs_one_other : forall nm nm' ps, nm' <> nm -> occs nm' [(nm, ps)] = [].
Proof.
  intros nm nm' ps H. unfold occs. cbn. destruct (N.eqb nm nm') eqn:E; [|reflexivity].
  apply N.eqb_eq in E. congruence.
Qed.

Lemma occs_In : forall nm l ps, In ps (occs nm l) -> In (nm, ps) l.
Proof.
  intros nm l ps H. unfold occs in H. apply in_map_iff in H. destruct H as ([n q] & E & H).
  apply filter_In in H. destruct H as [H F]. cbn in *. apply N.eqb_eq in F. now subst.
Qed.

(* which occurrence a key denotes: name and name#0 the first one, name#k the k-th *)
Definition key_index (k : option N) : nat := match k with None => 0 | Some i => N.to_nat i end.

(* every entry of the map (also a shadowed one) is right *)
Definition sound_map (l : pushl) (m : nmap) : Prop :=
  forall nm k ps, In ((nm, k), ps) m -> nth_error (occs nm l) (key_index k) = Some ps.

(* what the top-level table must contain for the occurrences o of a name *)
Definition top_spec (o : list (list nat)) (k : option N) : option (list nat) :=
  match o, k with
  | [ps], None => Some ps
  | _ :: _ :: _, Some i => nth_error o (N.to_nat i)
  | _, _ => None
  end.

Definition exact_top (l : pushl) (top : nmap) : Prop :=
  forall nm k, nm_get top (nm, k) = top_spec (occs nm l) k.

Lemma nth_error_app_Some : forall (A : Type) (l l' : list A) n x,
  nth_error l n = Some x -> nth_error (l ++ l') n = Some x.
Proof.
  intros A l l' n x H. rewrite nth_error_app1; [exact H|]. apply nth_error_Some. congruence.
Qed.

Lemma sound_map_app : forall l l' m, sound_map l m -> sound_map (l ++ l') m.
Proof.
  intros l l' m H nm k ps Hin. rewrite occs_app. apply nth_error_app_Some. now apply H.
Qed.

Lemma sound_map_nil : forall l, sound_map l [].
Proof. intros l nm k ps []. Qed.

(* ---------- push_name as one function applied to both maps ---------- *)
Definition pn_fun (top : nmap) (nm : N) (ps : list nat) : nmap -> nmap :=
  match nm_get top (nm, Some 0%N) with
  | Some _ => fun m => nm_set m (nm, Some (find_free (S (length top)) top nm 1%N)) ps
  | None =>
      match nm_get top (nm, None) with
      | Some val => fun m => nm_set (nm_del (nm_set m (nm, Some 0%N) val) (nm, None)) (nm, Some 1%N) ps
      | None => fun m => nm_set m (nm, None) ps
      end
  end.

Lemma on_both_twice : forall s f g, on_both (on_both s f) g = on_both s (fun m => g (f m)).
Proof. intros s f g. unfold on_both. destruct (c_stack s); reflexivity. Qed.

Lemma push_name_fun : forall s nm ps, push_name s nm ps = on_both s (pn_fun (c_top s) nm ps).
Proof.
  intros s nm ps. unfold push_name, pn_fun.
  destruct (nm_get (c_top s) (nm, Some 0%N)); [reflexivity|].
  destruct (nm_get (c_top s) (nm, None)); [|reflexivity].
  now rewrite on_both_twice.
Qed.

Lemma on_both_top : forall s f, c_top (on_both s f) = f (c_top s).
Proof. intros s f. unfold on_both. destruct (c_stack s); reflexivity. Qed.

Lemma on_both_stack : forall s f,
  c_stack (on_both s f) = match c_stack s with [] => [] | m :: r => f m :: r end.
Proof. intros s f. unfold on_both. destruct (c_stack s); reflexivity. Qed.

Lemma on_both_cmds : forall s f, c_cmds (on_both s f) = c_cmds s.
Proof. intros s f. unfold on_both. destruct (c_stack s); reflexivity. Qed.

Lemma on_both_pos : forall s f, c_pos (on_both s f) = c_pos s.
Proof. intros s f. unfold on_both. destruct (c_stack s); reflexivity. Qed.

(* the unbounded Go loop "index++ until name#index is free" ends at the number of occurrences *)
Lemma find_free_spec : forall top nm o,
  (forall j, nm_get top (nm, Some j) = nth_error o (N.to_nat j)) ->
  forall fuel i, N.to_nat i <= length o -> length o - N.to_nat i < fuel ->
  find_free fuel top nm i = N.of_nat (length o).
Proof.
  intros top nm o H. induction fuel as [|f IH]; intros i Hi Hf; [lia|].
  cbn [find_free]. rewrite H.
  destruct (nth_error o (N.to_nat i)) eqn:E.
  - assert (N.to_nat i < length o) by (apply nth_error_Some; congruence).
    apply IH; rewrite N2Nat.inj_succ; lia.
  - apply nth_error_None in E. assert (N.to_nat i = length o) by lia.
    rewrite <- H0. now rewrite N2Nat.id.
Qed.

(* the index push_name chooses, as a function of the occurrences so far *)
Definition next_key (o : list (list nat)) : option N :=
  match o with [] => None | _ => Some (N.of_nat (length o)) end.

Definition rename_first (o : list (list nat)) (nm : N) (m : nmap) : nmap :=
  match o with
  | [v] => nm_del (nm_set m (nm, Some 0%N) v) (nm, None)
  | _ => m
  end.

Lemma pn_fun_spec : forall l top nm ps, exact_top l top ->
  forall m, pn_fun top nm ps m = nm_set (rename_first (occs nm l) nm m) (nm, next_key (occs nm l)) ps.
Proof.
  intros l top nm ps H m. unfold pn_fun.
  pose proof (H nm (Some 0%N)) as H0. pose proof (H nm None) as HN.
  destruct (occs nm l) as [|v0 [|v1 o]] eqn:Eo; cbn [top_spec] in H0, HN.
  - rewrite H0, HN. reflexivity.
  - rewrite H0, HN. reflexivity.
  - rewrite H0. cbn [nth_error N.to_nat]. cbn [rename_first next_key].
    assert (Hall : forall j, nm_get top (nm, Some j) = nth_error (v0 :: v1 :: o) (N.to_nat j)).
    { intro j. rewrite (H nm (Some j)), Eo. reflexivity. }
    assert (Hlen : length (v0 :: v1 :: o) <= length top).
    { apply (bound_keys_count nm). intros j Hj. rewrite Hall, Nat2N.id.
      apply nth_error_Some. exact Hj. }
    rewrite (find_free_spec top nm (v0 :: v1 :: o) Hall).
    + reflexivity.
    + cbn. lia.
    + change (N.to_nat 1%N) with 1. lia.
Qed.

Lemma key_index_next : forall o, key_index (next_key o) = length o.
Proof. destruct o; cbn [next_key key_index]; [reflexivity|]. now rewrite Nat2N.id. Qed.

Lemma pn_fun_sound : forall l top nm ps m, exact_top l top -> sound_map l m ->
  sound_map (l ++ [(nm, ps)]) (pn_fun top nm ps m).
Proof.
  intros l top nm ps m Ht Hm. rewrite (pn_fun_spec l top nm ps Ht).
  intros nm' k ps' Hin. apply In_nm_set in Hin. destruct Hin as [E|Hin].
  - inversion E; subst. rewrite occs_app, occs_one_same, key_index_next.
    rewrite nth_error_app2 by lia. now rewrite Nat.sub_diag.
  - rewrite occs_app. apply nth_error_app_Some.
    destruct (occs nm l) as [|v0 [|v1 o]] eqn:Eo; cbn [rename_first] in Hin; try (now apply Hm).
    apply In_nm_del in Hin. apply In_nm_set in Hin. destruct Hin as [E|Hin]; [|now apply Hm].
    inversion E; subst. rewrite Eo. reflexivity.
Qed.

Lemma top_spec_app_other : forall o k, top_spec (o ++ []) k = top_spec o k.
Proof. intros. now rewrite app_nil_r. Qed.

Lemma pn_fun_exact : forall l top nm ps, exact_top l top ->
  exact_top (l ++ [(nm, ps)]) (pn_fun top nm ps top).
Proof.
  intros l top nm ps Ht. rewrite (pn_fun_spec l top nm ps Ht).
  intros nm' k. rewrite occs_app. destruct (N.eq_dec nm' nm) as [->|Hne].
  - rewrite occs_one_same. pose proof (Ht nm) as Hn.
    destruct (occs nm l) as [|v0 [|v1 o]] eqn:Eo; cbn [rename_first next_key app length].
    + rewrite nm_get_set. destruct k as [i|].
      * assert (E : name_eqb (nm, None) (nm, Some i) = false) by (apply name_eqb_neq; congruence).
        rewrite E, Hn. reflexivity.
      * rewrite name_eqb_refl. reflexivity.
    + rewrite nm_get_set, nm_get_del, nm_get_set. destruct k as [i|].
      * assert (E : name_eqb (nm, None) (nm, Some i) = false) by (apply name_eqb_neq; congruence).
        rewrite E. cbn [top_spec].
        destruct (name_eqb (nm, Some (N.of_nat 1)) (nm, Some i)) eqn:E1.
        { apply name_eqb_eq in E1. inversion E1; subst. reflexivity. }
        destruct (name_eqb (nm, Some 0%N) (nm, Some i)) eqn:E0.
        { apply name_eqb_eq in E0. inversion E0; subst. reflexivity. }
        rewrite Hn. cbn [top_spec].
        apply name_eqb_neq in E1, E0.
        assert (2 <= N.to_nat i).
        { assert (i <> 0%N) by congruence. assert (i <> 1%N) by (intro; subst; now apply E1). lia. }
        symmetry. apply nth_error_None. cbn. lia.
      * assert (E : name_eqb (nm, Some (N.of_nat 1)) (nm, None) = false) by (apply name_eqb_neq; congruence).
        rewrite E, name_eqb_refl. reflexivity.
    + rewrite nm_get_set. destruct k as [i|].
      * cbn [top_spec].
        destruct (name_eqb (nm, Some (N.of_nat (S (S (length o))))) (nm, Some i)) eqn:E1.
        { apply name_eqb_eq in E1.
          assert (Ei : i = N.of_nat (S (S (length o)))) by (inversion E1; reflexivity).
          rewrite Ei, Nat2N.id.
          change (v0 :: v1 :: o ++ [ps]) with ((v0 :: v1 :: o) ++ [ps]).
          rewrite nth_error_app2 by (cbn; lia). cbn [length]. now rewrite Nat.sub_diag. }
        rewrite Hn. cbn [top_spec]. apply name_eqb_neq in E1.
        assert (Hi : N.to_nat i <> S (S (length o))).
        { intro Hx. apply E1. rewrite <- Hx. now rewrite N2Nat.id. }
        change (v0 :: v1 :: o ++ [ps]) with ((v0 :: v1 :: o) ++ [ps]).
        destruct (Nat.lt_ge_cases (N.to_nat i) (length (v0 :: v1 :: o))) as [Hlt|Hge].
        { now rewrite nth_error_app1. }
        { cbn [length] in Hge.
          assert (E2 : nth_error (v0 :: v1 :: o) (N.to_nat i) = None) by (apply nth_error_None; cbn; lia).
          rewrite E2. symmetry. apply nth_error_None. rewrite app_length. cbn. lia. }
      * assert (E : name_eqb (nm, Some (N.of_nat (S (S (length o))))) (nm, None) = false)
          by (apply name_eqb_neq; congruence).
        rewrite E, Hn. reflexivity.
  - rewrite (occs_one_other nm nm' ps Hne), app_nil_r, <- (Ht nm' k).
    assert (Hk : forall x, name_eqb (nm, x) (nm', k) = false).
    { intro x. apply name_eqb_neq. congruence. }
    rewrite nm_get_set, Hk.
    destruct (occs nm l) as [|v0 [|v1 o]]; cbn [rename_first]; try reflexivity.
    now rewrite nm_get_del, Hk, nm_get_set, Hk.
Qed.

(* ---------- the invariant of convert ---------- *)
Definition bounded (l : pushl) (hi : nat) : Prop :=
  Forall (fun x => Forall (fun q => 1 <= q < hi) (snd x)) l.

(* the table recorded for a command is right for a prefix of the pushes, all below its MaxPos *)
Definition cmd_ok (l : pushl) (x : N * cmdargs) : Prop :=
  exists l0 l1, l = l0 ++ l1 /\ sound_map l0 (ca_names (snd x)) /\ bounded l0 (ca_maxpos (snd x)).

Record inv (l : pushl) (s : cst) : Prop := mkInv {
  i_exact : exact_top l (c_top s);
  i_top : sound_map l (c_top s);
  i_stack : Forall (sound_map l) (c_stack s);
  i_cmds : Forall (cmd_ok l) (c_cmds s);
  i_bound : bounded l (c_pos s);
  i_pos : 1 <= c_pos s
}.

Lemma bounded_weaken : forall l a b, a <= b -> bounded l a -> bounded l b.
Proof.
  intros l a b Hab H. unfold bounded in *. eapply Forall_impl; [|exact H]. cbn. intros x Hx.
  eapply Forall_impl; [|exact Hx]. cbn. intros. lia.
Qed.

Lemma cmd_ok_app : forall l l' x, cmd_ok l x -> cmd_ok (l ++ l') x.
Proof.
  intros l l' x (l0 & l1 & E & Hs & Hb). exists l0, (l1 ++ l'). subst l. rewrite app_assoc. auto.
Qed.

Lemma cmds_ok_app : forall l l' cs, Forall (cmd_ok l) cs -> Forall (cmd_ok (l ++ l')) cs.
Proof. intros l l' cs H. eapply Forall_impl; [|exact H]. intros x Hx. now apply cmd_ok_app. Qed.

Lemma stack_sound_app : forall l l' st, Forall (sound_map l) st -> Forall (sound_map (l ++ l')) st.
Proof. intros l l' st H. eapply Forall_impl; [|exact H]. intros m Hm. now apply sound_map_app. Qed.

Lemma inv_bump : forall l s, inv l s -> inv l (mkC (c_top s) (c_stack s) (S (c_pos s)) (c_cmds s)).
Proof.
  intros l s [He Ht Hs Hc Hb Hp]. constructor; cbn [c_top c_stack c_cmds c_pos]; auto.
  eapply bounded_weaken; [|exact Hb]. lia.
Qed.

Lemma push_inv : forall l s nm ps, inv l s -> Forall (fun q => 1 <= q < c_pos s) ps ->
  inv (l ++ [(nm, ps)]) (push_name s nm ps).
Proof.
  intros l s nm ps [He Ht Hs Hc Hb Hp] Hps. rewrite push_name_fun. constructor.
  - rewrite on_both_top. now apply pn_fun_exact.
  - rewrite on_both_top. now apply pn_fun_sound.
  - rewrite on_both_stack. destruct (c_stack s) as [|m r]; [constructor|].
    inversion Hs; subst. constructor; [now apply pn_fun_sound | now apply stack_sound_app].
  - rewrite on_both_cmds. now apply cmds_ok_app.
  - rewrite on_both_pos. unfold bounded. apply Forall_app. split; [exact Hb|]. constructor; [exact Hps|constructor].
  - now rewrite on_both_pos.
Qed.

Lemma merge_names_In : forall child parent x, In x (merge_names parent child) -> In x parent \/ In x child.
Proof.
  induction child as [|[k v] r IH]; intros parent x H; cbn [merge_names] in H; [now left|].
  apply IH in H. destruct H as [H|H]; [|right; now right].
  apply In_nm_set in H. destruct H as [->|H]; [right; now left | now left].
Qed.

Lemma merge_names_sound : forall l parent child,
  sound_map l parent -> sound_map l child -> sound_map l (merge_names parent child).
Proof.
  intros l parent child Hp Hc nm k ps Hin. apply merge_names_In in Hin. destruct Hin; [now apply Hp | now apply Hc].
Qed.

(* the positions collectPos gathers under a converted part are the ones allocated for it *)
Lemma collect_bounds : forall p s,
  Forall (fun q => c_pos s <= q < c_pos (snd (convert p s))) (collect (fst (convert p s))).
Proof.
  induction p; intro s; cbn [convert].
  - constructor.
  - cbn [fst snd collect]. rewrite push_name_pos. cbn [c_pos].
    destruct (0 <? c_pos s); constructor; [lia|constructor].
  - cbn [fst snd collect c_pos]. destruct (0 <? c_pos s); constructor; [lia|constructor].
  - specialize (IHp s). destruct (convert p s) as [q' s1]. exact IHp.
  - pose proof (convert_pos_mono p1 s) as M1. specialize (IHp1 s).
    destruct (convert p1 s) as [a' s1]. pose proof (convert_pos_mono p2 s1) as M2. specialize (IHp2 s1).
    destruct (convert p2 s1) as [b' s2]. cbn [fst snd collect] in *. apply Forall_app. split.
    + eapply Forall_impl; [|exact IHp1]. cbn. intros. lia.
    + eapply Forall_impl; [|exact IHp2]. cbn. intros. lia.
  - pose proof (convert_pos_mono p1 s) as M1. specialize (IHp1 s).
    destruct (convert p1 s) as [a' s1]. pose proof (convert_pos_mono p2 s1) as M2. specialize (IHp2 s1).
    destruct (convert p2 s1) as [b' s2]. cbn [fst snd collect] in *. apply Forall_app. split.
    + eapply Forall_impl; [|exact IHp1]. cbn. intros. lia.
    + eapply Forall_impl; [|exact IHp2]. cbn. intros. lia.
  - specialize (IHp (mkC (c_top s) ([] :: c_stack s) (c_pos s) (c_cmds s))).
    destruct (convert p _) as [q' s1]. cbn [fst snd collect c_pos] in *.
    destruct (c_stack s1) as [|child [|parent r]]; cbn [c_pos]; exact IHp.
  - specialize (IHp s). destruct (convert p s) as [q' s1]. cbn [fst snd collect] in *.
    destruct (collect q') eqn:E; [constructor|]. now rewrite push_name_pos.
  - constructor.
  - constructor.
Qed.

Lemma convert_inv : forall p s l, inv l s ->
  inv (l ++ pushes (fst (convert p s))) (snd (convert p s)).
Proof.
  induction p; intros s l H; cbn [convert].
  - cbn [fst snd pushes]. now rewrite app_nil_r.
  - cbn [fst snd pushes]. apply push_inv; [now apply inv_bump|].
    cbn [c_pos]. constructor; [|constructor]. destruct H. lia.
  - cbn [fst snd pushes]. rewrite app_nil_r. now apply inv_bump.
  - specialize (IHp s l H). destruct (convert p s) as [q' s1]. exact IHp.
  - specialize (IHp1 s l H). destruct (convert p1 s) as [a' s1].
    specialize (IHp2 s1 _ IHp1). destruct (convert p2 s1) as [b' s2].
    cbn [fst snd pushes] in *. now rewrite app_assoc.
  - specialize (IHp1 s l H). destruct (convert p1 s) as [a' s1].
    specialize (IHp2 s1 _ IHp1). destruct (convert p2 s1) as [b' s2].
    cbn [fst snd pushes] in *. now rewrite app_assoc.
  - assert (H0 : inv l (mkC (c_top s) ([] :: c_stack s) (c_pos s) (c_cmds s))).
    { destruct H. constructor; cbn [c_top c_stack c_cmds c_pos]; auto.
      constructor; [apply sound_map_nil | assumption]. }
    specialize (IHp _ l H0). destruct (convert p _) as [q' s1]. cbn [fst snd pushes] in *.
    destruct IHp as [He Ht Hs Hc Hb Hp].
    destruct (c_stack s1) as [|child [|parent r]] eqn:Es.
    + constructor; auto. now rewrite Es.
    + constructor; cbn [c_top c_stack c_cmds c_pos]; auto.
    + constructor; cbn [c_top c_stack c_cmds c_pos]; auto.
      inversion Hs as [|? ? Hc1 Hs1]; subst. inversion Hs1 as [|? ? Hp1 Hr]; subst.
      constructor; [now apply merge_names_sound | exact Hr].
  - pose proof (collect_bounds p s) as CB. specialize (IHp s l H).
    destruct (convert p s) as [q' s1]. cbn [fst snd pushes] in *.
    destruct (collect q') as [|c0 cr] eqn:Ec.
    + now rewrite app_nil_r.
    + rewrite app_assoc. apply push_inv; [exact IHp|].
      eapply Forall_impl; [|exact CB]. cbn. intros q Hq. destruct H. lia.
  - cbn [fst snd pushes]. rewrite app_nil_r. destruct H as [He Ht Hs Hc Hb Hp].
    constructor; cbn [c_top c_stack c_cmds c_pos]; auto.
    apply Forall_app. split; [exact Hc|]. constructor; [|constructor].
    exists l, []. cbn [snd ca_names ca_maxpos]. split; [now rewrite app_nil_r|]. split; [|exact Hb].
    unfold cur_names. destruct (c_stack s) as [|m r]; [exact Ht|]. now inversion Hs.
  - cbn [fst snd pushes]. now rewrite app_nil_r.
Qed.

Lemma inv_init : inv [] (mkC [] [] 1 []).
Proof.
  constructor; cbn [c_top c_stack c_cmds c_pos].
  - intros nm k. reflexivity.
  - apply sound_map_nil.
  - constructor.
  - constructor.
  - constructor.
  - lia.
Qed.

Lemma pushes_nonempty : forall p, Forall (fun x => snd x <> []) (pushes p).
Proof.
  induction p; cbn [pushes]; try constructor; try assumption; try (apply Forall_app; split; assumption).
  - cbn. congruence.
  - constructor.
  - apply Forall_app. split; [assumption|]. destruct (collect p); constructor; [cbn; congruence|constructor].
Qed.

(* ---------- the theorems ---------- *)

(* Names table of any command, any rule body: the key name (or name#0) is bound to the positions of the first
   push of that name, name#k to those of the k-th push; the positions are not empty and all lie in
   [1, MaxPos) of the command, i.e. they were allocated before the command. *)
Theorem names_table_sound : forall p c ca nm k ps,
  In (c, ca) (c_cmds (snd (convert_rule p))) ->
  nm_get (ca_names ca) (nm, k) = Some ps ->
  ps <> [] /\ Forall (fun q => 1 <= q < ca_maxpos ca) ps /\
  nth_error (occs nm (pushes (fst (convert_rule p)))) (key_index k) = Some ps.
Proof.
  intros p c ca nm k ps Hin Hget. unfold convert_rule in *.
  pose proof (convert_inv p _ [] inv_init) as [_ _ _ Hc _ _]. cbn [app] in Hc.
  rewrite Forall_forall in Hc. destruct (Hc _ Hin) as (l0 & l1 & E & Hs & Hb). cbn [snd] in *.
  apply nm_get_In in Hget. pose proof (Hs nm k ps Hget) as Hn.
  assert (Hin0 : In (nm, ps) l0) by (apply occs_In; eapply nth_error_In; exact Hn).
  split; [|split].
  - pose proof (pushes_nonempty (fst (convert p (mkC [] [] 1 [])))) as Hne. rewrite E in Hne.
    rewrite Forall_forall in Hne. apply (Hne (nm, ps)). apply in_or_app. now left.
  - unfold bounded in Hb. rewrite Forall_forall in Hb. apply (Hb (nm, ps) Hin0).
  - rewrite E, occs_app. now apply nth_error_app_Some.
Qed.

(* the table of the top-level rule after the whole body: exactly the pushes, keyed as pushName keys them *)
Theorem top_table_exact : forall p nm k,
  nm_get (c_top (snd (convert_rule p))) (nm, k) = top_spec (occs nm (pushes (fst (convert_rule p)))) k.
Proof.
  intros p nm k. unfold convert_rule.
  pose proof (convert_inv p _ [] inv_init) as [He _ _ _ _ _]. cbn [app] in He. apply He.
Qed.

Lemma convert_stack_length : forall p s, length (c_stack (snd (convert p s))) = length (c_stack s).
Proof.
  induction p; intro s; cbn [convert].
  - reflexivity.
  - cbn [snd]. rewrite push_name_fun, on_both_stack. cbn [c_stack]. now destruct (c_stack s).
  - reflexivity.
  - specialize (IHp s). now destruct (convert p s).
  - specialize (IHp1 s). destruct (convert p1 s) as [a' s1]. specialize (IHp2 s1).
    destruct (convert p2 s1) as [b' s2]. cbn [snd] in *. congruence.
  - specialize (IHp1 s). destruct (convert p1 s) as [a' s1]. specialize (IHp2 s1).
    destruct (convert p2 s1) as [b' s2]. cbn [snd] in *. congruence.
  - specialize (IHp (mkC (c_top s) ([] :: c_stack s) (c_pos s) (c_cmds s))).
    destruct (convert p _) as [q' s1]. cbn [snd c_stack length] in *.
    destruct (c_stack s1) as [|child [|parent r]]; cbn [c_stack length] in *; lia.
  - specialize (IHp s). destruct (convert p s) as [q' s1]. cbn [snd] in *.
    destruct (collect q'); [exact IHp|]. rewrite push_name_fun, on_both_stack.
    destruct (c_stack s1); cbn [length] in *; exact IHp.
  - reflexivity.
  - reflexivity.
Qed.

(* a rule "body { final action }": the final action sees exactly that table, with MaxPos = the next position *)
Theorem final_action_table_exact : forall p c,
  let r := convert_rule (PSeq p (PCmd c)) in
  exists ca, In (c, ca) (c_cmds (snd r)) /\
    ca_maxpos ca = c_pos (snd r) /\
    forall nm k, nm_get (ca_names ca) (nm, k) = top_spec (occs nm (pushes (fst r))) k.
Proof.
  intros p c. cbv zeta. unfold convert_rule. cbn [convert].
  pose proof (convert_inv p _ [] inv_init) as [He _ _ _ _ _]. cbn [app] in He.
  pose proof (convert_stack_length p (mkC [] [] 1 [])) as Hl. cbn [c_stack length] in Hl.
  destruct (convert p (mkC [] [] 1 [])) as [p' s1]. cbn [fst snd pushes c_cmds c_pos] in *.
  exists (mkCA (cur_names s1) (c_pos s1)). split; [apply in_or_app; right; now left|]. split; [reflexivity|].
  intros nm k. cbn [ca_names]. unfold cur_names. destruct (c_stack s1); [|discriminate].
  rewrite app_nil_r. apply He.
Qed.

(* ---------- an alias stands for exactly the symbols beneath it ---------- *)
Lemma expand_nonempty : forall p, expand p <> [].
Proof.
  induction p; cbn [expand]; try congruence.
  - destruct (expand p); cbn; congruence.
  - destruct (expand p1) as [|x xs]; [congruence|]. destruct (expand p2) as [|y ys]; [congruence|].
    unfold multi_concat. cbn. congruence.
  - destruct (expand p1); cbn; congruence.
Qed.

Lemma collect_iff_expansions : forall p pos,
  In pos (collect p) <-> (0 < pos /\ exists x, In x (expand p) /\ In pos (positions x)).
Proof.
  induction p; intro q; cbn [collect expand].
  - split; [intros [] | intros (_ & x & [<-|[]] & [])].
  - destruct (0 <? pos) eqn:E.
    + apply Nat.ltb_lt in E. split.
      * intros [<-|[]]. split; [exact E|]. exists [IRef pos]. split; [now left|now left].
      * intros (_ & x & [<-|[]] & [<-|[]]). now left.
    + apply Nat.ltb_ge in E. split; [intros []|].
      intros (Hq & x & [<-|[]] & [<-|[]]). lia.
  - destruct (0 <? pos) eqn:E.
    + apply Nat.ltb_lt in E. split.
      * intros [<-|[]]. split; [exact E|]. exists [IRef pos]. split; [now left|now left].
      * intros (_ & x & [<-|[]] & [<-|[]]). now left.
    + apply Nat.ltb_ge in E. split; [intros []|].
      intros (Hq & x & [<-|[]] & [<-|[]]). lia.
  - rewrite IHp. split.
    + intros (Hq & x & Hx & Hp). split; [exact Hq|]. exists x. split; [apply in_or_app; now left|exact Hp].
    + intros (Hq & x & Hx & Hp). split; [exact Hq|]. apply in_app_or in Hx. destruct Hx as [Hx|[<-|[]]].
      * now exists x.
      * destruct Hp.
  - rewrite in_app_iff, IHp1, IHp2. split.
    + intros [(Hq & x & Hx & Hp)|(Hq & y & Hy & Hp)]; (split; [exact Hq|]).
      * destruct (expand p2) as [|y ys] eqn:E2; [now destruct (expand_nonempty p2)|].
        exists (x ++ y). split; [apply in_multi_concat; [exact Hx|now left]|].
        rewrite positions_app. apply in_or_app. now left.
      * destruct (expand p1) as [|x xs] eqn:E1; [now destruct (expand_nonempty p1)|].
        exists (x ++ y). split; [apply in_multi_concat; [now left|exact Hy]|].
        rewrite positions_app. apply in_or_app. now right.
    + intros (Hq & z & Hz & Hp). unfold multi_concat in Hz. apply in_flat_map in Hz.
      destruct Hz as (x & Hx & Hz). apply in_map_iff in Hz. destruct Hz as (y & <- & Hy).
      rewrite positions_app in Hp. apply in_app_or in Hp. destruct Hp as [Hp|Hp].
      * left. split; [exact Hq|]. now exists x.
      * right. split; [exact Hq|]. now exists y.
  - rewrite in_app_iff, IHp1, IHp2. split.
    + intros [(Hq & x & Hx & Hp)|(Hq & x & Hx & Hp)]; (split; [exact Hq|]); exists x;
        (split; [apply in_or_app; auto | exact Hp]).
    + intros (Hq & x & Hx & Hp). apply in_app_or in Hx. destruct Hx as [Hx|Hx].
      * left. split; [exact Hq|]. now exists x.
      * right. split; [exact Hq|]. now exists x.
  - apply IHp.
  - apply IHp.
  - split; [intros [] | intros (_ & x & [<-|[]] & [])].
  - split; [intros [] | intros (_ & x & [<-|[]] & [])].
Qed.

(* in a converted rule every position is >= 1, so the side condition 0 < pos disappears *)
Theorem alias_covers_exactly_its_symbols : forall p s pos, 1 <= c_pos s ->
  (In pos (collect (fst (convert p s))) <->
   exists x, In x (expand (fst (convert p s))) /\ In pos (positions x)).
Proof.
  intros p s pos Hs. rewrite collect_iff_expansions. split; [intros (_ & H); exact H|].
  intros (x & Hx & Hp). split; [|now exists x].
  destruct (convert_expansions_increasing p s x Hx) as [I _]. apply incr_from_bound in I.
  rewrite Forall_forall in I. specialize (I pos Hp). lia.
Qed.

(* ---------- named references, with the hypothesis of eval_name_binds discharged ---------- *)
Theorem named_ref_denotes_occurrence : forall p c ca nm k ps rm st b base lhs pr,
  In (c, ca) (c_cmds (snd (convert_rule p))) ->
  nm_get (ca_names ca) (nm, k) = Some ps ->
  agree st rm b ->
  nth_error (occs nm (pushes (fst (convert_rule p)))) (key_index k) = Some ps /\
  eval_ref ca rm (length st) (base ++ st) lhs (RName (nm, k)) pr =
    match filter (present b) ps with
    | [] => absent_arg pr
    | a0 :: rest =>
        match b_get b a0, b_get b (last (a0 :: rest) a0) with
        | Some e0, Some e1 =>
            match pr with
            | POffset => AInt (e_off e0)
            | PEndoffset => AInt (e_end e1)
            | PValue => match rest with
                        | [] => val_arg (e_val e0)
                        | _ => eval_ref ca rm (length st) (base ++ st) lhs (RName (nm, k)) PValue
                        end
            end
        | _, _ => AErr 4
        end
    end.
Proof.
  intros p c ca nm k ps rm st b base lhs pr Hin Hget Hag.
  destruct (names_table_sound p c ca nm k ps Hin Hget) as (Hne & _ & Hocc). split; [exact Hocc|].
  now apply eval_name_binds.
Qed.
