(* C07: boolean validator for LALR(k) tables (DefaultEnc with deep Lalr rows): every reduction the parser can
   take in a state, under ANY continuation of the input, is justified by a completed LR(0) item of that state.
   Soundness of the parse loop for all inputs follows (ValidatorK_proofs.v).  Executable definitions only. *)
From Coq Require Import List ZArith Bool Arith.
From TM Require Import Gram.Cfg Gram.PTables Gram.Run Gram.Validator.
Import ListNotations.
Local Open Scope Z_scope.

(* all actions a Lalr row can answer (its pairs up to and including the terminator's default) *)
Fixpoint row_actions (fuel : nat) (l : list Z) (i : Z) : list Z :=
  match fuel with
  | O => [-2]
  | S f => if zn l i >=? 0 then zn l (i + 1) :: row_actions f l (i + 2) else [zn l (i + 1)]
  end.

(* every rule reachable from action a through deep rows is accepted by [just]; depth bounded by fuel *)
Fixpoint all_ok (fuel : nat) (t : default_enc) (just : Z -> bool) (a : Z) : bool :=
  if a >=? 0 then just a
  else if a >=? -2 then true
  else match fuel with
       | O => false
       | S f => forallb (all_ok f t just) (row_actions (S (length (d_lalr t))) (d_lalr t) (- a - 3))
       end.

Section VK.
Variable g : grammar.
Variable t : default_enc.
Variable rule_len rule_sym : list Z.
Variable nstates : Z.
Variable finals : list Z.
Variable ann : cert.

Definition mk : machine := default_machine t rule_len rule_sym.

Definition just (p r : Z) : bool :=
  (0 <=? r) && (Z.to_nat r <? nrules g)%nat &&
  match nth_error (g_rules g) (Z.to_nat r) with
  | Some rl => has_item ann p (Z.to_nat r) (length (r_rhs rl)) &&
               (zn rule_len r =? Z.of_nat (length (r_rhs rl))) && (zn rule_sym r =? r_lhs rl)
  | None => false end.

Definition chk_cells_k : bool :=
  forallb (fun p => forallb (fun a =>
      let a0 := zn (d_action t) p in
      let a1 := if a0 <? -2 then lalr_lookup t a0 a else a0 in
      all_ok 12 t (just p) a1) (zrange0 (vT g))) (zrange0 nstates).

Definition chk_trans_k : bool :=
  forallb (fun p => forallb (fun X =>
      let q := goto_state t p X in
      if q <? 0 then true else
      (Z.of_nat (ninputs g) <=? q) && (q <? nstates) &&
      forallb (fun it : citem => let '(r, d, _) := it in
          match d with
          | O => true
          | S d' => match arule g r with
                    | Some rl => match nth_error (r_rhs rl) d' with Some Y => Y =? X | None => false end && has_item ann p r d'
                    | None => false end
          end) (items ann q)) (zrange0 (vNS g))) (zrange0 nstates).

Definition check_k : bool :=
  chk_rules g && chk_ann_len nstates ann && chk_trans_k && chk_cells_k && chk_start g ann &&
  chk_final g nstates finals ann && chk_goto_def g mk nstates ann.

Definition check_k_report : Z :=
  if negb (chk_rules g) then 1 else if negb (chk_ann_len nstates ann) then 14 else if negb chk_trans_k then 3 else
  if negb chk_cells_k then 4 else if negb (chk_start g ann) then 5 else if negb (chk_final g nstates finals ann) then 6 else
  if negb (chk_goto_def g mk nstates ann) then 7 else 0.
End VK.
