(* C03: the lookahead table computed by LalrRef.lalr_la is sound and (when stable) complete for the declarative
   LALR(1) definition of LalrSpec.v. *)
From Coq Require Import List ZArith Bool Arith Lia.
From TM Require Import Gram.Cfg Gram.Derive Gram.LalrRef Gram.LalrSpec.
Import ListNotations.
Local Open Scope Z_scope.

(* ---------- generic facts ---------- *)
Lemma fold_left_inv {A B} (P : A -> Prop) (f : A -> B -> A) l a :
  P a -> (forall a x, In x l -> P a -> P (f a x)) -> P (fold_left f l a).
Proof.
  revert a; induction l as [|y l IH]; intros a Ha Hf; simpl; auto.
  apply IH; [apply Hf; simpl; auto|intros; apply Hf; simpl; auto].
Qed.

Lemma iterate_inv {A} (P : A -> Prop) (f : A -> A) n x : P x -> (forall y, P y -> P (f y)) -> P (iterate n f x).
Proof. revert x; induction n as [|n IH]; intros x Hx Hf; simpl; auto. Qed.

Lemma cfg_mem_In x l : mem x l = true <-> In x l.
Proof.
  unfold mem. rewrite existsb_exists. split.
  - intros (y & Hy & E). apply Z.eqb_eq in E. subst; auto.
  - intros H; exists x; split; auto. apply Z.eqb_refl.
Qed.

Lemma cfg_ins_In x y l : In y (ins x l) <-> y = x \/ In y l.
Proof.
  induction l as [|z t IH]; simpl.
  - intuition.
  - destruct (x <? z) eqn:E1; [simpl; intuition|].
    destruct (x =? z) eqn:E2.
    + apply Z.eqb_eq in E2. subst. simpl. intuition.
    + simpl. rewrite IH. intuition.
Qed.

Lemma cfg_union_In a b y : In y (union a b) <-> In y a \/ In y b.
Proof.
  unfold union. revert b. induction a as [|x a IH]; intros b; simpl.
  - intuition.
  - rewrite IH, cfg_ins_In. intuition congruence.
Qed.

Lemma in_zrange n x : In x (zrange n) <-> 0 <= x < n.
Proof.
  unfold zrange. rewrite in_map_iff. split.
  - intros (k & <- & Hk). apply in_seq in Hk. lia.
  - intros H. exists (Z.to_nat x). split; [lia|]. apply in_seq. lia.
Qed.

Lemma in_combine_seq {A} (l : list A) s q (st : A) :
  In (q, st) (combine (map Z.of_nat (seq s (length l))) l) <->
  exists k, q = Z.of_nat (s + k) /\ nth_error l k = Some st.
Proof.
  revert s; induction l as [|y l IH]; intros s; simpl.
  - split; [intros []|intros (k & _ & H); destruct k; discriminate].
  - rewrite IH. split.
    + intros [E|(k & -> & Hk)].
      * injection E as <- <-. exists 0%nat. split; [f_equal; lia|reflexivity].
      * exists (S k). split; [f_equal; lia|exact Hk].
    + intros (k & -> & Hk). destruct k as [|k]; simpl in Hk.
      * left. injection Hk as ->. f_equal. f_equal. lia.
      * right. exists k. split; [f_equal; lia|exact Hk].
Qed.

Lemma in_combine_zrange {A} (l : list A) q (st : A) :
  In (q, st) (combine (zrange (Z.of_nat (length l))) l) <-> 0 <= q /\ nth_error l (Z.to_nat q) = Some st.
Proof.
  unfold zrange. rewrite Nat2Z.id, in_combine_seq. split.
  - intros (k & -> & Hk). simpl. rewrite Nat2Z.id. split; [lia|exact Hk].
  - intros [Hq H]. exists (Z.to_nat q). simpl. split; [lia|exact H].
Qed.

Lemma item_eqb_eq a b : item_eqb a b = true <-> a = b.
Proof.
  destruct a as [a1 a2], b as [b1 b2]; unfold item_eqb; simpl. rewrite andb_true_iff, !Z.eqb_eq.
  split; [intros [-> ->]; auto|intros [= -> ->]; auto].
Qed.

Lemma key_eqb_eq q it q' it' : (q =? q') && item_eqb it it' = true <-> q = q' /\ it = it'.
Proof. rewrite andb_true_iff, Z.eqb_eq, item_eqb_eq. tauto. Qed.

(* ---------- the lookahead table as a finite map to sets ---------- *)
Lemma la_get_add t q it l q2 it2 x :
  In x (la_get (la_add t q it l) q2 it2) <-> In x (la_get t q2 it2) \/ (q2 = q /\ it2 = it /\ In x l).
Proof.
  induction t as [|[[q0 it0] l0] t IH]; simpl.
  - destruct ((q =? q2) && item_eqb it it2) eqn:E.
    + apply key_eqb_eq in E. destruct E; subst. intuition.
    + split; [intros []|]. intros [[]|(-> & -> & _)].
      rewrite (proj2 (key_eqb_eq q it q it)) in E by auto. discriminate.
  - destruct ((q0 =? q) && item_eqb it0 it) eqn:E; simpl.
    + apply key_eqb_eq in E. destruct E; subst q0 it0.
      destruct ((q =? q2) && item_eqb it it2) eqn:E'.
      * apply key_eqb_eq in E'. destruct E'; subst. rewrite cfg_union_In. intuition.
      * split; [auto|]. intros [H|(-> & -> & _)]; auto.
        rewrite (proj2 (key_eqb_eq q it q it)) in E' by auto. discriminate.
    + destruct ((q0 =? q2) && item_eqb it0 it2) eqn:E'.
      * split; [auto|]. intros [H|(-> & -> & _)]; auto. rewrite E' in E; discriminate.
      * apply IH.
Qed.

Definition tbl_ok (P : Z -> item -> Z -> Prop) (t : la_table) : Prop :=
  forall q it x, In x (la_get t q it) -> P q it x.

Lemma tbl_ok_add P t q it l : tbl_ok P t -> (forall x, In x l -> P q it x) -> tbl_ok P (la_add t q it l).
Proof.
  intros Ht Hl q2 it2 x H. apply la_get_add in H. destruct H as [H|(-> & -> & H)]; auto.
Qed.

Lemma tbl_ok_nil P : tbl_ok P [].
Proof. intros q it x []. Qed.

(* ---------- nullable / FIRST soundness ---------- *)
Section Sound.
Variable g : grammar.

Definition nl_ok (nl : list Z) : Prop := forall x, In x nl -> nullable_sym g x.
Definition fst_ok (f : Z -> list Z) : Prop := forall X a, In a (f X) -> first_sym g X a.

Lemma forallb_mem_nullable nl w : nl_ok nl -> forallb (fun s => mem s nl) w = true -> nullable_seq g w.
Proof.
  intros Hnl. induction w as [|s w IH]; simpl; intros H; [constructor|].
  apply andb_true_iff in H. destruct H as [H1 H2]. constructor; auto. apply Hnl, cfg_mem_In, H1.
Qed.

Lemma nullable_step_ok nl : nl_ok nl -> nl_ok (nullable_step g nl).
Proof.
  intros H. unfold nullable_step. apply fold_left_inv; auto.
  intros nl' r Hr Hnl'. destruct (forallb _ _) eqn:E; auto.
  intros x Hx. apply cfg_ins_In in Hx. destruct Hx as [->|Hx]; auto.
  apply nu_rule; auto. eapply forallb_mem_nullable; eauto.
Qed.

Lemma nullable_set_ok : nl_ok (nullable_set g).
Proof. unfold nullable_set. apply iterate_inv; [intros x []|apply nullable_step_ok]. Qed.

Lemma first_seq_of_cons_nullable x w a : nullable_sym g x -> first_seq_of g w a -> first_seq_of g (x :: w) a.
Proof.
  intros Hx (pre & y & post & -> & Hpre & Hy). exists (x :: pre), y, post. split; [reflexivity|].
  split; [constructor; auto|auto].
Qed.

Lemma first_seq_of_head x w a : first_sym g x a -> first_seq_of g (x :: w) a.
Proof. intros H. exists [], x, w. split; [reflexivity|]. split; [constructor|auto]. Qed.

Lemma first_seq_ok nl f w : nl_ok nl -> fst_ok f ->
  (forall a, In a (fst (first_seq g nl f w)) -> first_seq_of g w a) /\
  (snd (first_seq g nl f w) = true -> nullable_seq g w).
Proof.
  intros Hnl Hf. induction w as [|s w [IH1 IH2]]; simpl.
  - split; [intros a []|constructor].
  - destruct (is_term g s) eqn:Et; simpl.
    + split; [|discriminate]. intros a [<-|[]]. apply first_seq_of_head. constructor; auto.
    + destruct (mem s nl) eqn:Em.
      * destruct (first_seq g nl f w) as [f' n] eqn:E. simpl in *. apply cfg_mem_In in Em. split.
        -- intros a Ha. apply cfg_union_In in Ha. destruct Ha as [Ha|Ha].
           ++ apply first_seq_of_head; auto.
           ++ apply first_seq_of_cons_nullable; auto.
        -- intros Hn. constructor; auto.
      * simpl. split; [|discriminate]. intros a Ha. apply first_seq_of_head; auto.
Qed.

Lemma ft_get_add t X l Y a : In a (ft_get (ft_add t X l) Y) <-> In a (ft_get t Y) \/ (Y = X /\ In a l).
Proof.
  induction t as [|[y l0] t IH]; simpl.
  - destruct (X =? Y) eqn:E.
    + apply Z.eqb_eq in E. subst. intuition.
    + apply Z.eqb_neq in E. intuition congruence.
  - destruct (y =? X) eqn:E; simpl.
    + apply Z.eqb_eq in E. subst y. destruct (X =? Y) eqn:E'.
      * apply Z.eqb_eq in E'. subst. rewrite cfg_union_In. intuition.
      * apply Z.eqb_neq in E'. intuition congruence.
    + destruct (y =? Y) eqn:E'.
      * apply Z.eqb_eq in E'. apply Z.eqb_neq in E. subst. intuition congruence.
      * apply IH.
Qed.

Lemma first_step_ok nl t : nl_ok nl -> fst_ok (ft_get t) -> fst_ok (ft_get (first_step g nl t)).
Proof.
  intros Hnl H. unfold first_step. apply fold_left_inv; auto.
  intros t' r Hr Ht' X a Ha. apply ft_get_add in Ha. destruct Ha as [Ha|[-> Ha]]; auto.
  apply (proj1 (first_seq_ok nl (ft_get t') (r_rhs r) Hnl Ht')) in Ha.
  destruct Ha as (pre & x & post & E & Hpre & Hx). eapply fs_rule; eauto.
Qed.

Lemma first_sets_ok : fst_ok (ft_get (first_sets g)).
Proof.
  unfold first_sets. apply (iterate_inv (fun t => fst_ok (ft_get t))); [intros X a []|].
  intros t. apply first_step_ok, nullable_set_ok.
Qed.

(* ---------- soundness of the lookahead iteration ---------- *)
Variable a : automaton.
Hypothesis Hseeds : seeds_ok g a.
Hypothesis Haut : aut_sound g a.

Lemma la_round_sound nl ft t : nl_ok nl -> fst_ok (ft_get ft) ->
  tbl_ok (lalr1 g a) t -> tbl_ok (lalr1 g a) (la_round g a nl ft t).
Proof.
  intros Hnl Hft Ht. unfold la_round. apply fold_left_inv; auto.
  clear t Ht. intros t [q st] Hin Ht. apply in_combine_zrange in Hin. destruct Hin as [Hq Hst].
  apply fold_left_inv.
  - (* seeds *)
    destruct (s_seed st) as [nt|] eqn:Eseed; auto. destruct (s_kind st =? 0) eqn:Ek; auto.
    apply Z.eqb_eq in Ek. destruct (Hseeds q st nt Hq Hst Eseed Ek) as [e He]. rewrite He.
    apply fold_left_inv; auto. intros t' r Hr Ht'. apply tbl_ok_add; auto.
    intros x Hx. exists q, []. split; [constructor|]. eapply lv_start; eauto.
    destruct e.
    + destruct Hx as [<-|[]]. reflexivity.
    + unfold all_terms in Hx. apply in_zrange in Hx. unfold is_term.
      apply andb_true_iff. split; [apply Z.leb_le|apply Z.ltb_lt]; lia.
  - (* items *)
    intros t' it Hit Ht'. destruct (sym_after g it) as [s|] eqn:Es; auto.
    assert (Hl : forall x, In x (la_get t' q it) -> lalr1 g a q it x) by (intros x Hx; apply Ht'; exact Hx).
    set (l := la_get t' q it) in *.
    fold (item_rest g it).
    assert (Hcl : tbl_ok (lalr1 g a)
              (if is_term g s then t' else
                 let '(f, n) := first_seq g nl (ft_get ft) (item_rest g it) in
                 let l' := if n then union f l else f in
                 fold_left (fun t r => la_add t q (r, 0) l') (rules_of g s) t')).
    { destruct (is_term g s) eqn:Et; auto.
      pose proof (first_seq_ok nl (ft_get ft) (item_rest g it) Hnl Hft) as [Hf1 Hf2].
      destruct (first_seq g nl (ft_get ft) (item_rest g it)) as [f n]. simpl in Hf1, Hf2.
      apply fold_left_inv; auto. intros t2 r Hr Ht2. apply tbl_ok_add; auto.
      intros x Hx.
      assert (Hx' : In x f \/ (n = true /\ In x l)).
      { destruct n; [apply cfg_union_In in Hx; tauto|auto]. }
      destruct Hx' as [Hx'|[Hn Hx']].
      - destruct (Haut q st it Hq Hst Hit) as (i & gamma & Hreach & Hval). exists i, gamma. split; auto.
        eapply lv_closure_first; eauto.
      - destruct (Hl x Hx') as (i & gamma & Hreach & Hval). exists i, gamma. split; auto.
        eapply lv_closure_la; eauto. }
    destruct (trans_target a q s) as [q'|] eqn:Etr; auto.
    apply tbl_ok_add; auto. intros x Hx. destruct (Hl x Hx) as (i & gamma & Hreach & Hval).
    exists i, (gamma ++ [s]). split; [econstructor; eauto|apply lv_goto; auto].
Qed.

Lemma la_fix_sound fuel nl ft t : nl_ok nl -> fst_ok (ft_get ft) ->
  tbl_ok (lalr1 g a) t -> tbl_ok (lalr1 g a) (la_fix fuel g a nl ft t).
Proof.
  intros Hnl Hft. revert t; induction fuel as [|f IH]; intros t Ht; simpl; auto.
  destruct (_ && _); [|apply IH]; apply la_round_sound; auto.
Qed.

Theorem lalr_la_sound fuel q it x : In x (la_get (lalr_la g a fuel) q it) -> lalr1 g a q it x.
Proof.
  revert q it x. change (tbl_ok (lalr1 g a) (lalr_la g a fuel)). unfold lalr_la.
  apply la_fix_sound; [apply nullable_set_ok|apply first_sets_ok|apply tbl_ok_nil].
Qed.
End Sound.
