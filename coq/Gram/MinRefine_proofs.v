(* C06, parts 2-4: Moore refinement (Minimize.refine_once / refine) only splits classes, stops at a
   congruence, and keeps states with pairwise distinct leading signatures at their positions. *)
From Coq Require Import List ZArith Bool Lia.
From Coq Require FinFun.
From TM Require Import Lib.ListX Gram.PTables Gram.Optimize Gram.Run Gram.Minimize Gram.Minimize_proofs Gram.MinNumber_proofs.
Import ListNotations.
Local Open Scope Z_scope.

(* ---------- zn versions of the numbering facts ---------- *)
Lemma number_all_zn sigs ids c : number_all sigs = (ids, c) ->
  length ids = length sigs /\
  (forall s, 0 <= s < Z.of_nat (length sigs) -> 0 <= zn ids s < c) /\
  (forall s s', 0 <= s < Z.of_nat (length sigs) -> 0 <= s' < Z.of_nat (length sigs) ->
     (zn ids s = zn ids s' <-> nth (Z.to_nat s) sigs [] = nth (Z.to_nat s') sigs [])) /\
  (forall k, 0 <= k < c -> exists s, 0 <= s < Z.of_nat (length sigs) /\ zn ids s = k) /\
  0 <= c <= Z.of_nat (length sigs).
Proof.
  intro H. pose proof (number_all_length _ _ _ H) as HL. split; [exact HL|]. split; [|split; [|split]].
  - intros s Hs. rewrite zn_nth0 by lia. apply (number_all_range _ _ _ H). lia.
  - intros s s' Hs Hs'. rewrite !zn_nth0 by lia. apply (number_all_eq_iff _ _ _ H); lia.
  - intros k Hk. destruct (number_all_surj _ _ _ H k Hk) as (i & Hi & Hn). exists (Z.of_nat i). split; [lia|].
    rewrite zn_nth0 by lia. now rewrite Nat2Z.id.
  - apply (number_all_count_le _ _ _ H).
Qed.

Lemma number_all_distinct_front sigs ids c k : number_all sigs = (ids, c) -> (k <= length sigs)%nat ->
  (forall i j, (i < k)%nat -> (j < k)%nat -> nth i sigs [] = nth j sigs [] -> i = j) ->
  forall i, (i < k)%nat -> nth i ids 0 = Z.of_nat i.
Proof.
  intros H Hk Hinj i Hi. rewrite <- (firstn_skipn k sigs) in H.
  assert (Hlen : length (firstn k sigs) = k) by (rewrite firstn_length; lia).
  apply (number_all_nodup_prefix _ _ _ _) with (i := i) in H; [exact H| |lia].
  apply (proj2 (NoDup_nth _ [])). intros a b Ha Hb E. rewrite Hlen in Ha, Hb.
  rewrite !nth_firstn' in E by assumption. now apply Hinj.
Qed.

Lemma NoDup_map_inj {A B} (f : A -> B) l : NoDup (map f l) -> forall x y, In x l -> In y l -> f x = f y -> x = y.
Proof.
  induction l as [|a l IH]; cbn; intros Hnd x y Hx Hy E; [contradiction|].
  inversion Hnd as [|? ? Ha Hl]; subst. destruct Hx as [->|Hx], Hy as [->|Hy].
  - reflexivity.
  - exfalso. apply Ha. rewrite E. now apply in_map.
  - exfalso. apply Ha. rewrite <- E. now apply in_map.
  - now apply IH.
Qed.

Lemma NoDup_zseq n : NoDup (zseq n).
Proof.
  unfold zseq. apply FinFun.Injective_map_NoDup; [|apply seq_NoDup]. intros a b E. lia.
Qed.

(* ---------- one refinement round ---------- *)
Definition trans_sig (p : list Z) (tr : list Z) : list Z :=
  flat_map (fun '(sym, tgt) => [sym; zn p tgt]) (pairs_up tr).

Definition ref_sig (p : list Z) (st : Z * list Z) : list Z :=
  sig_partition :: zn p (fst st) :: trans_sig p (snd st).

Lemma refine_once_eq trans p :
  refine_once trans p = number_all (map (ref_sig p) (combine (zseq (zlength p)) trans)).
Proof.
  unfold refine_once. f_equal. apply map_ext. intros [s tr]. reflexivity.
Qed.

Section Round.
Variables (trans : list (list Z)) (p : list Z).
Hypothesis Hlen : length trans = length p.

Let N := Z.of_nat (length p).
Definition row (s : Z) : list Z := nth (Z.to_nat s) trans [].

Lemma ref_sigs_length : length (map (ref_sig p) (combine (zseq (zlength p)) trans)) = length p.
Proof. rewrite map_length, combine_length, zseq_length. unfold zlength. lia. Qed.

Lemma ref_sigs_nth s : 0 <= s < N ->
  nth (Z.to_nat s) (map (ref_sig p) (combine (zseq (zlength p)) trans)) [] =
  sig_partition :: zn p s :: trans_sig p (row s).
Proof.
  intro Hs. unfold N in Hs.
  assert (Hl : (Z.to_nat s < length (combine (zseq (zlength p)) trans))%nat).
  { rewrite combine_length, zseq_length. unfold zlength. lia. }
  rewrite (nth_indep _ [] (ref_sig p (0, []))) by (rewrite map_length; exact Hl).
  rewrite map_nth, combine_nth by (rewrite zseq_length; unfold zlength; lia).
  rewrite zseq_nth by (unfold zlength; lia). unfold ref_sig, row. cbn [fst snd]. now rewrite Z2Nat.id by lia.
Qed.

Variables (p' : list Z) (c' : Z).
Hypothesis Href : refine_once trans p = (p', c').

Lemma refine_once_spec :
  length p' = length p /\
  (forall s, 0 <= s < N -> 0 <= zn p' s < c') /\
  (forall s s', 0 <= s < N -> 0 <= s' < N ->
     (zn p' s = zn p' s' <-> zn p s = zn p s' /\ trans_sig p (row s) = trans_sig p (row s'))) /\
  (forall k, 0 <= k < c' -> exists s, 0 <= s < N /\ zn p' s = k) /\
  0 <= c' <= N.
Proof.
  rewrite refine_once_eq in Href. destruct (number_all_zn _ _ _ Href) as (L & R & E & S & C).
  rewrite ref_sigs_length in *. fold N in R, E, S, C. split; [exact L|]. split; [exact R|]. split; [|split; [exact S|exact C]].
  intros s s' Hs Hs'. rewrite (E s s' Hs Hs'), !ref_sigs_nth by assumption. split.
  - intros [= E1 E2]. split; assumption.
  - intros [-> ->]. reflexivity.
Qed.

(* (2) a round only splits classes *)
Theorem refine_once_refines s s' : 0 <= s < N -> 0 <= s' < N -> zn p' s = zn p' s' -> zn p s = zn p s'.
Proof. intros Hs Hs' H. destruct refine_once_spec as (_ & _ & E & _). now apply (E s s' Hs Hs'). Qed.

(* ... so the number of classes does not decrease, when [p] is a numbering with [c] classes *)
Variable c : Z.
Hypothesis Hrange : forall s, 0 <= s < N -> 0 <= zn p s < c.
Hypothesis Hsurj : forall k, 0 <= k < c -> exists s, 0 <= s < N /\ zn p s = k.

Lemma round_seen : exists seen, NoDup seen /\ c' = Z.of_nat (length seen) /\
  (forall s, 0 <= s < N -> In (sig_partition :: zn p s :: trans_sig p (row s)) seen) /\
  incl (zseq c) (map (fun sg => nth 1 sg 0) seen).
Proof.
  pose proof Href as H. rewrite refine_once_eq in H.
  destruct (number_all_count_distinct _ _ _ H) as (seen & Hnd & Hset & Hc). exists seen.
  assert (Hin : forall s, 0 <= s < N -> In (sig_partition :: zn p s :: trans_sig p (row s)) seen).
  { intros s Hs. apply Hset. rewrite <- ref_sigs_nth by exact Hs. apply nth_In. rewrite ref_sigs_length. unfold N in Hs. lia. }
  split; [exact Hnd|]. split; [exact Hc|]. split; [exact Hin|].
  intros k Hk. apply in_zseq' in Hk. destruct (Hsurj k Hk) as (s & Hs & <-).
  apply in_map_iff. exists (sig_partition :: zn p s :: trans_sig p (row s)). split; [reflexivity|now apply Hin].
Qed.

Theorem refine_once_count_mono : 0 <= c -> c <= c'.
Proof.
  intro Hc0. destruct round_seen as (seen & Hnd & -> & _ & Hincl).
  pose proof (NoDup_incl_length (NoDup_zseq c) Hincl) as H. rewrite zseq_length, map_length in H. lia.
Qed.

(* (3) the exit test of [refine]: when the count did not grow, [p] is stable (a congruence for [trans]) *)
Theorem refine_once_stable : 0 <= c -> c' = c ->
  forall s s', 0 <= s < N -> 0 <= s' < N -> zn p s = zn p s' -> trans_sig p (row s) = trans_sig p (row s').
Proof.
  intros Hc0 Hcc s s' Hs Hs' E. destruct round_seen as (seen & Hnd & Hc' & Hin & Hincl).
  assert (Hnd' : NoDup (map (fun sg => nth 1 sg 0) seen)).
  { apply (NoDup_incl_NoDup (NoDup_zseq c)); [|exact Hincl]. rewrite zseq_length, map_length. lia. }
  pose proof (NoDup_map_inj _ _ Hnd' _ _ (Hin s Hs) (Hin s' Hs')) as H. cbn [nth] in H. specialize (H E).
  now injection H.
Qed.
End Round.

(* ---------- the loop ---------- *)
Section Loop.
Variable trans : list (list Z).
Let N := Z.of_nat (length trans).

(* [p] is a numbering of the states with exactly [c] classes *)
Record numbering (p : list Z) (c : Z) : Prop := {
  nb_len : length p = length trans;
  nb_range : forall s, 0 <= s < N -> 0 <= zn p s < c;
  nb_surj : forall k, 0 <= k < c -> exists s, 0 <= s < N /\ zn p s = k;
  nb_count : 0 <= c <= N
}.

Definition stable (p : list Z) : Prop :=
  forall s s', 0 <= s < N -> 0 <= s' < N -> zn p s = zn p s' -> trans_sig p (row trans s) = trans_sig p (row trans s').

Definition refines (p q : list Z) : Prop :=
  forall s s', 0 <= s < N -> 0 <= s' < N -> zn p s = zn p s' -> zn q s = zn q s'.

(* the first [k] states keep their own numbers *)
Definition front_id (k : Z) (p : list Z) : Prop := forall i, 0 <= i < k -> zn p i = i.

Lemma refine_once_numbering p c p' c' : numbering p c -> refine_once trans p = (p', c') -> numbering p' c'.
Proof.
  intros [L R S C] H. assert (Hl : length trans = length p) by congruence.
  destruct (refine_once_spec trans p Hl p' c' H) as (L' & R' & _ & S' & C'). rewrite <- Hl in *.
  constructor; [congruence|exact R'|exact S'|exact C'].
Qed.

Lemma refine_once_front k p c p' c' : numbering p c -> refine_once trans p = (p', c') -> k <= N ->
  front_id k p -> front_id k p'.
Proof.
  intros [L R S C] H Hk Hf i Hi. assert (Hl : length trans = length p) by congruence.
  pose proof H as H0. rewrite refine_once_eq in H0.
  pose proof (number_all_distinct_front _ _ _ (Z.to_nat k) H0) as D.
  rewrite ref_sigs_length in D by exact Hl.
  assert (Hp' : length p' = length p) by (apply (refine_once_spec trans p Hl p' c' H)).
  rewrite zn_nth0 by (unfold N in Hk; lia).
  rewrite D; [lia|unfold N in Hk; lia| |lia].
  intros a b Ha Hb E.
  rewrite <- (Nat2Z.id a), <- (Nat2Z.id b) in E.
  rewrite !(ref_sigs_nth trans p Hl) in E by (unfold N in Hk; lia).
  injection E as E _. rewrite !Hf in E by lia. lia.
Qed.

Theorem refine_spec k pinit : k <= N -> forall fuel p c p' c', numbering p c -> refines p pinit -> front_id k p ->
  Z.of_nat fuel + c > N -> refine fuel trans p c = (p', c') ->
  numbering p' c' /\ refines p' pinit /\ front_id k p' /\ stable p'.
Proof.
  intros Hk. induction fuel as [|f IH]; intros p c p' c' Hnum Href Hfr Hfuel; cbn [refine].
  - exfalso. pose proof (nb_count _ _ Hnum). lia.
  - destruct (refine_once trans p) as [p1 c1] eqn:E1.
    assert (Hl : length trans = length p) by (symmetry; apply (nb_len _ _ Hnum)).
    pose proof (nb_count _ _ Hnum) as Hc.
    assert (Hr : forall s, 0 <= s < Z.of_nat (length p) -> 0 <= zn p s < c) by (rewrite <- Hl; apply (nb_range _ _ Hnum)).
    assert (Hs : forall k0, 0 <= k0 < c -> exists s, 0 <= s < Z.of_nat (length p) /\ zn p s = k0) by (rewrite <- Hl; apply (nb_surj _ _ Hnum)).
    destruct (c1 =? c) eqn:Ec.
    + intros [= <- <-]. apply Z.eqb_eq in Ec. split; [exact Hnum|]. split; [exact Href|]. split; [exact Hfr|].
      intros s s' Hs1 Hs2. unfold N in Hs1, Hs2. rewrite Hl in Hs1, Hs2.
      apply (refine_once_stable trans p Hl p1 c1 E1 c Hs); [lia|exact Ec|exact Hs1|exact Hs2].
    + apply Z.eqb_neq in Ec.
      pose proof (refine_once_count_mono trans p Hl p1 c1 E1 c Hs ltac:(lia)) as Hmono.
      apply IH.
      * exact (refine_once_numbering _ _ _ _ Hnum E1).
      * intros s s' Hs1 Hs2 E. apply Href; [exact Hs1|exact Hs2|].
        unfold N in Hs1, Hs2. rewrite Hl in Hs1, Hs2. apply (refine_once_refines trans p Hl p1 c1 E1); assumption.
      * exact (refine_once_front k _ _ _ _ Hnum E1 Hk Hfr).
      * lia.
Qed.
End Loop.
