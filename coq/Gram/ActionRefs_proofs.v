(* Proofs about Gram/ActionRefs.v *)
From Coq Require Import List NArith ZArith Bool Arith Lia.
From TM Require Import Gram.ActionRefs.
Import ListNotations.
Local Open Scope nat_scope.

(* ---------- the slot arithmetic ---------- *)
Lemma slot_own_entries : forall (base st : list entry) i,
  i < length st -> slot (base ++ st) (length st - i) = nth_error st i.
Proof.
  intros base st i Hi. unfold slot.
  assert (Hk : (length st - i =? 0) = false) by (apply Nat.eqb_neq; lia).
  rewrite Hk. cbn [orb].
  assert (Hl : (length (base ++ st) <? length st - i) = false).
  { apply Nat.ltb_ge. rewrite app_length. lia. }
  rewrite Hl. rewrite app_length.
  replace (length base + length st - (length st - i)) with (length base + i) by lia.
  rewrite nth_error_app2 by lia. f_equal. lia.
Qed.

(* ---------- the symbols of the rule seen so far: (position, entry), latest first ---------- *)
Definition bindings := list (nat * entry).

Fixpoint b_get (b : bindings) (pos : nat) : option entry :=
  match b with
  | [] => None
  | (p, e) :: r => if Nat.eqb p pos then Some e else b_get r pos
  end.

(* remap + the rule's own stack entries agree with the bindings *)
Definition agree (st : list entry) (rm : remap) (b : bindings) : Prop :=
  forall pos,
    match rm_get rm pos with
    | Some i => exists e, nth_error st i = Some e /\ b_get b pos = Some e
    | None => b_get b pos = None
    end.

Lemma agree_nil : agree [] [] [].
Proof. intro pos. reflexivity. Qed.

Lemma agree_push : forall st rm b x, agree st rm b -> agree (st ++ [x]) rm b.
Proof.
  intros st rm b x H pos. specialize (H pos). destruct (rm_get rm pos) as [i|]; [|exact H].
  destruct H as (e & Hn & Hb). exists e. split; [|exact Hb].
  rewrite nth_error_app1; [exact Hn|]. apply nth_error_Some. congruence.
Qed.

Lemma agree_bind : forall st rm b pos c,
  agree st rm b -> agree (st ++ [c]) ((pos, length st) :: rm) ((pos, c) :: b).
Proof.
  intros st rm b pos c H pos'. cbn [rm_get b_get].
  destruct (Nat.eqb pos pos') eqn:E.
  - exists c. split; [|reflexivity]. rewrite nth_error_app2 by lia. now rewrite Nat.sub_diag.
  - apply (agree_push st rm b c H pos').
Qed.

Definition absent_arg (pr : prop) : arg := match pr with PValue => ANil | _ => AM1 end.

(* $N / ${N.offset} / ${N.endoffset} *)
Lemma eval_num_binds : forall ca rm st b base lhs n pr,
  agree st rm b -> S n < ca_maxpos ca ->
  eval_ref ca rm (length st) (base ++ st) lhs (RNum n) pr =
    match b_get b (S n) with
    | Some e => entry_arg e pr
    | None => absent_arg pr
    end.
Proof.
  intros ca rm st b base lhs n pr H Hmax. unfold eval_ref, locate, resolve.
  assert (Hle : (ca_maxpos ca <=? S n) = false) by (apply Nat.leb_gt; lia).
  rewrite Hle. specialize (H (S n)).
  destruct (rm_get rm (S n)) as [i|].
  - destruct H as (e & Hn & Hb). rewrite Hb.
    assert (Hi : i < length st) by (apply nth_error_Some; congruence).
    rewrite (slot_own_entries base st i Hi), Hn, Nat.eqb_refl. now destruct pr.
  - rewrite H. reflexivity.
Qed.

Definition present (b : bindings) (p : nat) : bool := match b_get b p with Some _ => true | None => false end.

Lemma filter_agree : forall st rm b ps, agree st rm b ->
  filter (fun p => match rm_get rm p with Some _ => true | None => false end) ps = filter (present b) ps.
Proof.
  intros st rm b ps H. apply filter_ext. intro p. unfold present. specialize (H p).
  destruct (rm_get rm p); [destruct H as (e & _ & Hb); now rewrite Hb | now rewrite H].
Qed.

Lemma last_In : forall (l : list nat) d, l <> [] -> In (last l d) l.
Proof.
  induction l as [|x l IH]; intros d H; [congruence|].
  destruct l as [|y l]; [now left|]. right. apply IH. congruence.
Qed.

(* $name / ${name.offset} / ${name.endoffset}: first / last position of the alias that is present *)
Lemma eval_name_binds : forall ca rm st b base lhs nm ps pr,
  agree st rm b -> nm_get (ca_names ca) nm = Some ps -> ps <> [] ->
  eval_ref ca rm (length st) (base ++ st) lhs (RName nm) pr =
    match filter (present b) ps with
    | [] => absent_arg pr
    | a0 :: rest =>
        match b_get b a0, b_get b (last (a0 :: rest) a0) with
        | Some e0, Some e1 =>
            match pr with
            | POffset => AInt (e_off e0)
            | PEndoffset => AInt (e_end e1)
            | PValue => match rest with
                        | [] => val_arg (e_val e0)
                        | _ => eval_ref ca rm (length st) (base ++ st) lhs (RName nm) PValue
                        end
            end
        | _, _ => AErr 4
        end
    end.
Proof.
  intros ca rm st b base lhs nm ps pr H Hn Hne. unfold eval_ref at 1, locate, resolve. rewrite Hn.
  destruct ps as [|p0 ps']; [congruence|].
  rewrite (filter_agree st rm b (p0 :: ps') H).
  destruct (filter (present b) (p0 :: ps')) as [|a0 rest] eqn:F; [reflexivity|].
  assert (Hin0 : In a0 (a0 :: rest)) by now left.
  assert (Hin1 : In (last (a0 :: rest) a0) (a0 :: rest)) by (apply last_In; congruence).
  unfold last_of.
  remember (last (a0 :: rest) a0) as al eqn:Hal.
  rewrite <- F in Hin0, Hin1. apply filter_In in Hin0, Hin1. destruct Hin0 as [_ P0], Hin1 as [_ P1].
  unfold present in P0, P1.
  pose proof (H a0) as H0. pose proof (H al) as H1.
  destruct (b_get b a0) as [e0|]; [|discriminate P0].
  destruct (b_get b al) as [e1|] eqn:B1; [|discriminate P1].
  destruct (rm_get rm a0) as [i0|] eqn:R0; [|discriminate H0].
  destruct (rm_get rm al) as [i1|] eqn:R1; [|discriminate H1].
  destruct H0 as (x0 & Hx0 & E0), H1 as (x1 & Hx1 & E1). injection E0 as E0; injection E1 as E1; subst x0 x1.
  assert (Hi0 : i0 < length st) by (apply nth_error_Some; congruence).
  assert (Hi1 : i1 < length st) by (apply nth_error_Some; congruence).
  destruct pr.
  - destruct rest as [|r1 rest'].
    + cbn [last] in Hal. subst al. assert (i1 = i0) by congruence. subst i1.
      assert (e1 = e0) by congruence. subst e1.
      rewrite Nat.eqb_refl.
      now rewrite (slot_own_entries base st i0 Hi0), Hx0.
    + unfold eval_ref, locate, resolve. rewrite Hn, (filter_agree st rm b (p0 :: ps') H), F. unfold last_of.
      rewrite <- Hal, R0, R1. reflexivity.
  - now rewrite (slot_own_entries base st i0 Hi0), Hx0.
  - now rewrite (slot_own_entries base st i1 Hi1), Hx1.
Qed.

(* ---------- the state [run] is in when it reaches a site ---------- *)
Fixpoint state_after (ls : list litem) (st : list entry) (rm : remap) (b : bindings) (children : list entry) (cur : Z)
  : option (list entry * remap * bindings * list entry * Z) :=
  match ls with
  | [] => Some (st, rm, b, children, cur)
  | LRef pos :: r =>
      match children with
      | [] => None
      | c :: cs => state_after r (st ++ [c]) (if 0 <? pos then (pos, length st) :: rm else rm)
                               (if 0 <? pos then (pos, c) :: b else b) cs (e_end c)
      end
  | LMid _ :: r => state_after r (st ++ [mkE VNil cur cur]) rm b children cur
  | LFinal _ :: r => state_after r st rm b children cur
  | LMark _ :: r => state_after r st rm b children cur
  end.

Lemma state_after_agree : forall ls st rm b ch cur st' rm' b' ch' cur',
  agree st rm b -> state_after ls st rm b ch cur = Some (st', rm', b', ch', cur') -> agree st' rm' b'.
Proof.
  induction ls as [|x ls IH]; intros st rm b ch cur st' rm' b' ch' cur' H E.
  - cbn in E. now inversion E; subst.
  - destruct x as [pos|cs|cs|m]; cbn [state_after] in E.
    + destruct ch as [|c ch0]; [discriminate|]. eapply IH; [|exact E].
      destruct (0 <? pos); [now apply agree_bind | now apply agree_push].
    + eapply IH; [|exact E]. now apply agree_push.
    + eapply IH; [|exact E]. exact H.
    + eapply IH; [|exact E]. exact H.
Qed.

Lemma run_app : forall tab cas l1 l2 base st rm b ch cur st' rm' b' ch' cur',
  state_after l1 st rm b ch cur = Some (st', rm', b', ch', cur') ->
  run tab cas (l1 ++ l2) base st rm ch cur =
  run tab cas l1 base st rm ch cur ++ run tab cas l2 base st' rm' ch' cur'.
Proof.
  induction l1 as [|x l1 IH]; intros l2 base st rm b ch cur st' rm' b' ch' cur' E.
  - cbn in E. inversion E; subst. reflexivity.
  - destruct x as [pos|cs|cs|m]; cbn [state_after] in E; cbn [app run].
    + destruct ch as [|c ch0]; [discriminate|]. eapply IH; exact E.
    + rewrite <- app_assoc. f_equal. eapply IH; exact E.
    + rewrite <- app_assoc. f_equal. eapply IH; exact E.
    + eapply IH; exact E.
Qed.

(* the outputs of the commands run at a mid-rule site / at the end of the rule *)
Theorem site_outputs : forall tab cas l1 site l2 base ch start st rm b ch' cur,
  state_after l1 [] [] [] ch start = Some (st, rm, b, ch', cur) ->
  agree st rm b /\
  exists before after,
    run tab cas (l1 ++ site :: l2) base [] [] ch start = before ++
      match site with
      | LMid cs => run_cmds tab cas cs rm base st (mkE VNil cur cur)
      | LFinal cs => run_cmds tab cas cs rm base st (mkE VNil (first_off st cur) cur)
      | LRef _ | LMark _ => []
      end ++ after.
Proof.
  intros tab cas l1 site l2 base ch start st rm b ch' cur E. split.
  - eapply state_after_agree; [apply agree_nil | exact E].
  - rewrite (run_app tab cas l1 (site :: l2) base [] [] [] ch start st rm b ch' cur E).
    eexists. destruct site as [pos|cs|cs|m]; cbn [run].
    + eexists. cbn [app]. reflexivity.
    + eexists. reflexivity.
    + eexists. reflexivity.
    + eexists. cbn [app]. reflexivity.
Qed.

(* ---------- ${first()} / ${last()} ---------- *)
Lemma eval_first_binds : forall ca rm st base lhs pr,
  eval_ref ca rm (length st) (base ++ st) lhs RFirst pr =
    match st with
    | [] => absent_arg pr
    | e0 :: _ => if has_pos rm 0 then entry_arg e0 pr else AErr 7
    end.
Proof.
  intros ca rm st base lhs pr. unfold eval_ref, locate.
  destruct st as [|e0 st']; [now destruct pr|].
  change (length (e0 :: st') =? 0) with false. cbv iota.
  destruct (has_pos rm 0); [|reflexivity].
  rewrite Nat.eqb_refl.
  assert (H : 0 < length (e0 :: st')) by (cbn; lia).
  pose proof (slot_own_entries base (e0 :: st') 0 H) as S0. rewrite S0. cbn [nth_error].
  now destruct pr.
Qed.

Lemma eval_last_binds : forall ca rm st base lhs pr,
  eval_ref ca rm (length st) (base ++ st) lhs RLast pr =
    match rev st with
    | [] => absent_arg pr
    | e1 :: _ => if has_pos rm (length st - 1) then entry_arg e1 pr else AErr 7
    end.
Proof.
  intros ca rm st base lhs pr. unfold eval_ref, locate.
  destruct (rev st) as [|e1 r] eqn:E.
  - assert (st = []) by (rewrite <- (rev_involutive st), E; reflexivity). subst st. now destruct pr.
  - assert (Hst : st = rev r ++ [e1]) by (rewrite <- (rev_involutive st), E; reflexivity).
    assert (Hl : length st = S (length r)) by (rewrite Hst, app_length, rev_length; cbn; lia).
    assert (Hz : (length st =? 0) = false) by (apply Nat.eqb_neq; lia). rewrite Hz.
    destruct (has_pos rm (length st - 1)); [|reflexivity].
    rewrite Nat.eqb_refl.
    assert (H : length st - 1 < length st) by lia.
    rewrite (slot_own_entries base st (length st - 1) H).
    assert (Hn : nth_error st (length st - 1) = Some e1).
    { rewrite Hst at 1. rewrite nth_error_app2 by (rewrite rev_length; lia).
      rewrite rev_length. replace (length st - 1 - length r) with 0 by lia. reflexivity. }
    rewrite Hn. now destruct pr.
Qed.

(* which of the entries a rule pushes belong to a symbol with a position *)
Definition entry_tag (x : litem) : list bool :=
  match x with LRef pos => [0 <? pos] | LMid _ => [false] | LFinal _ | LMark _ => [] end.

Definition entry_tags (ls : list litem) : list bool := flat_map entry_tag ls.

Definition tagged (st : list entry) (rm : remap) (tags : list bool) : Prop :=
  length st = length tags /\ forall i, has_pos rm i = nth i tags false.

Lemma tagged_push : forall st rm tags x, tagged st rm tags -> tagged (st ++ [x]) rm (tags ++ [false]).
Proof.
  intros st rm tags x [Hl Hi]. split; [rewrite !app_length; cbn; lia|].
  intro i. rewrite Hi. destruct (Nat.lt_ge_cases i (length tags)) as [Hlt|Hge].
  - now rewrite app_nth1.
  - rewrite (nth_overflow tags) by lia. rewrite app_nth2 by lia.
    destruct (i - length tags) as [|[|k]]; reflexivity.
Qed.

Lemma tagged_bind : forall st rm tags pos x,
  tagged st rm tags -> tagged (st ++ [x]) ((pos, length st) :: rm) (tags ++ [true]).
Proof.
  intros st rm tags pos x [Hl Hi]. split; [rewrite !app_length; cbn; lia|].
  intro i. unfold has_pos. cbn [existsb snd]. fold (has_pos rm i). rewrite Hi, Hl.
  destruct (Nat.lt_ge_cases i (length tags)) as [Hlt|Hge].
  - rewrite app_nth1 by exact Hlt. assert (E : (length tags =? i) = false) by (apply Nat.eqb_neq; lia).
    now rewrite E.
  - rewrite (nth_overflow tags) by lia. rewrite app_nth2 by lia. rewrite orb_false_r.
    destruct (Nat.eq_dec i (length tags)) as [->|Hne].
    + now rewrite Nat.eqb_refl, Nat.sub_diag.
    + assert (E : (length tags =? i) = false) by (apply Nat.eqb_neq; lia). rewrite E.
      destruct (i - length tags) as [|[|k]] eqn:Ek; [lia|reflexivity|reflexivity].
Qed.

Lemma state_after_tagged : forall ls st rm b ch cur st' rm' b' ch' cur' tags,
  tagged st rm tags -> state_after ls st rm b ch cur = Some (st', rm', b', ch', cur') ->
  tagged st' rm' (tags ++ entry_tags ls).
Proof.
  induction ls as [|x ls IH]; intros st rm b ch cur st' rm' b' ch' cur' tags H E.
  - cbn in E. inversion E; subst. unfold entry_tags. cbn. now rewrite app_nil_r.
  - unfold entry_tags. cbn [flat_map]. fold (entry_tags ls). rewrite app_assoc.
    destruct x as [pos|cs|cs|m]; cbn [state_after entry_tag] in *.
    + destruct ch as [|c ch0]; [discriminate|]. eapply IH; [|exact E].
      destruct (0 <? pos); [now apply tagged_bind | now apply tagged_push].
    + eapply IH; [|exact E]. now apply tagged_push.
    + rewrite app_nil_r. eapply IH; [|exact E]. exact H.
    + rewrite app_nil_r. eapply IH; [|exact E]. exact H.
Qed.

(* first() / last() at a site reached by run: the first entry the rule pushed / the last one pushed before the
   site, provided it belongs to a symbol with a position; nil / -1 when nothing has been pushed *)
Theorem first_last_bind : forall ca l1 ch start st rm b ch' cur base lhs pr,
  state_after l1 [] [] [] ch start = Some (st, rm, b, ch', cur) ->
  eval_ref ca rm (length st) (base ++ st) lhs RFirst pr =
    match st with
    | [] => absent_arg pr
    | e0 :: _ => if hd false (entry_tags l1) then entry_arg e0 pr else AErr 7
    end /\
  eval_ref ca rm (length st) (base ++ st) lhs RLast pr =
    match rev st with
    | [] => absent_arg pr
    | e1 :: _ => if hd false (rev (entry_tags l1)) then entry_arg e1 pr else AErr 7
    end.
Proof.
  intros ca l1 ch start st rm b ch' cur base lhs pr E.
  assert (T0 : tagged [] [] []) by (split; [reflexivity | intro i; now destruct i]).
  pose proof (state_after_tagged l1 [] [] [] ch start st rm b ch' cur [] T0 E) as [Hl Hi]. cbn [app] in *.
  split.
  - rewrite eval_first_binds. destruct st as [|e0 st']; [reflexivity|].
    rewrite Hi. destruct (entry_tags l1); [discriminate Hl | reflexivity].
  - rewrite eval_last_binds. destruct (rev st) as [|e1 r] eqn:Er; [reflexivity|].
    rewrite Hi, Hl.
    assert (Hn : forall (t : list bool), t <> [] -> nth (length t - 1) t false = hd false (rev t)).
    { intros t Ht. destruct (rev t) as [|x r'] eqn:Et.
      - exfalso. apply Ht. rewrite <- (rev_involutive t), Et. reflexivity.
      - assert (t = rev r' ++ [x]) by (rewrite <- (rev_involutive t), Et; reflexivity). subst t.
        rewrite app_length, rev_length. cbn [length hd]. rewrite app_nth2 by (rewrite rev_length; lia).
        rewrite rev_length. replace (length r' + 1 - 1 - length r') with 0 by lia. reflexivity. }
    rewrite Hn; [reflexivity|].
    intro Ht. rewrite Ht in Hl. cbn in Hl. apply length_zero_iff_nil in Hl. subst st. discriminate Er.
Qed.

(* ---------- pick chooses one of the expansions ---------- *)
Lemma in_multi_concat : forall xs ys x y, In x xs -> In y ys -> In (x ++ y) (multi_concat xs ys).
Proof.
  intros xs ys x y Hx Hy. unfold multi_concat. apply in_flat_map. exists x. split; [exact Hx|].
  apply in_map_iff. now exists y.
Qed.

Lemma pick_in_expand : forall p sel, In (fst (pick p sel)) (expand p).
Proof.
  induction p; intro sel; cbn [pick expand].
  - now left.
  - now left.
  - now left.
  - destruct sel as [|[|] r]; cbn [fst].
    + apply in_or_app. right. now left.
    + apply in_or_app. left. apply IHp.
    + apply in_or_app. right. now left.
  - specialize (IHp1 sel). destruct (pick p1 sel) as [x r] eqn:E1. specialize (IHp2 r).
    destruct (pick p2 r) as [y r2] eqn:E2. cbn [fst] in *. now apply in_multi_concat.
  - destruct sel as [|[|] r]; apply in_or_app; [left; apply IHp1 | right; apply IHp2 | left; apply IHp1].
  - apply IHp.
  - apply IHp.
  - now left.
  - now left.
Qed.

(* ---------- positions handed out by convert ---------- *)
Fixpoint positions (l : list item) : list nat :=
  match l with
  | [] => []
  | IRef p :: r => p :: positions r
  | ICmd _ :: r => positions r
  | IMark _ :: r => positions r
  end.

Lemma positions_app : forall a b, positions (a ++ b) = positions a ++ positions b.
Proof. induction a as [|[p|c|m] a IH]; intro b; cbn; [reflexivity| now rewrite IH | apply IH | apply IH]. Qed.

(* every position mentioned in an expansion of p lies in [lo, hi) *)
Definition within (lo hi : nat) (l : list item) : Prop := Forall (fun p => lo <= p < hi) (positions l).

(* strictly increasing list of naturals *)
Fixpoint incr_from (lo : nat) (l : list nat) : Prop :=
  match l with
  | [] => True
  | x :: r => lo <= x /\ incr_from (S x) r
  end.

Lemma incr_from_weaken : forall l lo lo', lo' <= lo -> incr_from lo l -> incr_from lo' l.
Proof. destruct l as [|x r]; intros lo lo' H I; [exact I|]. cbn in *. destruct I. split; [lia|assumption]. Qed.

Lemma incr_from_app : forall a b lo mid, lo <= mid ->
  incr_from lo a -> Forall (fun p => p < mid) a -> incr_from mid b -> incr_from lo (a ++ b).
Proof.
  induction a as [|x a IH]; intros b lo mid Hle Ia Fa Ib; cbn [app].
  - eapply incr_from_weaken; eauto.
  - cbn in Ia. destruct Ia as [Hx Ia]. inversion Fa; subst. cbn. split; [exact Hx|].
    eapply IH; eauto.
Qed.

Lemma incr_from_bound : forall l lo, incr_from lo l -> Forall (fun p => lo <= p) l.
Proof.
  induction l as [|x l IH]; intros lo I; [constructor|]. cbn in I. destruct I as [Hx I].
  constructor; [exact Hx|]. specialize (IH _ I). eapply Forall_impl; [|exact IH]. cbn. intros. lia.
Qed.

Lemma convert_pos_mono : forall p s, c_pos s <= c_pos (snd (convert p s)).
Proof.
  induction p; intro s; cbn [convert].
  - cbn. lia.
  - cbn [snd]. unfold push_name.
    destruct (nm_get _ (nm, Some 0%N)); [|destruct (nm_get _ (nm, None))]; unfold on_both; cbn;
      repeat (match goal with |- context [match ?x with _ => _ end] => destruct x end; cbn); lia.
  - cbn. lia.
  - specialize (IHp s). destruct (convert p s). cbn in *. exact IHp.
  - specialize (IHp1 s). destruct (convert p1 s) as [a' s1]. specialize (IHp2 s1).
    destruct (convert p2 s1) as [b' s2]. cbn in *. lia.
  - specialize (IHp1 s). destruct (convert p1 s) as [a' s1]. specialize (IHp2 s1).
    destruct (convert p2 s1) as [b' s2]. cbn in *. lia.
  - specialize (IHp (mkC (c_top s) ([] :: c_stack s) (c_pos s) (c_cmds s))).
    destruct (convert p _) as [q' s1]. cbn in *.
    destruct (c_stack s1) as [|child [|parent r]]; cbn; exact IHp.
  - specialize (IHp s). destruct (convert p s) as [q' s1]. cbn [snd] in *.
    destruct (collect q'); [exact IHp|].
    unfold push_name.
    destruct (nm_get _ (nm, Some 0%N)); [|destruct (nm_get _ (nm, None))]; unfold on_both; cbn;
      repeat (match goal with |- context [match ?x with _ => _ end] => destruct x end; cbn); lia.
  - cbn. lia.
  - cbn. lia.
Qed.

Lemma push_name_pos : forall s nm ps, c_pos (push_name s nm ps) = c_pos s.
Proof.
  intros s nm ps. unfold push_name.
  destruct (nm_get _ (nm, Some 0%N)); [|destruct (nm_get _ (nm, None))]; unfold on_both; cbn;
    repeat (match goal with |- context [match ?x with _ => _ end] => destruct x end; cbn); reflexivity.
Qed.

(* all expansions of a converted part use strictly increasing positions inside [c_pos before, c_pos after) *)
Lemma convert_expansions_increasing : forall p s x,
  In x (expand (fst (convert p s))) ->
  incr_from (c_pos s) (positions x) /\ Forall (fun q => q < c_pos (snd (convert p s))) (positions x).
Proof.
  induction p; intros s x Hin; cbn [convert] in *.
  - cbn in Hin. destruct Hin as [<-|[]]. cbn. split; constructor.
  - cbn [fst snd expand] in *. destruct Hin as [<-|[]]. rewrite push_name_pos. cbn.
    split; [split; [lia|exact I] | constructor; [lia|constructor]].
  - cbn [fst snd expand] in *. destruct Hin as [<-|[]]. cbn.
    split; [split; [lia|exact I] | constructor; [lia|constructor]].
  - specialize (IHp s). destruct (convert p s) as [q' s1]. cbn [fst snd expand] in *.
    apply in_app_or in Hin. destruct Hin as [Hin|[<-|[]]]; [now apply IHp|]. cbn. split; constructor.
  - pose proof (convert_pos_mono p1 s) as M1. specialize (IHp1 s).
    destruct (convert p1 s) as [a' s1]. pose proof (convert_pos_mono p2 s1) as M2. specialize (IHp2 s1).
    destruct (convert p2 s1) as [b' s2]. cbn [fst snd expand] in *.
    unfold multi_concat in Hin. apply in_flat_map in Hin. destruct Hin as (xa & Ha & Hin).
    apply in_map_iff in Hin. destruct Hin as (xb & <- & Hb).
    destruct (IHp1 xa Ha) as [I1 F1]. destruct (IHp2 xb Hb) as [I2 F2]. rewrite positions_app. split.
    + eapply incr_from_app; [exact M1| exact I1 | exact F1 | exact I2].
    + apply Forall_app. split; [|exact F2]. eapply Forall_impl; [|exact F1]. cbn. intros. lia.
  - pose proof (convert_pos_mono p1 s) as M1. specialize (IHp1 s).
    destruct (convert p1 s) as [a' s1]. pose proof (convert_pos_mono p2 s1) as M2. specialize (IHp2 s1).
    destruct (convert p2 s1) as [b' s2]. cbn [fst snd expand] in *.
    apply in_app_or in Hin. destruct Hin as [Ha|Hb].
    + destruct (IHp1 x Ha) as [I1 F1]. split; [exact I1|]. eapply Forall_impl; [|exact F1]. cbn. intros. lia.
    + destruct (IHp2 x Hb) as [I2 F2]. split; [|exact F2]. eapply incr_from_weaken; [|exact I2]. exact M1.
  - specialize (IHp (mkC (c_top s) ([] :: c_stack s) (c_pos s) (c_cmds s))).
    destruct (convert p _) as [q' s1]. cbn [fst snd expand] in *. specialize (IHp x Hin). cbn [c_pos] in IHp.
    destruct IHp as [I1 F1]. split; [exact I1|].
    destruct (c_stack s1) as [|child [|parent r]]; cbn; exact F1.
  - specialize (IHp s). destruct (convert p s) as [q' s1]. cbn [fst snd expand] in *.
    specialize (IHp x Hin). destruct IHp as [I1 F1]. split; [exact I1|].
    destruct (collect q'); [exact F1|]. now rewrite push_name_pos.
  - cbn [fst snd expand] in *. destruct Hin as [<-|[]]. cbn. split; constructor.
  - cbn [fst snd expand] in *. destruct Hin as [<-|[]]. cbn. split; constructor.
Qed.

Lemma incr_from_NoDup : forall l lo, incr_from lo l -> NoDup l.
Proof.
  induction l as [|x l IH]; intros lo I; [constructor|]. cbn in I. destruct I as [_ I]. constructor.
  - intro Hin. pose proof (incr_from_bound l (S x) I) as F. rewrite Forall_forall in F. specialize (F x Hin). lia.
  - eapply IH; exact I.
Qed.

(* every expansion of a rule mentions a position at most once, positions start at 1 and stay below MaxPos *)
Theorem expansion_positions_distinct : forall p x,
  In x (expand (fst (convert_rule p))) ->
  NoDup (positions x) /\ Forall (fun q => 1 <= q < c_pos (snd (convert_rule p))) (positions x).
Proof.
  intros p x Hin. unfold convert_rule in *. destruct (convert_expansions_increasing p _ x Hin) as [I F]. split.
  - eapply incr_from_NoDup; exact I.
  - apply incr_from_bound in I. cbn in I. rewrite Forall_forall in *. intros q Hq. split; [apply I|apply F]; exact Hq.
Qed.
