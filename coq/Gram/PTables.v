(* Parser tables (lalr.Tables: DefaultEnc and DisplacementEnc) and the way the generated parser reads
   them (go_parser.go.tmpl: lalr, gotoState, the Optimized branches).  Executable definitions only. *)
From Coq Require Import List ZArith Bool.
Import ListNotations.
Local Open Scope Z_scope.

Definition zn (l : list Z) (i : Z) : Z := if i <? 0 then -1000000 else nth (Z.to_nat i) l (-1000000).
Definition zlength (l : list Z) : Z := Z.of_nat (length l).

Record default_enc := mkDefaultEnc {
  d_action  : list Z;   (* -2 error, -1 shift, >= 0 rule, < -2: -3-index into Lalr *)
  d_lalr    : list Z;   (* pairs (terminal, action), rows end with terminal -1 *)
  d_goto    : list Z;   (* symbol -> index into FromTo *)
  d_from_to : list Z    (* pairs (from, to) *)
}.

Record disp_enc := mkDispEnc {
  o_def_goto : list Z;
  o_goto     : list Z;
  o_def_act  : list Z;
  o_action   : list Z;
  o_base     : Z;
  o_table    : list Z;
  o_check    : list Z
}.

(* ---- DefaultEnc.gotoState / template gotoState (non-optimized) ---- *)
Fixpoint goto_linear (fuel : nat) (ft : list Z) (i mx state : Z) : Z :=
  match fuel with
  | O => -1
  | S f => if i <? mx then (if zn ft i =? state then zn ft (i + 1) else goto_linear f ft (i + 2) mx state) else -1
  end.

Fixpoint goto_binary (fuel : nat) (ft : list Z) (mn mx state : Z) : Z :=
  match fuel with
  | O => -1
  | S f =>
    if mn <? mx then
      let e := Z.shiftr (mn + mx) 1 / 2 * 2 in       (* (min+max)>>1 &^ 1 *)
      let i := zn ft e in
      if i =? state then zn ft (e + 1)
      else if i <? state then goto_binary f ft (e + 2) mx state
      else goto_binary f ft mn e state
    else -1
  end.

Definition goto_state (t : default_enc) (state symbol : Z) : Z :=
  let mn := zn (d_goto t) symbol in
  let mx := zn (d_goto t) (symbol + 1) in
  let fuel := S (length (d_from_to t)) in
  if mx - mn <? 32 then goto_linear fuel (d_from_to t) mn mx state
  else goto_binary fuel (d_from_to t) mn mx state.

(* ---- template lalr(action, next) ---- *)
Fixpoint lalr_walk (fuel : nat) (l : list Z) (a next : Z) : Z :=
  match fuel with
  | O => -2
  | S f => if (zn l a >=? 0) && negb (zn l a =? next) then lalr_walk f l (a + 2) next else zn l (a + 1)
  end.

Definition lalr_lookup (t : default_enc) (action next : Z) : Z :=
  lalr_walk (S (length (d_lalr t))) (d_lalr t) (- action - 3) next.

(* ---- abstract action of a (state, terminal) cell ---- *)
Inductive act := Shift (q : Z) | Reduce (r : Z) | Err | Deep (row : Z) (* LALR(k) row, C07 *).

Definition act_eqb (x y : act) : bool :=
  match x, y with
  | Shift a, Shift b | Reduce a, Reduce b | Deep a, Deep b => a =? b
  | Err, Err => true
  | _, _ => false
  end.

(* what the non-optimized main loop does in [state] when the next terminal is [term] *)
Definition action_default (t : default_enc) (state term : Z) : act :=
  let a0 := zn (d_action t) state in
  let a := if a0 <? -2 then lalr_lookup t a0 term else a0 in
  if a >=? 0 then Reduce a
  else if a =? -1 then (let q := goto_state t state term in if q >=? 0 then Shift q else Err)
  else if a =? -2 then Err
  else Deep a.

(* raw Lalr cell: distinguishes an explicit error entry (nonassoc) from a missing one *)
Fixpoint lalr_find (fuel : nat) (l : list Z) (a next : Z) : option Z :=
  match fuel with
  | O => None
  | S f => if zn l a >=? 0 then (if zn l a =? next then Some (zn l (a + 1)) else lalr_find f l (a + 2) next) else None
  end.

(* ---- optimized decoding ---- *)
Definition action_opt (o : disp_enc) (state term : Z) : act :=
  let a0 := zn (o_action o) state in
  let a :=
    if a0 >? o_base o then
      let pos := a0 + term in
      if (pos >=? 0) && (pos <? zlength (o_table o)) && (zn (o_check o) pos =? term)
      then zn (o_table o) pos else zn (o_def_act o) state
    else zn (o_def_act o) state in
  if a >=? 0 then Reduce a else if a <? -1 then Shift (-2 - a) else Err.

Definition goto_opt (o : disp_enc) (terms : Z) (state symbol : Z) : Z :=
  let pos := zn (o_goto o) (symbol - terms) + state in
  if (pos >=? 0) && (pos <? zlength (o_table o)) && (zn (o_check o) pos =? state)
  then zn (o_table o) pos else zn (o_def_goto o) (symbol - terms).

(* the template's gotoState on a terminal for optimized tables (used by reduceAll / recovery) *)
Definition goto_opt_term (o : disp_enc) (state symbol : Z) : Z :=
  match action_opt o state symbol with Shift q => if zn (o_action o) state =? o_base o then -1 else q | _ => -1 end.
