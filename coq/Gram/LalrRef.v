(* Reference LALR(1) construction (naive): LR(0) collection by worklist over real kernels, lookahead sets
   as the least solution of the closure/goto propagation constraints, expected table cells.
   States are identified by their kernel like in textmapper; start states are the closures of the input
   nonterminals, final states are synthesized per input. *)
From Coq Require Import List ZArith Bool Arith.
From TM Require Import Gram.Cfg.
Import ListNotations.
Local Open Scope Z_scope.

Definition item := (Z * Z)%type.    (* (rule, dot) *)

Definition item_ltb (a b : item) : bool := (fst a <? fst b) || ((fst a =? fst b) && (snd a <? snd b)).
Definition item_eqb (a b : item) : bool := (fst a =? fst b) && (snd a =? snd b).
Fixpoint ins_item (x : item) (l : list item) : list item :=
  match l with
  | [] => [x]
  | y :: t => if item_ltb x y then x :: l else if item_eqb x y then l else y :: ins_item x t
  end.
Fixpoint items_eqb (a b : list item) : bool :=
  match a, b with [], [] => true | x :: a', y :: b' => item_eqb x y && items_eqb a' b' | _, _ => false end.
Definition mem_item (x : item) (l : list item) : bool := existsb (item_eqb x) l.

Definition sym_after (g : grammar) (it : item) : option Z :=
  nth_error (r_rhs (rule_at g (fst it))) (Z.to_nat (snd it)).

Definition rules_of (g : grammar) (nt : Z) : list Z :=
  flat_map (fun '(i, r) => if r_lhs r =? nt then [i] else [])
           (combine (map Z.of_nat (seq 0 (length (g_rules g)))) (g_rules g)).

(* closure of an item set; start states have an empty kernel and a seed nonterminal *)
Definition closure_step (g : grammar) (its : list item) : list item :=
  fold_left (fun acc it =>
      match sym_after g it with
      | Some s => if is_term g s then acc else fold_left (fun acc r => ins_item (r, 0) acc) (rules_of g s) acc
      | None => acc
      end) its its.

Definition closure (g : grammar) (kernel : list item) (seed : option Z) : list item :=
  let init := match seed with Some nt => fold_left (fun acc r => ins_item (r, 0) acc) (rules_of g nt) kernel | None => kernel end in
  iterate (S (Z.to_nat (g_nonterms g))) (closure_step g) init.

Record lstate := mkState {
  s_kernel : list item;
  s_seed : option Z;           (* Some nt for start states *)
  s_kind : Z                   (* 0 ordinary, 1 synthesized final ("last"), 2 after-EOI *)
}.

Definition state_eqb (a b : lstate) : bool :=
  items_eqb (s_kernel a) (s_kernel b) && (s_kind a =? s_kind b)
  && match s_seed a, s_seed b with Some x, Some y => x =? y | None, None => true | _, _ => false end.

Record automaton := mkAut {
  a_states : list lstate;
  a_trans : list (Z * Z * Z)      (* (from, symbol, to) *)
}.

Fixpoint find_state (s : lstate) (l : list lstate) (i : Z) : option Z :=
  match l with [] => None | x :: t => if state_eqb x s then Some i else find_state s t (i + 1) end.

Definition nsyms (g : grammar) : Z := g_terms g + g_nonterms g.
Definition zrange (n : Z) : list Z := map Z.of_nat (seq 0 (Z.to_nat n)).

(* process state number k: add goto targets in symbol order (as computeStates does) *)
Definition expand_state (g : grammar) (a : automaton) (k : Z) : automaton :=
  let st := nth (Z.to_nat k) (a_states a) (mkState [] None 0) in
  if negb (s_kind st =? 0) then a else
  let cl := closure g (s_kernel st) (s_seed st) in
  fold_left (fun a sym =>
      let kern := fold_left (fun acc it => match sym_after g it with
                                           | Some s => if s =? sym then ins_item (fst it, snd it + 1) acc else acc
                                           | None => acc end) cl [] in
      match kern with
      | [] => a
      | _ =>
          let tgt := mkState kern None 0 in
          match find_state tgt (a_states a) 0 with
          | Some j => mkAut (a_states a) (a_trans a ++ [(k, sym, j)])
          | None => mkAut (a_states a ++ [tgt]) (a_trans a ++ [(k, sym, Z.of_nat (length (a_states a)))])
          end
      end) (zrange (nsyms g)) a.

Fixpoint build_loop (fuel : nat) (g : grammar) (a : automaton) (k : Z) : automaton :=
  match fuel with
  | O => a
  | S f => if k <? Z.of_nat (length (a_states a)) then build_loop f g (expand_state g a k) (k + 1) else a
  end.

Definition trans_target (a : automaton) (from sym : Z) : option Z :=
  match find (fun '(f, s, _) => (f =? from) && (s =? sym)) (a_trans a) with Some (_, _, t) => Some t | None => None end.

(* final states: last_i = goto(start_i, S_i) or a synthesized state; after-EOI states for eoi inputs *)
Definition add_finals (g : grammar) (a : automaton) : automaton * list Z (* final states *) :=
  let '(a1, lasts) := fold_left (fun (acc : automaton * list Z) (x : Z * (Z * bool)) =>
      let '(a, lasts) := acc in let '(i, inp) := x in
      match trans_target a i (fst inp) with
      | Some t =>
          (* the accepting state must not be entered from anywhere else: the start state gets a private copy *)
          if existsb (fun '(f, _, t') => (t' =? t) && negb (f =? i)) (a_trans a) then
            let c := Z.of_nat (length (a_states a)) in
            let st := nth (Z.to_nat t) (a_states a) (mkState [] None 0) in
            let redirected := map (fun '(f, s, t') => if (f =? i) && (t' =? t) then (f, s, c) else (f, s, t')) (a_trans a) in
            let copied := flat_map (fun '(f, s, t') => if f =? t then [(c, s, t')] else []) (a_trans a) in
            (mkAut (a_states a ++ [st]) (redirected ++ copied), lasts ++ [c])
          else (a, lasts ++ [t])
      | None => let t := Z.of_nat (length (a_states a)) in
                (mkAut (a_states a ++ [mkState [] (Some (-1 - i)) 1]) (a_trans a ++ [(i, fst inp, t)]), lasts ++ [t])
      end) (combine (zrange (Z.of_nat (length (g_inputs g)))) (g_inputs g)) (a, ([] : list Z)) in
  fold_left (fun (acc : automaton * list Z) (x : Z * (Z * bool)) =>
      let '(a, finals) := acc in let '(i, inp) := x in
      let lst := nth (Z.to_nat i) lasts 0 in
      if snd inp then
        let t := Z.of_nat (length (a_states a)) in
        (mkAut (a_states a ++ [mkState [] (Some (-1 - i)) 2]) (a_trans a ++ [(lst, 0, t)]), finals ++ [t])
      else (a, finals ++ [lst]))
    (combine (zrange (Z.of_nat (length (g_inputs g)))) (g_inputs g)) (a1, ([] : list Z)).

Definition build_automaton (g : grammar) (fuel : nat) : automaton * list Z :=
  let starts := map (fun inp => mkState [] (Some (fst inp)) 0) (g_inputs g) in
  add_finals g (build_loop fuel g (mkAut starts []) 0).

(* ---------- LALR(1) lookaheads: least solution of the propagation constraints ---------- *)
Definition la_table := list ((Z * item) * list Z).     (* (state, item) -> lookahead terminals *)

Fixpoint la_get (t : la_table) (q : Z) (it : item) : list Z :=
  match t with [] => [] | ((q', it'), l) :: rest => if (q' =? q) && item_eqb it' it then l else la_get rest q it end.
Fixpoint la_add (t : la_table) (q : Z) (it : item) (l : list Z) : la_table :=
  match t with
  | [] => [((q, it), l)]
  | ((q', it'), l0) :: rest => if (q' =? q) && item_eqb it' it then ((q', it'), union l l0) :: rest
                               else ((q', it'), l0) :: la_add rest q it l
  end.

Definition all_terms (g : grammar) : list Z := zrange (g_terms g).

Definition la_round (g : grammar) (a : automaton) (nl : list Z) (ft : first_table) (t : la_table) : la_table :=
  fold_left (fun t '(q, st) =>
      let cl := closure g (s_kernel st) (s_seed st) in
      (* seed: the items of the input nonterminal in a start state see EOI (or every terminal) *)
      let t := match s_seed st with
               | Some nt => if s_kind st =? 0 then
                   let eoi := match nth_error (g_inputs g) (Z.to_nat q) with Some (_, e) => e | None => true end in
                   fold_left (fun t r => la_add t q (r, 0) (if eoi then [0] else all_terms g)) (rules_of g nt) t
                 else t
               | None => t end in
      fold_left (fun t it =>
          let l := la_get t q it in
          match sym_after g it with
          | None => t
          | Some s =>
              let rest := skipn (S (Z.to_nat (snd it))) (r_rhs (rule_at g (fst it))) in
              (* closure propagation *)
              let t := if is_term g s then t else
                         let '(f, n) := first_seq g nl (ft_get ft) rest in
                         let l' := if n then union f l else f in
                         fold_left (fun t r => la_add t q (r, 0) l') (rules_of g s) t in
              (* goto propagation *)
              match trans_target a q s with
              | Some q' => la_add t q' (fst it, snd it + 1) l
              | None => t
              end
          end) cl t) (combine (zrange (Z.of_nat (length (a_states a)))) (a_states a)) t.

Definition la_size (t : la_table) : nat := fold_left (fun n e => (n + length (snd e))%nat) t 0%nat.

Fixpoint la_fix (fuel : nat) (g : grammar) (a : automaton) (nl : list Z) (ft : first_table) (t : la_table) : la_table :=
  match fuel with
  | O => t
  | S f => let t' := la_round g a nl ft t in
           if Nat.eqb (la_size t') (la_size t) && Nat.eqb (length t') (length t) then t' else la_fix f g a nl ft t'
  end.

Definition lalr_la (g : grammar) (a : automaton) (fuel : nat) : la_table :=
  la_fix fuel g a (nullable_set g) (first_sets g) [].

(* ---------- what a state looks like from outside: kernel, reductions with lookaheads, shifts ---------- *)
Definition is_complete (g : grammar) (it : item) : bool :=
  match sym_after g it with None => true | Some _ => false end.

Definition state_reductions (g : grammar) (st : lstate) : list Z :=
  fold_left (fun acc it => if is_complete g it then ins (fst it) acc else acc) (closure g (s_kernel st) (s_seed st)) [].

Definition rule_len (g : grammar) (r : Z) : Z := Z.of_nat (length (r_rhs (rule_at g r))).

Definition state_la (g : grammar) (t : la_table) (q : Z) (st : lstate) (r : Z) : list Z :=
  la_get t q (r, rule_len g r).
