(* C19: a boolean check on the parser machine used by the crash-freedom / termination theorems for certified tables
   (RecoverSafe_proofs.v): recoverFromError reads gotoState(state, errSymbol) directly; the main loop reads the
   action of the cell.  check_err_goto: 'error' is a terminal and wherever gotoState finds a transition on it the
   action of that cell is the shift into the same state (so the entry recovery pushes continues a path of the
   automaton the C01 certificate describes).
   Executable definitions only. *)
From Coq Require Import List ZArith Bool.
From TM Require Import Gram.PTables Gram.Run Gram.Validator.
Import ListNotations.
Local Open Scope Z_scope.

Definition check_err_goto (m : machine) (nstates T err : Z) : bool :=
  (0 <=? err) && (err <? T) &&
  forallb (fun s => let q := m_goto m s err in (q =? -1) || act_eqb (m_act m s err []) (Shift q)) (zrange0 nstates).
