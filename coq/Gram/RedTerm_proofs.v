(* C19: soundness of the validator RedTerm.check_redterm: on a machine passing check_redterm and check_range, every
   configuration of the plain loop whose stack states are table states and whose next terminal is a terminal of
   the grammar admits at most (height + 1) * F + 2 consecutive reductions. *)
From Coq Require Import List ZArith Bool Arith Lia.
From TM Require Import Lib.ListX Gram.PTables Gram.Run Gram.Validator Gram.Validator_proofs Gram.Events Gram.Recover
  Gram.Recover_proofs Gram.Recover_progress Gram.RedTerm.
Import ListNotations.
Local Open Scope Z_scope.

Section R.
Variable p : rparams.
Variables nstates T NS : Z.
Variable F : nat.

Notation m := (rp_m p).
Notation eoi := (rp_eoi_off p).

Hypothesis Hnm : lalr1 p.
Hypothesis Hrt : check_redterm m nstates T NS F = true.
Hypothesis Hrg : check_range m nstates T NS = true.

Definition nsym (x : xconfig) : Z := t_sym (next_tok eoi (xc_input x)).

(* the configurations the validator speaks about *)
Definition xinv (x : xconfig) : Prop :=
  xc_stack x <> [] /\ Forall (fun e => 0 <= x_state e < nstates) (xc_stack x) /\
  xc_state x = x_state (hd xdummy (xc_stack x)) /\ 0 <= nsym x < T.

(* the shape every reduction leaves: the top state is a goto of the state below it *)
Definition formed (x : xconfig) : Prop :=
  exists e_t e_b rest A, xc_stack x = e_t :: e_b :: rest /\ x_state e_t = m_goto m (x_state e_b) A /\ 0 <= A < NS.

Lemma okst_iff s : okst nstates s = true <-> 0 <= s < nstates.
Proof. unfold okst. rewrite andb_true_iff, Z.leb_le, Z.ltb_lt. tauto. Qed.

Lemma L_rt a b A : 0 <= a < T -> 0 <= b < nstates -> 0 <= A < NS -> 0 <= m_goto m b A < nstates ->
  rt_sim F m a b [m_goto m b A] = true.
Proof.
  intros Ha Hb HA Ht. unfold check_redterm in Hrt. rewrite forallb_forall in Hrt.
  specialize (Hrt b (proj2 (in_zrange0 _ _) Hb)). rewrite forallb_forall in Hrt.
  specialize (Hrt A (proj2 (in_zrange0 _ _) HA)). cbv zeta in Hrt.
  rewrite (proj2 (okst_iff _) Ht) in Hrt. rewrite forallb_forall in Hrt.
  exact (Hrt a (proj2 (in_zrange0 _ _) Ha)).
Qed.

Lemma range_parts :
  1 <= T /\
  (forall s a, 0 <= s < nstates -> 0 <= a < T ->
     match m_act m s a [] with
     | Reduce r => 0 <= m_rule_sym m r < NS
     | Shift q => 0 <= q < nstates
     | _ => True end) /\
  (forall b A, 0 <= b < nstates -> 0 <= A < NS -> m_goto m b A = -1 \/ 0 <= m_goto m b A < nstates).
Proof.
  unfold check_range in Hrg. rewrite !andb_true_iff in Hrg. destruct Hrg as [[H1 H2] H3].
  split; [apply Z.leb_le; exact H1|]. split.
  - intros s a Hs Ha. rewrite forallb_forall in H2. specialize (H2 s (proj2 (in_zrange0 _ _) Hs)).
    rewrite forallb_forall in H2. specialize (H2 a (proj2 (in_zrange0 _ _) Ha)).
    destruct (m_act m s a []) as [q|r| |row]; try exact I.
    + apply okst_iff. exact H2.
    + rewrite andb_true_iff, Z.leb_le, Z.ltb_lt in H2. exact H2.
  - intros b A Hb HA. rewrite forallb_forall in H3. specialize (H3 b (proj2 (in_zrange0 _ _) Hb)).
    rewrite forallb_forall in H3. specialize (H3 A (proj2 (in_zrange0 _ _) HA)). cbv zeta in H3.
    rewrite orb_true_iff, Z.eqb_eq in H3. destruct H3 as [H3|H3]; [left; exact H3|right; apply okst_iff; exact H3].
Qed.

(* ---- when the plain loop does not reduce ---- *)
Lemma pr_other x : (forall r, m_act m (xc_state x) (nsym x) [] <> Reduce r) -> plain_reduce p x = None.
Proof.
  intros H. unfold plain_reduce. rewrite Hnm. fold (nsym x).
  destruct (m_act m (xc_state x) (nsym x) []) as [q|r| |row]; try reflexivity. exfalso. eapply H. reflexivity.
Qed.

Lemma pr_crash x rule : m_act m (xc_state x) (nsym x) [] = Reduce rule ->
  (length (xc_stack x) <= Z.to_nat (m_rule_len m rule))%nat -> plain_reduce p x = None.
Proof.
  intros Hact Hlen. unfold plain_reduce, xstep. rewrite Hnm. fold (nsym x). rewrite Hact.
  apply Nat.leb_le in Hlen. rewrite Hlen. reflexivity.
Qed.

Lemma pr_nogoto x rule : m_act m (xc_state x) (nsym x) [] = Reduce rule ->
  m_goto m (match skipn (Z.to_nat (m_rule_len m rule)) (xc_stack x) with b :: _ => x_state b | [] => -1 end)
           (m_rule_sym m rule) = -1 ->
  plain_reduce p x = None.
Proof.
  intros Hact Hst. unfold plain_reduce, xstep. rewrite Hnm. fold (nsym x). rewrite Hact.
  destruct (_ <=? _)%nat; [reflexivity|].
  destruct (lhs_range _ _) as [off endoff]. destruct (apply_rule _ _ _ _ _) as [evs endoff'].
  rewrite Hst. reflexivity.
Qed.

(* ---- one reduction keeps the invariant ---- *)
Lemma reduce_step x rule : xinv x -> m_act m (xc_state x) (nsym x) [] = Reduce rule ->
  let ln := Z.to_nat (m_rule_len m rule) in
  (ln < length (xc_stack x))%nat ->
  let below := match skipn ln (xc_stack x) with b :: _ => x_state b | [] => -1 end in
  let st := m_goto m below (m_rule_sym m rule) in
  st <> -1 ->
  exists x' e', plain_reduce p x = Some x' /\ xinv x' /\ formed x' /\ xc_input x' = xc_input x /\
    xc_stack x' = e' :: skipn ln (xc_stack x) /\ x_state e' = st.
Proof.
  intros (Hne & Hall & Hst0 & Ha) Hact ln Hlen below st Hst.
  destruct (rstep_reduce p (fun _ => true) Hnm x 0 [] (0, 0) rule Hact Hlen Hst) as (e' & evs & He' & Hpr & _).
  assert (He2 : x_state e' = st) by exact He'.
  assert (Hpr2 : plain_reduce p x = Some (mkXC (e' :: skipn ln (xc_stack x)) st (xc_input x) (xc_events x ++ evs))) by exact Hpr.
  clear He' Hpr. rename He2 into He'. rename Hpr2 into Hpr.
  destruct range_parts as (_ & Hred & Hgoto).
  assert (Hs : 0 <= xc_state x < nstates).
  { rewrite Hst0. destruct (xc_stack x) as [|e0 s0]; [congruence|]. inversion Hall; subst. exact H1. }
  specialize (Hred _ _ Hs Ha). rewrite Hact in Hred.
  pose proof (Forall_skipn' _ ln _ Hall) as Hall'.
  destruct (skipn ln (xc_stack x)) as [|e_b rest'] eqn:Esk.
  { exfalso. pose proof (skipn_length ln (xc_stack x)) as Hl. rewrite Esk in Hl. simpl in Hl. lia. }
  assert (Hb : 0 <= x_state e_b < nstates) by (inversion Hall'; subst; assumption).
  assert (Hstr : 0 <= st < nstates).
  { destruct (Hgoto (x_state e_b) (m_rule_sym m rule) Hb Hred) as [H|H]; [contradiction|exact H]. }
  eexists _, e'. split; [exact Hpr|]. split; [|split; [|split; [reflexivity|split; [reflexivity|exact He']]]].
  - unfold xinv. cbn [xc_stack xc_state xc_input]. split; [discriminate|]. split.
    + constructor; [rewrite He'; exact Hstr|exact Hall'].
    + split; [simpl; symmetry; exact He'|exact Ha].
  - exists e', e_b, rest', (m_rule_sym m rule). cbn [xc_stack]. split; [reflexivity|]. split; [exact He'|exact Hred].
Qed.

(* ---- the anchored phase of the validator, replayed on a real stack ---- *)
Lemma sim_lift a b N :
  forall f ab x Eab e_b rest,
  rt_sim f m a b ab = true ->
  xinv x -> xc_stack x = Eab ++ e_b :: rest -> map x_state Eab = ab -> ab <> [] -> x_state e_b = b -> nsym x = a ->
  (forall x', xinv x' -> formed x' -> (length (xc_stack x') <= S (length rest))%nat -> reduces_for p N x' = false) ->
  reduces_for p (f + N) x = false.
Proof.
  induction f as [|f IH]; intros ab x Eab e_b rest Hsim Hinv Hstk Hmap Hab Heb Hsym Hcont; [discriminate|].
  cbn [rt_sim] in Hsim. cbn [Nat.add reduces_for].
  assert (Htop : xc_state x = hd b ab).
  { destruct Hinv as (_ & _ & H & _). rewrite H, Hstk. destruct Eab as [|e0 E']; [simpl in Hmap; congruence|].
    subst ab. reflexivity. }
  rewrite <- Htop in Hsim. rewrite <- Hsym in Hsim.
  destruct (m_act m (xc_state x) (nsym x) []) as [q|rule| |row] eqn:Hact;
    try (rewrite pr_other; [reflexivity|intros r; rewrite Hact; discriminate]).
  set (ln := Z.to_nat (m_rule_len m rule)) in *.
  destruct (le_lt_dec (length (xc_stack x)) ln) as [Hle|Hlt]; [rewrite (pr_crash x rule Hact Hle); reflexivity|].
  set (below := match skipn ln (xc_stack x) with b0 :: _ => x_state b0 | [] => -1 end).
  destruct (Z.eq_dec (m_goto m below (m_rule_sym m rule)) (-1)) as [Est|Est];
    [rewrite (pr_nogoto x rule Hact Est); reflexivity|].
  destruct (reduce_step x rule Hinv Hact Hlt Est) as (x' & e' & Hpr & Hinv' & Hform' & Hin' & Hstk' & He').
  fold ln in Hstk'. fold ln in He'. fold below in He'. rewrite Hpr.
  assert (HlenE : length Eab = length ab) by (rewrite <- Hmap; symmetry; apply map_length).
  destruct (length ab <? ln)%nat eqn:Elt.
  - (* the reduction pops the anchor: a strictly lower stack *)
    apply Nat.ltb_lt in Elt. apply reduces_for_mono with (n := N); [|lia].
    apply Hcont; [exact Hinv'|exact Hform'|]. rewrite Hstk'. simpl. rewrite skipn_length, Hstk, app_length. simpl. lia.
  - apply Nat.ltb_ge in Elt.
    assert (Hsk : skipn ln (xc_stack x) = skipn ln Eab ++ e_b :: rest).
    { rewrite Hstk, skipn_app. replace (ln - length Eab)%nat with O by lia. reflexivity. }
    assert (Hbelow : below = hd b (skipn ln ab)).
    { unfold below. rewrite Hsk, <- Hmap, skipn_map. destruct (skipn ln Eab) as [|e1 E1]; simpl; [exact Heb|reflexivity]. }
    rewrite <- Hbelow in Hsim. apply Z.eqb_neq in Est. rewrite Est in Hsim. rewrite Hsym in Hsim.
    apply (IH (m_goto m below (m_rule_sym m rule) :: skipn ln ab) x' (e' :: skipn ln Eab) e_b rest Hsim Hinv').
    + rewrite Hstk', Hsk. reflexivity.
    + simpl. rewrite He', <- Hmap, skipn_map. reflexivity.
    + discriminate.
    + exact Heb.
    + unfold nsym. rewrite Hin'. exact Hsym.
    + exact Hcont.
Qed.

(* a stack of height <= h left by a reduction admits at most h * F further reductions *)
Theorem formed_bound : forall h x, xinv x -> formed x -> (length (xc_stack x) <= h)%nat ->
  reduces_for p (h * F + 1) x = false.
Proof.
  induction h as [|h IH]; intros x Hinv Hform Hlen.
  - destruct Hform as (e_t & e_b & rest & A & Hstk & _). rewrite Hstk in Hlen. simpl in Hlen. lia.
  - destruct Hform as (e_t & e_b & rest & A & Hstk & Ht & HA).
    pose proof Hinv as (_ & Hall & _ & Ha). rewrite Hstk in Hall.
    inversion Hall as [|? ? Het Hall1]; subst. inversion Hall1 as [|? ? Heb _]; subst.
    rewrite Ht in Het. pose proof (L_rt (nsym x) (x_state e_b) A Ha Heb HA Het) as Hsim.
    replace (S h * F + 1)%nat with (F + (h * F + 1))%nat by lia.
    apply (sim_lift (nsym x) (x_state e_b) (h * F + 1) F [m_goto m (x_state e_b) A] x [e_t] e_b rest Hsim Hinv).
    + exact Hstk.
    + simpl. rewrite Ht. reflexivity.
    + discriminate.
    + reflexivity.
    + reflexivity.
    + intros x' Hinv' Hform' Hlen'. apply IH; [exact Hinv'|exact Hform'|]. rewrite Hstk in Hlen. simpl in Hlen. lia.
Qed.

(* what a successful reduction produces *)
Lemma plain_reduce_inv x x' : xinv x -> plain_reduce p x = Some x' ->
  xinv x' /\ formed x' /\ xc_input x' = xc_input x /\ (length (xc_stack x') <= S (length (xc_stack x)))%nat.
Proof.
  intros Hinv Hpr.
  destruct (m_act m (xc_state x) (nsym x) []) as [q|rule| |row] eqn:Hact;
    try (rewrite pr_other in Hpr; [discriminate|intros r; rewrite Hact; discriminate]).
  destruct (le_lt_dec (length (xc_stack x)) (Z.to_nat (m_rule_len m rule))) as [Hle|Hlt];
    [rewrite (pr_crash x rule Hact Hle) in Hpr; discriminate|].
  destruct (Z.eq_dec (m_goto m (match skipn (Z.to_nat (m_rule_len m rule)) (xc_stack x) with b :: _ => x_state b | [] => -1 end)
                             (m_rule_sym m rule)) (-1)) as [Est|Est];
    [rewrite (pr_nogoto x rule Hact Est) in Hpr; discriminate|].
  destruct (reduce_step x rule Hinv Hact Hlt Est) as (x1 & e' & Hpr1 & Hinv' & Hform' & Hin' & Hstk' & _).
  rewrite Hpr in Hpr1. injection Hpr1 as <-.
  split; [exact Hinv'|]. split; [exact Hform'|]. split; [exact Hin'|].
  rewrite Hstk'. simpl. rewrite skipn_length. lia.
Qed.

(* every configuration of the invariant: at most (height + 1) * F + 2 consecutive reductions *)
Theorem redterm_bound x : xinv x -> reduces_for p (S (S (length (xc_stack x)) * F + 1)) x = false.
Proof.
  intros Hinv. cbn [reduces_for]. destruct (plain_reduce p x) as [x'|] eqn:Hpr; [|reflexivity].
  destruct (plain_reduce_inv x x' Hinv Hpr) as (Hinv' & Hform' & _ & Hlen).
  apply formed_bound; assumption.
Qed.

Corollary redterm_terminates x : xinv x -> exists n, reduces_for p n x = false.
Proof. intros H. eexists. apply redterm_bound. exact H. Qed.

End R.
