(* C19/C01: a third boolean validator, on the parser machine alone: "reductions terminate".
   Between two shifts the loop of the generated parser only reduces; the next terminal a stays fixed.
   Every reduction leaves a stack   goto(b, A) :: b :: ...   (b the entry below the popped handle).  From such a
   stack the following reductions depend only on (a, b, A) until one of them pops the entry b itself ("anchor"):
   they only read the states above b and the state b.  check_redterm runs this anchored phase for every
   terminal a, state b and symbol A with a goto, on the two-entry stack, and demands that it ends (the loop
   stops reducing, or the anchor is popped) within F steps.  A phase that pops its anchor leaves a strictly lower
   stack, hence (RedTerm_proofs.v) a stack of height h admits at most (h + 1) * F + 1 consecutive reductions.
   check_range: the tables only mention states below nstates and symbols below NS (so that the states on the
   stack stay inside the range the first check enumerates).
   Executable definitions only. *)
From Coq Require Import List ZArith Bool Arith.
From TM Require Import Gram.PTables Gram.Run Gram.Validator.
Import ListNotations.
Local Open Scope Z_scope.

Definition okst (nstates s : Z) : bool := (0 <=? s) && (s <? nstates).

(* the reductions above the anchor state b on lookahead a; ab = states above the anchor, top first.
   true: within the fuel the loop stops reducing (shift, error, missing goto) or a reduction pops the anchor *)
Fixpoint rt_sim (fuel : nat) (m : machine) (a b : Z) (ab : list Z) : bool :=
  match fuel with
  | O => false
  | S f =>
      match m_act m (hd b ab) a [] with
      | Reduce r =>
          let ln := Z.to_nat (m_rule_len m r) in
          if (length ab <? ln)%nat then true
          else
            let rest := skipn ln ab in
            let st := m_goto m (hd b rest) (m_rule_sym m r) in
            if st =? -1 then true else rt_sim f m a b (st :: rest)
      | _ => true
      end
  end.

Definition check_redterm (m : machine) (nstates T NS : Z) (F : nat) : bool :=
  forallb (fun b => forallb (fun A =>
      let t := m_goto m b A in
      if okst nstates t then forallb (fun a => rt_sim F m a b [t]) (zrange0 T) else true) (zrange0 NS)) (zrange0 nstates).

(* the number of steps the longest anchored phase takes (for the evidence; 0 when some phase needs more than F) *)
Fixpoint rt_steps (fuel : nat) (m : machine) (a b : Z) (ab : list Z) : option nat :=
  match fuel with
  | O => None
  | S f =>
      match m_act m (hd b ab) a [] with
      | Reduce r =>
          let ln := Z.to_nat (m_rule_len m r) in
          if (length ab <? ln)%nat then Some 1%nat
          else
            let rest := skipn ln ab in
            let st := m_goto m (hd b rest) (m_rule_sym m r) in
            if st =? -1 then Some 1%nat
            else match rt_steps f m a b (st :: rest) with Some k => Some (S k) | None => None end
      | _ => Some 1%nat
      end
  end.

Definition redterm_longest (m : machine) (nstates T NS : Z) (F : nat) : nat :=
  fold_left (fun acc b => fold_left (fun acc A =>
      let t := m_goto m b A in
      if okst nstates t
      then fold_left (fun acc a => match rt_steps F m a b [t] with Some k => Nat.max acc k | None => acc end) (zrange0 T) acc
      else acc) (zrange0 NS) acc) (zrange0 nstates) O.

(* shifts and gotos stay below nstates, reduced rules have their left-hand side below NS *)
Definition check_range (m : machine) (nstates T NS : Z) : bool :=
  (1 <=? T) &&
  forallb (fun s => forallb (fun a =>
      match m_act m s a [] with
      | Reduce r => (0 <=? m_rule_sym m r) && (m_rule_sym m r <? NS)
      | Shift q => okst nstates q
      | _ => true
      end) (zrange0 T)) (zrange0 nstates) &&
  forallb (fun b => forallb (fun A => let t := m_goto m b A in (t =? -1) || okst nstates t) (zrange0 NS)) (zrange0 nstates).

(* end-of-input is only shifted into the end state (states of the tables) *)
Definition check_eoi (m : machine) (nstates e : Z) : bool :=
  forallb (fun s => match m_act m s 0 [] with Shift q => q =? e | _ => true end) (zrange0 nstates).
