(* C20 (producer half): the events the fixWhitespace parse loop emits are well nested.
   The events of a derivation tree are spans of sub-forests of that tree: two of them are nested or disjoint
   and a container comes after its contents; events of different stack entries are disjoint and ordered.
   Hence ok_events / in_input (TreeBuilder.v) hold for the event stream of every run of Events.xrun with
   fixws = true, and the AST builder fed with it builds a well-formed forest with exactly the reported nodes. *)
From Coq Require Import List ZArith Bool Arith Lia Permutation.
From TM Require Import Lib.ListX Gram.PTables Gram.Run Gram.Events Gram.Events_proofs Gram.Events_strict Gram.Events_run
  Gram.TreeBuilder Gram.TreeBuilder_proofs.
Import ListNotations.
Local Open Scope Z_scope.

(* ---------- the reports of a rule are laminar: inner arrows first (generateTables: post-order traverse) ---------- *)
Definition rep_compat (a b : nat * nat * Z) : Prop :=
  let '(s1, e1, _) := a in let '(s2, e2, _) := b in
  (e1 <= s2 \/ e2 <= s1 \/ (s2 <= s1 /\ e1 <= e2))%nat.

Fixpoint reps_nested (l : list (nat * nat * Z)) : Prop :=
  match l with [] => True | a :: rest => Forall (rep_compat a) rest /\ reps_nested rest end.

Definition nested_table (evt : ev_table) : Prop := Forall (fun er => reps_nested (er_reports er)) evt.

Definition rep_compatb (a b : nat * nat * Z) : bool :=
  let '(s1, e1, _) := a in let '(s2, e2, _) := b in
  ((e1 <=? s2) || (e2 <=? s1) || ((s2 <=? s1) && (e1 <=? e2)))%nat.
Fixpoint reps_nestedb (l : list (nat * nat * Z)) : bool :=
  match l with [] => true | a :: rest => forallb (rep_compatb a) rest && reps_nestedb rest end.
Definition nested_tableb (evt : ev_table) : bool := forallb (fun er => reps_nestedb (er_reports er)) evt.

Lemma nested_tableb_sound evt : nested_tableb evt = true -> nested_table evt.
Proof.
  unfold nested_tableb, nested_table. rewrite forallb_forall, Forall_forall. intros H er Hin. specialize (H er Hin).
  induction (er_reports er) as [|a rest IH]; [exact I|]. simpl in H. apply andb_true_iff in H. destruct H as [H1 H2].
  split; [|apply IH; exact H2]. rewrite forallb_forall in H1. apply Forall_forall. intros b Hb. specialize (H1 b Hb).
  destruct a as [[s1 e1] t1], b as [[s2 e2] t2]. simpl in *.
  rewrite !orb_true_iff, andb_true_iff, !Nat.leb_le in H1. tauto.
Qed.

Lemma nested_table_at evt r : nested_table evt -> reps_nested (er_reports (ev_at evt r)).
Proof.
  intros H. unfold ev_at. destruct (nth_in_or_default (Z.to_nat r) evt (mkEvRule 0 [] false)) as [Hin|E]; [|rewrite E; exact I].
  unfold nested_table in H. rewrite Forall_forall in H. apply H. exact Hin.
Qed.

(* ---------- pairwise compatibility, Prop version of ok_events ---------- *)
Fixpoint okp (evs : list event) : Prop :=
  match evs with
  | [] => True
  | e :: rest => ev_off e <= ev_end e /\ Forall (fun b => compatible e b = true) rest /\ okp rest
  end.

Lemma okp_app a b : okp (a ++ b) <-> okp a /\ okp b /\ Forall (fun x => Forall (fun y => compatible x y = true) b) a.
Proof.
  induction a as [|e a IH]; simpl.
  - split; [intros H; repeat split; [exact H|constructor]|tauto].
  - rewrite IH, Forall_app. split.
    + intros (H1 & (H2 & H3) & H4 & H5 & H6). repeat split; auto.
    + intros ((H1 & H2 & H3) & H4 & H5). inversion H5; subst. repeat split; auto.
Qed.

Lemma ok_events_from_okp evs : forall seen,
  okp evs -> Forall (fun b => Forall (fun a => compatible a b = true) seen) evs -> ok_events_from seen evs = true.
Proof.
  induction evs as [|e rest IH]; intros seen Hok Hseen; [reflexivity|].
  simpl in Hok. destruct Hok as (H1 & H2 & H3). inversion Hseen as [|? ? Hs1 Hs2]; subst.
  simpl. rewrite !andb_true_iff. repeat split.
  - apply Z.leb_le. exact H1.
  - apply forallb_forall. rewrite Forall_forall in Hs1. exact Hs1.
  - apply IH; [exact H3|]. rewrite Forall_forall in *. intros b Hb. constructor; [apply H2; exact Hb|].
    apply Hs2. exact Hb.
Qed.

Lemma okp_ok_events evs : okp evs -> ok_events evs = true.
Proof.
  intros H. apply ok_events_from_okp; [exact H|]. apply Forall_forall. intros b _. constructor.
Qed.

Lemma compat_intro (a b : event) :
  ev_end a <= ev_off b \/ ev_end b <= ev_off a \/ (ev_off b <= ev_off a /\ ev_end a <= ev_end b) -> compatible a b = true.
Proof. unfold compatible. rewrite !orb_true_iff, andb_true_iff, !Z.leb_le. tauto. Qed.

(* ---------- spans of ordered leaf lists ---------- *)
Lemma ordered_snd_le ls : forall aft, ordered ls aft -> snd (span_of ls aft) <= aft.
Proof.
  induction ls as [|r rest IH]; intros aft Ho; [simpl; lia|].
  simpl in Ho. destruct Ho as (H1 & H2 & H3). destruct r as [o e]. destruct rest as [|r' rest'].
  - simpl in *. exact H2.
  - specialize (IH aft H3). destruct r' as [o' e']. exact IH.
Qed.

Lemma ordered_good ls aft : ordered ls aft ->
  fst (span_of ls aft) <= snd (span_of ls aft) <= aft /\ (fst (span_of ls aft) = snd (span_of ls aft) -> snd (span_of ls aft) = aft).
Proof.
  intros Ho. pose proof (ordered_snd_le _ _ Ho) as H1. destruct ls as [|r rest].
  - simpl. lia.
  - pose proof (ordered_span_lt _ _ Ho ltac:(discriminate)) as H2. lia.
Qed.

Lemma span_app_facts (a b : list (Z * Z)) aft : ordered (a ++ b) aft ->
  let A := span_of a (fst (span_of b aft)) in let B := span_of b aft in let C := span_of (a ++ b) aft in
  fst C = fst A /\
  fst A <= snd A <= fst B /\ (fst A = snd A -> snd A = fst B) /\
  fst B <= snd B <= aft /\ (fst B = snd B -> snd B = aft) /\
  ((fst B = snd B /\ snd C = snd A) \/ (fst B < snd B /\ snd C = snd B)) /\
  ordered a (fst B) /\ ordered b aft.
Proof.
  intros Ho. apply ordered_app in Ho. destruct Ho as [Ha Hb]. cbv zeta. rewrite span_app. cbn [fst snd].
  pose proof (ordered_good _ _ Ha) as Ga. pose proof (ordered_good _ _ Hb) as Gb.
  repeat split; try tauto; try lia.
  destruct b as [|r b'].
  - left. simpl. split; reflexivity.
  - right. pose proof (ordered_span_lt _ _ Hb ltac:(discriminate)). split; [lia|reflexivity].
Qed.

(* ---------- where the events of a tree lie ---------- *)
(* inside [lo, hi], or the empty range at the following token *)
Definition evb (lo hi aft : Z) (e : event) : Prop :=
  (lo <= ev_off e /\ ev_off e <= ev_end e /\ ev_end e <= hi) \/ (ev_off e = aft /\ ev_end e = aft).

Definition evs_in (S : range) (aft : Z) (evs : list event) : Prop := Forall (evb (fst S) (snd S) aft) evs.

(* the span of the middle part of L1 ++ L2 ++ L3, against events of the three parts and inside the whole *)
Lemma span3 (L1 L2 L3 : list (Z * Z)) aft : ordered (L1 ++ L2 ++ L3) aft ->
  let B3 := span_of L3 aft in let A2 := span_of L2 (fst B3) in let C23 := span_of (L2 ++ L3) aft in
  let A1 := span_of L1 (fst C23) in let C := span_of (L1 ++ L2 ++ L3) aft in
  (forall ty e, evb (fst A1) (snd A1) (fst C23) e \/ evb (fst A2) (snd A2) (fst B3) e \/ evb (fst B3) (snd B3) aft e ->
                compatible e (ty, fst A2, snd A2) = true) /\
  (forall ty, evb (fst C) (snd C) aft (ty, fst A2, snd A2)) /\ fst A2 <= snd A2.
Proof.
  intros Ho. pose proof (span_app_facts _ _ _ Ho) as F. cbv zeta in F.
  destruct F as (F1 & F2 & F3 & F4 & F5 & F6 & Ho1 & Ho23).
  pose proof (span_app_facts _ _ _ Ho23) as G. cbv zeta in G.
  destruct G as (G1 & G2 & G3 & G4 & G5 & G6 & Ho2 & Ho3).
  cbv zeta.
  set (B3 := span_of L3 aft) in *. set (A2 := span_of L2 (fst B3)) in *. set (C23 := span_of (L2 ++ L3) aft) in *.
  set (A1 := span_of L1 (fst C23)) in *. set (C := span_of (L1 ++ L2 ++ L3) aft) in *.
  clearbody B3 A2 C23 A1 C.
  split; [|split].
  - intros ty e He. apply compat_intro. unfold evb, ev_off, ev_end in *. cbn [fst snd] in *. lia.
  - intros ty. unfold evb, ev_off, ev_end. cbn [fst snd]. lia.
  - lia.
Qed.

Lemma span4_disjoint (L1 LM L2 LR : list (Z * Z)) aft : ordered (L1 ++ LM ++ L2 ++ LR) aft ->
  snd (span_of L1 (fst (span_of (LM ++ L2 ++ LR) aft))) <= fst (span_of L2 (fst (span_of LR aft))).
Proof.
  intros Ho. pose proof (span_app_facts _ _ _ Ho) as F. cbv zeta in F.
  destruct F as (F1 & F2 & F3 & F4 & F5 & F6 & Ho1 & Ho').
  pose proof (span_app_facts _ _ _ Ho') as G. cbv zeta in G.
  destruct G as (G1 & G2 & G3 & G4 & G5 & G6 & HoM & Ho'').
  pose proof (span_app_facts _ _ _ Ho'') as K. cbv zeta in K.
  destruct K as (K1 & K2 & K3 & K4 & K5 & K6 & Ho2 & HoR).
  lia.
Qed.

Lemma span4_nested (LX L1 LZ LR : list (Z * Z)) aft : ordered (LX ++ L1 ++ LZ ++ LR) aft ->
  let a := span_of L1 (fst (span_of (LZ ++ LR) aft)) in
  let b := span_of (LX ++ L1 ++ LZ) (fst (span_of LR aft)) in
  snd b <= fst a \/ (fst b <= fst a /\ snd a <= snd b).
Proof.
  intros Ho.
  assert (Ho2 : ordered ((LX ++ L1 ++ LZ) ++ LR) aft) by (rewrite <- !app_assoc; exact Ho).
  pose proof (span_app_facts _ _ _ Ho2) as F. cbv zeta in F.
  destruct F as (_ & _ & _ & _ & _ & _ & Hob & HoR).
  pose proof (span_app_facts _ _ _ Hob) as G. cbv zeta in G.
  destruct G as (G1 & G2 & G3 & G4 & G5 & G6 & HoX & Ho1Z).
  pose proof (span_app_facts _ _ _ Ho1Z) as K. cbv zeta in K.
  destruct K as (K1 & K2 & K3 & K4 & K5 & K6 & Ho1 & HoZ).
  assert (E : fst (span_of (LZ ++ LR) aft) = fst (span_of LZ (fst (span_of LR aft)))) by (rewrite span_app; reflexivity).
  cbv zeta. rewrite E. lia.
Qed.

Lemma forest_spec_app arrows P Q aft :
  forest_spec arrows (P ++ Q) aft = forest_spec arrows P (start_of Q aft) ++ forest_spec arrows Q aft.
Proof. induction P as [|c P IH]; simpl; [reflexivity|]. rewrite IH, start_of_app, app_assoc. reflexivity. Qed.

Definition seg {A} (l : list A) (i j : nat) : list A := firstn (j - i) (skipn i l).

Lemma seg_app {A} (l : list A) i j k : (i <= j)%nat -> (j <= k)%nat -> seg l i k = seg l i j ++ seg l j k.
Proof.
  intros Hij Hjk. unfold seg. replace (k - i)%nat with ((j - i) + (k - j))%nat by lia. rewrite firstn_add'.
  rewrite skipn_skipn'. replace (j - i + i)%nat with j by lia. reflexivity.
Qed.

Lemma skipn_seg {A} (l : list A) i j : (i <= j)%nat -> skipn i l = seg l i j ++ skipn j l.
Proof.
  intros Hij. unfold seg. rewrite <- (firstn_skipn (j - i) (skipn i l)) at 1. rewrite skipn_skipn'.
  replace (j - i + i)%nat with j by lia. reflexivity.
Qed.

Lemma arrow_event_split ch aft s e ty :
  arrow_event ch aft (s, e, ty) =
    (ty, fst (span_of (forest_leaves (seg ch s e)) (start_of (skipn e ch) aft)),
         snd (span_of (forest_leaves (seg ch s e)) (start_of (skipn e ch) aft))).
Proof. unfold arrow_event, seg. destruct (span_of _ _). reflexivity. Qed.

Lemma ordered_tail4 ch aft i1 i2 i3 i4 : (i1 <= i2)%nat -> (i2 <= i3)%nat -> (i3 <= i4)%nat ->
  ordered (forest_leaves ch) aft ->
  ordered (forest_leaves (seg ch i1 i2) ++ forest_leaves (seg ch i2 i3) ++ forest_leaves (seg ch i3 i4) ++
           forest_leaves (skipn i4 ch)) aft.
Proof.
  intros H12 H23 H34 Ho. rewrite <- (firstn_skipn i1 ch) in Ho.
  rewrite (skipn_seg ch i1 i2 H12), (skipn_seg ch i2 i3 H23), (skipn_seg ch i3 i4 H34) in Ho.
  rewrite !forest_leaves_app in Ho. apply ordered_app in Ho. exact (proj2 Ho).
Qed.

Lemma arrow_disjoint ch aft s1 e1 t1 s2 e2 t2 : ordered (forest_leaves ch) aft ->
  (s1 <= e1)%nat -> (e1 <= s2)%nat -> (s2 <= e2)%nat ->
  ev_end (arrow_event ch aft (s1, e1, t1)) <= ev_off (arrow_event ch aft (s2, e2, t2)).
Proof.
  intros Ho H1 H2 H3. rewrite !arrow_event_split. unfold ev_end, ev_off. cbn [fst snd].
  pose proof (ordered_tail4 ch aft s1 e1 s2 e2 H1 H2 H3 Ho) as Ho'.
  rewrite (skipn_seg ch e1 s2 H2), (skipn_seg ch s2 e2 H3).
  unfold start_of. rewrite !forest_leaves_app. exact (span4_disjoint _ _ _ _ _ Ho').
Qed.

Lemma arrow_nested ch aft s1 e1 t1 s2 e2 t2 : ordered (forest_leaves ch) aft ->
  (s2 <= s1)%nat -> (s1 <= e1)%nat -> (e1 <= e2)%nat ->
  let a := arrow_event ch aft (s1, e1, t1) in let b := arrow_event ch aft (s2, e2, t2) in
  ev_end b <= ev_off a \/ (ev_off b <= ev_off a /\ ev_end a <= ev_end b).
Proof.
  intros Ho H1 H2 H3. cbv zeta. rewrite !arrow_event_split. unfold ev_end, ev_off. cbn [fst snd].
  pose proof (ordered_tail4 ch aft s2 s1 e1 e2 H1 H2 H3 Ho) as Ho'.
  rewrite (skipn_seg ch e1 e2 H3).
  rewrite (seg_app ch s2 s1 e2) by lia. rewrite (seg_app ch s1 e1 e2) by lia.
  unfold start_of. rewrite !forest_leaves_app. exact (span4_nested _ _ _ _ _ Ho').
Qed.

Lemma arrow_pair ch aft s1 e1 t1 s2 e2 t2 : ordered (forest_leaves ch) aft ->
  (s1 <= e1)%nat -> (s2 <= e2)%nat -> rep_compat (s1, e1, t1) (s2, e2, t2) ->
  compatible (arrow_event ch aft (s1, e1, t1)) (arrow_event ch aft (s2, e2, t2)) = true.
Proof.
  intros Ho H1 H2 Hc. simpl in Hc. apply compat_intro. destruct Hc as [Hc|[Hc|[Hc1 Hc2]]].
  - left. apply arrow_disjoint; assumption.
  - right. left. apply arrow_disjoint; assumption.
  - right. pose proof (arrow_nested ch aft s1 e1 t1 s2 e2 t2 Ho Hc1 H1 Hc2) as H. cbv zeta in H. tauto.
Qed.

Definition rep_in (n : nat) (rep : nat * nat * Z) : Prop := let '(s, e, _) := rep in (s <= e)%nat /\ (e <= n)%nat.

Lemma reps_nested_snoc l x : reps_nested l -> Forall (fun a => rep_compat a x) l -> reps_nested (l ++ [x]).
Proof.
  induction l as [|a l IH]; intros Hn Hx; simpl; [split; [constructor|exact I]|].
  destruct Hn as [Hn1 Hn2]. inversion Hx; subst. split; [apply Forall_app; split; [exact Hn1|constructor; [assumption|constructor]]|].
  apply IH; assumption.
Qed.

(* ---------- leaf lists in which the end-of-input leaves (empty ranges) may occur ---------- *)
Fixpoint wordered (ls : list (Z * Z)) (aft : Z) : Prop :=
  match ls with
  | [] => True
  | r :: rest => fst r <= snd r /\ snd r <= fst (span_of rest aft) /\ wordered rest aft
  end.

Lemma wordered_app (a b : list (Z * Z)) aft : wordered (a ++ b) aft <-> wordered a (fst (span_of b aft)) /\ wordered b aft.
Proof. induction a as [|r a IH]; simpl; [tauto|]. rewrite IH, span_app. simpl. tauto. Qed.

Lemma ordered_wordered ls : forall aft, ordered ls aft -> wordered ls aft.
Proof. induction ls as [|r ls IH]; intros aft H; [exact I|]. simpl in *. destruct H as (H1 & H2 & H3). repeat split; auto; lia. Qed.

Lemma wordered_ne ls : forall aft, wordered ls aft -> Forall (fun r => fst r < snd r) ls -> ordered ls aft.
Proof.
  induction ls as [|r ls IH]; intros aft H Hne; [exact I|]. simpl in *. destruct H as (H1 & H2 & H3).
  inversion Hne; subst. repeat split; auto.
Qed.

Lemma wordered_fst_le ls : forall aft, wordered ls aft -> fst (span_of ls aft) <= aft.
Proof.
  induction ls as [|r ls IH]; intros aft H; [simpl; lia|]. simpl in H. destruct H as (H1 & H2 & H3).
  specialize (IH aft H3). destruct r as [o e]. simpl in *. lia.
Qed.

Lemma span_fst_ge lo (ls : list (Z * Z)) aft : Forall (fun r => lo <= fst r) ls -> lo <= aft -> lo <= fst (span_of ls aft).
Proof. intros H Ha. destruct ls as [|[o e] rest]; [exact Ha|]. inversion H; subst. assumption. Qed.

Lemma wordered_repeat E k : wordered (repeat (E, E) k) E /\ fst (span_of (repeat (E, E) k) E) = E.
Proof.
  induction k as [|k [IH1 IH2]]; [split; [exact I|reflexivity]|]. split; [|reflexivity].
  simpl. rewrite IH2. repeat split; [lia|lia|exact IH1].
Qed.

Lemma ordered_Forall_ne ls : forall aft, ordered ls aft -> Forall (fun r => fst r < snd r) ls.
Proof. induction ls as [|r ls IH]; intros aft H; constructor; simpl in H; [tauto|]. apply (IH aft). tauto. Qed.

Lemma next_off_span E inp : t_off (next_tok E inp) = fst (span_of (map tok_range inp) E).
Proof. destruct inp as [|t rest]; reflexivity. Qed.

Definition is_leaf (t : tree) : Prop := match t with TLeaf _ _ _ => True | TNode _ _ => False end.

Section Nest.
Variable evt : ev_table.
Variable rl : Z -> Z.
Notation arrows := (arrows_of_ev rl evt).
Hypothesis Hnested : nested_table evt.

Definition nest_at (t : tree) : Prop :=
  wf_tree evt rl t -> forall aft, ordered (leaves t) aft ->
  okp (spec_events arrows t aft) /\ evs_in (span_of (leaves t) aft) aft (spec_events arrows t aft).

Lemma forest_nest ch : Forall nest_at ch -> Forall (wf_tree evt rl) ch ->
  forall aft, ordered (forest_leaves ch) aft ->
  okp (forest_spec arrows ch aft) /\ evs_in (span_of (forest_leaves ch) aft) aft (forest_spec arrows ch aft).
Proof.
  induction ch as [|c rest IH]; intros Hn Hw aft Ho.
  - simpl. split; [exact I|constructor].
  - inversion Hn as [|? ? Hnc Hnr]; subst. inversion Hw as [|? ? Hwc Hwr]; subst.
    assert (EC : forest_leaves (c :: rest) = leaves c ++ forest_leaves rest) by reflexivity.
    rewrite EC in *. clear EC.
    pose proof (span_app_facts _ _ _ Ho) as F. cbv zeta in F.
    destruct F as (F1 & F2 & F3 & F4 & F5 & F6 & Hoc & Hor).
    destruct (Hnc Hwc _ Hoc) as [Okc Inc]. destruct (IH Hnr Hwr _ Hor) as [Okr Inr].
    simpl forest_spec. change (start_of rest aft) with (fst (span_of (forest_leaves rest) aft)).
    set (A := span_of (leaves c) (fst (span_of (forest_leaves rest) aft))) in *.
    set (B := span_of (forest_leaves rest) aft) in *.
    set (C := span_of (leaves c ++ forest_leaves rest) aft) in *.
    change (fst C = fst A) in F1.
    change ((fst B = snd B /\ snd C = snd A) \/ (fst B < snd B /\ snd C = snd B)) in F6.
    clearbody A B C.
    unfold evs_in in *. split.
    + apply okp_app. split; [exact Okc|]. split; [exact Okr|].
      rewrite Forall_forall in *. intros x Hx. apply Forall_forall. intros y Hy. specialize (Inc x Hx). specialize (Inr y Hy).
      apply compat_intro. unfold evb in *. lia.
    + apply Forall_app. split.
      * eapply Forall_impl; [|exact Inc]. intros e He. unfold evb in *. lia.
      * eapply Forall_impl; [|exact Inr]. intros e He. unfold evb in *. lia.
Qed.

Lemma arrow_vs_forest ch aft s e ty : Forall nest_at ch -> Forall (wf_tree evt rl) ch ->
  ordered (forest_leaves ch) aft -> (s <= e)%nat -> (e <= length ch)%nat ->
  Forall (fun x => compatible x (arrow_event ch aft (s, e, ty)) = true) (forest_spec arrows ch aft) /\
  evb (fst (span_of (forest_leaves ch) aft)) (snd (span_of (forest_leaves ch) aft)) aft (arrow_event ch aft (s, e, ty)) /\
  ev_off (arrow_event ch aft (s, e, ty)) <= ev_end (arrow_event ch aft (s, e, ty)).
Proof.
  intros Hn Hw Ho Hse Hel. rewrite arrow_event_split. unfold seg.
  pose proof (split3 ch s e Hse Hel) as Ech.
  set (pre := firstn s ch) in *. set (seg := firstn (e - s) (skipn s ch)) in *. set (post := skipn e ch) in *.
  clearbody pre seg post. subst ch.
  apply Forall_app in Hn. destruct Hn as [Hn1 Hn]. apply Forall_app in Hn. destruct Hn as [Hn2 Hn3].
  apply Forall_app in Hw. destruct Hw as [Hw1 Hw]. apply Forall_app in Hw. destruct Hw as [Hw2 Hw3].
  rewrite !forest_spec_app. unfold start_of. rewrite !forest_leaves_app in *.
  set (L1 := forest_leaves pre) in *. set (L2 := forest_leaves seg) in *. set (L3 := forest_leaves post) in *.
  pose proof (span_app_facts _ _ _ Ho) as F. cbv zeta in F. destruct F as (_ & _ & _ & _ & _ & _ & Ho1 & Ho23).
  pose proof (span_app_facts _ _ _ Ho23) as G. cbv zeta in G. destruct G as (_ & _ & _ & _ & _ & _ & Ho2 & Ho3).
  destruct (forest_nest pre Hn1 Hw1 _ Ho1) as [_ In1].
  destruct (forest_nest seg Hn2 Hw2 _ Ho2) as [_ In2].
  destruct (forest_nest post Hn3 Hw3 _ Ho3) as [_ In3].
  fold L1 in In1. fold L2 in In2. fold L3 in In3. unfold evs_in in *.
  destruct (span3 L1 L2 L3 aft Ho) as (S1 & S2 & S3). cbv zeta in S1, S2.
  split; [|split].
  - rewrite !Forall_app. repeat split; apply Forall_forall; intros x Hx; apply S1.
    + left. rewrite Forall_forall in In1. apply In1. exact Hx.
    + right. left. rewrite Forall_forall in In2. apply In2. exact Hx.
    + right. right. rewrite Forall_forall in In3. apply In3. exact Hx.
  - apply S2.
  - unfold ev_off, ev_end. cbn [fst snd]. exact S3.
Qed.

Lemma arrows_okp ch aft : Forall nest_at ch -> Forall (wf_tree evt rl) ch -> ordered (forest_leaves ch) aft ->
  forall ars, Forall (rep_in (length ch)) ars -> reps_nested ars -> okp (map (arrow_event ch aft) ars).
Proof.
  intros Hn Hw Ho ars. induction ars as [|a ars IH]; intros Hin Hne; [exact I|].
  inversion Hin as [|? ? Ha Hrest]; subst. destruct Hne as [Hne1 Hne2]. simpl.
  destruct a as [[s1 e1] t1]. destruct Ha as [Ha1 Ha2].
  split; [apply (arrow_vs_forest ch aft s1 e1 t1 Hn Hw Ho Ha1 Ha2)|]. split; [|apply IH; assumption].
  apply Forall_forall. intros y Hy. apply in_map_iff in Hy. destruct Hy as ([[s2 e2] t2] & <- & Hy).
  rewrite Forall_forall in Hne1, Hrest. specialize (Hne1 _ Hy). specialize (Hrest _ Hy). destruct Hrest as [Hb1 Hb2].
  apply arrow_pair; assumption.
Qed.

Theorem tree_nest t : nest_at t.
Proof.
  induction t as [s o e | r ch IH] using tree_ind2; intros Hw aft Ho.
  - simpl. split; [exact I|constructor].
  - inversion Hw as [| ? ? Hwch Hr0 Hlen Hreps Hlast]; subst.
    rewrite leaves_node in *. rewrite spec_events_node, (arrows_at_of_ev _ _ _ Hr0).
    set (ars := er_reports (ev_at evt r) ++
                (if er_type (ev_at evt r) =? 0 then [] else [(O, Z.to_nat (rl r), er_type (ev_at evt r))])).
    assert (Hin : Forall (rep_in (length ch)) ars).
    { unfold ars. apply Forall_app. split.
      - eapply Forall_impl; [|exact Hreps]. intros [[s e] ty] (H1 & H2 & _). split; assumption.
      - destruct (er_type (ev_at evt r) =? 0); constructor; [|constructor]. simpl. lia. }
    assert (Hne : reps_nested ars).
    { unfold ars. destruct (er_type (ev_at evt r) =? 0).
      - rewrite app_nil_r. apply nested_table_at. exact Hnested.
      - apply reps_nested_snoc; [apply nested_table_at; exact Hnested|].
        eapply Forall_impl; [|exact Hreps]. intros [[s e] ty] (H1 & H2 & _). simpl. lia. }
    clearbody ars.
    destruct (forest_nest ch IH Hwch aft Ho) as [Okf Inf].
    split.
    + apply okp_app. split; [exact Okf|]. split; [apply arrows_okp; assumption|].
      apply Forall_forall. intros x Hx. apply Forall_forall. intros y Hy.
      apply in_map_iff in Hy. destruct Hy as ([[s e] ty] & <- & Hy).
      rewrite Forall_forall in Hin. destruct (Hin _ Hy) as [H1 H2].
      destruct (arrow_vs_forest ch aft s e ty IH Hwch Ho H1 H2) as (Hc & _ & _).
      rewrite Forall_forall in Hc. apply Hc. exact Hx.
    + unfold evs_in. apply Forall_app. split; [exact Inf|].
      apply Forall_forall. intros y Hy. apply in_map_iff in Hy. destruct Hy as ([[s e] ty] & <- & Hy).
      rewrite Forall_forall in Hin. destruct (Hin _ Hy) as [H1 H2].
      apply (arrow_vs_forest ch aft s e ty IH Hwch Ho H1 H2).
Qed.

(* the events of the whole stack: entries are ordered and disjoint *)
Lemma sok_nest E lo : forall st aft evs lvs, sok evt true st aft evs lvs ->
  Forall (fun e => wf_tree evt rl (x_tree e)) st ->
  Forall (fun e => is_leaf (x_tree e) \/ ~ In (E, E) (leaves (x_tree e))) st ->
  Forall (fun r => fst r < snd r \/ r = (E, E)) lvs ->
  Forall (fun r => lo <= fst r) lvs -> lo <= aft ->
  wordered lvs aft ->
  okp evs /\ Forall (fun ev => lo <= ev_off ev /\ ev_off ev <= ev_end ev /\ ev_end ev <= aft) evs.
Proof.
  intros st aft evs lvs Hs. induction Hs as [b after | e rest after evs_b lvs_b evs_e Hrest IH Hrun];
    intros Hwf Hlf Hne Hlo Hla Hw.
  - split; [exact I|constructor].
  - inversion Hwf as [|? ? Hwe Hwr]; subst. inversion Hlf as [|? ? Hle Hlr]; subst.
    apply Forall_app in Hne. destruct Hne as [Hne_b Hne_e]. apply Forall_app in Hlo. destruct Hlo as [Hlo_b Hlo_e].
    apply wordered_app in Hw. destruct Hw as [Hw_b Hw_e].
    rewrite start_of_single in IH.
    set (t := x_tree e) in *. set (aft' := fst (span_of (leaves t) after)) in *.
    assert (Hl1 : lo <= aft') by (apply span_fst_ge; assumption).
    assert (Hl2 : aft' <= after) by (apply wordered_fst_le; exact Hw_e).
    destruct (IH Hwr Hlr Hne_b Hlo_b Hl1 Hw_b) as [Okb Inb].
    assert (He : okp evs_e /\ Forall (fun ev => (aft' <= ev_off ev /\ ev_off ev <= ev_end ev /\ ev_end ev <= after)) evs_e).
    { destruct t as [s o en | r ch] eqn:Et.
      - apply (f_equal snd) in Hrun. simpl in Hrun. subst evs_e. split; [exact I|constructor].
      - destruct Hle as [[]|Hle].
        assert (Ho : ordered (leaves (TNode r ch)) after).
        { apply wordered_ne; [exact Hw_e|]. rewrite Forall_forall in *. intros x Hx.
          destruct (Hne_e x Hx) as [H|H]; [exact H|]. subst x. contradiction. }
        rewrite (tree_run_strict evt rl _ Hwe _ Ho) in Hrun. apply (f_equal snd) in Hrun. simpl in Hrun. subst evs_e.
        destruct (tree_nest _ Hwe _ Ho) as [Ok In]. split; [exact Ok|].
        pose proof (ordered_good _ _ Ho) as G. fold aft' in G.
        eapply Forall_impl; [|exact In]. intros ev Hev. unfold evb in Hev. fold aft' in Hev. lia. }
    destruct He as [Oke Ine]. split.
    + apply okp_app. split; [exact Okb|]. split; [exact Oke|].
      apply Forall_forall. intros x Hx. apply Forall_forall. intros y Hy.
      rewrite Forall_forall in Inb, Ine. specialize (Inb x Hx). specialize (Ine y Hy). apply compat_intro. lia.
    + apply Forall_app. split; (eapply Forall_impl; [|eassumption]); intros ev Hev; cbv beta in *; lia.
Qed.

End Nest.

(* The events of EVERY run of the fixWhitespace loop (accepted or not, at whatever point it stops) are well nested
   and lie inside the input. *)
Theorem xrun_events_nested m evt rl eoi_off fuel start end_state input o c' :
  nested_table evt ->
  Forall (fun t => t_sym t <> 0) input ->
  ordered (map tok_range input) eoi_off ->
  Forall (fun t => 0 <= t_off t) input -> 0 <= eoi_off ->
  xrun fuel m evt true start end_state eoi_off input = (o, c') ->
  Forall (fun e => wf_tree evt rl (x_tree e)) (xc_stack c') ->
  Forall (fun e => is_leaf (x_tree e) \/ ~ In (eoi_off, eoi_off) (leaves (x_tree e))) (xc_stack c') ->
  ok_events (xc_events c') = true /\ in_input eoi_off (xc_events c') = true.
Proof.
  intros Hnest Hnz Hord Hpos Hpos0 Hrun Hwf Hlf. unfold xrun in Hrun.
  assert (Hinv : xinv evt true eoi_off input c').
  { eapply xrun_inv; [apply xinv_init; exact Hnz|exact Hrun]. }
  destruct Hinv as (_ & lvs & k & Hs & Hstream & _).
  set (E := eoi_off) in *.
  assert (W : wordered (map tok_range input ++ repeat (E, E) k) E).
  { apply wordered_app. destruct (wordered_repeat E k) as [W1 W2]. rewrite W2. split; [apply ordered_wordered; exact Hord|exact W1]. }
  assert (N : Forall (fun r => fst r < snd r \/ r = (E, E)) (map tok_range input ++ repeat (E, E) k)).
  { apply Forall_app. split.
    - eapply Forall_impl; [|exact (ordered_Forall_ne _ _ Hord)]. intros r Hr. left. exact Hr.
    - apply Forall_forall. intros r Hr. right. apply repeat_spec in Hr. exact Hr. }
  assert (P : Forall (fun r => 0 <= fst r) (map tok_range input ++ repeat (E, E) k)).
  { apply Forall_app. split.
    - apply Forall_forall. intros r Hr. apply in_map_iff in Hr. destruct Hr as (t & <- & Ht).
      rewrite Forall_forall in Hpos. simpl. apply Hpos. exact Ht.
    - apply Forall_forall. intros r Hr. apply repeat_spec in Hr. subst r. exact Hpos0. }
  rewrite <- Hstream in W, N, P.
  apply wordered_app in W. destruct W as [W1 W2]. apply Forall_app in N. destruct N as [N1 _].
  apply Forall_app in P. destruct P as [P1 P2].
  unfold next_off in Hs. rewrite next_off_span in Hs.
  set (aft := fst (span_of (map tok_range (xc_input c')) E)) in *.
  assert (Ha0 : 0 <= aft) by (apply span_fst_ge; assumption).
  assert (Ha1 : aft <= E) by (apply wordered_fst_le; exact W2).
  destruct (sok_nest evt rl Hnest E 0 _ _ _ _ Hs Hwf Hlf N1 P1 Ha0 W1) as [Ok In].
  split; [apply okp_ok_events; exact Ok|].
  unfold in_input. apply forallb_forall. intros ev Hev. rewrite Forall_forall in In. specialize (In ev Hev).
  rewrite andb_true_iff, !Z.leb_le. lia.
Qed.

(* hence the AST builder fed by the parser builds a well-formed forest with exactly the reported nodes *)
Theorem xrun_builder_correct m evt rl eoi_off fuel start end_state input o c' :
  nested_table evt ->
  Forall (fun t => t_sym t <> 0) input ->
  ordered (map tok_range input) eoi_off ->
  Forall (fun t => 0 <= t_off t) input -> 0 <= eoi_off ->
  xrun fuel m evt true start end_state eoi_off input = (o, c') ->
  Forall (fun e => wf_tree evt rl (x_tree e)) (xc_stack c') ->
  Forall (fun e => is_leaf (x_tree e) \/ ~ In (eoi_off, eoi_off) (leaves (x_tree e))) (xc_stack c') ->
  wf_forest (rev (build (xc_events c'))) = true /\
  Permutation (forest_nodes (rev (build (xc_events c')))) (xc_events c').
Proof.
  intros. apply builder_correct. eapply xrun_events_nested; eauto.
Qed.

(* ---------- the end-of-input leaf is only a stack entry of its own, if EOI is only shifted into the end state ---------- *)
Definition eoi_stops (m : machine) (end_state : Z) : Prop := forall s more q, m_act m s 0 more = Shift q -> q = end_state.

Section EoiLeaf.
Variable m : machine.
Variable evt : ev_table.
Variable fixws : bool.
Variable E : Z.
Variable end_state : Z.
Hypothesis Heoi : eoi_stops m end_state.

Definition noE (t : tree) : Prop := ~ In (E, E) (leaves t).

Inductive above_ok : list xentry -> Prop :=
| ab_bot b : is_leaf (x_tree b) -> above_ok [b]
| ab_cons e rest : noE (x_tree e) -> above_ok rest -> above_ok (e :: rest).

Definition weak_ok (st : list xentry) : Prop := Forall (fun e => is_leaf (x_tree e) \/ noE (x_tree e)) st.

Lemma above_weak st : above_ok st -> weak_ok st.
Proof. induction 1; constructor; auto; constructor. Qed.

Lemma above_skipn n : forall st, above_ok st -> (n < length st)%nat -> above_ok (skipn n st).
Proof.
  induction n as [|n IH]; intros st H Hl; [exact H|]. inversion H; subst; simpl in Hl; [lia|]. simpl. apply IH; [assumption|lia].
Qed.

Lemma above_firstn_noE n : forall st, above_ok st -> (n < length st)%nat ->
  ~ In (E, E) (forest_leaves (map x_tree (rev (firstn n st)))).
Proof.
  induction n as [|n IH]; intros st H Hl; [intros []|]. inversion H; subst; simpl in Hl; [lia|].
  simpl. rewrite map_app, forest_leaves_app. intros Hin. apply in_app_or in Hin. destruct Hin as [Hin|Hin].
  - revert Hin. apply IH; [assumption|lia].
  - unfold forest_leaves in Hin. simpl in Hin. rewrite app_nil_r in Hin. contradiction.
Qed.

Lemma xstep_eoi_leaf c c' : xc_state c <> end_state -> above_ok (xc_stack c) ->
  Forall (fun t => t_off t < t_end t) (xc_input c) ->
  xstep m evt fixws E c = XContinue c' ->
  (above_ok (xc_stack c') \/ (xc_state c' = end_state /\ weak_ok (xc_stack c'))) /\
  Forall (fun t => t_off t < t_end t) (xc_input c').
Proof.
  intros Hne Hab Htok. unfold xstep.
  destruct (m_act m (xc_state c) _ _) as [q|rule| |row] eqn:Eact; try discriminate.
  - intros H. injection H as <-. simpl.
    destruct (xc_input c) as [|t rest] eqn:Ein.
    + simpl in *. split; [|constructor]. right. split; [exact (Heoi _ _ _ Eact)|].
      constructor; [left; exact I|apply above_weak; exact Hab].
    + simpl in *. inversion Htok as [|? ? Ht Hrest]; subst.
      destruct (t_sym t =? 0) eqn:E0.
      * apply Z.eqb_eq in E0. rewrite E0 in Eact. split; [|exact Htok]. right. split; [exact (Heoi _ _ _ Eact)|].
        constructor; [left; exact I|apply above_weak; exact Hab].
      * split; [|exact Hrest]. left. constructor; [|exact Hab]. unfold noE. simpl. intros [H|[]]. injection H as H1 H2. lia.
  - destruct (_ <=? _)%nat eqn:El; [discriminate|]. apply Nat.leb_gt in El.
    destruct (lhs_range _ _) as [off endoff]. destruct (apply_rule _ _ _ _ _) as [evs endoff'].
    destruct (_ =? -1); [discriminate|]. intros H. injection H as <-. simpl. split; [|exact Htok].
    left. constructor; [|apply above_skipn; assumption].
    unfold noE. simpl x_tree. rewrite leaves_node. apply above_firstn_noE; assumption.
Qed.

Lemma xrun_eoi_leaf fuel : forall c o c', above_ok (xc_stack c) ->
  Forall (fun t => t_off t < t_end t) (xc_input c) ->
  xrun_loop fuel m evt fixws E end_state c = (o, c') -> weak_ok (xc_stack c').
Proof.
  induction fuel as [|f IH]; intros c o c' Hab Htok; simpl.
  - intros H. injection H as _ <-. apply above_weak. exact Hab.
  - destruct (xc_state c =? end_state) eqn:Eend; [intros H; injection H as _ <-; apply above_weak; exact Hab|].
    apply Z.eqb_neq in Eend.
    destruct (xstep m evt fixws E c) as [c1|o1] eqn:Es; [|intros H; injection H as _ <-; apply above_weak; exact Hab].
    destruct (xstep_eoi_leaf _ _ Eend Hab Htok Es) as [[Hab1|[Hst1 Hw1]] Htok1].
    + apply IH; assumption.
    + intros H. destruct f as [|f']; simpl in H.
      * injection H as _ <-. exact Hw1.
      * apply Z.eqb_eq in Hst1. rewrite Hst1 in H. injection H as _ <-. exact Hw1.
Qed.

End EoiLeaf.

(* the producer theorem with the condition on the machine instead of the final stack *)
Theorem xrun_events_nested_eoi m evt rl eoi_off fuel start end_state input o c' :
  nested_table evt -> eoi_stops m end_state ->
  Forall (fun t => t_sym t <> 0) input ->
  ordered (map tok_range input) eoi_off ->
  Forall (fun t => 0 <= t_off t) input -> 0 <= eoi_off ->
  xrun fuel m evt true start end_state eoi_off input = (o, c') ->
  Forall (fun e => wf_tree evt rl (x_tree e)) (xc_stack c') ->
  ok_events (xc_events c') = true /\ in_input eoi_off (xc_events c') = true.
Proof.
  intros Hnest Heoi Hnz Hord Hpos Hpos0 Hrun Hwf.
  eapply xrun_events_nested; eauto.
  unfold xrun in Hrun. eapply (xrun_eoi_leaf m evt true eoi_off end_state Heoi); [| |exact Hrun].
  - constructor. exact I.
  - simpl. pose proof (ordered_Forall_ne _ _ Hord) as H. rewrite Forall_forall in *. intros t Ht.
    apply (H (tok_range t)). apply in_map. exact Ht.
Qed.
