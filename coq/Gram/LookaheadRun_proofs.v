From Coq Require Import List ZArith Bool.
From TM Require Import Gram.Lookahead Gram.Lookahead_proofs Gram.LookaheadRun.
Import ListNotations.
Local Open Scope Z_scope.

Lemma select_correct :
  forall alts rho t nt a,
  select alts rho t = SelOne nt -> In a (group alts t) -> holds rho (a_la a) = true ->
  nt = la_nonterm (a_la a).
Proof.
  intros alts rho t nt a Hs Hin Hh. unfold select in Hs.
  destruct (group alts t) as [|a1 [|a2 g]] eqn:Hg.
  - destruct Hin.
  - destruct Hin as [Heq|[]]. subst a1. now inversion Hs.
  - destruct (new_rule (map a_la (a1 :: a2 :: g))) as [R|w] eqn:Hr; [|discriminate].
    inversion Hs; subst nt.
    eapply decision_correct; [exact Hr| |exact Hh].
    apply in_map. exact Hin.
Qed.

Lemma group_spec : forall alts t a, In a (group alts t) <-> In a alts /\ In t (a_first a).
Proof.
  intros alts t a. unfold group. rewrite filter_In. split; intros [H1 H2]; split; auto.
  - apply existsb_exists in H2. destruct H2 as [x [Hx He]]. apply Z.eqb_eq in He. now subst x.
  - apply existsb_exists. exists t. split; auto. apply Z.eqb_refl.
Qed.

Lemma select_on_correct :
  forall ntok defs alts t rest nt a,
  select_on ntok defs alts (t :: rest) = SelOne nt ->
  In a alts -> In t (a_first a) -> holds (rho_at ntok defs (t :: rest)) (a_la a) = true ->
  nt = la_nonterm (a_la a).
Proof.
  intros ntok defs alts t rest nt a Hs Hin Hf Hh. unfold select_on in Hs.
  eapply select_correct; eauto. apply group_spec. auto.
Qed.

(* two alternatives applicable on the same terminal whose conjunctions both hold reduce to the same
   nonterminal whenever the compiler accepted the set (the generated code cannot be put in a position where
   two different alternatives are both "the" satisfied one) *)
Lemma select_unique :
  forall alts rho t nt a b,
  select alts rho t = SelOne nt -> In a (group alts t) -> In b (group alts t) ->
  holds rho (a_la a) = true -> holds rho (a_la b) = true ->
  la_nonterm (a_la a) = la_nonterm (a_la b).
Proof.
  intros alts rho t nt a b Hs Ha Hb Hha Hhb.
  rewrite <- (select_correct _ _ _ _ _ Hs Ha Hha). now apply (select_correct _ _ _ _ _ Hs Hb Hhb).
Qed.
