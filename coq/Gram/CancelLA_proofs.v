(* C29 with runtime lookaheads (model: Gram/CancelLA.v): a cancelled parse returns the context error at a
   configuration the uncancelled parse passes through, or exactly the uncancelled result; and once the context is
   done, the shared counter (main loop and lookahead sub-parses together) does not pass the next multiple of 512. *)
From Coq Require Import List ZArith Bool Arith Lia.
From TM Require Import Gram.PTables Gram.Run Gram.Events Gram.Cancel Gram.Cancel_proofs Gram.CancelLA.
Import ListNotations.
Local Open Scope Z_scope.

(* ================= part (a): context error, or the same as the uncancelled run ================= *)

Definition lk_same (lk lk0 : Z -> Z -> lstate -> lres * lstate) :=
  forall a b s r s', lk a b s = (r, s') -> r = LAbort CtxErr \/ lk0 a b s = (r, s').

Lemma eval_cases_same lk lk0 final default : lk_same lk lk0 ->
  forall cases s r s', eval_cases lk final cases default s = (r, s') ->
  r = CAbort CtxErr \/ eval_cases lk0 final cases default s = (r, s').
Proof.
  intros H. induction cases as [|c rest IH]; intros s r s'; cbn [eval_cases].
  - intros E. right. exact E.
  - destruct (lk (lc_input c) (final (lc_input c)) s) as [r1 s1] eqn:E1.
    destruct (H _ _ _ _ _ E1) as [->|E0].
    + intros E. injection E as <- <-. left. reflexivity.
    + rewrite E0. destruct r1 as [b|o].
      * destruct (xorb b (lc_negated c)); [intros E; right; exact E|apply IH].
      * intros E. right. exact E.
Qed.

Lemma look_memo_same rc key final run run0 :
  (forall s r s', run s = (r, s') -> r = LAbort CtxErr \/ run0 s = (r, s')) ->
  forall s r s', look_memo rc key final run s = (r, s') ->
  r = LAbort CtxErr \/ look_memo rc key final run0 s = (r, s').
Proof.
  intros H s r s'. unfold look_memo. destruct rc; [|apply H].
  destruct (cache_find key final (ls_cache s)); [intros E; right; exact E|].
  destruct (run s) as [r1 s1] eqn:E1. destruct (H _ _ _ E1) as [->|E0].
  - intros E. injection E as <- <-. left. reflexivity.
  - rewrite E0. intros E. right. exact E.
Qed.

Lemma and_never b n : b && never n = false.
Proof. unfold never. apply andb_false_r. Qed.

Section Same.
Variable m : machine.
Variable lt : la_tables.
Variable attempts : Z -> Z -> bool.
Variable eoi_off : Z.
Variable rho : Z -> bool.

Notation ll := (look_loop m lt attempts eoi_off rho).
Notation ll0 := (look_loop m lt attempts eoi_off never).

Lemma look_loop_same f : forall depth en stack state input s r s',
  ll f depth en stack state input s = (r, s') ->
  r = LAbort CtxErr \/ ll0 f depth en stack state input s = (r, s').
Proof.
  induction f as [|f IH]; intros depth en stack state input s r s'; cbn [look_loop].
  - intros E. right. exact E.
  - destruct (state =? en); [intros E; right; exact E|].
    set (nx := next_tok eoi_off input). set (att := attempts state (t_sym nx)).
    set (s1 := if att then tick depth s else s).
    rewrite and_never.
    destruct (att && polls (ls_counter s1) && rho (ls_counter s1)).
    { intros E. injection E as <- <-. left. reflexivity. }
    destruct (m_act m state (t_sym nx) _) as [st|rule| |row].
    + apply IH.
    + destruct (length stack <=? Z.to_nat (m_rule_len m rule))%nat; [intros E; right; exact E|].
      destruct (if lt_recursive lt then lt_rule lt rule else None) as [lr|].
      * pose (LK := fun start en0 s'0 =>
                      look_memo true (t_off nx) en0 (fun s'' => ll f (depth + 1) en0 [start] start input s'') s'0).
        pose (LK0 := fun start en0 s'0 =>
                      look_memo true (t_off nx) en0 (fun s'' => ll0 f (depth + 1) en0 [start] start input s'') s'0).
        assert (HLK : lk_same LK LK0).
        { intros a b s0 r0 s0'. apply look_memo_same. intros s2 r2 s2'. apply IH. }
        fold LK. fold LK0.
        destruct (eval_cases LK (lt_final lt) (lr_cases lr) (lr_default lr) s1) as [r1 s2] eqn:E1.
        destruct (eval_cases_same _ _ _ _ HLK _ _ _ _ E1) as [->|E0].
        -- intros E. injection E as <- <-. left. reflexivity.
        -- rewrite E0. destruct r1 as [sym|o].
           ++ destruct (m_goto m (hd (-1) (skipn (Z.to_nat (m_rule_len m rule)) stack)) sym =? -1);
                [intros E; right; exact E|apply IH].
           ++ intros E. right. exact E.
      * destruct (m_goto m (hd (-1) (skipn (Z.to_nat (m_rule_len m rule)) stack)) (m_rule_sym m rule) =? -1);
          [intros E; right; exact E|apply IH].
    + intros E. right. exact E.
    + intros E. right. exact E.
Qed.

Lemma look_top_same lfuel input : lk_same (look_top m lt attempts eoi_off rho lfuel input)
                                          (look_top m lt attempts eoi_off never lfuel input).
Proof.
  intros a b s r s'. unfold look_top. apply look_memo_same. intros s2 r2 s2'. apply look_loop_same.
Qed.

Variable lfuel : nat.
Variable evt : ev_table.
Variable fixws : bool.
Variable end_state : Z.

Notation lst := (lstep m lt attempts eoi_off rho lfuel evt fixws).
Notation lst0 := (lstep m lt attempts eoi_off never lfuel evt fixws).
Notation lrl := (fun f => lrun_loop m lt attempts eoi_off rho f lfuel evt fixws end_state).
Notation lrl0 := (fun f => lrun_loop m lt attempts eoi_off never f lfuel evt fixws end_state).

Lemma lstep_same c r : lst c = r -> (exists s, r = LStop CtxErr s) \/ lst0 c = r.
Proof.
  unfold lstep.
  set (x := lc_x c). set (nx := next_tok eoi_off (xc_input x)). set (att := attempts (xc_state x) (t_sym nx)).
  set (s1 := if att then tick 0 (lc_s c) else lc_s c).
  rewrite and_never.
  destruct (att && polls (ls_counter s1) && rho (ls_counter s1)).
  { intros <-. left. exists s1. reflexivity. }
  destruct (m_act m (xc_state x) (t_sym nx) _) as [st|rule| |row];
    try (intros E; right; exact E).
  destruct (lt_rule lt rule) as [lr|]; [|intros E; right; exact E].
  destruct (eval_cases (look_top m lt attempts eoi_off rho lfuel (xc_input x)) (lt_final lt) (lr_cases lr) (lr_default lr) s1)
    as [r1 s2] eqn:E1.
  destruct (eval_cases_same _ _ _ _ (look_top_same lfuel (xc_input x)) _ _ _ _ E1) as [->|E0].
  - intros <-. left. exists s2. reflexivity.
  - rewrite E0. intros E. right. exact E.
Qed.

(* Either the cancellable loop returns the context error at a configuration (stack, input, events, session) the
   uncancelled loop passes through, or it returns exactly what the uncancelled loop returns. *)
Theorem la_cancel_or_same f : forall c o c' s', lrl f c = (o, c', s') ->
  (o = CtxErr /\ exists k, (k <= f)%nat /\ lrl0 f c = lrl0 (f - k)%nat c') \/
  lrl0 f c = (o, c', s').
Proof.
  induction f as [|f IH]; intros c o c' s'; cbn [lrun_loop].
  - intros E. right. exact E.
  - destruct (xc_state (lc_x c) =? end_state) eqn:Eend; [intros E; right; exact E|].
    destruct (lst c) as [c1|o1 s1] eqn:Es.
    + destruct (lstep_same _ _ Es) as [(s & Hs)|E0]; [discriminate|]. rewrite E0.
      intros E. destruct (IH _ _ _ _ E) as [(-> & k & Hk & Hrun)|Hrun].
      * left. split; [reflexivity|]. exists (S k). split; [lia|]. exact Hrun.
      * right. exact Hrun.
    + destruct (lstep_same _ _ Es) as [(s & Hs)|E0].
      * injection Hs as -> ->. intros E. injection E as <- <- <-. left. split; [reflexivity|].
        exists O. split; [lia|]. change (S f - 0)%nat with (S f). cbn [lrun_loop]. rewrite Eend. reflexivity.
      * rewrite E0. intros E. right. exact E.
Qed.

Lemma lstep_events c c' : lst c = LContinue c' -> exists evs, xc_events (lc_x c') = xc_events (lc_x c) ++ evs.
Proof.
  unfold lstep.
  set (x := lc_x c). set (nx := next_tok eoi_off (xc_input x)). set (att := attempts (xc_state x) (t_sym nx)).
  set (s1 := if att then tick 0 (lc_s c) else lc_s c).
  destruct (att && polls (ls_counter s1) && rho (ls_counter s1)); [discriminate|].
  assert (Hplain : forall m' s2, match xstep m' evt fixws eoi_off x with
                                 | XContinue x' => LContinue (mkLC s2 x')
                                 | XStop o => LStop (Plain o) s2
                                 end = LContinue c' -> exists evs, xc_events (lc_x c') = xc_events x ++ evs).
  { intros m' s2. destruct (xstep m' evt fixws eoi_off x) as [x'|o] eqn:Ex; [|discriminate].
    intros E. injection E as <-. cbn [lc_x]. eapply xstep_events. exact Ex. }
  destruct (m_act m (xc_state x) (t_sym nx) _) as [st|rule| |row]; try apply Hplain.
  destruct (lt_rule lt rule) as [lr|]; [|apply Hplain].
  destruct (eval_cases _ _ _ _ _) as [[sym|o] s2]; [apply Hplain|discriminate].
Qed.

Lemma lrun_events f : forall c o c' s', lrl f c = (o, c', s') ->
  exists evs, xc_events (lc_x c') = xc_events (lc_x c) ++ evs.
Proof.
  induction f as [|f IH]; intros c o c' s'; cbn [lrun_loop].
  - intros E. injection E as _ <- _. exists []. rewrite app_nil_r. reflexivity.
  - destruct (xc_state (lc_x c) =? end_state);
      [intros E; injection E as _ <- _; exists []; rewrite app_nil_r; reflexivity|].
    destruct (lst c) as [c1|o1 s1] eqn:Es.
    + intros E. destruct (IH _ _ _ _ E) as (e2 & H2). destruct (lstep_events _ _ Es) as (e1 & H1).
      exists (e1 ++ e2). rewrite H2, H1, app_assoc. reflexivity.
    + intros E. injection E as _ <- _. exists []. rewrite app_nil_r. reflexivity.
Qed.

End Same.

(* the events reported before a cancellation are a prefix of the events of the uncancelled parse *)
Corollary la_cancel_events_prefix m lt attempts eoi_off rho lfuel evt fixws end_state f c c' s' o0 c0 s0 :
  lrun_loop m lt attempts eoi_off rho f lfuel evt fixws end_state c = (CtxErr, c', s') ->
  lrun_loop m lt attempts eoi_off never f lfuel evt fixws end_state c = (o0, c0, s0) ->
  exists evs, xc_events (lc_x c0) = xc_events (lc_x c') ++ evs.
Proof.
  intros Hc H0. destruct (la_cancel_or_same _ _ _ _ _ _ _ _ _ _ _ _ _ _ Hc) as [(_ & k & Hk & Hrun)|Hrun].
  - cbv beta in Hrun. rewrite Hrun in H0. eapply lrun_events. exact H0.
  - cbv beta in Hrun. rewrite Hrun in H0. injection H0 as _ <- _. exists []. rewrite app_nil_r. reflexivity.
Qed.

(* ================= part (b): boundedness ================= *)

(* the session only grows, and every increment of the counter is one recorded tick *)
Definition grows (s s' : lstate) : Prop :=
  ls_counter s <= ls_counter s' /\
  ls_counter s' - ls_counter s = Z.of_nat (length (ls_ticks s')) - Z.of_nat (length (ls_ticks s)).

Definition is_ctx (o : coutcome) : bool := match o with CtxErr => true | Plain _ => false end.
Definition l_cancelled (r : lres) : bool := match r with LAbort o => is_ctx o | LBool _ => false end.
Definition c_cancelled (r : cres) : bool := match r with CAbort o => is_ctx o | CSym _ => false end.

Section Bound.
Variable P : Z.                       (* a polled counter value at which the context is done *)
Variable rho : Z -> bool.
Hypothesis HpP : polls P = true.
Hypothesis HrP : rho P = true.

(* from s to s': grows, the counter does not pass P, and reaches P only in a run that is cancelled *)
Definition lbound (s s' : lstate) (cancelled : bool) : Prop :=
  grows s s' /\ ls_counter s' <= P /\ (cancelled = false -> ls_counter s' < P).

Lemma lbound_refl s : ls_counter s < P -> lbound s s false.
Proof. intros H. unfold lbound, grows. lia. Qed.

Lemma lbound_trans s s1 s2 b : lbound s s1 false -> lbound s1 s2 b -> lbound s s2 b.
Proof. unfold lbound, grows. intros (H1 & H2 & H3) (H4 & H5 & H6). specialize (H3 eq_refl). repeat split; try lia. exact H6. Qed.

Lemma tick_bound (att : bool) depth s : ls_counter s < P ->
  let s1 := if att then tick depth s else s in
  lbound s s1 (att && polls (ls_counter s1) && rho (ls_counter s1)).
Proof.
  intros H. destruct att; cbn zeta; cbn [andb].
  - unfold lbound, grows, tick. cbn [ls_counter ls_ticks length].
    split; [lia|]. split; [lia|]. intros Hf.
    assert (Hne : ls_counter s + 1 <> P) by (intros Heq; rewrite Heq, HpP, HrP in Hf; discriminate). lia.
  - apply lbound_refl. exact H.
Qed.

Definition lk_bound (lk : Z -> Z -> lstate -> lres * lstate) :=
  forall a b s r s', ls_counter s < P -> lk a b s = (r, s') -> lbound s s' (l_cancelled r).

Lemma eval_cases_bound lk final default : lk_bound lk ->
  forall cases s r s', ls_counter s < P -> eval_cases lk final cases default s = (r, s') ->
  lbound s s' (c_cancelled r).
Proof.
  intros H. induction cases as [|c rest IH]; intros s r s' Hs; cbn [eval_cases].
  - intros E. injection E as <- <-. apply lbound_refl. exact Hs.
  - destruct (lk (lc_input c) (final (lc_input c)) s) as [r1 s1] eqn:E1.
    pose proof (H _ _ _ _ _ Hs E1) as H1. destruct r1 as [b|o]; cbn [l_cancelled] in H1.
    + destruct (xorb b (lc_negated c)).
      * intros E. injection E as <- <-. exact H1.
      * intros E. eapply lbound_trans; [exact H1|]. apply IH; [|exact E]. destruct H1 as (_ & _ & H1). auto.
    + intros E. injection E as <- <-. exact H1.
Qed.

Lemma look_memo_bound rc key final run :
  (forall s r s', ls_counter s < P -> run s = (r, s') -> lbound s s' (l_cancelled r)) ->
  forall s r s', ls_counter s < P -> look_memo rc key final run s = (r, s') -> lbound s s' (l_cancelled r).
Proof.
  intros H s r s' Hs. unfold look_memo. destruct rc; [|apply H; exact Hs].
  destruct (cache_find key final (ls_cache s)).
  - intros E. injection E as <- <-. apply lbound_refl. exact Hs.
  - destruct (run s) as [r1 s1] eqn:E1. pose proof (H _ _ _ Hs E1) as H1. destruct r1 as [b|o].
    + intros E. injection E as <- <-. exact H1.
    + intros E. injection E as <- <-. exact H1.
Qed.

Variable m : machine.
Variable lt : la_tables.
Variable attempts : Z -> Z -> bool.
Variable eoi_off : Z.

Notation ll := (look_loop m lt attempts eoi_off rho).

Lemma look_loop_bound f : forall depth en stack state input s r s', ls_counter s < P ->
  ll f depth en stack state input s = (r, s') -> lbound s s' (l_cancelled r).
Proof.
  induction f as [|f IH]; intros depth en stack state input s r s' Hs; cbn [look_loop].
  - intros E. injection E as <- <-. apply lbound_refl. exact Hs.
  - destruct (state =? en); [intros E; injection E as <- <-; apply lbound_refl; exact Hs|].
    set (nx := next_tok eoi_off input). set (att := attempts state (t_sym nx)).
    pose proof (tick_bound att depth s Hs) as Ht. cbn zeta in Ht.
    set (s1 := if att then tick depth s else s) in *.
    destruct (att && polls (ls_counter s1) && rho (ls_counter s1)).
    { intros E. injection E as <- <-. exact Ht. }
    assert (Hs1 : ls_counter s1 < P) by (destruct Ht as (_ & _ & Ht); auto).
    destruct (m_act m state (t_sym nx) _) as [st|rule| |row].
    + intros E. eapply lbound_trans; [exact Ht|]. eapply IH; [exact Hs1|exact E].
    + destruct (length stack <=? Z.to_nat (m_rule_len m rule))%nat; [intros E; injection E as <- <-; exact Ht|].
      destruct (if lt_recursive lt then lt_rule lt rule else None) as [lr|].
      * pose (LK := fun start en0 s'0 =>
                      look_memo true (t_off nx) en0 (fun s'' => ll f (depth + 1) en0 [start] start input s'') s'0).
        assert (HLK : lk_bound LK).
        { intros a b s0 r0 s0' Hs0. apply look_memo_bound; [|exact Hs0]. intros s2 r2 s2' Hs2. apply IH. exact Hs2. }
        fold LK.
        destruct (eval_cases LK (lt_final lt) (lr_cases lr) (lr_default lr) s1) as [r1 s2] eqn:E1.
        pose proof (eval_cases_bound _ _ _ HLK _ _ _ _ Hs1 E1) as H2.
        destruct r1 as [sym|o]; cbn [c_cancelled] in H2.
        -- assert (Hs2 : ls_counter s2 < P) by (destruct H2 as (_ & _ & H2); auto).
           destruct (m_goto m (hd (-1) (skipn (Z.to_nat (m_rule_len m rule)) stack)) sym =? -1).
           ++ intros E. injection E as <- <-. eapply lbound_trans; [exact Ht|exact H2].
           ++ intros E. eapply lbound_trans; [exact Ht|]. eapply lbound_trans; [exact H2|].
              eapply IH; [exact Hs2|exact E].
        -- intros E. injection E as <- <-. eapply lbound_trans; [exact Ht|exact H2].
      * destruct (m_goto m (hd (-1) (skipn (Z.to_nat (m_rule_len m rule)) stack)) (m_rule_sym m rule) =? -1).
        -- intros E. injection E as <- <-. exact Ht.
        -- intros E. eapply lbound_trans; [exact Ht|]. eapply IH; [exact Hs1|exact E].
    + intros E. injection E as <- <-. exact Ht.
    + intros E. injection E as <- <-. exact Ht.
Qed.

Lemma look_top_bound lfuel input : lk_bound (look_top m lt attempts eoi_off rho lfuel input).
Proof.
  intros a b s r s' Hs. unfold look_top. apply look_memo_bound; [|exact Hs].
  intros s2 r2 s2' Hs2. apply look_loop_bound. exact Hs2.
Qed.

Variable lfuel : nat.
Variable evt : ev_table.
Variable fixws : bool.
Variable end_state : Z.

Notation lst := (lstep m lt attempts eoi_off rho lfuel evt fixws).
Notation lrl := (fun f => lrun_loop m lt attempts eoi_off rho f lfuel evt fixws end_state).

Lemma lstep_bound c : ls_counter (lc_s c) < P ->
  match lst c with
  | LContinue c' => lbound (lc_s c) (lc_s c') false
  | LStop o s => lbound (lc_s c) s (is_ctx o)
  end.
Proof.
  intros Hs. unfold lstep.
  set (x := lc_x c). set (nx := next_tok eoi_off (xc_input x)). set (att := attempts (xc_state x) (t_sym nx)).
  pose proof (tick_bound att 0 (lc_s c) Hs) as Ht. cbn zeta in Ht.
  set (s1 := if att then tick 0 (lc_s c) else lc_s c) in *.
  destruct (att && polls (ls_counter s1) && rho (ls_counter s1)); [exact Ht|].
  assert (Hs1 : ls_counter s1 < P) by (destruct Ht as (_ & _ & Ht); auto).
  assert (Hplain : forall m' s2, lbound (lc_s c) s2 false ->
            match match xstep m' evt fixws eoi_off x with
                  | XContinue x' => LContinue (mkLC s2 x')
                  | XStop o => LStop (Plain o) s2
                  end with
            | LContinue c' => lbound (lc_s c) (lc_s c') false
            | LStop o s => lbound (lc_s c) s (is_ctx o)
            end).
  { intros m' s2 H2. destruct (xstep m' evt fixws eoi_off x); exact H2. }
  destruct (m_act m (xc_state x) (t_sym nx) _) as [st|rule| |row];
    try (apply Hplain; exact Ht).
  destruct (lt_rule lt rule) as [lr|]; [|apply Hplain; exact Ht].
  destruct (eval_cases (look_top m lt attempts eoi_off rho lfuel (xc_input x)) (lt_final lt) (lr_cases lr) (lr_default lr) s1)
    as [r1 s2] eqn:E1.
  pose proof (eval_cases_bound _ _ _ (look_top_bound lfuel (xc_input x)) _ _ _ _ Hs1 E1) as H2.
  destruct r1 as [sym|o]; cbn [c_cancelled] in H2.
  - apply Hplain. eapply lbound_trans; [exact Ht|exact H2].
  - eapply lbound_trans; [exact Ht|exact H2].
Qed.

Theorem la_bounded f : forall c o c' s', ls_counter (lc_s c) < P -> lrl f c = (o, c', s') ->
  lbound (lc_s c) s' (is_ctx o).
Proof.
  induction f as [|f IH]; intros c o c' s' Hs; cbn [lrun_loop].
  - intros E. injection E as <- _ <-. apply lbound_refl. exact Hs.
  - destruct (xc_state (lc_x c) =? end_state); [intros E; injection E as <- _ <-; apply lbound_refl; exact Hs|].
    pose proof (lstep_bound c Hs) as Hb. destruct (lst c) as [c1|o1 s1].
    + intros E. eapply lbound_trans; [exact Hb|]. eapply IH; [|exact E]. destruct Hb as (_ & _ & Hb). auto.
    + intros E. injection E as <- _ <-. exact Hb.
Qed.

End Bound.

(* Once the context is done from counter value s on, the parse (main loop and lookahead sub-parses, which share the
   counter) stops at the latest at the next polled value (< s + 512) - with the context error - or ends before it;
   and every unit of the counter is one recorded shift attempt. *)
Theorem la_cancel_bounded m lt attempts eoi_off rho lfuel evt fixws end_state f s c o c' s' :
  1 <= s -> (forall n, s <= n -> rho n = true) -> ls_counter (lc_s c) < next_poll s ->
  lrun_loop m lt attempts eoi_off rho f lfuel evt fixws end_state c = (o, c', s') ->
  ls_counter s' <= next_poll s < s + 512 /\
  (o <> CtxErr -> ls_counter s' < next_poll s) /\
  ls_counter (lc_s c) <= ls_counter s' /\
  Z.of_nat (length (ls_ticks s')) - Z.of_nat (length (ls_ticks (lc_s c))) = ls_counter s' - ls_counter (lc_s c).
Proof.
  intros Hs Hrho Hlt Hrun. destruct (next_poll_spec s Hs) as ((Hge & Hlt512) & Hpoll & _).
  pose proof (la_bounded (next_poll s) rho Hpoll (Hrho _ Hge) m lt attempts eoi_off lfuel evt fixws end_state
                         f c o c' s' Hlt Hrun) as ((Hg1 & Hg2) & Hle & Hc).
  repeat split; try lia. intros Hne. apply Hc. destruct o; [reflexivity|contradiction].
Qed.

