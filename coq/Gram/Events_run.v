(* C02: the loop (Events.xrun) emits, for the forest it has on its stack, exactly the events tree_run describes,
   and the leaves of that forest are the tokens consumed so far. *)
From Coq Require Import List ZArith Bool Arith Lia.
From TM Require Import Lib.ListX Gram.PTables Gram.Run Gram.Events Gram.Events_proofs Gram.Events_strict.
Import ListNotations.
Local Open Scope Z_scope.

Lemma forest_run_app fixws evt P Q aft :
  forest_run fixws evt (P ++ Q) aft = forest_run fixws evt P (start_of Q aft) ++ forest_run fixws evt Q aft.
Proof. induction P as [|c P IH]; simpl; [reflexivity|]. rewrite IH, start_of_app. reflexivity. Qed.

Lemma start_of_single t aft : start_of [t] aft = fst (span_of (leaves t) aft).
Proof. unfold start_of, forest_leaves. simpl. rewrite app_nil_r. reflexivity. Qed.

Definition tok_range (t : tok) : range := (t_off t, t_end t).

Section RunInv.
Variable m : machine.
Variable evt : ev_table.
Variable fixws : bool.
Variable eoi_off : Z.

(* sok st after evs lvs: the entries above the bottom one carry trees whose tree_run (w.r.t. the token that
   follows each of them) gives their ranges; evs are all their events in emission order, lvs their leaves *)
Inductive sok : list xentry -> Z -> list event -> list range -> Prop :=
| sok_bot b after : sok [b] after [] []
| sok_cons e rest after evs_below lvs_below evs_e :
    sok rest (start_of [x_tree e] after) evs_below lvs_below ->
    tree_run fixws evt (x_tree e) after = (range_of e, evs_e) ->
    sok (e :: rest) after (evs_below ++ evs_e) (lvs_below ++ leaves (x_tree e)).

Lemma sok_split n : forall st after evs lvs, sok st after evs lvs -> (n < length st)%nat ->
  let rhs := rev (firstn n st) in
  exists evs_below lvs_below,
    sok (skipn n st) (start_of (map x_tree rhs) after) evs_below lvs_below /\
    evs = evs_below ++ flat_map snd (forest_run fixws evt (map x_tree rhs) after) /\
    lvs = lvs_below ++ forest_leaves (map x_tree rhs) /\
    map fst (forest_run fixws evt (map x_tree rhs) after) = map range_of rhs.
Proof.
  induction n as [|n IH]; intros st after evs lvs Hs Hlen; simpl.
  - exists evs, lvs. rewrite !app_nil_r. repeat split; try reflexivity. exact Hs.
  - inversion Hs as [b a | e rest a evs_b lvs_b evs_e Hrest Hrun]; subst; simpl in Hlen; [lia|].
    destruct (IH rest _ _ _ Hrest ltac:(lia)) as (evs_bb & lvs_bb & Hs' & Eevs & Elvs & Eranges).
    cbv zeta in *. exists evs_bb, lvs_bb. cbn [firstn rev skipn].
    rewrite map_app. simpl map. rewrite forest_run_app, start_of_app. simpl forest_run.
    rewrite map_app, flat_map_app, forest_leaves_app. simpl. rewrite !app_nil_r.
    change (start_of [] after) with after. rewrite Hrun. simpl. repeat split.
    + exact Hs'.
    + rewrite Eevs, <- app_assoc. reflexivity.
    + rewrite Elvs, <- app_assoc. reflexivity.
    + rewrite map_app, Eranges. reflexivity.
Qed.

Definition next_off (c : xconfig) : Z := t_off (next_tok eoi_off (xc_input c)).

Definition xinv (input0 : list tok) (c : xconfig) : Prop :=
  Forall (fun t => t_sym t <> 0) (xc_input c) /\
  exists lvs k, sok (xc_stack c) (next_off c) (xc_events c) lvs /\
    lvs ++ map tok_range (xc_input c) = map tok_range input0 ++ repeat (eoi_off, eoi_off) k /\
    (k <> O -> xc_input c = []).

Lemma xstep_inv input0 c c' : xinv input0 c -> xstep m evt fixws eoi_off c = XContinue c' -> xinv input0 c'.
Proof.
  intros (Hnz & lvs & k & Hs & Hstream & Hk). unfold xstep.
  set (nx := next_tok eoi_off (xc_input c)).
  destruct (m_act m (xc_state c) (t_sym nx) (map t_sym (tl (xc_input c)))) as [q|rule| |row]; try discriminate.
  - (* shift *)
    intros E. injection E as <-.
    destruct (xc_input c) as [|t rest] eqn:Ein.
    + (* EOI *)
      assert (Hnx : nx = mkTok 0 eoi_off eoi_off) by (unfold nx; try rewrite Ein; reflexivity). rewrite Hnx. simpl.
      split; [constructor|].
      exists (lvs ++ [(eoi_off, eoi_off)]), (S k). unfold next_off. simpl.
      split; [|split; [|reflexivity]].
      * rewrite <- (app_nil_r (xc_events c)).
        apply (sok_cons (mkX 0 eoi_off eoi_off q (TLeaf 0 eoi_off eoi_off)) _ eoi_off (xc_events c) lvs []).
        -- rewrite start_of_single. simpl. unfold next_off in Hs. rewrite Ein in Hs. exact Hs.
        -- reflexivity.
      * rewrite app_nil_r in *. rewrite Hstream. rewrite <- app_assoc. f_equal.
        symmetry. apply repeat_cons.
    + assert (Hnx : nx = t) by (unfold nx; try rewrite Ein; reflexivity). rewrite Hnx.
      pose proof (Forall_inv Hnz) as Ht. pose proof (Forall_inv_tail Hnz) as Hrest. simpl in Ht.
      destruct (t_sym t =? 0) eqn:E0; [apply Z.eqb_eq in E0; congruence|].
      assert (Ek : k = O). { destruct k; [reflexivity|]. specialize (Hk ltac:(discriminate)). discriminate. }
      subst k. simpl.
      split; [exact Hrest|].
      exists (lvs ++ [tok_range t]), O. unfold next_off. simpl.
      split; [|split; [|congruence]].
      * rewrite <- (app_nil_r (xc_events c)).
        apply (sok_cons (mkX (t_sym t) (t_off t) (t_end t) q (TLeaf (t_sym t) (t_off t) (t_end t))) _ _ (xc_events c) lvs []).
        -- rewrite start_of_single. simpl. unfold next_off in Hs. rewrite Ein in Hs. exact Hs.
        -- reflexivity.
      * rewrite <- app_assoc. exact Hstream.
  - (* reduce *)
    destruct (length (xc_stack c) <=? Z.to_nat (m_rule_len m rule))%nat eqn:El; [discriminate|]. apply Nat.leb_gt in El.
    set (ln := Z.to_nat (m_rule_len m rule)) in *.
    change (next_off c) with (t_off nx) in Hs.
    set (rhs := rev (firstn ln (xc_stack c))).
    destruct (sok_split ln _ _ _ _ Hs El) as (evs_b & lvs_b & Hs' & Eevs & Elvs & Eranges). fold rhs in Hs', Eevs, Elvs, Eranges.
    destruct (lhs_range (map range_of rhs) (t_off nx)) as [off endoff] eqn:Elhs.
    destruct (apply_rule fixws (ev_at evt rule) (map range_of rhs) off endoff) as [evs endoff'] eqn:Eapp.
    destruct (m_goto m _ (m_rule_sym m rule) =? -1); [discriminate|].
    intros E. injection E as <-. simpl.
    split; [exact Hnz|].
    exists (lvs_b ++ forest_leaves (map x_tree rhs)), k. unfold next_off. simpl. fold nx.
    split; [|split; [|exact Hk]].
    + rewrite Eevs, <- app_assoc.
      apply (sok_cons (mkX (m_rule_sym m rule) off endoff' _ (TNode rule (map x_tree rhs))) _ _ evs_b lvs_b).
      * simpl x_tree. rewrite start_of_single, leaves_node. exact Hs'.
      * simpl x_tree. rewrite tree_run_node. cbv zeta. rewrite Eranges, Elhs, Eapp. reflexivity.
    + rewrite <- Elvs. exact Hstream.
Qed.

Lemma xrun_inv input0 end_state fuel : forall c o c', xinv input0 c ->
  xrun_loop fuel m evt fixws eoi_off end_state c = (o, c') -> xinv input0 c'.
Proof.
  induction fuel as [|f IH]; intros c o c' Hinv; simpl.
  - intros E. injection E as _ <-. exact Hinv.
  - destruct (xc_state c =? end_state); [intros E; injection E as _ <-; exact Hinv|].
    destruct (xstep m evt fixws eoi_off c) as [c1|o1] eqn:Es.
    + apply IH. eapply xstep_inv; eauto.
    + intros E. injection E as _ <-. exact Hinv.
Qed.

Lemma xinv_init start input0 : Forall (fun t => t_sym t <> 0) input0 ->
  xinv input0 (mkXC [mkX 0 0 0 start (TLeaf 0 0 0)] start input0 []).
Proof.
  intros Hnz. split; [exact Hnz|]. exists [], O. simpl. split; [constructor|]. rewrite app_nil_r. split; [reflexivity|congruence].
Qed.

End RunInv.

(* ---- the statement of C02 for the loop model ---- *)
Lemma app_sep_eq {A} (E : A) (a b x y : list A) : ~ In E a -> ~ In E b -> a ++ E :: x = b ++ E :: y -> a = b.
Proof.
  revert b. induction a as [|h a IH]; intros [|h' b] Ha Hb Eq; simpl in *.
  - reflexivity.
  - injection Eq as <- _. exfalso. apply Hb. left. reflexivity.
  - injection Eq as -> _. exfalso. apply Ha. left. reflexivity.
  - injection Eq as -> Eq. f_equal. apply IH; auto.
Qed.

(* An accepted run of the fixWhitespace loop whose stack ends as [EOI entry; S entry; bottom]: the leaves of the
   tree of S are the input tokens, and the events emitted are exactly the specification's events of that tree. *)
Theorem xrun_events_spec m evt rl eoi_off fuel start end_state input c' etop eS b :
  Forall (fun t => t_sym t <> 0) input ->
  ordered (map tok_range input) eoi_off ->
  xrun fuel m evt true start end_state eoi_off input = (Accept, c') ->
  xc_stack c' = [etop; eS; b] ->
  x_tree etop = TLeaf 0 eoi_off eoi_off ->
  ~ In (eoi_off, eoi_off) (leaves (x_tree eS)) ->
  wf_tree evt rl (x_tree eS) ->
  leaves (x_tree eS) = map tok_range input /\
  xc_events c' = spec_events (arrows_of_ev rl evt) (x_tree eS) eoi_off.
Proof.
  intros Hnz Hord Hrun Hst Htop HnoE Hwf. unfold xrun in Hrun.
  assert (Hinv : xinv evt true eoi_off input c').
  { eapply xrun_inv; [apply xinv_init; exact Hnz|exact Hrun]. }
  destruct Hinv as (_ & lvs & k & Hs & Hstream & Hk).
  rewrite Hst in Hs.
  inversion Hs as [|e1 r1 a1 ev1 lv1 eve1 Hs1 Hrun1]; subst.
  inversion Hs1 as [|e2 r2 a2 ev2 lv2 eve2 Hs2 Hrun2]; subst.
  inversion Hs2 as [bb aa | e3 r3 a3 ev3 lv3 eve3 Hs3 Hrun3]; subst; [|inversion Hs3].
  simpl app in *.
  rewrite Htop in Hrun1, Hrun2, Hstream. apply (f_equal snd) in Hrun1. simpl in Hrun1. subst eve1.
  rewrite start_of_single in Hrun2. simpl in Hrun2.
  rewrite app_nil_r.
  assert (HnoI : ~ In (eoi_off, eoi_off) (map tok_range input)).
  { clear -Hord. induction (map tok_range input) as [|x l IH]; intros Hin; [destruct Hin|].
    simpl in Hord. destruct Hord as (H1 & _ & H3). destruct Hin as [->|Hin]; [simpl in H1; lia|]. apply IH; assumption. }
  assert (Hl : leaves (x_tree eS) = map tok_range input).
  { simpl in Hstream. rewrite <- app_assoc in Hstream. simpl in Hstream.
    destruct k as [|k].
    - simpl in Hstream. rewrite app_nil_r in Hstream. exfalso. apply HnoI. rewrite <- Hstream.
      apply in_or_app. right. left. reflexivity.
    - simpl in Hstream. eapply app_sep_eq; eauto. }
  split; [exact Hl|].
  assert (Ho : ordered (leaves (x_tree eS)) eoi_off) by (rewrite Hl; exact Hord).
  rewrite (tree_run_strict evt rl _ Hwf _ Ho) in Hrun2. apply (f_equal snd) in Hrun2. simpl in Hrun2. symmetry. exact Hrun2.
Qed.
