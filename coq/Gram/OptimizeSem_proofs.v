(* C05, generator side, part 3: the uncompressed lines built by [optimize] ([state_next], [goto_line]) say
   what the non-optimized decoders ([action_default], [goto_state]) say, for well-formed tables; and the final
   theorems: the model of lalr.Optimize passes the exhaustive validator for EVERY well-formed DefaultEnc. *)
From Coq Require Import List ZArith Bool Lia Arith.
From TM Require Import Lib.ListX Gram.PTables Gram.Optimize Gram.OptimizeSpec Gram.OptimizeSpec_proofs
  Gram.OptimizePack_proofs Gram.OptimizeGen_proofs Gram.OptimizeWf.
Import ListNotations.
Local Open Scope Z_scope.

(* ---------- set_at ---------- *)
Lemma set_at_length l i v : length (set_at l i v) = length l.
Proof.
  unfold set_at. destruct (i <? 0); [reflexivity|].
  assert (E : length l = (length (firstn (Z.to_nat i) l) + length (skipn (Z.to_nat i) l))%nat)
    by (rewrite <- app_length; now rewrite firstn_skipn).
  rewrite app_length, E. f_equal. destruct (skipn (Z.to_nat i) l); reflexivity.
Qed.

Lemma zn_set_at_other l i v j : j <> i -> zn (set_at l i v) j = zn l j.
Proof.
  intro Hne. unfold set_at. destruct (i <? 0) eqn:Ei; [reflexivity|].
  unfold zn. destruct (j <? 0) eqn:Ej; [reflexivity|].
  set (n := Z.to_nat i). set (m := Z.to_nat j). assert (Hmn : m <> n) by lia.
  transitivity (nth m (firstn n l ++ skipn n l) (-1000000)); [|now rewrite firstn_skipn].
  destruct (Nat.lt_ge_cases m (length (firstn n l))) as [Hlt|Hge].
  - now rewrite !app_nth1 by exact Hlt.
  - rewrite !app_nth2 by exact Hge.
    destruct (skipn n l) as [|x r] eqn:Es; [reflexivity|].
    assert (length (firstn n l) = n).
    { apply firstn_length_le. assert (length (skipn n l) <> 0)%nat by (rewrite Es; discriminate).
      rewrite skipn_length in H. lia. }
    destruct (m - length (firstn n l))%nat eqn:E; [lia|reflexivity].
Qed.

Lemma zn_set_at_same l i v : 0 <= i < zlength l -> zn (set_at l i v) i = v.
Proof.
  intro H. unfold set_at, zn, zlength in *. destruct (i <? 0) eqn:Ei; [lia|].
  set (n := Z.to_nat i). assert (Hn : (n < length l)%nat) by lia.
  assert (length (firstn n l) = n) by (apply firstn_length_le; lia).
  rewrite app_nth2 by lia. rewrite H0, Nat.sub_diag.
  destruct (skipn n l) as [|x r] eqn:Es; [|reflexivity].
  exfalso. assert (length (skipn n l) = 0%nat) by now rewrite Es. rewrite skipn_length in H1. lia.
Qed.

Lemma fold_set_at_length {A} (f : A -> Z) (g : A -> Z) : forall row init,
  length (fold_left (fun next e => set_at next (f e) (g e)) row init) = length init.
Proof. induction row as [|e row IH]; intro init; cbn [fold_left]; [reflexivity|]. now rewrite IH, set_at_length. Qed.

Lemma nodupz_NoDup l : nodupz l = true -> NoDup l.
Proof.
  induction l as [|x l IH]; intro H; [constructor|]. cbn [nodupz] in H. apply andb_true_iff in H.
  destruct H as [H1 H2]. apply negb_true_iff, memz_nIn in H1. constructor; [exact H1|exact (IH H2)].
Qed.

(* writing a row with distinct, in-range terminals into an array *)
Lemma fold_set_at_zn (g : Z * Z -> Z) : forall (row : list (Z * Z)) init x,
  NoDup (map fst row) -> (forall e, In e row -> 0 <= fst e < zlength init) ->
  zn (fold_left (fun next e => set_at next (fst e) (g e)) row init) x =
  match find (fun e => fst e =? x) row with Some e => g e | None => zn init x end.
Proof.
  induction row as [|e row IH]; intros init x Hnd Hr; cbn [fold_left find]; [reflexivity|].
  cbn [map] in Hnd. apply NoDup_cons_iff in Hnd. destruct Hnd as [Hnot Hnd].
  rewrite IH; [|exact Hnd|].
  2:{ intros e' He'. unfold zlength. rewrite set_at_length. apply Hr. now right. }
  destruct (fst e =? x) eqn:E.
  - apply Z.eqb_eq in E.
    destruct (find (fun e0 => fst e0 =? x) row) as [e'|] eqn:Ef.
    + exfalso. apply find_some in Ef. destruct Ef as [Hin He']. apply Z.eqb_eq in He'.
      apply Hnot. apply in_map_iff. exists e'. split; [lia|exact Hin].
    + rewrite <- E. apply zn_set_at_same. apply Hr. now left.
  - apply Z.eqb_neq in E. destruct (find (fun e0 => fst e0 =? x) row); [reflexivity|].
    apply zn_set_at_other. lia.
Qed.

(* ---------- Lalr rows ---------- *)
Lemma lalr_walk_row l x : forall fuel a, 0 <= a -> Z.of_nat (length l) - a <= Z.of_nat fuel ->
  lalr_walk (S fuel) l a x =
  match find (fun e => fst e =? x) (lalr_row (S fuel) l a) with
  | Some e => snd e
  | None => zn l (a + 2 * Z.of_nat (length (lalr_row (S fuel) l a)) + 1)
  end.
Proof.
  induction fuel as [|f IH]; intros a Ha Hf.
  - cbn [lalr_walk lalr_row]. assert (Hz : zn l a = -1000000) by (apply zn_out; unfold zlength; lia).
    rewrite Hz. cbn. f_equal. lia.
  - remember (S f) as f1 eqn:Ef1. cbn [lalr_walk lalr_row].
    destruct (zn l a >=? 0) eqn:E1; cbn [andb].
    + destruct (zn l a =? x) eqn:E2; cbn [negb find fst].
      * rewrite E2. reflexivity.
      * rewrite E2. subst f1. rewrite IH by lia. cbn [length].
        destruct (find _ _); [reflexivity|]. f_equal. lia.
    + cbn [find length]. f_equal. lia.
Qed.

Lemma lalr_row_terms l : forall fuel a e, In e (lalr_row fuel l a) -> 0 <= fst e.
Proof.
  induction fuel as [|f IH]; intros a e H; [contradiction|]. cbn [lalr_row] in H.
  destruct (zn l a >=? 0) eqn:E; [|contradiction]. destruct H as [<-|H]; [cbn; lia|exact (IH _ _ H)].
Qed.

(* ---------- the action side ---------- *)
Lemma decode_raw_shift q : 0 <= q -> decode_raw (-2 - q) = Shift q.
Proof.
  intro H. unfold decode_raw. replace (-2 - q >=? 0) with false by lia.
  replace (-2 - q <? -1) with true by lia. f_equal. lia.
Qed.

Record row_ok (t : default_enc) (terms rules s : Z) (row : list (Z * Z)) : Prop := {
  ro_term : zn (d_lalr t) (- zn (d_action t) s - 3 + 2 * Z.of_nat (length row) + 1) = -2;
  ro_nodup : NoDup (map fst row);
  ro_ent : forall e, In e row -> 0 <= fst e < terms /\ -2 <= snd e < rules /\
             (snd e = -1 -> 0 <= goto_state t s (fst e) < zlength (d_action t))
}.

Lemma wf_row_ok t terms rules s : wf_row t terms rules s = true -> zn (d_action t) s < -2 ->
  row_ok t terms rules s (lalr_row (S (length (d_lalr t))) (d_lalr t) (- zn (d_action t) s - 3)).
Proof.
  unfold wf_row. intros H Hlt. replace (zn (d_action t) s <? -2) with true in H by lia.
  apply andb_true_iff in H. destruct H as [H H3]. apply andb_true_iff in H. destruct H as [H1 H2].
  constructor.
  - now apply Z.eqb_eq.
  - now apply nodupz_NoDup.
  - intros e He. rewrite forallb_forall in H3. specialize (H3 e He).
    pose proof (lalr_row_terms _ _ _ _ He).
    apply andb_true_iff in H3. destruct H3 as [H3 H7]. apply andb_true_iff in H3. destruct H3 as [H3 H6].
    apply andb_true_iff in H3. destruct H3 as [H4 H5].
    split; [lia|]. split; [lia|]. intro E. rewrite E in H7. cbn in H7. apply andb_true_iff in H7. lia.
Qed.

(* the translation of one row action into the displacement value *)
Definition row_val (t : default_enc) (s : Z) (e : Z * Z) : Z :=
  if snd e =? -1 then -2 - goto_state t s (fst e) else if snd e =? -2 then -1 else snd e.

Lemma fold_left_ext {A B} (f g : A -> B -> A) : (forall a b, f a b = g a b) ->
  forall l i, fold_left f l i = fold_left g l i.
Proof. intros H l. induction l as [|x l IH]; intro i; cbn [fold_left]; [reflexivity|]. now rewrite H, IH. Qed.

Lemma state_next_row_eq t terms rules states s : zn (d_action t) s < -2 ->
  state_next t terms rules states false s =
  inr (fold_left (fun next e => set_at next (fst e) (row_val t s e))
         (lalr_row (S (length (d_lalr t))) (d_lalr t) (- zn (d_action t) s - 3))
         (map (fun _ => -1) (zseq terms))).
Proof.
  intro H. unfold state_next. replace (zn (d_action t) s >=? 0) with false by lia.
  replace (zn (d_action t) s =? -1) with false by lia. replace (zn (d_action t) s =? -2) with false by lia.
  f_equal. apply fold_left_ext. intros next [term a]. reflexivity.
Qed.

Lemma fold_left_length {B} (F : list Z -> B -> list Z) : (forall n e, length (F n e) = length n) ->
  forall row init, length (fold_left F row init) = length init.
Proof. intros HF row. induction row as [|e row IH]; intro init; cbn [fold_left]; [reflexivity|]. now rewrite IH, HF. Qed.

Lemma state_next_len t terms rules states dr s next : 0 <= terms ->
  state_next t terms rules states dr s = inr next -> zlength next = terms.
Proof.
  intros Ht. unfold state_next.
  destruct (zn (d_action t) s >=? 0); [discriminate|].
  destruct (zn (d_action t) s =? -1).
  { intros [= <-]. unfold zlength. now apply zlength_map_zseq. }
  destruct (zn (d_action t) s =? -2); [discriminate|].
  set (row := lalr_row _ _ _). set (init := map _ (zseq terms)).
  set (F := fun (next : list Z) '(term, a) => set_at next term _).
  assert (Hl : length (fold_left F row init) = Z.to_nat terms).
  { rewrite fold_left_length; [unfold init; now rewrite map_length, zseq_length|].
    intros n [term a]. apply set_at_length. }
  destruct dr.
  - destruct (fold_left _ (zseq rules) _) as [def mx]. intros [= <-]. unfold zlength. rewrite map_length, Hl. lia.
  - intros [= <-]. unfold zlength. rewrite Hl. lia.
Qed.

Lemma state_next_simple t terms rules states dr s : -2 <= zn (d_action t) s ->
  state_next t terms rules states dr s =
  if zn (d_action t) s >=? 0 then inl (zn (d_action t) s)
  else if zn (d_action t) s =? -1 then
    inr (map (fun i => let q := goto_state t s i in if q >=? 0 then -2 - q else -1) (zseq terms))
  else inl (-1).
Proof.
  intro H. unfold state_next. destruct (zn (d_action t) s >=? 0) eqn:E0; [reflexivity|].
  destruct (zn (d_action t) s =? -1) eqn:E1; [reflexivity|]. now replace (zn (d_action t) s =? -2) with true by lia.
Qed.

(* without defaultReduce the line of a state is the non-optimized action function *)
Theorem state_val_default t terms rules s a : 0 <= terms -> wf_row t terms rules s = true -> 0 <= a < terms ->
  decode_raw (state_val t terms rules false s a) = action_default t s a.
Proof.
  intros Ht Hwf Ha. unfold state_val, action_default.
  destruct (Z_lt_le_dec (zn (d_action t) s) (-2)) as [Hlt|Hge].
  - rewrite state_next_row_eq by exact Hlt.
    replace (zn (d_action t) s <? -2) with true by lia.
    pose proof (wf_row_ok _ _ _ _ Hwf Hlt) as [R1 R2 R3].
    unfold lalr_lookup. rewrite lalr_walk_row by lia.
    set (row := lalr_row _ _ _) in *.
    rewrite fold_set_at_zn; [|exact R2|].
    2:{ intros e He. destruct (R3 e He) as [H1 _]. unfold zlength. rewrite zlength_map_zseq by lia. exact H1. }
    destruct (find (fun e => fst e =? a) row) as [e|] eqn:Ef.
    + apply find_some in Ef. destruct Ef as [He Hfa]. apply Z.eqb_eq in Hfa.
      destruct (R3 e He) as [_ [H2 H3]]. unfold row_val.
      destruct (snd e =? -1) eqn:E1.
      * apply Z.eqb_eq in E1. specialize (H3 E1). rewrite decode_raw_shift by lia.
        replace (snd e >=? 0) with false by lia. rewrite Hfa in *. cbv zeta.
        now replace (goto_state t s a >=? 0) with true by lia.
      * apply Z.eqb_neq in E1. destruct (snd e =? -2) eqn:E2.
        -- apply Z.eqb_eq in E2. replace (snd e >=? 0) with false by lia. reflexivity.
        -- apply Z.eqb_neq in E2. unfold decode_raw. now replace (snd e >=? 0) with true by lia.
    + rewrite R1. rewrite zn_map_zseq by lia. reflexivity.
  - rewrite state_next_simple by lia. replace (zn (d_action t) s <? -2) with false by lia.
    destruct (zn (d_action t) s >=? 0) eqn:E0; [unfold decode_raw; now rewrite E0|].
    destruct (zn (d_action t) s =? -1) eqn:E1.
    + rewrite zn_map_zseq by lia. cbv zeta. destruct (goto_state t s a >=? 0) eqn:Eq.
      * apply decode_raw_shift. lia.
      * reflexivity.
    + replace (zn (d_action t) s =? -2) with true by lia. reflexivity.
Qed.

(* ---------- the goto side ---------- *)
Fixpoint gl_fill (ft : list Z) (mx : Z) (fuel : nat) (i : Z) (arr : list Z) : list Z :=
  match fuel with
  | O => arr
  | S f => if i <? mx then gl_fill ft mx f (i + 2) (set_at arr (zn ft i) (zn ft (i + 1))) else arr
  end.

Lemma fill_eq ft mx : forall fuel i arr,
  (fix fill (fuel : nat) (i : Z) (arr : list Z) {struct fuel} : list Z :=
     match fuel with
     | O => arr
     | S f => if i <? mx then fill f (i + 2) (set_at arr (zn ft i) (zn ft (i + 1))) else arr
     end) fuel i arr = gl_fill ft mx fuel i arr.
Proof.
  induction fuel as [|f IH]; intros i arr; [reflexivity|]. cbn [gl_fill]. rewrite <- IH. reflexivity.
Qed.

Lemma goto_line_eq t terms states nt :
  goto_line t terms states nt =
  gl_fill (d_from_to t) (zn (d_goto t) (terms + nt + 1)) (S (length (d_from_to t)))
          (zn (d_goto t) (terms + nt)) (map (fun _ => -1) (zseq states)).
Proof.
  exact (fill_eq (d_from_to t) (zn (d_goto t) (terms + nt + 1)) (S (length (d_from_to t)))
                 (zn (d_goto t) (terms + nt)) (map (fun _ => -1) (zseq states))).
Qed.

Lemma gl_fill_length ft mx : forall fuel i arr, length (gl_fill ft mx fuel i arr) = length arr.
Proof.
  induction fuel as [|f IH]; intros i arr; cbn [gl_fill]; [reflexivity|].
  destruct (i <? mx); [|reflexivity]. now rewrite IH, set_at_length.
Qed.

Section Seg.
Variables (ft : list Z) (mn cnt states : Z).
Let from (k : Z) : Z := zn ft (mn + 2 * k).
Let to (k : Z) : Z := zn ft (mn + 2 * k + 1).
Let mx : Z := mn + 2 * cnt.
Hypothesis Hmono : forall k, 0 <= k -> k + 1 < cnt -> from k < from (k + 1).
Hypothesis Hrange : forall k, 0 <= k < cnt -> 0 <= from k < states.

Lemma seg_mono_nat : forall (n : nat) k, 0 <= k -> k + 1 + Z.of_nat n < cnt -> from k < from (k + 1 + Z.of_nat n).
Proof.
  induction n as [|n IH]; intros k Hk Hlt.
  - replace (k + 1 + Z.of_nat 0) with (k + 1) by lia. apply Hmono; lia.
  - specialize (IH k Hk ltac:(lia)).
    pose proof (Hmono (k + 1 + Z.of_nat n) ltac:(lia) ltac:(lia)).
    replace (k + 1 + Z.of_nat (S n)) with (k + 1 + Z.of_nat n + 1) by lia. lia.
Qed.

Lemma seg_mono k k' : 0 <= k < k' -> k' < cnt -> from k < from k'.
Proof.
  intros H H'. replace k' with (k + 1 + Z.of_nat (Z.to_nat (k' - k - 1))) by lia.
  apply seg_mono_nat; lia.
Qed.

Lemma seg_inj k k' : 0 <= k < cnt -> 0 <= k' < cnt -> from k = from k' -> k = k'.
Proof.
  intros H H' E. destruct (Z.lt_trichotomy k k') as [L|[L|L]]; [|exact L|].
  - pose proof (seg_mono k k' ltac:(lia) ltac:(lia)). lia.
  - pose proof (seg_mono k' k ltac:(lia) ltac:(lia)). lia.
Qed.

Lemma fill_spec s : forall fuel k arr, 0 <= k <= cnt -> cnt - k < Z.of_nat fuel -> zlength arr = states ->
  (forall k', k <= k' < cnt -> from k' = s -> zn (gl_fill ft mx fuel (mn + 2 * k) arr) s = to k') /\
  ((forall k', k <= k' < cnt -> from k' <> s) -> zn (gl_fill ft mx fuel (mn + 2 * k) arr) s = zn arr s).
Proof.
  induction fuel as [|f IH]; intros k arr Hk Hf Hl; [lia|]. cbn [gl_fill].
  destruct (mn + 2 * k <? mx) eqn:E.
  - assert (Hkc : k < cnt) by (unfold mx in E; lia).
    replace (mn + 2 * k + 2) with (mn + 2 * (k + 1)) by lia.
    fold (from k). fold (to k).
    destruct (IH (k + 1) (set_at arr (from k) (to k)) ltac:(lia) ltac:(lia)) as [I1 I2].
    { unfold zlength. rewrite set_at_length. exact Hl. }
    split.
    + intros k' Hk' Hfs. destruct (Z.eq_dec k' k) as [->|Hne].
      * rewrite I2.
        -- rewrite <- Hfs. apply zn_set_at_same. rewrite Hl. apply Hrange. lia.
        -- intros k'' Hk'' Hc. pose proof (seg_mono k k'' ltac:(lia) ltac:(lia)). lia.
      * apply I1; [lia|exact Hfs].
    + intro Hno. rewrite I2 by (intros k' Hk'; apply Hno; lia).
      apply zn_set_at_other. intro Hc. apply (Hno k ltac:(lia)). now symmetry.
  - split; [intros k' Hk'; unfold mx in E; lia|reflexivity].
Qed.

Lemma linear_spec s : forall fuel k, 0 <= k <= cnt -> cnt - k < Z.of_nat fuel ->
  (forall k', k <= k' < cnt -> from k' = s -> goto_linear fuel ft (mn + 2 * k) mx s = to k') /\
  ((forall k', k <= k' < cnt -> from k' <> s) -> goto_linear fuel ft (mn + 2 * k) mx s = -1).
Proof.
  induction fuel as [|f IH]; intros k Hk Hf; [lia|]. cbn [goto_linear].
  destruct (mn + 2 * k <? mx) eqn:E.
  - assert (Hkc : k < cnt) by (unfold mx in E; lia).
    replace (mn + 2 * k + 2) with (mn + 2 * (k + 1)) by lia.
    fold (from k). fold (to k).
    destruct (IH (k + 1) ltac:(lia) ltac:(lia)) as [I1 I2].
    destruct (from k =? s) eqn:Es.
    + apply Z.eqb_eq in Es. split.
      * intros k' Hk' Hfs. now rewrite (seg_inj k' k ltac:(lia) ltac:(lia) ltac:(lia)).
      * intro Hno. exfalso. exact (Hno k ltac:(lia) Es).
    + apply Z.eqb_neq in Es. split.
      * intros k' Hk' Hfs. apply I1; [|exact Hfs]. assert (k' <> k) by congruence. lia.
      * intro Hno. apply I2. intros k' Hk'. apply Hno. lia.
  - split; [intros k' Hk'; unfold mx in E; lia|reflexivity].
Qed.

Hypothesis Heven : Z.even mn = true.

Lemma binary_mid lo hi : Z.shiftr (mn + 2 * lo + (mn + 2 * hi)) 1 / 2 * 2 = mn + 2 * ((lo + hi) / 2).
Proof.
  rewrite Z.shiftr_div_pow2 by lia. change (2 ^ 1) with 2.
  apply Z.even_spec in Heven. destruct Heven as [h Hh]. rewrite Hh.
  Z.div_mod_to_equations. lia.
Qed.

Lemma binary_spec s : forall fuel lo hi, 0 <= lo <= hi -> hi <= cnt -> hi - lo < Z.of_nat fuel ->
  (forall k', lo <= k' < hi -> from k' = s -> goto_binary fuel ft (mn + 2 * lo) (mn + 2 * hi) s = to k') /\
  ((forall k', lo <= k' < hi -> from k' <> s) -> goto_binary fuel ft (mn + 2 * lo) (mn + 2 * hi) s = -1).
Proof.
  induction fuel as [|f IH]; intros lo hi Hlo Hhi Hf; [lia|]. cbn [goto_binary].
  destruct (mn + 2 * lo <? mn + 2 * hi) eqn:E.
  - assert (Hlh : lo < hi) by lia. cbv zeta. rewrite binary_mid.
    set (m := (lo + hi) / 2). assert (Hm : lo <= m < hi) by (unfold m; Z.div_mod_to_equations; lia).
    fold (from m). fold (to m).
    replace (mn + 2 * m + 2) with (mn + 2 * (m + 1)) by lia.
    destruct (IH (m + 1) hi ltac:(lia) ltac:(lia) ltac:(lia)) as [U1 U2].
    destruct (IH lo m ltac:(lia) ltac:(lia) ltac:(lia)) as [D1 D2].
    destruct (from m =? s) eqn:Es.
    + apply Z.eqb_eq in Es. split.
      * intros k' Hk' Hfs. now rewrite (seg_inj k' m ltac:(lia) ltac:(lia) ltac:(lia)).
      * intro Hno. exfalso. exact (Hno m ltac:(lia) Es).
    + apply Z.eqb_neq in Es. destruct (from m <? s) eqn:El.
      * split.
        -- intros k' Hk' Hfs. apply U1; [|exact Hfs].
           destruct (Z_lt_le_dec k' m) as [L|L]; [|assert (k' <> m) by congruence; lia].
           pose proof (seg_mono k' m ltac:(lia) ltac:(lia)). lia.
        -- intro Hno. apply U2. intros k' Hk'. apply Hno. lia.
      * split.
        -- intros k' Hk' Hfs. apply D1; [|exact Hfs].
           destruct (Z_lt_le_dec m k') as [L|L]; [|assert (k' <> m) by congruence; lia].
           pose proof (seg_mono m k' ltac:(lia) ltac:(lia)). lia.
        -- intro Hno. apply D2. intros k' Hk'. apply Hno. lia.
  - split; [intros k' Hk'; lia|reflexivity].
Qed.
End Seg.

Record seg_ok (t : default_enc) (x cnt : Z) : Prop := {
  so_mn : 0 <= zn (d_goto t) x;
  so_cnt : 0 <= cnt;
  so_mx : zn (d_goto t) (x + 1) = zn (d_goto t) x + 2 * cnt;
  so_len : zn (d_goto t) x + 2 * cnt <= zlength (d_from_to t);
  so_even : Z.even (zn (d_goto t) x) = true;
  so_mono : forall k, 0 <= k -> k + 1 < cnt ->
     zn (d_from_to t) (zn (d_goto t) x + 2 * k) < zn (d_from_to t) (zn (d_goto t) x + 2 * (k + 1));
  so_range : forall k, 0 <= k < cnt ->
     0 <= zn (d_from_to t) (zn (d_goto t) x + 2 * k) < zlength (d_action t)
}.

Lemma wf_seg_ok t x : wf_seg t x = true -> seg_ok t x ((zn (d_goto t) (x + 1) - zn (d_goto t) x) / 2).
Proof.
  unfold wf_seg. set (mn := zn (d_goto t) x). set (mx := zn (d_goto t) (x + 1)). intro H.
  apply andb_true_iff in H. destruct H as [H H1]. apply andb_true_iff in H. destruct H as [H H2].
  apply andb_true_iff in H. destruct H as [H H3]. apply andb_true_iff in H. destruct H as [H H4].
  apply andb_true_iff in H. destruct H as [H6 H5].
  apply Z.even_spec in H3 as Hemn. apply Z.even_spec in H2 as Hemx.
  destruct Hemn as [a Ha], Hemx as [b Hb].
  assert (Hc : (mx - mn) / 2 = b - a) by (rewrite Ha, Hb; Z.div_mod_to_equations; lia).
  rewrite Hc. rewrite Hc in H1. rewrite forallb_forall in H1.
  constructor; fold mn; fold mx; clearbody mn mx; try lia; try assumption.
  - intros k Hk Hk1. assert (Hin : In k (zseq (b - a))) by (apply in_zseq; lia).
    specialize (H1 k Hin). cbv zeta in H1.
    apply andb_true_iff in H1. destruct H1 as [_ H1].
    replace (mn + 2 * k + 2 <? mx) with true in H1 by lia.
    replace (mn + 2 * (k + 1)) with (mn + 2 * k + 2) by lia. lia.
  - intros k Hk. assert (Hin : In k (zseq (b - a))) by (apply in_zseq; lia).
    specialize (H1 k Hin). cbv zeta in H1.
    apply andb_true_iff in H1. destruct H1 as [H1 _]. apply andb_true_iff in H1. lia.
Qed.

(* the line of a nonterminal is the non-optimized goto function (linear and binary search alike) *)
Theorem goto_line_state t terms nt s : wf_seg t (terms + nt) = true -> 0 <= s < zlength (d_action t) ->
  zn (goto_line t terms (zlength (d_action t)) nt) s = goto_state t s (terms + nt).
Proof.
  intros Hwf Hs. pose proof (wf_seg_ok _ _ Hwf) as [S1 S2 S3 S4 S5 S6 S7].
  set (cnt := (zn (d_goto t) (terms + nt + 1) - zn (d_goto t) (terms + nt)) / 2) in *.
  rewrite goto_line_eq. unfold goto_state. rewrite S3.
  set (mn := zn (d_goto t) (terms + nt)) in *. set (ft := d_from_to t) in *.
  set (init := map (fun _ => -1) (zseq (zlength (d_action t)))).
  assert (Hfuel : cnt - 0 < Z.of_nat (S (length ft))) by (unfold zlength in S4; lia).
  assert (Hinit : zlength init = zlength (d_action t)).
  { unfold init, zlength at 1. apply zlength_map_zseq. apply zlength_nonneg. }
  destruct (fill_spec ft mn cnt _ S6 S7 s _ 0 init ltac:(lia) Hfuel Hinit) as [F1 F2].
  destruct (linear_spec ft mn cnt S6 s _ 0 ltac:(lia) Hfuel) as [L1 L2].
  destruct (binary_spec ft mn cnt _ S6 S7 S5 s (S (length ft)) 0 cnt ltac:(lia) ltac:(lia) Hfuel) as [B1 B2].
  replace (mn + 2 * 0) with mn in * by lia.
  destruct (existsb (fun k => zn ft (mn + 2 * k) =? s) (zseq cnt)) eqn:Eex.
  - apply existsb_exists in Eex. destruct Eex as [k [Hk Hks]]. apply in_zseq in Hk. apply Z.eqb_eq in Hks.
    rewrite (F1 k Hk Hks). destruct (mn + 2 * cnt - mn <? 32); symmetry; [exact (L1 k Hk Hks)|exact (B1 k Hk Hks)].
  - assert (Hno : forall k, 0 <= k < cnt -> zn ft (mn + 2 * k) <> s).
    { intros k Hk Hc. assert (existsb (fun k => zn ft (mn + 2 * k) =? s) (zseq cnt) = true); [|congruence].
      apply existsb_exists. exists k. split; [now apply in_zseq|now apply Z.eqb_eq]. }
    rewrite (F2 Hno). unfold init. rewrite zn_map_zseq by exact Hs.
    destruct (mn + 2 * cnt - mn <? 32); symmetry; [exact (L2 Hno)|exact (B2 Hno)].
Qed.

Lemma goto_line_zlength t terms states nt : 0 <= states -> zlength (goto_line t terms states nt) = states.
Proof.
  intro H. rewrite goto_line_eq. unfold zlength. rewrite gl_fill_length. now apply zlength_map_zseq.
Qed.

(* ---------- the model of lalr.Optimize passes the exhaustive validator, for all well-formed tables ---------- *)
Lemma wf_enc_parts t terms rules : wf_enc t terms rules = true ->
  0 <= terms /\
  (forall s, 0 <= s < zlength (d_action t) -> wf_row t terms rules s = true) /\
  (forall nt, 0 <= nt < zlength (d_goto t) - 1 - terms ->
     wf_seg t (terms + nt) = true /\
     exists s0, 0 <= s0 < zlength (d_action t) /\
       (goto_state t s0 (terms + nt) < 0 \/ goto_state t s0 (terms + nt) <> goto_state t 0 (terms + nt))).
Proof.
  unfold wf_enc, wf_enc_nogap. intro H.
  apply andb_true_iff in H. destruct H as [H H4]. apply andb_true_iff in H. destruct H as [H H3].
  apply andb_true_iff in H. destruct H as [H1 H2].
  rewrite forallb_forall in H2, H3, H4.
  split; [lia|]. split.
  - intros s Hs. apply H2. now apply in_zseq.
  - intros nt Hnt.
    assert (Hin : In (terms + nt) (map (fun i => terms + i) (zseq (zlength (d_goto t) - 1 - terms))))
      by (apply in_map; now apply in_zseq).
    split; [exact (H3 _ Hin)|].
    specialize (H4 _ Hin). unfold seg_fallback_ok, seg_has_gap, seg_not_constant in H4.
    apply orb_true_iff in H4. destruct H4 as [H4|H4]; apply existsb_exists in H4;
      destruct H4 as [s0 [Hs0 Hp]]; apply in_zseq in Hs0; exists s0; (split; [exact Hs0|]).
    + left. lia.
    + right. apply negb_true_iff, Z.eqb_neq in Hp. exact Hp.
Qed.

Theorem optimize_gotos_agree t terms rules dr : wf_enc t terms rules = true ->
  forall s x q, 0 <= s < zlength (d_action t) -> terms <= x < zlength (d_goto t) - 1 ->
  goto_state t s x = q -> 0 <= q -> goto_opt (optimize t terms rules dr) terms s x = q.
Proof.
  intros Hwf s x q Hs Hx Hq Hq0. destruct (wf_enc_parts _ _ _ Hwf) as [Ht [_ Hsegs]].
  destruct (Hsegs (x - terms) ltac:(lia)) as [Hseg [s0 [Hs0 Hgap]]].
  replace (terms + (x - terms)) with x in * by lia.
  pose proof (goto_opt_optimize t terms rules dr s (x - terms) Ht Hs ltac:(lia)
                (goto_line_zlength _ _ _ _ (zlength_nonneg _))) as Hdec.
  cbv zeta in Hdec. replace (terms + (x - terms)) with x in * by lia.
  pose proof (goto_line_state t terms (x - terms) s) as Hst.
  pose proof (goto_line_state t terms (x - terms) s0) as Hst0.
  pose proof (goto_line_state t terms (x - terms) 0) as Hst00.
  replace (terms + (x - terms)) with x in * by lia.
  specialize (Hst Hseg Hs). specialize (Hst0 Hseg Hs0). specialize (Hst00 Hseg ltac:(lia)).
  destruct Hdec as [Hdec|Hall].
  - rewrite Hdec, Hst. exact Hq.
  - exfalso. pose proof (Hall s0 Hs0). pose proof (Hall 0 ltac:(lia)). lia.
Qed.

Theorem optimize_actions_agree t terms rules : wf_enc t terms rules = true ->
  forall s a, 0 <= s < zlength (d_action t) -> 0 <= a < terms ->
  action_opt (optimize t terms rules false) s a = action_default t s a.
Proof.
  intros Hwf s a Hs Ha. destruct (wf_enc_parts _ _ _ Hwf) as [Ht [Hrows _]].
  rewrite action_opt_raw, raw_act_optimize; [|intros next; now apply state_next_len|exact Hs|exact Ha].
  apply state_val_default; [exact Ht|exact (Hrows s Hs)|exact Ha].
Qed.

Theorem optimize_passes_check_enc t terms rules : wf_enc t terms rules = true ->
  check_enc t (optimize t terms rules false) terms = true.
Proof.
  intro Hwf. unfold check_enc. apply andb_true_iff. split.
  - apply forallb_forall. intros s Hs. apply forallb_forall. intros a Ha.
    apply in_zseq in Hs, Ha. apply act_eqb_eq. now apply optimize_actions_agree.
  - apply forallb_forall. intros s Hs. apply forallb_forall. intros x Hx.
    apply in_zseq in Hs. apply in_map_iff in Hx. destruct Hx as [i [<- Hi]]. apply in_zseq in Hi.
    destruct (goto_state t s (terms + i) >=? 0) eqn:E; [|reflexivity].
    apply Z.eqb_eq. apply (optimize_gotos_agree t terms rules false Hwf); [exact Hs|lia|reflexivity|lia].
Qed.

(* hence: decoding agreement for all cells and gotos, with no per-table check *)
Corollary optimize_decodes_identically t terms rules : wf_enc t terms rules = true ->
  (forall s a, 0 <= s < zlength (d_action t) -> 0 <= a < terms ->
     action_opt (optimize t terms rules false) s a = action_default t s a) /\
  (forall s x q, 0 <= s < zlength (d_action t) -> terms <= x < zlength (d_goto t) - 1 ->
     goto_state t s x = q -> 0 <= q -> goto_opt (optimize t terms rules false) terms s x = q).
Proof. intro H. apply check_enc_sound. now apply optimize_passes_check_enc. Qed.

(* ================= defaultReduce ================= *)
Lemma zn_map (f : Z -> Z) l i : 0 <= i < zlength l -> zn (map f l) i = f (zn l i).
Proof.
  intro H. unfold zn, zlength in *. destruct (i <? 0) eqn:E; [lia|].
  rewrite (nth_indep _ _ (f (-1000000))) by (rewrite map_length; lia). apply map_nth.
Qed.

Lemma lalr_find_row l x : forall fuel a,
  lalr_find fuel l a x = option_map snd (find (fun e => fst e =? x) (lalr_row fuel l a)).
Proof.
  induction fuel as [|f IH]; intro a; cbn [lalr_find lalr_row]; [reflexivity|].
  destruct (zn l a >=? 0); [|reflexivity]. cbn [find fst].
  destruct (zn l a =? x); [reflexivity|apply IH].
Qed.

(* the most common reduction of a row (smallest rule on ties), -1 when there is none *)
Definition dr_step (reds : list Z) : Z * Z -> Z -> Z * Z :=
  fun '(def, mx) rule => let v := count_of rule reds in if v >? mx then (rule, v) else (def, mx).

Definition dr_def (rules : Z) (reds : list Z) : Z := fst (fold_left (dr_step reds) (zseq rules) (-1, 0)).

Lemma dr_fold_spec reds : forall l d0 m0,
  let r := fold_left (dr_step reds) l (d0, m0) in
  m0 <= snd r /\ (forall x, In x l -> count_of x reds <= snd r) /\
  (r = (d0, m0) \/ (In (fst r) l /\ count_of (fst r) reds = snd r /\ m0 < snd r)).
Proof.
  induction l as [|x l IH]; intros d0 m0; cbn [fold_left].
  - cbn. split; [lia|]. split; [tauto|now left].
  - cbn [dr_step]. cbv zeta. destruct (count_of x reds >? m0) eqn:E.
    + destruct (IH x (count_of x reds)) as [H1 [H2 H3]]. cbv zeta in *.
      set (r := fold_left (dr_step reds) l (x, count_of x reds)) in *.
      split; [lia|]. split.
      * intros y [<-|Hy]; [lia|exact (H2 y Hy)].
      * right. destruct H3 as [->|[H3 [H4 H5]]].
        -- cbn. split; [now left|]. split; [reflexivity|lia].
        -- split; [now right|]. split; [exact H4|lia].
    + destruct (IH d0 m0) as [H1 [H2 H3]]. cbv zeta in *.
      set (r := fold_left (dr_step reds) l (d0, m0)) in *.
      split; [lia|]. split.
      * intros y [<-|Hy]; [lia|exact (H2 y Hy)].
      * destruct H3 as [H3|[H3 [H4 H5]]]; [now left|]. right. split; [now right|]. split; [exact H4|lia].
Qed.

Lemma count_of_pos r l : In r l -> 0 < count_of r l.
Proof.
  unfold count_of. induction l as [|x l IH]; intro H; [contradiction|]. cbn [filter].
  destruct H as [->|H].
  - rewrite Z.eqb_refl. cbn [length]. lia.
  - specialize (IH H). destruct (r =? x); cbn [length]; lia.
Qed.

Lemma count_of_nonneg r l : 0 <= count_of r l.
Proof. unfold count_of. lia. Qed.

(* what the defaultReduce default is, relative to the validator's notion of "most frequent" *)
Lemma dr_def_spec rules reds : (forall r, In r reds -> 0 <= r < rules) ->
  (dr_def rules reds = -1 /\ reds = []) \/
  (0 <= dr_def rules reds < rules /\ is_most_frequent (dr_def rules reds) reds = true).
Proof.
  intro Hr. unfold dr_def. destruct (dr_fold_spec reds (zseq rules) (-1) 0) as [H1 [H2 H3]]. cbv zeta in *.
  set (r := fold_left (dr_step reds) (zseq rules) (-1, 0)) in *.
  destruct H3 as [H3|[H3 [H4 H5]]].
  - left. rewrite H3. cbn [fst]. split; [reflexivity|]. rewrite H3 in H2. cbn [snd] in H2.
    destruct reds as [|x reds]; [reflexivity|]. exfalso.
    pose proof (count_of_pos x (x :: reds) (or_introl eq_refl)).
    specialize (H2 x (proj2 (in_zseq _ _) (Hr x (or_introl eq_refl)))). lia.
  - right. apply in_zseq in H3. split; [exact H3|].
    unfold is_most_frequent. apply andb_true_iff. split; [lia|].
    apply forallb_forall. intros x Hx. specialize (H2 x (proj2 (in_zseq _ _) (Hr x Hx))). lia.
Qed.

Lemma state_next_row_eq_dr t terms rules states s : zn (d_action t) s < -2 ->
  state_next t terms rules states true s =
  inr (map (fun v => if v =? -2 - states then dr_def rules (row_reductions t s) else v)
        (fold_left (fun next e => set_at next (fst e) (row_val t s e))
           (lalr_row (S (length (d_lalr t))) (d_lalr t) (- zn (d_action t) s - 3))
           (map (fun _ => -2 - states) (zseq terms)))).
Proof.
  intro H. unfold state_next, row_reductions, dr_def.
  replace (zn (d_action t) s >=? 0) with false by lia. replace (zn (d_action t) s <? -2) with true by lia.
  replace (zn (d_action t) s =? -1) with false by lia. replace (zn (d_action t) s =? -2) with false by lia.
  set (row := lalr_row _ _ _).
  rewrite (fold_left_ext _ (fun next e => set_at next (fst e) (row_val t s e))) by (intros next [term a]; reflexivity).
  change (fold_left _ (zseq rules) (-1, 0))
    with (fold_left (dr_step (filter (fun a => 0 <=? a) (map snd row))) (zseq rules) (-1, 0)).
  destruct (fold_left (dr_step _) (zseq rules) (-1, 0)) as [def mx]. reflexivity.
Qed.

Lemma act_eqb_refl x : act_eqb x x = true.
Proof. now apply act_eqb_eq. Qed.

Theorem optimize_cell_ok_dr t terms rules : wf_enc t terms rules = true ->
  forall s a, 0 <= s < zlength (d_action t) -> 0 <= a < terms ->
  cell_ok_dr t (optimize t terms rules true) s a = true.
Proof.
  intros Hwf s a Hs Ha. destruct (wf_enc_parts _ _ _ Hwf) as [Ht [Hrows _]].
  pose proof (Hrows s Hs) as Hrow. unfold cell_ok_dr.
  rewrite action_opt_raw, raw_act_optimize; [|intros next; now apply state_next_len|exact Hs|exact Ha].
  destruct (Z_lt_le_dec (zn (d_action t) s) (-2)) as [Hlt|Hge].
  - replace (zn (d_action t) s <? -2) with true by lia.
    pose proof (wf_row_ok _ _ _ _ Hrow Hlt) as [R1 R2 R3].
    unfold state_val. rewrite state_next_row_eq_dr by exact Hlt.
    unfold action_default. replace (zn (d_action t) s <? -2) with true by lia.
    unfold lalr_lookup. rewrite lalr_walk_row by lia. rewrite lalr_find_row.
    set (row := lalr_row _ _ _) in *.
    set (undef := -2 - zlength (d_action t)).
    assert (Hinit : zlength (map (fun _ => undef) (zseq terms)) = terms)
      by (unfold zlength; now apply zlength_map_zseq).
    rewrite zn_map by (unfold zlength in *; rewrite fold_set_at_length; lia).
    rewrite fold_set_at_zn; [|exact R2|].
    2:{ intros e He. destruct (R3 e He) as [H1 _]. rewrite Hinit. exact H1. }
    pose proof (zlength_nonneg (d_action t)) as Hst.
    destruct (find (fun e => fst e =? a) row) as [e|] eqn:Ef; cbn [option_map].
    + apply find_some in Ef. destruct Ef as [He Hfa]. apply Z.eqb_eq in Hfa.
      destruct (R3 e He) as [_ [H2 H3]]. unfold row_val.
      destruct (snd e =? -1) eqn:E1.
      * apply Z.eqb_eq in E1. specialize (H3 E1).
        replace (-2 - goto_state t s (fst e) =? undef) with false by (unfold undef; lia).
        rewrite decode_raw_shift by lia.
        replace (snd e >=? 0) with false by lia. rewrite Hfa in *. cbv zeta.
        replace (goto_state t s a >=? 0) with true by lia. apply act_eqb_refl.
      * apply Z.eqb_neq in E1. destruct (snd e =? -2) eqn:E2.
        -- apply Z.eqb_eq in E2. replace (-1 =? undef) with false by (unfold undef; lia).
           replace (snd e >=? 0) with false by lia. reflexivity.
        -- apply Z.eqb_neq in E2. replace (snd e =? undef) with false by (unfold undef; lia).
           unfold decode_raw. replace (snd e >=? 0) with true by lia. apply act_eqb_refl.
    + rewrite R1. rewrite zn_map_zseq by lia. rewrite (Z.eqb_refl undef).
      replace (-2 >=? 0) with false by reflexivity. replace (-2 =? -1) with false by reflexivity.
      replace (-2 =? -2) with true by reflexivity.
      assert (Hreds : forall r, In r (row_reductions t s) -> 0 <= r < rules).
      { intros r Hr. unfold row_reductions in Hr. replace (zn (d_action t) s <? -2) with true in Hr by lia.
        apply filter_In in Hr. destruct Hr as [Hr Hr0]. apply in_map_iff in Hr. destruct Hr as [e [<- He]].
        destruct (R3 e He) as [_ [H2 _]]. lia. }
      destruct (dr_def_spec rules _ Hreds) as [[Hd Hnil]|[Hd Hmf]].
      * rewrite Hd, Hnil. reflexivity.
      * unfold decode_raw. replace (dr_def rules (row_reductions t s) >=? 0) with true by lia. exact Hmf.
  - assert (Hsv : state_val t terms rules true s a = state_val t terms rules false s a)
      by (unfold state_val; now rewrite !state_next_simple by lia).
    rewrite Hsv, (state_val_default t terms rules s a Ht Hrow Ha).
    replace (zn (d_action t) s <? -2) with false by lia.
    destruct (action_default t s a); apply act_eqb_refl.
Qed.

Theorem optimize_passes_check_enc_dr t terms rules : wf_enc t terms rules = true ->
  check_enc_dr t (optimize t terms rules true) terms = true.
Proof.
  intro Hwf. unfold check_enc_dr. apply andb_true_iff. split.
  - apply forallb_forall. intros s Hs. apply forallb_forall. intros a Ha.
    apply in_zseq in Hs, Ha. now apply optimize_cell_ok_dr.
  - apply forallb_forall. intros s Hs. apply forallb_forall. intros x Hx.
    apply in_zseq in Hs. apply in_map_iff in Hx. destruct Hx as [i [<- Hi]]. apply in_zseq in Hi.
    destruct (goto_state t s (terms + i) >=? 0) eqn:E; [|reflexivity].
    apply Z.eqb_eq. apply (optimize_gotos_agree t terms rules true Hwf); [exact Hs|lia|reflexivity|lia].
Qed.

Corollary optimize_default_reduce_ok t terms rules : wf_enc t terms rules = true ->
  forall s a, 0 <= s < zlength (d_action t) -> 0 <= a < terms ->
  match action_default t s a with
  | Shift q => action_opt (optimize t terms rules true) s a = Shift q
  | Reduce r => action_opt (optimize t terms rules true) s a = Reduce r
  | Deep r => action_opt (optimize t terms rules true) s a = Deep r
  | Err =>
      (forall q, action_opt (optimize t terms rules true) s a <> Shift q) /\
      (zn (d_action t) s < -2 ->
       (exists v, lalr_find (S (length (d_lalr t))) (d_lalr t) (- zn (d_action t) s - 3) a = Some v) ->
       action_opt (optimize t terms rules true) s a = Err) /\
      (forall r, action_opt (optimize t terms rules true) s a = Reduce r ->
                 is_most_frequent r (row_reductions t s) = true)
  end.
Proof. intro H. apply check_enc_dr_sound. now apply optimize_passes_check_enc_dr. Qed.
