(* Model of the conflict resolution of lalr/compile.go: resolvePrec, ruleAction (without runtime-lookahead
   rules), the conflictBuilder bookkeeping, and the cell fold of populateTables. *)
From Coq Require Import List ZArith Bool.
From TM Require Import Gram.Cfg.
Import ListNotations.
Local Open Scope Z_scope.

(* resolution codes as in conflict.go *)
Definition res_none := 0. Definition do_shift := 1. Definition do_reduce := 2.
Definition do_error := 3. Definition res_conflict := 4.

Fixpoint prec_group_from (groups : list (Z * list Z)) (i : Z) (term : Z) (found : option (Z * Z)) : option (Z * Z) :=
  match groups with
  | [] => found
  | (assoc, terms) :: rest =>
      (* later declarations overwrite earlier ones in the precGroup map *)
      prec_group_from rest (i + 1) term (if mem term terms then Some (i, assoc) else found)
  end.

(* (group index, associativity) of a terminal *)
Definition prec_group (g : grammar) (term : Z) : option (Z * Z) := prec_group_from (g_prec g) 0 term None.

(* the precedence terminal of a rule: %prec, else the last terminal (> 0) of its right-hand side *)
Definition rule_prec (g : grammar) (r : Z) : Z :=
  let rl := rule_at g r in
  if negb (r_prec rl =? 0) then r_prec rl
  else match find (fun s => (0 <? s) && (s <? g_terms g)) (rev (r_rhs rl)) with Some s => s | None => 0 end.

Definition resolve_prec (g : grammar) (r : Z) (term : Z) : Z :=
  let rp := rule_prec g r in
  if (rp =? 0) || (term =? 0) then res_conflict else
  match prec_group g rp, prec_group g term with
  | Some (reduce, _), Some (shift, assoc) =>
      if reduce >? shift then do_reduce
      else if reduce <? shift then do_shift
      else if assoc =? 0 then do_reduce
      else if assoc =? 1 then do_shift
      else if assoc =? 2 then do_error
      else res_conflict
  | _, _ => res_conflict
  end.

(* the ambiguity record of one (state, terminal) cell *)
Record ambiguity := mkAmb { am_can_shift : bool; am_rules : list Z; am_res : Z }.

Definition amb_add (a : option ambiguity) (res : Z) (rule : Z) (can_shift : bool) : option ambiguity :=
  match a with
  | None => Some (mkAmb can_shift [rule] res)
  | Some a => let res' := if negb (am_res a =? res_none) && negb (am_res a =? res) then res_conflict else res in
              Some (mkAmb (am_can_shift a) (am_rules a ++ [rule]) res')
  end.

Definition has_conflict (a : option ambiguity) : bool :=
  match a with Some a => am_res a =? res_conflict | None => false end.

(* ruleAction: action is the cell's current content (-1 shift, -3 nonassoc error, >= 0 rule) *)
Definition rule_action (g : grammar) (action : Z) (term : Z) (rule : Z) (amb : option ambiguity) : Z * option ambiguity :=
  if has_conflict amb || (action =? -3) then (action, amb_add amb res_conflict rule true)
  else if action =? -1 then
    let res := resolve_prec g rule term in
    let amb := amb_add amb res rule true in
    (if res =? do_reduce then rule else if res =? do_error then -3 else -1, amb)
  else
    let amb := amb_add amb res_conflict rule false in
    let amb := amb_add amb res_conflict action false in
    (action, amb).

(* one cell: [has_shift] and the reducible rules with this terminal in their lookahead, in rule order *)
Definition merge_cell (g : grammar) (has_shift : bool) (term : Z) (rules : list Z) : Z * option ambiguity :=
  fold_left (fun '(action, amb) rule =>
      if action =? -2 then (rule, amb) else rule_action g action term rule amb)
    rules (if has_shift then -1 else -2, None).

Definition final_action (a : Z) : Z := if a =? -3 then -2 else a.
