(* C03: cheap boolean side conditions of the general theorems about the reference construction (LalrRef.v):
   build_done mirrors the recursion of build_loop and answers whether the work list ran empty before the fuel
   did; wf_grammar says rule heads are nonterminals and right-hand sides consist of symbols.  Definitions only
   (nothing here changes the extracted reference); the theorems are in LalrLoop_proofs.v / LalrFinals_proofs.v. *)
From Coq Require Import List ZArith Bool Arith.
From TM Require Import Gram.Cfg Gram.LalrRef Gram.LalrSpec.
Import ListNotations.
Local Open Scope Z_scope.

Fixpoint build_done (fuel : nat) (g : grammar) (a : automaton) (k : Z) : bool :=
  match fuel with
  | O => negb (k <? Z.of_nat (length (a_states a)))
  | S f => if k <? Z.of_nat (length (a_states a)) then build_done f g (expand_state g a k) (k + 1) else true
  end.

(* the LR(0) collection of build_automaton was completed within the fuel *)
Definition ref_done (g : grammar) (fuel : nat) : bool :=
  build_done fuel g (mkAut (map (fun inp => mkState [] (Some (fst inp)) 0) (g_inputs g)) []) 0.

Definition wf_grammar (g : grammar) : bool :=
  (0 <=? g_terms g) &&
  forallb (fun r => (g_terms g <=? r_lhs r) && (r_lhs r <? g_terms g + g_nonterms g) &&
                    forallb (fun s => (0 <=? s) && (s <? nsyms g)) (r_rhs r)) (g_rules g).

(* the part of the certificate LalrCert.ref_cert that is still evaluated per grammar once the automaton clauses
   (aut_cert) and the nullable / FIRST clauses are replaced by theorems (LalrRef_proofs.v) *)
Definition ref_cert_light (g : grammar) (fuel : nat) : bool :=
  let a := fst (build_automaton g fuel) in
  wf_grammar g && ref_done g fuel &&
  la_stable g a (nullable_set g) (first_sets g) (lalr_la g a fuel).
