(* C06, part 5b: the tables rebuilt by [minimize] are the quotient tables: layout of the new Goto/FromTo,
   transition rows vs. FromTo segments, goto commutes with the remapping, the new Action array. *)
From Coq Require Import List ZArith Bool Lia ZifyBool.
From TM Require Import Lib.ListX Gram.PTables Gram.Optimize Gram.Run Gram.Minimize Gram.Minimize_proofs
  Gram.MinNumber_proofs Gram.MinRefine_proofs Gram.MinimizeWf Gram.MinPartition_proofs Gram.MinGoto_proofs.
Import ListNotations.
Local Open Scope Z_scope.

Lemma nth_map_zseq {A} (f : Z -> A) n s d : 0 <= s < n -> nth (Z.to_nat s) (map f (zseq n)) d = f s.
Proof.
  intro H. rewrite (nth_indep _ d (f 0)) by (rewrite map_length, zseq_length; lia).
  rewrite map_nth, zseq_nth by lia. now rewrite Z2Nat.id by lia.
Qed.

(* ---------- set_at ---------- *)
Lemma set_at_length l i v : length (set_at l i v) = length l.
Proof.
  unfold set_at. destruct (i <? 0); [reflexivity|]. set (n := Z.to_nat i).
  transitivity (length (firstn n l ++ skipn n l)); [|now rewrite firstn_skipn].
  rewrite !app_length. f_equal. now destruct (skipn n l).
Qed.

Lemma set_at_same l i v : 0 <= i < Z.of_nat (length l) -> zn (set_at l i v) i = v.
Proof.
  intro H. rewrite zn_nth by lia. unfold set_at. replace (i <? 0) with false by lia. set (n := Z.to_nat i).
  assert (Hl : length (firstn n l) = n) by (rewrite firstn_length; lia).
  rewrite app_nth2 by lia. rewrite Hl, Nat.sub_diag. destruct (skipn n l) eqn:E; [|reflexivity].
  exfalso. assert (length (skipn n l) = 0%nat) by now rewrite E. rewrite skipn_length in H0. lia.
Qed.

Lemma set_at_other l i v k : k <> i -> zn (set_at l i v) k = zn l k.
Proof.
  intro Hne. unfold set_at. destruct (i <? 0) eqn:Ei; [reflexivity|]. unfold zn. destruct (k <? 0) eqn:Ek; [reflexivity|].
  set (n := Z.to_nat i). set (m := Z.to_nat k). assert (Hmn : m <> n) by lia.
  pose proof (firstn_skipn n l) as Hfs. destruct (skipn n l) as [|y tl] eqn:E; [now rewrite Hfs|].
  replace (nth m l (-1000000)) with (nth m (firstn n l ++ y :: tl) (-1000000)) by (now rewrite Hfs).
  assert (Hl : length (firstn n l) = n).
  { rewrite firstn_length. assert (length (skipn n l) <> 0%nat) by now rewrite E. rewrite skipn_length in H. lia. }
  destruct (Nat.lt_ge_cases m n) as [Hlt|Hge].
  - rewrite !app_nth1 by lia. reflexivity.
  - rewrite !app_nth2 by lia. rewrite Hl. destruct (m - n)%nat as [|j] eqn:Ej; [lia|reflexivity].
Qed.

(* the Action array after "for i: newAction[remap[i]] = Action[i]" holds, in every slot that is hit, the
   action of one of the states mapped to it *)
Lemma fold_set_at (r a : Z -> Z) l : forall init k, 0 <= k < Z.of_nat (length init) ->
  (exists i, In i l /\ r i = k) ->
  exists i, In i l /\ r i = k /\ zn (fold_left (fun acc i => set_at acc (r i) (a i)) l init) k = a i.
Proof.
  induction l as [|x l IH] using rev_ind; intros init k Hk [i [Hi Hr]]; [contradiction|].
  rewrite fold_left_app. cbn [fold_left].
  set (acc := fold_left (fun acc i => set_at acc (r i) (a i)) l init).
  assert (Hlen : length acc = length init).
  { unfold acc. clear. revert init. induction l as [|y l IHl]; intro init; [reflexivity|]. cbn [fold_left]. rewrite IHl. apply set_at_length. }
  destruct (Z.eq_dec (r x) k) as [E|E].
  - exists x. split; [apply in_or_app; right; now left|]. split; [exact E|]. rewrite E. apply set_at_same. lia.
  - rewrite set_at_other by congruence. apply in_app_or in Hi. destruct Hi as [Hi|[->|[]]]; [|contradiction].
    destruct (IH init k Hk (ex_intro _ i (conj Hi Hr))) as (j & Hj & Hrj & Hz).
    exists j. split; [apply in_or_app; now left|]. split; [exact Hrj|exact Hz].
Qed.

(* ---------- pairs_up of chunked lists ---------- *)
Lemma pairs_up_chunks {A} (c : A -> bool) (u v : A -> Z) l :
  pairs_up (flat_map (fun a => if c a then [u a; v a] else []) l) = flat_map (fun a => if c a then [(u a, v a)] else []) l.
Proof. induction l as [|a l IH]; [reflexivity|]. cbn [flat_map]. destruct (c a); cbn; now rewrite IH. Qed.

Lemma pairs_up_trans_sig p tr : pairs_up (trans_sig p tr) = map (fun e => (fst e, zn p (snd e))) (pairs_up tr).
Proof.
  unfold trans_sig. induction (pairs_up tr) as [|[a b] l IH]; [reflexivity|]. cbn [flat_map map app pairs_up fst snd]. now rewrite IH.
Qed.

(* ---------- transition rows of refinePartitions vs. FromTo segments ---------- *)
Section Rows.
Variables (t : default_enc) (n : Z).
Let nsyms := zlength (d_goto t) - 1.

Lemma row_pairs s x q : 0 <= s < n ->
  (In (x, q) (pairs_up (row (state_transitions t n) s)) <-> 0 <= x < nsyms /\ In (s, q) (seg t x)).
Proof.
  intro Hs. unfold row, state_transitions. fold nsyms.
  set (all := flat_map _ (zseq nsyms)).
  rewrite nth_map_zseq by lia. cbv beta.
  rewrite (flat_map_ext _ (fun a => if fst (fst a) =? s then [snd (fst a); snd a] else []))
    by (intros [[from sym] to]; reflexivity).
  rewrite (pairs_up_chunks (fun a => fst (fst a) =? s) (fun a => snd (fst a)) snd).
  rewrite in_flat_map. unfold all. split.
  - intros ([[from sym] to] & Hin & H). cbn [fst snd] in H. destruct (from =? s) eqn:E; [|contradiction].
    destruct H as [[= -> ->]|[]]. apply Z.eqb_eq in E. subst from.
    apply in_flat_map in Hin. destruct Hin as (sym & Hsym & Hin). apply in_zseq' in Hsym.
    apply in_map_iff in Hin. destruct Hin as (k & Heq & Hk).
    assert (Es : sym = x) by (apply (f_equal (fun p => snd (fst p))) in Heq; exact Heq). subst sym. split; [exact Hsym|].
    unfold seg. apply in_map_iff. exists k. split; [|exact Hk].
    apply (f_equal (fun p => (fst (fst p), snd p))) in Heq. exact Heq.
  - intros [Hx Hin]. exists (s, x, q). split.
    + apply in_flat_map. exists x. split; [now apply in_zseq'|]. unfold seg in Hin. apply in_map_iff in Hin.
      destruct Hin as (k & Heq & Hk). apply in_map_iff. exists k. split; [|exact Hk].
      apply (f_equal (fun p => (fst p, x, snd p))) in Heq. exact Heq.
    + cbn [fst snd]. rewrite Z.eqb_refl. now left.
Qed.
End Rows.

(* ---------- layout of the rebuilt Goto / FromTo ---------- *)
Definition flat (edges : list (Z * Z)) : list Z := flat_map (fun e => [fst e; snd e]) edges.

Definition bstep (st : list Z * list Z) (edges : list (Z * Z)) : list Z * list Z :=
  (fst st ++ [zlength (snd st)], snd st ++ flat edges).

Fixpoint offs (base : Z) (l : list (list (Z * Z))) : list Z :=
  match l with [] => [] | e :: r => base :: offs (base + 2 * Z.of_nat (length e)) r end.

Lemma flat_length e : length (flat e) = (2 * length e)%nat.
Proof. unfold flat. induction e as [|a e IH]; cbn [flat_map app length]; lia. Qed.

Lemma flat_nth e : forall k, (k < length e)%nat ->
  nth (2 * k) (flat e) (-1000000) = fst (nth k e (0, 0)) /\ nth (2 * k + 1) (flat e) (-1000000) = snd (nth k e (0, 0)).
Proof.
  induction e as [|a e IH]; intros k Hk; [cbn in Hk; lia|]. destruct k as [|k]; [split; reflexivity|].
  cbn [length] in Hk. destruct (IH k ltac:(lia)) as [H1 H2].
  replace (2 * S k)%nat with (S (S (2 * k))) by lia. replace (S (S (2 * k)) + 1)%nat with (S (S (2 * k + 1))) by lia.
  unfold flat in *. cbn [flat_map app nth]. split; assumption.
Qed.

Lemma build_spec l : forall g ft, fold_left bstep l (g, ft) = (g ++ offs (zlength ft) l, ft ++ flat_map flat l).
Proof.
  induction l as [|e l IH]; intros g ft; cbn [fold_left offs flat_map]; [now rewrite !app_nil_r|].
  unfold bstep at 2. cbn [fst snd]. rewrite IH. f_equal.
  - rewrite <- app_assoc. cbn [app]. do 3 f_equal. unfold zlength. rewrite app_length, flat_length. lia.
  - now rewrite app_assoc.
Qed.

Definition tot (l : list (list (Z * Z))) : Z := 2 * Z.of_nat (length (concat l)).

Lemma flat_all_length l : Z.of_nat (length (flat_map flat l)) = tot l.
Proof. unfold tot. induction l as [|e l IH]; [reflexivity|]. cbn [flat_map concat]. rewrite !app_length, flat_length. lia. Qed.

Lemma offs_nth l : forall base x, (x <= length l)%nat ->
  nth x (offs base l ++ [base + tot l]) (-1000000) = base + tot (firstn x l).
Proof.
  induction l as [|e l IH]; intros base x Hx.
  - cbn in Hx. replace x with 0%nat by lia. reflexivity.
  - destruct x as [|x]; [cbn; unfold tot; cbn; lia|]. cbn [offs app nth firstn]. cbn [length] in Hx.
    replace (base + tot (e :: l)) with (base + 2 * Z.of_nat (length e) + tot l)
      by (unfold tot; cbn [concat]; rewrite app_length; lia).
    rewrite IH by lia. unfold tot. cbn [concat]. rewrite app_length. lia.
Qed.

Lemma flat_all_nth l : forall x k, (x < length l)%nat -> (k < length (nth x l []))%nat ->
  nth (Z.to_nat (tot (firstn x l)) + 2 * k) (flat_map flat l) (-1000000) = fst (nth k (nth x l []) (0, 0)) /\
  nth (Z.to_nat (tot (firstn x l)) + 2 * k + 1) (flat_map flat l) (-1000000) = snd (nth k (nth x l []) (0, 0)).
Proof.
  induction l as [|e l IH]; intros x k Hx Hk; [cbn in Hx; lia|]. cbn [flat_map]. destruct x as [|x].
  - cbn [nth firstn] in *. unfold tot. cbn [concat length]. cbn [Z.of_nat Z.mul Z.to_nat Nat.add].
    rewrite !app_nth1 by (rewrite flat_length; lia). apply flat_nth. exact Hk.
  - cbn [nth firstn length] in *. destruct (IH x k ltac:(lia) Hk) as [H1 H2].
    assert (E : Z.to_nat (tot (e :: firstn x l)) = (length (flat e) + Z.to_nat (tot (firstn x l)))%nat).
    { unfold tot. cbn [concat]. rewrite app_length, flat_length. lia. }
    rewrite E. split.
    + rewrite app_nth2 by lia. replace (length (flat e) + Z.to_nat (tot (firstn x l)) + 2 * k - length (flat e))%nat
        with (Z.to_nat (tot (firstn x l)) + 2 * k)%nat by lia. exact H1.
    + rewrite app_nth2 by lia. replace (length (flat e) + Z.to_nat (tot (firstn x l)) + 2 * k + 1 - length (flat e))%nat
        with (Z.to_nat (tot (firstn x l)) + 2 * k + 1)%nat by lia. exact H2.
Qed.

Lemma tot_firstn_S l x : (x < length l)%nat -> tot (firstn (S x) l) = tot (firstn x l) + 2 * Z.of_nat (length (nth x l [])).
Proof.
  intro Hx. rewrite (firstn_S_nth' l x []) by exact Hx. unfold tot. rewrite concat_app, app_length. cbn [concat]. rewrite app_nil_r. lia.
Qed.

Lemma tot_firstn_le l x : tot (firstn x l) <= tot l.
Proof.
  unfold tot. rewrite <- (firstn_skipn x l) at 2. rewrite concat_app, app_length. lia.
Qed.

Lemma tot_even l : tot l mod 2 = 0.
Proof. unfold tot. rewrite Z.mul_comm. apply Z_mod_mult. Qed.

Section NewTables.
Variables (act lalr : list Z) (l : list (list (Z * Z))).
Let t' := mkDefaultEnc act lalr (offs 0 l ++ [tot l]) (flat_map flat l).

Lemma new_goto_at x : (x <= length l)%nat -> zn (d_goto t') (Z.of_nat x) = tot (firstn x l).
Proof.
  intro Hx. cbn [t' d_goto]. rewrite zn_nth by lia. rewrite Nat2Z.id.
  pose proof (offs_nth l 0 x Hx) as H. cbn [Z.add] in H. exact H.
Qed.

Lemma new_seg x : 0 <= x < Z.of_nat (length l) -> seg t' x = nth (Z.to_nat x) l [].
Proof.
  intro Hx. rewrite seg_pairs_from. set (k := Z.to_nat x).
  replace x with (Z.of_nat k) by lia. replace (Z.of_nat k + 1) with (Z.of_nat (S k)) by lia.
  rewrite !new_goto_at by lia. rewrite tot_firstn_S by lia.
  set (e := nth k l []). set (mn := tot (firstn k l)).
  replace ((mn + 2 * Z.of_nat (length e) - mn) / 2) with (Z.of_nat (length e))
    by (replace (mn + 2 * Z.of_nat (length e) - mn) with (Z.of_nat (length e) * 2) by lia; now rewrite Z.div_mul by lia).
  rewrite Nat2Z.id. apply (nth_ext _ _ (0, 0) (0, 0)); [apply pairs_from_length|].
  intros j Hj. rewrite pairs_from_length in Hj. rewrite pairs_from_nth by exact Hj.
  assert (Hmn : 0 <= mn) by (unfold mn, tot; lia).
  destruct (flat_all_nth l k j ltac:(lia) Hj) as [H1 H2]. fold e mn in H1, H2. cbn [t' d_from_to].
  rewrite !zn_nth by lia.
  replace (Z.to_nat (mn + 2 * Z.of_nat j)) with (Z.to_nat mn + 2 * j)%nat by lia.
  replace (Z.to_nat (mn + 2 * Z.of_nat j + 1)) with (Z.to_nat mn + 2 * j + 1)%nat by lia.
  rewrite H1, H2. now destruct (nth j e (0, 0)).
Qed.

Lemma new_layout x : 0 <= x < Z.of_nat (length l) ->
  strictly_increasing (map fst (nth (Z.to_nat x) l [])) = true -> goto_layout_ok t' x.
Proof.
  intros Hx Hsi. unfold goto_layout_ok. rewrite (new_seg x Hx). set (k := Z.to_nat x).
  replace x with (Z.of_nat k) by lia. replace (Z.of_nat k + 1) with (Z.of_nat (S k)) by lia.
  rewrite !new_goto_at by lia. rewrite tot_firstn_S by lia.
  pose proof (tot_firstn_le l (S k)) as Hle. rewrite tot_firstn_S in Hle by lia.
  pose proof (tot_even (firstn k l)) as He. pose proof (tot_even (firstn (S k) l)) as He'. rewrite tot_firstn_S in He' by lia.
  cbn [t' d_from_to]. unfold zlength. rewrite flat_all_length.
  assert (0 <= tot (firstn k l)) by (unfold tot; lia).
  split; [lia|]. split; [exact Hle|]. split; [exact He|]. split; [exact He'|exact Hsi].
Qed.
End NewTables.

(* ---------- the quotient: goto commutes with the remapping ---------- *)
Section Quotient.
Variable mi : min_input.
Let t := mi_enc mi.
Let n := mi_num_states mi.
Let nsyms := zlength (d_goto t) - 1.
Hypothesis Hn : 0 <= n.
Hypothesis Hk : zlength (mi_final mi) <= n.
Variables (p0 : list Z) (c0 : Z).
Hypothesis Hinit : init_partition mi = (p0, c0).
Variables (remap : list Z) (cnt : Z).
Hypothesis Hfinal : final_partition mi = (remap, cnt).

(* congruence, in terms of FromTo: merged states have the same outgoing symbols, into merged targets *)
Theorem remap_congruence f s x tt : 0 <= f < n -> 0 <= s < n -> zn remap f = zn remap s -> 0 <= x < nsyms ->
  In (f, tt) (seg t x) -> exists q, In (s, q) (seg t x) /\ zn remap q = zn remap tt.
Proof.
  intros Hf Hs E Hx Hin.
  pose proof (remap_stable mi Hn Hk p0 c0 Hinit remap cnt Hfinal f s Hf Hs E) as Hst. fold t n in Hst.
  apply (f_equal pairs_up) in Hst. rewrite !pairs_up_trans_sig in Hst.
  assert (H1 : In (x, tt) (pairs_up (row (state_transitions t n) f))) by (apply row_pairs; [exact Hf|]; split; assumption).
  apply (in_map (fun e => (fst e, zn remap (snd e)))) in H1. rewrite Hst in H1. apply in_map_iff in H1.
  destruct H1 as ([x' q] & [= -> E2] & H2). apply row_pairs in H2; [|exact Hs]. exists q. split; [apply H2|exact E2].
Qed.

Definition rr (e : Z * Z) : Z * Z := (zn remap (fst e), zn remap (snd e)).
Definition per_sym : list (list (Z * Z)) := map (fun sym => rebuilt (map rr (seg t sym))) (zseq nsyms).

Variables (act' lalr' : list Z).
Let t' := mkDefaultEnc act' lalr' (offs 0 per_sym ++ [tot per_sym]) (flat_map flat per_sym).

Lemma per_sym_length : Z.of_nat (length per_sym) = Z.max 0 nsyms.
Proof. unfold per_sym. rewrite map_length, zseq_length. lia. Qed.

Lemma per_sym_nth x : 0 <= x < nsyms -> nth (Z.to_nat x) per_sym [] = rebuilt (map rr (seg t x)).
Proof.
  intro Hx. unfold per_sym.
  now rewrite nth_map_zseq by lia.
Qed.

Lemma new_tables_seg x : 0 <= x < nsyms -> seg t' x = rebuilt (map rr (seg t x)) /\ goto_layout_ok t' x.
Proof.
  intro Hx. assert (Hx' : 0 <= x < Z.of_nat (length per_sym)) by (rewrite per_sym_length; lia). split.
  - unfold t'. rewrite new_seg by exact Hx'. now apply per_sym_nth.
  - apply new_layout; [exact Hx'|]. rewrite per_sym_nth by exact Hx. apply rebuilt_si.
Qed.

(* gotoState on the rebuilt tables returns the remapped target, and -1 exactly when the old table has no entry *)
Theorem goto_commutes s x : 0 <= s < n -> 0 <= x < nsyms -> wf_goto_sym t n x = true ->
  let q := goto_state t s x in
  (q = -1 /\ goto_state t' (zn remap s) x = -1) \/ (0 <= q < n /\ goto_state t' (zn remap s) x = zn remap q).
Proof.
  intros Hs Hx Hwf. unfold wf_goto_sym in Hwf. rewrite !andb_true_iff in Hwf.
  destruct Hwf as [[[[[[W1 W2] W3] W4] W5] W6] W7].
  assert (Hlay : goto_layout_ok t x) by (unfold goto_layout_ok; repeat split; try lia; exact W7).
  rewrite forallb_forall in W6.
  destruct (new_tables_seg x Hx) as [Hseg' Hlay'].
  pose proof (goto_state_spec t x s Hlay) as G. pose proof (goto_state_spec t' x (zn remap s) Hlay') as G'.
  rewrite Hseg' in G'. cbn zeta.
  assert (Hsi' : strictly_increasing (map fst (rebuilt (map rr (seg t x)))) = true) by apply rebuilt_si.
  destruct G as [G|[G1 G2]].
  - right. pose proof (W6 _ G) as Hr. cbn [fst snd] in Hr. split; [lia|].
    assert (Hin : In (zn remap s, zn remap (goto_state t s x)) (map rr (seg t x))).
    { apply in_map_iff. exists (s, goto_state t s x). split; [reflexivity|exact G]. }
    destruct (rebuilt_keeps _ _ _ Hin) as [q2 Hq2].
    assert (Hq2' : q2 = zn remap (goto_state t s x)).
    { pose proof (rebuilt_incl _ _ Hq2) as H. apply in_map_iff in H. destruct H as ([f tt] & [= E1 E2] & Hft).
      pose proof (W6 _ Hft) as Hrf. cbn [fst snd] in Hrf.
      destruct (remap_congruence f s x tt ltac:(lia) Hs E1 Hx Hft) as (q & Hq & Eq).
      rewrite (si_functional _ W7 s _ _ G Hq). congruence. }
    subst q2. apply (goto_rel_functional _ _ _ _ Hsi' G'). left. exact Hq2.
  - left. split; [exact G1|]. destruct G' as [G'|[G' _]]; [|exact G'].
    exfalso. pose proof (rebuilt_incl _ _ G') as H. apply in_map_iff in H. destruct H as ([f tt] & [= E1 E2] & Hft).
    pose proof (W6 _ Hft) as Hrf. cbn [fst snd] in Hrf.
    destruct (remap_congruence f s x tt ltac:(lia) Hs E1 Hx Hft) as (q & Hq & _). exact (G2 q Hq).
Qed.
End Quotient.
