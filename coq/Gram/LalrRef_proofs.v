(* C03: the LALR(1) theorems for the reference construction itself, without the automaton certificate:
   for every grammar with rule heads / right-hand sides in range and every fuel with which build_loop emptied its
   work list (ref_done), the lookahead table of the reference is sound; it is exact when la_fix stopped on a stable table
   (FIRST and nullable always reach their fixpoints: FirstFix_proofs.v, CfgFix_proofs.v). *)
From Coq Require Import List ZArith Bool Arith Lia.
From TM Require Import Gram.Cfg Gram.Derive Gram.LalrRef Gram.LalrSpec Gram.LalrSpec_proofs Gram.LalrSpec_proofs2
                       Gram.LalrCert Gram.LalrCert_proofs Gram.CfgFix_proofs Gram.LalrDone Gram.LalrLoop_proofs
                       Gram.LalrFinals_proofs Gram.LalrFix_proofs Gram.FirstFix_proofs Gram.LalrTables Gram.LalrTables_proofs.
Import ListNotations.
Local Open Scope Z_scope.

Theorem ref_la_sound g fuel : wf_grammar g = true -> ref_done g fuel = true ->
  let a := fst (build_automaton g fuel) in
  forall fuel' q it x, In x (la_get (lalr_la g a fuel') q it) -> lalr1 g a q it x.
Proof.
  intros Hwf Hd a fuel' q it x. destruct (build_automaton_ok g fuel Hwf Hd) as (H1 & H2 & _).
  apply lalr_la_sound; auto.
Qed.

Theorem ref_la_exact g fuel : ref_cert_light g fuel = true ->
  let a := fst (build_automaton g fuel) in
  forall q it x, In x (la_get (lalr_la g a fuel) q it) <-> lalr1 g a q it x.
Proof.
  intros H a. unfold ref_cert_light in H. fold a in H.
  apply andb_true_iff in H. destruct H as [H Hst].
  apply andb_true_iff in H. destruct H as [Hwf Hd].
  destruct (build_automaton_ok g fuel Hwf Hd) as (H1 & H2 & H3 & H4 & _). fold a in H1, H2, H3, H4.
  destruct (wf_grammar_range g Hwf) as [Hr _]. pose proof (first_sets_closed g Hr) as Hfc.
  intros q it x. split.
  - apply lalr_la_sound; auto.
  - apply lalr_la_complete_range; auto.
Qed.

(* every viable prefix is traced by the reference automaton and its lookahead is in the table *)
Theorem ref_la_covers g fuel : ref_cert_light g fuel = true ->
  let a := fst (build_automaton g fuel) in
  forall i gamma it x, lr1_valid g i gamma it x ->
  exists q, reach a i gamma q /\ In x (la_get (lalr_la g a fuel) q it).
Proof.
  intros H a i gamma it x Hv. pose proof H as H0. unfold ref_cert_light in H. fold a in H.
  apply andb_true_iff in H. destruct H as [H _].
  apply andb_true_iff in H. destruct H as [Hwf Hd].
  destruct (build_automaton_ok g fuel Hwf Hd) as (_ & _ & _ & Hc & Ht). fold a in Hc, Ht.
  assert (Hr : exists q, reach a i gamma q).
  { pose proof (lr1_lr0 _ _ _ _ _ Hv) as Hv0. clear Hv.
    induction Hv0 as [nt eoi r Hi Hinp Hr|gamma it B r Hv IH Es Et Hr|gamma it X Hv IH Es].
    - exists i. constructor.
    - exact IH.
    - destruct IH as [q Hq]. destruct (Hc i gamma q it Hq Hv) as (Hq0 & st & Hst & Hit).
      destruct (Ht q st it X Hq0 Hst Hit Es) as [q' Hq']. exists q'. econstructor; eauto. }
  destruct Hr as [q Hq]. exists q. split; auto.
  apply (proj2 (ref_la_exact g fuel H0 q it x)). exists i, gamma. auto.
Qed.

(* the stable-table clause can fail only by lack of fuel (LalrFix_proofs), so: *)
Theorem ref_la_exact_small g fuel :
  wf_grammar g = true -> ref_done g fuel = true ->
  let a := fst (build_automaton g fuel) in
  (length (lalr_la g a fuel) + la_size (lalr_la g a fuel) < fuel)%nat ->
  forall q it x, In x (la_get (lalr_la g a fuel) q it) <-> lalr1 g a q it x.
Proof.
  intros Hwf Hd a Hsmall. apply ref_la_exact. unfold ref_cert_light. fold a.
  rewrite Hwf, Hd. simpl. apply lalr_la_stable_if_small. exact Hsmall.
Qed.

(* the lookahead sets shown in the reference's state views, under the light certificate *)
Theorem reference_views_la_light g fuel : ref_cert_light g fuel = true ->
  let a := fst (build_automaton g fuel) in
  forall q v, nth_error (ro_views (reference g fuel)) q = Some v ->
  forall j r L, nth_error (v_reduce v) j = Some r -> nth_error (v_la_all v) j = Some L ->
  forall x, In x L <-> lalr1 g a (Z.of_nat q) (r, rule_len g r) x.
Proof.
  intros Hc. pose proof (ref_la_exact g fuel Hc) as Hex. cbv zeta in Hex. revert Hex.
  unfold reference. destruct (build_automaton g fuel) as [a finals]. simpl fst.
  intros Hex q v Hv j r L Hr HL x.
  destruct (build_goto g (views g a (lalr_la g a fuel))) as [gt ft]. cbn [ro_views] in Hv.
  unfold views in Hv. rewrite nth_error_map in Hv.
  destruct (nth_error (combine _ (a_states a)) q) as [[q' st]|] eqn:E; [|discriminate].
  apply nth_error_combine_zrange in E. destruct E as [E1 E2]. simpl in E1, E2. subst q'.
  simpl in Hv. injection Hv as <-.
  match goal with H : nth_error (v_reduce (let '(_, _) := ?p in _)) _ = _ |- _ => destruct p as [sh lr0] end.
  cbn [v_reduce v_la_all] in Hr, HL. rewrite nth_error_map, Hr in HL. simpl in HL. injection HL as <-.
  unfold state_la. apply Hex.
Qed.
