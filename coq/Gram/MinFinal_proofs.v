(* C06, part 6: for well-formed inputs the model of lalr.minimize always passes the quotient check. *)
From Coq Require Import List ZArith Bool Lia ZifyBool.
From TM Require Import Lib.ListX Gram.PTables Gram.Optimize Gram.Run Gram.Minimize Gram.Minimize_proofs
  Gram.MinNumber_proofs Gram.MinRefine_proofs Gram.MinimizeWf Gram.MinPartition_proofs Gram.MinGoto_proofs
  Gram.MinTables_proofs Gram.MinActions_proofs.
Import ListNotations.
Local Open Scope Z_scope.

(* ---------- the check, cell by cell ---------- *)
Lemma check_min_intro mi rule_sym mo terms ninputs :
  let t := mi_enc mi in let t' := mo_enc mo in let n := mi_num_states mi in let rm := zn (mo_remap mo) in
  let nsyms := zlength (d_goto t) - 1 in let nrules := zlength (mi_rule_len mi) in
  (forall s, 0 <= s < n -> 0 <= rm s < mo_num_states mo) ->
  (forall i, 0 <= i < ninputs -> rm i = i) ->
  mo_final mo = map rm (mi_final mi) ->
  (forall r, 0 <= r < nrules -> terms <= zn rule_sym r < nsyms) ->
  (forall s a, 0 <= s < n -> 0 <= a < terms ->
     negb (lalr_deep t s a) && negb (lalr_deep t' (rm s) a) &&
     match default_act t s a [], default_act t' (rm s) a [] with
     | Shift q, Shift q' => (0 <=? q) && (q <? n) && (q' =? rm q)
     | Reduce r, Reduce r' => (0 <=? r) && (r <? nrules) && (0 <=? r') && (r' <? nrules)
                              && zlist_eqb (rule_key_full mi rule_sym r) (rule_key_full mi rule_sym r')
     | Err, Err => true
     | _, _ => false
     end = true) ->
  (forall s x, 0 <= s < n -> terms <= x < nsyms ->
     (let q := goto_state t s x in
      if q =? -1 then goto_state t' (rm s) x =? -1
      else (0 <=? q) && (q <? n) && (goto_state t' (rm s) x =? rm q)) = true) ->
  check_min mi rule_sym mo terms ninputs = true.
Proof.
  cbn zeta. intros H1 H2 H3 H4 H5 H6. unfold check_min. rewrite !andb_true_iff. repeat split.
  - apply forallb_forall. intros s Hs. apply in_zseq' in Hs. specialize (H1 s Hs). lia.
  - apply forallb_forall. intros i Hi. apply in_zseq' in Hi. specialize (H2 i Hi). lia.
  - apply zlist_eqb_eq. exact H3.
  - apply forallb_forall. intros r Hr. apply in_zseq' in Hr. specialize (H4 r Hr). lia.
  - apply forallb_forall. intros s Hs. apply in_zseq' in Hs. apply forallb_forall. intros a Ha. apply in_zseq' in Ha.
    exact (H5 s a Hs Ha).
  - apply forallb_forall. intros s Hs. apply in_zseq' in Hs. apply forallb_forall. intros x Hx.
    apply in_map_iff in Hx. destruct Hx as (i & <- & Hi). apply in_zseq' in Hi. apply (H6 s (terms + i) Hs). lia.
Qed.

(* ---------- what wf_min_input says ---------- *)
Lemma wf_parts mi rule_sym terms ninputs : wf_min_input mi rule_sym terms ninputs = true ->
  let t := mi_enc mi in let n := mi_num_states mi in
  let nsyms := zlength (d_goto t) - 1 in let nrules := zlength (mi_rule_len mi) in
  let ngr := Z.of_nat (length (mi_rule_keys mi)) in
  0 < terms <= nsyms /\ ninputs = zlength (mi_final mi) /\ ninputs <= n /\
  (forall s, In s (mi_final mi) -> 0 <= s < n) /\
  (forall x, 0 <= x < nsyms -> wf_goto_sym t n x = true) /\
  (forall s, 0 <= s < n -> wf_action t nrules s = true) /\
  ngr <= nrules /\
  (forall r, 0 <= r < nrules -> terms <= zn rule_sym r < nsyms) /\
  (forall r, 0 <= r < ngr -> wf_rule_key mi rule_sym r = true).
Proof.
  unfold wf_min_input. cbn zeta. rewrite !andb_true_iff. intros [[[[[[[[[A1 A2] A3] A4] A5] A6] A7] A8] A9] A10].
  rewrite forallb_forall in A5, A6, A7, A9, A10.
  split; [lia|]. split; [lia|]. split; [lia|]. split; [intros s Hs; specialize (A5 s Hs); lia|].
  split; [intros x Hx; apply A6; now apply in_zseq'|]. split; [intros s Hs; apply A7; now apply in_zseq'|].
  split; [lia|]. split; [intros r Hr; specialize (A9 r (proj2 (in_zseq' _ _) Hr)); lia|].
  intros r Hr. apply A10. now apply in_zseq'.
Qed.

(* ---------- actions commute, for any table set that is a quotient w.r.t. Action and gotoState ---------- *)
Lemma lalr_deep_act1 t s a : -2 <= act1 t (zn (d_action t) s) a -> lalr_deep t s a = false.
Proof. unfold act1, lalr_deep. destruct (zn (d_action t) s <? -2); [lia|reflexivity]. Qed.

Lemma default_act_act1 t s a : -2 <= act1 t (zn (d_action t) s) a ->
  default_act t s a [] =
  (let a1 := act1 t (zn (d_action t) s) a in
   if a1 >=? 0 then Reduce a1
   else if a1 =? -1 then (let q := goto_state t s a in if q >=? 0 then Shift q else Err) else Err).
Proof.
  unfold act1, default_act. cbn zeta. intro H. destruct (zn (d_action t) s <? -2).
  - replace (lalr_lookup t (zn (d_action t) s) a <? -2) with false by lia. reflexivity.
  - replace (zn (d_action t) s <? -2) with false by lia. reflexivity.
Qed.

Section Commute.
Variables (mi : min_input) (rule_sym : list Z) (terms : Z).
Let t := mi_enc mi.
Let n := mi_num_states mi.
Let nsyms := zlength (d_goto t) - 1.
Let nrules := zlength (mi_rule_len mi).
Let ngr := Z.of_nat (length (mi_rule_keys mi)).
Hypothesis Hkeys : forall r, 0 <= r < ngr -> wf_rule_key mi rule_sym r = true.
Hypothesis Hwact : forall s, 0 <= s < n -> wf_action t nrules s = true.
Hypothesis Hterms : terms <= nsyms.
Variables (t' : default_enc) (rm : Z -> Z).
Hypothesis Hlalr : d_lalr t' = d_lalr t.
Hypothesis Hact' : forall s, 0 <= s < n -> exists s', 0 <= s' < n /\ zn (d_action t') (rm s) = zn (d_action t) s' /\
  state_signature t (rule_classes mi) (accept_on_entry mi) s = state_signature t (rule_classes mi) (accept_on_entry mi) s'.
Hypothesis Hgoto : forall s x, 0 <= s < n -> 0 <= x < nsyms ->
  let q := goto_state t s x in
  (q = -1 /\ goto_state t' (rm s) x = -1) \/ (0 <= q < n /\ goto_state t' (rm s) x = rm q).
Hypothesis Hrm : forall s, 0 <= s < n -> 0 <= rm s.

Lemma act_cell_ok s a : 0 <= s < n -> 0 <= a < terms ->
  negb (lalr_deep t s a) && negb (lalr_deep t' (rm s) a) &&
  match default_act t s a [], default_act t' (rm s) a [] with
  | Shift q, Shift q' => (0 <=? q) && (q <? n) && (q' =? rm q)
  | Reduce r, Reduce r' => (0 <=? r) && (r <? nrules) && (0 <=? r') && (r' <? nrules)
                           && zlist_eqb (rule_key_full mi rule_sym r) (rule_key_full mi rule_sym r')
  | Err, Err => true
  | _, _ => false
  end = true.
Proof.
  intros Hs Ha. destruct (Hact' s Hs) as (s' & Hs' & Ea & Hsig).
  pose proof (sig_act_equiv mi rule_sym Hkeys Hwact s s' a Hs Hs' Hsig) as Heq. fold t in Heq.
  pose proof (act1_range mi Hwact s a Hs) as R. pose proof (act1_range mi Hwact s' a Hs') as R'. fold t nrules in R, R'.
  assert (E1 : act1 t' (zn (d_action t') (rm s)) a = act1 t (zn (d_action t) s') a).
  { rewrite Ea. unfold act1, lalr_lookup. now rewrite Hlalr. }
  rewrite (lalr_deep_act1 t s a) by lia. rewrite (lalr_deep_act1 t' (rm s) a) by (rewrite E1; lia).
  rewrite (default_act_act1 t s a) by lia. rewrite (default_act_act1 t' (rm s) a) by (rewrite E1; lia).
  cbn zeta. rewrite E1. cbn [negb andb].
  set (a1 := act1 t (zn (d_action t) s) a) in *. set (a1' := act1 t (zn (d_action t) s') a) in *.
  destruct Heq as [[Hsame Hneg]|(Q1 & Q2 & Q3)].
  - rewrite <- Hsame. replace (a1 >=? 0) with false by lia. destruct (a1 =? -1) eqn:Es; [|reflexivity].
    destruct (Hgoto s a Hs ltac:(lia)) as [[G1 G2]|[G1 G2]]; cbn zeta in G1, G2; rewrite G2.
    + rewrite G1. reflexivity.
    + pose proof (Hrm _ G1). replace (goto_state t s a >=? 0) with true by lia.
      replace (rm (goto_state t s a) >=? 0) with true by lia. lia.
  - replace (a1 >=? 0) with true by lia. replace (a1' >=? 0) with true by lia.
    rewrite (proj2 (zlist_eqb_eq _ _) Q3). lia.
Qed.

Lemma goto_cell_ok s x : 0 <= s < n -> 0 <= x < nsyms ->
  (let q := goto_state t s x in
   if q =? -1 then goto_state t' (rm s) x =? -1
   else (0 <=? q) && (q <? n) && (goto_state t' (rm s) x =? rm q)) = true.
Proof.
  intros Hs Hx. cbn zeta. destruct (Hgoto s x Hs Hx) as [[G1 G2]|[G1 G2]]; cbn zeta in G1, G2; rewrite G2.
  - rewrite G1. reflexivity.
  - replace (goto_state t s x =? -1) with false by lia. lia.
Qed.
End Commute.

(* ---------- the non-identity result of [minimize] in the shape used by MinTables_proofs ---------- *)
Lemma per_sym_eq mi remap :
  map (fun sym =>
        let mn := zn (d_goto (mi_enc mi)) sym in let mx := zn (d_goto (mi_enc mi)) (sym + 1) in
        let edges := map (fun k => (zn remap (zn (d_from_to (mi_enc mi)) (mn + 2 * k)), zn remap (zn (d_from_to (mi_enc mi)) (mn + 2 * k + 1))))
                         (zseq ((mx - mn) / 2)) in
        compact_by_from (fold_left (fun acc e => insert_edge e acc) edges [])) (zseq (zlength (d_goto (mi_enc mi)) - 1))
  = per_sym mi remap.
Proof.
  unfold per_sym. apply map_ext. intro sym. cbn zeta. unfold rebuilt, seg. now rewrite map_map.
Qed.

Definition new_action (mi : min_input) (remap : list Z) (cnt : Z) : list Z :=
  fold_left (fun acc i => set_at acc (zn remap i) (zn (d_action (mi_enc mi)) i)) (zseq (mi_num_states mi))
            (map (fun _ => 0) (zseq cnt)).

Lemma minimize_nonid mi remap cnt : final_partition mi = (remap, cnt) -> (cnt =? mi_num_states mi) = false ->
  minimize mi =
  mkMinOutput (mkDefaultEnc (new_action mi remap cnt) (d_lalr (mi_enc mi))
                            (offs 0 (per_sym mi remap) ++ [tot (per_sym mi remap)]) (flat_map flat (per_sym mi remap)))
              (map (zn remap) (mi_final mi))
              (map (fun ms => dedup_keep_first (map (zn remap) ms) []) (mi_markers mi)) cnt remap.
Proof.
  intros Hf Hne. rewrite minimize_unfold, Hf. cbn zeta. rewrite Hne, per_sym_eq.
  match goal with |- context [fold_left ?f (per_sym mi remap) ([], [])] =>
    assert (E : forall l st, fold_left f l st = fold_left bstep l st)
      by (induction l as [|x l IH]; intro st; [reflexivity|cbn [fold_left]; rewrite IH; f_equal; destruct st; reflexivity])
  end.
  rewrite E, build_spec. cbn [app]. fold (new_action mi remap cnt).
  replace (zlength []) with 0 by reflexivity. unfold zlength at 1. rewrite flat_all_length. reflexivity.
Qed.

Lemma minimize_id mi remap cnt : final_partition mi = (remap, cnt) -> (cnt =? mi_num_states mi) = true ->
  minimize mi = mkMinOutput (mi_enc mi) (mi_final mi) (mi_markers mi) (mi_num_states mi) (zseq (mi_num_states mi)).
Proof. intros Hf He. rewrite minimize_unfold, Hf. cbn zeta. now rewrite He. Qed.

(* ---------- the theorem ---------- *)
Theorem minimize_passes_check mi rule_sym terms ninputs :
  wf_min_input mi rule_sym terms ninputs = true -> check_min mi rule_sym (minimize mi) terms ninputs = true.
Proof.
  intro Hwf. destruct (wf_parts _ _ _ _ Hwf) as (W1 & W2 & W3 & W4 & W5 & W6 & W7 & W8 & W9). cbn zeta in *.
  set (t := mi_enc mi) in *. set (n := mi_num_states mi) in *.
  assert (Hn : 0 <= n) by (unfold zlength in W2; lia).
  assert (Hk : zlength (mi_final mi) <= n) by lia.
  destruct (init_partition mi) as [p0 c0] eqn:Hinit. destruct (final_partition mi) as [remap cnt] eqn:Hfinal.
  destruct (cnt =? n) eqn:Ec.
  - (* nothing merged: the tables are returned unchanged, with the identity remapping *)
    rewrite (minimize_id mi remap cnt Hfinal Ec). fold t n.
    assert (Hid : forall s, 0 <= s < n -> zn (zseq n) s = s) by (intros; now apply zn_zseq).
    assert (Hg : forall s x, 0 <= s < n -> 0 <= x < zlength (d_goto t) - 1 ->
      let q := goto_state t s x in
      (q = -1 /\ goto_state t (zn (zseq n) s) x = -1) \/ (0 <= q < n /\ goto_state t (zn (zseq n) s) x = zn (zseq n) q)).
    { intros s x Hs Hx. cbn zeta. rewrite (Hid s Hs). pose proof (W5 x Hx) as Hw. unfold wf_goto_sym in Hw.
      rewrite !andb_true_iff in Hw. destruct Hw as [[[[[[G1 G2] G3] G4] G5] G6] G7].
      assert (Hlay : goto_layout_ok t x) by (unfold goto_layout_ok; repeat split; try lia; exact G7).
      destruct (goto_state_spec t x s Hlay) as [G|[G _]].
      - right. rewrite forallb_forall in G6. specialize (G6 _ G). cbn [fst snd] in G6. split; [lia|]. symmetry. apply Hid. lia.
      - left. split; exact G. }
    apply check_min_intro; cbn [mo_enc mo_final mo_markers mo_num_states mo_remap]; fold t n.
    + intros s Hs. rewrite Hid by exact Hs. exact Hs.
    + intros i Hi. apply Hid. lia.
    + symmetry. rewrite <- (map_id (mi_final mi)) at 2. apply map_ext_in. intros s Hs. apply Hid. now apply W4.
    + exact W8.
    + intros s a Hs Ha. apply (act_cell_ok mi rule_sym terms W9 W6 (proj2 W1) t (zn (zseq n))); try assumption.
      * reflexivity.
      * intros s0 Hs0. exists s0. split; [exact Hs0|]. split; [now rewrite Hid|reflexivity].
      * intros s0 Hs0. rewrite Hid by exact Hs0. lia.
    + intros s x Hs Hx. apply (goto_cell_ok mi t (zn (zseq n))); [exact Hg|exact Hs|fold t; lia].
  - (* states were merged *)
    rewrite (minimize_nonid mi remap cnt Hfinal Ec). fold t n.
    set (t' := mkDefaultEnc _ _ _ _).
    pose proof (remap_range mi Hn Hk p0 c0 Hinit remap cnt Hfinal) as Hrange. fold n in Hrange.
    assert (Hg : forall s x, 0 <= s < n -> 0 <= x < zlength (d_goto t) - 1 ->
      let q := goto_state t s x in
      (q = -1 /\ goto_state t' (zn remap s) x = -1) \/ (0 <= q < n /\ goto_state t' (zn remap s) x = zn remap q)).
    { intros s x Hs Hx. apply (goto_commutes mi Hn Hk p0 c0 Hinit remap cnt Hfinal); [exact Hs|exact Hx|now apply W5]. }
    apply check_min_intro; cbn [mo_enc mo_final mo_markers mo_num_states mo_remap]; fold t n.
    + exact Hrange.
    + intros i Hi. apply (remap_entry mi Hn Hk p0 c0 Hinit remap cnt Hfinal). lia.
    + reflexivity.
    + exact W8.
    + intros s a Hs Ha. apply (act_cell_ok mi rule_sym terms W9 W6 (proj2 W1) t' (zn remap)); try assumption.
      * reflexivity.
      * intros s0 Hs0. pose proof (Hrange s0 Hs0) as Hr.
        destruct (fold_set_at (zn remap) (zn (d_action t)) (zseq n) (map (fun _ => 0) (zseq cnt)) (zn remap s0)) as (i & Hi & Hri & Hz).
        { rewrite map_length, zseq_length. lia. }
        { exists s0. split; [now apply in_zseq'|reflexivity]. }
        apply in_zseq' in Hi. exists i. split; [exact Hi|]. split; [exact Hz|].
        apply (remap_sig mi Hn Hk p0 c0 Hinit remap cnt Hfinal); [exact Hs0|exact Hi|now symmetry].
      * intros s0 Hs0. pose proof (Hrange s0 Hs0). lia.
    + intros s x Hs Hx. apply (goto_cell_ok mi t' (zn remap)); [exact Hg|exact Hs|fold t; lia].
Qed.

(* the simulation theorem without the per-table check: it holds for the model's output on every well-formed input *)
Theorem minimize_simulates mi rule_sym terms ninputs : wf_min_input mi rule_sym terms ninputs = true ->
  forall i, 0 <= i < ninputs ->
  forall end_state, 0 <= end_state < mi_num_states mi ->
  forall fuel eoff input, Forall (fun tk => 0 <= t_sym tk < terms) input ->
  let mo := minimize mi in
  let m := default_machine (mi_enc mi) (mi_rule_len mi) rule_sym in
  let m' := default_machine (mo_enc mo) (mi_rule_len mi) rule_sym in
  let remap := zn (mo_remap mo) in
  (forall s, In s (visited m fuel eoff end_state (mkConfig [mkEntry 0 0 0 i] i input 0 [])) ->
             remap s = remap end_state -> s = end_state) ->
  fst (run fuel m i end_state eoff input) = fst (run fuel m' i (remap end_state) eoff input) /\
  config_rel remap (rel_rule_of mi rule_sym)
             (snd (run fuel m i end_state eoff input)) (snd (run fuel m' i (remap end_state) eoff input)).
Proof.
  intros Hwf i Hi end_state Hend fuel eoff input Htok mo m m' remap Hnc.
  destruct (wf_parts _ _ _ _ Hwf) as (W1 & W2 & W3 & _). cbn zeta in *.
  exact (minimized_parser_simulates mi rule_sym (minimize mi) terms ninputs (minimize_passes_check _ _ _ _ Hwf)
           ltac:(lia) i Hi ltac:(lia) end_state Hend fuel eoff input Htok Hnc).
Qed.
