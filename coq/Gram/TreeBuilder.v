(* C20: the AST builder (go_ast_parse.go.tmpl: builder.addNode) as a function on a stack of trees, and the
   conditions on event streams under which it is specified.  Executable definitions only. *)
From Coq Require Import List ZArith Bool Arith.
Import ListNotations.
Local Open Scope Z_scope.

Inductive bnode := BNode (ty off endoff : Z) (children : list bnode).   (* children in source order *)

Definition b_ty (n : bnode) : Z := match n with BNode t _ _ _ => t end.
Definition b_off (n : bnode) : Z := match n with BNode _ o _ _ => o end.
Definition b_end (n : bnode) : Z := match n with BNode _ _ e _ => e end.
Definition b_children (n : bnode) : list bnode := match n with BNode _ _ _ c => c end.

Definition bevent := (Z * Z * Z)%type.    (* type, offset, endoffset *)

(* the stack is kept TOP FIRST (Go: b.stack[len-1] is the head) *)
Fixpoint scan (st : list bnode) (offset : Z) : list bnode * list bnode :=   (* (scanned top first, untouched) *)
  match st with
  | n :: rest => if b_off n >=? offset then let '(s, u) := scan rest offset in (n :: s, u) else ([], st)
  | [] => ([], [])
  end.

(* for start > 0 && stack[start-1].offset >= offset { start--; if stack[start].offset >= endoffset { end-- } } :
   "end" moves down once for EVERY scanned entry that starts at or after endoffset *)
Definition add_node (st : list bnode) (e : bevent) : list bnode :=
  let '(ty, offset, endoffset) := e in
  let '(scanned, below) := scan st offset in
  let k := length (filter (fun n => b_off n >=? endoffset) scanned) in
  let after := firstn k scanned in              (* stack[end:]  (top first) *)
  let children := skipn k scanned in            (* stack[start:end] (top first) *)
  after ++ BNode ty offset endoffset (rev children) :: below.

Definition build (evs : list bevent) : list bnode := fold_left add_node evs [].

(* all nodes of a forest, parents after their children (the order does not matter for the theorems) *)
Fixpoint nodes (n : bnode) : list bevent :=
  match n with
  | BNode t o e ch => (fix go (l : list bnode) := match l with [] => [] | c :: r => nodes c ++ go r end) ch ++ [(t, o, e)]
  end.
Definition forest_nodes (l : list bnode) : list bevent := flat_map nodes l.

(* ---- the event-stream conditions of C20 ---- *)
Definition ev_off (e : bevent) : Z := snd (fst e).
Definition ev_end (e : bevent) : Z := snd e.

(* an earlier event a and a later event b: disjoint, or a inside b (a container is reported after its contents) *)
Definition compatible (a b : bevent) : bool :=
  (ev_end a <=? ev_off b) || (ev_end b <=? ev_off a) || ((ev_off b <=? ev_off a) && (ev_end a <=? ev_end b)).

Fixpoint ok_events_from (seen : list bevent) (evs : list bevent) : bool :=
  match evs with
  | [] => true
  | e :: rest => (ev_off e <=? ev_end e) && forallb (fun a => compatible a e) seen && ok_events_from (e :: seen) rest
  end.
Definition ok_events (evs : list bevent) : bool := ok_events_from [] evs.

Definition in_input (len : Z) (evs : list bevent) : bool :=
  forallb (fun e => (0 <=? ev_off e) && (ev_end e <=? len)) evs.

(* ---- well-formed forests: siblings in source order and disjoint, children inside their parent ---- *)
Fixpoint sorted_disjoint (l : list bnode) : bool :=      (* source order *)
  match l with
  | a :: (b :: _) as rest => (b_end a <=? b_off b) && sorted_disjoint rest
  | _ => true
  end.

Fixpoint wf_bnode (n : bnode) : bool :=
  match n with
  | BNode _ o e ch =>
      (o <=? e) && sorted_disjoint ch &&
      (fix go (l : list bnode) : bool :=
         match l with [] => true | c :: r => (o <=? b_off c) && (b_end c <=? e) && wf_bnode c && go r end) ch
  end.
Definition wf_forest (l : list bnode) : bool := sorted_disjoint l && forallb wf_bnode l.   (* source order *)
