(* Expected parser tables from the reference automaton and its lookahead sets: mirrors
   computeStates' lr0 flags, addShift, initLalr (Goto/FromTo) and populateTables (Action/Lalr, conflicts). *)
From Coq Require Import List ZArith Bool Arith.
From TM Require Import Gram.Cfg Gram.LalrRef Gram.Prec Gram.PTables.
Import ListNotations.
Local Open Scope Z_scope.

Record state_view := mkView {
  v_kernel : list item;
  v_symbol : Z;
  v_reduce : list Z;
  v_shifts : list (Z * Z);      (* (symbol, target) sorted by symbol *)
  v_lr0 : bool;
  v_la : list (list Z);         (* per reduction; [] for lr0 states *)
  v_la_all : list (list Z)      (* per reduction, also for lr0 states (property oracle) *)
}.

Definition ins_shift (e : Z * Z) (l : list (Z * Z)) : list (Z * Z) :=
  (* addShift: insert before the first entry whose symbol is >= the new symbol *)
  let fix go (l : list (Z * Z)) :=
    match l with
    | [] => [e]
    | x :: rest => if fst x <? fst e then x :: go rest else e :: l
    end in go l.

(* symbol by which a state is entered *)
Definition entry_symbol (a : automaton) (q : Z) : Z :=
  match find (fun '(_, _, t) => t =? q) (a_trans a) with Some (_, s, _) => s | None => 0 end.

Definition views (g : grammar) (a : automaton) (la : la_table) : list state_view :=
  let nin := Z.of_nat (length (g_inputs g)) in
  map (fun '(q, st) =>
      let reduce := if s_kind st =? 0 then state_reductions g st else [] in
      (* transitions in creation order; the ones to synthesized states come last, in addShift order *)
      let trans := flat_map (fun '(f, s, t) => if f =? q then [(s, t)] else []) (a_trans a) in
      let is_synth t := negb (s_kind (nth (Z.to_nat t) (a_states a) (mkState [] None 0)) =? 0) in
      let orig := filter (fun e => negb (is_synth (snd e))) trans in
      let added := filter (fun e => is_synth (snd e)) trans in
      let nred := length reduce in
      let has_term_shift := existsb (fun e => fst e <? g_terms g) orig in
      let lr0_0 := Nat.eqb nred 0 || (Nat.eqb nred 1 && negb has_term_shift) in
      (* addShift: a state with reductions that had no shifts, or gets a terminal shift, stops being lr0 *)
      let '(shifts, lr0) := fold_left (fun '(sh, lr0) e =>
          (ins_shift e sh,
           if negb (Nat.eqb nred 0) && (Nat.eqb (length sh) 0 || (fst e <? g_terms g)) then false else lr0)) added (orig, lr0_0) in
      let lr0 := if s_kind st =? 0 then lr0 else true in
      mkView (s_kernel st) (if q <? nin then 0 else entry_symbol a q) reduce shifts lr0
             (if lr0 then [] else map (fun r => state_la g la q st r) reduce)
             (map (fun r => state_la g la q st r) reduce))
    (combine (zrange (Z.of_nat (length (a_states a)))) (a_states a)).

(* ---- initLalr: Goto / FromTo ---- *)
Definition build_goto (g : grammar) (vs : list state_view) : list Z * list Z :=
  let all := flat_map (fun '(q, v) => map (fun e => (fst e, q, snd e)) (v_shifts v))
                      (combine (zrange (Z.of_nat (length vs))) vs) in
  let '(gt, ft) := fold_left (fun '(gt, ft) sym =>
      (gt ++ [Z.of_nat (length ft)],
       ft ++ flat_map (fun '(s, from, to) => if s =? sym then [from; to] else []) all))
      (zrange (nsyms g)) ([], []) in
  (gt ++ [Z.of_nat (length ft)], ft).

(* ---- populateTables ---- *)
Record cell_result := mkCells { cr_action : list Z; cr_lalr : list Z; cr_sr : Z; cr_rr : Z }.

Definition state_rows (g : grammar) (v : state_view) : list (Z * Z) * Z * Z (* row, sr, rr *) :=
  let shift_terms := map fst (filter (fun e => fst e <? g_terms g) (v_shifts v)) in
  (* terminals in first-seen order: shifts first, then per reduction its lookaheads *)
  let order := fold_left (fun acc la => fold_left (fun acc t => if mem t acc then acc else acc ++ [t]) la acc)
                         (v_la v) shift_terms in
  let cells := map (fun term =>
      let rules := flat_map (fun '(r, la) => if mem term la then [r] else []) (combine (v_reduce v) (v_la v)) in
      let '(a, amb) := merge_cell g (mem term shift_terms) term rules in
      (term, final_action a, amb)) order in
  let sr := Z.of_nat (length (filter (fun '(_, _, amb) => match amb with Some am => (am_res am =? res_conflict) && am_can_shift am | None => false end) cells)) in
  let rr := Z.of_nat (length (filter (fun '(_, _, amb) => match amb with Some am => (am_res am =? res_conflict) && negb (am_can_shift am) | None => false end) cells)) in
  (map (fun '(t, a, _) => (t, a)) cells, sr, rr).

Definition populate (g : grammar) (vs : list state_view) : cell_result :=
  fold_left (fun cr v =>
      if v_lr0 v then
        let a := match v_reduce v with r :: _ => r | [] => match v_shifts v with _ :: _ => -1 | [] => -2 end end in
        mkCells (cr_action cr ++ [a]) (cr_lalr cr) (cr_sr cr) (cr_rr cr)
      else
        let '(row, sr, rr) := state_rows g v in
        mkCells (cr_action cr ++ [-3 - Z.of_nat (length (cr_lalr cr))])
                (cr_lalr cr ++ flat_map (fun e => [fst e; snd e]) row ++ [-1; -2])
                (cr_sr cr + sr) (cr_rr cr + rr))
    vs (mkCells [] [] 0 0).

Record ref_output := mkRef {
  ro_views : list state_view;
  ro_enc : default_enc;
  ro_final : list Z;
  ro_sr : Z;
  ro_rr : Z
}.

Definition reference (g : grammar) (fuel : nat) : ref_output :=
  let '(a, finals) := build_automaton g fuel in
  let la := lalr_la g a fuel in
  let vs := views g a la in
  let '(gt, ft) := build_goto g vs in
  let cr := populate g vs in
  mkRef vs (mkDefaultEnc (cr_action cr) (cr_lalr cr) gt ft) finals (cr_sr cr) (cr_rr cr).

(* ---------- property oracle: the implementation's tables against the canonical LALR(1) cells ---------- *)
(* verdict codes: 0 ok, 3 action differs, 4 conflict counts differ *)
Definition canonical_cell (g : grammar) (v : state_view) (term : Z) : list Z (* allowed final actions *) :=
  let has_shift := existsb (fun e => fst e =? term) (v_shifts v) in
  let rules := flat_map (fun '(r, la) => if mem term la then [r] else []) (combine (v_reduce v) (v_la_all v)) in
  let n := (if has_shift then 1 else 0)%nat in
  match (n + length rules)%nat with
  | O =>
      (* a state with a single reduction and no terminal shift may reduce without looking *)
      match v_reduce v with
      | [r] => if existsb (fun e => fst e <? g_terms g) (v_shifts v) then [-2] else [-2; r]
      | _ => [-2]
      end
  | _ => [final_action (fst (merge_cell g has_shift term rules))]
  end.

Definition cell_conflict (g : grammar) (v : state_view) (term : Z) : Z * Z (* sr, rr *) :=
  let has_shift := existsb (fun e => fst e =? term) (v_shifts v) in
  let rules := flat_map (fun '(r, la) => if mem term la then [r] else []) (combine (v_reduce v) (v_la_all v)) in
  match snd (merge_cell g has_shift term rules) with
  | Some am => if am_res am =? res_conflict then (if am_can_shift am then (1, 0) else (0, 1)) else (0, 0)
  | None => (0, 0)
  end.

Definition go_cell (t : default_enc) (q term : Z) : Z :=
  let a0 := zn (d_action t) q in
  let a := if a0 <? -2 then lalr_lookup t a0 term else a0 in
  if a =? -1 then (if goto_state t q term >=? 0 then -1 else -2) else a.

Definition check_tables (g : grammar) (vs : list state_view) (t : default_enc) (go_sr go_rr : Z) : Z :=
  let qs := combine (zrange (Z.of_nat (length vs))) vs in
  let bad_cell := existsb (fun '(q, v) =>
      existsb (fun term => negb (mem (go_cell t q term) (canonical_cell g v term))) (zrange (g_terms g))) qs in
  if bad_cell then 3 else
  let '(sr, rr) := fold_left (fun '(sr, rr) '(q, v) =>
      (* conflicts are only counted in states that consult the lookahead *)
      fold_left (fun '(sr, rr) term => let '(a, b) := cell_conflict g v term in (sr + a, rr + b)) (zrange (g_terms g)) (sr, rr))
      qs (0, 0) in
  if (sr =? go_sr) && (rr =? go_rr) then 0 else 4.
