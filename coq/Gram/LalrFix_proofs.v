(* C03: la_fix stops either because a round changed nothing - then the result passes la_stable - or because the
   fuel ran out, and in that case every round added at least one entry or lookahead, so the table has at least
   `fuel` entries + lookaheads.  (la_stable of the certificate can therefore fail only by lack of fuel.) *)
From Coq Require Import List ZArith Bool Arith Lia.
From TM Require Import Gram.Cfg Gram.LalrRef Gram.LalrSpec Gram.LalrSpec_proofs Gram.LalrSpec_proofs2.
Import ListNotations.
Local Open Scope Z_scope.

Section Fix.
Variable g : grammar.
Variable a : automaton.
Variable nl : list Z.
Variable ft : first_table.

Lemma stable_iff_fixed t : la_stable g a nl ft t = true <-> la_round g a nl ft t = t.
Proof.
  split; [apply stable_fixed|]. intros E. unfold la_stable. rewrite E, !Nat.eqb_refl. reflexivity.
Qed.

(* the loop of la_fix: stable result, or `fuel` strictly growing rounds *)
Lemma la_fix_stable_or_grown fuel : forall t,
  la_stable g a nl ft (la_fix fuel g a nl ft t) = true \/
  (mu t + fuel <= mu (la_fix fuel g a nl ft t))%nat.
Proof.
  induction fuel as [|fuel IH]; intros t; simpl.
  - right. lia.
  - destruct (Nat.eqb (la_size (la_round g a nl ft t)) (la_size t) &&
              Nat.eqb (length (la_round g a nl ft t)) (length t)) eqn:E.
    + left. assert (Hs : la_stable g a nl ft t = true) by exact E.
      apply stable_iff_fixed in Hs. rewrite Hs. apply stable_iff_fixed. exact Hs.
    + destruct (IH (la_round g a nl ft t)) as [H|H]; [left; exact H|right].
      destruct (infl_la_round g a nl ft t) as [H1 H2].
      assert (Hne : mu (la_round g a nl ft t) <> mu t).
      { intros Heq. apply H2 in Heq. rewrite Heq, !Nat.eqb_refl in E. discriminate. }
      lia.
Qed.
End Fix.

Theorem lalr_la_stable_or_fuel g a fuel :
  la_stable g a (nullable_set g) (first_sets g) (lalr_la g a fuel) = true \/
  (fuel <= length (lalr_la g a fuel) + la_size (lalr_la g a fuel))%nat.
Proof.
  unfold lalr_la. destruct (la_fix_stable_or_grown g a (nullable_set g) (first_sets g) fuel []) as [H|H]; [left; exact H|right].
  simpl in H. rewrite mu_eq in H. exact H.
Qed.

(* with the same information as a boolean: a table smaller than the fuel is stable *)
Theorem lalr_la_stable_if_small g a fuel :
  (length (lalr_la g a fuel) + la_size (lalr_la g a fuel) < fuel)%nat ->
  la_stable g a (nullable_set g) (first_sets g) (lalr_la g a fuel) = true.
Proof. intros H. destruct (lalr_la_stable_or_fuel g a fuel) as [E|E]; [exact E|lia]. Qed.
