(* C03: completeness of the lookahead iteration: a stable table contains every LALR(1)-valid lookahead. *)
From Coq Require Import List ZArith Bool Arith Lia.
From TM Require Import Gram.Cfg Gram.Derive Gram.LalrRef Gram.LalrSpec Gram.LalrSpec_proofs.
Import ListNotations.
Local Open Scope Z_scope.

(* ---------- inflationary table transformers ---------- *)
Fixpoint mu (t : la_table) : nat := match t with [] => 0%nat | e :: r => (S (length (snd e)) + mu r)%nat end.

Lemma la_size_acc t n : fold_left (fun n (e : (Z * item) * list Z) => (n + length (snd e))%nat) t n
                        = (n + la_size t)%nat.
Proof.
  unfold la_size. revert n; induction t as [|e t IH]; intros n; simpl; [lia|].
  rewrite IH, (IH (length (snd e))). lia.
Qed.

Lemma mu_eq t : mu t = (length t + la_size t)%nat.
Proof.
  induction t as [|e t IH]; simpl; [reflexivity|]. unfold la_size at 1. simpl. rewrite la_size_acc. lia.
Qed.

Definition infl (F : la_table -> la_table) : Prop :=
  forall t, (mu t <= mu (F t))%nat /\ (mu (F t) = mu t -> F t = t).

Lemma ins_len x l : (length l <= length (ins x l))%nat /\ (length (ins x l) = length l -> ins x l = l).
Proof.
  induction l as [|y l [IH1 IH2]]; simpl.
  - split; [lia|discriminate].
  - destruct (x <? y); [simpl; split; [lia|intros; lia]|].
    destruct (x =? y); [split; auto|]. simpl. split; [lia|]. intros H. f_equal. apply IH2. lia.
Qed.

Lemma union_len a b : (length b <= length (union a b))%nat /\ (length (union a b) = length b -> union a b = b).
Proof.
  unfold union. revert b; induction a as [|x a IH]; intros b; simpl; [split; auto|].
  destruct (IH (ins x b)) as [H1 H2]. destruct (ins_len x b) as [H3 H4]. split; [lia|].
  intros H. assert (E : ins x b = b) by (apply H4; lia). rewrite E in *. apply H2. exact H.
Qed.

Lemma infl_id : infl (fun t => t).
Proof. intros t; split; auto. Qed.

Lemma infl_la_add q it l : infl (fun t => la_add t q it l).
Proof.
  intros t. induction t as [|[[q0 it0] l0] t [IH1 IH2]]; simpl.
  - split; [lia|discriminate].
  - destruct ((q0 =? q) && item_eqb it0 it); simpl.
    + destruct (union_len l l0) as [H1 H2]. split; [lia|]. intros H. f_equal. f_equal. apply H2. lia.
    + split; [lia|]. intros H. f_equal. apply IH2. lia.
Qed.

Lemma infl_comp F G : infl F -> infl G -> infl (fun t => G (F t)).
Proof.
  intros HF HG t. destruct (HF t) as [F1 F2], (HG (F t)) as [G1 G2]. split; [lia|].
  intros H. assert (E : F t = t) by (apply F2; lia). rewrite E in *. auto.
Qed.

Lemma infl_dep {A} (H : A -> la_table -> la_table) (phi : la_table -> A) :
  (forall l, infl (H l)) -> infl (fun t => H (phi t) t).
Proof. intros HH t. apply (HH (phi t) t). Qed.

Lemma infl_fold {A} (f : la_table -> A -> la_table) xs :
  (forall x, In x xs -> infl (fun t => f t x)) -> infl (fun t => fold_left f xs t).
Proof.
  induction xs as [|x xs IH]; intros H; simpl; [apply infl_id|].
  apply (infl_comp (fun t => f t x) (fun t => fold_left f xs t)).
  - apply H; simpl; auto.
  - apply IH. intros; apply H; simpl; auto.
Qed.

Lemma infl_fixed F t : infl F -> mu (F t) = mu t -> F t = t.
Proof. intros H. apply H. Qed.

Lemma comp_fixed F G t : infl F -> infl G -> G (F t) = t -> F t = t /\ G t = t.
Proof.
  intros HF HG H. destruct (HF t) as [F1 F2], (HG (F t)) as [G1 G2].
  assert (E : F t = t) by (apply F2; rewrite H in G1; lia). rewrite E in H. auto.
Qed.

Lemma fold_fixed {A} (f : la_table -> A -> la_table) xs t :
  (forall x, In x xs -> infl (fun t => f t x)) -> fold_left f xs t = t -> forall x, In x xs -> f t x = t.
Proof.
  induction xs as [|y xs IH]; intros Hf H x Hx; simpl in *; [contradiction|].
  destruct (comp_fixed (fun t => f t y) (fun t => fold_left f xs t) t) as [E1 E2]; auto.
  - apply infl_fold. intros; apply Hf; auto.
  - destruct Hx as [<-|Hx]; auto.
Qed.

Lemma la_add_fixed t q it l : la_add t q it l = t -> incl l (la_get t q it).
Proof.
  intros H x Hx. rewrite <- H. apply la_get_add. right. auto.
Qed.

Lemma fold_left_ext {A B} (f h : A -> B -> A) l a : (forall a x, f a x = h a x) -> fold_left f l a = fold_left h l a.
Proof. intros H. revert a; induction l as [|y l IH]; intros a; simpl; auto. rewrite H. apply IH. Qed.

Lemma fold_left_ext2 {A B} (f h : A -> B -> A) l a b :
  (forall a x, f a x = h a x) -> a = b -> fold_left f l a = fold_left h l b.
Proof. intros H ->. apply fold_left_ext. exact H. Qed.

(* ---------- la_round in pieces ---------- *)
Section Pieces.
Variable g : grammar.
Variable a : automaton.
Variable nl : list Z.
Variable ft : first_table.

Definition seed_lookaheads (q : Z) : list Z :=
  if (match nth_error (g_inputs g) (Z.to_nat q) with Some (_, e) => e | None => true end) then [0] else all_terms g.

Definition seed_part (q : Z) (st : lstate) (t : la_table) : la_table :=
  match s_seed st with
  | Some nt => if s_kind st =? 0 then
                 fold_left (fun t r => la_add t q (r, 0) (seed_lookaheads q)) (rules_of g nt) t
               else t
  | None => t
  end.

Definition clos_lookaheads (it : item) (l : list Z) : list Z :=
  let '(f, n) := first_seq g nl (ft_get ft) (item_rest g it) in if n then union f l else f.

Definition clos_part (q : Z) (it : item) (s : Z) (l : list Z) (t : la_table) : la_table :=
  if is_term g s then t else fold_left (fun t r => la_add t q (r, 0) (clos_lookaheads it l)) (rules_of g s) t.

Definition goto_part (q : Z) (it : item) (s : Z) (l : list Z) (t : la_table) : la_table :=
  match trans_target a q s with Some q' => la_add t q' (fst it, snd it + 1) l | None => t end.

Definition item_part (q : Z) (t : la_table) (it : item) : la_table :=
  match sym_after g it with
  | None => t
  | Some s => goto_part q it s (la_get t q it) (clos_part q it s (la_get t q it) t)
  end.

Definition state_part (t : la_table) (x : Z * lstate) : la_table :=
  fold_left (item_part (fst x)) (closure g (s_kernel (snd x)) (s_seed (snd x))) (seed_part (fst x) (snd x) t).

Lemma item_part_eq q t it :
  item_part q t it =
  (let l := la_get t q it in
   match sym_after g it with
   | None => t
   | Some s =>
       let rest := skipn (S (Z.to_nat (snd it))) (r_rhs (rule_at g (fst it))) in
       let t := if is_term g s then t else
                  let '(f, n) := first_seq g nl (ft_get ft) rest in
                  let l' := if n then union f l else f in
                  fold_left (fun t r => la_add t q (r, 0) l') (rules_of g s) t in
       match trans_target a q s with
       | Some q' => la_add t q' (fst it, snd it + 1) l
       | None => t
       end
   end).
Proof.
  unfold item_part, goto_part, clos_part, clos_lookaheads, item_rest. cbv zeta.
  destruct (sym_after g it) as [s|]; auto.
  destruct (first_seq g nl (ft_get ft) _) as [f n]. reflexivity.
Qed.

Lemma la_round_eq t :
  la_round g a nl ft t = fold_left state_part (combine (zrange (Z.of_nat (length (a_states a)))) (a_states a)) t.
Proof.
  unfold la_round. apply fold_left_ext. intros t' [q st]. unfold state_part. cbn [fst snd].
  apply fold_left_ext2.
  - intros t2 it. symmetry. apply item_part_eq.
  - unfold seed_part, seed_lookaheads. reflexivity.
Qed.

Lemma infl_seed_part q st : infl (seed_part q st).
Proof.
  unfold seed_part. destruct (s_seed st); [|apply infl_id]. destruct (s_kind st =? 0); [|apply infl_id].
  apply (infl_fold (fun t r => la_add t q (r, 0) (seed_lookaheads q))). intros; apply infl_la_add.
Qed.

Lemma infl_clos_part q it s l : infl (clos_part q it s l).
Proof.
  unfold clos_part. destruct (is_term g s); [apply infl_id|].
  apply (infl_fold (fun t r => la_add t q (r, 0) (clos_lookaheads it l))). intros; apply infl_la_add.
Qed.

Lemma infl_goto_part q it s l : infl (goto_part q it s l).
Proof. unfold goto_part. destruct (trans_target a q s); [apply infl_la_add|apply infl_id]. Qed.

Lemma infl_item_part q it : infl (fun t => item_part q t it).
Proof.
  unfold item_part. destruct (sym_after g it) as [s|]; [|apply infl_id].
  apply (infl_dep (fun l t => goto_part q it s l (clos_part q it s l t)) (fun t => la_get t q it)).
  intros l. apply (infl_comp (clos_part q it s l) (goto_part q it s l)); [apply infl_clos_part|apply infl_goto_part].
Qed.

Lemma infl_state_part x : infl (fun t => state_part t x).
Proof.
  unfold state_part.
  apply (infl_comp (seed_part (fst x) (snd x)) (fun t => fold_left (item_part (fst x)) _ t)).
  - apply infl_seed_part.
  - apply infl_fold. intros; apply infl_item_part.
Qed.

Lemma infl_la_round : infl (la_round g a nl ft).
Proof.
  intros t. rewrite la_round_eq. revert t.
  apply (infl_fold state_part). intros; apply infl_state_part.
Qed.

(* ---------- the constraints a stable table satisfies ---------- *)
Variable T : la_table.
Hypothesis Hstable : la_stable g a nl ft T = true.

Lemma stable_fixed : la_round g a nl ft T = T.
Proof.
  unfold la_stable in Hstable. apply andb_true_iff in Hstable. destruct Hstable as [H1 H2].
  apply Nat.eqb_eq in H1, H2. apply infl_la_round. rewrite !mu_eq. lia.
Qed.

Section State.
Variables (q : Z) (st : lstate).
Hypothesis Hq : 0 <= q.
Hypothesis Hst : nth_error (a_states a) (Z.to_nat q) = Some st.

Lemma state_fixed : state_part T (q, st) = T.
Proof.
  pose proof stable_fixed as H. rewrite la_round_eq in H.
  apply (fold_fixed state_part _ T (fun x _ => infl_state_part x) H).
  apply in_combine_zrange. auto.
Qed.

Lemma seed_fixed : seed_part q st T = T.
Proof.
  pose proof state_fixed as H. unfold state_part in H. cbn [fst snd] in H.
  apply (comp_fixed (seed_part q st) (fun t => fold_left (item_part q) _ t) T) in H.
  - apply H.
  - apply infl_seed_part.
  - apply infl_fold. intros; apply infl_item_part.
Qed.

Lemma item_fixed it : In it (closure g (s_kernel st) (s_seed st)) -> item_part q T it = T.
Proof.
  pose proof state_fixed as H. unfold state_part in H. cbn [fst snd] in H.
  apply (comp_fixed (seed_part q st) (fun t => fold_left (item_part q) _ t) T) in H.
  - destruct H as [_ H]. apply (fold_fixed (item_part q) _ T (fun x _ => infl_item_part q x) H).
  - apply infl_seed_part.
  - apply infl_fold. intros; apply infl_item_part.
Qed.

Lemma K_seed nt r : s_seed st = Some nt -> s_kind st = 0 -> In r (rules_of g nt) ->
  incl (seed_lookaheads q) (la_get T q (r, 0)).
Proof.
  intros Es Ek Hr. pose proof seed_fixed as H. unfold seed_part in H. rewrite Es, Ek in H. simpl in H.
  apply la_add_fixed.
  apply (fold_fixed (fun t r => la_add t q (r, 0) (seed_lookaheads q)) _ T
                    (fun x _ => infl_la_add q (x, 0) _) H r Hr).
Qed.

Lemma K_closure it s r : In it (closure g (s_kernel st) (s_seed st)) -> sym_after g it = Some s ->
  is_term g s = false -> In r (rules_of g s) ->
  incl (clos_lookaheads it (la_get T q it)) (la_get T q (r, 0)).
Proof.
  intros Hit Es Et Hr. pose proof (item_fixed it Hit) as H. unfold item_part in H. rewrite Es in H.
  apply (comp_fixed (clos_part q it s (la_get T q it)) (goto_part q it s (la_get T q it)) T) in H;
    [|apply infl_clos_part|apply infl_goto_part].
  destruct H as [H _]. unfold clos_part in H. rewrite Et in H.
  apply la_add_fixed.
  apply (fold_fixed (fun t r => la_add t q (r, 0) _) _ T (fun x _ => infl_la_add q (x, 0) _) H r Hr).
Qed.

Lemma K_goto it s q' : In it (closure g (s_kernel st) (s_seed st)) -> sym_after g it = Some s ->
  trans_target a q s = Some q' -> incl (la_get T q it) (la_get T q' (fst it, snd it + 1)).
Proof.
  intros Hit Es Etr. pose proof (item_fixed it Hit) as H. unfold item_part in H. rewrite Es in H.
  apply (comp_fixed (clos_part q it s (la_get T q it)) (goto_part q it s (la_get T q it)) T) in H;
    [|apply infl_clos_part|apply infl_goto_part].
  destruct H as [_ H]. unfold goto_part in H. rewrite Etr in H. apply la_add_fixed. exact H.
Qed.
End State.
End Pieces.

(* ---------- nullable / FIRST completeness for closed sets ---------- *)
Scheme nullable_sym_ind2 := Minimality for nullable_sym Sort Prop
  with nullable_seq_ind2 := Minimality for nullable_seq Sort Prop.
Combined Scheme nullable_mutind from nullable_sym_ind2, nullable_seq_ind2.

Section FirstComplete.
Variable g : grammar.
Variable nl : list Z.
Hypothesis Hwf : wf_lhs g = true.
Hypothesis Hncl : nullable_closed g nl = true.

Lemma lhs_not_term r : In r (g_rules g) -> is_term g (r_lhs r) = false.
Proof.
  intros Hr. unfold wf_lhs in Hwf. rewrite forallb_forall in Hwf. apply Hwf in Hr.
  apply negb_true_iff in Hr. exact Hr.
Qed.

Lemma nullable_complete :
  (forall x, nullable_sym g x -> is_term g x = false /\ In x nl) /\
  (forall w, nullable_seq g w -> forallb (fun s => negb (is_term g s) && mem s nl) w = true).
Proof.
  apply nullable_mutind.
  - intros r Hr _ IH. split; [apply lhs_not_term; auto|].
    unfold nullable_closed in Hncl. rewrite forallb_forall in Hncl. apply Hncl in Hr.
    rewrite IH in Hr. simpl in Hr. apply cfg_mem_In. exact Hr.
  - reflexivity.
  - intros x xs _ [H1 H2] _ IH. simpl. rewrite H1, IH. simpl.
    rewrite (proj2 (cfg_mem_In x nl) H2). reflexivity.
Qed.

Lemma first_sym_term x b : first_sym g x b -> is_term g x = true -> b = x.
Proof.
  intros H. destruct H as [b Hb|r pre y post b Hr]; auto.
  intros Ht. rewrite (lhs_not_term r Hr) in Ht. discriminate.
Qed.

Lemma first_seq_nullable f w : nullable_seq g w -> snd (first_seq g nl f w) = true.
Proof.
  induction 1 as [|x xs Hx Hxs IH]; simpl; auto.
  destruct (proj1 nullable_complete x Hx) as [H1 H2]. rewrite H1, (proj2 (cfg_mem_In x nl) H2).
  destruct (first_seq g nl f xs). exact IH.
Qed.

Lemma first_seq_complete_at f pre x post b :
  nullable_seq g pre -> (is_term g x = true -> b = x) -> (is_term g x = false -> In b (f x)) ->
  In b (fst (first_seq g nl f (pre ++ x :: post))).
Proof.
  intros Hpre H1 H2. induction Hpre as [|p pre Hp Hpre IH]; simpl.
  - destruct (is_term g x) eqn:Et.
    + left. symmetry. auto.
    + destruct (mem x nl).
      * destruct (first_seq g nl f post). simpl. apply cfg_union_In. left. auto.
      * simpl. auto.
  - destruct (proj1 nullable_complete p Hp) as [E1 E2]. rewrite E1, (proj2 (cfg_mem_In p nl) E2).
    destruct (first_seq g nl f (pre ++ x :: post)). simpl in *. apply cfg_union_In. right. exact IH.
Qed.

Variable ft : first_table.
Hypothesis Hfcl : first_closed g nl ft = true.

Lemma first_complete X b : first_sym g X b -> is_term g X = false -> In b (ft_get ft X).
Proof.
  induction 1 as [b Hb|r pre x post b Hr E Hpre Hx IH]; intros Ht; [congruence|].
  unfold first_closed in Hfcl. rewrite forallb_forall in Hfcl. apply Hfcl in Hr.
  unfold subset_b in Hr. rewrite forallb_forall in Hr. apply cfg_mem_In. apply Hr.
  rewrite E. apply first_seq_complete_at; auto. apply first_sym_term. exact Hx.
Qed.

Lemma first_seq_complete w b : first_seq_of g w b -> In b (fst (first_seq g nl (ft_get ft) w)).
Proof.
  intros (pre & x & post & -> & Hpre & Hx). apply first_seq_complete_at; auto.
  - apply first_sym_term. exact Hx.
  - apply first_complete. exact Hx.
Qed.
End FirstComplete.

(* ---------- completeness ---------- *)
Lemma reach_nil_inv a i q : reach a i [] q -> q = i.
Proof.
  intros H. inversion H as [|gamma q0 X q' _ _ E]; auto. destruct gamma; discriminate.
Qed.

Lemma reach_snoc_inv a i gamma X q' : reach a i (gamma ++ [X]) q' ->
  exists q, reach a i gamma q /\ trans_target a q X = Some q'.
Proof.
  intros H. inversion H as [E|gamma0 q0 X0 q1 H1 H2 E].
  - destruct gamma; discriminate.
  - apply app_inj_tail in E. destruct E as [-> ->]. eauto.
Qed.

Lemma lr1_lr0 g i gamma it x : lr1_valid g i gamma it x -> lr0_valid g i gamma it.
Proof.
  induction 1.
  - eapply l0_start; eauto.
  - eapply l0_closure; eauto.
  - eapply l0_closure; eauto.
  - apply l0_goto; auto.
Qed.

Section Complete.
Variable g : grammar.
Variable a : automaton.
Variable nl : list Z.
Variable ft : first_table.
Variable T : la_table.
Hypothesis Hwf : wf_lhs g = true.
Hypothesis Hncl : nullable_closed g nl = true.
Hypothesis Hfcl : first_closed g nl ft = true.
Hypothesis Hstable : la_stable g a nl ft T = true.
Hypothesis Hstarts : starts_present g a.
Hypothesis Haut : aut_complete g a.

Lemma la_complete_gen i gamma it x : lr1_valid g i gamma it x ->
  forall q, reach a i gamma q -> In x (la_get T q it).
Proof.
  induction 1 as [nt eoi r x Hi Hinp Hr Hx|gamma it B r b H0 Es Et Hr Hb|gamma it x B r H IH Es Et Hr Hn
                  |gamma it x X H IH Es]; intros q Hreach.
  - apply reach_nil_inv in Hreach. subst q.
    destruct (Hstarts i nt eoi Hi Hinp) as (st & Hst & Hseed & Hk).
    apply (K_seed g a nl ft T Hstable i st Hi Hst nt r Hseed Hk Hr).
    unfold seed_lookaheads. rewrite Hinp. destruct eoi.
    + left. auto.
    + unfold all_terms. apply in_zrange. unfold is_term in Hx. apply andb_true_iff in Hx.
      destruct Hx as [H1 H2]. apply Z.leb_le in H1. apply Z.ltb_lt in H2. lia.
  - destruct (Haut i gamma q it Hreach H0) as (Hq & st & Hst & Hit).
    apply (K_closure g a nl ft T Hstable q st Hq Hst it B r Hit Es Et Hr).
    unfold clos_lookaheads.
    pose proof (first_seq_complete g nl Hwf Hncl ft Hfcl _ _ Hb) as Hin.
    destruct (first_seq g nl (ft_get ft) (item_rest g it)) as [f n]. simpl in Hin.
    destruct n; [apply cfg_union_In; left|]; exact Hin.
  - destruct (Haut i gamma q it Hreach (lr1_lr0 _ _ _ _ _ H)) as (Hq & st & Hst & Hit).
    apply (K_closure g a nl ft T Hstable q st Hq Hst it B r Hit Es Et Hr).
    unfold clos_lookaheads.
    pose proof (first_seq_nullable g nl Hwf Hncl (ft_get ft) _ Hn) as Hnn.
    destruct (first_seq g nl (ft_get ft) (item_rest g it)) as [f n]. simpl in Hnn. subst n.
    apply cfg_union_In. right. apply IH. exact Hreach.
  - apply reach_snoc_inv in Hreach. destruct Hreach as (q0 & Hreach & Htr).
    destruct (Haut i gamma q0 it Hreach (lr1_lr0 _ _ _ _ _ H)) as (Hq & st & Hst & Hit).
    apply (K_goto g a nl ft T Hstable q0 st Hq Hst it X q Hit Es Htr). apply IH. exact Hreach.
Qed.

Theorem la_complete q it x : lalr1 g a q it x -> In x (la_get T q it).
Proof. intros (i & gamma & Hreach & Hval). eapply la_complete_gen; eauto. Qed.
End Complete.

(* the two directions for the table lalr_la computes *)
Theorem lalr_la_complete g a fuel :
  wf_lhs g = true ->
  nullable_closed g (nullable_set g) = true ->
  first_closed g (nullable_set g) (first_sets g) = true ->
  la_stable g a (nullable_set g) (first_sets g) (lalr_la g a fuel) = true ->
  starts_present g a -> aut_complete g a ->
  forall q it x, lalr1 g a q it x -> In x (la_get (lalr_la g a fuel) q it).
Proof. intros. eapply la_complete; eauto. Qed.
