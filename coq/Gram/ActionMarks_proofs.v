(* State markers (.name) in Gram/ActionRefs.v: they are transparent for everything an action reference is
   resolved with (positions, Names tables, expansions, actualPos, numRefs, stack slots), and the only effect
   they have on a rule with actions is the rejection [mixes]. *)
From Coq Require Import List NArith ZArith Bool Arith Lia.
From TM Require Import Gram.ActionRefs Gram.ActionRefs_proofs.
Import ListNotations.
Local Open Scope nat_scope.

Fixpoint drop_marks (l : list item) : list item :=
  match l with
  | [] => []
  | IMark _ :: r => drop_marks r
  | x :: r => x :: drop_marks r
  end.

Fixpoint drop_lmarks (l : list litem) : list litem :=
  match l with
  | [] => []
  | LMark _ :: r => drop_lmarks r
  | x :: r => x :: drop_lmarks r
  end.

Lemma drop_marks_app : forall a b, drop_marks (a ++ b) = drop_marks a ++ drop_marks b.
Proof.
  induction a as [|[pos|c|m] a IH]; intro b; cbn [app drop_marks]; [reflexivity| | |apply IH]; now rewrite IH.
Qed.

Lemma collect_erase : forall p, collect (erase_marks p) = collect p.
Proof.
  induction p; cbn [erase_marks collect]; try reflexivity; try assumption; now rewrite IHp1, IHp2.
Qed.

(* convertPart: same positions, same names, same CmdArgs snapshots; the converted body is the erased one *)
Lemma convert_erase : forall p s,
  convert (erase_marks p) s = (erase_marks (fst (convert p s)), snd (convert p s)).
Proof.
  induction p; intro s; cbn [erase_marks convert].
  - reflexivity.
  - reflexivity.
  - reflexivity.
  - rewrite IHp. destruct (convert p s). reflexivity.
  - rewrite IHp1. destruct (convert p1 s) as [a' s1]. cbn [fst snd]. rewrite IHp2.
    destruct (convert p2 s1). reflexivity.
  - rewrite IHp1. destruct (convert p1 s) as [a' s1]. cbn [fst snd]. rewrite IHp2.
    destruct (convert p2 s1). reflexivity.
  - rewrite IHp. destruct (convert p _) as [q' s1]. reflexivity.
  - rewrite IHp. destruct (convert p s) as [q' s1]. cbn [fst snd]. rewrite collect_erase. reflexivity.
  - reflexivity.
  - reflexivity.
Qed.

Lemma pick_erase : forall p sel,
  pick (erase_marks p) sel = (drop_marks (fst (pick p sel)), snd (pick p sel)).
Proof.
  induction p; intro sel; cbn [erase_marks pick].
  - reflexivity.
  - reflexivity.
  - reflexivity.
  - destruct sel as [|[|] r]; [reflexivity | apply IHp | reflexivity].
  - rewrite IHp1. destruct (pick p1 sel) as [x r]. cbn [fst snd]. rewrite IHp2.
    destruct (pick p2 r) as [y r2]. cbn [fst snd]. now rewrite drop_marks_app.
  - destruct sel as [|[|] r]; [apply IHp1 | apply IHp2 | apply IHp1].
  - apply IHp.
  - apply IHp.
  - reflexivity.
  - reflexivity.
Qed.

Lemma multi_concat_cons : forall (x : list item) xs ys,
  multi_concat (x :: xs) ys = map (fun y => x ++ y) ys ++ multi_concat xs ys.
Proof. reflexivity. Qed.

Lemma multi_concat_drop : forall xs ys,
  multi_concat (map drop_marks xs) (map drop_marks ys) = map drop_marks (multi_concat xs ys).
Proof.
  induction xs as [|x xs IH]; intro ys; [reflexivity|].
  cbn [map]. rewrite !multi_concat_cons, map_app, IH. f_equal.
  rewrite !map_map. apply map_ext. intro y. now rewrite drop_marks_app.
Qed.

Lemma expand_erase : forall p, expand (erase_marks p) = map drop_marks (expand p).
Proof.
  induction p; cbn [erase_marks expand]; try reflexivity; try assumption.
  - now rewrite IHp, map_app.
  - now rewrite IHp1, IHp2, multi_concat_drop.
  - now rewrite IHp1, IHp2, map_app.
Qed.

(* compiler.go traverse: a marker is appended to rule.RHS and changes nothing else *)
Lemma traverse_drop : forall l pend, traverse (drop_marks l) pend = drop_lmarks (traverse l pend).
Proof.
  induction l as [|[pos|c|m] l IH]; intro pend; cbn [drop_marks traverse].
  - destruct pend; reflexivity.
  - rewrite IH. destruct pend; reflexivity.
  - apply IH.
  - cbn [drop_lmarks]. apply IH.
Qed.

(* the run-time side: no stack entry, numRefs and actualPos unchanged *)
Lemma run_drop : forall tab cas ls base st rm ch cur,
  run tab cas (drop_lmarks ls) base st rm ch cur = run tab cas ls base st rm ch cur.
Proof.
  induction ls as [|[pos|cs|cs|m] ls IH]; intros base st rm ch cur; cbn [drop_lmarks run].
  - reflexivity.
  - destruct ch as [|c ch0]; [reflexivity | apply IH].
  - f_equal. apply IH.
  - f_equal. apply IH.
  - apply IH.
Qed.

(* every action of a rule logs the same values whether the state markers are there or not *)
Theorem markers_transparent : forall tab body lead sel base ch start,
  run_node tab (erase_marks body) lead sel base ch start = run_node tab body lead sel base ch start.
Proof.
  intros tab body lead sel base ch start. unfold run_node, convert_rule.
  rewrite convert_erase. destruct (convert body (mkC [] [] 1 [])) as [b' cs]. cbn [fst snd].
  rewrite pick_erase. cbn [fst].
  assert (E : (if lead then [IRef 0] else []) ++ drop_marks (fst (pick b' sel)) =
              drop_marks ((if lead then [IRef 0] else []) ++ fst (pick b' sel))).
  { rewrite drop_marks_app. now destruct lead. }
  rewrite E, traverse_drop. apply run_drop.
Qed.

(* ... and is given the same Names / MaxPos tables *)
Theorem markers_keep_tables : forall body,
  c_cmds (snd (convert_rule (erase_marks body))) = c_cmds (snd (convert_rule body)) /\
  c_pos (snd (convert_rule (erase_marks body))) = c_pos (snd (convert_rule body)).
Proof. intro body. unfold convert_rule. rewrite convert_erase. split; reflexivity. Qed.

(* a numeric reference $N counts positions, and a marker has none: the positions of every expansion are those
   of the expansion without markers *)
Theorem markers_have_no_position : forall l, positions (drop_marks l) = positions l.
Proof. induction l as [|[pos|c|m] l IH]; cbn [drop_marks positions]; [reflexivity| |exact IH|exact IH]; now rewrite IH. Qed.

(* the rejection needs a marker: a rule without state markers never "mixes" *)
Lemma mixes_drop : forall ls, mixes (drop_lmarks ls) false = false.
Proof. induction ls as [|[pos|cs|cs|m] ls IH]; cbn [drop_lmarks mixes orb]; assumption || reflexivity. Qed.

Theorem unmarked_rule_never_mixes : forall body, rule_mixes (erase_marks body) = false.
Proof.
  intro body. unfold rule_mixes, convert_rule. rewrite convert_erase. cbn [fst].
  rewrite expand_erase.
  induction (expand (fst (convert body (mkC [] [] 1 [])))) as [|x l IH]; [reflexivity|].
  cbn [map existsb]. rewrite traverse_drop, mixes_drop. exact IH.
Qed.
