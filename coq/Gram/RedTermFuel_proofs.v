(* C19: amortised form of the reduction bound of RedTerm_proofs: a sequence of k consecutive reductions of the plain loop
   from a stack of height d that ends on a stack of height d' satisfies  k + F * d' <= F * d + F^2 + 2 F + 1
   (every anchored phase that pops its anchor pays its <= F steps with the entry it removes; only the last phase can
   raise the stack, by at most F).  With the potential F * height this gives a fuel bound for the whole recovering parse
   that is LINEAR in the input length (and quadratic in F). *)
From Coq Require Import List ZArith Bool Arith Lia.
From TM Require Import Lib.ListX Gram.PTables Gram.Run Gram.Validator Gram.Validator_proofs Gram.Events Gram.Recover
  Gram.Recover_proofs Gram.Recover_progress Gram.RedTerm Gram.RedTerm_proofs Gram.RedTermRec_proofs.
Import ListNotations.
Local Open Scope Z_scope.

Fixpoint reduce_n (p : rparams) (n : nat) (x : xconfig) : option xconfig :=
  match n with O => Some x | S k => match plain_reduce p x with Some x' => reduce_n p k x' | None => None end end.

Section R.
Variable p : rparams.
Variables nstates T NS : Z.
Variable F : nat.
Notation m := (rp_m p).
Notation eoi := (rp_eoi_off p).
Hypothesis Hnm : lalr1 p.
Hypothesis Hrt : check_redterm m nstates T NS F = true.
Hypothesis Hrg : check_range m nstates T NS = true.
Notation xinv := (xinv p nstates T).
Notation formed := (formed p NS).
Notation nsym := (nsym p).
Notation dep x := (length (xc_stack x)).

Lemma reduces_for_n k : forall x, reduces_for p k x = true -> exists y, reduce_n p k x = Some y.
Proof.
  induction k as [|k IH]; intros x; simpl; [eauto|].
  destruct (plain_reduce p x) as [x'|]; [apply IH|discriminate].
Qed.

Lemma sim_lift2 a b N :
  forall f ab x Eab e_b rest,
  rt_sim f m a b ab = true ->
  xinv x -> xc_stack x = Eab ++ e_b :: rest -> map x_state Eab = ab -> ab <> [] -> x_state e_b = b -> nsym x = a ->
  (forall x' j y, xinv x' -> formed x' -> (dep x' <= S (length rest))%nat -> reduce_n p j x' = Some y -> (j + F * dep y <= N)%nat) ->
  forall k y, reduce_n p k x = Some y -> (k + F * dep y <= f + Nat.max (F * (dep x + f)) N)%nat.
Proof.
  induction f as [|f IH]; intros ab x Eab e_b rest Hsim Hinv Hstk Hmap Hab Heb Hsym Hcont k y Hk; [discriminate|].
  destruct k as [|k].
  { simpl in Hk. injection Hk as <-.
    assert (F * dep x <= F * (dep x + S f))%nat by (apply Nat.mul_le_mono_l; lia). lia. }
  cbn [rt_sim] in Hsim. cbn [reduce_n] in Hk.
  assert (Htop : xc_state x = hd b ab).
  { destruct Hinv as (_ & _ & H & _). rewrite H, Hstk. destruct Eab as [|e0 E']; [simpl in Hmap; congruence|].
    subst ab. reflexivity. }
  rewrite <- Htop in Hsim. rewrite <- Hsym in Hsim.
  destruct (m_act m (xc_state x) (nsym x) []) as [q|rule| |row] eqn:Hact;
    try (rewrite (pr_other p Hnm) in Hk; [discriminate|intros r; rewrite Hact; discriminate]).
  set (ln := Z.to_nat (m_rule_len m rule)) in *.
  destruct (le_lt_dec (length (xc_stack x)) ln) as [Hle|Hlt]; [rewrite (pr_crash p Hnm x rule Hact Hle) in Hk; discriminate|].
  set (below := match skipn ln (xc_stack x) with b0 :: _ => x_state b0 | [] => -1 end).
  destruct (Z.eq_dec (m_goto m below (m_rule_sym m rule)) (-1)) as [Est|Est];
    [rewrite (pr_nogoto p Hnm x rule Hact Est) in Hk; discriminate|].
  destruct (reduce_step p nstates T NS Hnm Hrg x rule Hinv Hact Hlt Est) as (x' & e' & Hpr & Hinv' & Hform' & Hin' & Hstk' & He').
  fold ln in Hstk'. fold ln in He'. fold below in He'. rewrite Hpr in Hk.
  assert (HlenE : length Eab = length ab) by (rewrite <- Hmap; symmetry; apply map_length).
  assert (Hdep' : (dep x' <= S (dep x))%nat) by (rewrite Hstk'; simpl; rewrite skipn_length; lia).
  destruct (length ab <? ln)%nat eqn:Elt.
  - apply Nat.ltb_lt in Elt.
    assert (Hc : (k + F * dep y <= N)%nat).
    { apply (Hcont x' k y Hinv' Hform'); [|exact Hk]. rewrite Hstk'. simpl. rewrite skipn_length, Hstk, app_length. simpl. lia. }
    lia.
  - apply Nat.ltb_ge in Elt.
    assert (Hsk : skipn ln (xc_stack x) = skipn ln Eab ++ e_b :: rest).
    { rewrite Hstk, skipn_app. replace (ln - length Eab)%nat with O by lia. reflexivity. }
    assert (Hbelow : below = hd b (skipn ln ab)).
    { unfold below. rewrite Hsk, <- Hmap, skipn_map. destruct (skipn ln Eab) as [|e1 E1]; simpl; [exact Heb|reflexivity]. }
    rewrite <- Hbelow in Hsim. apply Z.eqb_neq in Est. rewrite Est in Hsim. rewrite Hsym in Hsim.
    assert (Hc : (k + F * dep y <= f + Nat.max (F * (dep x' + f)) N)%nat).
    { apply (IH (m_goto m below (m_rule_sym m rule) :: skipn ln ab) x' (e' :: skipn ln Eab) e_b rest Hsim Hinv'); auto.
      + rewrite Hstk', Hsk. reflexivity.
      + simpl. rewrite He', <- Hmap, skipn_map. reflexivity.
      + discriminate.
      + unfold RedTerm_proofs.nsym. rewrite Hin'. exact Hsym. }
    assert (F * (dep x' + f) <= F * (dep x + S f))%nat by (apply Nat.mul_le_mono_l; lia). lia.
Qed.

Theorem formed_bound2 : forall h x, xinv x -> formed x -> (dep x <= h)%nat ->
  forall k y, reduce_n p k x = Some y -> (k + F * dep y <= F * h + F * F + F)%nat.
Proof.
  induction h as [|h IH]; intros x Hinv Hform Hlen k y Hk.
  - destruct Hform as (e_t & e_b & rest & A & Hstk & _). rewrite Hstk in Hlen. simpl in Hlen. lia.
  - destruct Hform as (e_t & e_b & rest & A & Hstk & Ht & HA).
    pose proof Hinv as (_ & Hall & _ & Ha). rewrite Hstk in Hall.
    inversion Hall as [|? ? Het Hall1]; subst. inversion Hall1 as [|? ? Heb _]; subst.
    rewrite Ht in Het. pose proof (L_rt p nstates T NS F Hrt (nsym x) (x_state e_b) A Ha Heb HA Het) as Hsim.
    pose proof (sim_lift2 (nsym x) (x_state e_b) (F * h + F * F + F) F [m_goto m (x_state e_b) A] x [e_t] e_b rest Hsim Hinv
                  Hstk ltac:(simpl; rewrite Ht; reflexivity) ltac:(discriminate) eq_refl eq_refl) as H.
    assert (Hc : (k + F * dep y <= F + Nat.max (F * (dep x + F)) (F * h + F * F + F))%nat).
    { apply H; [|exact Hk]. intros x' j y' Hinv' Hform' Hlen' Hj. apply (IH x'); auto. rewrite Hstk in Hlen. simpl in Hlen. lia. }
    assert (F * (dep x + F) <= F * (S h + F))%nat by (apply Nat.mul_le_mono_l; lia). lia.
Qed.

(* every configuration of the invariant *)
Theorem redterm_amortized x : xinv x -> forall k y, reduce_n p k x = Some y ->
  (k + F * dep y <= F * dep x + F * F + 2 * F + 1)%nat.
Proof.
  intros Hinv k y Hk. destruct k as [|k]; [simpl in Hk; injection Hk as <-; lia|].
  cbn [reduce_n] in Hk. destruct (plain_reduce p x) as [x'|] eqn:Hpr; [|discriminate].
  destruct (plain_reduce_inv p nstates T NS Hnm Hrg x x' Hinv Hpr) as (Hinv' & Hform' & _ & Hlen).
  pose proof (formed_bound2 (S (dep x)) x' Hinv' Hform' Hlen k y Hk). lia.
Qed.

End R.
