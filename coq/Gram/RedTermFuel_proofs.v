(* C19: amortised form of the reduction bound of RedTerm_proofs: a sequence of k consecutive reductions of the plain loop
   from a stack of height d that ends on a stack of height d' satisfies  k + F * d' <= F * d + F^2 + 2 F + 1
   (every anchored phase that pops its anchor pays its <= F steps with the entry it removes; only the last phase can
   raise the stack, by at most F).  With the potential F * height this gives a fuel bound for the whole recovering parse
   that is LINEAR in the input length (and quadratic in F). *)
From Coq Require Import List ZArith Bool Arith Lia.
From TM Require Import Lib.ListX Gram.PTables Gram.Run Gram.Validator Gram.Validator_proofs Gram.Events Gram.Recover
  Gram.Recover_proofs Gram.Recover_progress Gram.RedTerm Gram.RedTerm_proofs Gram.RedTermRec_proofs.
Import ListNotations.
Local Open Scope Z_scope.

Fixpoint reduce_n (p : rparams) (n : nat) (x : xconfig) : option xconfig :=
  match n with O => Some x | S k => match plain_reduce p x with Some x' => reduce_n p k x' | None => None end end.

Section R.
Variable p : rparams.
Variables nstates T NS : Z.
Variable F : nat.
Notation m := (rp_m p).
Notation eoi := (rp_eoi_off p).
Hypothesis Hnm : lalr1 p.
Hypothesis Hrt : check_redterm m nstates T NS F = true.
Hypothesis Hrg : check_range m nstates T NS = true.
Notation xinv := (xinv p nstates T).
Notation formed := (formed p NS).
Notation nsym := (nsym p).
Notation dep x := (length (xc_stack x)).

Lemma reduces_for_n k : forall x, reduces_for p k x = true -> exists y, reduce_n p k x = Some y.
Proof.
  induction k as [|k IH]; intros x; simpl; [eauto|].
  destruct (plain_reduce p x) as [x'|]; [apply IH|discriminate].
Qed.

Lemma sim_lift2 a b N :
  forall f ab x Eab e_b rest,
  rt_sim f m a b ab = true ->
  xinv x -> xc_stack x = Eab ++ e_b :: rest -> map x_state Eab = ab -> ab <> [] -> x_state e_b = b -> nsym x = a ->
  (forall x' j y, xinv x' -> formed x' -> (dep x' <= S (length rest))%nat -> reduce_n p j x' = Some y -> (j + F * dep y <= N)%nat) ->
  forall k y, reduce_n p k x = Some y -> (k + F * dep y <= f + Nat.max (F * (dep x + f)) N)%nat.
Proof.
  induction f as [|f IH]; intros ab x Eab e_b rest Hsim Hinv Hstk Hmap Hab Heb Hsym Hcont k y Hk; [discriminate|].
  destruct k as [|k].
  { simpl in Hk. injection Hk as <-.
    assert (F * dep x <= F * (dep x + S f))%nat by (apply Nat.mul_le_mono_l; lia). lia. }
  cbn [rt_sim] in Hsim. cbn [reduce_n] in Hk.
  assert (Htop : xc_state x = hd b ab).
  { destruct Hinv as (_ & _ & H & _). rewrite H, Hstk. destruct Eab as [|e0 E']; [simpl in Hmap; congruence|].
    subst ab. reflexivity. }
  rewrite <- Htop in Hsim. rewrite <- Hsym in Hsim.
  destruct (m_act m (xc_state x) (nsym x) []) as [q|rule| |row] eqn:Hact;
    try (rewrite (pr_other p Hnm) in Hk; [discriminate|intros r; rewrite Hact; discriminate]).
  set (ln := Z.to_nat (m_rule_len m rule)) in *.
  destruct (le_lt_dec (length (xc_stack x)) ln) as [Hle|Hlt]; [rewrite (pr_crash p Hnm x rule Hact Hle) in Hk; discriminate|].
  set (below := match skipn ln (xc_stack x) with b0 :: _ => x_state b0 | [] => -1 end).
  destruct (Z.eq_dec (m_goto m below (m_rule_sym m rule)) (-1)) as [Est|Est];
    [rewrite (pr_nogoto p Hnm x rule Hact Est) in Hk; discriminate|].
  destruct (reduce_step p nstates T NS Hnm Hrg x rule Hinv Hact Hlt Est) as (x' & e' & Hpr & Hinv' & Hform' & Hin' & Hstk' & He').
  fold ln in Hstk'. fold ln in He'. fold below in He'. rewrite Hpr in Hk.
  assert (HlenE : length Eab = length ab) by (rewrite <- Hmap; symmetry; apply map_length).
  assert (Hdep' : (dep x' <= S (dep x))%nat) by (rewrite Hstk'; simpl; rewrite skipn_length; lia).
  destruct (length ab <? ln)%nat eqn:Elt.
  - apply Nat.ltb_lt in Elt.
    assert (Hc : (k + F * dep y <= N)%nat).
    { apply (Hcont x' k y Hinv' Hform'); [|exact Hk]. rewrite Hstk'. simpl. rewrite skipn_length, Hstk, app_length. simpl. lia. }
    lia.
  - apply Nat.ltb_ge in Elt.
    assert (Hsk : skipn ln (xc_stack x) = skipn ln Eab ++ e_b :: rest).
    { rewrite Hstk, skipn_app. replace (ln - length Eab)%nat with O by lia. reflexivity. }
    assert (Hbelow : below = hd b (skipn ln ab)).
    { unfold below. rewrite Hsk, <- Hmap, skipn_map. destruct (skipn ln Eab) as [|e1 E1]; simpl; [exact Heb|reflexivity]. }
    rewrite <- Hbelow in Hsim. apply Z.eqb_neq in Est. rewrite Est in Hsim. rewrite Hsym in Hsim.
    assert (Hc : (k + F * dep y <= f + Nat.max (F * (dep x' + f)) N)%nat).
    { apply (IH (m_goto m below (m_rule_sym m rule) :: skipn ln ab) x' (e' :: skipn ln Eab) e_b rest Hsim Hinv'); auto.
      + rewrite Hstk', Hsk. reflexivity.
      + simpl. rewrite He', <- Hmap, skipn_map. reflexivity.
      + discriminate.
      + unfold RedTerm_proofs.nsym. rewrite Hin'. exact Hsym. }
    assert (F * (dep x' + f) <= F * (dep x + S f))%nat by (apply Nat.mul_le_mono_l; lia). lia.
Qed.

Theorem formed_bound2 : forall h x, xinv x -> formed x -> (dep x <= h)%nat ->
  forall k y, reduce_n p k x = Some y -> (k + F * dep y <= F * h + F * F + F)%nat.
Proof.
  induction h as [|h IH]; intros x Hinv Hform Hlen k y Hk.
  - destruct Hform as (e_t & e_b & rest & A & Hstk & _). rewrite Hstk in Hlen. simpl in Hlen. lia.
  - destruct Hform as (e_t & e_b & rest & A & Hstk & Ht & HA).
    pose proof Hinv as (_ & Hall & _ & Ha). rewrite Hstk in Hall.
    inversion Hall as [|? ? Het Hall1]; subst. inversion Hall1 as [|? ? Heb _]; subst.
    rewrite Ht in Het. pose proof (L_rt p nstates T NS F Hrt (nsym x) (x_state e_b) A Ha Heb HA Het) as Hsim.
    pose proof (sim_lift2 (nsym x) (x_state e_b) (F * h + F * F + F) F [m_goto m (x_state e_b) A] x [e_t] e_b rest Hsim Hinv
                  Hstk ltac:(simpl; rewrite Ht; reflexivity) ltac:(discriminate) eq_refl eq_refl) as H.
    assert (Hc : (k + F * dep y <= F + Nat.max (F * (dep x + F)) (F * h + F * F + F))%nat).
    { apply H; [|exact Hk]. intros x' j y' Hinv' Hform' Hlen' Hj. apply (IH x'); auto. rewrite Hstk in Hlen. simpl in Hlen. lia. }
    assert (F * (dep x + F) <= F * (S h + F))%nat by (apply Nat.mul_le_mono_l; lia). lia.
Qed.

(* every configuration of the invariant *)
Theorem redterm_amortized x : xinv x -> forall k y, reduce_n p k x = Some y ->
  (k + F * dep y <= F * dep x + F * F + 2 * F + 1)%nat.
Proof.
  intros Hinv k y Hk. destruct k as [|k]; [simpl in Hk; injection Hk as <-; lia|].
  cbn [reduce_n] in Hk. destruct (plain_reduce p x) as [x'|] eqn:Hpr; [|discriminate].
  destruct (plain_reduce_inv p nstates T NS Hnm Hrg x x' Hinv Hpr) as (Hinv' & Hform' & _ & Hlen).
  pose proof (formed_bound2 (S (dep x)) x' Hinv' Hform' Hlen k y Hk). lia.
Qed.

End R.

(* ---- stack growth of one iteration of the recovering loop ---- *)
Section D.
Variable p : rparams.
Variable eh : nat -> bool.
Notation m := (rp_m p).
Notation dep x := (length (xc_stack x)).

Lemma positions_len stack : forall st, In st (recover_positions p stack) -> (length st <= length stack)%nat.
Proof.
  induction stack as [|e rest IH]; intros st Hin; [destruct Hin|].
  cbn [recover_positions] in Hin. apply in_app_or in Hin. destruct Hin as [Hin|Hin].
  - destruct (_ =? -1); [destruct Hin|]. destruct Hin as [<-|[]]. lia.
  - specialize (IH _ Hin). simpl. lia.
Qed.

Lemma find_match_in2 positions symbol fuel st : find_match p positions symbol fuel = Some (Some st) -> In st positions.
Proof.
  induction positions as [|s more IH]; simpl; [discriminate|].
  destruct (reduce_all _ _ _ _ _ _) as [[q [|]]|]; try discriminate.
  - intros E. injection E as <-. left. reflexivity.
  - intros E. right. apply IH. exact E.
Qed.

Lemma recover_loop_len fuel : forall stack positions syms input s e stk inp',
  recover_loop fuel p stack positions syms input s e = RecOk stk inp' ->
  exists st, In st positions /\ length stk = S (length st).
Proof.
  induction fuel as [|f IH]; intros stack positions syms input s e stk inp'; simpl; [discriminate|].
  destruct (skip_broken syms input 0) as [e1 input1].
  destruct (find_match p positions _ _) as [[st1|]|] eqn:Efm; try discriminate.
  - apply find_match_in2 in Efm.
    destruct (length stack - length st1)%nat.
    + intros E. injection E as <- _. exists st1. split; [exact Efm|reflexivity].
    + destruct (s =? _); intros E; injection E as <- _; (exists st1; split; [exact Efm|reflexivity]).
  - destruct (_ =? 0); [discriminate|]. intros E. eapply IH. exact E.
Qed.

Lemma handle_error_depth c0 stack events c1 : handle_error p eh c0 stack events = RContinue c1 ->
  (dep (rc_x c1) <= S (length stack))%nat.
Proof.
  unfold handle_error. destruct (_ && negb _); [discriminate|].
  destruct (recover_from_error p stack (xc_input (rc_x c0))) as [stack' input'| | |] eqn:Erec; try discriminate.
  intros E. injection E as <-. cbn [rc_x xc_stack].
  unfold recover_from_error in Erec.
  destruct (recover_positions p stack) as [|pos0 positions] eqn:Epos; [discriminate|].
  destruct (recover_loop_len _ _ _ _ _ _ _ _ _ Erec) as (st & Hin & ->).
  rewrite <- Epos in Hin. apply positions_len in Hin. lia.
Qed.

Lemma rstep_depth c c' : rstep p eh c = RContinue c' -> (dep (rc_x c') <= dep (rc_x c) + 2)%nat.
Proof.
  unfold rstep.
  destruct (m_act m _ _ _) as [q|rule| |row].
  - intros E. injection E as <-. simpl. lia.
  - destruct (_ <=? _)%nat; [discriminate|].
    destruct (lhs_range _ _) as [off endoff]. destruct (apply_rule _ _ _ _ _) as [evs endoff'].
    destruct (_ =? -1).
    + intros E. apply handle_error_depth in E. simpl in E. rewrite skipn_length in E. lia.
    + intros E. injection E as <-. simpl. rewrite skipn_length. lia.
  - intros E. apply handle_error_depth in E. lia.
  - intros E. apply handle_error_depth in E. lia.
Qed.
Lemma rstep_of_plain_reduce x x' r errs l : plain_reduce p x = Some x' ->
  rstep p eh (mkRC x r errs l) = RContinue (mkRC x' r errs l).
Proof.
  unfold plain_reduce, xstep, rstep. cbn [rc_x rc_recovering rc_errors rc_last].
  destruct (m_act m (xc_state x) _ _) as [q|rule| |row]; try discriminate.
  destruct (_ <=? _)%nat; [discriminate|].
  destruct (lhs_range _ _) as [off endoff]. destruct (apply_rule _ _ _ _ _) as [evs endoff'].
  destruct (_ =? -1); [discriminate|]. intros E. injection E as <-. reflexivity.
Qed.

Lemma rsteps_reduce_n k c c' : rsteps p eh k c c' -> reduces_for p k (rc_x c) = true -> reduce_n p k (rc_x c) = Some (rc_x c').
Proof.
  induction 1 as [c | k c c1 c' Hne Hst _ IH]; intros Hr; [reflexivity|].
  cbn [reduces_for] in Hr. cbn [reduce_n].
  destruct (plain_reduce p (rc_x c)) as [x'|] eqn:Hpr; [|discriminate].
  destruct c as [x r errs l]. cbn [rc_x] in *.
  rewrite (rstep_of_plain_reduce x x' r errs l Hpr) in Hst. injection Hst as <-. apply IH. exact Hr.
Qed.
End D.

(* ---- the whole recovering parse: a fuel bound linear in the input, relative to an invariant ---- *)
Section W.
Variable p : rparams.
Variable eh : nat -> bool.
Variables nstates T NS : Z.
Variable F : nat.
Notation m := (rp_m p).
Notation eoi := (rp_eoi_off p).
Hypothesis Hnm : lalr1 p.
Hypothesis Hso : shift_ok_sound p.
Hypothesis Hend : 0 <= rp_end p.
Hypothesis Hrt : check_redterm m nstates T NS F = true.
Hypothesis Hrg : check_range m nstates T NS = true.
Variable Inv : rconfig -> Prop.
Hypothesis Hstep : forall c c', Inv c -> rstep p eh c = RContinue c' -> Inv c'.
Hypothesis HinvX : forall c, Inv c -> xinv p nstates T (rc_x c).
Hypothesis Heoi : forall c q, Inv c -> m_act m (xc_state (rc_x c)) 0 [] = Shift q -> q = rp_end p.
Notation dep x := (length (xc_stack x)).

Definition CC : nat := (2 * F * F + 8 * F + 4)%nat.
Definition XX : nat := (F * F + 4 * F + 2)%nat.

Lemma pot_init c : Inv c -> forall j y, reduce_n p j (rc_x c) = Some y ->
  (j + F * dep y <= F * dep (rc_x c) + F * F + 2 * F + 1)%nat.
Proof. intros H. apply (redterm_amortized p nstates T NS F Hnm Hrt Hrg). apply HinvX. exact H. Qed.

Theorem rrun_fuel_pot : forall n c, Inv c -> (length (xc_input (rc_x c)) <= n)%nat ->
  forall P, (forall j y, reduce_n p j (rc_x c) = Some y -> (j + F * dep y <= P)%nat) ->
  exists f, (f <= P + S n * CC + 3)%nat /\ fst (rrun_loop f p eh c) <> RFuel.
Proof.
  induction n as [n IHn] using lt_wf_ind. intros c Hinv Hn.
  assert (Hshift : forall c2 q c3, xc_state (rc_x c2) <> rp_end p ->
     (length (xc_input (rc_x c2)) <= n)%nat ->
     m_act m (xc_state (rc_x c2)) (t_sym (next_tok eoi (xc_input (rc_x c2)))) [] = Shift q ->
     rstep p eh c2 = RContinue c3 -> xc_state (rc_x c3) = q ->
     xc_input (rc_x c3) = (if t_sym (next_tok eoi (xc_input (rc_x c2))) =? 0 then xc_input (rc_x c2) else tl (xc_input (rc_x c2))) ->
     Inv c2 ->
     exists f, (f <= F * dep (rc_x c2) + XX + n * CC + 3)%nat /\ fst (rrun_loop f p eh c2) <> RFuel).
  { intros c2 q c3 Hne2 Hlen2 Hq Hstep2 Hst3 Hin3 Hinv2. apply Z.eqb_neq in Hne2.
    pose proof (Hstep _ _ Hinv2 Hstep2) as Hinv3.
    destruct (t_sym (next_tok eoi (xc_input (rc_x c2))) =? 0) eqn:E0.
    - apply Z.eqb_eq in E0. rewrite E0 in Hq. apply (Heoi c2 q Hinv2) in Hq. exists 2%nat.
      split; [lia|].
      change (rrun_loop 2 p eh c2) with (if xc_state (rc_x c2) =? rp_end p then (RAccept, c2)
        else match rstep p eh c2 with RContinue c' => rrun_loop 1 p eh c' | RStop o c' => (o, c') end).
      rewrite Hne2, Hstep2. apply accept_now. congruence.
    - apply Z.eqb_neq in E0. pose proof (next_sym_nonzero_tl p _ E0) as Hlt.
      destruct n as [|n']; [lia|].
      pose proof (rstep_depth p eh _ _ Hstep2) as Hd3.
      destruct (IHn n' ltac:(lia) c3 Hinv3 ltac:(rewrite Hin3; lia) _ (pot_init c3 Hinv3)) as (f & Hfb & Hf).
      exists (S f). split.
      + assert (F * dep (rc_x c3) <= F * (dep (rc_x c2) + 2))%nat by (apply Nat.mul_le_mono_l; lia). unfold XX. lia.
      + simpl. rewrite Hne2, Hstep2. exact Hf. }
  intros P. revert c Hinv Hn. induction P as [P IHP] using lt_wf_ind. intros c Hinv Hn Hpot.
  assert (HP0 : (F * dep (rc_x c) <= P)%nat) by (specialize (Hpot O (rc_x c) eq_refl); lia).
  assert (HXC : (XX <= CC)%nat) by (unfold XX, CC; lia).
  destruct (Z.eq_dec (xc_state (rc_x c)) (rp_end p)) as [Eend|Eend];
    [exists 1%nat; split; [lia|apply accept_now; exact Eend]|].
  pose proof Eend as Eend'. apply Z.eqb_neq in Eend'.
  destruct c as [x r errs l]. cbn [rc_x] in *.
  destruct (rstep_cases p eh Hnm x r errs l) as [(o & c' & Hs)|[(x' & Hpr & Hin & Hs)|[(q & c1 & Hq & Hs & Hst & Hin)|(c0 & stack & events & Hs & Hin)]]];
    cbv zeta in *.
  - exists 1%nat. split; [lia|]. simpl. rewrite Eend', Hs. simpl. exact (rstep_stop _ _ _ _ _ Hs).
  - assert (Hpot' : forall j y, reduce_n p j x' = Some y -> (j + F * dep y <= P - 1)%nat /\ (1 <= P)%nat).
    { intros j y Hj. specialize (Hpot (S j) y). cbn [reduce_n] in Hpot. rewrite Hpr in Hpot. specialize (Hpot Hj). lia. }
    assert (HP1 : (1 <= P)%nat) by (destruct (Hpot' O x' eq_refl); assumption).
    destruct (IHP (P - 1)%nat ltac:(lia) (mkRC x' r errs l) (Hstep _ _ Hinv Hs) ltac:(cbn [rc_x]; rewrite Hin; exact Hn)
                ltac:(intros j y Hj; cbn [rc_x] in Hj; destruct (Hpot' j y Hj); assumption)) as (f & Hfb & Hf).
    exists (S f). split; [lia|]. simpl. rewrite Eend', Hs. exact Hf.
  - destruct (Hshift (mkRC x r errs l) q c1) as (f & Hfb & Hf); auto. exists f. split; [cbn [rc_x] in Hfb; lia|exact Hf].
  - destruct (handle_error p eh c0 stack events) as [c1|o c'] eqn:Ehe.
    + pose proof (Hstep _ _ Hinv Hs) as Hinv1.
      pose proof (rstep_depth p eh _ _ Hs) as Hd1. cbn [rc_x] in Hd1.
      destruct (recovery_progress p eh Hnm Hso Hend _ _ _ _ Ehe) as (Hsuf & k2 & c2 & _ & Hsteps & Hin2 & _ & Hrf & Hfin).
      pose proof (rsteps_inv p eh Inv Hstep _ _ _ Hsteps Hinv1) as Hinv2.
      apply is_suffix_length in Hsuf. rewrite Hin in Hsuf.
      (* the k2 iterations are plain reductions from c1 to c2 *)
      assert (Hk2 : (k2 + F * dep (rc_x c2) <= F * dep (rc_x c1) + F * F + 2 * F + 1)%nat).
      { apply (pot_init c1 Hinv1 k2 (rc_x c2)). apply (rsteps_reduce_n p eh _ _ _ Hsteps Hrf). }
      assert (Hgo : exists f2, (f2 <= F * dep (rc_x c2) + XX + n * CC + 3)%nat /\ fst (rrun_loop f2 p eh c2) <> RFuel).
      { destruct Hfin as [Hfin|(q & c3 & Hq & Hs3 & Hst3 & _ & Hin3)];
          [exists 1%nat; split; [lia|apply accept_now; exact Hfin]|].
        destruct (Z.eq_dec (xc_state (rc_x c2)) (rp_end p)) as [E2|E2];
          [exists 1%nat; split; [lia|apply accept_now; exact E2]|].
        apply (Hshift c2 q c3); auto; try (rewrite Hin2; auto); try lia. }
      destruct Hgo as (f2 & Hfb2 & Hf2). exists (S (k2 + f2)). split.
      * assert (F * dep (rc_x c1) <= F * (dep x + 2))%nat by (apply Nat.mul_le_mono_l; lia). unfold XX, CC in *. lia.
      * simpl. rewrite Eend', Hs. rewrite (rsteps_loop _ _ _ _ _ Hsteps). exact Hf2.
    + exists 1%nat. split; [lia|]. simpl. rewrite Eend', Hs. simpl. exact (handle_error_stop _ _ _ _ _ _ _ Ehe).
Qed.
End W.
