(* Well-formedness of a DefaultEnc as lalr.Compile produces it — the precondition of the once-and-for-all
   C05 theorems (Gram/OptimizeSem_proofs.v).  Boolean, so that it can be evaluated on concrete tables.
   Definitions only; not extracted. *)
From Coq Require Import List ZArith Bool.
From TM Require Import Gram.PTables Gram.Optimize.
Import ListNotations.
Local Open Scope Z_scope.

Fixpoint nodupz (l : list Z) : bool :=
  match l with [] => true | x :: r => negb (memz x r) && nodupz r end.

(* a state with a Lalr row: the row is terminated by (-1, -2) inside the array, its terminals are distinct
   and in range, its actions are error (-2), shift (-1, and then the state has that transition — Optimize
   aborts otherwise) or a rule index (no LALR(k) sub-rows: Optimize is not used for them) *)
Definition wf_row (t : default_enc) (terms rules s : Z) : bool :=
  let a0 := zn (d_action t) s in
  if a0 <? -2 then
    let row := lalr_row (S (length (d_lalr t))) (d_lalr t) (- a0 - 3) in
    (zn (d_lalr t) (- a0 - 3 + 2 * Z.of_nat (length row) + 1) =? -2)
    && nodupz (map fst row)
    && forallb (fun e => (fst e <? terms) && (-2 <=? snd e) && (snd e <? rules)
                         && (if snd e =? -1
                             then (0 <=? goto_state t s (fst e)) && (goto_state t s (fst e) <? zlength (d_action t))
                             else true)) row
  else true.

(* the FromTo segment of a nonterminal: inside the array, on pair boundaries, source states in range and
   strictly increasing (what the binary search of gotoState relies on) *)
Definition wf_seg (t : default_enc) (x : Z) : bool :=
  let ft := d_from_to t in
  let states := zlength (d_action t) in
  let mn := zn (d_goto t) x in
  let mx := zn (d_goto t) (x + 1) in
  (0 <=? mn) && (mn <=? mx) && (mx <=? zlength ft) && Z.even mn && Z.even mx
  && forallb (fun k => let i := mn + 2 * k in
        (0 <=? zn ft i) && (zn ft i <? states)
        && (if i + 2 <? mx then zn ft i <? zn ft (i + 2) else true)) (zseq ((mx - mn) / 2)).

(* A nonterminal whose uncompressed line is constant gets no packed line and Goto[nt] = -syms, which
   optimize.go claims "is guaranteed to fall back to the default".  That is only true when the constant is
   "no transition" (or states <= syms).  So: some state has no transition on the symbol (true for every
   productive grammar: the accepting state has none), or two states have different targets. *)
Definition seg_has_gap (t : default_enc) (x : Z) : bool :=
  existsb (fun s => goto_state t s x <? 0) (zseq (zlength (d_action t))).

Definition seg_not_constant (t : default_enc) (x : Z) : bool :=
  existsb (fun s => negb (goto_state t s x =? goto_state t 0 x)) (zseq (zlength (d_action t))).

Definition seg_fallback_ok (t : default_enc) (x : Z) : bool := seg_has_gap t x || seg_not_constant t x.

(* everything but the fallback condition (used to show that it cannot be dropped) *)
Definition wf_enc_nogap (t : default_enc) (terms rules : Z) : bool :=
  (0 <=? terms)
  && forallb (wf_row t terms rules) (zseq (zlength (d_action t)))
  && forallb (wf_seg t) (map (fun i => terms + i) (zseq (zlength (d_goto t) - 1 - terms))).

Definition wf_enc (t : default_enc) (terms rules : Z) : bool :=
  wf_enc_nogap t terms rules
  && forallb (seg_fallback_ok t) (map (fun i => terms + i) (zseq (zlength (d_goto t) - 1 - terms))).
