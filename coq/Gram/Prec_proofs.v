From Coq Require Import List ZArith Bool Lia.
From TM Require Import Gram.Cfg Gram.Prec.
Import ListNotations.
Local Open Scope Z_scope.

(* ---------- resolvePrec is the documented comparison ---------- *)
Theorem resolve_prec_undeclared g r t :
  rule_prec g r = 0 \/ t = 0 \/ prec_group g (rule_prec g r) = None \/ prec_group g t = None ->
  resolve_prec g r t = res_conflict.
Proof.
  unfold resolve_prec. intros [H|[H|[H|H]]].
  - rewrite H. reflexivity.
  - subst t. rewrite Z.eqb_refl, orb_true_r. reflexivity.
  - destruct ((rule_prec g r =? 0) || (t =? 0)); [reflexivity|]. rewrite H. reflexivity.
  - destruct ((rule_prec g r =? 0) || (t =? 0)); [reflexivity|]. rewrite H.
    destruct (prec_group g (rule_prec g r)) as [[? ?]|]; reflexivity.
Qed.

Theorem resolve_prec_declared g r t gr ar gs assoc :
  rule_prec g r <> 0 -> t <> 0 ->
  prec_group g (rule_prec g r) = Some (gr, ar) -> prec_group g t = Some (gs, assoc) ->
  resolve_prec g r t =
    if gr >? gs then do_reduce                 (* the rule binds tighter: reduce *)
    else if gr <? gs then do_shift             (* the lookahead binds tighter: shift *)
    else if assoc =? 0 then do_reduce          (* same level, %left *)
    else if assoc =? 1 then do_shift           (* %right *)
    else if assoc =? 2 then do_error           (* %nonassoc: the token is a syntax error *)
    else res_conflict.
Proof.
  intros Hr Ht Hgr Hgs. unfold resolve_prec.
  replace ((rule_prec g r =? 0) || (t =? 0)) with false by (symmetry; apply orb_false_iff; split; lia).
  rewrite Hgr, Hgs. reflexivity.
Qed.

(* the precedence terminal of a rule: %prec if given, else its last terminal *)
Theorem rule_prec_explicit g r : r_prec (rule_at g r) <> 0 -> rule_prec g r = r_prec (rule_at g r).
Proof. intro H. unfold rule_prec. destruct (r_prec (rule_at g r) =? 0) eqn:E; [lia|reflexivity]. Qed.

Theorem rule_prec_last_terminal g r pre t post :
  r_prec (rule_at g r) = 0 -> r_rhs (rule_at g r) = pre ++ t :: post ->
  0 < t < g_terms g -> (forall s, In s post -> ~ (0 < s < g_terms g)) ->
  rule_prec g r = t.
Proof.
  intros Hp Hrhs Ht Hpost. unfold rule_prec. rewrite Hp, Hrhs. cbn [Z.eqb negb].
  rewrite rev_app_distr. cbn [rev]. rewrite <- app_assoc. cbn [app].
  assert (Hf : forall l, (forall s, In s l -> ~ (0 < s < g_terms g)) ->
               forall tl, find (fun s => (0 <? s) && (s <? g_terms g)) (l ++ tl) = find (fun s => (0 <? s) && (s <? g_terms g)) tl).
  { induction l as [|x l IH]; intros H tl; [reflexivity|]. cbn [app find].
    destruct ((0 <? x) && (x <? g_terms g)) eqn:E.
    - exfalso. apply (H x (or_introl eq_refl)). lia.
    - apply IH. intros s Hs. apply H. now right. }
  rewrite Hf by (intros s Hs; apply Hpost; now apply in_rev).
  cbn [find]. replace ((0 <? t) && (t <? g_terms g)) with true by (symmetry; apply andb_true_iff; lia). reflexivity.
Qed.

(* ---------- one shift against one reduction ---------- *)
Theorem cell_shift_reduce g t r :
  merge_cell g true t [r] =
    let res := resolve_prec g r t in
    ((if res =? do_reduce then r else if res =? do_error then -3 else -1),
     Some (mkAmb true [r] res)).
Proof. reflexivity. Qed.

(* a choice precedence cannot decide is an unresolved shift/reduce conflict and the cell keeps the shift *)
Corollary undecided_defaults_to_shift g t r : resolve_prec g r t = res_conflict ->
  merge_cell g true t [r] = (-1, Some (mkAmb true [r] res_conflict)).
Proof. intro H. rewrite cell_shift_reduce. cbn zeta. rewrite H. reflexivity. Qed.

(* %nonassoc: the cell becomes a syntax error in the final tables *)
Corollary nonassoc_is_error g t r : resolve_prec g r t = do_error ->
  final_action (fst (merge_cell g true t [r])) = -2.
Proof. intro H. rewrite cell_shift_reduce. cbn zeta. rewrite H. reflexivity. Qed.

(* two reductions without a shift: an unresolved reduce/reduce conflict, the earlier rule stays *)
Theorem cell_reduce_reduce g t r1 r2 : 0 <= r1 ->
  merge_cell g false t [r1; r2] = (r1, Some (mkAmb false [r2; r1] res_conflict)).
Proof.
  intro H. unfold merge_cell. cbn [fold_left]. change (-2 =? -2) with true. cbn iota.
  destruct (r1 =? -2) eqn:E1; [lia|]. unfold rule_action. cbn [has_conflict orb].
  destruct (r1 =? -3) eqn:E3; [lia|]. destruct (r1 =? -1) eqn:E2; [lia|].
  reflexivity.
Qed.

(* ---------- the general fold: once a cell is an unresolved conflict, its action is frozen ---------- *)
Lemma conflict_is_sticky g action term rule amb : has_conflict amb = true ->
  fst (rule_action g action term rule amb) = action /\ has_conflict (snd (rule_action g action term rule amb)) = true.
Proof.
  intro H. unfold rule_action. rewrite H. cbn [orb fst snd]. split; [reflexivity|].
  destruct amb as [a|]; [|discriminate]. cbn in H. cbn. 
  destruct (negb (am_res a =? res_none) && negb (am_res a =? res_conflict)); reflexivity.
Qed.

Theorem conflict_freezes_cell g term rules : forall action amb, has_conflict amb = true -> action <> -2 ->
  fst (fold_left (fun '(action, amb) rule =>
         if action =? -2 then (rule, amb) else rule_action g action term rule amb) rules (action, amb)) = action.
Proof.
  induction rules as [|r rules IH]; intros action amb Hc Ha; cbn [fold_left]; [reflexivity|].
  destruct (action =? -2) eqn:E; [lia|].
  destruct (conflict_is_sticky g action term r amb Hc) as [H1 H2].
  destruct (rule_action g action term r amb) as [a' amb'] eqn:Er. cbn [fst snd] in *. subst a'.
  now apply IH.
Qed.
