(* C05, generator side, part 2: the plumbing of [optimize] — default + pairs per line, pack, handing the
   indices back — decodes every cell to the value of the uncompressed line ([state_next] / [goto_line]). *)
From Coq Require Import List ZArith Bool Lia Arith.
From TM Require Import Lib.ListX Gram.PTables Gram.Optimize Gram.OptimizeSpec Gram.OptimizeSpec_proofs
  Gram.OptimizePack_proofs.
Import ListNotations.
Local Open Scope Z_scope.

(* ---------- zn ---------- *)
Lemma zn_nth l i d : 0 <= i < zlength l -> zn l i = nth (Z.to_nat i) l d.
Proof.
  unfold zn, zlength. intro H. destruct (i <? 0) eqn:E; [lia|]. apply nth_indep. lia.
Qed.

Lemma zn_nth_error l i v : 0 <= i -> nth_error l (Z.to_nat i) = Some v -> zn l i = v.
Proof.
  intros H Hn. unfold zn. destruct (i <? 0) eqn:E; [lia|]. now apply nth_error_nth.
Qed.

Lemma nth_error_zseq n i : 0 <= i < n -> nth_error (zseq n) (Z.to_nat i) = Some i.
Proof.
  intro H. erewrite nth_error_nth' with (d := 0) by (rewrite zseq_length; lia).
  now rewrite zseq_nth'.
Qed.

Lemma nth_error_map_zseq {A} (f : Z -> A) n i : 0 <= i < n -> nth_error (map f (zseq n)) (Z.to_nat i) = Some (f i).
Proof. intro H. now rewrite nth_error_map, nth_error_zseq. Qed.

(* ---------- pairs_of ---------- *)
Lemma in_combine_zseq_gen (l : list Z) : forall s p v,
  In (p, v) (combine (map Z.of_nat (seq s (length l))) l) <->
  exists i, (s <= i)%nat /\ p = Z.of_nat i /\ nth_error l (i - s) = Some v.
Proof.
  induction l as [|y l IH]; intros s p v; cbn [length seq map combine].
  - cbn. split; [tauto|]. intros [i [_ [_ H]]]. destruct (i - s)%nat; discriminate.
  - cbn [In]. rewrite IH. split.
    + intros [[= <- <-]|[i [H1 [H2 H3]]]].
      * exists s. split; [lia|]. split; [reflexivity|]. now replace (s - s)%nat with 0%nat by lia.
      * exists i. split; [lia|]. split; [exact H2|]. replace (i - s)%nat with (S (i - S s)) by lia. exact H3.
    + intros [i [H1 [H2 H3]]]. destruct (i - s)%nat as [|k] eqn:E.
      * left. cbn in H3. injection H3 as ->. f_equal. lia.
      * right. exists i. split; [lia|]. split; [exact H2|]. replace (i - S s)%nat with k by lia. exact H3.
Qed.

Lemma in_combine_zseq (l : list Z) p v :
  In (p, v) (combine (zseq (zlength l)) l) <-> 0 <= p < zlength l /\ v = zn l p.
Proof.
  unfold zseq, zlength at 1. rewrite Nat2Z.id, in_combine_zseq_gen. split.
  - intros [i [_ [-> H]]]. rewrite Nat.sub_0_r in H.
    assert (i < length l)%nat by (apply nth_error_Some; congruence).
    split; [unfold zlength; lia|]. symmetry. apply zn_nth_error; [lia|]. now rewrite Nat2Z.id.
  - intros [H ->]. exists (Z.to_nat p). split; [lia|]. split; [lia|]. rewrite Nat.sub_0_r.
    rewrite (zn_nth _ _ 0 H). apply nth_error_nth'. unfold zlength in H. lia.
Qed.

Lemma pairs_of_In vals def p v :
  In (p, v) (pairs_of vals def) <-> 0 <= p < zlength vals /\ v = zn vals p /\ v <> def.
Proof.
  unfold pairs_of. rewrite filter_In, in_combine_zseq. cbn [snd].
  rewrite negb_true_iff, Z.eqb_neq. tauto.
Qed.

Lemma inc_from_combine (l : list Z) : forall k s lo, lo <= Z.of_nat s ->
  inc_from lo (combine (map Z.of_nat (seq s k)) l).
Proof.
  induction l as [|y l IH]; intros k s lo H; destruct k; cbn [seq map combine inc_from]; try exact I.
  cbn [fst]. split; [exact H|]. apply IH. lia.
Qed.

Lemma inc_from_filter f : forall ps lo, inc_from lo ps -> inc_from lo (filter f ps).
Proof.
  induction ps as [|p ps IH]; intros lo H; [exact I|]. destruct H as [H1 H2]. cbn [filter].
  destruct (f p).
  - split; [exact H1|exact (IH _ H2)].
  - apply (inc_from_weaken (fst p + 1)); [lia|exact (IH _ H2)].
Qed.

Lemma pairs_of_inc vals def : inc_from 0 (pairs_of vals def).
Proof. unfold pairs_of, zseq. apply inc_from_filter, inc_from_combine. lia. Qed.

(* ---------- optimize, with its local definitions named ---------- *)
Notation entry := (Z * option (list pair))%type (only parsing).

Definition lines_of (xs : list entry) : list (list pair) :=
  flat_map (fun x => match snd x with Some ps => [ps] | None => [] end) xs.

Fixpoint assign (xs : list entry) (idx : list Z) (dflt : Z) : list Z :=
  match xs with
  | [] => []
  | (_, None) :: rest => dflt :: assign rest idx dflt
  | (_, Some _) :: rest => match idx with i :: idx' => i :: assign rest idx' dflt | [] => dflt :: assign rest [] dflt end
  end.

Definition mk_entry (vals : list Z) : entry :=
  let def := pick_default vals in
  match pairs_of vals def with [] => (def, None) | ps => (def, Some ps) end.

Definition opt_acts (t : default_enc) (terms rules : Z) (dr : bool) : list entry :=
  map (fun state => match state_next t terms rules (zlength (d_action t)) dr state with
                    | inl d => (d, None)
                    | inr next => mk_entry next
                    end) (zseq (zlength (d_action t))).

Definition opt_gotos (t : default_enc) (terms : Z) : list entry :=
  map (fun nt => mk_entry (goto_line t terms (zlength (d_action t)) nt)) (zseq (zlength (d_goto t) - 1 - terms)).

Lemma optimize_eq t terms rules dr :
  optimize t terms rules dr =
  let acts := opt_acts t terms rules dr in
  let gotos := opt_gotos t terms in
  let '(indices, table, check) := pack (lines_of (acts ++ gotos)) in
  mkDispEnc (map fst gotos) (assign gotos (skipn (length (lines_of acts)) indices) (- (zlength (d_goto t) - 1)))
            (map fst acts) (assign acts indices (- terms)) (- terms) table check.
Proof. reflexivity. Qed.

Lemma lines_of_app xs ys : lines_of (xs ++ ys) = lines_of xs ++ lines_of ys.
Proof. unfold lines_of. apply flat_map_app. Qed.

Lemma lines_of_nth xs k def ps : nth_error xs k = Some (def, Some ps) ->
  nth_error (lines_of xs) (length (lines_of (firstn k xs))) = Some ps.
Proof.
  intro H. pose proof (nth_error_split xs k H) as [l1 [l2 [-> Hl]]].
  rewrite <- Hl, firstn_app, Nat.sub_diag, firstn_all. cbn [firstn]. rewrite app_nil_r.
  rewrite lines_of_app, nth_error_app2, Nat.sub_diag by lia. reflexivity.
Qed.

Lemma lines_of_firstn_le xs k : (length (lines_of (firstn k xs)) <= length (lines_of xs))%nat.
Proof.
  rewrite <- (firstn_skipn k xs) at 2. rewrite lines_of_app, app_length. lia.
Qed.

Lemma assign_nth dflt : forall xs idx k x d, nth_error xs k = Some x ->
  nth k (assign xs idx dflt) d =
  match snd x with None => dflt | Some _ => nth (length (lines_of (firstn k xs))) idx dflt end.
Proof.
  induction xs as [|[d0 o0] xs IH]; intros idx k x d H; [destruct k; discriminate|].
  destruct k as [|k].
  - injection H as <-. cbn [snd firstn lines_of flat_map length assign].
    destruct o0; [destruct idx; reflexivity|reflexivity].
  - cbn [nth_error] in H. cbn [assign firstn].
    destruct o0 as [ps|].
    + change (lines_of ((d0, Some ps) :: firstn k xs)) with (ps :: lines_of (firstn k xs)). cbn [length].
      destruct idx as [|i idx']; cbn [nth].
      * rewrite (IH [] k x d H). destruct (snd x); [|reflexivity]. now destruct (length (lines_of (firstn k xs))).
      * exact (IH idx' k x d H).
    + change (lines_of ((d0, None) :: firstn k xs)) with (lines_of (firstn k xs)). cbn [nth].
      exact (IH idx k x d H).
Qed.

Lemma assign_length dflt : forall xs idx, length (assign xs idx dflt) = length xs.
Proof.
  induction xs as [|[d0 [ps|]] xs IH]; intro idx; cbn [assign length]; [reflexivity| |now rewrite IH].
  destruct idx; cbn [length]; now rewrite IH.
Qed.

(* ---------- one entry ---------- *)
Lemma mk_entry_none vals def : mk_entry vals = (def, None) ->
  forall p, 0 <= p < zlength vals -> zn vals p = def.
Proof.
  unfold mk_entry. destruct (pairs_of vals (pick_default vals)) as [|q r] eqn:E; [|discriminate].
  intros [= <-] p Hp. destruct (Z.eq_dec (zn vals p) (pick_default vals)) as [e|n]; [exact e|].
  assert (In (p, zn vals p) (pairs_of vals (pick_default vals))) by (apply pairs_of_In; auto).
  rewrite E in H. contradiction.
Qed.

Lemma mk_entry_some vals def ps : mk_entry vals = (def, Some ps) ->
  wf_line ps /\ first_pos ps < zlength vals /\
  forall p v, In (p, v) ps <-> 0 <= p < zlength vals /\ v = zn vals p /\ v <> def.
Proof.
  unfold mk_entry. destruct (pairs_of vals (pick_default vals)) as [|q r] eqn:E; [discriminate|].
  intros [= <- <-]. rewrite <- E. split; [|split].
  - split; [rewrite E; discriminate|apply pairs_of_inc].
  - rewrite E. cbn. assert (In q (pairs_of vals (pick_default vals))) by (rewrite E; now left).
    destruct q as [p v]. apply pairs_of_In in H. cbn. lia.
  - intros p v. apply pairs_of_In.
Qed.

Lemma wf_lines_of xs : (forall x, In x xs -> exists vals, x = mk_entry vals \/ snd x = None) ->
  Forall wf_line (lines_of xs).
Proof.
  intro H. apply Forall_forall. intros ps Hps. unfold lines_of in Hps. apply in_flat_map in Hps.
  destruct Hps as [[def o] [Hx Ho]]. cbn [snd] in Ho. destruct o as [ps'|]; [|contradiction].
  destruct Ho as [<-|[]]. destruct (H _ Hx) as [vals [Hv|Hv]]; [|discriminate].
  symmetry in Hv. exact (proj1 (mk_entry_some _ _ _ Hv)).
Qed.

(* reading one packed line back: value of the line, or "not answered from the table" *)
Lemma line_read lines indices table check j vals def ps :
  Forall wf_line lines -> pack lines = (indices, table, check) ->
  nth_error lines j = Some ps -> mk_entry vals = (def, Some ps) ->
  - first_pos ps <= nth j indices 0 /\ first_pos ps < zlength vals /\
  forall p, 0 <= p < zlength vals ->
    let pos := nth j indices 0 + p in
    (if (pos >=? 0) && (pos <? zlength table) && (zn check pos =? p) then zn table pos else def) = zn vals p.
Proof.
  intros Hwf Hpack Hj Hmk.
  destruct (pack_correct _ _ _ _ Hwf Hpack) as [_ [_ Hdec]].
  destruct (Hdec _ _ Hj) as [Hb Hcells].
  destruct (mk_entry_some _ _ _ Hmk) as [_ [Hfp Hin]].
  split; [lia|]. split; [exact Hfp|]. intros p Hp pos.
  destruct (Hcells p (proj1 Hp)) as [D1 D2]. fold pos in D1, D2.
  destruct (Z.eq_dec (zn vals p) def) as [e|n].
  - assert (Hno : forall v, ~ In (p, v) ps) by (intros v Hv; apply Hin in Hv; lia).
    specialize (D2 Hno).
    destruct ((pos >=? 0) && (pos <? zlength table) && (zn check pos =? p)) eqn:E; [|now rewrite e].
    apply andb_true_iff in E. destruct E as [E E3]. apply andb_true_iff in E. destruct E as [E1 E2].
    apply Z.eqb_eq in E3. exfalso. apply D2; [lia|exact E3].
  - assert (Hv : In (p, zn vals p) ps) by (apply Hin; auto).
    destruct (D1 _ Hv) as [Hr [Hc Ht]]. rewrite Hc, Ht, Z.eqb_refl.
    replace (pos >=? 0) with true by lia. replace (pos <? zlength table) with true by lia. reflexivity.
Qed.

(* ---------- the decoders on optimize's output ---------- *)
Definition raw_act (o : disp_enc) (state term : Z) : Z :=
  let a0 := zn (o_action o) state in
  if a0 >? o_base o then
    let pos := a0 + term in
    if (pos >=? 0) && (pos <? zlength (o_table o)) && (zn (o_check o) pos =? term)
    then zn (o_table o) pos else zn (o_def_act o) state
  else zn (o_def_act o) state.

Definition decode_raw (a : Z) : act := if a >=? 0 then Reduce a else if a <? -1 then Shift (-2 - a) else Err.

Lemma action_opt_raw o s a : action_opt o s a = decode_raw (raw_act o s a).
Proof. reflexivity. Qed.

Definition state_val (t : default_enc) (terms rules : Z) (dr : bool) (s a : Z) : Z :=
  match state_next t terms rules (zlength (d_action t)) dr s with inl d => d | inr next => zn next a end.

Lemma all_lines_wf t terms rules dr : Forall wf_line (lines_of (opt_acts t terms rules dr ++ opt_gotos t terms)).
Proof.
  apply wf_lines_of. intros x Hx. apply in_app_or in Hx. destruct Hx as [Hx|Hx].
  - unfold opt_acts in Hx. apply in_map_iff in Hx. destruct Hx as [s [<- _]].
    destruct (state_next t terms rules (zlength (d_action t)) dr s) as [d|next].
    + exists []. now right.
    + exists next. now left.
  - unfold opt_gotos in Hx. apply in_map_iff in Hx. destruct Hx as [nt [<- _]].
    eexists. left. reflexivity.
Qed.

Theorem raw_act_optimize t terms rules dr s a :
  (forall next, state_next t terms rules (zlength (d_action t)) dr s = inr next -> zlength next = terms) ->
  0 <= s < zlength (d_action t) -> 0 <= a < terms ->
  raw_act (optimize t terms rules dr) s a = state_val t terms rules dr s a.
Proof.
  intros Hlen Hs Ha. rewrite optimize_eq. cbv zeta.
  destruct (pack (lines_of (opt_acts t terms rules dr ++ opt_gotos t terms))) as [[indices table] check] eqn:Epack.
  unfold raw_act. cbn [o_action o_base o_table o_check o_def_act].
  set (acts := opt_acts t terms rules dr) in *.
  set (x := match state_next t terms rules (zlength (d_action t)) dr s with
            | inl d => (d, None) | inr next => mk_entry next end).
  assert (Hx : nth_error acts (Z.to_nat s) = Some x) by (unfold acts, opt_acts; now rewrite nth_error_map_zseq).
  assert (Hal : length acts = Z.to_nat (zlength (d_action t))) by (unfold acts, opt_acts; now rewrite map_length, zseq_length).
  assert (Hdef : zn (map fst acts) s = fst x).
  { apply zn_nth_error; [lia|]. rewrite nth_error_map. exact (f_equal (option_map fst) Hx). }
  assert (Hact : zn (assign acts indices (- terms)) s =
                 match snd x with None => - terms
                 | Some _ => nth (length (lines_of (firstn (Z.to_nat s) acts))) indices (- terms) end).
  { rewrite (zn_nth _ _ 0) by (unfold zlength; rewrite assign_length; lia). now apply assign_nth. }
  rewrite Hdef, Hact. unfold state_val.
  destruct x as [def [ps|]] eqn:Ex; cbn [fst snd].
  - (* a packed line *)
    destruct (state_next t terms rules (zlength (d_action t)) dr s) as [d|next] eqn:Esn; [subst x; discriminate|].
    specialize (Hlen next eq_refl).
    set (j := length (lines_of (firstn (Z.to_nat s) acts))).
    assert (Hj : nth_error (lines_of (acts ++ opt_gotos t terms)) j = Some ps).
    { rewrite lines_of_app, nth_error_app1.
      - apply (lines_of_nth acts _ def). rewrite Hx. reflexivity.
      - apply nth_error_Some. unfold j. rewrite (lines_of_nth acts _ def ps); [discriminate|]. rewrite Hx. reflexivity. }
    destruct (pack_correct _ _ _ _ (all_lines_wf t terms rules dr) Epack) as [Hil _].
    assert (Hjl : (j < length indices)%nat). { rewrite Hil. apply nth_error_Some. fold acts. rewrite Hj. discriminate. }
    rewrite (nth_indep _ _ 0 Hjl).
    destruct (line_read _ _ _ _ j next def ps (all_lines_wf t terms rules dr) Epack Hj Ex) as [Hb [Hfp Hrd]].
    replace (nth j indices 0 >? - terms) with true by lia.
    apply Hrd. lia.
  - (* no line: always the default *)
    replace (- terms >? - terms) with false by lia.
    destruct (state_next t terms rules (zlength (d_action t)) dr s) as [d|next] eqn:Esn.
    + now injection Ex as <-.
    + specialize (Hlen next eq_refl). symmetry. apply (mk_entry_none next def Ex). lia.
Qed.

Theorem goto_opt_optimize t terms rules dr s nt :
  0 <= terms -> 0 <= s < zlength (d_action t) -> 0 <= nt < zlength (d_goto t) - 1 - terms ->
  zlength (goto_line t terms (zlength (d_action t)) nt) = zlength (d_action t) ->
  let arr := goto_line t terms (zlength (d_action t)) nt in
  goto_opt (optimize t terms rules dr) terms s (terms + nt) = zn arr s \/
  (forall s', 0 <= s' < zlength (d_action t) -> zn arr s' = zn arr s).
Proof.
  intros Hterms Hs Hnt Hlen arr. rewrite optimize_eq. cbv zeta.
  destruct (pack (lines_of (opt_acts t terms rules dr ++ opt_gotos t terms))) as [[indices table] check] eqn:Epack.
  unfold goto_opt. cbn [o_goto o_def_goto o_table o_check]. replace (terms + nt - terms) with nt by lia.
  set (acts := opt_acts t terms rules dr) in *. set (gotos := opt_gotos t terms) in *.
  assert (Hx : nth_error gotos (Z.to_nat nt) = Some (mk_entry arr)) by (unfold gotos, opt_gotos; now rewrite nth_error_map_zseq).
  assert (Hgl : length gotos = Z.to_nat (zlength (d_goto t) - 1 - terms)) by (unfold gotos, opt_gotos; now rewrite map_length, zseq_length).
  assert (Hdef : zn (map fst gotos) nt = fst (mk_entry arr)).
  { apply zn_nth_error; [lia|]. rewrite nth_error_map. exact (f_equal (option_map fst) Hx). }
  rewrite Hdef.
  destruct (mk_entry arr) as [def [ps|]] eqn:Ex; cbn [fst].
  - left.
    rewrite (zn_nth _ _ 0) by (unfold zlength; rewrite assign_length; lia).
    rewrite (assign_nth _ _ _ _ _ _ Hx). cbn [snd].
    rewrite nth_skipn'.
    set (j := (length (lines_of acts) + length (lines_of (firstn (Z.to_nat nt) gotos)))%nat).
    assert (Hj : nth_error (lines_of (acts ++ gotos)) j = Some ps).
    { rewrite lines_of_app, nth_error_app2 by lia. unfold j.
      replace (length (lines_of acts) + length (lines_of (firstn (Z.to_nat nt) gotos)) - length (lines_of acts))%nat
        with (length (lines_of (firstn (Z.to_nat nt) gotos))) by lia.
      now apply (lines_of_nth gotos _ def). }
    destruct (pack_correct _ _ _ _ (all_lines_wf t terms rules dr) Epack) as [Hil _].
    assert (Hjl : (j < length indices)%nat). { rewrite Hil. apply nth_error_Some. fold acts gotos. rewrite Hj. discriminate. }
    rewrite (nth_indep _ _ 0 Hjl).
    destruct (line_read _ _ _ _ j arr def ps (all_lines_wf t terms rules dr) Epack Hj Ex) as [_ [_ Hrd]].
    apply Hrd. unfold arr. lia.
  - right. intros s' Hs'. rewrite (mk_entry_none arr def Ex s') by (unfold arr; lia).
    symmetry. apply (mk_entry_none arr def Ex). unfold arr. lia.
Qed.
