(* C03: the literal textbook closure rule (one rule with b in FIRST(beta a)) is NOT what the reference (and
   textmapper) computes on grammars with a non-productive nonterminal: refutation by a concrete grammar.
   S -> A B ; A -> C x ; B -> B ; C -> c     (terminals 0 eoi, 1 x, 2 c; nonterminals 3 S, 4 A, 5 B, 6 C)
   In the start state the item [C -> . c] gets lookahead x from FIRST(x) although [A -> . C x] itself has no
   textbook lookahead (FIRST(B eoi) is empty).  The split definition lr1_valid of LalrSpec.v covers this. *)
From Coq Require Import List ZArith Bool Arith Lia.
From TM Require Import Gram.Cfg Gram.Derive Gram.LalrRef Gram.LalrSpec Gram.LalrSpec_proofs Gram.LalrSpec_proofs2
                       Gram.LalrCert.
Import ListNotations.
Local Open Scope Z_scope.

Definition gx : grammar :=
  mkGrammar 3 4 [mkRule 3 [4; 5] 0; mkRule 4 [6; 1] 0; mkRule 5 [5] 0; mkRule 6 [2] 0] [(3, true)] [].

Lemma gx_rules r : In r (g_rules gx) -> r_lhs r = 5 -> r_rhs r = [5].
Proof. simpl. intros [<-|[<-|[<-|[<-|[]]]]]; simpl; intros; try discriminate; reflexivity. Qed.

Lemma singleton_split (pre : list Z) x post : [5] = pre ++ x :: post -> pre = [] /\ x = 5.
Proof.
  destruct pre as [|p pre]; simpl; intros E.
  - injection E as <- _. auto.
  - injection E as _ E. destruct pre; discriminate.
Qed.

Lemma gx_no_first X b : first_sym gx X b -> X <> 5.
Proof.
  induction 1 as [a Ha|r pre x post a Hr E Hpre Hx IH].
  - intros ->. discriminate.
  - intros E5. rewrite (gx_rules r Hr E5) in E. apply singleton_split in E. destruct E as [_ ->]. apply IH. reflexivity.
Qed.

Lemma gx_no_nullable :
  (forall X, nullable_sym gx X -> X <> 5) /\ (forall xs, nullable_seq gx xs -> ~ In 5 xs).
Proof.
  apply nullable_mutind.
  - intros r Hr _ IH E5. rewrite (gx_rules r Hr E5) in IH. apply IH. left. reflexivity.
  - intros [].
  - intros x xs _ Hx _ Hxs [E|Hin]; [apply Hx; auto|auto].
Qed.

Lemma gx_tb_start gamma it a : lr1_valid_tb gx 0 gamma it a -> gamma = [] -> it = (0, 0).
Proof.
  induction 1 as [nt eoi r a _ Hinp Hr _|gamma it a B r b H IH Es Et Hr Hb|gamma it a X H IH Es]; intros Eg.
  - simpl in Hinp. injection Hinp as <- _. vm_compute in Hr. destruct Hr as [<-|[]]. reflexivity.
  - exfalso. rewrite (IH Eg) in Hb. vm_compute in Hb. destruct Hb as [(pre & x & post & E & _ & Hx)|[Hn _]].
    + apply singleton_split in E. destruct E as [_ ->]. apply (gx_no_first _ _ Hx). reflexivity.
    + apply (proj2 gx_no_nullable _ Hn). left. reflexivity.
  - destruct gamma; discriminate.
Qed.

Lemma trans_target_In a q s t : trans_target a q s = Some t -> In (q, s, t) (a_trans a).
Proof.
  unfold trans_target. destruct (find _ (a_trans a)) as [[[f s'] t']|] eqn:E; [|discriminate].
  intros [= <-]. apply find_some in E. destruct E as [Hin E]. apply andb_true_iff in E.
  destruct E as [E1 E2]. apply Z.eqb_eq in E1, E2. subst. exact Hin.
Qed.

Definition ax : automaton := fst (build_automaton gx 100).

Lemma ax_reach_start i gamma : reach ax i gamma 0 -> gamma = [] /\ i = 0.
Proof.
  intros H. inversion H as [E|g0 q X q' _ Htr]; [auto|].
  exfalso. apply trans_target_In in Htr. vm_compute in Htr.
  repeat (destruct Htr as [Htr|Htr]; [injection Htr; intros; discriminate|]). exact Htr.
Qed.

Theorem lalr_la_textbook_refuted :
  la_cert gx ax 100 = true /\
  In 1 (la_get (lalr_la gx ax 100) 0 (3, 0)) /\
  ~ (exists i gamma, reach ax i gamma 0 /\ lr1_valid_tb gx i gamma (3, 0) 1).
Proof.
  split; [vm_compute; reflexivity|]. split; [vm_compute; auto|].
  intros (i & gamma & Hr & Hv). apply ax_reach_start in Hr. destruct Hr as [-> ->].
  apply gx_tb_start in Hv; [discriminate|reflexivity].
Qed.

Theorem lalr_la_textbook_refuted_ex :
  exists g fuel q it x, let a := fst (build_automaton g fuel) in
    la_cert g a fuel = true /\ In x (la_get (lalr_la g a fuel) q it) /\
    ~ (exists i gamma, reach a i gamma q /\ lr1_valid_tb g i gamma it x).
Proof. exists gx, 100%nat, 0, (3, 0), 1. exact lalr_la_textbook_refuted. Qed.
