(* Boolean certificate for an LR(0) automaton in the representation of LalrRef.v: it implies the hypotheses of
   the LALR(1) soundness/completeness theorems (seeds_ok, aut_sound, starts_present, aut_complete of LalrSpec.v).
   Definitions only; the soundness proof is in LalrCert_proofs.v. *)
From Coq Require Import List ZArith Bool Arith.
From TM Require Import Gram.Cfg Gram.LalrRef Gram.LalrSpec.
Import ListNotations.
Local Open Scope Z_scope.

Definition st_items (g : grammar) (st : lstate) : list item := closure g (s_kernel st) (s_seed st).

Definition indexed {A} (l : list A) : list (Z * A) := combine (zrange (Z.of_nat (length l))) l.

(* every input has its start state *)
Definition cert_starts (g : grammar) (a : automaton) : bool :=
  forallb (fun '(i, inp) =>
      match nth_error (a_states a) (Z.to_nat i) with
      | Some st => match s_seed st with Some nt => nt =? fst inp | None => false end && (s_kind st =? 0)
      | None => false
      end) (indexed (g_inputs g)).

(* ordinary states with a seed are start states of the input with their number *)
Definition cert_seeds (g : grammar) (a : automaton) : bool :=
  forallb (fun '(q, st) =>
      match s_seed st with
      | Some nt => if s_kind st =? 0 then
                     match nth_error (g_inputs g) (Z.to_nat q) with Some (nt', _) => nt' =? nt | None => false end
                   else true
      | None => true
      end) (indexed (a_states a)).

(* distance of a state from the start states (untrusted hint for the check below; -1 = not reached) *)
Fixpoint upd (l : list Z) (n : nat) (v : Z) : list Z :=
  match l, n with
  | [], _ => []
  | _ :: t, O => v :: t
  | x :: t, S k => x :: upd t k v
  end.
Definition rank_of (rk : list Z) (q : Z) : Z := nth (Z.to_nat q) rk (-1).
Definition rank_step (a : automaton) (rk : list Z) : list Z :=
  fold_left (fun rk '(f, _, t) =>
      if (0 <=? f) && (0 <=? t) && (0 <=? rank_of rk f) && (rank_of rk t <? 0)
      then upd rk (Z.to_nat t) (rank_of rk f + 1) else rk) (a_trans a) rk.
Definition ranks (a : automaton) : list Z :=
  iterate (length (a_states a)) (rank_step a)
          (map (fun st => match s_seed st with Some _ => if s_kind st =? 0 then 0 else -1 | None => -1 end)
               (a_states a)).

(* start states have an empty kernel, synthesized states have no items, any other state is entered from a
   state of smaller rank over a symbol s, and every kernel item is an item of that state advanced over s *)
Definition cert_sound_state (g : grammar) (a : automaton) (rk : list Z) (q : Z) (st : lstate) : bool :=
  match s_seed st with
  | Some _ => if s_kind st =? 0 then match s_kernel st with [] => true | _ => false end
              else match st_items g st with [] => true | _ => false end
  | None =>
      existsb (fun '(f, s, t) =>
          (t =? q) && (0 <=? f) && ((0 <=? rank_of rk f) && (rank_of rk f <? rank_of rk q)) &&
          match trans_target a f s with Some t' => t' =? q | None => false end &&
          match nth_error (a_states a) (Z.to_nat f) with
          | Some stf =>
              forallb (fun it => mem_item (fst it, snd it - 1) (st_items g stf) &&
                                 match sym_after g (fst it, snd it - 1) with Some s' => s' =? s | None => false end)
                      (s_kernel st)
          | None => false
          end) (a_trans a)
  end.

(* the item set is closed under the closure step, every symbol after a dot has a transition, and transitions
   lead to states containing the advanced item *)
Definition cert_complete_state (g : grammar) (a : automaton) (q : Z) (st : lstate) : bool :=
  let cl := st_items g st in
  forallb (fun it =>
      match sym_after g it with
      | None => true
      | Some s =>
          (is_term g s || forallb (fun r => mem_item (r, 0) cl) (rules_of g s)) &&
          match trans_target a q s with
          | None => false         (* the collection is complete: every symbol after a dot has a transition *)
          | Some q' => (0 <=? q') &&
                       match nth_error (a_states a) (Z.to_nat q') with
                       | Some st' => mem_item (fst it, snd it + 1) (st_items g st')
                       | None => false
                       end
          end
      end) cl.

Definition aut_cert (g : grammar) (a : automaton) : bool :=
  cert_starts g a && cert_seeds g a &&
  (let rk := ranks a in
   forallb (fun '(q, st) => cert_sound_state g a rk q st && cert_complete_state g a q st) (indexed (a_states a))).

(* everything the two C03 lookahead theorems need, for the table computed with the given fuel *)
Definition la_cert (g : grammar) (a : automaton) (fuel : nat) : bool :=
  let nl := nullable_set g in let ft := first_sets g in
  wf_lhs g && nullable_closed g nl && first_closed g nl ft && la_stable g a nl ft (lalr_la g a fuel) && aut_cert g a.

(* the certificate for the reference construction of LalrTables.reference (same fuel for both phases) *)
Definition ref_cert (g : grammar) (fuel : nat) : bool :=
  let '(a, _) := build_automaton g fuel in la_cert g a fuel.
