(* C02: with fixWhitespace the loop's ranges and events for a derivation tree are exactly the specification. *)
From Coq Require Import List ZArith Bool Arith Lia.
From TM Require Import Lib.ListX Gram.PTables Gram.Run Gram.Events Gram.Events_proofs.
Import ListNotations.
Local Open Scope Z_scope.

Definition report_ok (n : nat) (rep : nat * nat * Z) : Prop :=
  let '(s, e, _) := rep in (s <= e)%nat /\ (e <= n)%nat /\ (s = e -> (e < n)%nat).

(* well-formed derivation trees w.r.t. the per-rule event table: report ranges lie inside the rule (an empty
   range is never at the end: the compiler rejects that), and a rule whose last symbol cannot be empty
   (HasTrailingNulls = false) ends with a non-empty subtree *)
Inductive wf_tree (evt : ev_table) (rl : Z -> Z) : tree -> Prop :=
| wf_leaf s o e : wf_tree evt rl (TLeaf s o e)
| wf_node r ch :
    Forall (wf_tree evt rl) ch -> 0 <= r -> Z.to_nat (rl r) = length ch ->
    Forall (report_ok (length ch)) (er_reports (ev_at evt r)) ->
    (er_trailing_nulls (ev_at evt r) = false -> ch <> [] -> leaves (last ch (TLeaf 0 0 0)) <> []) ->
    wf_tree evt rl (TNode r ch).

Fixpoint forest_spec (arrows : arrow_table) (l : list tree) (after : Z) : list event :=
  match l with [] => [] | c :: rest => spec_events arrows c (start_of rest after) ++ forest_spec arrows rest after end.

Lemma spec_events_node arrows r ch after :
  spec_events arrows (TNode r ch) after = forest_spec arrows ch after ++ map (arrow_event ch after) (arrows_at arrows r).
Proof.
  simpl. f_equal. induction ch as [|c rest IH]; simpl; [reflexivity|]. rewrite IH. reflexivity.
Qed.

Lemma arrows_at_of_ev rl evt r : 0 <= r ->
  arrows_at (arrows_of_ev rl evt) r =
    er_reports (ev_at evt r) ++ (if er_type (ev_at evt r) =? 0 then [] else [(O, Z.to_nat (rl r), er_type (ev_at evt r))]).
Proof.
  intros Hr. unfold arrows_at, arrows_of_ev, ev_at.
  set (k := Z.to_nat r). assert (Ek : Z.of_nat k = r) by (unfold k; lia). clearbody k. subst r.
  set (f := fun '(i, er) => er_reports er ++ (if er_type er =? 0 then [] else [(O, Z.to_nat (rl (Z.of_nat i)), er_type er)])).
  assert (G : forall base l n, nth n (map f (combine (seq base (length l)) l)) [] =
                               match nth_error l n with Some er => f ((base + n)%nat, er) | None => [] end).
  { intros base l. revert base. induction l as [|x l IH]; intros base n; simpl.
    - destruct n; reflexivity.
    - destruct n as [|n]; simpl.
      + rewrite Nat.add_0_r. reflexivity.
      + rewrite IH. replace (S base + n)%nat with (base + S n)%nat by lia. reflexivity. }
  rewrite G. simpl.
  destruct (nth_error evt k) as [er|] eqn:E.
  - rewrite (nth_error_nth _ _ _ E). reflexivity.
  - apply nth_error_None in E. rewrite nth_overflow by exact E. reflexivity.
Qed.

Section Strict.
Variable evt : ev_table.
Variable rl : Z -> Z.
Notation arrows := (arrows_of_ev rl evt).

Definition strict_at (t : tree) : Prop :=
  wf_tree evt rl t -> forall after, ordered (leaves t) after ->
  tree_run true evt t after = (span_of (leaves t) after, spec_events arrows t after).

Lemma forest_strict ch : Forall strict_at ch -> Forall (wf_tree evt rl) ch ->
  forall after, ordered (forest_leaves ch) after ->
  map fst (forest_run true evt ch after) = spec_ranges ch after /\
  flat_map snd (forest_run true evt ch after) = forest_spec arrows ch after.
Proof.
  induction ch as [|c rest IH]; intros Hs Hw after Ho; simpl; [split; reflexivity|].
  inversion Hs as [|? ? Hsc Hsr]; subst. inversion Hw as [|? ? Hwc Hwr]; subst.
  apply ordered_forest_cons in Ho. destruct Ho as [Hoc Hor].
  rewrite (Hsc Hwc _ Hoc). simpl. destruct (IH Hsr Hwr after Hor) as [E1 E2]. rewrite E1, E2. split; reflexivity.
Qed.

Lemma last_spec_ranges P c aft : last (spec_ranges (P ++ [c]) aft) rdummy = span_of (leaves c) aft.
Proof.
  rewrite spec_ranges_app. simpl. rewrite last_app_ne by discriminate. simpl.
  unfold start_of. reflexivity.
Qed.

Lemma report_event_strict ch after rep : Forall (wf_tree evt rl) ch -> ordered (forest_leaves ch) after ->
  report_ok (length ch) rep ->
  report_event true (spec_ranges ch after) rep = arrow_event ch after rep.
Proof.
  intros Hw Ho Hok. destruct rep as [[s e] ty]. simpl in Hok. destruct Hok as (Hse & Hel & Hlt).
  unfold report_event, arrow_event.
  destruct (Nat.eqb s e) eqn:E.
  - apply Nat.eqb_eq in E. subst e. rewrite Nat.sub_diag. simpl firstn.
    rewrite (nth_spec_ranges _ _ _ (Hlt eq_refl)). reflexivity.
  - apply Nat.eqb_neq in E.
    rewrite (spec_ranges_segment _ _ _ _ Hse Hel).
    rewrite report_range_strict.
    + destruct (span_of _ _). reflexivity.
    + intros Hnil. apply (f_equal (@length _)) in Hnil. rewrite firstn_length, skipn_length in Hnil. simpl in Hnil. lia.
    + apply ordered_segment; assumption.
Qed.

Theorem tree_run_strict t : strict_at t.
Proof.
  induction t as [s o e | r ch IH] using tree_ind2; intros Hw after Ho.
  - reflexivity.
  - inversion Hw as [| ? ? Hwch Hr0 Hlen Hreps Hlast]; subst.
    rewrite leaves_node in *. rewrite tree_run_node, spec_events_node.
    destruct (forest_strict ch IH Hwch after Ho) as [E1 E2]. cbv zeta. rewrite E1, E2.
    assert (Hspan : lhs_range (spec_ranges ch after) after =
                    (start_of ch after, match ch with [] => after | _ => snd (last (spec_ranges ch after) rdummy) end)).
    { destruct ch as [|c rest]; [reflexivity|]. simpl. f_equal. symmetry. apply start_of_cons. }
    rewrite Hspan. unfold apply_rule. cbn [andb].
    set (endoff := match ch with [] => after | _ => snd (last (spec_ranges ch after) rdummy) end).
    assert (Hend : (if er_trailing_nulls (ev_at evt r) then fix_trailing (spec_ranges ch after) (start_of ch after) endoff else endoff)
                   = snd (span_of (forest_leaves ch) after)).
    { destruct ch as [|c0 rest0] eqn:Ech.
      - simpl. destruct (er_trailing_nulls (ev_at evt r)); reflexivity.
      - rewrite <- Ech in *. assert (Hne : ch <> []) by (rewrite Ech; discriminate).
        destruct (er_trailing_nulls (ev_at evt r)) eqn:Etn.
        + apply fix_trailing_strict; assumption.
        + specialize (Hlast eq_refl Hne). unfold endoff. rewrite Ech. rewrite <- Ech.
          destruct (exists_last Hne) as (P & c & EP). rewrite EP in *.
          rewrite last_spec_ranges. rewrite last_last in Hlast.
          rewrite forest_leaves_app, span_app. unfold forest_leaves at 2. simpl. rewrite app_nil_r.
          destruct (leaves c); [congruence|reflexivity]. }
    rewrite Hend.
    assert (Hoff : start_of ch after = fst (span_of (forest_leaves ch) after)) by reflexivity.
    rewrite (arrows_at_of_ev _ _ _ Hr0), map_app.
    assert (A0 : (start_of ch after, snd (span_of (forest_leaves ch) after)) = span_of (forest_leaves ch) after).
    { rewrite Hoff. symmetry. apply surjective_pairing. }
    assert (A1 : map (report_event true (spec_ranges ch after)) (er_reports (ev_at evt r)) =
                 map (arrow_event ch after) (er_reports (ev_at evt r))).
    { apply map_ext_in. intros rep Hin. apply report_event_strict; auto.
      rewrite Forall_forall in Hreps. apply Hreps. exact Hin. }
    assert (A2 : (if er_type (ev_at evt r) =? 0 then []
                  else [(er_type (ev_at evt r), start_of ch after, snd (span_of (forest_leaves ch) after))]) =
                 map (arrow_event ch after)
                     (if er_type (ev_at evt r) =? 0 then [] else [(O, Z.to_nat (rl r), er_type (ev_at evt r))])).
    { destruct (er_type (ev_at evt r) =? 0); [reflexivity|]. simpl map. rewrite Hlen.
      unfold arrow_event. rewrite Nat.sub_0_r. simpl skipn. rewrite firstn_all, skipn_all.
      unfold start_of at 2. simpl forest_leaves. change (fst (span_of [] after)) with after.
      rewrite <- A0. reflexivity. }
    rewrite A0. apply f_equal. apply f_equal. rewrite A1. apply f_equal. exact A2.
Qed.

End Strict.

Lemma wf_treeb_sound evt rl t : wf_treeb evt rl t = true -> wf_tree evt rl t.
Proof.
  induction t as [s o e | r ch IH] using tree_ind2; intros H; [constructor|].
  simpl in H. rewrite !andb_true_iff in H. destruct H as [[[[H1 H2] H3] H4] H5].
  apply Z.leb_le in H1. apply Nat.eqb_eq in H2.
  constructor; auto.
  - clear -IH H5. induction ch as [|c rest IHl]; [constructor|].
    apply andb_true_iff in H5. destruct H5 as [Hc Hr]. inversion IH; subst. constructor; auto.
  - rewrite forallb_forall in H3. apply Forall_forall. intros [[s e] ty] Hin. specialize (H3 _ Hin). simpl in H3.
    rewrite !andb_true_iff in H3. destruct H3 as [[Ha Hb] Hc]. apply Nat.leb_le in Ha. apply Nat.leb_le in Hb.
    simpl. repeat split; auto. intros ->. rewrite Nat.eqb_refl in Hc. simpl in Hc. apply Nat.ltb_lt in Hc. exact Hc.
  - intros Htn Hne. rewrite Htn in H4. simpl in H4. destruct ch; [congruence|].
    destruct (leaves (last (t :: ch) (TLeaf 0 0 0))); [discriminate|discriminate].
Qed.
