(* C29: a cancelled parse returns the context error or exactly what the uncancelled parse returns, having
   emitted a prefix of its events; once the context is done the loop stops before the next poll. *)
From Coq Require Import List ZArith Bool Arith Lia.
From TM Require Import Gram.PTables Gram.Run Gram.Validator Gram.Events Gram.Cancel.
Import ListNotations.
Local Open Scope Z_scope.

Section C.
Variable m : machine.
Variable evt : ev_table.
Variable fixws : bool.
Variable eoi_off end_state : Z.
Variable attempts : Z -> Z -> bool.

Notation xs := (xstep m evt fixws eoi_off).
Notation xloop := (fun f => xrun_loop f m evt fixws eoi_off end_state).
Notation cloop := (fun f rho => crun_loop f m evt fixws eoi_off end_state attempts rho).

Lemma xstep_events c c' : xs c = XContinue c' -> exists evs, xc_events c' = xc_events c ++ evs.
Proof.
  unfold xstep. destruct (m_act m _ _ _) as [q|r| |row]; try discriminate.
  - intros E. injection E as <-. exists []. simpl. rewrite app_nil_r. reflexivity.
  - destruct (_ <=? _)%nat; [discriminate|]. destruct (lhs_range _ _) as [off endoff].
    destruct (apply_rule _ _ _ _ _) as [evs endoff']. destruct (_ =? -1); [discriminate|].
    intros E. injection E as <-. exists evs. reflexivity.
Qed.

Lemma xloop_events f : forall c o c', xloop f c = (o, c') -> exists evs, xc_events c' = xc_events c ++ evs.
Proof.
  induction f as [|f IH]; intros c o c'; simpl.
  - intros E. injection E as _ <-. exists []. rewrite app_nil_r. reflexivity.
  - destruct (xc_state c =? end_state); [intros E; injection E as _ <-; exists []; rewrite app_nil_r; reflexivity|].
    destruct (xs c) as [c1|o1] eqn:Es.
    + intros E. destruct (IH _ _ _ E) as (e2 & H2). destruct (xstep_events _ _ Es) as (e1 & H1).
      exists (e1 ++ e2). rewrite H2, H1, app_assoc. reflexivity.
    + intros E. injection E as _ <-. exists []. rewrite app_nil_r. reflexivity.
Qed.

(* Either the cancellable loop returns the context error at a configuration the uncancelled loop passes
   through (so the events emitted so far are a prefix of the uncancelled events, and the uncancelled run
   continues from there), or it returns exactly the outcome, stack and events of the uncancelled loop. *)
Theorem cancel_or_same f : forall rho c o c', cloop f rho c = (o, c') ->
  (o = CtxErr /\ exists k, (k <= f)%nat /\ xloop f (cc_x c) = xloop (f - k)%nat (cc_x c')) \/
  (exists o', o = Plain o' /\ xloop f (cc_x c) = (o', cc_x c')).
Proof.
  induction f as [|f IH]; intros rho c o c'; simpl.
  - intros E. injection E as <- <-. right. exists OutOfFuel. split; reflexivity.
  - destruct (xc_state (cc_x c) =? end_state) eqn:Eend.
    + intros E. injection E as <- <-. right. exists Accept. split; reflexivity.
    + unfold cstep.
      destruct (attempts (xc_state (cc_x c)) (t_sym (next_tok eoi_off (xc_input (cc_x c)))) &&
                polls _ && rho _) eqn:Ecancel.
      * intros E. injection E as <- <-. left. split; [reflexivity|]. exists O. split; [lia|].
        change (S f - 0)%nat with (S f). simpl. rewrite Eend. reflexivity.
      * destruct (xs (cc_x c)) as [x1|o1] eqn:Es.
        -- intros E. destruct (IH _ _ _ _ E) as [[-> (k & Hk & Hrun)]|(o' & -> & Hrun)].
           ++ left. split; [reflexivity|]. exists (S k). split; [lia|]. simpl in Hrun. simpl. exact Hrun.
           ++ right. exists o'. split; [reflexivity|exact Hrun].
        -- intros E. injection E as <- <-. right. exists o1. split; reflexivity.
Qed.

(* corollary: the events reported before a cancellation are a prefix of the events of the uncancelled parse *)
Corollary cancel_events_prefix f rho c c' o_plain x_plain :
  cloop f rho c = (CtxErr, c') -> xloop f (cc_x c) = (o_plain, x_plain) ->
  exists evs, xc_events x_plain = xc_events (cc_x c') ++ evs.
Proof.
  intros Hc Hx. cbv beta in *. destruct (cancel_or_same _ _ _ _ _ Hc) as [[_ (k & Hk & Hrun)]|(o' & E & _)]; [|discriminate].
  cbv beta in Hrun. rewrite Hrun in Hx. eapply xloop_events. exact Hx.
Qed.

(* ---- boundedness ---- *)
Hypothesis Hatt : forall s a more q, m_act m s a more = Shift q -> attempts s a = true.

Lemma next_poll_spec s : 1 <= s -> s <= next_poll s < s + 512 /\ polls (next_poll s) = true /\ 512 <= next_poll s.
Proof.
  intros Hs. unfold next_poll, polls.
  pose proof (Z.div_mod (s + 511) 512 ltac:(lia)) as Hd. pose proof (Z.mod_pos_bound (s + 511) 512 ltac:(lia)) as Hm.
  assert (H1 : 1 <= (s + 511) / 512) by (apply Z.div_le_lower_bound; lia).
  repeat split; try lia.
  apply Z.eqb_eq. rewrite Z.mul_comm. apply Z.mod_mul. lia.
Qed.

(* a step never lets the counter reach a polled value at which the context is done *)
Lemma cstep_counter rho s c c' : 1 <= s -> (forall n, s <= n -> rho n = true) ->
  cc_counter c < next_poll s -> cstep m evt fixws eoi_off attempts rho c = CContinue c' ->
  cc_counter c' < next_poll s /\ cc_counter c <= cc_counter c' /\
  Z.of_nat (length (xc_input (cc_x c))) - Z.of_nat (length (xc_input (cc_x c'))) <= cc_counter c' - cc_counter c.
Proof.
  intros Hs Hrho Hlt. destruct (next_poll_spec s Hs) as ((Hge & _) & Hpoll & _). unfold cstep.
  set (att := attempts (xc_state (cc_x c)) (t_sym (next_tok eoi_off (xc_input (cc_x c))))).
  destruct att eqn:Eatt.
  - cbn [andb]. destruct (polls (cc_counter c + 1) && rho (cc_counter c + 1)) eqn:Ep; [discriminate|].
    destruct (xs (cc_x c)) as [x1|o1] eqn:Es; [|discriminate]. intros E. injection E as <-. cbn [cc_counter cc_x].
    assert (Hne : cc_counter c + 1 <> next_poll s).
    { intros Heq. rewrite Heq, Hpoll, (Hrho _ Hge) in Ep. discriminate. }
    split; [lia|]. split; [lia|].
    (* input consumption: at most one token *)
    unfold xstep in Es. destruct (m_act m _ _ _) as [q|r| |row]; try discriminate.
    + injection Es as <-. cbn [xc_input cc_x cc_counter]. destruct (_ =? 0); [lia|].
      destruct (xc_input (cc_x c)) as [|t0 l0]; cbn [tl length]; lia.
    + destruct (_ <=? _)%nat; [discriminate|]. destruct (lhs_range _ _). destruct (apply_rule _ _ _ _ _).
      destruct (_ =? -1); [discriminate|]. injection Es as <-. cbn [xc_input cc_x cc_counter]. lia.
  - cbn [andb]. destruct (xs (cc_x c)) as [x1|o1] eqn:Es; [|discriminate]. intros E. injection E as <-. cbn [cc_counter cc_x].
    split; [lia|]. split; [lia|].
    unfold xstep in Es. destruct (m_act m _ _ _) as [q|r| |row] eqn:Eact; try discriminate.
    + apply Hatt in Eact. unfold att in Eatt. rewrite Eact in Eatt. discriminate.
    + destruct (_ <=? _)%nat; [discriminate|]. destruct (lhs_range _ _). destruct (apply_rule _ _ _ _ _).
      destruct (_ =? -1); [discriminate|]. injection Es as <-. cbn [xc_input cc_x cc_counter]. lia.
Qed.

(* Once the context is done from counter value s on, the loop stops before the counter passes the next polled
   value (< s + 512), and it has consumed at most that many tokens. *)
Theorem cancel_bounded f : forall rho s c o c', 1 <= s -> (forall n, s <= n -> rho n = true) ->
  cc_counter c < next_poll s -> cloop f rho c = (o, c') ->
  cc_counter c' < next_poll s /\
  Z.of_nat (length (xc_input (cc_x c))) - Z.of_nat (length (xc_input (cc_x c'))) <= cc_counter c' - cc_counter c.
Proof.
  induction f as [|f IH]; intros rho s c o c' Hs Hrho Hlt; simpl.
  - intros E. injection E as _ <-. split; lia.
  - destruct (xc_state (cc_x c) =? end_state); [intros E; injection E as _ <-; split; lia|].
    destruct (cstep m evt fixws eoi_off attempts rho c) as [c1|o1] eqn:Es.
    + destruct (cstep_counter _ _ _ _ Hs Hrho Hlt Es) as (H1 & H2 & H3).
      intros E. destruct (IH _ _ _ _ _ Hs Hrho H1 E) as (H4 & H5). split; lia.
    + intros E. injection E as _ <-. split; lia.
Qed.

End C.

Lemma lalr1_attempts t rl rs s a more q :
  m_act (Validator.lalr1_machine t rl rs) s a more = Shift q -> attempts_default t s a = true.
Proof.
  simpl. unfold action_default, attempts_default.
  set (a0 := zn (d_action t) s). set (a1 := if a0 <? -2 then lalr_lookup t a0 a else a0).
  destruct (a1 >=? 0); [discriminate|]. destruct (a1 =? -1) eqn:E; [reflexivity|].
  destruct (a1 =? -2); discriminate.
Qed.

Lemma opt_attempts o terms rl rs s a more q :
  m_act (opt_machine o terms rl rs) s a more = Shift q -> attempts_opt o s a = true.
Proof. simpl. unfold attempts_opt. intros ->. reflexivity. Qed.
