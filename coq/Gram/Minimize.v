(* Model of lalr/minimize.go (computeRuleClasses, partitionStatesByAction, refinePartitions, minimize) and
   the finite check that makes a remapping a behaviour-preserving quotient.  Executable definitions only. *)
From Coq Require Import List ZArith Bool Arith.
From TM Require Import Gram.PTables Gram.Optimize Gram.Run.
Import ListNotations.
Local Open Scope Z_scope.

Fixpoint zlist_eqb (a b : list Z) : bool :=
  match a, b with
  | [], [] => true
  | x :: a', y :: b' => (x =? y) && zlist_eqb a' b'
  | _, _ => false
  end.

(* container.IntSliceSet.Insert: index of the first occurrence, appending when new *)
Fixpoint index_of (sig : list Z) (seen : list (list Z)) (i : Z) : option Z :=
  match seen with
  | [] => None
  | s :: rest => if zlist_eqb s sig then Some i else index_of sig rest (i + 1)
  end.

Definition insert_sig (seen : list (list Z)) (sig : list Z) : list (list Z) * Z :=
  match index_of sig seen 0 with
  | Some k => (seen, k)
  | None => (seen ++ [sig], zlength (map (fun _ => 0) seen))
  end.

Definition number_all (sigs : list (list Z)) : list Z * Z (* ids, count *) :=
  let '(seen, ids) := fold_left (fun '(seen, ids) sig =>
      let '(seen', k) := insert_sig seen sig in (seen', ids ++ [k])) sigs ([], []) in
  (ids, zlength (map (fun _ => 0) seen)).

Record min_input := mkMinInput {
  mi_enc : default_enc;
  mi_rule_len : list Z;            (* includes runtime-lookahead rules *)
  mi_rule_keys : list (list Z);    (* per grammar rule: [lhs; action; type; flags id] *)
  mi_final : list Z;
  mi_eoi : list bool;              (* per input: does it end with EOI? *)
  mi_markers : list (list Z);
  mi_num_states : Z
}.

Definition rule_classes (mi : min_input) : list Z :=
  let ngr := zlength (map (fun _ => 0) (mi_rule_keys mi)) in
  let keys := map (fun '(i, k) => match k with
                                  | lhs :: rest => lhs :: zn (mi_rule_len mi) i :: rest
                                  | [] => [] end) (combine (zseq ngr) (mi_rule_keys mi)) in
  let '(ids, nkeys) := number_all keys in
  ids ++ map (fun i => nkeys + i) (map (fun j => ngr + j) (zseq (zlength (mi_rule_len mi) - ngr))).

Fixpoint pairs_up (l : list Z) : list (Z * Z) :=
  match l with a :: b :: rest => (a, b) :: pairs_up rest | _ => [] end.

Definition sig_reduce := 1. Definition sig_shift := 2. Definition sig_error := 3.
Definition sig_lookahead := 4. Definition sig_partition := 5.

Definition sig_final := 6.

(* states reachable from [i] through any transition (BFS in the Go code; a fixpoint here) *)
Definition reachable_from (t : default_enc) (n : Z) (i : Z) : list Z :=
  let edges := pairs_up (d_from_to t) in
  let grow set := fold_left (fun acc '(from, to) => if memz from acc && negb (memz to acc) then to :: acc else acc) edges set in
  let fix it (fuel : nat) (set : list Z) :=
    match fuel with O => set | S f => it f (grow set) end in
  it (S (Z.to_nat n)) [i].

(* pinned states: every start state (the entry functions use the input index), the final states of
   no-eoi inputs that are not dead ends (the parser accepts on entering them), and final states that a
   foreign input can run into (they must not be merged with that input's own final state) *)
Definition accept_on_entry (mi : min_input) : list Z :=
  let t := mi_enc mi in
  let k := zlength (mi_final mi) in
  zseq k ++
  flat_map (fun '(s, eoi) => if negb eoi && negb (zn (d_action t) s =? -2) then [s] else [])
           (combine (mi_final mi) (mi_eoi mi)) ++
  flat_map (fun i =>
      let seen := reachable_from t (mi_num_states mi) i in
      flat_map (fun j => let s := zn (mi_final mi) j in
                         if negb (j =? i) && negb (s =? zn (mi_final mi) i) && memz s seen then [s] else []) (zseq k))
    (zseq k).

Definition state_signature (t : default_enc) (rc : list Z) (special : list Z) (s : Z) : list Z :=
  let act := zn (d_action t) s in
  if memz s special then [sig_final; s]
  else if act >=? 0 then [sig_reduce; zn rc act]
  else if act =? -1 then [sig_shift]
  else if act =? -2 then [sig_error]
  else sig_lookahead :: flat_map (fun '(term, rule) => [term; if rule >=? 0 then zn rc rule else rule])
                                 (lalr_row (S (length (d_lalr t))) (d_lalr t) (- act - 3)).

(* state -> [sym; target; sym; target ...] in symbol order *)
Definition state_transitions (t : default_enc) (num_states : Z) : list (list Z) :=
  let nsyms := zlength (d_goto t) - 1 in
  let all := flat_map (fun sym =>
      let mn := zn (d_goto t) sym in let mx := zn (d_goto t) (sym + 1) in
      map (fun k => (zn (d_from_to t) (mn + 2 * k), sym, zn (d_from_to t) (mn + 2 * k + 1))) (zseq ((mx - mn) / 2)))
      (zseq nsyms) in
  map (fun s => flat_map (fun '(from, sym, to) => if from =? s then [sym; to] else []) all) (zseq num_states).

Definition refine_once (trans : list (list Z)) (partition : list Z) : list Z * Z :=
  number_all (map (fun '(s, tr) =>
      sig_partition :: zn partition s :: flat_map (fun '(sym, tgt) => [sym; zn partition tgt]) (pairs_up tr))
    (combine (zseq (zlength partition)) trans)).

Fixpoint refine (fuel : nat) (trans : list (list Z)) (partition : list Z) (count : Z) : list Z * Z :=
  match fuel with
  | O => (partition, count)
  | S f => let '(p', c') := refine_once trans partition in
           if c' =? count then (partition, count) else refine f trans p' c'
  end.

Fixpoint insert_edge (e : Z * Z) (l : list (Z * Z)) : list (Z * Z) :=
  match l with
  | [] => [e]
  | x :: rest => if fst e <? fst x then e :: l else x :: insert_edge e rest
  end.

(* slices.CompactFunc by equal [from]: keep the first edge of every run *)
Fixpoint compact_aux (prev : Z) (l : list (Z * Z)) : list (Z * Z) :=
  match l with
  | [] => []
  | b :: rest => if fst b =? prev then compact_aux prev rest else b :: compact_aux (fst b) rest
  end.

Definition compact_by_from (l : list (Z * Z)) : list (Z * Z) :=
  match l with [] => [] | a :: rest => a :: compact_aux (fst a) rest end.

Fixpoint dedup_keep_first (l : list Z) (seen : list Z) : list Z :=
  match l with
  | [] => []
  | x :: rest => if memz x seen then dedup_keep_first rest seen else x :: dedup_keep_first rest (x :: seen)
  end.

Record min_output := mkMinOutput {
  mo_enc : default_enc; mo_final : list Z; mo_markers : list (list Z); mo_num_states : Z; mo_remap : list Z
}.

Definition minimize (mi : min_input) : min_output :=
  let t := mi_enc mi in
  let n := mi_num_states mi in
  let rc := rule_classes mi in
  let '(p0, c0) := number_all (map (state_signature t rc (accept_on_entry mi)) (zseq n)) in
  let trans := state_transitions t n in
  let '(remap, cnt) := refine (S (Z.to_nat n)) trans p0 c0 in
  if cnt =? n then mkMinOutput t (mi_final mi) (mi_markers mi) n (zseq n)
  else
    let new_action := fold_left (fun acc i => set_at acc (zn remap i) (zn (d_action t) i)) (zseq n)
                                (map (fun _ => 0) (zseq cnt)) in
    let nsyms := zlength (d_goto t) - 1 in
    let per_sym := map (fun sym =>
        let mn := zn (d_goto t) sym in let mx := zn (d_goto t) (sym + 1) in
        let edges := map (fun k => (zn remap (zn (d_from_to t) (mn + 2 * k)), zn remap (zn (d_from_to t) (mn + 2 * k + 1))))
                         (zseq ((mx - mn) / 2)) in
        compact_by_from (fold_left (fun acc e => insert_edge e acc) edges [])) (zseq nsyms) in
    let '(new_goto, new_ft) := fold_left (fun '(g, ft) edges =>
        (g ++ [zlength ft], ft ++ flat_map (fun e => [fst e; snd e]) edges)) per_sym ([], []) in
    mkMinOutput (mkDefaultEnc new_action (d_lalr t) (new_goto ++ [zlength new_ft]) new_ft)
                (map (zn remap) (mi_final mi))
                (map (fun ms => dedup_keep_first (map (zn remap) ms) []) (mi_markers mi))
                cnt remap.

(* ---------- the quotient check (finite, exhaustive over states x symbols) ---------- *)
Definition rule_key_full (mi : min_input) (rule_sym : list Z) (r : Z) : list Z :=
  let ngr := zlength (map (fun _ => 0) (mi_rule_keys mi)) in
  if (0 <=? r) && (r <? ngr) then zn (mi_rule_len mi) r :: zn rule_sym r :: nth (Z.to_nat r) (mi_rule_keys mi) []
  else [r].          (* runtime-lookahead rules are only equivalent to themselves *)

Definition check_min (mi : min_input) (rule_sym : list Z) (mo : min_output) (terms ninputs : Z) : bool :=
  let t := mi_enc mi in let t' := mo_enc mo in
  let n := mi_num_states mi in let n' := mo_num_states mo in
  let remap := mo_remap mo in
  let nsyms := zlength (d_goto t) - 1 in
  let nrules := zlength (mi_rule_len mi) in
  (* every old state has a new state *)
  forallb (fun s => (0 <=? zn remap s) && (zn remap s <? n')) (zseq n)
  (* entry states keep their numbers (the entry functions use the input index) *)
  && forallb (fun i => zn remap i =? i) (zseq ninputs)
  && zlist_eqb (mo_final mo) (map (zn remap) (mi_final mi))
  (* rules reduce to nonterminals *)
  && forallb (fun r => (terms <=? zn rule_sym r) && (zn rule_sym r <? nsyms)) (zseq nrules)
  (* actions commute with the remapping, up to equivalent rules; no LALR(k) rows *)
  && forallb (fun s => forallb (fun a =>
        negb (lalr_deep t s a) && negb (lalr_deep t' (zn remap s) a) &&
        match default_act t s a [], default_act t' (zn remap s) a [] with
        | Shift q, Shift q' => (0 <=? q) && (q <? n) && (q' =? zn remap q)
        | Reduce r, Reduce r' => (0 <=? r) && (r <? nrules) && (0 <=? r') && (r' <? nrules)
                                 && zlist_eqb (rule_key_full mi rule_sym r) (rule_key_full mi rule_sym r')
        | Err, Err => true
        | _, _ => false
        end) (zseq terms)) (zseq n)
  (* gotos commute with the remapping *)
  && forallb (fun s => forallb (fun x =>
        let q := goto_state t s x in
        if q =? -1 then goto_state t' (zn remap s) x =? -1
        else (0 <=? q) && (q <? n) && (goto_state t' (zn remap s) x =? zn remap q))
      (map (fun i => terms + i) (zseq (nsyms - terms)))) (zseq n).
