(* C05, generator side, part 1: the allocator invariant of [place] and the decoding theorem for [pack].
   Every line handed to pack can be read back cell by cell through (table, check) at its index, and a
   position that is not in the line is never answered from the table. *)
From Coq Require Import List ZArith Bool Lia Arith.
From TM Require Import Gram.PTables Gram.Optimize Gram.OptimizeSpec Gram.OptimizeSpec_proofs.
Import ListNotations.
Local Open Scope Z_scope.

(* ---------- small facts ---------- *)
Lemma memz_In x l : memz x l = true <-> In x l.
Proof.
  unfold memz. rewrite existsb_exists. split.
  - intros [y [H1 H2]]. apply Z.eqb_eq in H2. now subst.
  - intro H. exists x. split; [exact H|apply Z.eqb_refl].
Qed.

Lemma memz_nIn x l : memz x l = false <-> ~ In x l.
Proof. rewrite <- memz_In. destruct (memz x l); split; congruence. Qed.

Lemma zlength_nonneg l : 0 <= zlength l.
Proof. unfold zlength. lia. Qed.

Lemma zseq_length n : length (zseq n) = Z.to_nat n.
Proof. unfold zseq. now rewrite map_length, seq_length. Qed.

Lemma zlength_map_zseq {A} (f : Z -> A) n : 0 <= n -> Z.of_nat (length (map f (zseq n))) = n.
Proof. intro H. rewrite map_length, zseq_length. lia. Qed.

Lemma zseq_nth' n i d : 0 <= i < n -> nth (Z.to_nat i) (zseq n) d = i.
Proof.
  intro H. unfold zseq.
  rewrite (nth_indep _ d (Z.of_nat 0)) by (rewrite map_length, seq_length; lia).
  rewrite map_nth. rewrite seq_nth by lia. lia.
Qed.

Lemma zn_map_zseq (f : Z -> Z) n i : 0 <= i < n -> zn (map f (zseq n)) i = f i.
Proof.
  intro H. unfold zn. destruct (i <? 0) eqn:E; [lia|].
  rewrite (nth_indep _ _ (f 0)) by (rewrite map_length, zseq_length; lia).
  rewrite map_nth. now rewrite zseq_nth'.
Qed.

Lemma zn_out l i : ~ (0 <= i < zlength l) -> zn l i = -1000000.
Proof.
  unfold zn, zlength. intro H. destruct (i <? 0) eqn:E; [reflexivity|].
  apply nth_overflow. lia.
Qed.

(* ---------- well-formed lines: non-empty, positions >= 0 and strictly increasing ---------- *)
Fixpoint inc_from (lo : Z) (ps : list pair) : Prop :=
  match ps with [] => True | p :: r => lo <= fst p /\ inc_from (fst p + 1) r end.

Definition wf_line (ps : list pair) : Prop := ps <> [] /\ inc_from 0 ps.

Lemma inc_from_weaken lo lo' ps : lo' <= lo -> inc_from lo ps -> inc_from lo' ps.
Proof. destruct ps; cbn; [tauto|]. intros H [H1 H2]. split; [lia|exact H2]. Qed.

Lemma inc_from_In lo ps p : inc_from lo ps -> In p ps -> lo <= fst p.
Proof.
  revert lo. induction ps as [|q r IH]; intros lo H Hin; [contradiction|].
  destruct H as [H1 H2]. destruct Hin as [->|Hin]; [exact H1|].
  specialize (IH _ H2 Hin). lia.
Qed.

Lemma inc_from_inj lo ps p q : inc_from lo ps -> In p ps -> In q ps -> fst p = fst q -> p = q.
Proof.
  revert lo. induction ps as [|x r IH]; intros lo H Hp Hq E; [contradiction|].
  destruct H as [H1 H2]. destruct Hp as [->|Hp], Hq as [->|Hq].
  - reflexivity.
  - pose proof (inc_from_In _ _ _ H2 Hq). lia.
  - pose proof (inc_from_In _ _ _ H2 Hp). lia.
  - exact (IH _ H2 Hp Hq E).
Qed.

Lemma inc_from_NoDup lo ps : inc_from lo ps -> NoDup ps.
Proof.
  revert lo. induction ps as [|x r IH]; intros lo H; [constructor|].
  destruct H as [H1 H2]. constructor; [|exact (IH _ H2)].
  intro Hin. pose proof (inc_from_In _ _ _ H2 Hin). lia.
Qed.

Lemma inc_from_last lo ps p : inc_from lo ps -> In p ps -> fst p <= last_pos ps.
Proof.
  unfold last_pos. revert lo p. induction ps as [|x r IH]; intros lo p H Hin; [contradiction|].
  destruct H as [H1 H2]. destruct r as [|y r'].
  - destruct Hin as [->|[]]. cbn. lia.
  - change (last (x :: y :: r') (0, 0)) with (last (y :: r') (0, 0)).
    destruct Hin as [->|Hin].
    + pose proof (IH _ y H2 (or_introl eq_refl)). destruct H2 as [H2 _]. lia.
    + exact (IH _ p H2 Hin).
Qed.

Lemma inc_from_first lo ps p : inc_from lo ps -> In p ps -> first_pos ps <= fst p.
Proof.
  destruct ps as [|x r]; [contradiction|]. intros [H1 H2] [->|Hin]; cbn; [lia|].
  pose proof (inc_from_In _ _ _ H2 Hin). lia.
Qed.

(* two strictly increasing lists of the same length, one included in the other, are equal *)
Lemma inc_incl_eq : forall qs ps lo lo', inc_from lo ps -> inc_from lo' qs ->
  incl ps qs -> length ps = length qs -> ps = qs.
Proof.
  induction qs as [|q qs IH]; intros ps lo lo' Hp Hq Hincl Hlen.
  - destruct ps; [reflexivity|discriminate].
  - destruct ps as [|p ps]; [discriminate|].
    destruct Hp as [Hp1 Hp2], Hq as [Hq1 Hq2].
    destruct (Hincl p (or_introl eq_refl)) as [<-|Hin].
    + f_equal. apply (IH ps _ _ Hp2 Hq2); [|cbn in Hlen; lia].
      intros x Hx. destruct (Hincl x (or_intror Hx)) as [<-|Hx']; [|exact Hx'].
      pose proof (inc_from_In _ _ _ Hp2 Hx). lia.
    + exfalso.
      assert (Hall : incl (p :: ps) qs).
      { intros x [<-|Hx]; [exact Hin|].
        destruct (Hincl x (or_intror Hx)) as [<-|Hx']; [|exact Hx'].
        pose proof (inc_from_In _ _ _ Hp2 Hx). pose proof (inc_from_In _ _ _ Hq2 Hin). lia. }
      assert (Hnd : NoDup (p :: ps)) by (apply (inc_from_NoDup lo); split; assumption).
      pose proof (NoDup_incl_length Hnd Hall) as Hle. cbn in Hle, Hlen. lia.
Qed.

(* ---------- the cell store ---------- *)
Definition new_cells (base : Z) (qs : list pair) : list (Z * (Z * Z)) :=
  map (fun p => (base + fst p, (snd p, fst p + 1))) qs.

Lemma cell_prefix_miss base qs old c :
  (forall q, In q qs -> base + fst q <> c) -> cell (new_cells base qs ++ old) c = cell old c.
Proof.
  induction qs as [|q qs IH]; intro H; [reflexivity|].
  cbn [new_cells map app cell]. destruct (base + fst q =? c) eqn:E.
  - apply Z.eqb_eq in E. exfalso. exact (H q (or_introl eq_refl) E).
  - apply IH. intros q' Hq'. apply H. now right.
Qed.

Lemma cell_prefix_hit base qs old p v :
  (forall q q', In q qs -> In q' qs -> fst q = fst q' -> q = q') -> In (p, v) qs ->
  cell (new_cells base qs ++ old) (base + p) = (v, p + 1).
Proof.
  induction qs as [|q qs IH]; intros Hinj Hin; [contradiction|].
  cbn [new_cells map app cell]. destruct (base + fst q =? base + p) eqn:E.
  - apply Z.eqb_eq in E.
    assert (q = (p, v)) as -> by (apply Hinj; [now left|exact Hin|cbn; lia]). reflexivity.
  - destruct Hin as [->|Hin]; [cbn in E; rewrite Z.eqb_refl in E; discriminate|].
    apply IH; [|exact Hin]. intros x y Hx Hy. apply Hinj; now right.
Qed.

(* ---------- first fit and the end-of-table fallback ---------- *)
Lemma first_fit_some cands a ps mn mx base : first_fit cands a ps mn mx = Some base ->
  exists i, In i cands /\ base = i - mn /\ ~ In i (a_taken a) /\ ~ In base (a_used_base a) /\
            ~ In (base + mx) (a_taken a) /\ forall p, In p (tl ps) -> ~ In (base + fst p) (a_taken a).
Proof.
  induction cands as [|i rest IH]; cbn [first_fit]; [discriminate|].
  destruct (memz i (a_taken a)) eqn:E1.
  { intro H. destruct (IH H) as [j [Hj Hr]]. exists j. split; [now right|exact Hr]. }
  destruct (memz (i - mn) (a_used_base a) || memz (i - mn + mx) (a_taken a)) eqn:E2.
  { intro H. destruct (IH H) as [j [Hj Hr]]. exists j. split; [now right|exact Hr]. }
  destruct (existsb (fun p => memz (i - mn + fst p) (a_taken a)) (tl ps)) eqn:E3.
  { intro H. destruct (IH H) as [j [Hj Hr]]. exists j. split; [now right|exact Hr]. }
  intros [= <-]. exists i. apply orb_false_iff in E2. destruct E2 as [E2 E2'].
  split; [now left|]. split; [reflexivity|].
  split; [now apply memz_nIn|]. split; [now apply memz_nIn|]. split; [now apply memz_nIn|].
  intros p Hp. apply memz_nIn.
  destruct (memz (i - mn + fst p) (a_taken a)) eqn:E4; [|reflexivity].
  assert (existsb (fun p => memz (i - mn + fst p) (a_taken a)) (tl ps) = true)
    by (apply existsb_exists; exists p; split; assumption). congruence.
Qed.

Lemma filter_ge_lt (used : list Z) (b : Z) : In b used ->
  (length (filter (fun u => (b + 1 <=? u)%Z) used) < length (filter (fun u => (b <=? u)%Z) used))%nat.
Proof.
  induction used as [|u used IH]; intro Hin; [contradiction|]. cbn [filter].
  assert (Hle : (length (filter (fun u => (b + 1 <=? u)%Z) used) <= length (filter (fun u => (b <=? u)%Z) used))%nat).
  { clear. induction used as [|u used IH]; [cbn; lia|]. cbn [filter].
    destruct (b + 1 <=? u) eqn:E1, (b <=? u) eqn:E2; cbn [length]; lia. }
  destruct Hin as [->|Hin].
  - destruct (b + 1 <=? b) eqn:E1; [lia|]. destruct (b <=? b) eqn:E2; [|lia]. cbn [length]. lia.
  - specialize (IH Hin). destruct (b + 1 <=? u) eqn:E1, (b <=? u) eqn:E2; cbn [length]; lia.
Qed.

Lemma free_base_spec (used : list Z) : forall fuel (b : Z),
  (length (filter (fun u => (b <=? u)%Z) used) < fuel)%nat ->
  b <= free_base fuel used b /\ ~ In (free_base fuel used b) used.
Proof.
  induction fuel as [|f IH]; intros b H; [lia|]. cbn [free_base].
  destruct (memz b used) eqn:E.
  - apply memz_In in E. pose proof (filter_ge_lt used b E).
    destruct (IH (b + 1)) as [H1 H2]; [lia|]. split; [lia|exact H2].
  - apply memz_nIn in E. split; [lia|exact E].
Qed.

Lemma filter_length_le' {A} (f : A -> bool) l : (length (filter f l) <= length l)%nat.
Proof. induction l as [|x l IH]; cbn; [lia|]. destruct (f x); cbn; lia. Qed.

Lemma free_base_ok used b :
  b <= free_base (S (length used)) used b /\ ~ In (free_base (S (length used)) used b) used.
Proof. apply free_base_spec. pose proof (filter_length_le' (fun u => b <=? u) used). lia. Qed.

(* ---------- the allocator invariant ---------- *)
Definition owns (fresh : list (list pair * Z)) (c p v : Z) : Prop :=
  exists L b, In (L, b) fresh /\ In (p, v) L /\ c = b + p.

Record Inv (a : alloc) (fresh : list (list pair * Z)) : Prop := {
  I_nodup : NoDup (map snd fresh);                                 (* distinct lines, distinct bases *)
  I_used  : forall b, In b (a_used_base a) <-> In b (map snd fresh);
  I_taken : forall c, In c (a_taken a) <-> exists p v, owns fresh c p v;
  I_range : forall c, In c (a_taken a) -> 0 <= c < a_size a;
  I_cell  : forall c p v, owns fresh c p v -> cell (a_cells a) c = (v, p + 1);
  I_free  : forall c, ~ In c (a_taken a) -> cell (a_cells a) c = (0, 0);
  I_prev  : forall h len b, prev_lookup (a_prev a) h len = Some b ->
              exists L, In (L, b) fresh /\ zlength (map fst L) = len;
  I_wf    : forall L b, In (L, b) fresh -> wf_line L;
  I_size  : 0 <= a_size a;
  I_base  : forall L b, In (L, b) fresh -> 0 <= b + first_pos L
}.

Lemma Inv_init delta : Inv (mkAlloc 0 delta [] [] [] []) [].
Proof.
  constructor; cbn; try tauto; try lia; try discriminate.
  - constructor.
  - intro c. split; [tauto|]. intros [p [v [L [b [[] _]]]]].
  - intros c p v [L [b [[] _]]].
Qed.

Lemma nodup_snd_inj {A} (fresh : list (A * Z)) L L' b :
  NoDup (map snd fresh) -> In (L, b) fresh -> In (L', b) fresh -> L = L'.
Proof.
  induction fresh as [|[L0 b0] fresh IH]; intros Hnd H1 H2; [contradiction|].
  cbn [map snd] in Hnd. apply NoDup_cons_iff in Hnd. destruct Hnd as [Hnot Hnd'].
  destruct H1 as [E1|H1], H2 as [E2|H2].
  - congruence.
  - injection E1 as E1 E1'. subst. exfalso. apply Hnot. apply in_map_iff. now exists (L', b).
  - injection E2 as E2 E2'. subst. exfalso. apply Hnot. apply in_map_iff. now exists (L, b).
  - exact (IH Hnd' H1 H2).
Qed.

(* what the invariant says about reading a line back *)
Lemma inv_decode a fresh L b : Inv a fresh -> In (L, b) fresh -> forall p, 0 <= p ->
  (forall v, In (p, v) L -> 0 <= b + p < a_size a /\ cell (a_cells a) (b + p) = (v, p + 1)) /\
  ((forall v, ~ In (p, v) L) -> snd (cell (a_cells a) (b + p)) <> p + 1).
Proof.
  intros HI Hin p Hp. split.
  - intros v Hv. assert (Ho : owns fresh (b + p) p v) by (exists L, b; auto).
    split; [|exact (I_cell _ _ HI _ _ _ Ho)].
    apply (I_range _ _ HI). apply (I_taken _ _ HI). now exists p, v.
  - intros Hno Heq.
    destruct (in_dec Z.eq_dec (b + p) (a_taken a)) as [Ht|Ht].
    + apply (I_taken _ _ HI) in Ht. destruct Ht as [p' [v' Ho]].
      pose proof (I_cell _ _ HI _ _ _ Ho) as Hc. rewrite Hc in Heq. cbn in Heq.
      destruct Ho as [L' [b' [HL' [Hpv Hcb]]]].
      assert (p' = p) by lia. subst p'. assert (b' = b) by lia. subst b'.
      assert (L' = L) by (eapply nodup_snd_inj; [exact (I_nodup _ _ HI)|eassumption|eassumption]).
      subst L'. exact (Hno v' Hpv).
    + rewrite (I_free _ _ HI _ Ht) in Heq. cbn in Heq. lia.
Qed.

(* ---------- one call of place ---------- *)
Definition place_new (a : alloc) (ps : list pair) (base : Z) : alloc :=
  mkAlloc (Z.max (a_size a) (last_pos ps + base + 1)) (a_delta a)
          (map (fun p => base + fst p) ps ++ a_taken a)
          (base :: a_used_base a)
          (((hash_pairs ps, zlength (map fst ps)), base) :: a_prev a)
          (new_cells base (rev ps) ++ a_cells a).

Lemma place_cases a ps a' base : place a ps = (a', base) ->
  (a' = a /\ prev_lookup (a_prev a) (hash_pairs ps) (zlength (map fst ps)) = Some base /\
   first_pos ps + base >= 0 /\ last_pos ps + base < a_size a /\
   forall p, In p ps -> cell (a_cells a) (base + fst p) = (snd p, fst p + 1)) \/
  (a' = place_new a ps base /\
   (first_fit (zseq (a_size a)) a ps (first_pos ps) (last_pos ps) = Some base \/
    base = free_base (S (length (a_used_base a))) (a_used_base a) (a_size a - first_pos ps))).
Proof.
  unfold place.
  set (dd := match prev_lookup (a_prev a) (hash_pairs ps) (zlength (map fst ps)) with
             | Some b => _ | None => None end).
  destruct dd as [b|] eqn:Edd.
  - intros [= <- <-]. left. subst dd.
    destruct (prev_lookup (a_prev a) (hash_pairs ps) (zlength (map fst ps))) as [b0|] eqn:Ep; [|discriminate].
    match type of Edd with (if ?c then _ else _) = _ => destruct c eqn:Ec end; [|discriminate].
    injection Edd as ->. apply andb_true_iff in Ec. destruct Ec as [Ec Ec3].
    apply andb_true_iff in Ec. destruct Ec as [Ec1 Ec2].
    split; [reflexivity|]. split; [reflexivity|]. split; [lia|]. split; [lia|].
    intros p Hp. rewrite forallb_forall in Ec3. specialize (Ec3 p Hp).
    destruct (cell (a_cells a) (b + fst p)) as [v c]. apply andb_true_iff in Ec3.
    destruct Ec3 as [E1 E2]. apply Z.eqb_eq in E1, E2. now subst.
  - clear Edd dd. intro H. right.
    destruct (first_fit (zseq (a_size a)) a ps (first_pos ps) (last_pos ps)) as [b|] eqn:Ef.
    + injection H as <- <-. split; [reflexivity|now left].
    + injection H as <- <-. split; [reflexivity|now right].
Qed.

Lemma wf_line_cells_in ps p : wf_line ps -> In p ps -> p = hd (0, 0) ps \/ In p (tl ps).
Proof. destruct ps as [|x r]; [contradiction|]. intros _ [->|H]; [now left|now right]. Qed.

(* a fresh placement keeps the invariant *)
Lemma place_new_inv a fresh ps base : Inv a fresh -> wf_line ps ->
  ~ In base (a_used_base a) -> 0 <= base + first_pos ps ->
  (forall p, In p ps -> ~ In (base + fst p) (a_taken a)) ->
  Inv (place_new a ps base) ((ps, base) :: fresh).
Proof.
  intros HI [Hne Hinc] Hused Hb Hfree.
  assert (Hinj : forall q q', In q (rev ps) -> In q' (rev ps) -> fst q = fst q' -> q = q').
  { intros q q' Hq Hq'. apply in_rev in Hq, Hq'. exact (inc_from_inj _ _ _ _ Hinc Hq Hq'). }
  assert (Hown : forall c p v, owns ((ps, base) :: fresh) c p v <->
                   (In (p, v) ps /\ c = base + p) \/ owns fresh c p v).
  { intros c p v. split.
    - intros [L [b [[[= <- <-]|Hin] [H1 H2]]]]; [left; auto|right; exists L, b; auto].
    - intros [[H1 H2]|[L [b [Hin [H1 H2]]]]]; [exists ps, base|exists L, b]; cbn; auto. }
  constructor; cbn [place_new a_size a_delta a_taken a_used_base a_prev a_cells].
  - cbn. constructor; [|exact (I_nodup _ _ HI)]. intro H. apply Hused. now apply (I_used _ _ HI).
  - intro b. cbn. rewrite (I_used _ _ HI). tauto.
  - intro c. rewrite in_app_iff, in_map_iff, (I_taken _ _ HI). split.
    + intros [[p [Hc Hp]]|[p [v Ho]]].
      * exists (fst p), (snd p). apply Hown. left. split; [now destruct p|lia].
      * exists p, v. apply Hown. now right.
    + intros [p [v Ho]]. apply Hown in Ho. destruct Ho as [[H1 H2]|Ho].
      * left. exists (p, v). split; [cbn; lia|exact H1].
      * right. now exists p, v.
  - intro c. rewrite in_app_iff, in_map_iff. intros [[p [Hc Hp]]|Hc].
    + pose proof (inc_from_first _ _ _ Hinc Hp). pose proof (inc_from_last _ _ _ Hinc Hp). lia.
    + pose proof (I_range _ _ HI _ Hc). lia.
  - intros c p v Ho. apply Hown in Ho. destruct Ho as [[H1 ->]|Ho].
    + apply cell_prefix_hit; [exact Hinj|now apply -> in_rev].
    + rewrite cell_prefix_miss; [exact (I_cell _ _ HI _ _ _ Ho)|].
      intros q Hq Heq. apply in_rev in Hq. apply (Hfree q Hq). rewrite Heq.
      apply (I_taken _ _ HI). now exists p, v.
  - intros c Hc. rewrite in_app_iff, in_map_iff in Hc.
    rewrite cell_prefix_miss.
    + apply (I_free _ _ HI). intro H. apply Hc. now right.
    + intros q Hq Heq. apply in_rev in Hq. apply Hc. left. now exists q.
  - intros h len b. cbn [prev_lookup].
    destruct ((hash_pairs ps =? h) && (zlength (map fst ps) =? len)) eqn:E.
    + intros [= <-]. apply andb_true_iff in E. destruct E as [_ E]. apply Z.eqb_eq in E.
      exists ps. split; [now left|exact E].
    + intro H. destruct (I_prev _ _ HI _ _ _ H) as [L [H1 H2]]. exists L. split; [now right|exact H2].
  - intros L b [[= <- <-]|Hin]; [split; assumption|exact (I_wf _ _ HI _ _ Hin)].
  - pose proof (I_size _ _ HI). lia.
  - intros L b [[= <- <-]|Hin]; [exact Hb|exact (I_base _ _ HI _ _ Hin)].
Qed.

Lemma first_pos_in ps : ps <> [] -> In (hd (0, 0) ps) ps /\ fst (hd (0, 0) ps) = first_pos ps.
Proof. destruct ps; [congruence|]. intros _. split; [now left|reflexivity]. Qed.

Lemma last_pos_in ps : ps <> [] -> exists p, In p ps /\ fst p = last_pos ps.
Proof.
  intro H. exists (last ps (0, 0)). split; [|reflexivity].
  destruct (exists_last H) as [l [x ->]]. rewrite last_last. apply in_or_app. right. now left.
Qed.

(* the step lemma: every call of place serves its line at the returned base *)
Theorem place_inv a fresh ps a' base : Inv a fresh -> wf_line ps -> place a ps = (a', base) ->
  exists fresh', Inv a' fresh' /\ incl fresh fresh' /\ In (ps, base) fresh'.
Proof.
  intros HI Hwf Hpl. destruct (place_cases _ _ _ _ Hpl) as [[-> [Hprev [Hmn [Hmx Hcells]]]]|[-> Hbase]].
  - (* dedupe: the stored line is this line *)
    exists fresh. split; [exact HI|]. split; [apply incl_refl|].
    destruct (I_prev _ _ HI _ _ _ Hprev) as [L0 [HL0 Hlen]].
    destruct Hwf as [Hne Hinc].
    assert (Hincl : incl ps L0).
    { intros [p v] Hp. specialize (Hcells _ Hp). cbn [fst snd] in Hcells.
      pose proof (inc_from_In _ _ _ Hinc Hp) as Hp0. cbn in Hp0.
      destruct (in_dec Z.eq_dec (base + p) (a_taken a)) as [Ht|Ht].
      - apply (I_taken _ _ HI) in Ht. destruct Ht as [p' [v' Ho]].
        pose proof (I_cell _ _ HI _ _ _ Ho) as Hc. rewrite Hcells in Hc. injection Hc as -> Hp'.
        assert (p' = p) by lia. subst p'.
        destruct Ho as [L' [b' [HL' [Hpv Hcb]]]]. assert (b' = base) by lia. subst b'.
        assert (L' = L0) by (eapply nodup_snd_inj; [exact (I_nodup _ _ HI)|eassumption|eassumption]).
        now subst L'.
      - rewrite (I_free _ _ HI _ Ht) in Hcells. injection Hcells as _ H0. lia. }
    destruct (I_wf _ _ HI _ _ HL0) as [_ Hinc0].
    assert (ps = L0) as ->; [|exact HL0].
    apply (inc_incl_eq L0 ps 0 0 Hinc Hinc0 Hincl).
    unfold zlength in Hlen. rewrite !map_length in Hlen. apply Nat2Z.inj. symmetry. exact Hlen.
  - exists ((ps, base) :: fresh). split; [|split; [now apply incl_tl, incl_refl|now left]].
    pose proof Hwf as [Hne Hinc].
    destruct Hbase as [Hff| ->].
    + destruct (first_fit_some _ _ _ _ _ _ Hff) as [i [Hi [-> [Ht [Hu [_ Htl]]]]]].
      apply in_zseq in Hi.
      apply place_new_inv; [exact HI|exact Hwf|exact Hu|lia|].
      intros p Hp. destruct (wf_line_cells_in _ _ Hwf Hp) as [->|Hp'].
      * destruct (first_pos_in ps Hne) as [_ ->]. now replace (i - first_pos ps + first_pos ps) with i by lia.
      * exact (Htl p Hp').
    + destruct (free_base_ok (a_used_base a) (a_size a - first_pos ps)) as [Hge Hnu].
      pose proof (I_size _ _ HI).
      apply place_new_inv; [exact HI|exact Hwf|exact Hnu|lia|].
      intros p Hp Ht. pose proof (I_range _ _ HI _ Ht). pose proof (inc_from_first _ _ _ Hinc Hp). lia.
Qed.

(* ---------- the stable sort keeps exactly the entries ---------- *)
Lemma insert_desc_In e x l : In x (insert_desc e l) <-> x = e \/ In x l.
Proof.
  induction l as [|y l IH]; cbn [insert_desc].
  - cbn. intuition.
  - destruct (length (snd y) <? length (snd e))%nat; cbn [In]; rewrite ?IH; intuition.
Qed.

Lemma sort_desc_In x l : In x (sort_desc l) <-> In x l.
Proof.
  unfold sort_desc.
  assert (H : forall l acc, In x (fold_left (fun acc e => insert_desc e acc) l acc) <-> In x l \/ In x acc).
  { clear l. induction l as [|e l IH]; intro acc; cbn [fold_left].
    - cbn. tauto.
    - rewrite IH, insert_desc_In. cbn [In]. intuition. }
  rewrite H. cbn. tauto.
Qed.

Lemma in_combine_seq {A} (l : list A) : forall s i x,
  In (i, x) (combine (seq s (length l)) l) <-> (s <= i)%nat /\ nth_error l (i - s) = Some x.
Proof.
  induction l as [|y l IH]; intros s i x; cbn [length seq combine].
  - cbn. split; [tauto|]. intros [_ H]. destruct (i - s)%nat; discriminate.
  - cbn [In]. rewrite IH. split.
    + intros [[= <- <-]|[H1 H2]].
      * split; [lia|]. now replace (s - s)%nat with 0%nat by lia.
      * split; [lia|]. replace (i - s)%nat with (S (i - S s)) by lia. exact H2.
    + intros [H1 H2]. destruct (i - s)%nat as [|k] eqn:E.
      * left. cbn in H2. injection H2 as ->. f_equal. lia.
      * right. split; [lia|]. replace (i - S s)%nat with k by lia. exact H2.
Qed.

(* ---------- the loop of pack ---------- *)
Definition pack_step : alloc * list (nat * Z) -> nat * list pair -> alloc * list (nat * Z) :=
  fun '(a, placed) e => let '(a', base) := place a (snd e) in (a', (fst e, base) :: placed).

Lemma pack_fold (E : list (nat * list pair)) : forall es a placed fresh,
  Inv a fresh -> (forall e, In e es -> In e E /\ wf_line (snd e)) ->
  (forall i b, In (i, b) placed -> exists L, In (i, L) E /\ In (L, b) fresh) ->
  exists fresh', Inv (fst (fold_left pack_step es (a, placed))) fresh' /\
    (forall i b, In (i, b) (snd (fold_left pack_step es (a, placed))) -> exists L, In (i, L) E /\ In (L, b) fresh') /\
    (forall i, In i (map fst placed) \/ In i (map fst es) -> In i (map fst (snd (fold_left pack_step es (a, placed))))).
Proof.
  induction es as [|e es IH]; intros a placed fresh HI Hes Hpl; cbn [fold_left].
  - exists fresh. split; [exact HI|]. split; [exact Hpl|]. cbn. tauto.
  - cbn [pack_step]. destruct (place a (snd e)) as [a1 base] eqn:Epl.
    destruct (Hes e (or_introl eq_refl)) as [HeE Hewf].
    destruct (place_inv _ _ _ _ _ HI Hewf Epl) as [fresh1 [HI1 [Hincl Hin1]]].
    destruct (IH a1 ((fst e, base) :: placed) fresh1 HI1) as [fresh' [H1 [H2 H3]]].
    + intros e' He'. apply Hes. now right.
    + intros i b [[= <- <-]|Hib].
      * exists (snd e). split; [now rewrite <- surjective_pairing|exact Hin1].
      * destruct (Hpl _ _ Hib) as [L [HL1 HL2]]. exists L. split; [exact HL1|exact (Hincl _ HL2)].
    + exists fresh'. split; [exact H1|]. split; [exact H2|].
      intros i Hi. apply H3. cbn [map fst In] in *. tauto.
Qed.

Lemma map_seq_nth' {A} (f : nat -> A) n i d : (i < n)%nat -> nth i (map f (seq 0 n)) d = f i.
Proof.
  intro H. rewrite (nth_indep _ d (f 0%nat)) by (rewrite map_length, seq_length; lia).
  rewrite map_nth, seq_nth by lia. reflexivity.
Qed.

(* pack: every input line is stored at its index and can be read back exactly *)
Theorem pack_correct lines indices table check :
  Forall wf_line lines -> pack lines = (indices, table, check) ->
  length indices = length lines /\ zlength check = zlength table /\
  forall i L, nth_error lines i = Some L ->
    0 <= nth i indices 0 + first_pos L /\
    forall p, 0 <= p ->
      (forall v, In (p, v) L ->
         0 <= nth i indices 0 + p < zlength table /\
         zn check (nth i indices 0 + p) = p /\ zn table (nth i indices 0 + p) = v) /\
      ((forall v, ~ In (p, v) L) -> 0 <= nth i indices 0 + p < zlength table ->
         zn check (nth i indices 0 + p) <> p).
Proof.
  intros Hwf. unfold pack.
  set (E := combine (seq 0 (length lines)) lines).
  set (delta := fold_left _ lines 0).
  change (fold_left _ (sort_desc E) (mkAlloc 0 delta [] [] [] [], []))
    with (fold_left pack_step (sort_desc E) (mkAlloc 0 delta [] [] [] [], [])).
  destruct (pack_fold E (sort_desc E) _ [] [] (Inv_init delta)) as [fresh [HI [Hpl Hall]]].
  { intros e He. rewrite sort_desc_In in He. split; [exact He|].
    destruct e as [i L]. apply in_combine_seq in He. destruct He as [_ He].
    apply nth_error_In in He. rewrite Forall_forall in Hwf. exact (Hwf _ He). }
  { intros i b []. }
  destruct (fold_left pack_step (sort_desc E) (mkAlloc 0 delta [] [] [] [], [])) as [a placed].
  cbn [fst snd] in HI, Hpl, Hall.
  intros [= <- <- <-].
  pose proof (I_size _ _ HI) as Hsz.
  split; [now rewrite map_length, seq_length|].
  assert (Hlt : zlength (map (fun i => fst (cell (a_cells a) i)) (zseq (a_size a))) = a_size a)
    by (unfold zlength; now apply zlength_map_zseq).
  split; [unfold zlength; now rewrite !zlength_map_zseq|].
  intros i L HiL. rewrite Hlt.
  assert (Hi : (i < length lines)%nat) by (apply nth_error_Some; congruence).
  rewrite map_seq_nth' by exact Hi.
  assert (HE : In (i, L) E) by (apply in_combine_seq; split; [lia|now rewrite Nat.sub_0_r]).
  assert (Hfind : exists pb, find (fun pb => Nat.eqb (fst pb) i) placed = Some pb).
  { destruct (find (fun pb => Nat.eqb (fst pb) i) placed) as [pb|] eqn:Ef; [now exists pb|].
    exfalso. assert (Hin : In i (map fst placed)).
    { apply Hall. right. apply in_map_iff. exists (i, L). split; [reflexivity|now apply sort_desc_In]. }
    apply in_map_iff in Hin. destruct Hin as [pb [Hpb1 Hpb2]].
    pose proof (find_none _ _ Ef _ Hpb2) as Hf. cbn in Hf. rewrite Hpb1, Nat.eqb_refl in Hf. discriminate. }
  destruct Hfind as [[i' b] Hfind]. rewrite Hfind. cbn [snd].
  apply find_some in Hfind. destruct Hfind as [Hin Heq]. cbn in Heq. apply Nat.eqb_eq in Heq. subst i'.
  destruct (Hpl _ _ Hin) as [L' [HL'1 HL'2]].
  assert (L' = L).
  { apply in_combine_seq in HL'1. destruct HL'1 as [_ HL'1]. rewrite Nat.sub_0_r in HL'1. congruence. }
  subst L'. split; [exact (I_base _ _ HI _ _ HL'2)|].
  intros p Hp. destruct (inv_decode _ _ _ _ HI HL'2 p Hp) as [D1 D2]. split.
  - intros v Hv. destruct (D1 v Hv) as [Hr Hc]. split; [exact Hr|].
    rewrite !zn_map_zseq by exact Hr. rewrite Hc. cbn. split; [lia|reflexivity].
  - intros Hno Hr. rewrite zn_map_zseq by exact Hr. specialize (D2 Hno). lia.
Qed.
