(* C02/C20: the listener events of the generated parser (go_parser.go.tmpl: parse loop, applyRule,
   fixTrailingWS, reportRange) as an extension of the loop of Run.v, carrying the derivation forest on
   the stack; and the specification of the events of a derivation tree (post-order list of the arrow
   annotations, each spanning the first to the last token of its part, empty parts at the following token).
   Executable definitions only. *)
From Coq Require Import List ZArith Bool Arith.
From TM Require Import Gram.PTables Gram.Run.
Import ListNotations.
Local Open Scope Z_scope.

Inductive tree := TLeaf (sym off endoff : Z) | TNode (rule : Z) (children : list tree).

(* what generateTables leaves per rule: default node type (0 = none), explicit reports (start, end, type)
   in emission order, and grammar.HasTrailingNulls *)
Record ev_rule := mkEvRule { er_type : Z; er_reports : list (nat * nat * Z); er_trailing_nulls : bool }.
Definition ev_table := list ev_rule.
Definition ev_at (t : ev_table) (r : Z) : ev_rule := nth (Z.to_nat r) t (mkEvRule 0 [] false).

Definition event := (Z * Z * Z)%type.     (* node type, offset, endoffset *)

Record xentry := mkX { x_sym : Z; x_off : Z; x_end : Z; x_state : Z; x_tree : tree }.
Definition xdummy := mkX 0 0 0 0 (TLeaf 0 0 0).

Definition range := (Z * Z)%type.          (* (offset, endoffset) of a stack entry *)
Definition rdummy : range := (0, 0).
Definition is_empty (r : range) : bool := fst r =? snd r.
Definition range_of (e : xentry) : range := (x_off e, x_end e).

(* fixTrailingWS(lhs, rhs): end offset of the last non-empty entry, if any (argument: rhs reversed) *)
Fixpoint last_nonempty_end (rhs_rev : list range) : option Z :=
  match rhs_rev with
  | [] => None
  | r :: rest => if is_empty r then last_nonempty_end rest else Some (snd r)
  end.
Definition fix_trailing (rhs : list range) (off endoff : Z) : Z :=
  match rhs with
  | [] => endoff
  | _ => match last_nonempty_end (rev rhs) with Some e => e | None => off end
  end.

(* reportRange(rhs): drop trailing empty entries while more than one remains (argument reversed) *)
Fixpoint trim_trailing (rhs_rev : list range) : list range :=
  match rhs_rev with
  | r :: (_ :: _) as rest => if is_empty r then trim_trailing rest else rhs_rev
  | _ => rhs_rev
  end.
Definition report_range (part : list range) : range :=
  (fst (hd rdummy part), snd (hd rdummy (trim_trailing (rev part)))).

Definition report_event (fixws : bool) (rhs : list range) (rep : nat * nat * Z) : event :=
  let '(s, e, ty) := rep in
  if Nat.eqb s e then (ty, fst (nth e rhs rdummy), fst (nth e rhs rdummy))
  else if fixws then let '(o, en) := report_range (firstn (e - s) (skipn s rhs)) in (ty, o, en)
  else (ty, fst (nth s rhs rdummy), snd (nth (e - 1) rhs rdummy)).

(* applyRule: events of one reduction and the (possibly corrected) end offset of the new entry;
   rhs = ranges of the right-hand side entries in source order *)
Definition apply_rule (fixws : bool) (er : ev_rule) (rhs : list range) (off endoff : Z) : list event * Z :=
  let endoff' := if fixws && er_trailing_nulls er then fix_trailing rhs off endoff else endoff in
  let evs := map (report_event fixws rhs) (er_reports er) in
  (evs ++ (if er_type er =? 0 then [] else [(er_type er, off, endoff')]), endoff').

(* offsets of the new entry before applyRule: first entry's start, last entry's end; an empty rule sits at
   the next token *)
Definition lhs_range (rhs : list range) (next_off : Z) : range :=
  match rhs with
  | [] => (next_off, next_off)
  | first :: _ => (fst first, snd (last rhs rdummy))
  end.

Record xconfig := mkXC {
  xc_stack : list xentry;       (* top first *)
  xc_state : Z;
  xc_input : list tok;
  xc_events : list event        (* in emission order *)
}.

Inductive xstep_result := XContinue (c : xconfig) | XStop (o : outcome).

Definition xstep (m : machine) (evt : ev_table) (fixws : bool) (eoi_off : Z) (c : xconfig) : xstep_result :=
  let nx := next_tok eoi_off (xc_input c) in
  match m_act m (xc_state c) (t_sym nx) (map t_sym (tl (xc_input c))) with
  | Reduce rule =>
      let ln := Z.to_nat (m_rule_len m rule) in
      if (length (xc_stack c) <=? ln)%nat then XStop (Crash 1)
      else
        let rhs := rev (firstn ln (xc_stack c)) in        (* source order *)
        let rest := skipn ln (xc_stack c) in
        let '(off, endoff) := lhs_range (map range_of rhs) (t_off nx) in
        let '(evs, endoff') := apply_rule fixws (ev_at evt rule) (map range_of rhs) off endoff in
        let below := match rest with b :: _ => x_state b | [] => -1 end in
        let sym := m_rule_sym m rule in
        let st := m_goto m below sym in
        if st =? -1 then XStop (SyntaxError (t_off nx) (t_end nx) 0)
        else XContinue (mkXC (mkX sym off endoff' st (TNode rule (map x_tree rhs)) :: rest) st (xc_input c)
                             (xc_events c ++ evs))
  | Shift st =>
      let input' := if t_sym nx =? 0 then xc_input c else tl (xc_input c) in
      XContinue (mkXC (mkX (t_sym nx) (t_off nx) (t_end nx) st (TLeaf (t_sym nx) (t_off nx) (t_end nx)) :: xc_stack c)
                      st input' (xc_events c))
  | _ => XStop (SyntaxError (t_off nx) (t_end nx) 0)
  end.

Fixpoint xrun_loop (fuel : nat) (m : machine) (evt : ev_table) (fixws : bool) (eoi_off end_state : Z) (c : xconfig)
  : outcome * xconfig :=
  match fuel with
  | O => (OutOfFuel, c)
  | S f =>
      if xc_state c =? end_state then (Accept, c)
      else match xstep m evt fixws eoi_off c with
           | XContinue c' => xrun_loop f m evt fixws eoi_off end_state c'
           | XStop o => (o, c)
           end
  end.

Definition xrun (fuel : nat) (m : machine) (evt : ev_table) (fixws : bool) (start end_state eoi_off : Z) (input : list tok)
  : outcome * xconfig :=
  xrun_loop fuel m evt fixws eoi_off end_state (mkXC [mkX 0 0 0 start (TLeaf 0 0 0)] start input []).

(* ================= specification ================= *)
(* token ranges of the leaves of a tree, in order *)
Fixpoint leaves (t : tree) : list (Z * Z) :=
  match t with
  | TLeaf _ o e => [(o, e)]
  | TNode _ ch => (fix go (l : list tree) := match l with [] => [] | c :: r => leaves c ++ go r end) ch
  end.
Definition forest_leaves (l : list tree) : list (Z * Z) := flat_map leaves l.

(* first to last token; an empty part sits at the token that follows it *)
Definition span_of (ls : list (Z * Z)) (after : Z) : Z * Z :=
  match ls with
  | [] => (after, after)
  | (o, _) :: _ => (o, snd (last ls (0, 0)))
  end.

Definition start_of (l : list tree) (after : Z) : Z := fst (span_of (forest_leaves l) after).

(* arrows of a source rule: (start, end, node type) over its right-hand side positions, inner arrows first,
   the arrow of the whole rule last *)
Definition arrow_table := list (list (nat * nat * Z)).
Definition arrows_at (t : arrow_table) (r : Z) : list (nat * nat * Z) := nth (Z.to_nat r) t [].

Definition arrow_event (ch : list tree) (after : Z) (a : nat * nat * Z) : event :=
  let '(s, e, ty) := a in
  let part := firstn (e - s) (skipn s ch) in
  let '(o, en) := span_of (forest_leaves part) (start_of (skipn e ch) after) in
  (ty, o, en).

Fixpoint spec_events (arrows : arrow_table) (t : tree) (after : Z) : list event :=
  match t with
  | TLeaf _ _ _ => []
  | TNode r ch =>
      (fix go (l : list tree) : list event :=
         match l with
         | [] => []
         | c :: rest => spec_events arrows c (start_of rest after) ++ go rest
         end) ch
      ++ map (arrow_event ch after) (arrows_at arrows r)
  end.

(* the arrows that a rule's reports and default type stand for *)
Definition arrows_of_ev (rule_len : Z -> Z) (evt : ev_table) : arrow_table :=
  map (fun '(i, er) => er_reports er ++ (if er_type er =? 0 then [] else [(O, Z.to_nat (rule_len (Z.of_nat i)), er_type er)]))
      (combine (seq 0 (length evt)) evt).

(* boolean form of the well-formedness hypothesis of the C02 theorems (Events_strict.wf_tree) *)
Definition report_okb (n : nat) (rep : nat * nat * Z) : bool :=
  let '(s, e, _) := rep in (s <=? e)%nat && (e <=? n)%nat && (negb (Nat.eqb s e) || (e <? n)%nat).

Fixpoint wf_treeb (evt : ev_table) (rl : Z -> Z) (t : tree) : bool :=
  match t with
  | TLeaf _ _ _ => true
  | TNode r ch =>
      (0 <=? r) && Nat.eqb (Z.to_nat (rl r)) (length ch) &&
      forallb (report_okb (length ch)) (er_reports (ev_at evt r)) &&
      (er_trailing_nulls (ev_at evt r) ||
       match ch with [] => true | _ => match leaves (last ch (TLeaf 0 0 0)) with [] => false | _ => true end end) &&
      (fix go (l : list tree) : bool := match l with [] => true | c :: rest => wf_treeb evt rl c && go rest end) ch
  end.
