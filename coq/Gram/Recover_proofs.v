(* C19: transparency of error recovery on accepted inputs, termination of the recovery loop, and the reported
   error positions (tokens of the input, in non-decreasing order). *)
From Coq Require Import List ZArith Bool Arith Lia.
From TM Require Import Gram.PTables Gram.Run Gram.Events Gram.Recover.
Import ListNotations.
Local Open Scope Z_scope.

Section R.
Variable p : rparams.
Variable eh : nat -> bool.

Notation xs := (xstep (rp_m p) (rp_evt p) (rp_fixws p) (rp_eoi_off p)).

(* a step of the plain loop is a step of the recovering loop: recovery code is not reached *)
Lemma rstep_plain x x' r errs l : xs x = XContinue x' ->
  exists r', rstep p eh (mkRC x r errs l) = RContinue (mkRC x' r' errs l) /\ (r = 0 -> r' = 0).
Proof.
  unfold xstep, rstep. simpl rc_x.
  destruct (m_act (rp_m p) (xc_state x) _ _) as [q|rule| |row]; try discriminate.
  - intros E. injection E as <-. eexists. split; [reflexivity|]. intros ->. reflexivity.
  - destruct (_ <=? _)%nat; [discriminate|].
    destruct (lhs_range _ _) as [off endoff]. destruct (apply_rule _ _ _ _ _) as [evs endoff'].
    destruct (_ =? -1); [discriminate|]. intros E. injection E as <-. exists r. split; [reflexivity|auto].
Qed.

Lemma xstep_stop_not_accept x : xs x <> XStop Accept.
Proof.
  unfold xstep. destruct (m_act (rp_m p) (xc_state x) _ _) as [q|rule| |row]; try discriminate.
  destruct (_ <=? _)%nat; [discriminate|].
  destruct (lhs_range _ _) as [off endoff]. destruct (apply_rule _ _ _ _ _) as [evs endoff'].
  destruct (_ =? -1); discriminate.
Qed.

(* On every input the plain loop accepts, the recovering loop accepts too, with the same stack, the same events
   and without calling the error handler. *)
Theorem recovery_transparent f : forall x x' l,
  xrun_loop f (rp_m p) (rp_evt p) (rp_fixws p) (rp_eoi_off p) (rp_end p) x = (Accept, x') ->
  exists c', rrun_loop f p eh (mkRC x 0 [] l) = (RAccept, c') /\ rc_x c' = x' /\ rc_errors c' = [].
Proof.
  induction f as [|f IH]; intros x x' l; simpl; [discriminate|].
  destruct (xc_state x =? rp_end p).
  - intros E. injection E as <-. eexists. split; [reflexivity|]. split; reflexivity.
  - destruct (xs x) as [x1|o1] eqn:Es; [|intros E; injection E as -> _; exfalso; exact (xstep_stop_not_accept _ Es)].
    intros E. destruct (rstep_plain _ _ 0 [] l Es) as (r' & Hr & Hz). rewrite Hr, (Hz eq_refl). apply IH. exact E.
Qed.

(* ---- the recovery loop terminates ---- *)
Lemma skip_broken_suffix syms input e : exists pre, input = pre ++ snd (skip_broken syms input e).
Proof.
  revert e. induction input as [|t rest IH]; intros e; simpl; [exists []; reflexivity|].
  destruct ((t_sym t =? 0) || can_recover syms (t_sym t)); [exists []; reflexivity|].
  destruct (IH (t_end t)) as (pre & E). exists (t :: pre). simpl. f_equal. exact E.
Qed.

Lemma skip_broken_head syms input e : match snd (skip_broken syms input e) with
  | t :: _ => (t_sym t =? 0) || can_recover syms (t_sym t) = true
  | [] => True end.
Proof.
  revert e. induction input as [|t rest IH]; intros e; simpl; [exact I|].
  destruct ((t_sym t =? 0) || can_recover syms (t_sym t)) eqn:E; [simpl; exact E|apply IH].
Qed.

Lemma filter_len_le {A} (f : A -> bool) l : (length (filter f l) <= length l)%nat.
Proof. induction l as [|x l IH]; simpl; [lia|]. destruct (f x); simpl; lia. Qed.

Lemma rm_sym_length s l : can_recover l s = true -> (length (rm_sym s l) < length l)%nat.
Proof.
  unfold can_recover, rm_sym. induction l as [|x l IH]; simpl; [discriminate|].
  destruct (s =? x) eqn:E.
  - intros _. apply Z.eqb_eq in E. subst. rewrite Z.eqb_refl. simpl.
    pose proof (filter_len_le (fun x0 => negb (x0 =? x)) l). lia.
  - simpl. intros H. specialize (IH H). rewrite Z.eqb_sym in E. rewrite E. simpl. lia.
Qed.

(* the fuel recover_from_error passes is enough: the loop never runs out of it *)
Lemma recover_loop_fuel fuel : forall stack positions syms input s e,
  (length syms < fuel)%nat -> recover_loop fuel p stack positions syms input s e <> RecFuel.
Proof.
  induction fuel as [|f IH]; intros stack positions syms input s e Hf; [lia|]. simpl.
  destruct (skip_broken syms input 0) as [e1 input1] eqn:Esk.
  pose proof (skip_broken_head syms input 0) as Hhead. rewrite Esk in Hhead. simpl in Hhead.
  destruct (find_match p positions _ _) as [[st|]|]; try discriminate.
  - destruct (length stack - length st)%nat; [discriminate|]. destruct (s =? _); discriminate.
  - destruct (t_sym (next_tok (rp_eoi_off p) input1) =? 0) eqn:E0; [discriminate|].
    apply IH.
    destruct input1 as [|t rest]; [simpl in E0; discriminate|]. simpl in E0. simpl.
    rewrite E0 in Hhead. simpl in Hhead. pose proof (rm_sym_length _ _ Hhead). lia.
Qed.

Theorem recover_terminates stack input : recover_from_error p stack input <> RecFuel.
Proof.
  unfold recover_from_error. destruct (recover_positions p stack); [discriminate|].
  apply recover_loop_fuel. lia.
Qed.

(* ---- reported error positions ---- *)
Definition is_suffix {A} (a b : list A) : Prop := exists pre, b = pre ++ a.

Lemma is_suffix_refl {A} (a : list A) : is_suffix a a.
Proof. exists []. reflexivity. Qed.
Lemma is_suffix_trans {A} (a b c : list A) : is_suffix a b -> is_suffix b c -> is_suffix a c.
Proof. intros (p1 & ->) (p2 & ->). exists (p2 ++ p1). rewrite app_assoc. reflexivity. Qed.
Lemma is_suffix_tl {A} (a : list A) : is_suffix (tl a) a.
Proof. destruct a as [|x a]; [exists []; reflexivity|exists [x]; reflexivity]. Qed.

Lemma recover_loop_suffix fuel : forall stack positions syms input s e st inp',
  recover_loop fuel p stack positions syms input s e = RecOk st inp' -> is_suffix inp' input.
Proof.
  induction fuel as [|f IH]; intros stack positions syms input s e st inp'; simpl; [discriminate|].
  destruct (skip_broken syms input 0) as [e1 input1] eqn:Esk.
  pose proof (skip_broken_suffix syms input 0) as Hsuf. rewrite Esk in Hsuf. simpl in Hsuf.
  destruct (find_match p positions _ _) as [[st1|]|]; try discriminate.
  - destruct (length stack - length st1)%nat.
    + intros E. injection E as _ <-. exact Hsuf.
    + destruct (s =? _); intros E; injection E as _ <-; exact Hsuf.
  - destruct (_ =? 0); [discriminate|]. intros E. apply IH in E. eapply is_suffix_trans; eauto.
Qed.

Lemma recover_loop_fail_suffix fuel : forall stack positions syms input s e inp',
  recover_loop fuel p stack positions syms input s e = RecFail inp' -> is_suffix inp' input.
Proof.
  induction fuel as [|f IH]; intros stack positions syms input s e inp'; simpl; [discriminate|].
  destruct (skip_broken syms input 0) as [e1 input1] eqn:Esk.
  pose proof (skip_broken_suffix syms input 0) as Hsuf. rewrite Esk in Hsuf. simpl in Hsuf.
  destruct (find_match p positions _ _) as [[st1|]|]; try discriminate.
  - destruct (length stack - length st1)%nat; [discriminate|]. destruct (s =? _); discriminate.
  - destruct (_ =? 0).
    + intros E. injection E as <-. exact Hsuf.
    + intros E. apply IH in E. eapply is_suffix_trans; eauto.
Qed.

(* every step leaves a suffix of the input, and only adds errors located at the current next token *)
Definition next_range (input : list tok) : Z * Z :=
  let nx := next_tok (rp_eoi_off p) input in (t_off nx, t_end nx).

Lemma rstep_input c r : rstep p eh c = r ->
  let c' := match r with RContinue c' => c' | RStop _ c' => c' end in
  is_suffix (xc_input (rc_x c')) (xc_input (rc_x c)) /\
  (rc_errors c' = rc_errors c \/ rc_errors c' = rc_errors c ++ [next_range (xc_input (rc_x c))]).
Proof.
  intros <-. unfold rstep.
  assert (Hh : forall c0 stack events, xc_input (rc_x c0) = xc_input (rc_x c) -> rc_errors c0 = rc_errors c ->
     let r := handle_error p eh c0 stack events in
     let c' := match r with RContinue c' => c' | RStop _ c' => c' end in
     is_suffix (xc_input (rc_x c')) (xc_input (rc_x c)) /\
     (rc_errors c' = rc_errors c \/ rc_errors c' = rc_errors c ++ [next_range (xc_input (rc_x c))])).
  { intros c0 stack events Hi He. unfold handle_error. rewrite Hi, He. unfold next_range.
    destruct (rc_recovering c0 =? 0); cbn [andb].
    - destruct (negb (eh _)); [simpl; split; [apply is_suffix_refl|right; reflexivity]|].
      unfold recover_from_error.
      destruct (recover_positions p stack) as [|pos0 positions] eqn:Epos.
      + simpl. split; [apply is_suffix_refl|right; reflexivity].
      + destruct (recover_loop _ p stack (pos0 :: positions) _ _ _ _) as [st inp'|inp'| |] eqn:Erl; simpl.
        * split; [eapply recover_loop_suffix; eauto|right; reflexivity].
        * split; [eapply recover_loop_fail_suffix; eauto|right; reflexivity].
        * split; [apply is_suffix_refl|right; reflexivity].
        * split; [apply is_suffix_refl|right; reflexivity].
    - unfold recover_from_error.
      destruct (recover_positions p stack) as [|pos0 positions] eqn:Epos.
      + simpl. split; [apply is_suffix_refl|left; reflexivity].
      + destruct (recover_loop _ p stack (pos0 :: positions) _ _ _ _) as [st inp'|inp'| |] eqn:Erl; simpl.
        * split; [eapply recover_loop_suffix; eauto|left; reflexivity].
        * split; [eapply recover_loop_fail_suffix; eauto|left; reflexivity].
        * split; [apply is_suffix_refl|left; reflexivity].
        * split; [apply is_suffix_refl|left; reflexivity]. }
  destruct (m_act (rp_m p) _ _ _) as [q|rule| |row].
  - simpl. split; [|left; reflexivity]. destruct (_ =? 0); [apply is_suffix_refl|apply is_suffix_tl].
  - destruct (_ <=? _)%nat; [simpl; split; [apply is_suffix_refl|left; reflexivity]|].
    destruct (lhs_range _ _) as [off endoff]. destruct (apply_rule _ _ _ _ _) as [evs endoff'].
    destruct (_ =? -1).
    + apply Hh; reflexivity.
    + simpl. split; [apply is_suffix_refl|left; reflexivity].
  - apply Hh; reflexivity.
  - apply Hh; reflexivity.
Qed.

Fixpoint sorted_offs (l : list tok) : Prop :=
  match l with
  | [] => True
  | t :: rest => t_off t <= t_off (next_tok (rp_eoi_off p) rest) /\ sorted_offs rest
  end.

Lemma sorted_suffix pre l : sorted_offs (pre ++ l) ->
  sorted_offs l /\ t_off (next_tok (rp_eoi_off p) (pre ++ l)) <= t_off (next_tok (rp_eoi_off p) l).
Proof.
  induction pre as [|t pre IH]; simpl; intros H; [split; [exact H|lia]|].
  destruct H as [H1 H2]. destruct (IH H2) as [H3 H4]. split; [exact H3|]. lia.
Qed.

Fixpoint nondecreasing (l : list Z) : Prop :=
  match l with
  | a :: (b :: _) as rest => a <= b /\ nondecreasing rest
  | _ => True
  end.

Lemma nondecreasing_snoc l x : nondecreasing l -> (forall y, In y l -> y <= x) -> nondecreasing (l ++ [x]).
Proof.
  induction l as [|a l IH]; intros Hn Hle; [exact I|].
  destruct l as [|b l']; simpl; [split; [apply Hle; left; reflexivity|exact I]|].
  simpl in Hn. destruct Hn as [H1 H2]. split; [exact H1|].
  apply IH; [exact H2|]. intros y Hy. apply Hle. right. exact Hy.
Qed.

(* the invariant: the remaining input is a suffix of the whole input, every reported error is the range of a
   token of the input (or of the end-of-input token), error offsets are non-decreasing and not beyond the next token *)
Definition in_tokens (input0 : list tok) (r : Z * Z) : Prop :=
  r = (rp_eoi_off p, rp_eoi_off p) \/ exists t, In t input0 /\ r = (t_off t, t_end t).

Definition einv (input0 : list tok) (c : rconfig) : Prop :=
  is_suffix (xc_input (rc_x c)) input0 /\
  Forall (in_tokens input0) (rc_errors c) /\
  nondecreasing (map fst (rc_errors c)) /\
  (forall e, In e (rc_errors c) -> fst e <= t_off (next_tok (rp_eoi_off p) (xc_input (rc_x c)))).

Lemma next_range_in_tokens input0 inp : is_suffix inp input0 -> in_tokens input0 (next_range inp).
Proof.
  intros (pre & ->). unfold next_range. destruct inp as [|t rest]; simpl; [left; reflexivity|].
  right. exists t. split; [apply in_or_app; right; left; reflexivity|reflexivity].
Qed.

Lemma rstep_einv input0 c r : sorted_offs input0 -> einv input0 c -> rstep p eh c = r ->
  einv input0 (match r with RContinue c' => c' | RStop _ c' => c' end).
Proof.
  intros Hsorted (Hsuf & Hin & Hnd & Hle) Hr.
  destruct (rstep_input c r Hr) as [Hs Herr]. cbv zeta in Hs, Herr.
  set (c' := match r with RContinue c' => c' | RStop _ c' => c' end) in *.
  assert (Hsuf' : is_suffix (xc_input (rc_x c')) input0) by (eapply is_suffix_trans; eauto).
  assert (Hmono : t_off (next_tok (rp_eoi_off p) (xc_input (rc_x c))) <= t_off (next_tok (rp_eoi_off p) (xc_input (rc_x c')))).
  { destruct Hs as (pre & E). destruct Hsuf as (pre0 & E0). rewrite E0, E in Hsorted.
    apply sorted_suffix in Hsorted. destruct Hsorted as [Hs1 _]. apply sorted_suffix in Hs1. destruct Hs1 as [_ H]. rewrite E. exact H. }
  split; [exact Hsuf'|].
  destruct Herr as [E|E]; rewrite E.
  - split; [exact Hin|]. split; [exact Hnd|]. intros e He. specialize (Hle e He). lia.
  - split; [apply Forall_app; split; [exact Hin|constructor; [apply next_range_in_tokens; exact Hsuf|constructor]]|].
    split.
    + rewrite map_app. simpl. apply nondecreasing_snoc; [exact Hnd|].
      intros y Hy. apply in_map_iff in Hy. destruct Hy as (e & <- & He). apply Hle. exact He.
    + intros e He. apply in_app_or in He. destruct He as [He|[<-|[]]]; [specialize (Hle e He); lia|exact Hmono].
Qed.

(* For every input whose token offsets are non-decreasing, every error handler and every fuel: the errors
   reported to the handler are ranges of tokens of the input (or of the end-of-input token), in non-decreasing
   order of offset. *)
Theorem errors_in_input_and_ordered f : forall input0 c o c', sorted_offs input0 -> einv input0 c ->
  rrun_loop f p eh c = (o, c') -> einv input0 c'.
Proof.
  induction f as [|f IH]; intros input0 c o c' Hs Hinv; simpl.
  - intros E. injection E as _ <-. exact Hinv.
  - destruct (_ =? rp_end p); [intros E; injection E as _ <-; exact Hinv|].
    destruct (rstep p eh c) as [c1|o1 c1] eqn:Es.
    + intros E. eapply IH; [exact Hs| |exact E]. exact (rstep_einv input0 c _ Hs Hinv Es).
    + intros E. injection E as _ <-. exact (rstep_einv input0 c _ Hs Hinv Es).
Qed.

Lemma einv_init start input0 : einv input0 (mkRC (mkXC [mkX 0 0 0 start (TLeaf 0 0 0)] start input0 []) 0 [] (0, 0)).
Proof. split; [apply is_suffix_refl|]. split; [constructor|]. split; [exact I|]. intros e []. Qed.

End R.
