(* C06, part 1: facts about first-occurrence numbering (container.IntSliceSet.Insert / Minimize.number_all). *)
From Coq Require Import List ZArith Bool Lia.
From TM Require Import Lib.ListX Gram.PTables Gram.Optimize Gram.Run Gram.Minimize Gram.Minimize_proofs.
Import ListNotations.
Local Open Scope Z_scope.

(* ---------- zn / zseq basics ---------- *)
Lemma zn_nth l i : 0 <= i -> zn l i = nth (Z.to_nat i) l (-1000000).
Proof. intro H. unfold zn. destruct (i <? 0) eqn:E; [lia|reflexivity]. Qed.

Lemma zn_nth_d l i d : 0 <= i < Z.of_nat (length l) -> zn l i = nth (Z.to_nat i) l d.
Proof. intro H. rewrite zn_nth by lia. apply nth_indep. lia. Qed.

Lemma zn_of_nat l k d : (k < length l)%nat -> zn l (Z.of_nat k) = nth k l d.
Proof. intro H. rewrite (zn_nth_d l _ d) by lia. now rewrite Nat2Z.id. Qed.

Lemma zseq_length n : length (zseq n) = Z.to_nat n.
Proof. unfold zseq. now rewrite map_length, seq_length. Qed.

Lemma zseq_nth n k d : (k < Z.to_nat n)%nat -> nth k (zseq n) d = Z.of_nat k.
Proof.
  intro H. unfold zseq. rewrite (nth_indep _ d (Z.of_nat 0)) by (rewrite map_length, seq_length; exact H).
  rewrite map_nth, seq_nth by exact H. reflexivity.
Qed.

Lemma zn_zseq n i : 0 <= i < n -> zn (zseq n) i = i.
Proof. intro H. rewrite (zn_nth_d _ _ 0) by (rewrite zseq_length; lia). rewrite zseq_nth by lia. lia. Qed.

Lemma zlength_map0 {A} (l : list A) : zlength (map (fun _ => 0) l) = Z.of_nat (length l).
Proof. unfold zlength. now rewrite map_length. Qed.

Lemma zlist_eqb_refl a : zlist_eqb a a = true.
Proof. now apply zlist_eqb_eq. Qed.

Lemma zlist_eqb_neq a b : zlist_eqb a b = false <-> a <> b.
Proof.
  split.
  - intros H ->. rewrite zlist_eqb_refl in H. discriminate.
  - intro H. destruct (zlist_eqb a b) eqn:E; [|reflexivity]. apply zlist_eqb_eq in E. contradiction.
Qed.

Lemma NoDup_snoc {A} (l : list A) x : NoDup l -> ~ In x l -> NoDup (l ++ [x]).
Proof.
  induction l as [|a l IH]; cbn; intros Hnd Hx.
  - constructor; [tauto|constructor].
  - inversion Hnd as [|? ? Ha Hl]; subst. constructor.
    + rewrite in_app_iff. cbn. intros [H|[H|[]]]; [contradiction|]. subst. apply Hx. now left.
    + apply IH; [exact Hl|]. intro. apply Hx. now right.
Qed.

(* ---------- index_of / insert_sig ---------- *)
Lemma index_of_none sig seen : forall i, index_of sig seen i = None <-> ~ In sig seen.
Proof.
  induction seen as [|s rest IH]; intro i; cbn [index_of In].
  - split; auto.
  - destruct (zlist_eqb s sig) eqn:E.
    + apply zlist_eqb_eq in E. split; [discriminate|]. intro H. exfalso. apply H. now left.
    + apply zlist_eqb_neq in E. rewrite IH. tauto.
Qed.

Lemma index_of_some sig seen : forall i k, index_of sig seen i = Some k ->
  exists j, k = i + Z.of_nat j /\ (j < length seen)%nat /\ nth j seen [] = sig.
Proof.
  induction seen as [|s rest IH]; intros i k; cbn [index_of]; [discriminate|].
  destruct (zlist_eqb s sig) eqn:E.
  - apply zlist_eqb_eq in E. intros [= <-]. exists 0%nat. cbn. split; [lia|]. split; [lia|exact E].
  - intro H. destruct (IH _ _ H) as (j & Hk & Hj & Hn). exists (S j). cbn [length nth]. split; [lia|]. split; [lia|exact Hn].
Qed.

Lemma insert_sig_spec seen sig seen' k : insert_sig seen sig = (seen', k) -> NoDup seen ->
  NoDup seen' /\ (forall x, In x seen' <-> In x seen \/ x = sig) /\
  0 <= k < Z.of_nat (length seen') /\ nth (Z.to_nat k) seen' [] = sig /\
  (exists ext, seen' = seen ++ ext) /\
  (~ In sig seen -> seen' = seen ++ [sig] /\ k = Z.of_nat (length seen)) /\
  (In sig seen -> seen' = seen).
Proof.
  unfold insert_sig. intros H Hnd. destruct (index_of sig seen 0) as [k0|] eqn:E.
  - injection H as <- <-. destruct (index_of_some _ _ _ _ E) as (j & Hk & Hj & Hn).
    assert (Hin : In sig seen) by (rewrite <- Hn; apply nth_In; exact Hj).
    split; [exact Hnd|]. split; [intro x; split; [tauto|intros [Hx|Hx]; [exact Hx|rewrite Hx; exact Hin]]|].
    split; [lia|]. split; [replace (Z.to_nat k0) with j by lia; exact Hn|].
    split; [exists []; now rewrite app_nil_r|]. split; [contradiction|reflexivity].
  - injection H as <- <-. apply index_of_none in E. rewrite zlength_map0.
    split. { apply NoDup_snoc; assumption. }
    split. { intro x. rewrite in_app_iff. cbn. intuition. }
    rewrite app_length. cbn [length]. split; [lia|].
    split. { rewrite Nat2Z.id, app_nth2 by lia. now rewrite Nat.sub_diag. }
    split; [eexists; reflexivity|]. split; [auto|contradiction].
Qed.

(* ---------- the fold ---------- *)
Definition na_step (st : list (list Z) * list Z) (sig : list Z) : list (list Z) * list Z :=
  let '(seen, ids) := st in let '(seen', k) := insert_sig seen sig in (seen', ids ++ [k]).

Lemma number_all_fold sigs :
  number_all sigs = (snd (fold_left na_step sigs ([], [])), Z.of_nat (length (fst (fold_left na_step sigs ([], []))))).
Proof.
  unfold number_all.
  match goal with |- context [fold_left ?f sigs ([], [])] =>
    assert (E : forall l st, fold_left f l st = fold_left na_step l st)
      by (induction l as [|x l IH]; intro st; [reflexivity|cbn [fold_left]; rewrite IH; f_equal; destruct st; reflexivity])
  end. rewrite E.
  destruct (fold_left na_step sigs ([], [])) as [seen ids]. cbn [fst snd]. now rewrite zlength_map0.
Qed.

Record na_inv (done seen : list (list Z)) (ids : list Z) : Prop := {
  nai_len : length ids = length done;
  nai_nodup : NoDup seen;
  nai_set : forall x, In x seen <-> In x done;
  nai_ids : forall i, (i < length done)%nat ->
     0 <= nth i ids 0 < Z.of_nat (length seen) /\ nth (Z.to_nat (nth i ids 0)) seen [] = nth i done []
}.

Lemma na_step_inv done seen ids sig seen' ids' : na_inv done seen ids -> na_step (seen, ids) sig = (seen', ids') ->
  na_inv (done ++ [sig]) seen' ids' /\ (exists ext, seen' = seen ++ ext) /\ (exists k, ids' = ids ++ [k]).
Proof.
  intros [Hl Hnd Hset Hids]. unfold na_step. destruct (insert_sig seen sig) as [s' k] eqn:E. intros [= <- <-].
  destruct (insert_sig_spec _ _ _ _ E Hnd) as (N1 & N2 & N3 & N4 & [ext N5] & _).
  split; [|split; [exists ext; exact N5|exists k; reflexivity]]. constructor.
  - rewrite !app_length. cbn. lia.
  - exact N1.
  - intro x. rewrite N2, in_app_iff, Hset. cbn. intuition.
  - intros i Hi. rewrite app_length in Hi. cbn in Hi. destruct (Nat.eq_dec i (length done)) as [->|Hne].
    + assert (E1 : nth (length done) (ids ++ [k]) 0 = k).
      { rewrite <- Hl. rewrite app_nth2 by lia. rewrite Nat.sub_diag. reflexivity. }
      assert (E2 : nth (length done) (done ++ [sig]) [] = sig).
      { rewrite app_nth2 by lia. rewrite Nat.sub_diag. reflexivity. }
      rewrite E1, E2. split; [exact N3|exact N4].
    + assert (Hi' : (i < length done)%nat) by lia. destruct (Hids i Hi') as [R1 R2].
      rewrite !app_nth1 by lia. split.
      * rewrite N5, app_length. lia.
      * rewrite N5, app_nth1 by lia. exact R2.
Qed.

Lemma na_fold_inv sigs : forall done seen ids seen' ids', na_inv done seen ids ->
  fold_left na_step sigs (seen, ids) = (seen', ids') ->
  na_inv (done ++ sigs) seen' ids' /\ (exists ext, seen' = seen ++ ext) /\ (exists tl, ids' = ids ++ tl).
Proof.
  induction sigs as [|sig sigs IH]; intros done seen ids seen' ids' Hinv; cbn [fold_left].
  - intros [= <- <-]. rewrite !app_nil_r. split; [exact Hinv|]. split; exists []; now rewrite app_nil_r.
  - destruct (na_step (seen, ids) sig) as [s1 i1] eqn:E1. intro H.
    destruct (na_step_inv _ _ _ _ _ _ Hinv E1) as (I1 & [e1 X1] & [k1 Y1]).
    destruct (IH _ _ _ _ _ I1 H) as (I2 & [e2 X2] & [t2 Y2]). rewrite <- app_assoc in I2. cbn in I2.
    split; [exact I2|]. split.
    + exists (e1 ++ e2). now rewrite X2, X1, app_assoc.
    + exists ([k1] ++ t2). now rewrite Y2, Y1, <- app_assoc.
Qed.

Lemma na_inv_nil : na_inv [] [] [].
Proof. constructor; [reflexivity|constructor|tauto|cbn; lia]. Qed.

Lemma number_all_inv sigs ids c : number_all sigs = (ids, c) ->
  exists seen, na_inv sigs seen ids /\ c = Z.of_nat (length seen) /\ fold_left na_step sigs ([], []) = (seen, ids).
Proof.
  rewrite number_all_fold. destruct (fold_left na_step sigs ([], [])) as [seen ids0] eqn:E. cbn [fst snd].
  intros [= <- <-]. exists seen. destruct (na_fold_inv _ _ _ _ _ _ na_inv_nil E) as (I & _). cbn in I.
  split; [exact I|]. split; reflexivity.
Qed.

(* ---------- the facts ---------- *)
Section Facts.
Variables (sigs : list (list Z)) (ids : list Z) (c : Z).
Hypothesis Hna : number_all sigs = (ids, c).

Theorem number_all_length : length ids = length sigs.
Proof. destruct (number_all_inv _ _ _ Hna) as (seen & I & _). apply (nai_len _ _ _ I). Qed.

Theorem number_all_range i : (i < length sigs)%nat -> 0 <= nth i ids 0 < c.
Proof. destruct (number_all_inv _ _ _ Hna) as (seen & I & -> & _). intro Hi. apply (nai_ids _ _ _ I i Hi). Qed.

Theorem number_all_eq_iff i j : (i < length sigs)%nat -> (j < length sigs)%nat ->
  (nth i ids 0 = nth j ids 0 <-> nth i sigs [] = nth j sigs []).
Proof.
  destruct (number_all_inv _ _ _ Hna) as (seen & I & -> & _). intros Hi Hj.
  destruct (nai_ids _ _ _ I i Hi) as [A1 A2]. destruct (nai_ids _ _ _ I j Hj) as [B1 B2]. split.
  - intro H. rewrite <- A2, <- B2, H. reflexivity.
  - intro H. rewrite <- A2, <- B2 in H.
    assert (Z.to_nat (nth i ids 0) = Z.to_nat (nth j ids 0)).
    { apply (proj1 (NoDup_nth seen []) (nai_nodup _ _ _ I)); [lia|lia|exact H]. }
    lia.
Qed.

(* every class number below the count is used *)
Theorem number_all_surj k : 0 <= k < c -> exists i, (i < length sigs)%nat /\ nth i ids 0 = k.
Proof.
  destruct (number_all_inv _ _ _ Hna) as (seen & I & -> & _). intro Hk.
  assert (Hin : In (nth (Z.to_nat k) seen []) sigs) by (apply (nai_set _ _ _ I); apply nth_In; lia).
  destruct (In_nth _ _ [] Hin) as (i & Hi & Hn). exists i. split; [exact Hi|].
  destruct (nai_ids _ _ _ I i Hi) as [A1 A2]. rewrite Hn in A2.
  assert (Z.to_nat (nth i ids 0) = Z.to_nat k).
  { apply (proj1 (NoDup_nth seen []) (nai_nodup _ _ _ I)); [lia|lia|exact A2]. }
  lia.
Qed.

Theorem number_all_count_le : 0 <= c <= Z.of_nat (length sigs).
Proof.
  destruct (number_all_inv _ _ _ Hna) as (seen & I & -> & _). split; [lia|].
  apply inj_le. apply NoDup_incl_length; [apply (nai_nodup _ _ _ I)|]. intros x Hx. now apply (nai_set _ _ _ I).
Qed.

(* the count is the number of distinct signatures: a duplicate-free list with the same elements *)
Theorem number_all_count_distinct : exists seen, NoDup seen /\ (forall x, In x seen <-> In x sigs) /\ c = Z.of_nat (length seen).
Proof.
  destruct (number_all_inv _ _ _ Hna) as (seen & I & -> & _). exists seen.
  split; [apply (nai_nodup _ _ _ I)|]. split; [apply (nai_set _ _ _ I)|reflexivity].
Qed.
End Facts.

(* zn-flavoured versions *)
Lemma zn_nth0 l i : 0 <= i < Z.of_nat (length l) -> zn l i = nth (Z.to_nat i) l 0.
Proof. apply zn_nth_d. Qed.

(* first-occurrence numbering, recursive characterisation: numbering [a ++ [x]] extends the numbering of [a] *)
Theorem number_all_snoc a x ids c : number_all a = (ids, c) ->
  exists k c', number_all (a ++ [x]) = (ids ++ [k], c') /\
    (~ In x a -> k = c /\ c' = c + 1) /\
    (In x a -> c' = c /\ exists j, (j < length a)%nat /\ nth j a [] = x /\ k = nth j ids 0).
Proof.
  intro H. destruct (number_all_inv _ _ _ H) as (seen & I & -> & F).
  rewrite number_all_fold, fold_left_app, F. cbn [fold_left na_step].
  destruct (insert_sig seen x) as [s' k] eqn:E. cbn [fst snd]. exists k, (Z.of_nat (length s')).
  split; [reflexivity|].
  destruct (insert_sig_spec _ _ _ _ E (nai_nodup _ _ _ I)) as (N1 & N2 & N3 & N4 & N5 & N6 & N7).
  split.
  - intro Hn. assert (Hn' : ~ In x seen) by (rewrite (nai_set _ _ _ I); exact Hn).
    destruct (N6 Hn') as [-> ->]. rewrite app_length. cbn. lia.
  - intro Hin. assert (Hin' : In x seen) by (rewrite (nai_set _ _ _ I); exact Hin).
    rewrite (N7 Hin') in *. split; [reflexivity|].
    destruct (In_nth _ _ [] Hin) as (j & Hj & Hn). exists j. split; [exact Hj|]. split; [exact Hn|].
    destruct (nai_ids _ _ _ I j Hj) as [A1 A2]. rewrite Hn, <- N4 in A2.
    assert (Z.to_nat (nth j ids 0) = Z.to_nat k).
    { apply (proj1 (NoDup_nth seen []) (nai_nodup _ _ _ I)); [lia|lia|exact A2]. }
    lia.
Qed.

(* the numbering of a prefix is a prefix of the numbering *)
Theorem number_all_app a b ids c : number_all a = (ids, c) ->
  exists tl c', number_all (a ++ b) = (ids ++ tl, c') /\ c <= c'.
Proof.
  intro H. destruct (number_all_inv _ _ _ H) as (seen & I & -> & F).
  rewrite number_all_fold, fold_left_app, F.
  destruct (fold_left na_step b (seen, ids)) as [s2 i2] eqn:E. cbn [fst snd].
  destruct (na_fold_inv _ _ _ _ _ _ I E) as (_ & [ext ->] & [tl ->]).
  exists tl, (Z.of_nat (length (seen ++ ext))). split; [reflexivity|]. rewrite app_length. lia.
Qed.

(* pairwise distinct signatures are numbered 0, 1, 2, ... *)
Theorem number_all_nodup a : NoDup a -> number_all a = (zseq (Z.of_nat (length a)), Z.of_nat (length a)).
Proof.
  induction a as [|x a IH] using rev_ind; intro Hnd; [reflexivity|].
  assert (Hnd' : NoDup a /\ ~ In x a).
  { apply NoDup_remove in Hnd. rewrite app_nil_r in Hnd. exact Hnd. }
  destruct Hnd' as [Ha Hx]. destruct (number_all_snoc a x _ _ (IH Ha)) as (k & c' & E & N & _).
  destruct (N Hx) as [-> ->]. rewrite E, app_length. cbn [length]. f_equal; [|lia].
  unfold zseq. rewrite !Nat2Z.id. replace (length a + 1)%nat with (S (length a)) by lia.
  rewrite seq_S, map_app. reflexivity.
Qed.

(* ... also when they are only a prefix of the list: position i < |a| gets number i *)
Theorem number_all_nodup_prefix a b ids c : NoDup a -> number_all (a ++ b) = (ids, c) ->
  forall i, (i < length a)%nat -> nth i ids 0 = Z.of_nat i.
Proof.
  intros Hnd H i Hi. destruct (number_all_app a b _ _ (number_all_nodup a Hnd)) as (tl & c' & E & _).
  rewrite E in H. injection H as <- _. rewrite app_nth1 by (rewrite zseq_length; lia).
  apply zseq_nth. lia.
Qed.

Theorem number_all_spec sigs ids c : number_all sigs = (ids, c) ->
  length ids = length sigs /\
  (forall i, (i < length sigs)%nat -> 0 <= nth i ids 0 < c) /\
  (forall i j, (i < length sigs)%nat -> (j < length sigs)%nat -> (nth i ids 0 = nth j ids 0 <-> nth i sigs [] = nth j sigs [])) /\
  (forall k, 0 <= k < c -> exists i, (i < length sigs)%nat /\ nth i ids 0 = k) /\
  (exists seen, NoDup seen /\ (forall x, In x seen <-> In x sigs) /\ c = Z.of_nat (length seen)).
Proof.
  intro H. split; [exact (number_all_length _ _ _ H)|]. split; [exact (number_all_range _ _ _ H)|].
  split; [exact (number_all_eq_iff _ _ _ H)|]. split; [exact (number_all_surj _ _ _ H)|exact (number_all_count_distinct _ _ _ H)].
Qed.
