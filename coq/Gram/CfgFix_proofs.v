(* C03: nullable_set g is closed under the rules for every grammar whose rule heads are nonterminals in range:
   the S(N) rounds of nullable_step always reach the fixpoint (bounded inflationary iteration). *)
From Coq Require Import List ZArith Bool Arith Lia Sorted.
From TM Require Import Gram.Cfg Gram.Derive Gram.LalrRef Gram.LalrSpec Gram.LalrSpec_proofs Gram.LalrSpec_proofs2.
Import ListNotations.
Local Open Scope Z_scope.

Section Iter.
Variables (A : Type) (mu : A -> nat) (F : A -> A) (inv : A -> Prop) (B : nat).
Hypothesis Hinv : forall x, inv x -> inv (F x).
Hypothesis Hbound : forall x, inv x -> (mu x <= B)%nat.
Hypothesis Hinfl : forall x, inv x -> (mu x <= mu (F x))%nat /\ (mu (F x) = mu x -> F x = x).

Lemma iterate_fixed_stays n x : F x = x -> iterate n F x = x.
Proof. intros H. induction n as [|n IH]; simpl; auto. rewrite H. exact IH. Qed.

Lemma iterate_reaches_fix n : forall x, inv x -> (B - mu x < n)%nat -> F (iterate n F x) = iterate n F x.
Proof.
  induction n as [|n IH]; intros x Hx Hn; [lia|]. simpl.
  destruct (Hinfl x Hx) as [H1 H2]. destruct (Nat.eq_dec (mu (F x)) (mu x)) as [E|E].
  - rewrite (H2 E), (iterate_fixed_stays n x (H2 E)). exact (H2 E).
  - apply IH; [auto|]. pose proof (Hbound (F x) (Hinv x Hx)). lia.
Qed.
End Iter.

(* sorted duplicate-free lists *)
Lemma ins_sorted x l : StronglySorted Z.lt l -> StronglySorted Z.lt (ins x l).
Proof.
  induction l as [|y t IH]; simpl; intros H.
  - repeat constructor.
  - inversion H as [|y' t' Hs Hf]; subst. destruct (x <? y) eqn:E1.
    + apply Z.ltb_lt in E1. constructor; auto. constructor; auto.
      rewrite Forall_forall in *. intros z Hz. specialize (Hf z Hz). lia.
    + destruct (x =? y) eqn:E2; auto. apply Z.ltb_ge in E1. apply Z.eqb_neq in E2.
      constructor; auto. rewrite Forall_forall in *. intros z Hz. apply cfg_ins_In in Hz.
      destruct Hz as [->|Hz]; [lia|auto].
Qed.

Lemma sorted_range_length l : forall lo hi, StronglySorted Z.lt l -> Forall (fun x => lo <= x < hi) l ->
  (length l <= Z.to_nat (hi - lo))%nat.
Proof.
  induction l as [|x t IH]; intros lo hi Hs Hf; simpl; [lia|].
  inversion Hs as [|x' t' Hs' Hlt]; subst. inversion Hf as [|x' t' Hx Hf']; subst.
  assert (H : (length t <= Z.to_nat (hi - (x + 1)))%nat).
  { apply IH; auto. rewrite Forall_forall in *. intros z Hz. specialize (Hlt z Hz). specialize (Hf' z Hz). lia. }
  lia.
Qed.

Definition inflL (G : list Z -> list Z) : Prop :=
  forall l, (length l <= length (G l))%nat /\ (length (G l) = length l -> G l = l).

Lemma inflL_fold {X} (f : list Z -> X -> list Z) xs :
  (forall x, In x xs -> inflL (fun l => f l x)) -> inflL (fun l => fold_left f xs l).
Proof.
  induction xs as [|x xs IH]; intros H l; simpl; [auto|].
  destruct (H x (or_introl eq_refl) l) as [F1 F2].
  destruct (IH (fun y Hy => H y (or_intror Hy)) (f l x)) as [G1 G2]. split; [lia|].
  intros E. assert (E1 : f l x = l) by (apply F2; lia). rewrite E1 in *. auto.
Qed.

Lemma foldL_fixed {X} (f : list Z -> X -> list Z) xs l :
  (forall x, In x xs -> inflL (fun l => f l x)) -> fold_left f xs l = l -> forall x, In x xs -> f l x = l.
Proof.
  induction xs as [|y xs IH]; intros Hf H x Hx; simpl in *; [contradiction|].
  destruct (Hf y (or_introl eq_refl) l) as [F1 F2].
  destruct (inflL_fold f xs (fun z Hz => Hf z (or_intror Hz)) (f l y)) as [G1 G2].
  assert (E : f l y = l) by (apply F2; rewrite H in G1; lia).
  destruct Hx as [<-|Hx]; auto. rewrite E in H. apply IH; auto.
Qed.

Section Nullable.
Variable g : grammar.
Hypothesis Hrange : forall r, In r (g_rules g) -> g_terms g <= r_lhs r < g_terms g + g_nonterms g.

Definition nstep (nl : list Z) (r : rule) : list Z :=
  if forallb (fun s => mem s nl) (r_rhs r) then ins (r_lhs r) nl else nl.

Lemma inflL_nstep r : inflL (fun nl => nstep nl r).
Proof. intros nl. unfold nstep. destruct (forallb _ _); [apply ins_len|auto]. Qed.

Definition ninv (nl : list Z) : Prop :=
  StronglySorted Z.lt nl /\ Forall (fun x => g_terms g <= x < g_terms g + g_nonterms g) nl.

Lemma nullable_step_fix : nullable_step g (nullable_set g) = nullable_set g.
Proof.
  unfold nullable_set.
  apply (iterate_reaches_fix (list Z) (@length Z) (nullable_step g) ninv (Z.to_nat (g_nonterms g))).
  - intros nl Hnl. unfold nullable_step. apply (fold_left_inv ninv); auto.
    intros nl' r Hr [H1 H2]. fold (nstep nl' r). unfold nstep. destruct (forallb _ _); [|split; auto].
    split; [apply ins_sorted; auto|]. rewrite Forall_forall in *. intros z Hz. apply cfg_ins_In in Hz.
    destruct Hz as [->|Hz]; auto.
  - intros nl [H1 H2]. pose proof (sorted_range_length nl _ _ H1 H2) as H.
    replace (g_terms g + g_nonterms g - g_terms g) with (g_nonterms g) in H by lia. exact H.
  - intros nl _. apply (inflL_fold nstep). intros; apply inflL_nstep.
  - split; constructor.
  - simpl. lia.
Qed.

Theorem nullable_set_closed : nullable_closed g (nullable_set g) = true.
Proof.
  unfold nullable_closed. apply forallb_forall. intros r Hr.
  pose proof (foldL_fixed nstep (g_rules g) (nullable_set g) (fun x _ => inflL_nstep x) nullable_step_fix r Hr) as H.
  unfold nstep in H. destruct (forallb (fun s => negb (is_term g s) && mem s (nullable_set g)) (r_rhs r)) eqn:E; auto.
  simpl. assert (E' : forallb (fun s => mem s (nullable_set g)) (r_rhs r) = true).
  { rewrite forallb_forall in *. intros s Hs. specialize (E s Hs). apply andb_true_iff in E. apply E. }
  rewrite E' in H. apply cfg_mem_In. rewrite <- H. apply cfg_ins_In. auto.
Qed.
End Nullable.

Lemma range_wf_lhs g :
  (forall r, In r (g_rules g) -> g_terms g <= r_lhs r < g_terms g + g_nonterms g) -> wf_lhs g = true.
Proof.
  intros H. unfold wf_lhs. apply forallb_forall. intros r Hr. specialize (H r Hr).
  unfold is_term. apply negb_true_iff. apply andb_false_iff. right. apply Z.ltb_ge. lia.
Qed.

(* completeness of the lookahead table without the nullable hypothesis *)
Theorem lalr_la_complete_range g a fuel :
  (forall r, In r (g_rules g) -> g_terms g <= r_lhs r < g_terms g + g_nonterms g) ->
  first_closed g (nullable_set g) (first_sets g) = true ->
  la_stable g a (nullable_set g) (first_sets g) (lalr_la g a fuel) = true ->
  starts_present g a -> aut_complete g a ->
  forall q it x, lalr1 g a q it x -> In x (la_get (lalr_la g a fuel) q it).
Proof.
  intros Hr. apply lalr_la_complete; [apply range_wf_lhs; exact Hr|apply nullable_set_closed; exact Hr].
Qed.
