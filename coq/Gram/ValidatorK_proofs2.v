(* C07, completeness side, part 1:
   (i)  tables without deep rows: the LALR(k) machine (default_machine) runs exactly like C01's lalr1_machine on
        every input, so Validator.check gives the exact language (sound and complete);
   (ii) check_k alone (the soundness check) does not give completeness: a concrete table set passes check_k and
        rejects a sentence. *)
From Coq Require Import List ZArith Bool Arith Lia.
From TM Require Import Gram.Cfg Gram.PTables Gram.Run Gram.Derive Gram.Validator Gram.Validator_proofs Gram.LRSound
                       Gram.ValidatorK Gram.ValidatorK_proofs.
Import ListNotations.
Local Open Scope Z_scope.

(* no cell of the table (states 0..nstates-1, terminals 0..T-1) refers to an LALR(k) row *)
Definition no_deep (t : default_enc) (nstates T : Z) : bool :=
  forallb (fun p => forallb (fun a => negb (lalr_deep t p a)) (zrange0 T)) (zrange0 nstates).

Lemma no_deep_act t nstates T p a more :
  no_deep t nstates T = true -> 0 <= p < nstates -> 0 <= a < T ->
  default_act t p a more = m_act (lalr1_machine t [] []) p a more.
Proof.
  intros H Hp Ha. unfold no_deep in H. rewrite forallb_forall in H.
  specialize (H p (proj2 (in_zrange0 _ _) Hp)). rewrite forallb_forall in H.
  specialize (H a (proj2 (in_zrange0 _ _) Ha)). apply negb_true_iff in H.
  unfold lalr_deep in H. simpl. unfold default_act, action_default.
  set (a0 := zn (d_action t) p) in *.
  destruct (a0 <? -2) eqn:E0.
  - rewrite H. set (v := lalr_lookup t a0 a) in *.
    destruct (v >=? 0); [reflexivity|]. destruct (v =? -1); [destruct (goto_state t p a >=? 0); reflexivity|].
    destruct (v =? -2); reflexivity.
  - rewrite E0.
    destruct (a0 >=? 0); [reflexivity|]. destruct (a0 =? -1); [destruct (goto_state t p a >=? 0); reflexivity|].
    destruct (a0 =? -2); reflexivity.
Qed.

Section NoDeep.
Variable g : grammar.
Variable t : default_enc.
Variable rule_len rule_sym : list Z.
Variable nstates : Z.
Variable finals : list Z.
Variable nl : list Z.
Variable ft : first_table.
Variable ann : cert.

Notation m1 := (lalr1_machine t rule_len rule_sym).
Notation mk := (default_machine t rule_len rule_sym).

Hypothesis Hchk : check g m1 nstates finals nl ft ann = true.
Hypothesis Hnd : no_deep t nstates (vT g) = true.

Variable i : nat.
Hypothesis Hi : (i < ninputs g)%nat.
Variable ws : list Z.
Hypothesis Hws : Validator_proofs.toks_ok g ws.

Lemma m1_nomore : forall s a more, m_act m1 s a more = m_act m1 s a [].
Proof. reflexivity. Qed.

Lemma step_same eoi_off c :
  Validator_proofs.cwf c -> Validator_proofs.inv g m1 i ws (Validator_proofs.proj c) ->
  step mk eoi_off c = step m1 eoi_off c.
Proof.
  intros Hwf Hinv. pose proof (Validator_proofs.proj_top _ Hwf) as Htop.
  unfold Validator_proofs.proj in Hinv, Htop. simpl in Htop.
  destruct Hinv as (Hok & cons & k & Hs & _).
  pose proof (Validator_proofs.stk_state g m1 nstates finals nl ft ann Hchk i Hi _ _ Hs) as Hq. rewrite Htop in Hq.
  pose proof (Validator_proofs.nxt_range g m1 nstates finals nl ft ann Hchk i Hi _ Hok) as Ha.
  assert (Hnx : t_sym (next_tok eoi_off (c_input c)) = Validator_proofs.nxt (map t_sym (c_input c))).
  { destruct (c_input c); reflexivity. }
  unfold step.
  assert (E : m_act mk (c_state c) (t_sym (next_tok eoi_off (c_input c))) (map t_sym (tl (c_input c))) =
              m_act m1 (c_state c) (t_sym (next_tok eoi_off (c_input c))) (map t_sym (tl (c_input c)))).
  { rewrite Hnx. simpl m_act at 1. rewrite (no_deep_act _ _ _ _ _ _ Hnd Hq Ha). reflexivity. }
  rewrite E. reflexivity.
Qed.

Lemma run_same eoi_off e fuel : forall c,
  Validator_proofs.cwf c -> Validator_proofs.inv g m1 i ws (Validator_proofs.proj c) ->
  run_loop fuel mk eoi_off e c = run_loop fuel m1 eoi_off e c.
Proof.
  induction fuel as [|f IH]; intros c Hwf Hinv; [reflexivity|].
  cbn [run_loop]. destruct (c_state c =? e); [reflexivity|].
  rewrite (step_same eoi_off c Hwf Hinv).
  pose proof (Validator_proofs.step_sim m1 m1_nomore eoi_off c Hwf) as Hs.
  destruct (step m1 eoi_off c) as [c1|o c1]; [|reflexivity].
  destruct Hs as [Hs Hwf1]. apply IH; [exact Hwf1|].
  exact (Validator_proofs.astep_inv g m1 nstates finals nl ft ann Hchk i Hi ws _ _ Hinv Hs).
Qed.

(* on tables without deep rows the LALR(k) loop is C01's loop, whatever the input *)
Theorem parse_no_deep_same fuel : parse fuel mk finals i ws = parse fuel m1 finals i ws.
Proof.
  unfold parse, run. apply run_same.
  - split; [discriminate|reflexivity].
  - unfold Validator_proofs.proj. simpl. unfold toks_of. rewrite Validator_proofs.toks_from_syms.
    exact (Validator_proofs.inv_init g m1 i ws Hws).
Qed.

(* hence the exact language *)
Theorem parse_no_deep_exact nt eoi :
  nth_error (g_inputs g) i = Some (nt, eoi) ->
  (exists fuel, fst (parse fuel mk finals i ws) = Accept) <-> sentence g nt eoi ws.
Proof.
  intros Hinp. split.
  - intros (fuel & H). rewrite parse_no_deep_same in H.
    exact (Validator_proofs.parse_sound g m1 nstates finals nl ft ann m1_nomore Hchk i Hi ws Hws fuel nt eoi Hinp H).
  - intros Hs.
    destruct (Validator_proofs.parse_complete g m1 nstates finals nl ft ann m1_nomore Hchk i Hi ws Hws nt eoi Hinp Hs) as (fuel & H).
    exists fuel. rewrite parse_no_deep_same. exact H.
Qed.

End NoDeep.

(* ---- check_k is a soundness check only: it accepts a table set that rejects every input ---- *)
(* grammar: terminals 0 (EOI), 1 (a); nonterminal 2 (S);  S -> a;  input S with eoi *)
Definition cx_g : grammar := mkGrammar 2 1 [mkRule 2 [1] 0] [(2, true)] [].
(* 4 states; every action is "error"; the gotos are those of the LR(0) automaton *)
Definition cx_t : default_enc := mkDefaultEnc [-2; -2; -2; -2] [] [0; 0; 2; 4] [0; 3; 0; 2].
Definition cx_ann : cert :=
  [ [(1%nat, 0%nat, []); (0%nat, 0%nat, [])];     (* 0: S' -> . S eoi ; S -> . a *)
    [(1%nat, 2%nat, [])];                           (* 1: final, S' -> S eoi . *)
    [(1%nat, 1%nat, [])];                           (* 2: S' -> S . eoi *)
    [(0%nat, 1%nat, [])] ].                         (* 3: S -> a . *)

Lemma cx_check_k : check_k cx_g cx_t [1] [2] 4 [1] cx_ann = true.
Proof. vm_compute. reflexivity. Qed.

Lemma cx_sentence : sentence cx_g 2 true [1].
Proof.
  simpl. change 2 with (r_lhs (mkRule 2 [1] 0)). constructor; [left; reflexivity|].
  simpl. change [1] with ([1] ++ []). constructor; [|constructor]. constructor. reflexivity.
Qed.

Lemma cx_rejects fuel : fst (parse fuel (default_machine cx_t [1] [2]) [1] 0 [1]) <> Accept.
Proof. destruct fuel as [|f]; vm_compute; discriminate. Qed.

Theorem check_k_alone_not_complete :
  exists g t rule_len rule_sym nstates finals ann i nt eoi ws,
    check_k g t rule_len rule_sym nstates finals ann = true /\
    nth_error (g_inputs g) i = Some (nt, eoi) /\ Validator_proofs.toks_ok g ws /\ sentence g nt eoi ws /\
    forall fuel, fst (parse fuel (default_machine t rule_len rule_sym) finals i ws) <> Accept.
Proof.
  exists cx_g, cx_t, [1], [2], 4, [1], cx_ann, 0%nat, 2, true, [1].
  split; [exact cx_check_k|]. split; [reflexivity|]. split; [|split; [exact cx_sentence|exact cx_rejects]].
  constructor; [|constructor]. unfold vT. simpl. lia.
Qed.
