(* C03: relation between lr1_valid (closure rule split into a FIRST(beta) part and an inherited part) and the
   textbook definition lr1_valid_tb (one closure rule with FIRST(beta a)). *)
From Coq Require Import List ZArith Bool Arith Lia.
From TM Require Import Gram.Cfg Gram.Derive Gram.LalrRef Gram.LalrSpec Gram.LalrSpec_proofs Gram.LalrSpec_proofs2.
Import ListNotations.
Local Open Scope Z_scope.

Lemma tb_lr0 g i gamma it x : lr1_valid_tb g i gamma it x -> lr0_valid g i gamma it.
Proof.
  induction 1; [eapply l0_start|eapply l0_closure|apply l0_goto]; eauto.
Qed.

(* the textbook LR(1) item sets are always included *)
Lemma tb_included g i gamma it x : lr1_valid_tb g i gamma it x -> lr1_valid g i gamma it x.
Proof.
  induction 1 as [nt eoi r x Hi Hinp Hr Hx|gamma it x B r b H IH Es Et Hr Hb|gamma it x X H IH Es].
  - eapply lv_start; eauto.
  - destruct Hb as [Hb|[Hn ->]].
    + eapply lv_closure_first; eauto. eapply lr1_lr0; eauto.
    + eapply lv_closure_la; eauto.
  - apply lv_goto; auto.
Qed.

(* and equal as soon as every LR(0)-valid item has some textbook lookahead *)
Lemma tb_equal g i :
  (forall gamma it, lr0_valid g i gamma it -> exists x, lr1_valid_tb g i gamma it x) ->
  forall gamma it x, lr1_valid g i gamma it x <-> lr1_valid_tb g i gamma it x.
Proof.
  intros Hinh gamma it x. split; [|apply tb_included].
  induction 1 as [nt eoi r x Hi Hinp Hr Hx|gamma it B r b H0 Es Et Hr Hb|gamma it x B r H IH Es Et Hr Hn
                  |gamma it x X H IH Es].
  - eapply tb_start; eauto.
  - destruct (Hinh gamma it H0) as [x Hx]. eapply tb_closure; eauto. left. exact Hb.
  - eapply tb_closure; eauto. right. auto.
  - apply tb_goto; auto.
Qed.

(* a sufficient condition: there is a terminal, and every symbol used in a rule is nullable or has a FIRST *)
Section Inhabited.
Variable g : grammar.
Hypothesis Hterm : 0 < g_terms g.
Hypothesis Huse : forall r X, In r (g_rules g) -> In X (r_rhs r) -> (exists b, first_sym g X b) \/ nullable_sym g X.

Lemma seq_first_or_nullable w :
  (forall X, In X w -> (exists b, first_sym g X b) \/ nullable_sym g X) ->
  (exists b, first_seq_of g w b) \/ nullable_seq g w.
Proof.
  induction w as [|X w IH]; intros H; [right; constructor|].
  destruct (H X (or_introl eq_refl)) as [[b Hb]|Hn].
  - left. exists b. apply first_seq_of_head. exact Hb.
  - destruct IH as [[b Hb]|Hw]; [intros; apply H; right; auto| |].
    + left. exists b. apply first_seq_of_cons_nullable; auto.
    + right. constructor; auto.
Qed.

Lemma item_rest_used it X : In X (item_rest g it) -> In (rule_at g (fst it)) (g_rules g).
Proof.
  unfold item_rest, rule_at. intros H.
  destruct (nth_in_or_default (Z.to_nat (fst it)) (g_rules g) (mkRule (-1) [] 0)) as [Hin|E]; auto.
  rewrite E in H. simpl in H. contradiction.
Qed.

Lemma In_skipn {A} (x : A) n l : In x (skipn n l) -> In x l.
Proof.
  revert l; induction n as [|n IH]; intros l; simpl; auto. destruct l; simpl; auto.
Qed.

Lemma lr0_has_lookahead i gamma it : lr0_valid g i gamma it -> exists x, lr1_valid_tb g i gamma it x.
Proof.
  induction 1 as [nt eoi r Hi Hinp Hr|gamma it B r H [x IH] Es Et Hr|gamma it X H [x IH] Es].
  - exists 0. eapply tb_start; eauto. destruct eoi; auto. unfold is_term.
    apply andb_true_iff. split; [apply Z.leb_le|apply Z.ltb_lt]; lia.
  - destruct (seq_first_or_nullable (item_rest g it)) as [[b Hb]|Hn].
    + intros X HX. apply (Huse (rule_at g (fst it))); [eapply item_rest_used; eauto|].
      unfold item_rest in HX. eapply In_skipn; eauto.
    + exists b. eapply tb_closure; eauto. left. exact Hb.
    + exists x. eapply tb_closure; eauto. right. auto.
  - exists x. apply tb_goto; auto.
Qed.

Theorem lr1_valid_textbook i gamma it x : lr1_valid g i gamma it x <-> lr1_valid_tb g i gamma it x.
Proof. apply tb_equal. intros; eapply lr0_has_lookahead; eauto. Qed.
End Inhabited.

(* ---------- nullable_sym / first_sym against the derivations of Gram/Derive.v ---------- *)
Scheme derives_ind3 := Minimality for derives Sort Prop
  with derives_seq_ind3 := Minimality for derives_seq Sort Prop.
Combined Scheme derives_mutind3 from derives_ind3, derives_seq_ind3.

(* X =>* a w (terminal string) puts a into FIRST(X); X =>* empty makes X nullable *)
Lemma derives_first_nullable g :
  (forall X w, derives g X w ->
     (w = [] -> nullable_sym g X) /\ (forall a w', w = a :: w' -> first_sym g X a)) /\
  (forall xs w, derives_seq g xs w ->
     (w = [] -> nullable_seq g xs) /\ (forall a w', w = a :: w' -> first_seq_of g xs a)).
Proof.
  apply derives_mutind3.
  - intros a Ha. split; [discriminate|]. intros b w' [= <- _]. constructor. exact Ha.
  - intros r w Hr _ [IH1 IH2]. split.
    + intros E. constructor; auto.
    + intros a w' E. destruct (IH2 a w' E) as (pre & x & post & Erhs & Hpre & Hx). eapply fs_rule; eauto.
  - split; [constructor|discriminate].
  - intros x xs w1 w2 _ [IHx1 IHx2] _ [IHs1 IHs2]. split.
    + intros E. apply app_eq_nil in E. destruct E as [-> ->]. constructor; auto.
    + intros a w' E. destruct w1 as [|b w1'].
      * simpl in E. apply first_seq_of_cons_nullable; [apply IHx1; reflexivity|eapply IHs2; eauto].
      * simpl in E. injection E as -> _. apply first_seq_of_head. eapply IHx2; reflexivity.
Qed.

Lemma nullable_derives g :
  (forall X, nullable_sym g X -> derives g X []) /\ (forall xs, nullable_seq g xs -> derives_seq g xs []).
Proof.
  apply nullable_mutind.
  - intros r Hr _ IH. constructor; auto.
  - constructor.
  - intros x xs _ IH1 _ IH2. change (@nil Z) with (@nil Z ++ @nil Z). constructor; auto.
Qed.

Theorem nullable_sym_iff_derives g X : nullable_sym g X <-> derives g X [].
Proof.
  split; [apply nullable_derives|]. intros H. apply (proj1 (derives_first_nullable g) X [] H). reflexivity.
Qed.

Theorem first_sym_of_derivation g X a w : derives g X (a :: w) -> first_sym g X a.
Proof. intros H. eapply (proj1 (derives_first_nullable g) X (a :: w) H). reflexivity. Qed.
