(* Model of lalr/optimize.go: Optimize, pack, allocator.place, pickDefault. Executable definitions only. *)
From Coq Require Import List ZArith Bool Arith.
From TM Require Import Gram.PTables.
Import ListNotations.
Local Open Scope Z_scope.

Definition zseq (n : Z) : list Z := map Z.of_nat (seq 0 (Z.to_nat n)).

(* pickDefault: the most common value; ties go to the smallest value *)
Definition count_of (v : Z) (l : list Z) : Z := Z.of_nat (length (filter (Z.eqb v) l)).

Definition pick_default (arr : list Z) : Z :=
  match arr with
  | [] => 0
  | x :: _ =>
      let mn := fold_left Z.min arr x in
      let mx := fold_left Z.max arr x in
      let '(ret, _) := fold_left (fun '(ret, cnt) i =>
          let v := mn + i in
          let c := count_of v arr in
          if c >? cnt then (v, c) else (ret, cnt)) (zseq (mx - mn + 1)) (mn, count_of mn arr) in
      ret
  end.

Definition pair := (Z * Z)%type.   (* (pos, val) *)

Definition pairs_of (vals : list Z) (def : Z) : list pair :=
  filter (fun p => negb (snd p =? def)) (combine (zseq (zlength vals)) vals).

(* ---- the action line of one state: next[term] for all terminals ---- *)
Fixpoint lalr_row (fuel : nat) (l : list Z) (a : Z) : list (Z * Z) :=
  match fuel with
  | O => []
  | S f => if zn l a >=? 0 then (zn l a, zn l (a + 1)) :: lalr_row f l (a + 2) else []
  end.

Definition set_at (l : list Z) (i : Z) (v : Z) : list Z :=
  if i <? 0 then l else
  let n := Z.to_nat i in firstn n l ++ match skipn n l with [] => [] | _ :: t => v :: t end.

(* returns None for states whose Action is decided without a line (DefAct only) *)
Definition state_next (t : default_enc) (terms rules states : Z) (default_reduce : bool) (state : Z)
  : Z (* DefAct when no line *) + list Z :=
  let act := zn (d_action t) state in
  if act >=? 0 then inl act
  else if act =? -1 then
    inr (map (fun i => let q := goto_state t state i in if q >=? 0 then -2 - q else -1) (zseq terms))
  else if act =? -2 then inl (-1)
  else
    let undef := if default_reduce then -2 - states else -1 in
    let row := lalr_row (S (length (d_lalr t))) (d_lalr t) (- act - 3) in
    let next := fold_left (fun next '(term, a) =>
        let a' := if a =? -1 then -2 - goto_state t state term else if a =? -2 then -1 else a in
        set_at next term a') row (map (fun _ => undef) (zseq terms)) in
    if default_reduce then
      let reductions := filter (fun a => 0 <=? a) (map snd row) in
      (* the most common reduction, smallest rule index on ties; -1 if there is none *)
      let '(def, _) := fold_left (fun '(def, mx) rule =>
          let v := count_of rule reductions in if v >? mx then (rule, v) else (def, mx)) (zseq rules) (-1, 0) in
      inr (map (fun v => if v =? undef then def else v) next)
    else inr next.

Definition goto_line (t : default_enc) (terms states : Z) (nt : Z) : list Z :=
  let mn := zn (d_goto t) (terms + nt) in
  let mx := zn (d_goto t) (terms + nt + 1) in
  let fix fill (fuel : nat) (i : Z) (arr : list Z) : list Z :=
    match fuel with
    | O => arr
    | S f => if i <? mx then fill f (i + 2) (set_at arr (zn (d_from_to t) i) (zn (d_from_to t) (i + 1))) else arr
    end in
  fill (S (length (d_from_to t))) mn (map (fun _ => -1) (zseq states)).

(* ---- allocator ---- *)
Definition two64 : Z := 18446744073709551616.
Definition hash_pairs (ps : list pair) : Z :=
  fold_left (fun h p => ((h * 31 + fst p) * 31 + snd p) mod two64) ps 0.

Record alloc := mkAlloc {
  a_size : Z;
  a_delta : Z;
  a_taken : list Z;              (* set of taken cells *)
  a_used_base : list Z;          (* set of used bases *)
  a_prev : list ((Z * Z) * Z);   (* (hash, len) -> base, latest first *)
  a_cells : list (Z * (Z * Z))   (* cell -> (table value, check value = pos + 1), latest first *)
}.

Definition memz (x : Z) (l : list Z) : bool := existsb (Z.eqb x) l.

Fixpoint cell (cells : list (Z * (Z * Z))) (i : Z) : Z * Z :=
  match cells with
  | [] => (0, 0)
  | (j, v) :: rest => if j =? i then v else cell rest i
  end.

Fixpoint prev_lookup (prev : list ((Z * Z) * Z)) (h len : Z) : option Z :=
  match prev with
  | [] => None
  | ((h', l'), b) :: rest => if (h' =? h) && (l' =? len) then Some b else prev_lookup rest h len
  end.

Definition first_pos (ps : list pair) : Z := match ps with p :: _ => fst p | [] => 0 end.
Definition last_pos (ps : list pair) : Z := fst (last ps (0, 0)).

(* first-fit scan: i ranges over the free cells below size, in increasing order *)
Fixpoint first_fit (cands : list Z) (a : alloc) (ps : list pair) (mn mx : Z) : option Z :=
  match cands with
  | [] => None
  | i :: rest =>
      if memz i (a_taken a) then first_fit rest a ps mn mx else
      let base := i - mn in
      if memz base (a_used_base a) || memz (base + mx) (a_taken a) then first_fit rest a ps mn mx
      else if existsb (fun p => memz (base + fst p) (a_taken a)) (tl ps) then first_fit rest a ps mn mx
      else Some base
  end.

(* end-of-table fallback: the first base >= size - min that no earlier line uses *)
Fixpoint free_base (fuel : nat) (used : list Z) (base : Z) : Z :=
  match fuel with
  | O => base
  | S f => if memz base used then free_base f used (base + 1) else base
  end.

Definition place (a : alloc) (ps : list pair) : alloc * Z :=
  let mn := first_pos ps in
  let mx := last_pos ps in
  let h := hash_pairs ps in
  let len := zlength (map fst ps) in
  let dedupe :=
    match prev_lookup (a_prev a) h len with
    | Some base =>
        if (mn + base >=? 0) && (mx + base <? a_size a)
           && forallb (fun p => let '(v, c) := cell (a_cells a) (base + fst p) in (v =? snd p) && (c =? fst p + 1)) ps
        then Some base else None
    | None => None
    end in
  match dedupe with
  | Some base => (a, base)
  | None =>
      let base := match first_fit (zseq (a_size a)) a ps mn mx with
                  | Some b => b
                  | None => free_base (S (length (a_used_base a))) (a_used_base a) (a_size a - mn)
                  end in
      (mkAlloc (Z.max (a_size a) (mx + base + 1)) (a_delta a)
               (map (fun p => base + fst p) ps ++ a_taken a)
               (base :: a_used_base a)
               (((h, len), base) :: a_prev a)
               (map (fun p => (base + fst p, (snd p, fst p + 1))) (rev ps) ++ a_cells a),
       base)
  end.

(* stable sort by decreasing number of pairs (sort.SliceStable) *)
Fixpoint insert_desc (e : nat * list pair) (l : list (nat * list pair)) : list (nat * list pair) :=
  match l with
  | [] => [e]
  | x :: rest => if (length (snd x) <? length (snd e))%nat then e :: l else x :: insert_desc e rest
  end.

Definition sort_desc (l : list (nat * list pair)) : list (nat * list pair) :=
  fold_left (fun acc e => insert_desc e acc) l [].

(* pack: returns (indices, table, check) *)
Definition pack (lines : list (list pair)) : list Z * list Z * list Z :=
  let entries := combine (seq 0 (length lines)) lines in
  let delta := fold_left (fun d l => Z.max d (first_pos l)) lines 0 in
  let sorted := sort_desc entries in
  let '(a, placed) := fold_left (fun '(a, placed) e =>
      let '(a', base) := place a (snd e) in (a', (fst e, base) :: placed))
      sorted (mkAlloc 0 delta [] [] [] [], []) in
  let indices := map (fun i => match find (fun pb => Nat.eqb (fst pb) i) placed with
                               | Some pb => snd pb | None => 0 end) (seq 0 (length lines)) in
  let table := map (fun i => fst (cell (a_cells a) i)) (zseq (a_size a)) in
  let check := map (fun i => snd (cell (a_cells a) i) - 1) (zseq (a_size a)) in
  (indices, table, check).

Definition optimize (t : default_enc) (terms rules : Z) (default_reduce : bool) : disp_enc :=
  let syms := zlength (d_goto t) - 1 in
  let states := zlength (d_action t) in
  let base := - terms in
  (* action part *)
  let acts := map (fun state =>
      match state_next t terms rules states default_reduce state with
      | inl d => (d, None)
      | inr next => let def := pick_default next in
                    match pairs_of next def with [] => (def, None) | ps => (def, Some ps) end
      end) (zseq states) in
  let gotos := map (fun nt =>
      let arr := goto_line t terms states nt in
      let def := pick_default arr in
      match pairs_of arr def with [] => (def, None) | ps => (def, Some ps) end) (zseq (syms - terms)) in
  let lines := flat_map (fun x => match snd x with Some ps => [ps] | None => [] end) (acts ++ gotos) in
  let '(indices, table, check) := pack lines in
  (* hand the indices back in line order *)
  let fix assign (xs : list (Z * option (list pair))) (idx : list Z) (dflt : Z) : list Z :=
    match xs with
    | [] => []
    | (_, None) :: rest => dflt :: assign rest idx dflt
    | (_, Some _) :: rest => match idx with i :: idx' => i :: assign rest idx' dflt | [] => dflt :: assign rest [] dflt end
    end in
  let n_act_lines := length (flat_map (fun x => match snd x with Some ps => [ps] | None => [] end) acts) in
  mkDispEnc (map fst gotos) (assign gotos (skipn n_act_lines indices) (- syms))
            (map fst acts) (assign acts indices base)
            base table check.
