(* The generated parser's main loop (go_parser.go.tmpl "parseFunc", non-recovering form) as a small-step
   function over an abstract machine, on token lists.  A machine packages the decoders of one table
   encoding, so that DefaultEnc, DisplacementEnc and minimized tables share the same loop. *)
From Coq Require Import List ZArith Bool.
From TM Require Import Gram.PTables.
Import ListNotations.
Local Open Scope Z_scope.

Record tok := mkTok { t_sym : Z; t_off : Z; t_end : Z }.

Record machine := mkMachine {
  m_act  : Z -> Z -> list Z -> act;   (* state, next terminal, the terminals after it (for LALR(k) rows) *)
  m_goto : Z -> Z -> Z;               (* gotoState(state, symbol); -1 when absent *)
  m_rule_len : Z -> Z;
  m_rule_sym : Z -> Z
}.

Record entry := mkEntry { e_sym : Z; e_off : Z; e_end : Z; e_state : Z }.

Inductive titem := TShift (sym : Z) (state : Z) | TReduce (rule : Z) (off : Z) (endoff : Z).

Inductive outcome :=
| Accept
| SyntaxError (off endoff : Z) (consumed : Z)   (* offsets of the offending token, number of tokens shifted *)
| Crash (why : Z)                               (* 1 stack underflow: never on validated tables *)
| OutOfFuel.

Record config := mkConfig {
  c_stack : list entry;      (* top first; never empty *)
  c_state : Z;
  c_input : list tok;        (* remaining tokens; end of input is an endless supply of EOI *)
  c_shifted : Z;
  c_trace : list titem       (* most recent first *)
}.

Definition next_tok (eoi_off : Z) (input : list tok) : tok :=
  match input with t :: _ => t | [] => mkTok 0 eoi_off eoi_off end.

Inductive step_result := Continue (c : config) | Stop (o : outcome) (c : config).

(* one iteration of [for state != end { ... }] *)
Definition step (m : machine) (eoi_off : Z) (c : config) : step_result :=
  let nx := next_tok eoi_off (c_input c) in
  let err := Stop (SyntaxError (t_off nx) (t_end nx) (c_shifted c)) c in
  match m_act m (c_state c) (t_sym nx) (map t_sym (tl (c_input c))) with
  | Reduce rule =>
      let ln := Z.to_nat (m_rule_len m rule) in
      if (length (c_stack c) <=? ln)%nat then Stop (Crash 1) c     (* rhs would include the bottom entry *)
      else
        let rhs := firstn ln (c_stack c) in      (* top first: rhs[ln-1] of the Go code is the head *)
        let rest := skipn ln (c_stack c) in
        let off := match ln with O => t_off nx | _ => e_off (last rhs (mkEntry 0 0 0 0)) end in
        let endoff := match rhs with [] => t_off nx | top :: _ => e_end top end in
        let below := match rest with b :: _ => e_state b | [] => -1 end in
        let sym := m_rule_sym m rule in
        let st := m_goto m below sym in
        let c' := mkConfig (mkEntry sym off endoff st :: rest) st (c_input c) (c_shifted c)
                           (TReduce rule off endoff :: c_trace c) in
        if st =? -1 then Stop (SyntaxError (t_off nx) (t_end nx) (c_shifted c)) c' else Continue c'
  | Shift st =>
      let input' := if t_sym nx =? 0 then c_input c else tl (c_input c) in
      Continue (mkConfig (mkEntry (t_sym nx) (t_off nx) (t_end nx) st :: c_stack c) st input'
                         (c_shifted c + 1) (TShift (t_sym nx) st :: c_trace c))
  | Err => err
  | Deep _ => err      (* unresolved LALR(k) row: treated as an error by the loop's exit test *)
  end.

Fixpoint run_loop (fuel : nat) (m : machine) (eoi_off end_state : Z) (c : config) : outcome * config :=
  match fuel with
  | O => (OutOfFuel, c)
  | S f =>
      if c_state c =? end_state then (Accept, c)
      else match step m eoi_off c with
           | Continue c' => run_loop f m eoi_off end_state c'
           | Stop o c' => (o, c')
           end
  end.

Definition run (fuel : nat) (m : machine) (start end_state : Z) (eoi_off : Z) (input : list tok) : outcome * config :=
  run_loop fuel m eoi_off end_state (mkConfig [mkEntry 0 0 0 start] start input 0 []).

(* ---- machines for the two encodings ---- *)
(* LALR(k) rows: keep walking the Lalr array with the following terminals while the cell is < -2 *)
Fixpoint deep_walk (fuel : nat) (t : default_enc) (a : Z) (more : list Z) : Z :=
  match fuel with
  | O => a
  | S f =>
      if a <? -2 then
        match more with
        | x :: more' => deep_walk f t (lalr_lookup t a x) more'
        | [] => deep_walk f t (lalr_lookup t a 0) []        (* the lexer copy keeps returning EOI *)
        end
      else a
  end.

(* does the cell hold an LALR(k) row reference? *)
Definition lalr_deep (t : default_enc) (state term : Z) : bool :=
  let a0 := zn (d_action t) state in
  if a0 <? -2 then lalr_lookup t a0 term <? -2 else false.

Definition default_act (t : default_enc) (state term : Z) (more : list Z) : act :=
  let a0 := zn (d_action t) state in
  let a1 := if a0 <? -2 then lalr_lookup t a0 term else a0 in
  let a := if a1 <? -2 then deep_walk (S (S (length more))) t a1 more else a1 in
  if a >=? 0 then Reduce a
  else if a =? -1 then (let q := goto_state t state term in if q >=? 0 then Shift q else Err)
  else Err.

Definition default_machine (t : default_enc) (rule_len rule_sym : list Z) : machine :=
  mkMachine (default_act t) (goto_state t) (zn rule_len) (zn rule_sym).

Definition opt_machine (o : disp_enc) (terms : Z) (rule_len rule_sym : list Z) : machine :=
  mkMachine (fun s a _ => action_opt o s a)
            (fun s x => if x <? terms then goto_opt_term o s x else goto_opt o terms s x)
            (zn rule_len) (zn rule_sym).
