(* C07: a real LALR(3) table set (lalr.Compile output, sampled by the harness) with its k-lookahead certificate:
   S -> A c c | B c d d ; A -> a ; B -> a   (terminals 0 eoi, 1 a, 3 c, 4 d; nonterminals 6 S, 7 A, 8 B).
   State 1 (after a) holds A -> a . and B -> a . ; the cell (1, c) refers to a deep row.  Non-vacuity of check_kc,
   and a mutated deep row (the two rules swapped) that check_k accepts and check_kc rejects. *)
From Coq Require Import List ZArith Bool.
From TM Require Import Gram.Cfg Gram.PTables Gram.Run Gram.Validator Gram.ValidatorK Gram.ValidatorKC.
Import ListNotations.
Local Open Scope Z_scope.

(* total=15 *)
Definition ex_g : grammar := mkGrammar 6 3 [mkRule 6 [7; 3; 3] 0; mkRule 6 [8; 3; 4; 4] 0; mkRule 7 [1] 0; mkRule 8 [1] 0] [(6, true)] [].
Definition ex_t : default_enc := mkDefaultEnc [(-1); (-3); (-1); (-1); (-1); (-1); 0; (-1); 1; (-1); (-2)] [3; (-7); (-1); (-2); 3; 2; 4; 3; (-1); (-2)] [0; 2; 4; 4; 10; 14; 14; 16; 18; 20] [9; 10; 0; 1; 2; 4; 3; 5; 4; 6; 5; 7; 7; 8; 0; 9; 0; 2; 0; 3].
Definition ex_rl : list Z := [3; 4; 1; 1].
Definition ex_rs : list Z := [6; 6; 7; 8].
Definition ex_finals : list Z := [10].
Definition ex_nstates : Z := 11.
Definition ex_k : nat := 3%nat.
Definition ex_ftk : fk_table := [(6, [[1; 3; 3]; [1; 3; 4]]); (7, [[1]]); (8, [[1]]); (9, [])].
Definition ex_kann : kcert := [[(4%nat, 0%nat, [[]]); (0%nat, 0%nat, [[0]]); (1%nat, 0%nat, [[0]]); (2%nat, 0%nat, [[3; 3; 0]]); (3%nat, 0%nat, [[3; 4; 4]])];
  [(2%nat, 1%nat, [[3; 3; 0]]); (3%nat, 1%nat, [[3; 4; 4]])];
  [(0%nat, 1%nat, [[0]])];
  [(1%nat, 1%nat, [[0]])];
  [(0%nat, 2%nat, [[0]])];
  [(1%nat, 2%nat, [[0]])];
  [(0%nat, 3%nat, [[0]])];
  [(1%nat, 3%nat, [[0]])];
  [(1%nat, 4%nat, [[0]])];
  [(4%nat, 1%nat, [[]])];
  [(4%nat, 2%nat, [[]])]].


(* the LR(0) certificate of check_k: the same items without lookaheads *)
Definition ex_ann : cert := map (map (fun it : kitem => let '(r, d, _) := it in (r, d, @nil Z))) ex_kann.

(* the deep row with its two answers swapped: reduces by B -> a where A -> a is due *)
Definition ex_t_bad : default_enc :=
  mkDefaultEnc (d_action ex_t) [3; (-7); (-1); (-2); 3; 3; 4; 2; (-1); (-2)] (d_goto ex_t) (d_from_to ex_t).

Lemma ex_has_deep_row : lalr_deep ex_t 1 3 = true.
Proof. vm_compute. reflexivity. Qed.

Lemma ex_check_k : check_k ex_g ex_t ex_rl ex_rs ex_nstates ex_finals ex_ann = true.
Proof. vm_compute. reflexivity. Qed.

Lemma ex_check_kc : check_kc ex_g ex_t ex_rl ex_rs ex_nstates ex_finals ex_k ex_ftk ex_kann = true.
Proof. vm_compute. reflexivity. Qed.

Lemma ex_accepts : fst (parse 100 (default_machine ex_t ex_rl ex_rs) ex_finals 0 [1; 3; 4; 4]) = Accept /\
                   fst (parse 100 (default_machine ex_t ex_rl ex_rs) ex_finals 0 [1; 3; 3]) = Accept.
Proof. vm_compute. split; reflexivity. Qed.

Lemma ex_bad_check_k : check_k ex_g ex_t_bad ex_rl ex_rs ex_nstates ex_finals ex_ann = true.
Proof. vm_compute. reflexivity. Qed.

Lemma ex_bad_check_kc : check_kc ex_g ex_t_bad ex_rl ex_rs ex_nstates ex_finals ex_k ex_ftk ex_kann = false.
Proof. vm_compute. reflexivity. Qed.

Lemma ex_bad_rejects : fst (parse 100 (default_machine ex_t_bad ex_rl ex_rs) ex_finals 0 [1; 3; 3]) <> Accept.
Proof. vm_compute. discriminate. Qed.
