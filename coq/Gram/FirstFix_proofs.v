(* C03: first_sets g is closed under the rules for every grammar whose rule heads are nonterminals in range: the
   first round creates the entry of every rule head, every later round that is not the fixpoint adds a terminal
   to some entry, and the entries hold at most N * T terminals; so the S(N*T) rounds always suffice. *)
From Coq Require Import List ZArith Bool Arith Lia Sorted.
From TM Require Import Gram.Cfg Gram.Derive Gram.LalrRef Gram.LalrSpec Gram.LalrSpec_proofs Gram.LalrSpec_proofs2
                       Gram.CfgFix_proofs Gram.LalrClosure_proofs.
Import ListNotations.
Local Open Scope Z_scope.

Section IterLe.
Variables (A : Type) (mu : A -> nat) (F : A -> A) (inv : A -> Prop) (B : nat).
Hypothesis Hinv : forall x, inv x -> inv (F x).
Hypothesis Hbound : forall x, inv x -> (mu x <= B)%nat.
Hypothesis Hinfl : forall x, inv x -> (mu x <= mu (F x))%nat /\ (mu (F x) = mu x -> F x = x).

Lemma iterate_reaches_fix_le n : forall x, inv x -> (B - mu x <= n)%nat -> F (iterate n F x) = iterate n F x.
Proof.
  induction n as [|n IH]; intros x Hx Hn; simpl.
  - destruct (Hinfl x Hx) as [H1 H2]. apply H2. pose proof (Hbound (F x) (Hinv x Hx)). pose proof (Hbound x Hx). lia.
  - destruct (Hinfl x Hx) as [H1 H2]. destruct (Nat.eq_dec (mu (F x)) (mu x)) as [E|E].
    + rewrite (H2 E), (iterate_fixed_stays _ F n x (H2 E)). exact (H2 E).
    + apply IH; [auto|]. lia.
Qed.
End IterLe.

Definition keys (t : first_table) : list Z := map fst t.
Fixpoint elems (t : first_table) : nat := match t with [] => 0%nat | e :: r => (length (snd e) + elems r)%nat end.

Lemma ft_add_keys_in t x l y : In y (keys t) -> In y (keys (ft_add t x l)).
Proof.
  induction t as [|[z l0] t IH]; simpl; [intros []|]. destruct (z =? x); simpl; tauto.
Qed.

Lemma ft_add_key_new t x l : In x (keys (ft_add t x l)).
Proof.
  induction t as [|[z l0] t IH]; simpl; [auto|]. destruct (Z.eqb_spec z x); simpl; auto.
Qed.

Lemma ft_add_present t x l : In x (keys t) ->
  keys (ft_add t x l) = keys t /\ (elems t <= elems (ft_add t x l))%nat /\
  (elems (ft_add t x l) = elems t -> ft_add t x l = t).
Proof.
  induction t as [|[z l0] t IH]; simpl; [intros []|]. intros Hin. destruct (Z.eqb_spec z x) as [->|Hne]; simpl.
  - destruct (union_len l l0) as [H1 H2]. split; auto. split; [lia|]. intros E. rewrite H2 by lia. reflexivity.
  - destruct Hin as [Hin|Hin]; [contradiction|]. destruct (IH Hin) as (H1 & H2 & H3).
    split; [f_equal; auto|]. split; [lia|]. intros E. f_equal. apply H3. lia.
Qed.

Lemma ft_add_fixed t x l : In x (keys t) -> ft_add t x l = t -> incl l (ft_get t x).
Proof.
  induction t as [|[z l0] t IH]; simpl; [intros []|]. intros Hin E. destruct (Z.eqb_spec z x) as [->|Hne].
  - injection E as E. intros a Ha. rewrite <- E. apply cfg_union_In. auto.
  - destruct Hin as [Hin|Hin]; [contradiction|]. injection E as E. auto.
Qed.

Section First.
Variable g : grammar.
Hypothesis Hrange : forall r, In r (g_rules g) -> g_terms g <= r_lhs r < g_terms g + g_nonterms g.
Let nl := nullable_set g.

Definition fstep (t : first_table) (r : rule) : first_table :=
  ft_add t (r_lhs r) (fst (first_seq g nl (ft_get t) (r_rhs r))).

Lemma first_step_eq t : first_step g nl t = fold_left fstep (g_rules g) t.
Proof. reflexivity. Qed.

(* all rule heads have an entry *)
Definition AP (t : first_table) : Prop := forall r, In r (g_rules g) -> In (r_lhs r) (keys t).

Lemma fold_keys_mono rs : forall t y, In y (keys t) -> In y (keys (fold_left fstep rs t)).
Proof. induction rs as [|r rs IH]; intros t y H; simpl; auto. apply IH. apply ft_add_keys_in. exact H. Qed.

Lemma fold_AP rs : forall t r, In r rs -> In (r_lhs r) (keys (fold_left fstep rs t)).
Proof.
  induction rs as [|r0 rs IH]; intros t r Hin; [destruct Hin|]. destruct Hin as [->|Hin]; simpl.
  - apply fold_keys_mono. apply ft_add_key_new.
  - apply IH. exact Hin.
Qed.

Lemma AP_step t : AP (first_step g nl t).
Proof. intros r Hr. rewrite first_step_eq. apply fold_AP. exact Hr. Qed.

Lemma fold_present rs : forall t, (forall r, In r rs -> In (r_lhs r) (keys t)) ->
  keys (fold_left fstep rs t) = keys t /\ (elems t <= elems (fold_left fstep rs t))%nat /\
  (elems (fold_left fstep rs t) = elems t -> fold_left fstep rs t = t /\ forall r, In r rs -> fstep t r = t).
Proof.
  induction rs as [|r rs IH]; intros t Hp; simpl.
  - split; auto. split; auto. intros _. split; auto. intros r [].
  - destruct (ft_add_present t (r_lhs r) (fst (first_seq g nl (ft_get t) (r_rhs r))) (Hp r (or_introl eq_refl))) as (H1 & H2 & H3).
    fold (fstep t r) in H1, H2, H3.
    destruct (IH (fstep t r)) as (G1 & G2 & G3).
    { intros r' Hr'. rewrite H1. apply Hp. right. exact Hr'. }
    split; [congruence|]. split; [lia|]. intros E.
    assert (E1 : fstep t r = t) by (apply H3; lia). rewrite E1 in *.
    destruct (G3 E) as [G4 G5]. split; auto. intros r' [<-|Hr']; auto.
Qed.

(* sorted entries over the terminals, distinct keys among the nonterminals *)
Definition lst_ok (l : list Z) : Prop := StronglySorted Z.lt l /\ Forall (fun x => 0 <= x < g_terms g) l.
Definition finv (t : first_table) : Prop :=
  NoDup (keys t) /\ Forall (fun e => g_terms g <= fst e < g_terms g + g_nonterms g /\ lst_ok (snd e)) t.

Lemma lst_ok_nil : lst_ok [].
Proof. split; constructor. Qed.

Lemma union_ok a b : Forall (fun x => 0 <= x < g_terms g) a -> lst_ok b -> lst_ok (union a b).
Proof.
  unfold union. revert b. induction a as [|x a IH]; intros b Ha Hb; simpl; auto.
  inversion Ha as [|x' a' Hx Ha']; subst. apply IH; auto. destruct Hb as [H1 H2]. split; [apply ins_sorted; auto|].
  rewrite Forall_forall in *. intros z Hz. apply cfg_ins_In in Hz. destruct Hz as [->|Hz]; auto.
Qed.

Lemma ft_get_ok t x : finv t -> lst_ok (ft_get t x).
Proof.
  intros [_ Hf]. induction t as [|[z l0] t IH]; simpl; [apply lst_ok_nil|].
  inversion Hf as [|e t' He Hf']; subst. destruct (z =? x); [apply He|auto].
Qed.

Lemma first_seq_ok t w : finv t -> lst_ok (fst (first_seq g nl (ft_get t) w)).
Proof.
  intros Ht. induction w as [|s w IH]; simpl; [apply lst_ok_nil|].
  destruct (is_term g s) eqn:Et.
  - simpl. unfold is_term in Et. apply andb_true_iff in Et. destruct Et as [E1 E2]. apply Z.leb_le in E1. apply Z.ltb_lt in E2.
    split; repeat constructor; lia.
  - destruct (mem s nl).
    + destruct (first_seq g nl (ft_get t) w) as [f n]. simpl in *. apply union_ok; auto. apply (ft_get_ok t s Ht).
    + simpl. apply ft_get_ok. exact Ht.
Qed.

Lemma ft_add_inv t x l : finv t -> g_terms g <= x < g_terms g + g_nonterms g -> lst_ok l -> finv (ft_add t x l).
Proof.
  intros [Hnd Hf] Hx Hl. induction t as [|[z l0] t IH]; simpl.
  - split; [constructor; [intros []|constructor]|constructor; [split; assumption|constructor]].
  - inversion Hf as [|e t' He Hf']; subst. simpl in Hnd. inversion Hnd as [|z' k' Hz Hnd']; subst.
    destruct (Z.eqb_spec z x) as [->|Hne]; simpl.
    + split; [constructor; auto|]. constructor; auto. simpl. split; [apply He|]. apply union_ok; [apply Hl|apply He].
    + destruct (IH Hnd' Hf') as [G1 G2]. split; [|constructor; auto]. simpl. constructor; auto.
      intros Hin. apply Hz. clear - Hin Hne. induction t as [|[y l1] t IH]; simpl in *.
      * destruct Hin as [Hin|[]]. congruence.
      * destruct (y =? x); simpl in Hin; tauto.
Qed.

Lemma finv_step t : finv t -> finv (first_step g nl t).
Proof.
  intros Ht. rewrite first_step_eq. apply (fold_left_inv finv); auto.
  intros t' r Hr Ht'. apply ft_add_inv; auto. apply first_seq_ok. exact Ht'.
Qed.

Lemma elems_bound t : finv t -> (elems t <= Z.to_nat (g_nonterms g * g_terms g))%nat.
Proof.
  intros [Hnd Hf].
  assert (H1 : (elems t <= length t * Z.to_nat (g_terms g))%nat).
  { clear Hnd. induction t as [|e t IH]; simpl; [lia|]. inversion Hf as [|e' t' He Hf']; subst.
    destruct He as [_ [Hs Hr]]. pose proof (sorted_range_length _ 0 (g_terms g) Hs Hr) as H.
    rewrite Z.sub_0_r in H. specialize (IH Hf'). lia. }
  assert (H2 : (length t <= Z.to_nat (g_nonterms g))%nat).
  { replace (length t) with (length (keys t)) by apply map_length.
    rewrite <- (ntU_length g). apply NoDup_incl_length; auto.
    intros y Hy. unfold keys in Hy. apply in_map_iff in Hy. destruct Hy as (e & <- & He).
    rewrite Forall_forall in Hf. destruct (Hf e He) as [Hk _].
    unfold ntU. apply in_map_iff. exists (fst e - g_terms g). split; [lia|]. apply in_zrange. lia. }
  destruct (Z_le_gt_dec 0 (g_nonterms g)) as [Hn|Hn]; destruct (Z_le_gt_dec 0 (g_terms g)) as [Ht|Ht].
  - rewrite Z2Nat.inj_mul by lia. nia.
  - replace (Z.to_nat (g_terms g)) with 0%nat in H1 by lia. lia.
  - replace (Z.to_nat (g_nonterms g)) with 0%nat in H2 by lia. nia.
  - replace (Z.to_nat (g_nonterms g)) with 0%nat in H2 by lia. nia.
Qed.

Lemma first_step_fix : first_step g nl (first_sets g) = first_sets g.
Proof.
  unfold first_sets. fold nl. cbn [iterate].
  apply (iterate_reaches_fix_le first_table elems (first_step g nl) (fun t => finv t /\ AP t)
           (Z.to_nat (g_nonterms g * g_terms g))).
  - intros t [H1 H2]. split; [apply finv_step; auto|apply AP_step].
  - intros t [H1 _]. apply elems_bound. exact H1.
  - intros t [_ H2]. rewrite first_step_eq. destruct (fold_present (g_rules g) t H2) as (_ & G2 & G3).
    split; auto. intros E. apply G3. exact E.
  - split; [|apply AP_step]. apply finv_step. split; constructor.
  - lia.
Qed.

Theorem first_sets_closed : first_closed g (nullable_set g) (first_sets g) = true.
Proof.
  unfold first_closed. fold nl. apply forallb_forall. intros r Hr.
  assert (HAP : AP (first_sets g)).
  { unfold first_sets. fold nl. cbn [iterate]. apply (iterate_inv AP); [apply AP_step|intros; apply AP_step]. }
  pose proof first_step_fix as Hfix. rewrite first_step_eq in Hfix.
  destruct (fold_present (g_rules g) (first_sets g) HAP) as (_ & _ & G3).
  destruct (G3 ltac:(rewrite Hfix; reflexivity)) as [_ G5]. specialize (G5 r Hr). unfold fstep in G5.
  apply ft_add_fixed in G5; [|apply HAP; exact Hr].
  unfold subset_b. apply forallb_forall. intros x Hx. apply cfg_mem_In. apply G5. exact Hx.
Qed.
End First.
