(* Model of how semantic-action references ($name, $N, $$, ${first()}, ${last()}, ${x.offset}, ${x.endoffset})
   are bound:
     compiler/syntax.go   convertPart / allocatePos / pushName / pushRule / popRule   -> [convert]
     syntax/expand.go     expandExpr (Optional, Sequence, Choice, Alias)              -> [expand], [pick]
     compiler/compiler.go traverse (actualPos, pending mid-rule command, numRefs)    -> [traverse], [run]
     grammar/grammar.go   ActionVars.resolve                                          -> [resolve]
     gen/funcs.go         goParserAction (stack[len(stack)-(SymRefCount-index)])      -> [eval_ref]
   Executable definitions only; proofs are in ActionRefs_proofs.v. *)
From Coq Require Import List NArith ZArith Bool Arith.
Import ListNotations.
Local Open Scope nat_scope.

(* ---------- names: an identifier plus the "#k" suffix pushName appends on collisions ---------- *)
Definition name := (N * option N)%type.

Definition name_eqb (a b : name) : bool :=
  N.eqb (fst a) (fst b) &&
  match snd a, snd b with
  | None, None => true
  | Some x, Some y => N.eqb x y
  | _, _ => false
  end.

(* Go map[string][]int as an association list; nm_set overwrites *)
Definition nmap := list (name * list nat).

Fixpoint nm_get (m : nmap) (k : name) : option (list nat) :=
  match m with
  | [] => None
  | (k', v) :: r => if name_eqb k' k then Some v else nm_get r k
  end.

Fixpoint nm_del (m : nmap) (k : name) : nmap :=
  match m with
  | [] => []
  | (k', v) :: r => if name_eqb k' k then nm_del r k else (k', v) :: nm_del r k
  end.

Definition nm_set (m : nmap) (k : name) (v : list nat) : nmap := (k, v) :: nm_del m k.

(* ---------- the right-hand side of a rule as written (after parsing, before Expand) ---------- *)
Inductive part :=
| PEmpty
| PSym (sym : N) (nm : N) (pos : nat)   (* symbol reference; nm = its own name; pos filled by convert *)
| PList (lid : N) (pos : nat)           (* list / set: its body is a rule of its own; one position *)
| POpt (p : part)
| PSeq (a b : part)
| PChoice (a b : part)
| PScope (p : part)                     (* one alternative of a parenthesised group: pushRule(false)..popRule *)
| PAlias (nm : N) (p : part)            (* inner[nm] *)
| PCmd (c : N)                          (* { code } : index into the command table *)
| PMark (m : N).                        (* .name : state marker -- no position, no name, no stack slot *)

Record cmdargs := mkCA { ca_names : nmap; ca_maxpos : nat }.

(* syntaxLoader.ruleStack below the top-level rule: head = innermost nested rule *)
Record cst := mkC { c_top : nmap; c_stack : list nmap; c_pos : nat; c_cmds : list (N * cmdargs) }.

Definition cur_names (s : cst) : nmap := match c_stack s with m :: _ => m | [] => c_top s end.

Fixpoint find_free (fuel : nat) (top : nmap) (nm : N) (i : N) : N :=
  match fuel with
  | O => i
  | S f => match nm_get top (nm, Some i) with
           | Some _ => find_free f top nm (N.succ i)
           | None => i
           end
  end.

(* pushName: apply f to the top-level names and to the current rule's names (the same map when the
   current rule is the top-level one) *)
Definition on_both (s : cst) (f : nmap -> nmap) : cst :=
  match c_stack s with
  | [] => mkC (f (c_top s)) [] (c_pos s) (c_cmds s)
  | m :: r => mkC (f (c_top s)) (f m :: r) (c_pos s) (c_cmds s)
  end.

Definition push_name (s : cst) (nm : N) (ps : list nat) : cst :=
  let top := c_top s in
  let '(s, index) :=
    match nm_get top (nm, Some 0%N) with
    | Some _ => (s, Some (find_free (S (length top)) top nm 1%N))
    | None =>
        match nm_get top (nm, None) with
        | Some val =>
            (on_both s (fun m => nm_del (nm_set m (nm, Some 0%N) val) (nm, None)), Some 1%N)
        | None => (s, None)
        end
    end in
  on_both s (fun m => nm_set m (nm, index) ps).

(* collectPos of the RhsAlias case *)
Fixpoint collect (p : part) : list nat :=
  match p with
  | PSym _ _ pos => if 0 <? pos then [pos] else []
  | PList _ pos => if 0 <? pos then [pos] else []
  | POpt q | PScope q | PAlias _ q => collect q
  | PSeq a b | PChoice a b => collect a ++ collect b
  | PEmpty | PCmd _ | PMark _ => []
  end.

Fixpoint merge_names (parent child : nmap) : nmap :=
  match child with
  | [] => parent
  | (k, v) :: r => merge_names (nm_set parent k v) r
  end.

Fixpoint convert (p : part) (s : cst) : part * cst :=
  match p with
  | PEmpty => (PEmpty, s)
  | PSym sym nm _ =>
      let pos := c_pos s in
      let s := mkC (c_top s) (c_stack s) (S pos) (c_cmds s) in
      (PSym sym nm pos, push_name s nm [pos])
  | PList lid _ =>
      let pos := c_pos s in
      (PList lid pos, mkC (c_top s) (c_stack s) (S pos) (c_cmds s))
  | POpt q => let '(q', s) := convert q s in (POpt q', s)
  | PSeq a b => let '(a', s) := convert a s in let '(b', s) := convert b s in (PSeq a' b', s)
  | PChoice a b => let '(a', s) := convert a s in let '(b', s) := convert b s in (PChoice a' b', s)
  | PScope q =>
      let s := mkC (c_top s) ([] :: c_stack s) (c_pos s) (c_cmds s) in
      let '(q', s) := convert q s in
      let s := match c_stack s with
               | child :: parent :: r => mkC (c_top s) (merge_names parent child :: r) (c_pos s) (c_cmds s)
               | [_] => mkC (c_top s) [] (c_pos s) (c_cmds s)
               | [] => s
               end in
      (PScope q', s)
  | PAlias nm q =>
      let '(q', s) := convert q s in
      let ps := collect q' in
      (PAlias nm q', match ps with [] => s | _ => push_name s nm ps end)
  | PCmd c =>
      (PCmd c, mkC (c_top s) (c_stack s) (c_pos s) (c_cmds s ++ [(c, mkCA (cur_names s) (c_pos s))]))
  | PMark m => (PMark m, s)   (* convertPart, *ast.StateMarker: no allocatePos, no pushName *)
  end.

Definition convert_rule (p : part) : part * cst := convert p (mkC [] [] 1 []).

(* ---------- expansion ---------- *)
Inductive item := IRef (pos : nat) | ICmd (c : N) | IMark (m : N).

Definition multi_concat (xs ys : list (list item)) : list (list item) :=
  flat_map (fun x => map (fun y => x ++ y) ys) xs.

Fixpoint expand (p : part) : list (list item) :=
  match p with
  | PEmpty => [[]]
  | PSym _ _ pos => [[IRef pos]]
  | PList _ pos => [[IRef pos]]
  | POpt q => expand q ++ [[]]
  | PSeq a b => multi_concat (expand a) (expand b)
  | PChoice a b => expand a ++ expand b
  | PScope q | PAlias _ q => expand q
  | PCmd c => [[ICmd c]]
  | PMark m => [[IMark m]]
  end.

(* the expansion a derivation uses: one boolean per optional (present?) / choice (right?) met on the way *)
Fixpoint pick (p : part) (sel : list bool) : list item * list bool :=
  match p with
  | PEmpty => ([], sel)
  | PSym _ _ pos => ([IRef pos], sel)
  | PList _ pos => ([IRef pos], sel)
  | POpt q => match sel with
              | true :: r => pick q r
              | false :: r => ([], r)
              | [] => ([], [])
              end
  | PSeq a b => let '(x, r) := pick a sel in let '(y, r) := pick b r in (x ++ y, r)
  | PChoice a b => match sel with
                   | true :: r => pick b r
                   | false :: r => pick a r
                   | [] => pick a []
                   end
  | PScope q | PAlias _ q => pick q sel
  | PCmd c => ([ICmd c], sel)
  | PMark m => ([IMark m], sel)
  end.

(* ---------- compiler.go traverse: pending command, mid-rule extraction ---------- *)
(* LMark: lalr.Marker(i) appended to rule.RHS -- it is part of the rule handed to the LALR generator but not
   of the run-time rule: RuleLen, SymRefCount and numRefs all skip it *)
Inductive litem := LRef (pos : nat) | LMid (cs : list N) | LFinal (cs : list N) | LMark (m : N).

Fixpoint traverse (items : list item) (pending : list N) : list litem :=
  match items with
  | [] => match pending with [] => [] | _ => [LFinal pending] end
  | ICmd c :: r => traverse r (pending ++ [c])
  | IRef pos :: r =>
      match pending with [] => [] | _ => [LMid pending] end ++ LRef pos :: traverse r []
  | IMark m :: r => LMark m :: traverse r pending   (* the pending command stays pending *)
  end.

(* "mixing mid-rule actions with state markers is not supported": when a pending command is extracted into a
   nonterminal, a state marker already appended to rule.RHS is reported as an error (the grammar is rejected).
   marked: a marker has been appended to the rule so far *)
Fixpoint mixes (ls : list litem) (marked : bool) : bool :=
  match ls with
  | [] => false
  | LMark _ :: r => mixes r true
  | LMid _ :: r => marked || mixes r marked
  | LRef _ :: r | LFinal _ :: r => mixes r marked
  end.

(* ---------- run-time values ---------- *)
Inductive val := VNil | V (id : N).
Record entry := mkE { e_val : val; e_off : Z; e_end : Z }.

Inductive arg := ANil | AM1 | AVal (id : N) | AInt (z : Z) | AErr (why : N).
(* AErr: 1 index out of range, 2 unknown name, 3 value of a span, 4 stack underflow, 5 no args, 6 children,
         7 first()/last() hit an entry without a position ("internal error: cannot find the position for index"),
         8 first()/last() given to ActionVars.resolve (never happens: goParserAction handles them itself) *)

Inductive rref := RNum (n : nat) | RName (nm : name) | RLeft | RFirst | RLast.
Inductive prop := PValue | POffset | PEndoffset.

Definition remap := list (nat * nat).   (* actualPos: position -> index; latest binding first *)

Fixpoint rm_get (m : remap) (pos : nat) : option nat :=
  match m with
  | [] => None
  | (p, i) :: r => if Nat.eqb p pos then Some i else rm_get r pos
  end.

(* ActionVars.resolve (zeroBased = true as goParserAction calls it) *)
Inductive resolved := ResErr (why : N) | ResLeft | ResAbsent | ResAt (index endindex : nat).

Definition last_of (l : list nat) (d : nat) : nat := last l d.

Definition resolve (ca : cmdargs) (rm : remap) (r : rref) : resolved :=
  match r with
  | RLeft => ResLeft
  | RFirst | RLast => ResErr 8
  | RNum n =>
      let pos := S n in
      if (ca_maxpos ca <=? pos) then ResErr 1
      else match rm_get rm pos with
           | Some i => ResAt i i
           | None => ResAbsent
           end
  | RName nm =>
      match nm_get (ca_names ca) nm with
      | None => ResErr 2
      | Some [] => ResErr 2
      | Some positions =>
          let active := filter (fun p => match rm_get rm p with Some _ => true | None => false end) positions in
          match active with
          | [] => ResAbsent
          | a0 :: _ =>
              match rm_get rm a0, rm_get rm (last_of active a0) with
              | Some i, Some e => ResAt i e
              | _, _ => ResAbsent
              end
          end
      end
  end.

(* gen/funcs.go reverseLookup(i, Remap) != 0: some position is bound to index i *)
Definition has_pos (rm : remap) (i : nat) : bool := existsb (fun x => Nat.eqb (snd x) i) rm.

(* the switch at the head of goParserAction's loop: left(), first(), last() are decided there from SymRefCount
   (first() = index 0, last() = index SymRefCount-1, -1 when the rule has pushed nothing), everything else
   goes through ActionVars.Resolve; then the "pos == 0 && index >= 0" reverse lookup, which fails when the
   first / last entry is a mid-rule nonterminal or the recursive reference of a list rule *)
Definition locate (ca : cmdargs) (rm : remap) (count : nat) (r : rref) : resolved :=
  match r with
  | RFirst => if count =? 0 then ResAbsent else if has_pos rm 0 then ResAt 0 0 else ResErr 7
  | RLast => if count =? 0 then ResAbsent
             else if has_pos rm (count - 1) then ResAt (count - 1) (count - 1) else ResErr 7
  | _ => resolve ca rm r
  end.

(* stack[len(stack)-k] ; the stack is bottom first *)
Definition slot (stack : list entry) (k : nat) : option entry :=
  if (k =? 0) || (length stack <? k) then None else nth_error stack (length stack - k).

Definition val_arg (v : val) : arg := match v with VNil => ANil | V id => AVal id end.

Definition entry_arg (e : entry) (pr : prop) : arg :=
  match pr with PValue => val_arg (e_val e) | POffset => AInt (e_off e) | PEndoffset => AInt (e_end e) end.

(* goParserAction for one reference, evaluated on the run-time stack; count = SymRefCount *)
Definition eval_ref (ca : cmdargs) (rm : remap) (count : nat) (stack : list entry) (lhs : entry)
                    (r : rref) (pr : prop) : arg :=
  match locate ca rm count r with
  | ResErr w => AErr w
  | ResLeft => entry_arg lhs pr
  | ResAbsent => match pr with PValue => ANil | _ => AM1 end
  | ResAt i e =>
      match pr with
      | PValue => if Nat.eqb i e then
                    match slot stack (count - i) with Some x => val_arg (e_val x) | None => AErr 4 end
                  else AErr 3
      | POffset => match slot stack (count - i) with Some x => AInt (e_off x) | None => AErr 4 end
      | PEndoffset => match slot stack (count - e) with Some x => AInt (e_end x) | None => AErr 4 end
      end
  end.

(* ---------- one rule application ---------- *)
Definition cmdtab := list (N * list (rref * prop)).   (* command id -> its references, in textual order *)

Fixpoint ct_get (t : cmdtab) (c : N) : list (rref * prop) :=
  match t with
  | [] => []
  | (c', rs) :: r => if N.eqb c' c then rs else ct_get r c
  end.

Fixpoint ca_get (t : list (N * cmdargs)) (c : N) : option cmdargs :=
  match t with
  | [] => None
  | (c', a) :: r => if N.eqb c' c then Some a else ca_get r c
  end.

(* joined commands are all resolved against the environment of the LAST one ("It is okay to override the
   args - the new ones are more permissive"; not true when the last one sits in a parenthesised alternative:
   known finding joined-action-env -- such grammars are rejected by goParserAction, AErr 2 here) *)
Definition run_cmds (tab : cmdtab) (cas : list (N * cmdargs)) (cs : list N) (rm : remap)
                    (base st : list entry) (lhs : entry) : list (N * list arg) :=
  match ca_get cas (last cs 0%N) with
  | None => map (fun c => (c, [AErr 5])) cs
  | Some ca =>
      map (fun c => (c, map (fun '(r, pr) => eval_ref ca rm (length st) (base ++ st) lhs r pr) (ct_get tab c))) cs
  end.

Definition first_off (st : list entry) (cur : Z) : Z :=
  match st with e :: _ => e_off e | [] => cur end.

(* st: the entries this rule has pushed so far (so numRefs = length st); children: the values of the
   symbols still to come; cur: offset where the next symbol starts *)
Fixpoint run (tab : cmdtab) (cas : list (N * cmdargs)) (ls : list litem) (base st : list entry) (rm : remap)
             (children : list entry) (cur : Z) : list (N * list arg) :=
  match ls with
  | [] => []
  | LRef pos :: r =>
      match children with
      | [] => [(0%N, [AErr 6])]
      | c :: cs =>
          run tab cas r base (st ++ [c]) (if 0 <? pos then (pos, length st) :: rm else rm) cs (e_end c)
      end
  | LMid cs :: r =>
      let lhs := mkE VNil cur cur in
      run_cmds tab cas cs rm base st lhs ++ run tab cas r base (st ++ [lhs]) rm children cur
  | LFinal cs :: r =>
      run_cmds tab cas cs rm base st (mkE VNil (first_off st cur) cur) ++ run tab cas r base st rm children cur
  | LMark _ :: r => run tab cas r base st rm children cur   (* no entry, numRefs unchanged, no actualPos *)
  end.

(* lead: the rule is the recursive rule of a list, "list : list body" -- one leading symbol without position *)
Definition run_node (tab : cmdtab) (body : part) (lead : bool) (sel : list bool)
                    (base children : list entry) (start : Z) : list (N * list arg) :=
  let '(body', cs) := convert_rule body in
  let items := (if lead then [IRef 0] else []) ++ fst (pick body' sel) in
  run tab (c_cmds cs) (traverse items []) base [] [] children start.

(* the rule is rejected by the compiler: some expansion puts a state marker in front of a mid-rule action *)
Definition rule_mixes (body : part) : bool :=
  existsb (fun x => mixes (traverse x []) false) (expand (fst (convert_rule body))).

(* the rule as written without its state markers *)
Fixpoint erase_marks (p : part) : part :=
  match p with
  | PMark _ => PEmpty
  | POpt q => POpt (erase_marks q)
  | PSeq a b => PSeq (erase_marks a) (erase_marks b)
  | PChoice a b => PChoice (erase_marks a) (erase_marks b)
  | PScope q => PScope (erase_marks q)
  | PAlias nm q => PAlias nm (erase_marks q)
  | PEmpty | PSym _ _ _ | PList _ _ | PCmd _ => p
  end.
