(* C01: the validator of Validator.v is sound: check = true implies, for every token sequence,
   soundness, completeness, crash-freedom and error position of the parser main loop. *)
From Coq Require Import List ZArith Bool Arith Lia.
From TM Require Import Gram.Cfg Gram.PTables Gram.Run Gram.Derive Gram.Validator.
Import ListNotations.
Local Open Scope Z_scope.

(* ---------- small facts ---------- *)
Lemma in_zrange0 n x : In x (zrange0 n) <-> 0 <= x < n.
Proof.
  unfold zrange0. rewrite in_map_iff. split.
  - intros (k & <- & Hk). apply in_seq in Hk. lia.
  - intros H. exists (Z.to_nat x). split; [lia|]. apply in_seq. lia.
Qed.

Lemma mem_In x l : mem x l = true <-> In x l.
Proof.
  unfold mem. rewrite existsb_exists. split.
  - intros (y & Hy & E). apply Z.eqb_eq in E. subst; auto.
  - intros H; exists x; split; auto. apply Z.eqb_refl.
Qed.

Lemma subset_incl a b : subset a b = true -> incl a b.
Proof. unfold subset. rewrite forallb_forall. intros H x Hx. apply mem_In. auto. Qed.

Lemma ins_In x y l : In y (ins x l) <-> y = x \/ In y l.
Proof.
  induction l as [|z t IH]; simpl.
  - intuition.
  - destruct (x <? z) eqn:E1; [simpl; intuition|].
    destruct (x =? z) eqn:E2.
    + apply Z.eqb_eq in E2. subst. simpl. intuition.
    + simpl. rewrite IH. intuition.
Qed.

Lemma union_In a b y : In y (union a b) <-> In y a \/ In y b.
Proof.
  unfold union. revert b. induction a as [|x a IH]; intros b; simpl.
  - intuition.
  - rewrite IH, ins_In. intuition congruence.
Qed.

Lemma firstn_S_nth_error {A} (l : list A) d x : nth_error l d = Some x -> firstn (S d) l = firstn d l ++ [x].
Proof.
  revert l; induction d as [|d IH]; intros [|y l] H; simpl in *; try discriminate.
  - injection H as ->. reflexivity.
  - f_equal. apply IH. exact H.
Qed.

Lemma skipn_nth_error_cons {A} (l : list A) d x g : skipn d l = x :: g -> nth_error l d = Some x /\ skipn (S d) l = g.
Proof.
  revert l; induction d as [|d IH]; intros l H; destruct l; simpl in *; try discriminate.
  - injection H as -> ->. auto.
  - apply IH in H. exact H.
Qed.

Lemma nth_error_skipn_cons {A} (l : list A) d x : nth_error l d = Some x -> skipn d l = x :: skipn (S d) l.
Proof.
  revert l; induction d as [|d IH]; intros [|y l] H; simpl in *; try discriminate.
  - injection H as ->. reflexivity.
  - apply IH. exact H.
Qed.

Lemma In_firstn {A} (x : A) n l : In x (firstn n l) -> In x l.
Proof.
  revert l; induction n as [|n IH]; intros l; destruct l as [|y l]; simpl; try tauto.
  intros [H|H]; [left; exact H|right; apply IH; exact H].
Qed.

Scheme derives_ind2 := Minimality for derives Sort Prop
  with derives_seq_ind2 := Minimality for derives_seq Sort Prop.
Combined Scheme derives_mutind from derives_ind2, derives_seq_ind2.

Section Proofs.
Variable g : grammar.
Variable m : machine.
Variable nstates : Z.
Variable finals : list Z.
Variable nl : list Z.
Variable ft : first_table.
Variable ann : cert.

Hypothesis Hm : forall s a more, m_act m s a more = m_act m s a [].
Hypothesis Hchk : check g m nstates finals nl ft ann = true.

Notation T := (vT g).
Notation NS := (vNS g).
Notation NR := (nrules g).
Notation NI := (ninputs g).
Notation items := (items ann).
Notation has_item := (has_item ann).
Notation item_la_incl := (item_la_incl ann).
Notation trans := (trans g m).
Notation arule := (arule g).
Notation final_of := (final_of finals).

Lemma check_parts :
  chk_rules g = true /\ chk_ann_len nstates ann = true /\ chk_items g nstates ann = true /\
  chk_trans g m nstates ann = true /\ chk_reduce g m nstates ann = true /\ chk_start g ann = true /\
  chk_final g nstates finals ann = true /\ chk_goto_def g m nstates ann = true /\
  chk_advance g m nstates ann = true /\ chk_closure g nstates nl ft ann = true /\
  chk_reduce_la g m nstates ann = true /\ chk_nullable g nl = true /\ chk_first g nl ft = true /\
  chk_inputs g m finals ann = true.
Proof. generalize Hchk. unfold check. rewrite !andb_true_iff. tauto. Qed.

Lemma has_item_In q r d : has_item q r d = true <-> exists L, In (r, d, L) (items q).
Proof.
  unfold Validator.has_item. rewrite existsb_exists. split.
  - intros ([[r' d'] L] & Hin & E). apply andb_true_iff in E. destruct E as [E1 E2].
    apply Nat.eqb_eq in E1. apply Nat.eqb_eq in E2. subst. eauto.
  - intros (L & Hin). exists (r, d, L). split; [exact Hin|]. rewrite !Nat.eqb_refl. reflexivity.
Qed.

Lemma item_la_incl_In q r d L : item_la_incl q r d L = true -> exists L', In (r, d, L') (items q) /\ incl L L'.
Proof.
  unfold Validator.item_la_incl. rewrite existsb_exists.
  intros ([[r' d'] L'] & Hin & E). rewrite !andb_true_iff in E. destruct E as [[E1 E2] E3].
  apply Nat.eqb_eq in E1. apply Nat.eqb_eq in E2. subst. exists L'. split; [exact Hin|]. apply subset_incl. exact E3.
Qed.

Lemma item_state q it : In it (items q) -> 0 <= q < nstates.
Proof.
  destruct check_parts as (_ & Hl & _). unfold chk_ann_len in Hl. apply Z.leb_le in Hl.
  unfold Validator.items. destruct (q <? 0) eqn:E; [intros []|]. apply Z.ltb_ge in E.
  intros Hin. destruct (lt_dec (Z.to_nat q) (length ann)) as [Hlt|Hge]; [lia|].
  rewrite nth_overflow in Hin by lia. destruct Hin.
Qed.

Lemma L_rules :
  1 <= T /\ 0 <= g_nonterms g /\
  (forall rl, In rl (g_rules g) -> T <= r_lhs rl < NS /\ forall s, In s (r_rhs rl) -> 1 <= s < NS) /\
  (forall inp, In inp (g_inputs g) -> T <= fst inp < NS).
Proof.
  destruct check_parts as (H & _). unfold chk_rules in H. rewrite !andb_true_iff in H.
  destruct H as [[[H1 H0] H2] H3]. apply Z.leb_le in H1. apply Z.leb_le in H0.
  rewrite forallb_forall in H2. rewrite forallb_forall in H3. repeat split; auto.
  - apply H2 in H. rewrite !andb_true_iff in H. lia.
  - apply H2 in H. rewrite !andb_true_iff in H. lia.
  - apply H2 in H. rewrite !andb_true_iff in H. destruct H as [_ H]. rewrite forallb_forall in H.
    apply H in H4. rewrite andb_true_iff in H4. lia.
  - apply H2 in H. rewrite !andb_true_iff in H. destruct H as [_ H]. rewrite forallb_forall in H.
    apply H in H4. rewrite andb_true_iff in H4. lia.
  - apply H3 in H. rewrite andb_true_iff in H. lia.
  - apply H3 in H. rewrite andb_true_iff in H. lia.
Qed.

Lemma L_items q r d L : In (r, d, L) (items q) ->
  exists rl, arule r = Some rl /\ (d <= length (r_rhs rl))%nat /\ forall a, In a L -> 0 <= a < T.
Proof.
  intros Hin. pose proof (item_state _ _ Hin) as Hq.
  destruct check_parts as (_ & _ & H & _). unfold chk_items in H. rewrite forallb_forall in H.
  specialize (H q (proj2 (in_zrange0 _ _) Hq)). rewrite forallb_forall in H. specialize (H _ Hin). simpl in H.
  destruct (arule r) as [rl|]; [|discriminate]. exists rl. rewrite andb_true_iff in H. destruct H as [H1 H2].
  apply Nat.leb_le in H1. rewrite forallb_forall in H2. repeat split; auto.
  - apply H2 in H. rewrite andb_true_iff in H. lia.
  - apply H2 in H. rewrite andb_true_iff in H. lia.
Qed.

Lemma L_trans p X : 0 <= p < nstates -> 0 <= X < NS -> 0 <= trans p X ->
  Z.of_nat NI <= trans p X < nstates /\
  forall r d' L, In (r, S d', L) (items (trans p X)) ->
    exists rl, arule r = Some rl /\ nth_error (r_rhs rl) d' = Some X /\ has_item p r d' = true.
Proof.
  intros Hp HX Hq.
  destruct check_parts as (_ & _ & _ & H & _). unfold chk_trans in H. rewrite forallb_forall in H.
  specialize (H p (proj2 (in_zrange0 _ _) Hp)). rewrite forallb_forall in H.
  specialize (H X (proj2 (in_zrange0 _ _) HX)). cbv zeta in H.
  destruct (trans p X <? 0) eqn:E; [apply Z.ltb_lt in E; lia|].
  rewrite !andb_true_iff in H. destruct H as [[H1 H2] H3]. split; [lia|].
  intros r d' L Hin. rewrite forallb_forall in H3. specialize (H3 _ Hin). simpl in H3.
  destruct (arule r) as [rl|]; [|discriminate]. exists rl. rewrite andb_true_iff in H3. destruct H3 as [H3 H4].
  destruct (nth_error (r_rhs rl) d') as [Y|]; [|discriminate]. apply Z.eqb_eq in H3. subst. auto.
Qed.

Lemma L_reduce p a r : 0 <= p < nstates -> 0 <= a < T -> m_act m p a [] = Reduce r ->
  exists rn rl, r = Z.of_nat rn /\ nth_error (g_rules g) rn = Some rl /\ has_item p rn (length (r_rhs rl)) = true /\
    m_rule_len m r = Z.of_nat (length (r_rhs rl)) /\ m_rule_sym m r = r_lhs rl.
Proof.
  intros Hp Ha Hact.
  destruct check_parts as (_ & _ & _ & _ & H & _). unfold chk_reduce in H. rewrite forallb_forall in H.
  specialize (H p (proj2 (in_zrange0 _ _) Hp)). rewrite forallb_forall in H.
  specialize (H a (proj2 (in_zrange0 _ _) Ha)). rewrite Hact in H.
  rewrite !andb_true_iff in H. destruct H as [[H1 H2] H3]. apply Z.leb_le in H1.
  destruct (nth_error (g_rules g) (Z.to_nat r)) as [rl|] eqn:E; [|discriminate].
  rewrite !andb_true_iff in H3. destruct H3 as [[H3 H4] H5]. apply Z.eqb_eq in H4. apply Z.eqb_eq in H5.
  exists (Z.to_nat r), rl. repeat split; auto. lia.
Qed.

Lemma L_nodeep p a row : 0 <= p < nstates -> 0 <= a < T -> m_act m p a [] <> Deep row.
Proof.
  intros Hp Ha Hact.
  destruct check_parts as (_ & _ & _ & _ & H & _). unfold chk_reduce in H. rewrite forallb_forall in H.
  specialize (H p (proj2 (in_zrange0 _ _) Hp)). rewrite forallb_forall in H.
  specialize (H a (proj2 (in_zrange0 _ _) Ha)). rewrite Hact in H. discriminate.
Qed.

Lemma L_start i r d L : (i < NI)%nat -> In (r, d, L) (items (Z.of_nat i)) -> d = O.
Proof.
  intros Hi Hin. destruct check_parts as (_ & _ & _ & _ & _ & H & _). unfold chk_start in H.
  rewrite forallb_forall in H. specialize (H i). rewrite forallb_forall in H.
  assert (Hs : In i (seq 0 NI)) by (apply in_seq; lia). specialize (H Hs _ Hin). simpl in H.
  apply Nat.eqb_eq in H. exact H.
Qed.

Lemma L_final i nt eoi : nth_error (g_inputs g) i = Some (nt, eoi) ->
  Z.of_nat NI <= nstates /\ (i < NI)%nat /\
  has_item (final_of i) (NR + i) (if eoi : bool then 2 else 1) = true /\
  forall q, has_item q (NR + i) 0 = true -> q = Z.of_nat i.
Proof.
  intros Hi. destruct check_parts as (_ & _ & _ & _ & _ & _ & H & _). unfold chk_final in H.
  rewrite !andb_true_iff in H. destruct H as [[H1 H2] H3]. apply Z.leb_le in H1.
  assert (Hlt : (i < NI)%nat) by (apply nth_error_Some; rewrite Hi; discriminate).
  rewrite forallb_forall in H3. specialize (H3 i). assert (Hs : In i (seq 0 NI)) by (apply in_seq; lia).
  specialize (H3 Hs). rewrite Hi in H3. rewrite andb_true_iff in H3. destruct H3 as [H3 H4].
  repeat split; auto. intros q Hq. rewrite forallb_forall in H4.
  apply has_item_In in Hq as Hq'. destruct Hq' as (L & Hin). pose proof (item_state _ _ Hin) as Hst.
  specialize (H4 q (proj2 (in_zrange0 _ _) Hst)). rewrite Hq in H4. simpl in H4. apply Z.eqb_eq in H4. exact H4.
Qed.

Lemma L_goto_def b r L rl : In (r, O, L) (items b) -> nth_error (g_rules g) r = Some rl -> 0 <= m_goto m b (r_lhs rl).
Proof.
  intros Hin Hr. pose proof (item_state _ _ Hin) as Hb.
  destruct check_parts as (_ & _ & _ & _ & _ & _ & _ & H & _). unfold chk_goto_def in H. rewrite forallb_forall in H.
  specialize (H b (proj2 (in_zrange0 _ _) Hb)). rewrite forallb_forall in H. specialize (H _ Hin). simpl in H.
  assert (Hlt : (r <? NR)%nat = true).
  { apply Nat.ltb_lt. apply nth_error_Some. rewrite Hr. discriminate. }
  rewrite Hlt, Hr in H. apply Z.leb_le in H. exact H.
Qed.

Lemma L_advance q r d L rl X : In (r, d, L) (items q) -> arule r = Some rl -> nth_error (r_rhs rl) d = Some X ->
  0 <= trans q X /\ exists L', In (r, S d, L') (items (trans q X)) /\ incl L L'.
Proof.
  intros Hin Hr HX. pose proof (item_state _ _ Hin) as Hq.
  destruct check_parts as (_ & _ & _ & _ & _ & _ & _ & _ & H & _). unfold chk_advance in H. rewrite forallb_forall in H.
  specialize (H q (proj2 (in_zrange0 _ _) Hq)). rewrite forallb_forall in H. specialize (H _ Hin). simpl in H.
  rewrite Hr, HX in H. rewrite andb_true_iff in H. destruct H as [H1 H2]. apply Z.leb_le in H1.
  split; [exact H1|]. apply item_la_incl_In. exact H2.
Qed.

Lemma L_reduce_la q r d L rl a : In (r, d, L) (items q) -> nth_error (g_rules g) r = Some rl -> d = length (r_rhs rl) ->
  In a L -> m_act m q a [] = Reduce (Z.of_nat r).
Proof.
  intros Hin Hr Hd Ha. pose proof (item_state _ _ Hin) as Hq.
  destruct check_parts as (_ & _ & _ & _ & _ & _ & _ & _ & _ & _ & H & _). unfold chk_reduce_la in H. rewrite forallb_forall in H.
  specialize (H q (proj2 (in_zrange0 _ _) Hq)). rewrite forallb_forall in H. specialize (H _ Hin). simpl in H.
  assert (Hlt : (r <? NR)%nat = true).
  { apply Nat.ltb_lt. apply nth_error_Some. rewrite Hr. discriminate. }
  rewrite Hlt, Hr in H. subst d. rewrite Nat.eqb_refl in H. rewrite forallb_forall in H. specialize (H _ Ha).
  destruct (m_act m q a []); simpl in H; try discriminate. apply Z.eqb_eq in H. subst. reflexivity.
Qed.

Lemma L_shift p a q : 0 <= p < nstates -> 0 <= a < T -> m_act m p a [] = Shift q -> 0 <= q.
Proof.
  intros Hp Ha Hact.
  destruct check_parts as (_ & _ & _ & _ & H & _). unfold chk_reduce in H. rewrite forallb_forall in H.
  specialize (H p (proj2 (in_zrange0 _ _) Hp)). rewrite forallb_forall in H.
  specialize (H a (proj2 (in_zrange0 _ _) Ha)). rewrite Hact in H. apply Z.leb_le in H. exact H.
Qed.

Lemma L_ninputs : Z.of_nat NI <= nstates.
Proof.
  destruct check_parts as (_ & _ & _ & _ & _ & _ & H & _). unfold chk_final in H.
  rewrite !andb_true_iff in H. destruct H as [[H1 _] _]. apply Z.leb_le in H1. exact H1.
Qed.

(* ================= soundness on the stripped loop ================= *)
Variable i : nat.
Hypothesis Hi : (i < NI)%nat.

Inductive stk : list (Z * Z) -> list Z -> Prop :=
| stk_bot s : stk [(s, Z.of_nat i)] []
| stk_cons X q b rest w1 w2 :
    stk (b :: rest) w1 -> 0 <= X < NS -> trans (snd b) X = q -> 0 <= q -> derives g X w2 ->
    stk ((X, q) :: b :: rest) (w1 ++ w2).

Lemma stk_state st w : stk st w -> 0 <= snd (hd (0, -1) st) < nstates.
Proof.
  induction 1 as [s | X q b rest w1 w2 Hs IH HX Hq Hq0 Hd]; simpl.
  - pose proof L_ninputs. lia.
  - simpl in IH. subst q. destruct (L_trans _ _ IH HX Hq0) as [H _]. lia.
Qed.

Lemma stk_nonbottom X q b rest w : stk ((X, q) :: b :: rest) w -> Z.of_nat NI <= q.
Proof.
  intros H. inversion H as [|X' q' b' rest' w1 w2 Hs HX Hq Hq0 Hd]; subst.
  pose proof (stk_state _ _ Hs) as Hb. simpl in Hb. destruct (L_trans _ _ Hb HX Hq0) as [H1 _]. lia.
Qed.

Lemma spelled d : forall st w r L rl, stk st w -> In (r, d, L) (items (snd (hd (0, -1) st))) -> arule r = Some rl ->
  (d < length st)%nat /\ rev (map fst (firstn d st)) = firstn d (r_rhs rl) /\ has_item (snd (nth d st (0, -1))) r 0 = true.
Proof.
  induction d as [|d' IH]; intros st w r L rl Hs Hin Hr.
  - inversion Hs; subst; simpl in *; (split; [lia|split; [reflexivity|apply has_item_In; eauto]]).
  - inversion Hs as [s | X q b rest w1 w2 Hs' HX Hq Hq0 Hd]; subst; simpl in Hin.
    + apply (L_start _ _ _ _ Hi) in Hin. discriminate.
    + pose proof (stk_state _ _ Hs') as Hb. simpl in Hb.
      destruct (L_trans _ _ Hb HX Hq0) as [_ H2]. destruct (H2 _ _ _ Hin) as (rl' & Hr' & Hnth & Hhas).
      rewrite Hr in Hr'. injection Hr' as <-.
      apply has_item_In in Hhas. destruct Hhas as (L' & Hin').
      destruct (IH (b :: rest) w1 r L' rl Hs' Hin' Hr) as (Hlen & Hrev & Hh0).
      split; [simpl in *; lia|]. split.
      * change (firstn (S d') ((X, trans (snd b) X) :: b :: rest)) with ((X, trans (snd b) X) :: firstn d' (b :: rest)).
        simpl map. simpl rev. rewrite Hrev. symmetry. apply firstn_S_nth_error. exact Hnth.
      * exact Hh0.
Qed.

Lemma derives_seq_app xs ys w1 w2 : derives_seq g xs w1 -> derives_seq g ys w2 -> derives_seq g (xs ++ ys) (w1 ++ w2).
Proof.
  induction 1 as [|x xs' u1 u2 Hx Hxs IH]; simpl; intros Hy; [exact Hy|].
  rewrite <- app_assoc. constructor; auto.
Qed.

Lemma stk_split n : forall st w, stk st w -> (n < length st)%nat ->
  exists w1 w2, w = w1 ++ w2 /\ stk (skipn n st) w1 /\ derives_seq g (rev (map fst (firstn n st))) w2.
Proof.
  induction n as [|n IH]; intros st w Hs Hlen.
  - exists w, []. rewrite app_nil_r. simpl. repeat split; [exact Hs|constructor].
  - inversion Hs as [s | X q b rest w1 w2 Hs' HX Hq Hq0 Hd]; subst; simpl in Hlen; [lia|].
    destruct (IH (b :: rest) w1 Hs') as (u1 & u2 & E & Hs1 & Hd1); [simpl; lia|].
    exists u1, (u2 ++ w2). subst w1. rewrite app_assoc. split; [reflexivity|]. split; [exact Hs1|].
    change (firstn (S n) ((X, trans (snd b) X) :: b :: rest)) with ((X, trans (snd b) X) :: firstn n (b :: rest)).
    simpl map. simpl rev. apply derives_seq_app; [exact Hd1|].
    rewrite <- (app_nil_r w2). constructor; [exact Hd|constructor].
Qed.

Definition nxt (inp : list Z) : Z := match inp with x :: _ => x | [] => 0 end.
Definition toks_ok (inp : list Z) : Prop := Forall (fun a => 1 <= a < T) inp.

Lemma nxt_range inp : toks_ok inp -> 0 <= nxt inp < T.
Proof.
  destruct L_rules as (HT & _). intros H. destruct inp as [|a r]; simpl; [lia|]. inversion H; subst. lia.
Qed.

Section WS.
Variable ws : list Z.
Hypothesis Hws : toks_ok ws.

Definition inv (c : aconfig) : Prop :=
  let '(st, inp, n) := c in
  toks_ok inp /\ exists cons k, stk st cons /\ cons ++ inp = ws ++ repeat 0 k /\ (k <> O -> inp = []) /\ n = Z.of_nat (length cons).

Lemma astep_inv c c' : inv c -> astep m c = ANext c' -> inv c'.
Proof.
  destruct c as [[st inp] n]. intros (Hok & cons & k & Hs & Hstream & Hk & Hn). unfold astep.
  pose proof (stk_state _ _ Hs) as Hq. pose proof (nxt_range _ Hok) as Ha. fold (nxt inp).
  destruct (m_act m (snd (hd (0, -1) st)) (nxt inp) []) as [q'|r| |row] eqn:Hact; try discriminate.
  - (* shift *)
    intros E. injection E as <-.
    assert (Hst : exists b rest, st = b :: rest) by (inversion Hs; eauto). destruct Hst as (b & rest & ->).
    simpl in Hq, Hact.
    assert (Hq' : 0 <= q') by (eapply L_shift; eauto).
    assert (Htr : trans (snd b) (nxt inp) = q').
    { unfold Validator.trans. destruct (nxt inp <? T) eqn:E; [rewrite Hact; reflexivity|apply Z.ltb_ge in E; lia]. }
    assert (Hder : derives g (nxt inp) [nxt inp]).
    { constructor. unfold is_term. apply andb_true_iff. split; [apply Z.leb_le|apply Z.ltb_lt]; unfold vT in Ha; lia. }
    destruct L_rules as (_ & HN & _).
    assert (HX : 0 <= nxt inp < NS) by (unfold vNS, vT in *; lia).
    destruct inp as [|a inp']; simpl.
    + split; [constructor|]. exists (cons ++ [0]), (S k). split; [apply stk_cons; auto|].
      rewrite app_nil_r in *. split; [|split; [reflexivity|rewrite app_length; simpl; lia]]. rewrite Hstream.
      rewrite <- app_assoc. f_equal. change [0] with (repeat 0 1). rewrite <- repeat_app. f_equal. lia.
    + inversion Hok as [|a' l' Ha' Hok']; subst. simpl in *.
      destruct (a =? 0) eqn:E0; [apply Z.eqb_eq in E0; lia|].
      split; [exact Hok'|]. exists (cons ++ [a]), k. split; [apply stk_cons; auto|].
      rewrite <- app_assoc. simpl. split; [exact Hstream|]. split; [|rewrite app_length; simpl; lia].
      intros Hk'. specialize (Hk Hk'). discriminate.
  - (* reduce *)
    destruct (L_reduce _ _ _ Hq Ha Hact) as (rn & rl & -> & Hrn & Hhas & Hlen & Hsym).
    rewrite Hlen, Hsym, Nat2Z.id.
    destruct (length st <=? length (r_rhs rl))%nat eqn:El; [discriminate|]. apply Nat.leb_gt in El.
    destruct (m_goto m (snd (hd (0, -1) (skipn (length (r_rhs rl)) st))) (r_lhs rl) =? -1) eqn:Eg; [discriminate|].
    intros E. injection E as <-.
    apply has_item_In in Hhas. destruct Hhas as (L & Hin).
    assert (Har : arule rn = Some rl).
    { unfold Validator.arule. assert (Hlt : (rn <? NR)%nat = true) by (apply Nat.ltb_lt, nth_error_Some; rewrite Hrn; discriminate).
      rewrite Hlt. exact Hrn. }
    destruct (spelled _ _ _ _ _ _ Hs Hin Har) as (_ & Hrev & Hh0).
    rewrite firstn_all in Hrev.
    destruct (stk_split _ _ _ Hs El) as (w1 & w2 & -> & Hs1 & Hd2). rewrite Hrev in Hd2.
    assert (Hrest : exists b rest, skipn (length (r_rhs rl)) st = b :: rest) by (inversion Hs1; eauto).
    destruct Hrest as (b & rest & Erest). rewrite Erest in *. simpl.
    assert (Hnth : nth (length (r_rhs rl)) st (0, -1) = b).
    { rewrite <- (firstn_skipn (length (r_rhs rl)) st) at 1. rewrite app_nth2; rewrite firstn_length_le by lia; [|lia].
      rewrite Nat.sub_diag, Erest. reflexivity. }
    rewrite Hnth in Hh0. apply has_item_In in Hh0. destruct Hh0 as (L0 & Hin0).
    pose proof (L_goto_def _ _ _ _ Hin0 Hrn) as Hg0.
    destruct L_rules as (_ & _ & HR & _). destruct (HR rl (nth_error_In _ _ Hrn)) as [Hlhs _].
    split; [exact Hok|]. exists (w1 ++ w2), k. split; [|split; [assumption|split; assumption]].
    apply stk_cons; auto; [lia| |].
    + unfold Validator.trans. destruct (r_lhs rl <? T) eqn:E; [apply Z.ltb_lt in E; lia|reflexivity].
    + econstructor; [apply (nth_error_In _ _ Hrn)|exact Hd2].
Qed.

Lemma astep_no_crash c : inv c -> astep m c <> AFail true.
Proof.
  destruct c as [[st inp] n]. intros (Hok & cons & k & Hs & Hstream & Hk & Hn). unfold astep.
  pose proof (stk_state _ _ Hs) as Hq. pose proof (nxt_range _ Hok) as Ha. fold (nxt inp).
  destruct (m_act m (snd (hd (0, -1) st)) (nxt inp) []) as [q'|r| |row] eqn:Hact; try discriminate.
  destruct (L_reduce _ _ _ Hq Ha Hact) as (rn & rl & -> & Hrn & Hhas & Hlen & Hsym).
  rewrite Hlen, Hsym, Nat2Z.id.
  apply has_item_In in Hhas. destruct Hhas as (L & Hin).
  assert (Har : arule rn = Some rl).
  { unfold Validator.arule. assert (Hlt : (rn <? NR)%nat = true) by (apply Nat.ltb_lt, nth_error_Some; rewrite Hrn; discriminate).
    rewrite Hlt. exact Hrn. }
  destruct (spelled _ _ _ _ _ _ Hs Hin Har) as (Hl & _ & _).
  destruct (length st <=? length (r_rhs rl))%nat eqn:El; [apply Nat.leb_le in El; lia|].
  destruct (_ =? -1); discriminate.
Qed.

Lemma arun_inv fuel : forall c o c', inv c -> arun fuel m (final_of i) c = (o, c') -> inv c' /\ o <> ACrash.
Proof.
  induction fuel as [|f IH]; intros c o c' Hinv; simpl.
  - intros E. injection E as <- <-. split; [exact Hinv|discriminate].
  - destruct (snd (hd (0, -1) (fst (fst c))) =? final_of i).
    + intros E. injection E as <- <-. split; [exact Hinv|discriminate].
    + destruct (astep m c) as [c1|[|]] eqn:Es.
      * apply IH. eapply astep_inv; eauto.
      * exfalso. eapply astep_no_crash; eauto.
      * intros E. injection E as <- <-. split; [exact Hinv|discriminate].
Qed.

Lemma arun_accept_state fuel : forall c c', arun fuel m (final_of i) c = (AAccept, c') ->
  snd (hd (0, -1) (fst (fst c'))) = final_of i.
Proof.
  induction fuel as [|f IH]; intros c c'; simpl; [discriminate|].
  destruct (snd (hd (0, -1) (fst (fst c))) =? final_of i) eqn:E.
  - intros H. injection H as <-. apply Z.eqb_eq. exact E.
  - destruct (astep m c) as [c1|[|]]; try discriminate. apply IH.
Qed.

Lemma inv_init : inv ([(0, Z.of_nat i)], ws, 0).
Proof.
  split; [exact Hws|]. exists [], O. split; [constructor|]. simpl. rewrite app_nil_r. split; [reflexivity|split; [congruence|reflexivity]].
Qed.

Lemma derives_term a w : 0 <= a < T -> derives g a w -> w = [a].
Proof.
  intros Ha H. inversion H as [a' Hterm | rl w' Hin Hseq]; subst; [reflexivity|].
  destruct L_rules as (_ & _ & HR & _). destruct (HR _ Hin) as [Hl _]. lia.
Qed.

Lemma derives_no_zero :
  (forall X w, derives g X w -> X <> 0 -> ~ In 0 w) /\
  (forall xs w, derives_seq g xs w -> (forall x, In x xs -> x <> 0) -> ~ In 0 w).
Proof.
  apply derives_mutind.
  - intros a _ Ha [E|[]]. congruence.
  - intros rl w Hin Hseq IH _. apply IH. intros x Hx.
    destruct L_rules as (_ & _ & HR & _). destruct (HR _ Hin) as [_ Hs]. specialize (Hs _ Hx). lia.
  - intros _ [].
  - intros x xs w1 w2 Hx IHx Hxs IHxs Hall Hin. apply in_app_or in Hin. destruct Hin as [Hin|Hin].
    + apply (IHx (Hall x (or_introl eq_refl)) Hin).
    + apply IHxs; [|exact Hin]. intros y Hy. apply Hall. right. exact Hy.
Qed.

Lemma toks_no_zero : ~ In 0 ws.
Proof. intros H. unfold toks_ok in Hws. rewrite Forall_forall in Hws. apply Hws in H. lia. Qed.

Lemma app_zero_eq (a b x y : list Z) : ~ In 0 a -> ~ In 0 b -> a ++ 0 :: x = b ++ 0 :: y -> a = b.
Proof.
  revert b. induction a as [|h a IH]; intros [|h' b] Ha Hb E; simpl in *.
  - reflexivity.
  - injection E as <- _. exfalso. apply Hb. left. reflexivity.
  - injection E as -> _. exfalso. apply Ha. left. reflexivity.
  - injection E as -> E. f_equal. apply IH; auto.
Qed.

Lemma app_prefix_repeat (a x b : list Z) k : ~ In 0 a -> a ++ x = b ++ repeat 0 k -> exists s, b = a ++ s.
Proof.
  revert b. induction a as [|h a IH]; intros b Ha E; simpl in *.
  - exists b. reflexivity.
  - destruct b as [|h' b]; simpl in E.
    + destruct k; simpl in E; [discriminate|]. injection E as -> _. exfalso. apply Ha. left. reflexivity.
    + injection E as -> E. destruct (IH b) as (s & ->); auto. exists s. reflexivity.
Qed.

(* the stripped loop accepts only sentences *)
Theorem arun_sound fuel nt eoi c' :
  nth_error (g_inputs g) i = Some (nt, eoi) ->
  aparse fuel m finals i ws = (AAccept, c') ->
  if eoi : bool then derives g nt ws else exists p s, ws = p ++ s /\ derives g nt p.
Proof.
  intros Hinp Hrun. unfold aparse in Hrun. fold (final_of i) in Hrun.
  destruct (arun_inv _ _ _ _ inv_init Hrun) as [Hinv _].
  pose proof (arun_accept_state _ _ _ Hrun) as Hfin.
  destruct c' as [[st inp] n]. simpl in Hfin. destruct Hinv as (Hok & cons & k & Hs & Hstream & Hk & Hn).
  destruct (L_final _ _ _ Hinp) as (_ & _ & Hhas & Huniq).
  destruct L_rules as (HT & _ & _ & HI). pose proof (HI _ (nth_error_In _ _ Hinp)) as Hnt. simpl in Hnt.
  assert (Har : arule (NR + i) = Some (mkRule (NS + Z.of_nat i) (if eoi : bool then [nt; 0] else [nt]) 0)).
  { unfold Validator.arule. assert (E : (NR + i <? NR)%nat = false) by (apply Nat.ltb_ge; lia). rewrite E.
    replace (NR + i - NR)%nat with i by lia. unfold aug_rule. rewrite Hinp. reflexivity. }
  apply has_item_In in Hhas. destruct Hhas as (L & Hin). rewrite <- Hfin in Hin.
  destruct (spelled _ _ _ _ _ _ Hs Hin Har) as (Hlen & Hrev & Hh0).
  apply Huniq in Hh0.
  destruct eoi; simpl in *.
  - destruct st as [|e1 [|e2 [|e3 rest]]]; simpl in Hlen; try lia. simpl in Hrev, Hh0.
    injection Hrev as E2 E1.
    inversion Hs as [|X1 q1 b1 r1 u1 v1 Hs1 HX1 Hq1 Hq10 Hd1]; subst.
    inversion Hs1 as [|X2 q2 b2 r2 u2 v2 Hs2 HX2 Hq2 Hq20 Hd2]; subst.
    assert (rest = []).
    { destruct rest as [|e4 rest]; [reflexivity|]. destruct e3 as [X3 q3]. apply stk_nonbottom in Hs2. simpl in Hh0. lia. }
    subst rest. inversion Hs2; subst. simpl in *. subst.
    apply derives_term in Hd1; [|lia]. subst v1.
    assert (Hnz : ~ In 0 v2) by (apply (proj1 derives_no_zero _ _ Hd2); lia).
    destruct k as [|k].
    + exfalso. apply toks_no_zero. simpl in Hstream. rewrite app_nil_r in Hstream. rewrite <- Hstream.
      apply in_or_app. left. apply in_or_app. right. left. reflexivity.
    + rewrite (Hk ltac:(discriminate)) in Hstream. rewrite app_nil_r in Hstream. simpl in Hstream.
      apply app_zero_eq in Hstream; [subst; exact Hd2|exact Hnz|exact toks_no_zero].
  - destruct st as [|e1 [|e2 rest]]; simpl in Hlen; try lia. simpl in Hrev, Hh0.
    injection Hrev as E1.
    inversion Hs as [|X1 q1 b1 r1 u1 v1 Hs1 HX1 Hq1 Hq10 Hd1]; subst.
    assert (rest = []).
    { destruct rest as [|e4 rest]; [reflexivity|]. destruct e2 as [X3 q3]. apply stk_nonbottom in Hs1. simpl in Hh0. lia. }
    subst rest. inversion Hs1; subst. simpl in *. subst.
    assert (Hnz : ~ In 0 v1) by (apply (proj1 derives_no_zero _ _ Hd1); lia).
    destruct (app_prefix_repeat _ _ _ _ Hnz Hstream) as (sfx & ->). exists v1, sfx. split; [reflexivity|exact Hd1].
Qed.

(* ================= completeness on the stripped loop ================= *)
Definition ftg := ft_get ft.

Lemma nl_not_term x : mem x nl = true -> is_term g x = false.
Proof.
  intros Hx. destruct check_parts as (_ & _ & _ & _ & _ & _ & _ & _ & _ & _ & _ & H & _). unfold chk_nullable in H.
  rewrite andb_true_iff in H. destruct H as [_ H]. rewrite forallb_forall in H. apply mem_In in Hx. apply H in Hx.
  apply Z.leb_le in Hx. unfold is_term. unfold vT in Hx. apply andb_false_iff. right. apply Z.ltb_ge. exact Hx.
Qed.

Lemma null_sound :
  (forall X w, derives g X w -> w = [] -> mem X nl = true) /\
  (forall xs w, derives_seq g xs w -> w = [] -> forall x, In x xs -> mem x nl = true).
Proof.
  apply derives_mutind.
  - intros a _ E. discriminate.
  - intros rl w Hin Hseq IH E.
    destruct check_parts as (_ & _ & _ & _ & _ & _ & _ & _ & _ & _ & _ & H & _). unfold chk_nullable in H.
    rewrite andb_true_iff in H. destruct H as [H _]. rewrite forallb_forall in H. specialize (H _ Hin).
    assert (Hall : forallb (fun s => mem s nl) (r_rhs rl) = true) by (apply forallb_forall; intros x Hx; apply IH; auto).
    rewrite Hall in H. exact H.
  - intros _ x [].
  - intros x xs w1 w2 Hx IHx Hxs IHxs E y Hy. apply app_eq_nil in E. destruct E as [E1 E2].
    destruct Hy as [<-|Hy]; auto.
Qed.

Lemma first_seq_null xs : derives_seq g xs [] -> snd (first_seq g nl ftg xs) = true.
Proof.
  intros H. pose proof (proj2 null_sound _ _ H eq_refl) as Hall. clear H.
  induction xs as [|x xs IH]; simpl; [reflexivity|].
  assert (Hx : mem x nl = true) by (apply Hall; left; reflexivity).
  rewrite (nl_not_term _ Hx), Hx.
  destruct (first_seq g nl ftg xs) as [f n] eqn:E. simpl. apply IH. intros y Hy. apply Hall. right. exact Hy.
Qed.

Lemma first_sound :
  (forall X w, derives g X w -> forall a u, w = a :: u -> if is_term g X then X = a else In a (ftg X)) /\
  (forall xs w, derives_seq g xs w -> forall a u, w = a :: u -> In a (fst (first_seq g nl ftg xs))).
Proof.
  apply derives_mutind.
  - intros a Ha b u E. injection E as <- _. rewrite Ha. reflexivity.
  - intros rl w Hin Hseq IH a u E.
    destruct L_rules as (_ & _ & HR & _). destruct (HR _ Hin) as [Hl _].
    assert (Hnt : is_term g (r_lhs rl) = false).
    { unfold is_term. apply andb_false_iff. right. apply Z.ltb_ge. unfold vT in Hl. lia. }
    rewrite Hnt. specialize (IH _ _ E).
    destruct check_parts as (_ & _ & _ & _ & _ & _ & _ & _ & _ & _ & _ & _ & H & _). unfold chk_first in H.
    rewrite forallb_forall in H. specialize (H _ Hin). apply subset_incl in H. apply H. exact IH.
  - intros a u E. discriminate.
  - intros x xs w1 w2 Hx IHx Hxs IHxs a u E. simpl.
    destruct w1 as [|b w1'].
    + simpl in E. pose proof (proj1 null_sound _ _ Hx eq_refl) as Hn. rewrite (nl_not_term _ Hn), Hn.
      specialize (IHxs _ _ E). destruct (first_seq g nl ftg xs) as [f n]. simpl in *. apply union_In. right. exact IHxs.
    + simpl in E. injection E as -> _. specialize (IHx _ _ eq_refl).
      destruct (is_term g x); [subst; left; reflexivity|].
      destruct (mem x nl); [|exact IHx].
      destruct (first_seq g nl ftg xs) as [f n]. simpl. apply union_In. left. exact IHx.
Qed.

Definition sfirst (gamma L : list Z) (a : Z) : Prop :=
  (exists u, derives_seq g gamma (a :: u)) \/ (derives_seq g gamma [] /\ In a L).

Lemma sfirst_incl gamma L L' a : incl L L' -> sfirst gamma L a -> sfirst gamma L' a.
Proof. intros Hi' [H|[H1 H2]]; [left; exact H|right; split; auto]. Qed.

Lemma sfirst_app xs w2 rest L tl_in :
  derives_seq g xs w2 -> sfirst rest L (nxt tl_in) -> sfirst (xs ++ rest) L (nxt (w2 ++ tl_in)).
Proof.
  intros Hxs Hf. destruct w2 as [|b u]; simpl.
  - destruct Hf as [(u' & H)|[H1 H2]].
    + left. exists u'. change (nxt tl_in :: u') with ([] ++ nxt tl_in :: u'). apply derives_seq_app; assumption.
    + right. split; [|exact H2]. change (@nil Z) with (@nil Z ++ []). apply derives_seq_app; assumption.
  - destruct Hf as [(u' & H)|[H1 H2]].
    + left. exists (u ++ nxt tl_in :: u'). change (b :: u ++ nxt tl_in :: u') with ((b :: u) ++ nxt tl_in :: u').
      apply derives_seq_app; assumption.
    + left. exists u. rewrite <- (app_nil_r (b :: u)). apply derives_seq_app; assumption.
Qed.

Lemma arule_real r rl : nth_error (g_rules g) r = Some rl -> arule r = Some rl.
Proof.
  intros H. unfold Validator.arule.
  assert (Hlt : (r <? NR)%nat = true) by (apply Nat.ltb_lt, nth_error_Some; rewrite H; discriminate).
  rewrite Hlt. exact H.
Qed.

Lemma L_closure q r d L rl X r' rl' :
  In (r, d, L) (items q) -> arule r = Some rl -> nth_error (r_rhs rl) d = Some X -> T <= X ->
  nth_error (g_rules g) r' = Some rl' -> r_lhs rl' = X ->
  exists L0, In (r', O, L0) (items q) /\ forall b, sfirst (skipn (S d) (r_rhs rl)) L b -> In b L0.
Proof.
  intros Hin Hr HX HT Hr' Hl. pose proof (item_state _ _ Hin) as Hq.
  destruct check_parts as (_ & _ & _ & _ & _ & _ & _ & _ & _ & H & _). unfold chk_closure in H. rewrite forallb_forall in H.
  specialize (H q (proj2 (in_zrange0 _ _) Hq)). rewrite forallb_forall in H. specialize (H _ Hin). cbv beta iota in H.
  rewrite Hr, HX in H. destruct (X <? T) eqn:E; [apply Z.ltb_lt in E; lia|].
  fold ftg in H. destruct (first_seq g nl ftg (skipn (S d) (r_rhs rl))) as [f n] eqn:Ef.
  rewrite forallb_forall in H. specialize (H r').
  assert (Hs : In r' (seq 0 NR)) by (apply in_seq; split; [lia|]; simpl; apply nth_error_Some; rewrite Hr'; discriminate).
  specialize (H Hs). rewrite Hr' in H. rewrite Hl, Z.eqb_refl in H.
  apply item_la_incl_In in H. destruct H as (L0 & Hin0 & Hinc). exists L0. split; [exact Hin0|].
  intros b [(u & Hd)|[Hd Hb]]; apply Hinc.
  - pose proof (proj2 first_sound _ _ Hd _ _ eq_refl) as Hf. rewrite Ef in Hf. simpl in Hf.
    destruct n; [apply in_or_app; left|]; exact Hf.
  - pose proof (first_seq_null _ Hd) as Hn. rewrite Ef in Hn. simpl in Hn. subst n. apply in_or_app. right. exact Hb.
Qed.

Inductive areach : aconfig -> aconfig -> Prop :=
| ar_refl c : areach c c
| ar_step c c1 c2 : astep m c = ANext c1 -> areach c1 c2 -> areach c c2.

Lemma areach_trans a b c : areach a b -> areach b c -> areach a c.
Proof. induction 1; eauto using areach. Qed.

Lemma areach_one a b : astep m a = ANext b -> areach a b.
Proof. intros H. eapply ar_step; [exact H|apply ar_refl]. Qed.

Lemma toks_ok_app a b : toks_ok (a ++ b) -> toks_ok a /\ toks_ok b.
Proof. unfold toks_ok. rewrite Forall_app. auto. Qed.

Lemma trans_shift q a : 0 <= a < T -> 0 <= trans q a -> m_act m q a [] = Shift (trans q a).
Proof.
  intros Ha. unfold Validator.trans. destruct (a <? T) eqn:E; [|apply Z.ltb_ge in E; lia].
  destruct (m_act m q a []); intros H; try lia. reflexivity.
Qed.

Lemma trans_goto q X : T <= X -> trans q X = m_goto m q X.
Proof. intros H. unfold Validator.trans. destruct (X <? T) eqn:E; [apply Z.ltb_lt in E; lia|reflexivity]. Qed.

Definition P_sym (X : Z) (w : list Z) : Prop :=
  forall st n r rl d L tl_in,
    st <> [] -> In (r, d, L) (items (snd (hd (0, -1) st))) -> arule r = Some rl -> nth_error (r_rhs rl) d = Some X ->
    sfirst (skipn (S d) (r_rhs rl)) L (nxt tl_in) -> toks_ok (w ++ tl_in) ->
    exists n' L', areach (st, w ++ tl_in, n) ((X, trans (snd (hd (0, -1) st)) X) :: st, tl_in, n') /\
      In (r, S d, L') (items (trans (snd (hd (0, -1) st)) X)) /\ incl L L'.

Definition P_seq (xs : list Z) (w : list Z) : Prop :=
  forall st n r rl d L tl_in rest,
    st <> [] -> In (r, d, L) (items (snd (hd (0, -1) st))) -> arule r = Some rl -> skipn d (r_rhs rl) = xs ++ rest ->
    sfirst rest L (nxt tl_in) -> toks_ok (w ++ tl_in) ->
    exists st' n' L', areach (st, w ++ tl_in, n) (st' ++ st, tl_in, n') /\ length st' = length xs /\
      In (r, (d + length xs)%nat, L') (items (snd (hd (0, -1) (st' ++ st)))) /\ incl L L'.

Lemma completeness_core : (forall X w, derives g X w -> P_sym X w) /\ (forall xs w, derives_seq g xs w -> P_seq xs w).
Proof.
  apply derives_mutind; unfold P_sym, P_seq.
  - (* terminal *)
    intros a Ha st n r rl d L tl_in Hne Hin Hr HX Hf Hok.
    destruct (L_advance _ _ _ _ _ _ Hin Hr HX) as (Hq0 & L' & Hin' & Hinc).
    apply toks_ok_app in Hok. destruct Hok as [Hok1 Hok2]. inversion Hok1 as [|a' l' Ha' _]; subst.
    exists (n + 1), L'. split; [|split; assumption]. apply areach_one. simpl.
    rewrite (trans_shift _ a) by (auto; lia).
    destruct (a =? 0) eqn:E; [apply Z.eqb_eq in E; lia|]. reflexivity.
  - (* rule *)
    intros rl' w Hinr Hseq IH st n r rl d L tl_in Hne Hin Hr HX Hf Hok.
    destruct L_rules as (_ & _ & HR & _). destruct (HR _ Hinr) as [Hlhs _].
    destruct (In_nth_error _ _ Hinr) as (r' & Hr').
    destruct (L_closure _ _ _ _ _ _ _ _ Hin Hr HX ltac:(lia) Hr' eq_refl) as (L0 & Hin0 & HL0).
    specialize (HL0 _ Hf).
    destruct (IH st n r' rl' O L0 tl_in [] Hne Hin0 (arule_real _ _ Hr')) as (st' & n' & L0' & Hreach & Hlen & Hitem & Hinc0).
    { simpl. rewrite app_nil_r. reflexivity. }
    { right. split; [constructor|exact HL0]. }
    { exact Hok. }
    simpl in Hitem.
    destruct (L_advance _ _ _ _ _ _ Hin Hr HX) as (Hq0 & L' & Hin' & Hinc).
    apply toks_ok_app in Hok. destruct Hok as [_ Hok2]. pose proof (nxt_range _ Hok2) as Hb.
    pose proof (item_state _ _ Hitem) as Hqt.
    pose proof (L_reduce_la _ _ _ _ _ _ Hitem Hr' eq_refl (Hinc0 _ HL0)) as Hact.
    destruct (L_reduce _ _ _ Hqt Hb Hact) as (rn & rl2 & Ern & Hrn & _ & Hlen2 & Hsym2).
    apply Nat2Z.inj in Ern. subst rn. rewrite Hr' in Hrn. injection Hrn as <-.
    exists n', L'. split; [|split; assumption].
    eapply areach_trans; [exact Hreach|]. apply areach_one. unfold astep. fold (nxt tl_in). rewrite Hact.
    rewrite Hlen2, Hsym2, Nat2Z.id.
    assert (El : (length (st' ++ st) <=? length (r_rhs rl'))%nat = false).
    { apply Nat.leb_gt. rewrite app_length. destruct st; [congruence|simpl; lia]. }
    rewrite El. rewrite <- Hlen. rewrite skipn_app, skipn_all, Nat.sub_diag. simpl skipn. simpl app.
    rewrite <- trans_goto by lia.
    destruct (trans (snd (hd (0, -1) st)) (r_lhs rl') =? -1) eqn:Eg; [apply Z.eqb_eq in Eg; lia|]. reflexivity.
  - (* nil *)
    intros st n r rl d L tl_in rest Hne Hin Hr Hsk Hf Hok.
    exists [], n, L. simpl. rewrite Nat.add_0_r. repeat split; [apply ar_refl|exact Hin|apply incl_refl].
  - (* cons *)
    intros x xs w1 w2 Hx IHx Hxs IHxs st n r rl d L tl_in rest Hne Hin Hr Hsk Hf Hok.
    simpl in Hsk. apply skipn_nth_error_cons in Hsk. destruct Hsk as [Hnth Hsk].
    rewrite <- app_assoc in Hok.
    destruct (IHx st n r rl d L (w2 ++ tl_in) Hne Hin Hr Hnth) as (n1 & L1 & Hreach1 & Hin1 & Hinc1).
    { rewrite Hsk. apply sfirst_app; assumption. }
    { exact Hok. }
    apply toks_ok_app in Hok. destruct Hok as [_ Hok2].
    destruct (IHxs ((x, trans (snd (hd (0, -1) st)) x) :: st) n1 r rl (S d) L1 tl_in rest) as (st' & n2 & L2 & Hreach2 & Hlen & Hitem & Hinc2);
      [discriminate|exact Hin1|exact Hr|exact Hsk|eapply sfirst_incl; eauto|exact Hok2|].
    exists (st' ++ [(x, trans (snd (hd (0, -1) st)) x)]), n2, L2.
    rewrite <- !app_assoc. simpl. repeat split.
    + eapply areach_trans; [exact Hreach1|exact Hreach2].
    + rewrite app_length. simpl. lia.
    + replace (d + S (length xs))%nat with (S d + length xs)%nat by lia. exact Hitem.
    + eapply incl_tran; eauto.
Qed.

Lemma areach_accept e c c' : areach c c' -> snd (hd (0, -1) (fst (fst c'))) = e ->
  exists fuel c'', arun fuel m e c = (AAccept, c'').
Proof.
  induction 1 as [c|c c1 c2 Hs Hr IH]; intros He.
  - exists 1%nat, c. simpl. rewrite He, Z.eqb_refl. reflexivity.
  - destruct (snd (hd (0, -1) (fst (fst c))) =? e) eqn:E.
    + exists 1%nat, c. simpl. rewrite E. reflexivity.
    + destruct (IH He) as (fuel & c'' & Hrun). exists (S fuel), c''. simpl. rewrite E, Hs. exact Hrun.
Qed.

Lemma L_inputs nt eoi : nth_error (g_inputs g) i = Some (nt, eoi) ->
  (exists L, In ((NR + i)%nat, O, L) (items (Z.of_nat i)) /\ (eoi = false -> forall a, 0 <= a < T -> In a L)) /\
  (if eoi : bool then trans (trans (Z.of_nat i) nt) 0 = final_of i else trans (Z.of_nat i) nt = final_of i).
Proof.
  intros Hinp. destruct check_parts as (_ & _ & _ & _ & _ & _ & _ & _ & _ & _ & _ & _ & _ & H). unfold chk_inputs in H.
  rewrite forallb_forall in H. specialize (H i). assert (Hs : In i (seq 0 NI)) by (apply in_seq; lia).
  specialize (H Hs). rewrite Hinp in H. rewrite andb_true_iff in H. destruct H as [H1 H2].
  apply item_la_incl_In in H1. destruct H1 as (L & Hin & Hinc). split.
  - exists L. split; [exact Hin|]. intros -> a Ha. apply Hinc. unfold all_terms_z. apply in_zrange0. exact Ha.
  - destruct eoi; apply Z.eqb_eq; exact H2.
Qed.

Theorem arun_complete nt eoi :
  nth_error (g_inputs g) i = Some (nt, eoi) ->
  (if eoi : bool then derives g nt ws else exists p s, ws = p ++ s /\ derives g nt p) ->
  exists fuel c', aparse fuel m finals i ws = (AAccept, c').
Proof.
  intros Hinp Hsent. destruct (L_inputs _ _ Hinp) as ((L & Hin & HL) & Hwire).
  assert (Har : arule (NR + i) = Some (mkRule (NS + Z.of_nat i) (if eoi : bool then [nt; 0] else [nt]) 0)).
  { unfold Validator.arule. assert (E : (NR + i <? NR)%nat = false) by (apply Nat.ltb_ge; lia). rewrite E.
    replace (NR + i - NR)%nat with i by lia. unfold aug_rule. rewrite Hinp. reflexivity. }
  destruct L_rules as (HT & _).
  unfold aparse. fold (final_of i).
  destruct eoi.
  - destruct (proj1 completeness_core _ _ Hsent [(0, Z.of_nat i)] 0 (NR + i)%nat _ O L [] ltac:(discriminate) Hin Har eq_refl)
      as (n1 & L1 & Hreach & Hin1 & Hinc).
    { left. exists []. simpl. change [0] with ([0] ++ []). constructor; [|constructor].
      constructor. unfold is_term. apply andb_true_iff. split; [reflexivity|apply Z.ltb_lt; unfold vT in HT; lia]. }
    { rewrite app_nil_r. exact Hws. }
    rewrite app_nil_r in Hreach. simpl in Hreach, Hin1.
    destruct (L_advance _ _ _ _ _ _ Hin1 Har eq_refl) as (Hq0 & L2 & Hin2 & _).
    eapply areach_accept with (c' := ((0, trans (trans (Z.of_nat i) nt) 0) :: [(nt, trans (Z.of_nat i) nt); (0, Z.of_nat i)], [], n1 + 1)).
    + eapply areach_trans; [exact Hreach|]. apply areach_one. simpl.
      rewrite (trans_shift _ 0) by (auto; lia). reflexivity.
    + simpl. exact Hwire.
  - destruct Hsent as (p & s & Eq & Hd). subst ws.
    destruct (proj1 completeness_core _ _ Hd [(0, Z.of_nat i)] 0 (NR + i)%nat _ O L s ltac:(discriminate) Hin Har eq_refl)
      as (n1 & L1 & Hreach & Hin1 & Hinc).
    { right. split; [constructor|]. apply HL; [reflexivity|]. apply nxt_range. apply toks_ok_app in Hws. tauto. }
    { exact Hws. }
    eapply areach_accept; [exact Hreach|]. simpl. exact Hwire.
Qed.

(* ================= the real loop (Run.run_loop, with offsets and trace) refines the stripped loop ================= *)
Definition proj (c : config) : aconfig :=
  (map (fun e => (e_sym e, e_state e)) (c_stack c), map t_sym (c_input c), c_shifted c).

Definition cwf (c : config) : Prop := c_stack c <> [] /\ c_state c = e_state (hd (mkEntry 0 0 0 0) (c_stack c)).

Lemma proj_top c : cwf c -> snd (hd (0, -1) (fst (fst (proj c)))) = c_state c.
Proof. intros [Hne Hst]. unfold proj. simpl. destruct (c_stack c); [congruence|]. simpl in *. congruence. Qed.

Lemma map_tl {A B} (f : A -> B) l : map f (tl l) = tl (map f l).
Proof. destruct l; reflexivity. Qed.

Lemma step_sim eoi_off c : cwf c ->
  match step m eoi_off c with
  | Continue c' => astep m (proj c) = ANext (proj c') /\ cwf c'
  | Stop (Crash _) _ => astep m (proj c) = AFail true
  | Stop (SyntaxError _ _ k) _ => astep m (proj c) = AFail false /\ k = c_shifted c
  | Stop _ _ => False
  end.
Proof.
  intros Hwf. pose proof (proj_top _ Hwf) as Htop. unfold step, astep. unfold proj in *. simpl in Htop.
  rewrite Htop.
  assert (Hnx : t_sym (next_tok eoi_off (c_input c)) = match map t_sym (c_input c) with x :: _ => x | [] => 0 end).
  { destruct (c_input c); reflexivity. }
  rewrite Hm, Hnx.
  destruct (m_act m (c_state c) match map t_sym (c_input c) with x :: _ => x | [] => 0 end []) as [q|r| |row] eqn:Hact.
  - (* shift *) simpl. split.
    + rewrite <- Hnx. destruct (t_sym (next_tok eoi_off (c_input c)) =? 0); [reflexivity|]. rewrite map_tl. reflexivity.
    + split; [discriminate|reflexivity].
  - (* reduce *) rewrite map_length.
    destruct (length (c_stack c) <=? Z.to_nat (m_rule_len m r))%nat eqn:El; [reflexivity|].
    rewrite skipn_map.
    assert (Hb : snd (hd (0, -1) (map (fun e => (e_sym e, e_state e)) (skipn (Z.to_nat (m_rule_len m r)) (c_stack c)))) =
                 match skipn (Z.to_nat (m_rule_len m r)) (c_stack c) with b :: _ => e_state b | [] => -1 end).
    { destruct (skipn (Z.to_nat (m_rule_len m r)) (c_stack c)); reflexivity. }
    rewrite Hb.
    destruct (m_goto m _ (m_rule_sym m r) =? -1) eqn:Eg.
    + split; reflexivity.
    + simpl. split; [reflexivity|]. split; [discriminate|reflexivity].
  - split; reflexivity.
  - split; reflexivity.
Qed.

Lemma run_sim eoi_off e fuel : forall c, cwf c ->
  match fst (run_loop fuel m eoi_off e c) with
  | Accept => fst (arun fuel m e (proj c)) = AAccept
  | SyntaxError _ _ k => fst (arun fuel m e (proj c)) = AError /\ k = snd (snd (arun fuel m e (proj c)))
  | Crash _ => fst (arun fuel m e (proj c)) = ACrash
  | OutOfFuel => fst (arun fuel m e (proj c)) = AFuel
  end.
Proof.
  induction fuel as [|f IH]; intros c Hwf; [reflexivity|].
  cbn [run_loop arun]. rewrite (proj_top _ Hwf).
  destruct (c_state c =? e); [reflexivity|].
  pose proof (step_sim eoi_off c Hwf) as Hs.
  destruct (step m eoi_off c) as [c1|o c1].
  - destruct Hs as [Hs Hwf1]. rewrite Hs. apply IH. exact Hwf1.
  - destruct o as [|off eoff k|why|]; try contradiction.
    + destruct Hs as [Hs ->]. rewrite Hs. simpl. split; reflexivity.
    + rewrite Hs. reflexivity.
Qed.

Lemma toks_from_syms off w : map t_sym (toks_from off w) = w.
Proof. revert off. induction w as [|a w IH]; intros off; simpl; [reflexivity|]. rewrite IH. reflexivity. Qed.

Lemma parse_sim fuel :
  match fst (parse fuel m finals i ws) with
  | Accept => fst (aparse fuel m finals i ws) = AAccept
  | SyntaxError _ _ k => fst (aparse fuel m finals i ws) = AError /\ k = snd (snd (aparse fuel m finals i ws))
  | Crash _ => fst (aparse fuel m finals i ws) = ACrash
  | OutOfFuel => fst (aparse fuel m finals i ws) = AFuel
  end.
Proof.
  unfold parse, run, aparse.
  pose proof (run_sim (Z.of_nat (length ws)) (nth i finals (-1)) fuel
                (mkConfig [mkEntry 0 0 0 (Z.of_nat i)] (Z.of_nat i) (toks_of ws) 0 [])) as H.
  unfold proj in H. simpl in H. unfold toks_of in H. rewrite toks_from_syms in H. apply H.
  split; [discriminate|reflexivity].
Qed.

Theorem parse_sound fuel nt eoi :
  nth_error (g_inputs g) i = Some (nt, eoi) ->
  fst (parse fuel m finals i ws) = Accept ->
  if eoi : bool then derives g nt ws else exists p s, ws = p ++ s /\ derives g nt p.
Proof.
  intros Hinp Hacc. pose proof (parse_sim fuel) as H. rewrite Hacc in H.
  destruct (aparse fuel m finals i ws) as [o c'] eqn:E. simpl in H. subst o.
  eapply arun_sound; eauto.
Qed.

Theorem parse_complete nt eoi :
  nth_error (g_inputs g) i = Some (nt, eoi) ->
  (if eoi : bool then derives g nt ws else exists p s, ws = p ++ s /\ derives g nt p) ->
  exists fuel, fst (parse fuel m finals i ws) = Accept.
Proof.
  intros Hinp Hsent. destruct (arun_complete _ _ Hinp Hsent) as (fuel & c' & Hrun). exists fuel.
  pose proof (parse_sim fuel) as H. rewrite Hrun in H. simpl in H.
  destruct (fst (parse fuel m finals i ws)) as [|off eoff k|why|]; try reflexivity; try discriminate.
  destruct H as [H _]. discriminate.
Qed.

Theorem arun_no_crash fuel : fst (aparse fuel m finals i ws) <> ACrash.
Proof.
  unfold aparse. fold (final_of i). destruct (arun fuel m (final_of i) ([(0, Z.of_nat i)], ws, 0)) as [o c] eqn:E.
  simpl. eapply arun_inv; [apply inv_init|exact E].
Qed.

(* a syntax error reported after k shifts, k < |ws|: the stripped loop stopped in front of token k *)
Lemma arun_error_pos fuel c' : aparse fuel m finals i ws = (AError, c') ->
  (Z.to_nat (snd c') < length ws)%nat -> snd (fst c') = skipn (Z.to_nat (snd c')) ws /\ 0 <= snd c'.
Proof.
  unfold aparse. fold (final_of i). intros Hrun Hlt.
  destruct (arun_inv _ _ _ _ inv_init Hrun) as [Hinv _]. destruct c' as [[st inp] n].
  destruct Hinv as (Hok & cons & k & Hs & Hstream & Hk & Hn). simpl in *. subst n. rewrite Nat2Z.id in *.
  split; [|lia].
  destruct k as [|k].
  - simpl in Hstream. rewrite app_nil_r in Hstream. subst ws. rewrite skipn_app, skipn_all, Nat.sub_diag. reflexivity.
  - rewrite (Hk ltac:(discriminate)) in Hstream. rewrite app_nil_r in Hstream. subst cons.
    rewrite app_length in Hlt. lia.
Qed.

End WS.

(* ================= error position ================= *)
Lemma astep_prefix st a u v1 v2 n :
  match astep m (st, (a :: u) ++ v1, n) with
  | ANext (st', inp', n') =>
      (inp' = (a :: u) ++ v1 /\ astep m (st, (a :: u) ++ v2, n) = ANext (st', (a :: u) ++ v2, n')) \/
      (inp' = u ++ v1 /\ astep m (st, (a :: u) ++ v2, n) = ANext (st', u ++ v2, n'))
  | AFail b => astep m (st, (a :: u) ++ v2, n) = AFail b
  end.
Proof.
  unfold astep. simpl.
  destruct (m_act m (snd (hd (0, -1) st)) a []) as [q|r| |row]; try reflexivity.
  - destruct (a =? 0); [left|right]; split; reflexivity.
  - destruct (length st <=? Z.to_nat (m_rule_len m r))%nat; [reflexivity|].
    destruct (m_goto m _ (m_rule_sym m r) =? -1); [reflexivity|]. left. split; reflexivity.
Qed.

Lemma astep_input_len c c' : astep m c = ANext c' -> (length (snd (fst c')) <= length (snd (fst c)))%nat.
Proof.
  destruct c as [[st inp] n]. unfold astep.
  destruct (m_act m (snd (hd (0, -1) st)) match inp with x :: _ => x | [] => 0 end []) as [q|r| |row]; try discriminate.
  - intros E. injection E as <-. simpl. destruct (_ =? 0); [lia|]. destruct inp; simpl; lia.
  - destruct (length st <=? Z.to_nat (m_rule_len m r))%nat; [discriminate|].
    destruct (m_goto m _ (m_rule_sym m r) =? -1); [discriminate|]. intros E. injection E as <-. simpl. lia.
Qed.

Lemma arun_input_len e fuel : forall c o c', arun fuel m e c = (o, c') -> (length (snd (fst c')) <= length (snd (fst c)))%nat.
Proof.
  induction fuel as [|f IH]; intros c o c'; simpl.
  - intros E. injection E as <- <-. lia.
  - destruct (_ =? e); [intros E; injection E as <- <-; lia|].
    destruct (astep m c) as [c1|[|]] eqn:Es; try (intros E; injection E as <- <-; lia).
    intros E. apply IH in E. apply astep_input_len in Es. lia.
Qed.

Lemma arun_prefix e fuel : forall st u v1 v2 n o st' inp' n',
  arun fuel m e (st, u ++ v1, n) = (o, (st', inp', n')) -> (length v1 < length inp')%nat ->
  exists u', inp' = u' ++ v1 /\ arun fuel m e (st, u ++ v2, n) = (o, (st', u' ++ v2, n')).
Proof.
  induction fuel as [|f IH]; intros st u v1 v2 n o st' inp' n'.
  - simpl. intros E Hl. injection E as <- <- <- <-. exists u. split; reflexivity.
  - cbn [arun]. cbn [fst snd]. destruct (snd (hd (0, -1) st) =? e).
    + intros E Hl. injection E as <- <- <- <-. exists u. split; reflexivity.
    + destruct u as [|a u].
      * simpl app. intros E Hl. exfalso.
        assert (H : (length inp' <= length v1)%nat).
        { destruct (astep m (st, v1, n)) as [c1|[|]] eqn:Es.
          - apply arun_input_len in E. apply astep_input_len in Es. simpl in *. lia.
          - injection E as _ _ <- _. lia.
          - injection E as _ _ <- _. lia. }
        lia.
      * pose proof (astep_prefix st a u v1 v2 n) as Hp.
        destruct (astep m (st, (a :: u) ++ v1, n)) as [[[st1 inp1] n1]|b] eqn:Es.
        -- destruct Hp as [[-> Hp]|[-> Hp]]; rewrite Hp; intros E Hl.
           ++ apply (IH st1 (a :: u) v1 v2 n1 o st' inp' n' E Hl).
           ++ apply (IH st1 u v1 v2 n1 o st' inp' n' E Hl).
        -- rewrite Hp. destruct b; intros E Hl; injection E as <- <- <- <-; exists (a :: u); split; reflexivity.
Qed.

Lemma arun_fuel_mono e f1 : forall c o c', arun f1 m e c = (o, c') -> o <> AFuel ->
  forall f2, (f1 <= f2)%nat -> arun f2 m e c = (o, c').
Proof.
  induction f1 as [|f IH]; intros c o c'; simpl.
  - intros E Hne. injection E as <- _. congruence.
  - intros E Hne f2 Hle. destruct f2 as [|f2]; [lia|]. simpl.
    destruct (_ =? e); [exact E|].
    destruct (astep m c) as [c1|[|]]; try exact E. apply IH; [exact E|exact Hne|lia].
Qed.

Definition sentence (nt : Z) (eoi : bool) (w : list Z) : Prop :=
  if eoi then derives g nt w else exists p s, w = p ++ s /\ derives g nt p.

(* the run on ws reported a syntax error after k shifts: ws is not a sentence and, when token k exists,
   no sentence begins with the first k+1 tokens of ws *)
Theorem arun_error_position ws fuel nt eoi c' :
  toks_ok ws -> nth_error (g_inputs g) i = Some (nt, eoi) ->
  aparse fuel m finals i ws = (AError, c') ->
  ~ sentence nt eoi ws /\
  ((Z.to_nat (snd c') < length ws)%nat ->
     forall z, toks_ok z -> ~ sentence nt eoi (firstn (S (Z.to_nat (snd c'))) ws ++ z)).
Proof.
  intros Hws Hinp Hrun. split.
  - intros Hs. destruct (arun_complete ws Hws _ _ Hinp Hs) as (f2 & c2 & Hacc).
    unfold aparse in *.
    pose proof (arun_fuel_mono _ _ _ _ _ Hrun ltac:(discriminate) (Nat.max fuel f2) (Nat.le_max_l _ _)) as H1.
    pose proof (arun_fuel_mono _ _ _ _ _ Hacc ltac:(discriminate) (Nat.max fuel f2) (Nat.le_max_r _ _)) as H2.
    rewrite H1 in H2. discriminate.
  - intros Hlt z Hz Hs.
    destruct (arun_error_pos ws Hws _ _ Hrun Hlt) as [Hinp' Hk0]. destruct c' as [[st inp] k]. simpl in *.
    set (kk := Z.to_nat k) in *.
    assert (Hsplit : ws = firstn (S kk) ws ++ skipn (S kk) ws) by (symmetry; apply firstn_skipn).
    assert (Hne : (length (skipn (S kk) ws) < length inp)%nat).
    { subst inp. rewrite !skipn_length. lia. }
    unfold aparse in Hrun. rewrite Hsplit in Hrun.
    destruct (arun_prefix _ _ _ _ _ z _ _ _ _ _ Hrun Hne) as (u' & _ & Hrun2).
    assert (Hok2 : toks_ok (firstn (S kk) ws ++ z)).
    { unfold toks_ok in *. apply Forall_app. split; [|exact Hz]. rewrite Forall_forall in *. intros x Hx. apply Hws.
      eapply In_firstn; exact Hx. }
    destruct (arun_complete _ Hok2 _ _ Hinp Hs) as (f2 & c2 & Hacc). unfold aparse in Hacc.
    pose proof (arun_fuel_mono _ _ _ _ _ Hrun2 ltac:(discriminate) (Nat.max fuel f2) (Nat.le_max_l _ _)) as H1.
    pose proof (arun_fuel_mono _ _ _ _ _ Hacc ltac:(discriminate) (Nat.max fuel f2) (Nat.le_max_r _ _)) as H2.
    rewrite H1 in H2. discriminate.
Qed.

Theorem parse_never_crashes ws fuel why : toks_ok ws -> fst (parse fuel m finals i ws) <> Crash why.
Proof.
  intros Hws Hc. pose proof (parse_sim ws fuel) as H. rewrite Hc in H. apply (arun_no_crash ws Hws fuel H).
Qed.

Theorem parse_error_position ws fuel nt eoi off eoff k :
  toks_ok ws -> nth_error (g_inputs g) i = Some (nt, eoi) ->
  fst (parse fuel m finals i ws) = SyntaxError off eoff k ->
  ~ sentence nt eoi ws /\
  ((Z.to_nat k < length ws)%nat -> forall z, toks_ok z -> ~ sentence nt eoi (firstn (S (Z.to_nat k)) ws ++ z)).
Proof.
  intros Hws Hinp Hp. pose proof (parse_sim ws fuel) as H. rewrite Hp in H. destruct H as [H1 H2].
  destruct (aparse fuel m finals i ws) as [o c'] eqn:E. simpl in *. subst o k.
  exact (arun_error_position ws fuel nt eoi c' Hws Hinp E).
Qed.

End Proofs.

Lemma lalr1_machine_nomore t rl rs s a more : m_act (lalr1_machine t rl rs) s a more = m_act (lalr1_machine t rl rs) s a [].
Proof. reflexivity. Qed.
Lemma opt_machine_nomore o terms rl rs s a more : m_act (opt_machine o terms rl rs) s a more = m_act (opt_machine o terms rl rs) s a [].
Proof. reflexivity. Qed.

Lemma input_index_lt g i x : nth_error (g_inputs g) i = Some x -> (i < ninputs g)%nat.
Proof. intros H. apply nth_error_Some. unfold ninputs. rewrite H. discriminate. Qed.
