(* C29, runtime lookaheads: cancellable parsers whose grammar has (?= ...) lookaheads (go_parser.go.tmpl:
   "lookaheadFunc", "lookaheadRule", "lookaheadMethods", the lookahead cases of "applyRule"; the hand-written loop of
   parsers/js/parser_impl.go has the same structure).  The lookahead sub-parse lookahead() is a run of the same
   table-driven loop on a copy of the input starting at the current token, without listener events; it increments the
   SAME session counter (s.shiftCounter) on every shift attempt and polls the context with the same test
   (counter & 0x1ff == 0).  A poll that finds the context done makes lookahead() return (false, ctx.Err()), which
   At<X> / lookaheadRule / applyRule hand up unchanged, and parse returns it.
   With recursiveLookaheads a lookahead rule reduced INSIDE lookahead() is resolved by lookaheadRule (nested
   lookahead sub-parses) and results are memoized in s.cache under (offset of the next token, final state).
   ls_ticks records every counter increment with the nesting depth at which it happened (0 = main loop).
   rho n = "the context is done when polled at counter value n" (arbitrary oracle).  Executable definitions only. *)
From Coq Require Import List ZArith Bool Arith.
From TM Require Import Gram.PTables Gram.Run Gram.Events Gram.Cancel.
Import ListNotations.
Local Open Scope Z_scope.

(* lalr.LookaheadRule: cases tried in order, a case holds when its lookahead answers [negb negated] *)
Record la_case := mkLaCase { lc_input : Z; lc_negated : bool; lc_target : Z }.
Record la_rule := mkLaRule { lr_cases : list la_case; lr_default : Z }.

Record la_tables := mkLaTables {
  lt_rule : Z -> option la_rule;     (* Tables.Lookaheads by rule index (rules numbered after the ordinary ones) *)
  lt_final : Z -> Z;                 (* Tables.FinalStates by input; the start state of an input is its index *)
  lt_recursive : bool;               (* option recursiveLookaheads *)
  lt_depth : nat                     (* Tables.UsedLADepth: how many terminals after the next one an LALR(k) row may
                                        inspect (0 for LALR(1) tables); only these are handed to m_act *)
}.

(* the session: shift counter, memoization cache (offset, final state) -> answer, and the tick log *)
Record lstate := mkLS { ls_counter : Z; ls_cache : list (Z * Z * bool); ls_ticks : list Z }.

Definition tick (depth : Z) (s : lstate) : lstate :=
  mkLS (ls_counter s + 1) (ls_cache s) (depth :: ls_ticks s).

Fixpoint cache_find (off final : Z) (c : list (Z * Z * bool)) : option bool :=
  match c with
  | [] => None
  | (o, e, b) :: rest => if (o =? off) && (e =? final) then Some b else cache_find off final rest
  end.

Definition cache_add (off final : Z) (b : bool) (s : lstate) : lstate :=
  mkLS (ls_counter s) ((off, final, b) :: ls_cache s) (ls_ticks s).

(* result of a lookahead sub-parse: its answer, or the whole parse is aborted (context error; crash / fuel) *)
Inductive lres := LBool (b : bool) | LAbort (o : coutcome).
(* result of a chain of lookahead cases: the target symbol, or abort *)
Inductive cres := CSym (sym : Z) | CAbort (o : coutcome).

(* the chain "if ok, err = AtA(..); ok {..} else if err != nil {return} else if ok, err = AtB(..); !ok {..} else {..}" *)
Fixpoint eval_cases (lk : Z -> Z -> lstate -> lres * lstate) (final : Z -> Z) (cases : list la_case) (default : Z)
    (s : lstate) : cres * lstate :=
  match cases with
  | [] => (CSym default, s)
  | c :: rest =>
      match lk (lc_input c) (final (lc_input c)) s with
      | (LBool b, s') =>
          if xorb b (lc_negated c) then (CSym (lc_target c), s') else eval_cases lk final rest default s'
      | (LAbort o, s') => (CAbort o, s')
      end
  end.

(* memoization wrapper of lookahead() (only with recursiveLookaheads); a cancelled sub-parse is not memoized *)
Definition look_memo (recursive : bool) (key final : Z) (run : lstate -> lres * lstate) (s : lstate) : lres * lstate :=
  if recursive then
    match cache_find key final (ls_cache s) with
    | Some b => (LBool b, s)
    | None =>
        match run s with
        | (LBool b, s') => (LBool b, cache_add key final b s')
        | r => r
        end
    end
  else run s.

Section Loop.
Variable m : machine.
Variable lt : la_tables.
Variable attempts : Z -> Z -> bool.
Variable eoi_off : Z.
Variable rho : Z -> bool.

(* for state != end { ... } of lookahead(); the stack holds states only, top first *)
Fixpoint look_loop (fuel : nat) (depth end_state : Z) (stack : list Z) (state : Z) (input : list tok) (s : lstate)
    {struct fuel} : lres * lstate :=
  match fuel with
  | O => (LAbort (Plain OutOfFuel), s)
  | S f =>
      if state =? end_state then (LBool true, s)
      else
        let nx := next_tok eoi_off input in
        let att := attempts state (t_sym nx) in
        let s1 := if att then tick depth s else s in
        if att && polls (ls_counter s1) && rho (ls_counter s1) then (LAbort CtxErr, s1)
        else
          match m_act m state (t_sym nx) (map t_sym (firstn (lt_depth lt) (tl input))) with
          | Reduce rule =>
              let ln := Z.to_nat (m_rule_len m rule) in
              if (length stack <=? ln)%nat then (LAbort (Plain (Crash 2)), s1)
              else
                let rest := skipn ln stack in
                let below := hd (-1) rest in
                let go (sym : Z) (s2 : lstate) :=
                  let st := m_goto m below sym in
                  if st =? -1 then (LBool false, s2)
                  else look_loop f depth end_state (st :: rest) st input s2 in
                match (if lt_recursive lt then lt_rule lt rule else None) with
                | Some lr =>
                    match eval_cases
                            (fun start en s' =>
                               look_memo true (t_off nx) en
                                         (fun s'' => look_loop f (depth + 1) en [start] start input s'') s')
                            (lt_final lt) (lr_cases lr) (lr_default lr) s1 with
                    | (CSym sym, s2) => go sym s2
                    | (CAbort o, s2) => (LAbort o, s2)
                    end
                | None => go (m_rule_sym m rule) s1
                end
          | Shift st =>
              look_loop f depth end_state (st :: stack) st (if t_sym nx =? 0 then input else tl input) s1
          | _ => (LBool false, s1)
          end
  end.

(* At<X>(ctx, lexer, p.next, s) called from applyRule: depth 1 *)
Definition look_top (lfuel : nat) (input : list tok) (start en : Z) (s : lstate) : lres * lstate :=
  look_memo (lt_recursive lt) (t_off (next_tok eoi_off input)) en
            (fun s' => look_loop lfuel 1 en [start] start input s') s.

Record lconfig := mkLC { lc_s : lstate; lc_x : xconfig }.
Inductive lstep_result := LContinue (c : lconfig) | LStop (o : coutcome) (s : lstate).

(* applyRule of a lookahead rule: lhs.sym.symbol = target *)
Definition with_sym (rule sym : Z) : machine :=
  mkMachine (m_act m) (m_goto m) (m_rule_len m) (fun r => if r =? rule then sym else m_rule_sym m r).

Definition lstep (lfuel : nat) (evt : ev_table) (fixws : bool) (c : lconfig) : lstep_result :=
  let x := lc_x c in
  let nx := next_tok eoi_off (xc_input x) in
  let att := attempts (xc_state x) (t_sym nx) in
  let s1 := if att then tick 0 (lc_s c) else lc_s c in
  if att && polls (ls_counter s1) && rho (ls_counter s1) then LStop CtxErr s1
  else
    let plain (m' : machine) (s2 : lstate) :=
      match xstep m' evt fixws eoi_off x with
      | XContinue x' => LContinue (mkLC s2 x')
      | XStop o => LStop (Plain o) s2
      end in
    match m_act m (xc_state x) (t_sym nx) (map t_sym (firstn (lt_depth lt) (tl (xc_input x)))) with
    | Reduce rule =>
        match lt_rule lt rule with
        | Some lr =>
            match eval_cases (look_top lfuel (xc_input x)) (lt_final lt) (lr_cases lr) (lr_default lr) s1 with
            | (CSym sym, s2) => plain (with_sym rule sym) s2
            | (CAbort o, s2) => LStop o s2
            end
        | None => plain m s1
        end
    | _ => plain m s1
    end.

(* returns the outcome, the configuration at which the loop stopped (before the step that stopped it) and the
   session at that moment (its counter and ticks include the shift attempts of an aborted lookahead) *)
Fixpoint lrun_loop (fuel lfuel : nat) (evt : ev_table) (fixws : bool) (end_state : Z) (c : lconfig)
    : coutcome * lconfig * lstate :=
  match fuel with
  | O => (Plain OutOfFuel, c, lc_s c)
  | S f =>
      if xc_state (lc_x c) =? end_state then (Plain Accept, c, lc_s c)
      else match lstep lfuel evt fixws c with
           | LContinue c' => lrun_loop f lfuel evt fixws end_state c'
           | LStop o s => (o, c, s)
           end
  end.

Definition lrun (fuel lfuel : nat) (evt : ev_table) (fixws : bool) (start end_state : Z) (input : list tok)
    : coutcome * lconfig * lstate :=
  lrun_loop fuel lfuel evt fixws end_state
            (mkLC (mkLS 0 [] []) (mkXC [mkX 0 0 0 start (TLeaf 0 0 0)] start input [])).

End Loop.

(* the oracle of a context that is never cancelled *)
Definition never : Z -> bool := fun _ => false.

(* nesting depths at which the polls happened (most recent first): the ticks whose number is a multiple of 512;
   n = number of the head tick (the counter, by the fourth conjunct of CancelLA_proofs.la_cancel_bounded, C29_lookaheads_cancel_bounded) *)
Fixpoint poll_depths_from (n : Z) (ticks : list Z) : list Z :=
  match ticks with
  | [] => []
  | d :: rest => if polls n then d :: poll_depths_from (n - 1) rest else poll_depths_from (n - 1) rest
  end.
Definition poll_depths (s : lstate) : list Z := poll_depths_from (ls_counter s) (ls_ticks s).
