(* C19: the recovering variant of the generated parse loop (go_parser.go.tmpl with IsRecovering:
   error reporting with the "recovering" counter, recoverFromError, skipBrokenCode, reduceAll), layered on the
   event-emitting loop of Events.v.  The error handler is an oracle eh : number of errors so far -> continue?.
   Not modelled: recoveryScope markers, reported (pending) tokens and invalid-token coverage of the error range.
   Executable definitions only. *)
From Coq Require Import List ZArith Bool Arith.
From TM Require Import Gram.PTables Gram.Run Gram.Events.
Import ListNotations.
Local Open Scope Z_scope.

Record rparams := mkRP {
  rp_m : machine;
  rp_evt : ev_table;
  rp_fixws : bool;
  rp_eoi_off : Z;
  rp_end : Z;                       (* end state *)
  rp_err_sym : Z;                   (* the 'error' terminal *)
  rp_after_err : list Z;            (* afterErr: terminals that may follow 'error' *)
  rp_shift_ok : Z -> Z -> bool;     (* reduceAll's final test: the loop would shift this terminal in this state *)
  rp_deep : Z -> Z -> bool          (* LALR(k) row in this cell: reduceAll gives up *)
}.

Record rconfig := mkRC {
  rc_x : xconfig;
  rc_recovering : Z;
  rc_errors : list (Z * Z);         (* (offset, endoffset) passed to the error handler, in order *)
  rc_last : Z * Z                   (* lastErr *)
}.

Inductive routcome := RAccept | RSyntax (off endoff : Z) | RCrash (why : Z) | RFuel.
Inductive rstep_result := RContinue (c : rconfig) | RStop (o : routcome) (c : rconfig).

(* ---- reduceAll(stack[:pos], state, symbol, endState) ---- *)
(* stack: top first, already cut at pos; stack2: top first *)
Fixpoint reduce_all (fuel : nat) (p : rparams) (stack : list xentry) (stack2 : list Z) (state symbol : Z) : option (Z * bool) :=
  match fuel with
  | O => None
  | S f =>
      if state =? rp_end p then Some (state, symbol =? 0)
      else if state <? 0 then None                     (* tmAction[-1]: index out of range *)
      else if rp_deep p state symbol then Some (0, false)
      else match m_act (rp_m p) state symbol [] with
           | Reduce rule =>
               let ln := Z.to_nat (m_rule_len (rp_m p) rule) in
               let sym := m_rule_sym (rp_m p) rule in
               match ln with
               | O => let st := m_goto (rp_m p) state sym in reduce_all f p stack (st :: stack2) st symbol
               | _ =>
                   if (ln <? length stack2)%nat then
                     let stack2' := skipn ln stack2 in
                     let below := hd 0 stack2' in
                     let st := m_goto (rp_m p) below sym in
                     reduce_all f p stack (st :: stack2') st symbol
                   else
                     let k := (ln - length stack2)%nat in      (* entries taken from the real stack *)
                     match skipn k stack with
                     | [] => None                              (* stack[size-1] with size <= 0 *)
                     | (b :: _) as rest =>
                         let st := m_goto (rp_m p) (x_state b) sym in
                         reduce_all f p rest [st] st symbol
                     end
               end
           | _ => Some (state, rp_shift_ok p state symbol)
           end
  end.

(* positions (as suffixes of the stack, top first) whose top state has a transition on 'error' *)
Fixpoint recover_positions (p : rparams) (stack : list xentry) : list (list xentry) :=
  match stack with
  | [] => []
  | e :: rest =>
      (if m_goto (rp_m p) (x_state e) (rp_err_sym p) =? -1 then [] else [stack]) ++ recover_positions p rest
  end.

Definition can_recover (syms : list Z) (s : Z) : bool := existsb (Z.eqb s) syms.

(* skipBrokenCode: returns (end offset of the last skipped token or 0, remaining input) *)
Fixpoint skip_broken (syms : list Z) (input : list tok) (e : Z) : Z * list tok :=
  match input with
  | t :: rest => if (t_sym t =? 0) || can_recover syms (t_sym t) then (e, input) else skip_broken syms rest (t_end t)
  | [] => (e, [])
  end.

Fixpoint find_match (p : rparams) (positions : list (list xentry)) (symbol : Z) (fuel : nat) : option (option (list xentry)) :=
  (* None: reduceAll crashed; Some None: no position matches; Some (Some st): first matching position *)
  match positions with
  | [] => Some None
  | st :: more =>
      let st0 := m_goto (rp_m p) (x_state (hd xdummy st)) (rp_err_sym p) in
      match reduce_all fuel p st [st0] st0 symbol with
      | None => None
      | Some (_, true) => Some (Some st)
      | Some (_, false) => find_match p more symbol fuel
      end
  end.

Definition rm_sym (s : Z) (l : list Z) : list Z := filter (fun x => negb (x =? s)) l.

(* the loop of recoverFromError; returns the new stack and input, or None (give up), or a crash *)
Inductive rec_result := RecOk (stack : list xentry) (input : list tok) | RecFail (input : list tok) | RecCrash | RecFuel.

Fixpoint recover_loop (fuel : nat) (p : rparams) (stack : list xentry) (positions : list (list xentry))
    (syms : list Z) (input : list tok) (s e : Z) : rec_result :=
  match fuel with
  | O => RecFuel
  | S f =>
      let '(e1, input1) := skip_broken syms input 0 in
      let e := if e1 >? e then e1 else e in
      let nx := next_tok (rp_eoi_off p) input1 in
      match find_match p positions (t_sym nx) (S (length stack) * 4 + 64) with
      | None => RecCrash
      | Some None =>
          if t_sym nx =? 0 then RecFail input1
          else recover_loop f p stack positions (rm_sym (t_sym nx) syms) input1 s e
      | Some (Some st) =>
          let dropped := (length stack - length st)%nat in       (* len(stack) - matchingPos *)
          let '(s, e) :=
            match dropped with
            | O => (s, e)
            | _ => let e' := if s =? e then x_end (hd xdummy stack) else e in
                   (x_off (nth (dropped - 1) stack xdummy), e')      (* stack[matchingPos].sym.offset *)
            end in
          let st0 := m_goto (rp_m p) (x_state (hd xdummy st)) (rp_err_sym p) in
          RecOk (mkX (rp_err_sym p) s e st0 (TLeaf (rp_err_sym p) s e) :: st) input1
      end
  end.

Definition recover_from_error (p : rparams) (stack : list xentry) (input : list tok) : rec_result :=
  match recover_positions p stack with
  | [] => RecFail input
  | positions =>
      let s := t_off (next_tok (rp_eoi_off p) input) in
      recover_loop (S (length input) + S (length (rp_after_err p))) p stack positions (rp_after_err p) input s s
  end.

(* ---- one iteration of the main loop ---- *)
Definition handle_error (p : rparams) (eh : nat -> bool) (c : rconfig) (stack : list xentry) (events : list event) : rstep_result :=
  let x := rc_x c in
  let nx := next_tok (rp_eoi_off p) (xc_input x) in
  let report := rc_recovering c =? 0 in
  let last := if report then (t_off nx, t_end nx) else rc_last c in
  let errors := if report then rc_errors c ++ [last] else rc_errors c in
  let c1 := mkRC (mkXC stack (xc_state x) (xc_input x) events) 4 errors last in
  if report && negb (eh (length errors)) then RStop (RSyntax (fst last) (snd last)) c1
  else match recover_from_error p stack (xc_input x) with
       | RecOk stack' input' =>
           RContinue (mkRC (mkXC stack' (x_state (hd xdummy stack')) input' events) 4 errors last)
       | RecFail input' => RStop (RSyntax (fst last) (snd last)) (mkRC (mkXC stack (xc_state x) input' events) 4 errors last)
       | RecCrash => RStop (RCrash 2) c1
       | RecFuel => RStop (RCrash 3) c1
       end.

Definition rstep (p : rparams) (eh : nat -> bool) (c : rconfig) : rstep_result :=
  let x := rc_x c in
  let m := rp_m p in
  let nx := next_tok (rp_eoi_off p) (xc_input x) in
  match m_act m (xc_state x) (t_sym nx) (map t_sym (tl (xc_input x))) with
  | Reduce rule =>
      let ln := Z.to_nat (m_rule_len m rule) in
      if (length (xc_stack x) <=? ln)%nat then RStop (RCrash 1) c
      else
        let rhs := rev (firstn ln (xc_stack x)) in
        let rest := skipn ln (xc_stack x) in
        let '(off, endoff) := lhs_range (map range_of rhs) (t_off nx) in
        let '(evs, endoff') := apply_rule (rp_fixws p) (ev_at (rp_evt p) rule) (map range_of rhs) off endoff in
        let below := match rest with b :: _ => x_state b | [] => -1 end in
        let sym := m_rule_sym m rule in
        let st := m_goto m below sym in
        let stack' := mkX sym off endoff' st (TNode rule (map x_tree rhs)) :: rest in
        if st =? -1 then handle_error p eh (mkRC (mkXC stack' st (xc_input x) (xc_events x)) (rc_recovering c) (rc_errors c) (rc_last c))
                                      stack' (xc_events x ++ evs)
        else RContinue (mkRC (mkXC stack' st (xc_input x) (xc_events x ++ evs)) (rc_recovering c) (rc_errors c) (rc_last c))
  | Shift st =>
      let input' := if t_sym nx =? 0 then xc_input x else tl (xc_input x) in
      RContinue (mkRC (mkXC (mkX (t_sym nx) (t_off nx) (t_end nx) st (TLeaf (t_sym nx) (t_off nx) (t_end nx)) :: xc_stack x)
                            st input' (xc_events x))
                      (if rc_recovering c >? 0 then rc_recovering c - 1 else rc_recovering c) (rc_errors c) (rc_last c))
  | _ => handle_error p eh c (xc_stack x) (xc_events x)
  end.

Fixpoint rrun_loop (fuel : nat) (p : rparams) (eh : nat -> bool) (c : rconfig) : routcome * rconfig :=
  match fuel with
  | O => (RFuel, c)
  | S f =>
      if xc_state (rc_x c) =? rp_end p then (RAccept, c)
      else match rstep p eh c with
           | RContinue c' => rrun_loop f p eh c'
           | RStop o c' => (o, c')
           end
  end.

Definition rrun (fuel : nat) (p : rparams) (eh : nat -> bool) (start : Z) (input : list tok) : routcome * rconfig :=
  rrun_loop fuel p eh (mkRC (mkXC [mkX 0 0 0 start (TLeaf 0 0 0)] start input []) 0 [] (0, 0)).

(* reduceAll's final test for the two encodings *)
Definition shift_ok_default (t : default_enc) (state symbol : Z) : bool :=
  let a0 := zn (d_action t) state in
  let a := if a0 <? -2 then lalr_lookup t a0 symbol else a0 in
  (a =? -1) && (goto_state t state symbol >=? 0).
Definition shift_ok_opt (o : disp_enc) (state symbol : Z) : bool :=
  match action_opt o state symbol with Shift _ => true | _ => false end.
