(* C02: the events the loop emits for a subtree are, with fixWhitespace, exactly the specification:
   post-order list of the arrows, each spanning the first to the last token of its part (empty: the
   following token). *)
From Coq Require Import List ZArith Bool Arith Lia.
From TM Require Import Lib.ListX Gram.PTables Gram.Run Gram.Events.
Import ListNotations.
Local Open Scope Z_scope.

(* ---------- induction on rose trees ---------- *)
Section TreeInd.
Variable P : tree -> Prop.
Hypothesis Hleaf : forall s o e, P (TLeaf s o e).
Hypothesis Hnode : forall r ch, Forall P ch -> P (TNode r ch).
Fixpoint tree_ind2 (t : tree) : P t :=
  match t with
  | TLeaf s o e => Hleaf s o e
  | TNode r ch => Hnode r ch ((fix go (l : list tree) : Forall P l :=
                               match l with [] => Forall_nil P | c :: rest => Forall_cons c (tree_ind2 c) (go rest) end) ch)
  end.
End TreeInd.

Lemma leaves_node r ch : leaves (TNode r ch) = forest_leaves ch.
Proof. unfold forest_leaves. simpl. induction ch as [|c rest IH]; simpl; [reflexivity|]. rewrite IH. reflexivity. Qed.

(* ---------- what the loop computes for a subtree, as a function of the tree ---------- *)
Fixpoint tree_run (fixws : bool) (evt : ev_table) (t : tree) (after : Z) : range * list event :=
  match t with
  | TLeaf _ o e => ((o, e), [])
  | TNode r ch =>
      let rs := (fix go (l : list tree) : list (range * list event) :=
                   match l with [] => [] | c :: rest => tree_run fixws evt c (start_of rest after) :: go rest end) ch in
      let ranges := map fst rs in
      let '(off, endoff) := lhs_range ranges after in
      let '(evs, endoff') := apply_rule fixws (ev_at evt r) ranges off endoff in
      ((off, endoff'), flat_map snd rs ++ evs)
  end.

Fixpoint forest_run (fixws : bool) (evt : ev_table) (l : list tree) (after : Z) : list (range * list event) :=
  match l with [] => [] | c :: rest => tree_run fixws evt c (start_of rest after) :: forest_run fixws evt rest after end.

Lemma tree_run_node fixws evt r ch after :
  tree_run fixws evt (TNode r ch) after =
    let rs := forest_run fixws evt ch after in
    let ranges := map fst rs in
    let '(off, endoff) := lhs_range ranges after in
    let '(evs, endoff') := apply_rule fixws (ev_at evt r) ranges off endoff in
    ((off, endoff'), flat_map snd rs ++ evs).
Proof.
  simpl.
  assert (E : (fix go (l : list tree) : list (range * list event) :=
                 match l with [] => [] | c :: rest => tree_run fixws evt c (start_of rest after) :: go rest end) ch
              = forest_run fixws evt ch after).
  { induction ch as [|c rest IH]; simpl; [reflexivity|]. rewrite IH. reflexivity. }
  rewrite E. reflexivity.
Qed.

(* ---------- spans ---------- *)
Lemma last_app_ne {A} (a b : list A) d : b <> [] -> last (a ++ b) d = last b d.
Proof.
  intros Hb. induction a as [|x a IH]; simpl; [reflexivity|].
  destruct (a ++ b) eqn:E; [destruct a; simpl in E; congruence|]. exact IH.
Qed.

Lemma span_app a b after :
  span_of (a ++ b) after =
    (fst (span_of a (fst (span_of b after))), match b with [] => snd (span_of a after) | _ => snd (span_of b after) end).
Proof.
  destruct a as [|[o e] a'].
  - simpl. destruct b as [|[o' e'] b']; reflexivity.
  - destruct b as [|x b']; [rewrite app_nil_r; reflexivity|].
    unfold span_of at 1. cbn [app]. cbn [span_of fst].
    change ((o, e) :: a' ++ x :: b') with (((o, e) :: a') ++ x :: b').
    rewrite last_app_ne by discriminate. destruct x. reflexivity.
Qed.

Lemma start_of_cons c rest after : start_of (c :: rest) after = fst (span_of (leaves c) (start_of rest after)).
Proof. unfold start_of, forest_leaves. simpl. rewrite span_app. reflexivity. Qed.

Lemma start_of_app a b after : start_of (a ++ b) after = start_of a (start_of b after).
Proof. unfold start_of, forest_leaves. rewrite flat_map_app, span_app. reflexivity. Qed.

Lemma forest_leaves_app a b : forest_leaves (a ++ b) = forest_leaves a ++ forest_leaves b.
Proof. apply flat_map_app. Qed.

(* the ranges the specification assigns to the children of a node *)
Fixpoint spec_ranges (ch : list tree) (after : Z) : list range :=
  match ch with [] => [] | c :: rest => span_of (leaves c) (start_of rest after) :: spec_ranges rest after end.

Lemma spec_ranges_app P Q aft : spec_ranges (P ++ Q) aft = spec_ranges P (start_of Q aft) ++ spec_ranges Q aft.
Proof. induction P as [|c P IH]; simpl; [reflexivity|]. rewrite IH, start_of_app. reflexivity. Qed.

Lemma spec_ranges_length ch aft : length (spec_ranges ch aft) = length ch.
Proof. induction ch; simpl; congruence. Qed.

(* tokens are non-empty and do not overlap; the part ends before the token that follows it *)
Fixpoint ordered (ls : list range) (after : Z) : Prop :=
  match ls with
  | [] => True
  | r :: rest => fst r < snd r /\ snd r <= fst (span_of rest after) /\ ordered rest after
  end.

Lemma ordered_app a b after : ordered (a ++ b) after <-> ordered a (fst (span_of b after)) /\ ordered b after.
Proof.
  induction a as [|r a IH]; simpl; [tauto|]. rewrite IH, span_app. simpl. tauto.
Qed.

Lemma ordered_last_ge ls after : ordered ls after -> forall r rest, ls = r :: rest -> snd r <= snd (last ls (0, 0)).
Proof.
  induction ls as [|x ls IH]; intros Ho r rest E; [discriminate|]. injection E as <- <-.
  destruct ls as [|y ls']; simpl; [lia|].
  simpl in Ho. destruct Ho as (H1 & H2 & H3). destruct y as [yo ye]. simpl in H2.
  specialize (IH H3 _ _ eq_refl). simpl in IH. simpl in H3. destruct H3 as (H4 & _). simpl in H4. lia.
Qed.

Lemma ordered_span_lt ls after : ordered ls after -> ls <> [] -> fst (span_of ls after) < snd (span_of ls after).
Proof.
  destruct ls as [|[o e] rest]; intros Ho Hne; [congruence|].
  pose proof (ordered_last_ge _ _ Ho _ _ eq_refl) as H. destruct Ho as (H1 & _).
  unfold span_of. cbn [fst snd] in *. unfold range in *. lia.
Qed.

Lemma is_empty_span ls after : ordered ls after -> is_empty (span_of ls after) = match ls with [] => true | _ => false end.
Proof.
  intros Ho. destruct ls as [|r rest].
  - unfold is_empty. simpl. apply Z.eqb_refl.
  - pose proof (ordered_span_lt _ _ Ho ltac:(discriminate)) as H. unfold is_empty. apply Z.eqb_neq. lia.
Qed.

Lemma ordered_forest_cons c rest after :
  ordered (forest_leaves (c :: rest)) after -> ordered (leaves c) (start_of rest after) /\ ordered (forest_leaves rest) after.
Proof. unfold forest_leaves. simpl. intros H. apply ordered_app in H. exact H. Qed.

(* ---------- reportRange and fixTrailingWS on the specification's ranges ---------- *)
Lemma trim_spec P aft : P <> [] -> ordered (forest_leaves P) aft ->
  snd (hd rdummy (trim_trailing (rev (spec_ranges P aft)))) = snd (span_of (forest_leaves P) aft).
Proof.
  revert aft. induction P as [|c P IH] using rev_ind; intros aft Hne Ho; [congruence|].
  rewrite spec_ranges_app, forest_leaves_app in *. simpl spec_ranges. rewrite rev_app_distr. simpl rev. simpl app.
  apply ordered_app in Ho. destruct Ho as [HoP Hoc]. unfold forest_leaves in Hoc, HoP. simpl in Hoc, HoP.
  rewrite app_nil_r in Hoc, HoP.
  assert (Est : start_of [c] aft = fst (span_of (leaves c) aft)).
  { unfold start_of, forest_leaves. simpl. rewrite app_nil_r. reflexivity. }
  unfold start_of at 1. simpl forest_leaves. change (forest_leaves [c]) with (leaves c ++ []). rewrite app_nil_r.
  rewrite span_app.
  destruct P as [|p P'].
  - simpl. destruct (leaves c); reflexivity.
  - assert (Hrev : exists y ys, rev (spec_ranges (p :: P') (start_of [c] aft)) = y :: ys).
    { destruct (rev (spec_ranges (p :: P') (start_of [c] aft))) eqn:E; [|eauto].
      apply (f_equal (@length _)) in E. rewrite rev_length, spec_ranges_length in E. discriminate. }
    destruct Hrev as (y & ys & Hrev). cbn [trim_trailing]. rewrite Hrev.
    change (fst (span_of [] aft)) with aft. rewrite (is_empty_span _ _ Hoc).
    destruct (leaves c) as [|l ls] eqn:El.
    + rewrite <- Hrev. rewrite Est. change (fst (span_of [] aft)) with aft in *.
      rewrite IH; [reflexivity|discriminate|exact HoP].
    + simpl. reflexivity.
Qed.

Lemma report_range_strict P aft : P <> [] -> ordered (forest_leaves P) aft ->
  report_range (spec_ranges P aft) = span_of (forest_leaves P) aft.
Proof.
  intros Hne Ho. unfold report_range. rewrite (trim_spec _ _ Hne Ho).
  destruct P as [|c rest]; [congruence|]. simpl hd.
  rewrite (surjective_pairing (span_of (forest_leaves (c :: rest)) aft)). f_equal.
  symmetry. apply start_of_cons.
Qed.

Lemma lne_spec P : forall aft, ordered (forest_leaves P) aft ->
  last_nonempty_end (rev (spec_ranges P aft)) =
    match forest_leaves P with [] => None | _ => Some (snd (span_of (forest_leaves P) aft)) end.
Proof.
  induction P as [|c P IH] using rev_ind; intros aft Ho; [reflexivity|].
  rewrite spec_ranges_app, forest_leaves_app in *. simpl spec_ranges. rewrite rev_app_distr. simpl rev. simpl app.
  apply ordered_app in Ho. destruct Ho as [HoP Hoc]. unfold forest_leaves in Hoc, HoP. simpl in Hoc, HoP.
  rewrite app_nil_r in Hoc, HoP.
  assert (Est : start_of [c] aft = fst (span_of (leaves c) aft)).
  { unfold start_of, forest_leaves. simpl. rewrite app_nil_r. reflexivity. }
  unfold start_of at 1. simpl forest_leaves. change (forest_leaves [c]) with (leaves c ++ []). rewrite app_nil_r.
  change (fst (span_of [] aft)) with aft. cbn [last_nonempty_end]. rewrite (is_empty_span _ _ Hoc).
  destruct (leaves c) as [|l ls] eqn:El.
  - rewrite Est. change (fst (span_of [] aft)) with aft in *. rewrite app_nil_r. apply IH. exact HoP.
  - rewrite span_app. destruct (forest_leaves P ++ l :: ls) eqn:E; [destruct (forest_leaves P); discriminate|]. reflexivity.
Qed.

Lemma fix_trailing_strict P aft endoff : P <> [] -> ordered (forest_leaves P) aft ->
  fix_trailing (spec_ranges P aft) (start_of P aft) endoff = snd (span_of (forest_leaves P) aft).
Proof.
  intros Hne Ho. unfold fix_trailing.
  destruct (spec_ranges P aft) eqn:E.
  - apply (f_equal (@length _)) in E. rewrite spec_ranges_length in E. destruct P; [congruence|discriminate].
  - rewrite <- E. rewrite (lne_spec _ _ Ho). unfold start_of. destruct (forest_leaves P); reflexivity.
Qed.

Lemma nth_spec_ranges ch aft : forall e, (e < length ch)%nat ->
  fst (nth e (spec_ranges ch aft) rdummy) = start_of (skipn e ch) aft.
Proof.
  induction ch as [|c rest IH]; intros e He; simpl in He; [lia|].
  destruct e as [|e]; simpl.
  - symmetry. apply start_of_cons.
  - apply IH. lia.
Qed.

Lemma split3 {A} (l : list A) s e : (s <= e)%nat -> (e <= length l)%nat ->
  l = firstn s l ++ firstn (e - s) (skipn s l) ++ skipn e l.
Proof.
  intros Hse Hel. rewrite <- (firstn_skipn s l) at 1. f_equal.
  rewrite <- (firstn_skipn (e - s) (skipn s l)) at 1. f_equal.
  rewrite ListX.skipn_skipn'. f_equal. lia.
Qed.

Lemma spec_ranges_segment ch aft s e : (s <= e)%nat -> (e <= length ch)%nat ->
  firstn (e - s) (skipn s (spec_ranges ch aft)) =
    spec_ranges (firstn (e - s) (skipn s ch)) (start_of (skipn e ch) aft).
Proof.
  intros Hse Hel. rewrite (split3 ch s e Hse Hel) at 1. rewrite !spec_ranges_app.
  assert (L1 : length (spec_ranges (firstn s ch) (start_of (firstn (e - s) (skipn s ch) ++ skipn e ch) aft)) = s).
  { rewrite spec_ranges_length, firstn_length. lia. }
  rewrite skipn_app, L1, Nat.sub_diag. rewrite skipn_all2 by lia. simpl.
  assert (L2 : length (spec_ranges (firstn (e - s) (skipn s ch)) (start_of (skipn e ch) aft)) = (e - s)%nat).
  { rewrite spec_ranges_length, firstn_length, skipn_length. lia. }
  rewrite firstn_app, L2, Nat.sub_diag. simpl. rewrite app_nil_r. rewrite firstn_all2 by lia. reflexivity.
Qed.

Lemma ordered_segment ch aft s e : (s <= e)%nat -> (e <= length ch)%nat -> ordered (forest_leaves ch) aft ->
  ordered (forest_leaves (firstn (e - s) (skipn s ch))) (start_of (skipn e ch) aft).
Proof.
  intros Hse Hel Ho. rewrite (split3 ch s e Hse Hel) in Ho. rewrite !forest_leaves_app in Ho.
  apply ordered_app in Ho. destruct Ho as [_ Ho]. apply ordered_app in Ho. destruct Ho as [Ho _]. exact Ho.
Qed.
