(* C02: the events the loop emits for a subtree are, with fixWhitespace, exactly the specification:
   post-order list of the arrows, each spanning the first to the last token of its part (empty: the
   following token). *)
From Coq Require Import List ZArith Bool Arith Lia.
From TM Require Import Gram.PTables Gram.Run Gram.Events.
Import ListNotations.
Local Open Scope Z_scope.

(* ---------- induction on rose trees ---------- *)
Section TreeInd.
Variable P : tree -> Prop.
Hypothesis Hleaf : forall s o e, P (TLeaf s o e).
Hypothesis Hnode : forall r ch, Forall P ch -> P (TNode r ch).
Fixpoint tree_ind2 (t : tree) : P t :=
  match t with
  | TLeaf s o e => Hleaf s o e
  | TNode r ch => Hnode r ch ((fix go (l : list tree) : Forall P l :=
                               match l with [] => Forall_nil P | c :: rest => Forall_cons c (tree_ind2 c) (go rest) end) ch)
  end.
End TreeInd.

Lemma leaves_node r ch : leaves (TNode r ch) = forest_leaves ch.
Proof. unfold forest_leaves. simpl. induction ch as [|c rest IH]; simpl; [reflexivity|]. rewrite IH. reflexivity. Qed.

(* ---------- what the loop computes for a subtree, as a function of the tree ---------- *)
Fixpoint tree_run (fixws : bool) (evt : ev_table) (t : tree) (after : Z) : range * list event :=
  match t with
  | TLeaf _ o e => ((o, e), [])
  | TNode r ch =>
      let rs := (fix go (l : list tree) : list (range * list event) :=
                   match l with [] => [] | c :: rest => tree_run fixws evt c (start_of rest after) :: go rest end) ch in
      let ranges := map fst rs in
      let '(off, endoff) := lhs_range ranges after in
      let '(evs, endoff') := apply_rule fixws (ev_at evt r) ranges off endoff in
      ((off, endoff'), flat_map snd rs ++ evs)
  end.

Fixpoint forest_run (fixws : bool) (evt : ev_table) (l : list tree) (after : Z) : list (range * list event) :=
  match l with [] => [] | c :: rest => tree_run fixws evt c (start_of rest after) :: forest_run fixws evt rest after end.

Lemma tree_run_node fixws evt r ch after :
  tree_run fixws evt (TNode r ch) after =
    let rs := forest_run fixws evt ch after in
    let ranges := map fst rs in
    let '(off, endoff) := lhs_range ranges after in
    let '(evs, endoff') := apply_rule fixws (ev_at evt r) ranges off endoff in
    ((off, endoff'), flat_map snd rs ++ evs).
Proof.
  simpl.
  assert (E : (fix go (l : list tree) : list (range * list event) :=
                 match l with [] => [] | c :: rest => tree_run fixws evt c (start_of rest after) :: go rest end) ch
              = forest_run fixws evt ch after).
  { induction ch as [|c rest IH]; simpl; [reflexivity|]. rewrite IH. reflexivity. }
  rewrite E. reflexivity.
Qed.

(* ---------- spans ---------- *)
Lemma span_app a b after :
  span_of (a ++ b) after =
    (fst (span_of a (fst (span_of b after))), match b with [] => snd (span_of a after) | _ => snd (span_of b after) end).
Proof.
  destruct a as [|[o e] a']; simpl.
  - destruct b as [|[o' e'] b']; reflexivity.
  - f_equal. destruct b as [|x b']; [rewrite app_nil_r; reflexivity|].
    destruct a' as [|y a'']; simpl.
    + destruct x. reflexivity.
    + rewrite (last_app_cons). reflexivity.
Qed.
