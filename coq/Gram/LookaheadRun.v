(* Run-time side of the lookahead rules (property C08, kind c08.gen): predicates that are decidable on the
   remaining token stream, the set of alternatives that conflict on the next terminal (per-state grouping of
   lalr/compile.go ruleAction/addRule), and the selection made by the generated decision procedure
   (go_parser.go.tmpl applyRule / lookaheadRule), expressed with the model of newLookaheadRule.
   Executable definitions only. *)
From Coq Require Import List ZArith Bool.
From TM Require Import Gram.Lookahead.
Import ListNotations.
Local Open Scope Z_scope.

(* A predicate nonterminal of the generated test grammars: it matches a set of short token sequences
   (token -1 = any token of the alphabet 0..ntok-1).  It has one or more sides  (?= guard) seq | seq | ...;
   a side with an empty guard is unconditional; a non-empty guard is a nested lookahead, a conjunction of
   literals over other predicates evaluated at the same position. *)
Record pdef := mkP { p_input : Z; p_sides : list (list (Z * bool) * list (list Z)) }.

Fixpoint is_prefix (ntok : Z) (s rest : list Z) : bool :=
  match s, rest with
  | [], _ => true
  | _ :: _, [] => false
  | x :: s', y :: r' =>
      (if x =? -1 then (0 <=? y) && (y <? ntok) else x =? y) && is_prefix ntok s' r'
  end.

Definition matches (ntok : Z) (seqs : list (list Z)) (rest : list Z) : bool :=
  existsb (fun s => is_prefix ntok s rest) seqs.

Fixpoint find_def (defs : list pdef) (i : Z) : option pdef :=
  match defs with
  | [] => None
  | d :: rest => if p_input d =? i then Some d else find_def rest i
  end.

(* outcome of predicate (input) i on the remaining tokens: some side whose guard holds matches *)
Fixpoint pred_at (fuel : nat) (ntok : Z) (defs : list pdef) (rest : list Z) (i : Z) : bool :=
  match fuel with
  | O => false
  | S f =>
      match find_def defs i with
      | None => false
      | Some d =>
          existsb (fun side =>
              forallb (fun lit => xorb (pred_at f ntok defs rest (fst lit)) (snd lit)) (fst side)
              && matches ntok (snd side) rest) (p_sides d)
      end
  end.

Definition rho_at (ntok : Z) (defs : list pdef) (rest : list Z) : Z -> bool :=
  pred_at (S (length defs)) ntok defs rest.

(* an alternative of a conflict point: its lookahead nonterminal and the terminals its body can start with *)
Record alt := mkAlt { a_la : lookahead; a_first : list Z }.

(* the alternatives that can be reduced on terminal t: the set handed to newLookaheadRule for (state, t);
   alts are kept in the planner's order (ascending lookahead index) *)
Definition group (alts : list alt) (t : Z) : list alt :=
  filter (fun a => existsb (Z.eqb t) (a_first a)) alts.

Inductive sel := SelNone | SelOne (nt : Z) | SelErr (why : Z).

(* no applicable alternative: syntax error; one: plain reduce (no decision needed); several: the rule that
   newLookaheadRule builds for the set, evaluated by the generated if-chain over the predicate outcomes *)
Definition select (alts : list alt) (rho : Z -> bool) (t : Z) : sel :=
  match group alts t with
  | [] => SelNone
  | [a] => SelOne (la_nonterm (a_la a))
  | g =>
      match new_rule (map a_la g) with
      | LaOk R => SelOne (eval_rule R rho)
      | LaErr w => SelErr w
      end
  end.

(* selection on a concrete remaining input: the terminal is its first token, the outcomes are those of the
   predicate nonterminals on that input *)
Definition select_on (ntok : Z) (defs : list pdef) (alts : list alt) (rest : list Z) : sel :=
  match rest with
  | [] => SelNone
  | t :: _ => select alts (rho_at ntok defs rest) t
  end.
