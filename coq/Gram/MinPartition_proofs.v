(* C06, parts 2-4 at the level of [minimize]: the partition it computes. *)
From Coq Require Import List ZArith Bool Lia.
From TM Require Import Lib.ListX Gram.PTables Gram.Optimize Gram.Run Gram.Minimize Gram.Minimize_proofs
  Gram.MinNumber_proofs Gram.MinRefine_proofs Gram.MinimizeWf.
Import ListNotations.
Local Open Scope Z_scope.

Lemma state_transitions_length t n : length (state_transitions t n) = Z.to_nat n.
Proof. unfold state_transitions. now rewrite map_length, zseq_length. Qed.

Lemma memz_In x l : memz x l = true <-> In x l.
Proof.
  unfold memz. rewrite existsb_exists. split.
  - intros [y [Hy E]]. apply Z.eqb_eq in E. now subst.
  - intro H. exists x. split; [exact H|apply Z.eqb_refl].
Qed.

Lemma minimize_unfold mi :
  minimize mi =
  let t := mi_enc mi in let n := mi_num_states mi in
  let '(remap, cnt) := final_partition mi in
  if cnt =? n then mkMinOutput t (mi_final mi) (mi_markers mi) n (zseq n)
  else
    let new_action := fold_left (fun acc i => set_at acc (zn remap i) (zn (d_action t) i)) (zseq n)
                                (map (fun _ => 0) (zseq cnt)) in
    let nsyms := zlength (d_goto t) - 1 in
    let per_sym := map (fun sym =>
        let mn := zn (d_goto t) sym in let mx := zn (d_goto t) (sym + 1) in
        let edges := map (fun k => (zn remap (zn (d_from_to t) (mn + 2 * k)), zn remap (zn (d_from_to t) (mn + 2 * k + 1))))
                         (zseq ((mx - mn) / 2)) in
        compact_by_from (fold_left (fun acc e => insert_edge e acc) edges [])) (zseq nsyms) in
    let '(new_goto, new_ft) := fold_left (fun '(g, ft) edges =>
        (g ++ [zlength ft], ft ++ flat_map (fun e => [fst e; snd e]) edges)) per_sym ([], []) in
    mkMinOutput (mkDefaultEnc new_action (d_lalr t) (new_goto ++ [zlength new_ft]) new_ft)
                (map (zn remap) (mi_final mi))
                (map (fun ms => dedup_keep_first (map (zn remap) ms) []) (mi_markers mi))
                cnt remap.
Proof.
  unfold minimize, final_partition, init_partition.
  destruct (number_all _) as [p0 c0]. destruct (refine _ _ _ _) as [remap cnt]. reflexivity.
Qed.

Section Partition.
Variable mi : min_input.
Let t := mi_enc mi.
Let n := mi_num_states mi.
Let rc := rule_classes mi.
Let special := accept_on_entry mi.
Let trans := state_transitions t n.
Let k := zlength (mi_final mi).
Hypothesis Hn : 0 <= n.
Hypothesis Hk : k <= n.

Let sigs := map (state_signature t rc special) (zseq n).

Lemma sigs_length : length sigs = Z.to_nat n.
Proof. unfold sigs. now rewrite map_length, zseq_length. Qed.

Lemma sigs_nth s : 0 <= s < n -> nth (Z.to_nat s) sigs [] = state_signature t rc special s.
Proof.
  intro Hs. unfold sigs. rewrite (nth_indep _ [] (state_signature t rc special 0)) by (rewrite map_length, zseq_length; lia).
  rewrite map_nth, zseq_nth by lia. now rewrite Z2Nat.id by lia.
Qed.

Lemma special_front i : 0 <= i < k -> In i special.
Proof. intro Hi. unfold special, accept_on_entry. apply in_or_app. left. apply in_zseq'. exact Hi. Qed.

Lemma sig_special s : In s special -> state_signature t rc special s = [sig_final; s].
Proof. intro H. unfold state_signature. apply memz_In in H. now rewrite H. Qed.

Lemma sig_not_special s : ~ In s special -> forall x, state_signature t rc special s <> [sig_final; x].
Proof.
  intros H x. unfold state_signature. destruct (memz s special) eqn:E; [apply memz_In in E; contradiction|].
  destruct (zn (d_action t) s >=? 0); [discriminate|]. destruct (zn (d_action t) s =? -1); [discriminate|].
  destruct (zn (d_action t) s =? -2); discriminate.
Qed.

Variables (p0 : list Z) (c0 : Z).
Hypothesis Hinit : init_partition mi = (p0, c0).

Lemma N_eq : Z.of_nat (length trans) = n.
Proof. unfold trans. rewrite state_transitions_length. lia. Qed.

Lemma init_spec :
  numbering trans p0 c0 /\ front_id k p0 /\
  (forall s s', 0 <= s < n -> 0 <= s' < n ->
     (zn p0 s = zn p0 s' <-> state_signature t rc special s = state_signature t rc special s')).
Proof.
  unfold init_partition in Hinit. fold t rc special n sigs in Hinit.
  destruct (number_all_zn _ _ _ Hinit) as (L & R & E & S & C). rewrite sigs_length in *.
  replace (Z.of_nat (Z.to_nat n)) with n in * by lia.
  split; [|split].
  - constructor; rewrite ?N_eq; try assumption. unfold trans. now rewrite state_transitions_length.
  - intros i Hi. rewrite zn_nth0 by lia.
    rewrite (number_all_distinct_front _ _ _ (Z.to_nat k) Hinit); [lia|rewrite sigs_length; lia| |lia].
    intros a b Ha Hb Eq. rewrite <- (Nat2Z.id a), <- (Nat2Z.id b) in Eq. rewrite !sigs_nth in Eq by lia.
    rewrite !sig_special in Eq by (apply special_front; lia). injection Eq. lia.
  - intros s s' Hs Hs'. rewrite (E s s' Hs Hs'), !sigs_nth by assumption. reflexivity.
Qed.

Variables (remap : list Z) (cnt : Z).
Hypothesis Hfinal : final_partition mi = (remap, cnt).

(* (2)-(4) for the partition returned by the refinement loop of [minimize] *)
Theorem final_partition_spec :
  numbering trans remap cnt /\ refines trans remap p0 /\ front_id k remap /\ stable trans remap.
Proof.
  unfold final_partition in Hfinal. rewrite Hinit in Hfinal. fold n t trans in Hfinal.
  destruct init_spec as (Hnum & Hfr & _).
  apply (refine_spec trans k p0) with (fuel := S (Z.to_nat n)) (p := p0) (c := c0); try assumption.
  - rewrite N_eq. exact Hk.
  - intros s s' _ _ E. exact E.
  - rewrite N_eq. pose proof (nb_count _ _ _ Hnum). lia.
Qed.

Theorem remap_range s : 0 <= s < n -> 0 <= zn remap s < cnt.
Proof. intro Hs. destruct final_partition_spec as (Hnum & _). apply (nb_range _ _ _ Hnum). now rewrite N_eq. Qed.

Theorem remap_cnt : 0 <= cnt <= n.
Proof. destruct final_partition_spec as (Hnum & _). pose proof (nb_count _ _ _ Hnum) as H. now rewrite N_eq in H. Qed.

Theorem remap_entry i : 0 <= i < k -> zn remap i = i.
Proof. destruct final_partition_spec as (_ & _ & Hf & _). apply Hf. Qed.

(* merged states have the same initial signature *)
Theorem remap_sig s s' : 0 <= s < n -> 0 <= s' < n -> zn remap s = zn remap s' ->
  state_signature t rc special s = state_signature t rc special s'.
Proof.
  intros Hs Hs' E. destruct final_partition_spec as (_ & Hr & _). destruct init_spec as (_ & _ & Hsig).
  apply (Hsig s s' Hs Hs'). apply Hr; rewrite ?N_eq; assumption.
Qed.

(* (4) pinned states (start states, accepting-on-entry final states, foreign final states) are never merged *)
Theorem remap_pinned_singleton s s' : 0 <= s < n -> 0 <= s' < n -> In s special -> zn remap s = zn remap s' -> s = s'.
Proof.
  intros Hs Hs' Hin E. pose proof (remap_sig s s' Hs Hs' E) as H. rewrite (sig_special s Hin) in H.
  destruct (in_dec Z.eq_dec s' special) as [Hin'|Hn'].
  - rewrite (sig_special s' Hin') in H. now injection H.
  - exfalso. apply (sig_not_special s' Hn' s). now symmetry.
Qed.

(* (3) the returned partition is a congruence for the transition rows *)
Theorem remap_stable s s' : 0 <= s < n -> 0 <= s' < n -> zn remap s = zn remap s' ->
  trans_sig remap (row trans s) = trans_sig remap (row trans s').
Proof. intros Hs Hs' E. destruct final_partition_spec as (_ & _ & _ & Hst). apply Hst; rewrite ?N_eq; assumption. Qed.
End Partition.
