(* C06, part 5c: rule classes, Lalr rows, and the action of merged states. *)
From Coq Require Import List ZArith Bool Lia ZifyBool.
From TM Require Import Lib.ListX Gram.PTables Gram.Optimize Gram.Run Gram.Minimize Gram.Minimize_proofs
  Gram.MinNumber_proofs Gram.MinRefine_proofs Gram.MinimizeWf Gram.MinPartition_proofs Gram.MinGoto_proofs
  Gram.MinTables_proofs.
Import ListNotations.
Local Open Scope Z_scope.

(* ---------- rule classes ---------- *)
Section RuleClasses.
Variables (mi : min_input) (rule_sym : list Z).
Let nrules := zlength (mi_rule_len mi).
Let ngr := Z.of_nat (length (mi_rule_keys mi)).
Hypothesis Hngr : ngr <= nrules.
Hypothesis Hkeys : forall r, 0 <= r < ngr -> wf_rule_key mi rule_sym r = true.

Lemma rule_classes_spec :
  (forall r, 0 <= r < nrules -> 0 <= zn (rule_classes mi) r) /\
  (forall r r', 0 <= r < nrules -> 0 <= r' < nrules -> zn (rule_classes mi) r = zn (rule_classes mi) r' ->
     rule_key_full mi rule_sym r = rule_key_full mi rule_sym r').
Proof.
  unfold rule_classes. rewrite zlength_map0. fold ngr nrules.
  set (kf := fun '(i, k) => match k with lhs :: rest => lhs :: zn (mi_rule_len mi) i :: rest | [] => [] end).
  set (keys := map kf (combine (zseq ngr) (mi_rule_keys mi))).
  destruct (number_all keys) as [ids nkeys] eqn:E.
  assert (Hlk : length keys = length (mi_rule_keys mi)).
  { unfold keys. rewrite map_length, combine_length, zseq_length. unfold ngr. lia. }
  destruct (number_all_zn _ _ _ E) as (L & R & Eq & _ & C). rewrite Hlk in *. fold ngr in R, Eq, C.
  set (hi := map (fun i => nkeys + i) (map (fun j => ngr + j) (zseq (nrules - ngr)))).
  assert (Hlo : forall r, 0 <= r < ngr -> zn (ids ++ hi) r = zn ids r).
  { intros r Hr. rewrite !zn_nth by lia. apply app_nth1. unfold ngr in Hr. lia. }
  assert (Hhi : forall r, ngr <= r < nrules -> zn (ids ++ hi) r = nkeys + r).
  { intros r Hr. rewrite zn_nth by (unfold ngr in Hr; lia). rewrite app_nth2 by (unfold ngr in Hr; lia).
    unfold hi. rewrite map_map. replace (Z.to_nat r - length ids)%nat with (Z.to_nat (r - ngr)) by (unfold ngr in *; lia).
    rewrite nth_map_zseq by lia. lia. }
  assert (Hkey : forall r, 0 <= r < ngr -> exists lhs rest, nth (Z.to_nat r) (mi_rule_keys mi) [] = lhs :: rest /\
             lhs = zn rule_sym r /\ nth (Z.to_nat r) keys [] = lhs :: zn (mi_rule_len mi) r :: rest).
  { intros r Hr. pose proof (Hkeys r Hr) as Hw. unfold wf_rule_key in Hw.
    destruct (nth (Z.to_nat r) (mi_rule_keys mi) []) as [|lhs rest] eqn:En; [discriminate|].
    exists lhs, rest. split; [reflexivity|]. split; [lia|]. unfold keys.
    rewrite (nth_indep _ [] (kf (0, []))) by (fold keys; rewrite Hlk; unfold ngr in Hr; lia).
    rewrite map_nth, combine_nth by (rewrite zseq_length; unfold ngr; lia).
    rewrite zseq_nth by (unfold ngr in Hr; lia). rewrite En. unfold kf. now rewrite Z2Nat.id by lia. }
  assert (Hfull : forall r, 0 <= r < ngr -> forall lhs rest, nth (Z.to_nat r) (mi_rule_keys mi) [] = lhs :: rest ->
             rule_key_full mi rule_sym r = zn (mi_rule_len mi) r :: zn rule_sym r :: lhs :: rest).
  { intros r Hr lhs rest En. unfold rule_key_full. rewrite zlength_map0. fold ngr.
    replace ((0 <=? r) && (r <? ngr)) with true by lia. now rewrite En. }
  assert (Hfull' : forall r, ngr <= r -> rule_key_full mi rule_sym r = [r]).
  { intros r Hr. unfold rule_key_full. rewrite zlength_map0. fold ngr. replace ((0 <=? r) && (r <? ngr)) with false by lia. reflexivity. }
  split.
  - intros r Hr. destruct (Z_lt_le_dec r ngr) as [Hl|Hg].
    + rewrite Hlo by lia. apply R. lia.
    + rewrite Hhi by lia. lia.
  - intros r r' Hr Hr' Hc. destruct (Z_lt_le_dec r ngr) as [Hl|Hg], (Z_lt_le_dec r' ngr) as [Hl'|Hg'].
    + rewrite !Hlo in Hc by lia. apply (Eq r r' ltac:(lia) ltac:(lia)) in Hc.
      destruct (Hkey r ltac:(lia)) as (lhs & rest & K1 & K2 & K3). destruct (Hkey r' ltac:(lia)) as (lhs' & rest' & K1' & K2' & K3').
      rewrite K3, K3' in Hc. injection Hc as C1 C2 C3.
      rewrite (Hfull r ltac:(lia) _ _ K1), (Hfull r' ltac:(lia) _ _ K1'). subst. congruence.
    + exfalso. rewrite Hlo in Hc by lia. rewrite Hhi in Hc by lia. pose proof (R r ltac:(lia)). lia.
    + exfalso. rewrite Hhi in Hc by lia. rewrite Hlo in Hc by lia. pose proof (R r' ltac:(lia)). lia.
    + rewrite !Hhi in Hc by lia. assert (r = r') by lia. now subst.
Qed.
End RuleClasses.

(* ---------- Lalr rows ---------- *)
Lemma lalr_walk_row l next : forall f a0, (length (lalr_row f l a0) < f)%nat ->
  lalr_walk f l a0 next =
  match find (fun en => fst en =? next) (lalr_row f l a0) with
  | Some en => snd en
  | None => zn l (a0 + 2 * Z.of_nat (length (lalr_row f l a0)) + 1)
  end.
Proof.
  induction f as [|f IH]; intros a0 Hlen; [lia|]. cbn [lalr_walk lalr_row] in *.
  destruct (zn l a0 >=? 0) eqn:E0.
  - cbn [length find fst snd] in *. destruct (zn l a0 =? next) eqn:E1; cbn [negb andb]; [reflexivity|].
    rewrite IH by lia. destruct (find _ _); [reflexivity|]. f_equal. lia.
  - cbn [andb find length]. f_equal. lia.
Qed.

Definition mrule (rc : list Z) (r : Z) : Z := if r >=? 0 then zn rc r else r.

Lemma flat_pair_inj (g : Z -> Z) row : forall row',
  flat_map (fun e : Z * Z => [fst e; g (snd e)]) row = flat_map (fun e : Z * Z => [fst e; g (snd e)]) row' ->
  Forall2 (fun e e' => fst e = fst e' /\ g (snd e) = g (snd e')) row row'.
Proof.
  induction row as [|e row IH]; intros [|e' row'] H; cbn [flat_map app] in H; try discriminate; [constructor|].
  injection H as H1 H2 H3. constructor; [split; assumption|]. now apply IH.
Qed.

Lemma find_Forall2 (g : Z -> Z) next row row' :
  Forall2 (fun e e' => fst e = fst e' /\ g (snd e) = g (snd e')) row row' ->
  match find (fun en : Z * Z => fst en =? next) row, find (fun en : Z * Z => fst en =? next) row' with
  | Some e, Some e' => In e row /\ In e' row' /\ g (snd e) = g (snd e')
  | None, None => True
  | _, _ => False
  end.
Proof.
  induction 1 as [|e e' row row' [H1 H2] HF IH]; cbn [find]; [exact I|]. rewrite <- H1.
  destruct (fst e =? next).
  - split; [now left|]. split; [now left|exact H2].
  - destruct (find _ row), (find _ row'); try exact IH. destruct IH as (A & B & C). split; [now right|]. split; [now right|exact C].
Qed.

(* ---------- the resolved action of a state on a terminal ---------- *)
Definition act1 (t : default_enc) (a0 term : Z) : Z := if a0 <? -2 then lalr_lookup t a0 term else a0.

Section Actions.
Variables (mi : min_input) (rule_sym : list Z).
Let t := mi_enc mi.
Let n := mi_num_states mi.
Let nrules := zlength (mi_rule_len mi).
Let ngr := Z.of_nat (length (mi_rule_keys mi)).
Let rc := rule_classes mi.
Let special := accept_on_entry mi.
Hypothesis Hngr : ngr <= nrules.
Hypothesis Hkeys : forall r, 0 <= r < ngr -> wf_rule_key mi rule_sym r = true.
Hypothesis Hact : forall s, 0 <= s < n -> wf_action t nrules s = true.

Definition act_equiv (a a' : Z) : Prop :=
  (a = a' /\ -2 <= a < 0) \/
  (0 <= a < nrules /\ 0 <= a' < nrules /\ rule_key_full mi rule_sym a = rule_key_full mi rule_sym a').

Lemma row_lookup a0 term : wf_lalr_row t nrules a0 = true ->
  let row := lalr_row (S (length (d_lalr t))) (d_lalr t) a0 in
  lalr_lookup t (- a0 - 3) term = match find (fun en => fst en =? term) row with Some en => snd en | None => -2 end /\
  (forall en, In en row -> -2 <= snd en < nrules).
Proof.
  unfold wf_lalr_row. rewrite !andb_true_iff. intros [[[[W1 W2] W3] W4] W5]. cbn zeta. split.
  - unfold lalr_lookup. replace (- (- a0 - 3) - 3) with a0 by lia.
    rewrite lalr_walk_row by (unfold zlength in W2; lia). destruct (find _ _); [reflexivity|]. lia.
  - intros en Hin. rewrite forallb_forall in W5. specialize (W5 en Hin). lia.
Qed.

Lemma act1_range s term : 0 <= s < n -> -2 <= act1 t (zn (d_action t) s) term < nrules.
Proof.
  intro Hs. pose proof (Hact s Hs) as W. unfold wf_action in W. unfold act1.
  pose proof (proj2 (Z.lt_le_pred 0 nrules)) as _. assert (Hnr : 0 <= nrules) by (unfold nrules, zlength; lia).
  destruct (zn (d_action t) s >=? 0) eqn:E0; [destruct (zn (d_action t) s <? -2) eqn:E1; lia|].
  destruct (zn (d_action t) s <? -2) eqn:E1; [|lia].
  destruct (row_lookup _ term W) as [R1 R2]. replace (- (- zn (d_action t) s - 3) - 3) with (zn (d_action t) s) in R1 by lia.
  rewrite R1. destruct (find _ _) as [en|] eqn:Ef; [|lia]. apply find_some in Ef. apply R2. apply Ef.
Qed.

Lemma act_equiv_refl a : -2 <= a < nrules -> act_equiv a a.
Proof. intro H. destruct (Z_lt_le_dec a 0); [left; lia|right; repeat split; lia]. Qed.

(* states with the same signature take equivalent actions on every terminal *)
Theorem sig_act_equiv s s' term : 0 <= s < n -> 0 <= s' < n ->
  state_signature t rc special s = state_signature t rc special s' ->
  act_equiv (act1 t (zn (d_action t) s) term) (act1 t (zn (d_action t) s') term).
Proof.
  intros Hs Hs' Hsig. destruct (rule_classes_spec mi rule_sym Hkeys) as [RC0 RCeq]. fold rc nrules in RC0, RCeq.
  pose proof (act1_range s term Hs) as Hr. pose proof (act1_range s' term Hs') as Hr'.
  pose proof (Hact s Hs) as W. pose proof (Hact s' Hs') as W'. unfold wf_action in W, W'.
  unfold state_signature in Hsig. unfold act1 in *.
  set (a := zn (d_action t) s) in *. set (a' := zn (d_action t) s') in *.
  destruct (memz s special) eqn:M, (memz s' special) eqn:M'.
  - injection Hsig as E. assert (a = a') by (unfold a, a'; now rewrite E). rewrite <- H in *. now apply act_equiv_refl.
  - exfalso. destruct (a' >=? 0); [discriminate|]. destruct (a' =? -1); [discriminate|]. destruct (a' =? -2); discriminate.
  - exfalso. destruct (a >=? 0); [discriminate|]. destruct (a =? -1); [discriminate|]. destruct (a =? -2); discriminate.
  - destruct (a >=? 0) eqn:A0; [|destruct (a =? -1) eqn:A1; [|destruct (a =? -2) eqn:A2]];
    (destruct (a' >=? 0) eqn:B0; [|destruct (a' =? -1) eqn:B1; [|destruct (a' =? -2) eqn:B2]]); try discriminate.
    + injection Hsig as E. replace (a <? -2) with false in * by lia. replace (a' <? -2) with false in * by lia.
      right. split; [lia|]. split; [lia|]. apply RCeq; [lia|lia|exact E].
    + replace (a <? -2) with false by lia. replace (a' <? -2) with false by lia. left. lia.
    + replace (a <? -2) with false by lia. replace (a' <? -2) with false by lia. left. lia.
    + replace (a <? -2) with true in * by lia. replace (a' <? -2) with true in * by lia.
      destruct (row_lookup _ term W) as [R1 R2]. destruct (row_lookup _ term W') as [R1' R2'].
      replace (- (- a - 3) - 3) with a in R1 by lia. replace (- (- a' - 3) - 3) with a' in R1' by lia.
      cbn zeta in R1, R2, R1', R2'.
      set (row := lalr_row (S (length (d_lalr t))) (d_lalr t) (- a - 3)) in *.
      set (row' := lalr_row (S (length (d_lalr t))) (d_lalr t) (- a' - 3)) in *.
      rewrite R1, R1' in *. injection Hsig as E.
      rewrite (flat_map_ext _ (fun e => [fst e; mrule rc (snd e)])) in E by (intros [x y]; reflexivity).
      rewrite (flat_map_ext (fun '(term0, rule) => _) (fun e => [fst e; mrule rc (snd e)])) in E by (intros [x y]; reflexivity).
      apply flat_pair_inj in E. pose proof (find_Forall2 (mrule rc) term _ _ E) as F.
      revert F.
      destruct (find _ row) as [e|], (find _ row') as [e'|]; intro F; try contradiction.
      * destruct F as (I1 & I2 & F). pose proof (R2 e I1) as Q. pose proof (R2' e' I2) as Q'. unfold mrule in F.
        destruct (snd e >=? 0) eqn:C0, (snd e' >=? 0) eqn:C0'.
        -- right. split; [lia|]. split; [lia|]. apply RCeq; [lia|lia|exact F].
        -- exfalso. pose proof (RC0 (snd e) ltac:(lia)). lia.
        -- exfalso. pose proof (RC0 (snd e') ltac:(lia)). lia.
        -- left. lia.
      * left. lia.
Qed.
End Actions.
