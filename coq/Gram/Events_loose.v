(* C02 without fixWhitespace: the ranges and events the loop computes for a derivation tree when fixws = false
   ("loose" ranges): a node starts at its first token and ends at the end of its last token, unless its last
   symbol (recursively) is empty, in which case it ends at the start of the FOLLOWING token (i.e. it extends over
   the whitespace in between).  On token streams without gaps the loose ranges are the strict ones, and the
   exactness theorem of C02 holds for fixws = false as well. *)
From Coq Require Import List ZArith Bool Arith Lia.
From TM Require Import Lib.ListX Gram.PTables Gram.Run Gram.Events Gram.Events_proofs Gram.Events_strict Gram.Events_run.
Import ListNotations.
Local Open Scope Z_scope.

(* the rightmost path of the tree ends in an empty rule *)
Fixpoint ends_empty (t : tree) : bool :=
  match t with
  | TLeaf _ _ _ => false
  | TNode _ ch =>
      (fix go (l : list tree) : bool :=
         match l with [] => true | c :: r => match r with [] => ends_empty c | _ => go r end end) ch
  end.

Lemma ends_empty_node r ch :
  ends_empty (TNode r ch) = match ch with [] => true | _ => ends_empty (last ch (TLeaf 0 0 0)) end.
Proof.
  simpl. induction ch as [|c rest IH]; [reflexivity|]. destruct rest as [|c' rest']; [reflexivity|].
  rewrite IH. reflexivity.
Qed.

(* the loose end of a tree that is followed by a token starting at a *)
Definition lend (t : tree) (a : Z) : Z := if ends_empty t then a else snd (span_of (leaves t) a).

Definition loose_range (t : tree) (a : Z) : range := (fst (span_of (leaves t) a), lend t a).

Fixpoint loose_ranges (ch : list tree) (after : Z) : list range :=
  match ch with [] => [] | c :: rest => loose_range c (start_of rest after) :: loose_ranges rest after end.

(* the event of an arrow over children s..e-1: from the first token of the part (or the following token) to the
   loose end of its last child *)
Definition loose_arrow_event (ch : list tree) (after : Z) (a : nat * nat * Z) : event :=
  let '(s, e, ty) := a in
  if Nat.eqb s e then (ty, start_of (skipn e ch) after, start_of (skipn e ch) after)
  else (ty, start_of (skipn s ch) after, lend (nth (e - 1) ch (TLeaf 0 0 0)) (start_of (skipn e ch) after)).

Fixpoint loose_events (arrows : arrow_table) (t : tree) (after : Z) : list event :=
  match t with
  | TLeaf _ _ _ => []
  | TNode r ch =>
      (fix go (l : list tree) : list event :=
         match l with
         | [] => []
         | c :: rest => loose_events arrows c (start_of rest after) ++ go rest
         end) ch
      ++ map (loose_arrow_event ch after) (arrows_at arrows r)
  end.

Fixpoint forest_loose (arrows : arrow_table) (l : list tree) (after : Z) : list event :=
  match l with [] => [] | c :: rest => loose_events arrows c (start_of rest after) ++ forest_loose arrows rest after end.

Lemma loose_events_node arrows r ch after :
  loose_events arrows (TNode r ch) after =
    forest_loose arrows ch after ++ map (loose_arrow_event ch after) (arrows_at arrows r).
Proof. simpl. f_equal. induction ch as [|c rest IH]; simpl; [reflexivity|]. rewrite IH. reflexivity. Qed.

(* the part of wf_tree that does not mention HasTrailingNulls *)
Inductive wf_reports (evt : ev_table) (rl : Z -> Z) : tree -> Prop :=
| wfr_leaf s o e : wf_reports evt rl (TLeaf s o e)
| wfr_node r ch :
    Forall (wf_reports evt rl) ch -> 0 <= r -> Z.to_nat (rl r) = length ch ->
    Forall (report_ok (length ch)) (er_reports (ev_at evt r)) ->
    wf_reports evt rl (TNode r ch).

Lemma wf_tree_reports evt rl t : wf_tree evt rl t -> wf_reports evt rl t.
Proof.
  induction t as [s o e | r ch IH] using tree_ind2; intros H; [constructor|].
  inversion H as [| ? ? Hch Hr Hlen Hreps _]; subst. constructor; auto.
  rewrite Forall_forall in *. intros c Hc. apply IH; auto.
Qed.

(* ---------- loose ranges ---------- *)
Lemma ends_empty_leaves t : ends_empty t = false -> leaves t <> [].
Proof.
  induction t as [s o e | r ch IH] using tree_ind2; intros H; [discriminate|].
  rewrite ends_empty_node in H. rewrite leaves_node. destruct ch as [|c0 rest0] eqn:Ech; [discriminate|].
  rewrite <- Ech in *. assert (Hne : ch <> []) by (rewrite Ech; discriminate).
  destruct (exists_last Hne) as (P & c & EP). rewrite EP in *. rewrite last_last in H.
  rewrite Forall_forall in IH. specialize (IH c ltac:(apply in_or_app; right; left; reflexivity) H).
  rewrite forest_leaves_app. unfold forest_leaves at 2. simpl. rewrite app_nil_r.
  intros E. apply app_eq_nil in E. tauto.
Qed.

Lemma loose_ranges_app P Q aft : loose_ranges (P ++ Q) aft = loose_ranges P (start_of Q aft) ++ loose_ranges Q aft.
Proof. induction P as [|c P IH]; simpl; [reflexivity|]. rewrite IH, start_of_app. reflexivity. Qed.

Lemma loose_ranges_length ch aft : length (loose_ranges ch aft) = length ch.
Proof. induction ch; simpl; congruence. Qed.

Lemma nth_loose_fst ch aft : forall e, (e < length ch)%nat ->
  fst (nth e (loose_ranges ch aft) rdummy) = start_of (skipn e ch) aft.
Proof.
  induction ch as [|c rest IH]; intros e He; simpl in He; [lia|].
  destruct e as [|e]; simpl.
  - symmetry. apply start_of_cons.
  - apply IH. lia.
Qed.

Lemma nth_loose_snd ch aft : forall i, (i < length ch)%nat ->
  snd (nth i (loose_ranges ch aft) rdummy) = lend (nth i ch (TLeaf 0 0 0)) (start_of (skipn (S i) ch) aft).
Proof.
  induction ch as [|c rest IH]; intros i Hi; simpl in Hi; [lia|].
  destruct i as [|i]; simpl; [reflexivity|]. apply IH. lia.
Qed.

Lemma lend_node r ch aft :
  lend (TNode r ch) aft = match ch with [] => aft | _ => lend (last ch (TLeaf 0 0 0)) aft end.
Proof.
  unfold lend. rewrite ends_empty_node, leaves_node. destruct ch as [|c0 rest0] eqn:Ech; [reflexivity|].
  rewrite <- Ech. assert (Hne : ch <> []) by (rewrite Ech; discriminate).
  destruct (exists_last Hne) as (P & c & EP). rewrite EP. rewrite last_last.
  destruct (ends_empty c) eqn:Ec; [reflexivity|].
  rewrite forest_leaves_app, span_app. unfold forest_leaves at 2. simpl. rewrite app_nil_r.
  pose proof (ends_empty_leaves _ Ec) as Hl. destruct (leaves c); [congruence|reflexivity].
Qed.

Lemma last_loose_ranges ch aft : ch <> [] ->
  snd (last (loose_ranges ch aft) rdummy) = lend (last ch (TLeaf 0 0 0)) aft.
Proof.
  intros Hne. destruct (exists_last Hne) as (P & c & EP). rewrite EP, loose_ranges_app. simpl.
  rewrite last_app_ne by discriminate. simpl. rewrite last_last. reflexivity.
Qed.

Lemma nth_last {A} (l : list A) d : l <> [] -> nth (length l - 1) l d = last l d.
Proof.
  intros Hne. destruct (exists_last Hne) as (P & c & EP). rewrite EP, app_length. simpl.
  replace (length P + 1 - 1)%nat with (length P) by lia. rewrite app_nth2 by lia. rewrite Nat.sub_diag, last_last. reflexivity.
Qed.

Lemma node_arrow_loose r ch after ty :
  loose_arrow_event ch after (O, length ch, ty) = (ty, fst (span_of (forest_leaves ch) after), lend (TNode r ch) after).
Proof.
  unfold loose_arrow_event. rewrite lend_node. destruct ch as [|c0 rest0]; [reflexivity|].
  assert (Hne : c0 :: rest0 <> []) by discriminate. set (ch := c0 :: rest0) in *.
  replace (Nat.eqb 0 (length ch)) with false by reflexivity.
  rewrite skipn_all, (nth_last ch _ Hne). reflexivity.
Qed.

Section Loose.
Variable evt : ev_table.
Variable rl : Z -> Z.
Notation arrows := (arrows_of_ev rl evt).

Definition loose_at (t : tree) : Prop :=
  wf_reports evt rl t -> forall after,
  tree_run false evt t after = (loose_range t after, loose_events arrows t after).

Lemma forest_loose_run ch : Forall loose_at ch -> Forall (wf_reports evt rl) ch -> forall after,
  map fst (forest_run false evt ch after) = loose_ranges ch after /\
  flat_map snd (forest_run false evt ch after) = forest_loose arrows ch after.
Proof.
  induction ch as [|c rest IH]; intros Hs Hw after; simpl; [split; reflexivity|].
  inversion Hs as [|? ? Hsc Hsr]; subst. inversion Hw as [|? ? Hwc Hwr]; subst.
  rewrite (Hsc Hwc _). simpl. destruct (IH Hsr Hwr after) as [E1 E2]. rewrite E1, E2. split; reflexivity.
Qed.

Lemma report_event_loose ch after rep : report_ok (length ch) rep ->
  report_event false (loose_ranges ch after) rep = loose_arrow_event ch after rep.
Proof.
  intros Hok. destruct rep as [[s e] ty]. simpl in Hok. destruct Hok as (Hse & Hel & Hlt).
  unfold report_event, loose_arrow_event. destruct (Nat.eqb s e) eqn:E.
  - apply Nat.eqb_eq in E. subst e. rewrite (nth_loose_fst _ _ _ (Hlt eq_refl)). reflexivity.
  - apply Nat.eqb_neq in E. rewrite nth_loose_fst by lia. rewrite nth_loose_snd by lia.
    replace (S (e - 1)) with e by lia. reflexivity.
Qed.

(* Without fixWhitespace the loop gives every subtree its loose range and emits the loose events -- for every
   tree whose reports lie inside their rules, whatever the tokens are. *)
Theorem tree_run_loose t : loose_at t.
Proof.
  induction t as [s o e | r ch IH] using tree_ind2; intros Hw after.
  - reflexivity.
  - inversion Hw as [| ? ? Hwch Hr0 Hlen Hreps]; subst.
    rewrite tree_run_node, loose_events_node.
    destruct (forest_loose_run ch IH Hwch after) as [E1 E2]. cbv zeta. rewrite E1, E2.
    assert (Hspan : lhs_range (loose_ranges ch after) after = loose_range (TNode r ch) after).
    { unfold loose_range. rewrite lend_node, leaves_node. destruct ch as [|c0 rest0]; [reflexivity|].
      rewrite <- (last_loose_ranges (c0 :: rest0) after) by discriminate.
      cbn [loose_ranges]. unfold lhs_range. f_equal. unfold loose_range. cbn [fst]. symmetry. apply start_of_cons. }
    rewrite Hspan. unfold loose_range at 1. unfold apply_rule. cbn [andb].
    rewrite (arrows_at_of_ev _ _ _ Hr0), map_app.
    assert (A1 : map (report_event false (loose_ranges ch after)) (er_reports (ev_at evt r)) =
                 map (loose_arrow_event ch after) (er_reports (ev_at evt r))).
    { apply map_ext_in. intros rep Hin. apply report_event_loose. rewrite Forall_forall in Hreps. apply Hreps. exact Hin. }
    assert (A2 : (if er_type (ev_at evt r) =? 0 then []
                  else [(er_type (ev_at evt r), fst (span_of (leaves (TNode r ch)) after), lend (TNode r ch) after)]) =
                 map (loose_arrow_event ch after)
                     (if er_type (ev_at evt r) =? 0 then [] else [(O, Z.to_nat (rl r), er_type (ev_at evt r))])).
    { destruct (er_type (ev_at evt r) =? 0); [reflexivity|]. cbn [map]. rewrite Hlen, leaves_node.
      rewrite (node_arrow_loose r). reflexivity. }
    unfold loose_range. apply f_equal. apply f_equal. rewrite A1. apply f_equal. exact A2.
Qed.

End Loose.

(* the characterisation of the loose end: the start of the following token exactly when the last symbol is
   (recursively) empty, otherwise the end of the last token *)
Lemma lend_cases t a :
  (ends_empty t = true -> lend t a = a) /\
  (ends_empty t = false -> leaves t <> [] /\ lend t a = snd (span_of (leaves t) a)).
Proof.
  unfold lend. split; intros H; rewrite H; [reflexivity|]. split; [apply ends_empty_leaves; exact H|reflexivity].
Qed.

(* ---------- token streams without gaps ---------- *)
Fixpoint contiguous (ls : list (Z * Z)) (after : Z) : Prop :=
  match ls with
  | [] => True
  | r :: rest => snd r = fst (span_of rest after) /\ contiguous rest after
  end.

Lemma contiguous_app (a b : list (Z * Z)) after :
  contiguous (a ++ b) after <-> contiguous a (fst (span_of b after)) /\ contiguous b after.
Proof. induction a as [|r a IH]; simpl; [tauto|]. rewrite IH, span_app. simpl. tauto. Qed.

Lemma contiguous_snd ls : forall after, contiguous ls after -> snd (span_of ls after) = after.
Proof.
  induction ls as [|r rest IH]; intros after H; [reflexivity|].
  simpl in H. destruct H as [H1 H2]. destruct r as [o e]. destruct rest as [|r' rest'].
  - simpl in *. exact H1.
  - specialize (IH after H2). destruct r' as [o' e']. exact IH.
Qed.

Lemma lend_nogap t a : contiguous (leaves t) a -> lend t a = snd (span_of (leaves t) a).
Proof. intros H. unfold lend. destruct (ends_empty t); [|reflexivity]. symmetry. apply contiguous_snd. exact H. Qed.

Lemma loose_arrow_nogap ch after s e ty : (s <= e)%nat -> (e <= length ch)%nat ->
  contiguous (forest_leaves ch) after ->
  loose_arrow_event ch after (s, e, ty) = arrow_event ch after (s, e, ty).
Proof.
  intros Hse Hel Hc. unfold loose_arrow_event, arrow_event. destruct (Nat.eqb s e) eqn:E.
  - apply Nat.eqb_eq in E. subst e. rewrite Nat.sub_diag. reflexivity.
  - apply Nat.eqb_neq in E.
    set (seg := firstn (e - s) (skipn s ch)). set (aft := start_of (skipn e ch) after).
    pose proof (split3 ch s e Hse Hel) as Ech. fold seg in Ech.
    assert (Hcs : contiguous (forest_leaves seg) aft).
    { rewrite Ech in Hc. rewrite !forest_leaves_app in Hc. apply contiguous_app in Hc. destruct Hc as [_ Hc].
      apply contiguous_app in Hc. exact (proj1 Hc). }
    assert (Hst : start_of (skipn s ch) after = fst (span_of (forest_leaves seg) aft)).
    { assert (Es : skipn s ch = seg ++ skipn e ch).
      { unfold seg. rewrite <- (firstn_skipn (e - s) (skipn s ch)) at 1. rewrite skipn_skipn'.
        replace (e - s + s)%nat with e by lia. reflexivity. }
      rewrite Es, start_of_app. reflexivity. }
    assert (Hlast : lend (nth (e - 1) ch (TLeaf 0 0 0)) aft = aft).
    { assert (E1 : ch = firstn (e - 1) ch ++ [nth (e - 1) ch (TLeaf 0 0 0)] ++ skipn e ch).
      { rewrite <- (firstn_skipn e ch) at 1. replace e with (S (e - 1)) at 1 by lia.
        rewrite (firstn_S_nth' ch (e - 1) (TLeaf 0 0 0)) by lia. rewrite <- app_assoc. reflexivity. }
      rewrite E1 in Hc. rewrite !forest_leaves_app in Hc. apply contiguous_app in Hc. destruct Hc as [_ Hc].
      apply contiguous_app in Hc. destruct Hc as [Hc _]. unfold forest_leaves in Hc at 1. simpl in Hc.
      rewrite app_nil_r in Hc. fold (forest_leaves (skipn e ch)) in Hc.
      rewrite lend_nogap by exact Hc. apply contiguous_snd. exact Hc. }
    rewrite Hlast, Hst. rewrite (surjective_pairing (span_of (forest_leaves seg) aft)).
    rewrite (contiguous_snd _ _ Hcs). reflexivity.
Qed.

Section NoGap.
Variable evt : ev_table.
Variable rl : Z -> Z.
Notation arrows := (arrows_of_ev rl evt).

Lemma loose_events_nogap t : wf_reports evt rl t -> forall after, contiguous (leaves t) after ->
  loose_events arrows t after = spec_events arrows t after.
Proof.
  induction t as [s o e | r ch IH] using tree_ind2; intros Hw after Hc; [reflexivity|].
  inversion Hw as [| ? ? Hwch Hr0 Hlen Hreps]; subst.
  rewrite leaves_node in Hc. rewrite loose_events_node, spec_events_node. f_equal.
  - clear Hlen Hreps Hw. revert after Hc. induction ch as [|c rest IHl]; intros after Hc; [reflexivity|].
    inversion IH; subst. inversion Hwch; subst.
    change (forest_leaves (c :: rest)) with (leaves c ++ forest_leaves rest) in Hc.
    apply contiguous_app in Hc. destruct Hc as [Hc1 Hc2]. simpl. f_equal; auto.
  - rewrite (arrows_at_of_ev _ _ _ Hr0). apply map_ext_in. intros [[s e] ty] Hin.
    apply in_app_or in Hin. destruct Hin as [Hin|Hin].
    + rewrite Forall_forall in Hreps. destruct (Hreps _ Hin) as (H1 & H2 & _). apply loose_arrow_nogap; assumption.
    + destruct (er_type (ev_at evt r) =? 0); [destruct Hin|]. destruct Hin as [Hin|[]].
      injection Hin as <- <- <-. apply loose_arrow_nogap; [lia|lia|exact Hc].
Qed.

(* On a token stream without gaps the loop without fixWhitespace computes the strict ranges and the
   specification's events. *)
Theorem tree_run_nogap t : wf_reports evt rl t -> forall after, contiguous (leaves t) after ->
  tree_run false evt t after = (span_of (leaves t) after, spec_events arrows t after).
Proof.
  intros Hw after Hc. rewrite (tree_run_loose evt rl t Hw after). unfold loose_range.
  rewrite (lend_nogap _ _ Hc), (loose_events_nogap _ Hw _ Hc). rewrite <- surjective_pairing. reflexivity.
Qed.

End NoGap.

(* an accepted run with the stack [EOI; S; bottom]: the leaves of the tree of S are the input tokens and the events
   emitted are those tree_run computes for it (either fixWhitespace setting) *)
Lemma xrun_accept_tree m evt fixws eoi_off fuel start end_state input c' etop eS b :
  Forall (fun t => t_sym t <> 0) input ->
  ordered (map tok_range input) eoi_off ->
  xrun fuel m evt fixws start end_state eoi_off input = (Accept, c') ->
  xc_stack c' = [etop; eS; b] ->
  x_tree etop = TLeaf 0 eoi_off eoi_off ->
  ~ In (eoi_off, eoi_off) (leaves (x_tree eS)) ->
  leaves (x_tree eS) = map tok_range input /\
  snd (tree_run fixws evt (x_tree eS) eoi_off) = xc_events c'.
Proof.
  intros Hnz Hord Hrun Hst Htop HnoE. unfold xrun in Hrun.
  assert (Hinv : xinv evt fixws eoi_off input c').
  { eapply xrun_inv; [apply xinv_init; exact Hnz|exact Hrun]. }
  destruct Hinv as (_ & lvs & k & Hs & Hstream & Hk).
  rewrite Hst in Hs.
  inversion Hs as [|e1 r1 a1 ev1 lv1 eve1 Hs1 Hrun1]; subst.
  inversion Hs1 as [|e2 r2 a2 ev2 lv2 eve2 Hs2 Hrun2]; subst.
  inversion Hs2 as [bb aa | e3 r3 a3 ev3 lv3 eve3 Hs3 Hrun3]; subst; [|inversion Hs3].
  simpl app in *.
  rewrite Htop in Hrun1, Hrun2, Hstream. apply (f_equal snd) in Hrun1. simpl in Hrun1. subst eve1.
  rewrite start_of_single in Hrun2. simpl in Hrun2.
  rewrite app_nil_r.
  assert (HnoI : ~ In (eoi_off, eoi_off) (map tok_range input)).
  { clear -Hord. induction (map tok_range input) as [|x l IH]; intros Hin; [destruct Hin|].
    simpl in Hord. destruct Hord as (H1 & _ & H3). destruct Hin as [->|Hin]; [simpl in H1; lia|]. apply IH; assumption. }
  split.
  - simpl in Hstream. rewrite <- app_assoc in Hstream. simpl in Hstream.
    destruct k as [|k].
    + simpl in Hstream. rewrite app_nil_r in Hstream. exfalso. apply HnoI. rewrite <- Hstream.
      apply in_or_app. right. left. reflexivity.
    + simpl in Hstream. eapply app_sep_eq; eauto.
  - rewrite Hrun2. reflexivity.
Qed.

(* C02 for the loop without fixWhitespace, every token stream: the events are the loose events of the derivation *)
Theorem xrun_events_loose m evt rl eoi_off fuel start end_state input c' etop eS b :
  Forall (fun t => t_sym t <> 0) input ->
  ordered (map tok_range input) eoi_off ->
  xrun fuel m evt false start end_state eoi_off input = (Accept, c') ->
  xc_stack c' = [etop; eS; b] ->
  x_tree etop = TLeaf 0 eoi_off eoi_off ->
  ~ In (eoi_off, eoi_off) (leaves (x_tree eS)) ->
  wf_reports evt rl (x_tree eS) ->
  leaves (x_tree eS) = map tok_range input /\
  xc_events c' = loose_events (arrows_of_ev rl evt) (x_tree eS) eoi_off.
Proof.
  intros Hnz Hord Hrun Hst Htop HnoE Hwf.
  destruct (xrun_accept_tree _ _ _ _ _ _ _ _ _ _ _ _ Hnz Hord Hrun Hst Htop HnoE) as [Hl Hev].
  split; [exact Hl|]. rewrite (tree_run_loose evt rl _ Hwf) in Hev. symmetry. exact Hev.
Qed.

(* C02 for the loop without fixWhitespace, on token streams without gaps *)
Theorem xrun_events_spec_nogap m evt rl eoi_off fuel start end_state input c' etop eS b :
  Forall (fun t => t_sym t <> 0) input ->
  ordered (map tok_range input) eoi_off ->
  contiguous (map tok_range input) eoi_off ->
  xrun fuel m evt false start end_state eoi_off input = (Accept, c') ->
  xc_stack c' = [etop; eS; b] ->
  x_tree etop = TLeaf 0 eoi_off eoi_off ->
  ~ In (eoi_off, eoi_off) (leaves (x_tree eS)) ->
  wf_reports evt rl (x_tree eS) ->
  leaves (x_tree eS) = map tok_range input /\
  xc_events c' = spec_events (arrows_of_ev rl evt) (x_tree eS) eoi_off.
Proof.
  intros Hnz Hord Hcont Hrun Hst Htop HnoE Hwf.
  destruct (xrun_accept_tree _ _ _ _ _ _ _ _ _ _ _ _ Hnz Hord Hrun Hst Htop HnoE) as [Hl Hev].
  split; [exact Hl|].
  assert (Hc : contiguous (leaves (x_tree eS)) eoi_off) by (rewrite Hl; exact Hcont).
  rewrite (tree_run_nogap evt rl _ Hwf _ Hc) in Hev. symmetry. exact Hev.
Qed.
