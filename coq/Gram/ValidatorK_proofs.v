(* C07: check_k implies the conditions of LRSound, hence soundness and crash-freedom of the LALR(k) parse loop
   on every input. *)
From Coq Require Import List ZArith Bool Arith Lia.
From TM Require Import Gram.Cfg Gram.PTables Gram.Run Gram.Derive Gram.Validator Gram.Validator_proofs Gram.LRSound Gram.ValidatorK.
Import ListNotations.
Local Open Scope Z_scope.

Lemma lalr_walk_in_row f l i next : In (lalr_walk f l i next) (row_actions f l i).
Proof.
  revert i. induction f as [|f IH]; intros i; simpl; [left; reflexivity|].
  destruct (zn l i >=? 0) eqn:E; simpl.
  - destruct (negb (zn l i =? next)); [right; apply IH|left; reflexivity].
  - left. reflexivity.
Qed.

Lemma deep_ok t (jst : Z -> bool) f : forall n a more, all_ok n t jst a = true -> 0 <= deep_walk f t a more ->
  jst (deep_walk f t a more) = true.
Proof.
  induction f as [|f IH]; intros n a more Hok Hge; simpl in *.
  - destruct n; simpl in Hok; destruct (a >=? 0) eqn:E; try exact Hok; rewrite Z.geb_leb in E; apply Z.leb_gt in E; lia.
  - destruct (a <? -2) eqn:Ea.
    + apply Z.ltb_lt in Ea.
      destruct n as [|n]; simpl in Hok; (destruct (a >=? 0) eqn:E0; [rewrite Z.geb_leb in E0; apply Z.leb_le in E0; lia|]);
        (destruct (a >=? -2) eqn:E2; [rewrite Z.geb_leb in E2; apply Z.leb_le in E2; lia|]); [discriminate|].
      rewrite forallb_forall in Hok.
      destruct more as [|x more'].
      * apply (IH n _ []); [|exact Hge]. apply Hok. unfold lalr_lookup. apply lalr_walk_in_row.
      * apply (IH n _ more'); [|exact Hge]. apply Hok. unfold lalr_lookup. apply lalr_walk_in_row.
    + destruct n; simpl in Hok; destruct (a >=? 0) eqn:E; try exact Hok; rewrite Z.geb_leb in E; apply Z.leb_gt in E; lia.
Qed.

Lemma all_ok_nonneg n t jst a : 0 <= a -> all_ok n t jst a = jst a.
Proof. intros H. destruct n; simpl; destruct (a >=? 0) eqn:E; try reflexivity; rewrite Z.geb_leb in E; apply Z.leb_gt in E; lia. Qed.

Section PK.
Variable g : grammar.
Variable t : default_enc.
Variable rule_len rule_sym : list Z.
Variable nstates : Z.
Variable finals : list Z.
Variable ann : cert.
Hypothesis Hchk : check_k g t rule_len rule_sym nstates finals ann = true.

Notation m := (mk t rule_len rule_sym).

Lemma parts_k :
  chk_rules g = true /\ chk_ann_len nstates ann = true /\ chk_trans_k g t nstates ann = true /\
  chk_cells_k g t rule_len rule_sym nstates ann = true /\ chk_start g ann = true /\
  chk_final g nstates finals ann = true /\ chk_goto_def g m nstates ann = true.
Proof. generalize Hchk. unfold check_k. rewrite !andb_true_iff. tauto. Qed.

Lemma K_rules :
  1 <= vT g /\ 0 <= g_nonterms g /\
  (forall rl, In rl (g_rules g) -> vT g <= r_lhs rl < vNS g /\ forall s, In s (r_rhs rl) -> 1 <= s < vNS g) /\
  (forall inp, In inp (g_inputs g) -> vT g <= fst inp < vNS g).
Proof.
  destruct parts_k as (H & _). unfold chk_rules in H. rewrite !andb_true_iff in H.
  destruct H as [[[H1 H0] H2] H3]. apply Z.leb_le in H1. apply Z.leb_le in H0.
  rewrite forallb_forall in H2. rewrite forallb_forall in H3. repeat split; auto.
  - apply H2 in H. rewrite !andb_true_iff in H. lia.
  - apply H2 in H. rewrite !andb_true_iff in H. lia.
  - apply H2 in H. rewrite !andb_true_iff in H. destruct H as [_ H]. rewrite forallb_forall in H.
    apply H in H4. rewrite andb_true_iff in H4. lia.
  - apply H2 in H. rewrite !andb_true_iff in H. destruct H as [_ H]. rewrite forallb_forall in H.
    apply H in H4. rewrite andb_true_iff in H4. lia.
  - apply H3 in H. rewrite andb_true_iff in H. lia.
  - apply H3 in H. rewrite andb_true_iff in H. lia.
Qed.

Lemma K_item_state q it : In it (items ann q) -> 0 <= q < nstates.
Proof.
  destruct parts_k as (_ & Hl & _). unfold chk_ann_len in Hl. apply Z.leb_le in Hl.
  unfold items. destruct (q <? 0) eqn:E; [intros []|]. apply Z.ltb_ge in E.
  intros Hin. destruct (lt_dec (Z.to_nat q) (length ann)) as [Hlt|Hge]; [lia|].
  rewrite nth_overflow in Hin by lia. destruct Hin.
Qed.

Lemma K_ninputs : Z.of_nat (ninputs g) <= nstates.
Proof.
  destruct parts_k as (_ & _ & _ & _ & _ & H & _). unfold chk_final in H.
  rewrite !andb_true_iff in H. destruct H as [[H1 _] _]. apply Z.leb_le in H1. exact H1.
Qed.

Lemma K_trans p X : 0 <= p < nstates -> 0 <= X < vNS g -> 0 <= m_goto m p X ->
  Z.of_nat (ninputs g) <= m_goto m p X < nstates /\
  forall r d' L, In (r, S d', L) (items ann (m_goto m p X)) ->
    exists rl, arule g r = Some rl /\ nth_error (r_rhs rl) d' = Some X /\ has_item ann p r d' = true.
Proof.
  intros Hp HX Hq. simpl in *.
  destruct parts_k as (_ & _ & H & _). unfold chk_trans_k in H. rewrite forallb_forall in H.
  specialize (H p (proj2 (in_zrange0 _ _) Hp)). rewrite forallb_forall in H.
  specialize (H X (proj2 (in_zrange0 _ _) HX)). cbv zeta in H.
  destruct (goto_state t p X <? 0) eqn:E; [apply Z.ltb_lt in E; lia|].
  rewrite !andb_true_iff in H. destruct H as [[H1 H2] H3]. split; [lia|].
  intros r d' L Hin. rewrite forallb_forall in H3. specialize (H3 _ Hin). simpl in H3.
  destruct (arule g r) as [rl|]; [|discriminate]. exists rl. rewrite andb_true_iff in H3. destruct H3 as [H3 H4].
  destruct (nth_error (r_rhs rl) d') as [Y|]; [|discriminate]. apply Z.eqb_eq in H3. subst. auto.
Qed.

Lemma K_reduce p a more r : 0 <= p < nstates -> 0 <= a < vT g -> m_act m p a more = Reduce r ->
  exists rn rl, r = Z.of_nat rn /\ nth_error (g_rules g) rn = Some rl /\ has_item ann p rn (length (r_rhs rl)) = true /\
    m_rule_len m r = Z.of_nat (length (r_rhs rl)) /\ m_rule_sym m r = r_lhs rl.
Proof.
  intros Hp Ha Hact.
  destruct parts_k as (_ & _ & _ & H & _). unfold chk_cells_k in H. rewrite forallb_forall in H.
  specialize (H p (proj2 (in_zrange0 _ _) Hp)). rewrite forallb_forall in H.
  specialize (H a (proj2 (in_zrange0 _ _) Ha)). cbv zeta in H.
  simpl in Hact. unfold default_act in Hact.
  set (a0 := zn (d_action t) p) in *. set (a1 := if a0 <? -2 then lalr_lookup t a0 a else a0) in *.
  set (v := if a1 <? -2 then deep_walk (S (S (length more))) t a1 more else a1) in *.
  destruct (v >=? 0) eqn:Ev; [|destruct (v =? -1); [destruct (goto_state t p a >=? 0)|]; discriminate].
  injection Hact as <-. rewrite Z.geb_leb in Ev. apply Z.leb_le in Ev.
  assert (Hj : just g rule_len rule_sym ann p v = true).
  { unfold v in *. destruct (a1 <? -2) eqn:E1.
    - eapply deep_ok; eauto.
    - rewrite all_ok_nonneg in H by exact Ev. exact H. }
  unfold just in Hj. rewrite !andb_true_iff in Hj. destruct Hj as [[H1 H2] H3]. apply Z.leb_le in H1.
  destruct (nth_error (g_rules g) (Z.to_nat v)) as [rl|] eqn:E; [|discriminate].
  rewrite !andb_true_iff in H3. destruct H3 as [[H3 H4] H5]. apply Z.eqb_eq in H4. apply Z.eqb_eq in H5.
  exists (Z.to_nat v), rl. simpl. repeat split; auto. lia.
Qed.

Lemma K_shift p a more q : 0 <= p < nstates -> 0 <= a < vT g -> m_act m p a more = Shift q ->
  q = m_goto m p a /\ 0 <= q.
Proof.
  intros _ _ Hact. simpl in *. unfold default_act in Hact.
  set (v := if _ <? -2 then _ else _) in Hact.
  destruct (v >=? 0); [discriminate|]. destruct (v =? -1); [|discriminate].
  destruct (goto_state t p a >=? 0) eqn:E; [|discriminate]. injection Hact as <-.
  rewrite Z.geb_leb in E. apply Z.leb_le in E. split; [reflexivity|exact E].
Qed.

Lemma K_start i r d L : (i < ninputs g)%nat -> In (r, d, L) (items ann (Z.of_nat i)) -> d = O.
Proof.
  intros Hi Hin. destruct parts_k as (_ & _ & _ & _ & H & _). unfold chk_start in H.
  rewrite forallb_forall in H. specialize (H i). rewrite forallb_forall in H.
  assert (Hs : In i (seq 0 (ninputs g))) by (apply in_seq; lia). specialize (H Hs _ Hin). simpl in H.
  apply Nat.eqb_eq in H. exact H.
Qed.

Lemma K_has_item_In q r d : has_item ann q r d = true <-> exists L, In (r, d, L) (items ann q).
Proof.
  unfold has_item. rewrite existsb_exists. split.
  - intros ([[r' d'] L] & Hin & E). apply andb_true_iff in E. destruct E as [E1 E2].
    apply Nat.eqb_eq in E1. apply Nat.eqb_eq in E2. subst. eauto.
  - intros (L & Hin). exists (r, d, L). split; [exact Hin|]. rewrite !Nat.eqb_refl. reflexivity.
Qed.

Lemma K_final i nt eoi : nth_error (g_inputs g) i = Some (nt, eoi) ->
  Z.of_nat (ninputs g) <= nstates /\ (i < ninputs g)%nat /\
  has_item ann (final_of finals i) (nrules g + i) (if eoi : bool then 2 else 1) = true /\
  forall q, has_item ann q (nrules g + i) 0 = true -> q = Z.of_nat i.
Proof.
  intros Hi. destruct parts_k as (_ & _ & _ & _ & _ & H & _). unfold chk_final in H.
  rewrite !andb_true_iff in H. destruct H as [[H1 H2] H3]. apply Z.leb_le in H1.
  assert (Hlt : (i < ninputs g)%nat) by (apply nth_error_Some; unfold ninputs; rewrite Hi; discriminate).
  rewrite forallb_forall in H3. specialize (H3 i). assert (Hs : In i (seq 0 (ninputs g))) by (apply in_seq; lia).
  specialize (H3 Hs). rewrite Hi in H3. rewrite andb_true_iff in H3. destruct H3 as [H3 H4].
  repeat split; auto. intros q Hq. rewrite forallb_forall in H4.
  apply K_has_item_In in Hq as Hq'. destruct Hq' as (L & Hin). pose proof (K_item_state _ _ Hin) as Hst.
  specialize (H4 q (proj2 (in_zrange0 _ _) Hst)). rewrite Hq in H4. simpl in H4. apply Z.eqb_eq in H4. exact H4.
Qed.

Lemma K_goto_def b r L rl : In (r, O, L) (items ann b) -> nth_error (g_rules g) r = Some rl -> 0 <= m_goto m b (r_lhs rl).
Proof.
  intros Hin Hr. pose proof (K_item_state _ _ Hin) as Hb.
  destruct parts_k as (_ & _ & _ & _ & _ & _ & H). unfold chk_goto_def in H. rewrite forallb_forall in H.
  specialize (H b (proj2 (in_zrange0 _ _) Hb)). rewrite forallb_forall in H. specialize (H _ Hin). simpl in H.
  assert (Hlt : (r <? nrules g)%nat = true).
  { apply Nat.ltb_lt. apply nth_error_Some. unfold nrules. rewrite Hr. discriminate. }
  rewrite Hlt, Hr in H. apply Z.leb_le in H. exact H.
Qed.

(* soundness and crash-freedom of the LALR(k) parse loop, for every input *)
Theorem parse_sound_k i nt eoi ws fuel :
  nth_error (g_inputs g) i = Some (nt, eoi) -> toks_ok g ws ->
  fst (parse fuel m finals i ws) = Accept -> sentence g nt eoi ws.
Proof.
  intros Hi Hw Ha.
  exact (LRSound.parse_sound g m nstates finals ann K_rules K_ninputs K_trans K_reduce K_shift K_start K_final K_goto_def
           i (input_index_lt _ _ _ Hi) ws Hw fuel nt eoi Hi Ha).
Qed.

Theorem parse_no_crash_k i x ws fuel why :
  nth_error (g_inputs g) i = Some x -> toks_ok g ws -> fst (parse fuel m finals i ws) <> Crash why.
Proof.
  intros Hi Hw.
  eapply (LRSound.parse_never_crashes_k g m nstates finals ann);
    first [exact K_rules|exact K_ninputs|exact K_trans|exact K_reduce|exact K_shift|exact K_start|exact K_final|exact K_goto_def
          |exact (input_index_lt _ _ _ Hi)|exact Hw].
Qed.

End PK.
