(* C20: builder.addNode builds, from every well-nested event stream, a well-formed forest with exactly the
   reported nodes. *)
From Coq Require Import List ZArith Bool Arith Lia Permutation.
From TM Require Import Gram.TreeBuilder.
Import ListNotations.
Local Open Scope Z_scope.

Lemma nodes_unfold t o e ch : nodes (BNode t o e ch) = forest_nodes ch ++ [(t, o, e)].
Proof.
  reflexivity.
Qed.

Lemma wf_bnode_unfold t o e ch :
  wf_bnode (BNode t o e ch) =
    (o <=? e) && sorted_disjoint ch && forallb (fun c => (o <=? b_off c) && (b_end c <=? e) && wf_bnode c) ch.
Proof.
  reflexivity.
Qed.

Lemma last_in {A} (l : list A) d : l <> [] -> In (last l d) l.
Proof.
  induction l as [|a l IH]; intros H; [congruence|]. destruct l as [|b l']; [left; reflexivity|].
  right. apply IH. discriminate.
Qed.

(* top-first version of sorted_disjoint *)
Fixpoint sdt (l : list bnode) : bool :=
  match l with
  | a :: (b :: _) as rest => (b_end b <=? b_off a) && sdt rest
  | _ => true
  end.

Lemma sorted_disjoint_snoc l x :
  sorted_disjoint (l ++ [x]) = sorted_disjoint l && match l with [] => true | _ => b_end (last l x) <=? b_off x end.
Proof.
  induction l as [|a l IH]; [reflexivity|].
  destruct l as [|b l']; [simpl; rewrite andb_true_r; reflexivity|].
  change (sorted_disjoint ((a :: b :: l') ++ [x])) with ((b_end a <=? b_off b) && sorted_disjoint ((b :: l') ++ [x])).
  rewrite IH. change (sorted_disjoint (a :: b :: l')) with ((b_end a <=? b_off b) && sorted_disjoint (b :: l')).
  rewrite andb_assoc. reflexivity.
Qed.

Lemma sdt_rev l : sorted_disjoint (rev l) = sdt l.
Proof.
  induction l as [|a l IH]; [reflexivity|]. simpl rev. rewrite sorted_disjoint_snoc, IH.
  destruct l as [|b l']; [reflexivity|].
  assert (Hne : rev (b :: l') <> []) by (simpl; destruct (rev l'); discriminate).
  destruct (rev (b :: l')) eqn:E; [congruence|]. rewrite <- E.
  assert (Hl : last (rev (b :: l')) a = b).
  { simpl. rewrite last_last. reflexivity. }
  rewrite Hl. simpl. apply andb_comm.
Qed.

Lemma rev_rev_sd l : sorted_disjoint l = sdt (rev l).
Proof. rewrite <- sdt_rev, rev_involutive. reflexivity. Qed.

Definition roots_ok (l : list bnode) : Prop := forall n, In n l -> b_off n <= b_end n.

Lemma sdt_head l h : sdt (h :: l) = true -> roots_ok (h :: l) -> forall m, In m l -> b_end m <= b_off h.
Proof.
  revert h. induction l as [|a l IH]; intros h Hs Hr m Hin; [destruct Hin|].
  simpl in Hs. apply andb_true_iff in Hs. destruct Hs as [H1 H2]. apply Z.leb_le in H1.
  destruct Hin as [<-|Hin]; [exact H1|].
  assert (Hra : roots_ok (a :: l)) by (intros n Hn; apply Hr; right; exact Hn).
  specialize (IH a H2 Hra m Hin). pose proof (Hr a (or_intror (or_introl eq_refl))). lia.
Qed.

Lemma sdt_tail h l : sdt (h :: l) = true -> sdt l = true.
Proof. destruct l; [reflexivity|]. simpl. intros H. apply andb_true_iff in H. tauto. Qed.

Lemma sdt_app a b : sdt (a ++ b) = true <->
  sdt a = true /\ sdt b = true /\ (match a, b with [], _ | _, [] => True | _, y :: _ => b_end y <= b_off (last a y) end).
Proof.
  induction a as [|x a IH]; simpl app.
  - simpl. tauto.
  - destruct a as [|x' a'].
    + simpl. destruct b as [|y b']; simpl; [tauto|]. rewrite andb_true_iff, Z.leb_le. tauto.
    + change (sdt ((x :: x' :: a') ++ b)) with (sdt (x :: (x' :: a') ++ b)).
      change (sdt (x :: (x' :: a') ++ b)) with ((b_end x' <=? b_off x) && sdt ((x' :: a') ++ b)).
      change (sdt (x :: x' :: a')) with ((b_end x' <=? b_off x) && sdt (x' :: a')).
      rewrite !andb_true_iff, IH. destruct b as [|y b']; [tauto|].
      change (last (x :: x' :: a') y) with (last (x' :: a') y). tauto.
Qed.

(* ---- scan ---- *)
Lemma scan_spec st off : forall s u, scan st off = (s, u) ->
  st = s ++ u /\ (forall n, In n s -> off <= b_off n) /\ match u with [] => True | h :: _ => b_off h < off end.
Proof.
  induction st as [|n rest IH]; intros s u E; simpl in E.
  - injection E as <- <-. simpl. tauto.
  - destruct (b_off n >=? off) eqn:C.
    + destruct (scan rest off) as [s' u'] eqn:E'. injection E as <- <-.
      destruct (IH _ _ eq_refl) as (H1 & H2 & H3). subst rest. repeat split; auto.
      intros m [<-|Hm]; [apply Z.geb_le in C; lia|auto].
    + injection E as <- <-. simpl. repeat split; [tauto|]. rewrite Z.geb_leb in C. apply Z.leb_gt in C. exact C.
Qed.

(* a monotone predicate on a top-first list splits it into a true prefix and a false suffix *)
Lemma filter_prefix {A} (P : A -> bool) (l : list A) :
  (forall a b rest1 rest2, l = rest1 ++ a :: rest2 -> In b rest2 -> P b = true -> P a = true) ->
  firstn (length (filter P l)) l = filter P l /\ forallb (fun x => negb (P x)) (skipn (length (filter P l)) l) = true.
Proof.
  induction l as [|h l IH]; intros Hmono; [split; reflexivity|].
  assert (Hmono' : forall a b rest1 rest2, l = rest1 ++ a :: rest2 -> In b rest2 -> P b = true -> P a = true).
  { intros a b r1 r2 E. apply (Hmono a b (h :: r1) r2). rewrite E. reflexivity. }
  specialize (IH Hmono'). simpl. destruct (P h) eqn:Ph.
  - simpl. destruct IH as [I1 I2]. rewrite I1. split; [reflexivity|exact I2].
  - assert (Hall : forall b, In b l -> P b = false).
    { intros b Hb. destruct (P b) eqn:Pb; [|reflexivity]. rewrite (Hmono h b [] l eq_refl Hb Pb) in Ph. discriminate. }
    assert (Hf : filter P l = []).
    { clear -Hall. induction l as [|x l IH]; [reflexivity|]. simpl. rewrite (Hall x (or_introl eq_refl)). apply IH.
      intros b Hb. apply Hall. right. exact Hb. }
    rewrite Hf. simpl. rewrite Ph. simpl. split; [reflexivity|].
    apply forallb_forall. intros x Hx. rewrite (Hall x Hx). reflexivity.
Qed.

Definition root_event (n : bnode) : bevent := (b_ty n, b_off n, b_end n).

Lemma root_in_nodes n : In (root_event n) (nodes n).
Proof. destruct n as [t o e ch]. rewrite nodes_unfold. apply in_or_app. right. left. reflexivity. Qed.

Lemma root_in_forest n l : In n l -> In (root_event n) (forest_nodes l).
Proof. intros H. unfold forest_nodes. apply in_flat_map. exists n. split; [exact H|apply root_in_nodes]. Qed.

Lemma forest_nodes_app a b : forest_nodes (a ++ b) = forest_nodes a ++ forest_nodes b.
Proof. apply flat_map_app. Qed.

Lemma forest_nodes_rev l : Permutation (forest_nodes (rev l)) (forest_nodes l).
Proof.
  induction l as [|a l IH]; [constructor|]. simpl rev. rewrite forest_nodes_app. simpl.
  unfold forest_nodes at 2. simpl. rewrite app_nil_r. fold (forest_nodes l).
  eapply Permutation_trans; [apply Permutation_app_comm|]. apply Permutation_app_head. exact IH.
Qed.

Lemma perm_shuffle {A} (a c b : list A) (e : A) (c' seen : list A) :
  Permutation c' c -> Permutation ((a ++ c) ++ b) seen -> Permutation (a ++ (c' ++ [e]) ++ b) (e :: seen).
Proof.
  intros H1 H2. transitivity (e :: a ++ c' ++ b).
  - rewrite <- app_assoc. simpl. rewrite app_assoc. apply Permutation_sym. rewrite <- app_assoc.
    rewrite (app_assoc a c' (e :: b)). rewrite (app_assoc a c' b). apply Permutation_middle.
  - apply perm_skip. transitivity ((a ++ c) ++ b); [|exact H2]. rewrite <- app_assoc.
    apply Permutation_app_head. apply Permutation_app_tail. exact H1.
Qed.

(* the invariant of the fold *)
Definition binv (seen : list bevent) (st : list bnode) : Prop :=
  sdt st = true /\ forallb wf_bnode st = true /\ Permutation (forest_nodes st) seen.

Lemma wf_bnode_range n : wf_bnode n = true -> b_off n <= b_end n.
Proof. destruct n as [t o e ch]. rewrite wf_bnode_unfold, !andb_true_iff. intros [[H _] _]. apply Z.leb_le in H. exact H. Qed.

Lemma compatible_cases a b : compatible a b = true ->
  ev_end a <= ev_off b \/ ev_end b <= ev_off a \/ (ev_off b <= ev_off a /\ ev_end a <= ev_end b).
Proof. unfold compatible. rewrite !orb_true_iff, andb_true_iff, !Z.leb_le. tauto. Qed.

Lemma add_node_inv seen st e :
  binv seen st -> ev_off e <= ev_end e -> (forall a, In a seen -> compatible a e = true) ->
  binv (e :: seen) (add_node st e).
Proof.
  intros (Hsd & Hwf & Hperm) Hoe Hcompat. destruct e as [[ty off] en]. unfold ev_off, ev_end in Hoe. simpl in Hoe.
  unfold add_node. destruct (scan st off) as [scanned below] eqn:Esc.
  destruct (scan_spec _ _ _ _ Esc) as (Est & Hscanned & Hbelow). subst st.
  rewrite forallb_forall in Hwf.
  assert (Hroots : roots_ok (scanned ++ below)) by (intros n Hn; apply wf_bnode_range, Hwf, Hn).
  assert (Hc : forall n, In n (scanned ++ below) -> compatible (root_event n) (ty, off, en) = true).
  { intros n Hn. apply Hcompat. eapply Permutation_in; [exact Hperm|]. apply root_in_forest. exact Hn. }
  apply sdt_app in Hsd. destruct Hsd as (Hsd_s & Hsd_b & Hbound).
  set (P := fun n => b_off n >=? en).
  (* P is monotone on scanned: entries above have larger offsets *)
  assert (Hmono : forall a b r1 r2, scanned = r1 ++ a :: r2 -> In b r2 -> P b = true -> P a = true).
  { intros a b r1 r2 E Hb Pb. unfold P in *. rewrite Z.geb_leb in *. apply Z.leb_le in Pb. apply Z.leb_le.
    rewrite E in Hsd_s. apply sdt_app in Hsd_s. destruct Hsd_s as (_ & Hs2 & _).
    assert (Hr2 : roots_ok (a :: r2)).
    { intros n Hn. apply Hroots. apply in_or_app. left. rewrite E. apply in_or_app. right. exact Hn. }
    pose proof (sdt_head _ _ Hs2 Hr2 b Hb). pose proof (Hr2 b (or_intror Hb)). lia. }
  destruct (filter_prefix P scanned Hmono) as [Hpre Hsuf].
  set (k := length (filter P scanned)) in *.
  assert (Esplit : scanned = firstn k scanned ++ skipn k scanned) by (symmetry; apply firstn_skipn).
  set (after := firstn k scanned) in *. set (children := skipn k scanned) in *.
  assert (Hafter : forall n, In n after -> en <= b_off n).
  { intros n Hn. rewrite Hpre in Hn. apply filter_In in Hn. destruct Hn as [_ Hn].
    unfold P in Hn. rewrite Z.geb_leb in Hn. apply Z.leb_le in Hn. exact Hn. }
  assert (Hchildren : forall n, In n children -> off <= b_off n /\ b_end n <= en).
  { intros n Hn. rewrite forallb_forall in Hsuf. specialize (Hsuf n Hn). unfold P in Hsuf.
    rewrite Z.geb_leb in Hsuf. apply negb_true_iff, Z.leb_gt in Hsuf.
    assert (Hin : In n scanned) by (rewrite Esplit; apply in_or_app; right; exact Hn).
    specialize (Hscanned n Hin). split; [exact Hscanned|].
    assert (Hin' : In n (scanned ++ below)) by (apply in_or_app; left; exact Hin).
    pose proof (Hroots n Hin') as Hr.
    destruct (compatible_cases _ _ (Hc n Hin')) as [H|[H|[H1 H2]]]; unfold root_event, ev_off, ev_end in *; simpl in *; lia. }
  assert (Hbelow_end : match below with [] => True | h :: _ => b_end h <= off end).
  { destruct below as [|h below']; [exact I|].
    assert (Hin' : In h (scanned ++ h :: below')) by (apply in_or_app; right; left; reflexivity).
    destruct (compatible_cases _ _ (Hc h Hin')) as [H|[H|[H1 H2]]]; unfold root_event, ev_off, ev_end in *; simpl in *; lia. }
  rewrite Esplit in Hsd_s. apply sdt_app in Hsd_s. destruct Hsd_s as (Hsd_a & Hsd_c & _).
  split; [|split].
  - (* roots stay sorted and disjoint *)
    apply sdt_app. split; [exact Hsd_a|]. split.
    + destruct below as [|h below']; [reflexivity|]. simpl. apply andb_true_iff. split; [apply Z.leb_le; exact Hbelow_end|exact Hsd_b].
    + destruct after as [|a0 after']; [exact I|]. simpl b_end.
      apply Hafter. apply last_in. discriminate.
  - (* every root is well-formed *)
    apply forallb_forall. intros n Hn. apply in_app_or in Hn. destruct Hn as [Hn|[<-|Hn]].
    + apply Hwf. apply in_or_app. left. rewrite Esplit. apply in_or_app. left. exact Hn.
    + rewrite wf_bnode_unfold, !andb_true_iff. repeat split.
      * apply Z.leb_le. exact Hoe.
      * rewrite rev_rev_sd, rev_involutive. exact Hsd_c.
      * apply forallb_forall. intros c Hcin. apply in_rev in Hcin. destruct (Hchildren c Hcin) as [H1 H2].
        rewrite !andb_true_iff, !Z.leb_le. repeat split; auto.
        apply Hwf. apply in_or_app. left. rewrite Esplit. apply in_or_app. right. exact Hcin.
    + apply Hwf. apply in_or_app. right. exact Hn.
  - (* the nodes are the events seen *)
    rewrite forest_nodes_app.
    change (forest_nodes (BNode ty off en (rev children) :: below))
      with ((forest_nodes (rev children) ++ [(ty, off, en)]) ++ forest_nodes below).
    rewrite Esplit, !forest_nodes_app in Hperm.
    apply (perm_shuffle _ (forest_nodes children)); [apply forest_nodes_rev|exact Hperm].
Qed.

Lemma ok_events_from_inv evs : forall seen st, binv seen st -> ok_events_from seen evs = true ->
  binv (rev evs ++ seen) (fold_left add_node evs st).
Proof.
  induction evs as [|e evs IH]; intros seen st Hinv Hok; [exact Hinv|].
  simpl in Hok. rewrite !andb_true_iff in Hok. destruct Hok as [[H1 H2] H3]. apply Z.leb_le in H1.
  rewrite forallb_forall in H2. simpl. rewrite <- app_assoc. simpl.
  apply IH; [|exact H3]. apply add_node_inv; auto.
Qed.

(* Every well-nested event stream (ok_events) is turned into a well-formed forest (roots and siblings in source
   order and disjoint, children inside their parents, recursively) whose nodes are exactly the reported events. *)
Theorem builder_correct evs : ok_events evs = true ->
  wf_forest (rev (build evs)) = true /\ Permutation (forest_nodes (rev (build evs))) evs.
Proof.
  intros Hok. unfold ok_events in Hok. unfold build.
  assert (H0 : binv [] []) by (repeat split; constructor).
  destruct (ok_events_from_inv evs [] [] H0 Hok) as (Hsd & Hwf & Hperm). rewrite app_nil_r in Hperm.
  split.
  - unfold wf_forest. rewrite sdt_rev, Hsd. simpl. apply forallb_forall. intros n Hn. apply in_rev in Hn.
    rewrite forallb_forall in Hwf. apply Hwf. exact Hn.
  - eapply Permutation_trans; [apply forest_nodes_rev|]. eapply Permutation_trans; [exact Hperm|]. apply Permutation_sym, Permutation_rev.
Qed.
