(* C19: the recovering loop on tables certified by C01's Validator.check: the stack always spells a path of the
   certified automaton from the start state (Validator_proofs.stk), also across recoverFromError (which cuts the stack
   and pushes the 'error' entry).  Consequences: a reduction never finds its goto missing (the state -1 is never
   pushed, hence never handed to gotoState by recoverFromError), the loop never pops below the bottom of the stack,
   reduceAll never walks below the stack; with the reduction bound of RedTerm the loop terminates (both encodings). *)
From Coq Require Import List ZArith Bool Arith Lia.
From TM Require Import Lib.ListX Gram.Cfg Gram.PTables Gram.Run Gram.Derive Gram.Validator Gram.Validator_proofs Gram.Events
  Gram.Recover Gram.Recover_proofs Gram.Recover_progress Gram.RedTerm Gram.RedTerm_proofs Gram.RedTermRec_proofs Gram.RecoverSafe.
Import ListNotations.
Local Open Scope Z_scope.

Definition pr (e : xentry) : Z * Z := (x_sym e, x_state e).

Section S.
Variable g : grammar.
Variable p : rparams.
Variable nstates : Z.
Variable finals : list Z.
Variable nl : list Z.
Variable ft : first_table.
Variable ann : cert.
Variable eh : nat -> bool.
Variable i : nat.
Notation m := (rp_m p).
Notation eoi := (rp_eoi_off p).
Notation T := (vT g).
Notation NS := (vNS g).
Notation err := (rp_err_sym p).

Hypothesis Hnm : lalr1 p.
Hypothesis Hchk : check g m nstates finals nl ft ann = true.
Hypothesis Herr : check_err_goto m nstates T err = true.
Hypothesis Hi : (i < ninputs g)%nat.

Notation stk := (stk g m i).

(* ---- facts about certified paths (abstract stacks of (symbol, state)) ---- *)
Lemma S_state st w : stk st w -> 0 <= snd (hd (0, -1) st) < nstates.
Proof. eapply stk_state; eauto. Qed.

Lemma S_ne st w : stk st w -> st <> [].
Proof. inversion 1; discriminate. Qed.

Lemma S_suffix k st w : stk st w -> (k < length st)%nat -> exists w1, stk (skipn k st) w1.
Proof. intros Hs Hk. destruct (stk_split g m i Hi k st w Hs Hk) as (w1 & w2 & _ & H & _). eauto. Qed.

Lemma S_all st w : stk st w -> Forall (fun e => 0 <= snd e < nstates) st.
Proof.
  induction 1 as [s | X q b rest w1 w2 Hs IH HX Hq Hq0 Hd].
  - constructor; [|constructor]. simpl. pose proof (L_ninputs g m nstates finals nl ft ann Hchk). lia.
  - constructor; [|exact IH]. exact (S_state _ _ (stk_cons g m i X q b rest w1 w2 Hs HX Hq Hq0 Hd)).
Qed.

Lemma T_pos : 1 <= T /\ T <= NS.
Proof. destruct (L_rules g m nstates finals nl ft ann Hchk) as (H1 & H2 & _). unfold vNS, vT in *. lia. Qed.

Lemma S_shift st w a q : stk st w -> 0 <= a < T -> m_act m (snd (hd (0, -1) st)) a [] = Shift q -> stk ((a, q) :: st) (w ++ [a]).
Proof.
  intros Hs Ha Hact. pose proof (S_state _ _ Hs) as Hq.
  assert (Hst : exists b rest, st = b :: rest) by (inversion Hs; eauto). destruct Hst as (b & rest & ->).
  simpl in Hq, Hact. pose proof T_pos as HT.
  apply stk_cons; auto.
  - lia.
  - unfold trans. destruct (a <? T) eqn:E; [rewrite Hact; reflexivity|apply Z.ltb_ge in E; lia].
  - eapply L_shift; eauto.
  - constructor. unfold is_term. apply andb_true_iff. split; [apply Z.leb_le|apply Z.ltb_lt]; unfold vT in Ha; lia.
Qed.

Lemma S_reduce st w a r : stk st w -> 0 <= a < T -> m_act m (snd (hd (0, -1) st)) a [] = Reduce r ->
  let ln := Z.to_nat (m_rule_len m r) in
  (ln < length st)%nat /\
  exists b rest w', skipn ln st = b :: rest /\ 0 <= m_goto m (snd b) (m_rule_sym m r) /\
    stk ((m_rule_sym m r, m_goto m (snd b) (m_rule_sym m r)) :: b :: rest) w'.
Proof.
  intros Hs Ha Hact. pose proof (S_state _ _ Hs) as Hq.
  destruct (L_reduce g m nstates finals nl ft ann Hchk _ _ _ Hq Ha Hact) as (rn & rl & -> & Hrn & Hhas & Hlen & Hsym).
  cbv zeta. rewrite Hlen, Hsym, Nat2Z.id.
  apply has_item_In in Hhas. destruct Hhas as (L & Hin).
  assert (Har : arule g rn = Some rl).
  { unfold arule. assert (Hlt : (rn <? nrules g)%nat = true) by (apply Nat.ltb_lt, nth_error_Some; rewrite Hrn; discriminate).
    rewrite Hlt. exact Hrn. }
  destruct (spelled g m nstates finals nl ft ann Hchk i Hi _ _ _ _ _ _ Hs Hin Har) as (El & Hrev & Hh0).
  split; [exact El|].
  rewrite firstn_all in Hrev.
  destruct (stk_split g m i Hi _ _ _ Hs El) as (w1 & w2 & -> & Hs1 & Hd2). rewrite Hrev in Hd2.
  assert (Hrest : exists b rest, skipn (length (r_rhs rl)) st = b :: rest) by (inversion Hs1; eauto).
  destruct Hrest as (b & rest & Erest). rewrite Erest in *.
  assert (Hnth : nth (length (r_rhs rl)) st (0, -1) = b).
  { rewrite <- (firstn_skipn (length (r_rhs rl)) st) at 1. rewrite app_nth2; rewrite firstn_length_le by lia; [|lia].
    rewrite Nat.sub_diag, Erest. reflexivity. }
  rewrite Hnth in Hh0. apply has_item_In in Hh0. destruct Hh0 as (L0 & Hin0).
  pose proof (L_goto_def g m nstates finals nl ft ann Hchk _ _ _ _ Hin0 Hrn) as Hg0.
  destruct (L_rules g m nstates finals nl ft ann Hchk) as (_ & _ & HR & _). destruct (HR rl (nth_error_In _ _ Hrn)) as [Hlhs _].
  exists b, rest, (w1 ++ w2). split; [reflexivity|]. split; [exact Hg0|].
  apply stk_cons; auto; [lia| |].
  - unfold trans. destruct (r_lhs rl <? T) eqn:E; [apply Z.ltb_lt in E; lia|reflexivity].
  - econstructor; [apply (nth_error_In _ _ Hrn)|exact Hd2].
Qed.

Lemma err_parts : 0 <= err < T /\
  forall s, 0 <= s < nstates -> m_goto m s err <> -1 -> m_act m s err [] = Shift (m_goto m s err).
Proof.
  unfold check_err_goto in Herr. rewrite !andb_true_iff in Herr. destruct Herr as [[H1 H2] H3].
  apply Z.leb_le in H1. apply Z.ltb_lt in H2. split; [lia|].
  intros s Hs Hne. rewrite forallb_forall in H3. specialize (H3 s (proj2 (in_zrange0 _ _) Hs)). cbv zeta in H3.
  apply orb_true_iff in H3. destruct H3 as [H3|H3]; [apply Z.eqb_eq in H3; contradiction|].
  destruct (m_act m s err []) as [q| | |]; simpl in H3; try discriminate. apply Z.eqb_eq in H3. congruence.
Qed.

Lemma S_err st w : stk st w -> m_goto m (snd (hd (0, -1) st)) err <> -1 ->
  stk ((err, m_goto m (snd (hd (0, -1) st)) err) :: st) (w ++ [err]).
Proof.
  intros Hs Hne. destruct err_parts as (He & Hgo). apply S_shift; auto. apply Hgo; auto. eapply S_state; eauto.
Qed.

(* ---- concrete stacks ---- *)
Definition spath (stack : list xentry) : Prop := exists w, stk (map pr stack) w.
Definition tok_in (t : tok) : Prop := 0 <= t_sym t < T.

Definition xsinv (x : xconfig) : Prop :=
  xc_state x = x_state (hd xdummy (xc_stack x)) /\ spath (xc_stack x) /\ 0 <= t_sym (next_tok eoi (xc_input x)) < T.

Definition sinv (c : rconfig) : Prop :=
  xc_state (rc_x c) = x_state (hd xdummy (xc_stack (rc_x c))) /\ spath (xc_stack (rc_x c)) /\ Forall tok_in (xc_input (rc_x c)).

Lemma next_in input : Forall tok_in input -> 0 <= t_sym (next_tok eoi input) < T.
Proof. pose proof T_pos as HT. intros H. destruct input as [|t r]; simpl; [lia|]. inversion H; subst. assumption. Qed.

Lemma sinv_xsinv c : sinv c -> xsinv (rc_x c).
Proof. intros (H1 & H2 & H3). split; [exact H1|]. split; [exact H2|]. apply next_in. exact H3. Qed.

Lemma hd_pr stack : snd (hd (0, -1) (map pr stack)) = x_state (hd xdummy stack) \/ stack = [].
Proof. destruct stack; [right; reflexivity|left; reflexivity]. Qed.

Lemma spath_ne stack : spath stack -> stack <> [].
Proof. intros (w & H) ->. apply S_ne in H. apply H. reflexivity. Qed.

Lemma spath_hd stack : spath stack -> snd (hd (0, -1) (map pr stack)) = x_state (hd xdummy stack).
Proof. intros H. destruct (hd_pr stack) as [E| ->]; [exact E|]. apply spath_ne in H. congruence. Qed.

Lemma spath_top stack : spath stack -> 0 <= x_state (hd xdummy stack) < nstates.
Proof. intros H. rewrite <- spath_hd by exact H. destruct H as (w & H). eapply S_state; eauto. Qed.

Lemma spath_all stack : spath stack -> Forall (fun e => 0 <= x_state e < nstates) stack.
Proof.
  intros (w & H). apply S_all in H. rewrite Forall_forall in *. intros e He.
  apply (H (pr e)). apply in_map. exact He.
Qed.

Lemma spath_skipn k stack : spath stack -> (k < length stack)%nat -> spath (skipn k stack).
Proof.
  intros (w & H) Hk. destruct (S_suffix k _ _ H) as (w1 & H1); [rewrite map_length; exact Hk|].
  exists w1. rewrite <- skipn_map. exact H1.
Qed.

Lemma spath_shift stack a q e : spath stack -> 0 <= a < T -> m_act m (x_state (hd xdummy stack)) a [] = Shift q ->
  x_sym e = a -> x_state e = q -> spath (e :: stack).
Proof.
  intros Hp Ha Hact Hs Hq. pose proof (spath_hd _ Hp) as Hh. destruct Hp as (w & H).
  exists (w ++ [a]). simpl. unfold pr at 1. rewrite Hs, Hq. apply S_shift; auto. rewrite Hh. exact Hact.
Qed.

Lemma spath_reduce stack a r : spath stack -> 0 <= a < T -> m_act m (x_state (hd xdummy stack)) a [] = Reduce r ->
  let ln := Z.to_nat (m_rule_len m r) in
  (ln < length stack)%nat /\
  exists b rest, skipn ln stack = b :: rest /\ 0 <= m_goto m (x_state b) (m_rule_sym m r) /\
    forall e, x_sym e = m_rule_sym m r -> x_state e = m_goto m (x_state b) (m_rule_sym m r) -> spath (e :: b :: rest).
Proof.
  intros Hp Ha Hact. pose proof (spath_hd _ Hp) as Hh. destruct Hp as (w & H).
  rewrite <- Hh in Hact. destruct (S_reduce _ _ _ _ H Ha Hact) as (Hl & b & rest & w' & Esk & Hg & Hs').
  cbv zeta. rewrite map_length in Hl. split; [exact Hl|].
  rewrite skipn_map in Esk.
  destruct (skipn (Z.to_nat (m_rule_len m r)) stack) as [|b0 rest0] eqn:E0; [discriminate|].
  simpl in Esk. injection Esk as <- <-.
  exists b0, rest0. split; [reflexivity|]. split; [exact Hg|].
  intros e He1 He2. exists w'. simpl. unfold pr at 1. rewrite He1, He2. exact Hs'.
Qed.

Lemma spath_err st : spath st -> m_goto m (x_state (hd xdummy st)) err <> -1 ->
  forall e, x_sym e = err -> x_state e = m_goto m (x_state (hd xdummy st)) err -> spath (e :: st).
Proof.
  intros Hp Hne e He1 He2. pose proof (spath_hd _ Hp) as Hh. destruct Hp as (w & H).
  exists (w ++ [err]). simpl. unfold pr at 1. rewrite He1, He2, <- Hh. apply S_err; auto. rewrite Hh. exact Hne.
Qed.

(* ---- one reduction of the plain loop, with the pushed entry ---- *)
Lemma plain_reduce_shape x rule :
  m_act m (xc_state x) (t_sym (next_tok eoi (xc_input x))) [] = Reduce rule ->
  let ln := Z.to_nat (m_rule_len m rule) in
  (ln < length (xc_stack x))%nat ->
  let below := match skipn ln (xc_stack x) with b :: _ => x_state b | [] => -1 end in
  let st := m_goto m below (m_rule_sym m rule) in
  st <> -1 ->
  exists e' evs, x_sym e' = m_rule_sym m rule /\ x_state e' = st /\
    plain_reduce p x = Some (mkXC (e' :: skipn ln (xc_stack x)) st (xc_input x) evs).
Proof.
  intros Hact ln Hlen below st Hst. unfold plain_reduce, xstep.
  rewrite Hnm, Hact. fold ln.
  destruct (length (xc_stack x) <=? ln)%nat eqn:El; [apply Nat.leb_le in El; lia|].
  destruct (lhs_range _ _) as [off endoff]. destruct (apply_rule _ _ _ _ _) as [evs endoff'].
  fold below. fold st. destruct (st =? -1) eqn:E1; [apply Z.eqb_eq in E1; contradiction|].
  eexists _, _. split; [|split]. 3: reflexivity. all: reflexivity.
Qed.

(* ---- reduceAll never walks below the stack: None means its fuel is exhausted by reductions of the loop ---- *)
Lemma reduce_all_safe f : forall stack stack2 state symbol x,
  vstack (xc_stack x) stack stack2 -> stack2 <> [] -> hd 0 stack2 = state -> xsinv x ->
  t_sym (next_tok eoi (xc_input x)) = symbol ->
  reduce_all f p stack stack2 state symbol = None -> reduces_for p f x = true.
Proof.
  induction f as [|f IH]; intros stack stack2 state symbol x Hv Hne Hhd Hx Hsym Hra; [reflexivity|].
  destruct Hx as (Hst & Hp & Ha). rewrite Hsym in Ha.
  pose proof (spath_top _ Hp) as Htop.
  assert (Hstate : xc_state x = state).
  { destruct Hv as (new & ES & Enew). rewrite Hst, ES, <- Hhd, <- Enew.
    destruct new; [simpl in Enew; congruence|reflexivity]. }
  simpl in Hra.
  destruct (state =? rp_end p); [discriminate|].
  destruct (state <? 0) eqn:Eneg; [apply Z.ltb_lt in Eneg; lia|].
  destruct (rp_deep p state symbol); [discriminate|].
  destruct (m_act m state symbol []) as [q|rule| |row] eqn:Eact; try discriminate.
  destruct Hv as (new & ES & Enew).
  assert (Hnew : new <> []) by (intros ->; simpl in Enew; congruence).
  assert (Hlnew : length new = length stack2) by (rewrite <- Enew, map_length; reflexivity).
  set (ln := Z.to_nat (m_rule_len m rule)) in *.
  set (sym := m_rule_sym m rule) in *.
  assert (Hact0 : m_act m (x_state (hd xdummy (xc_stack x))) symbol [] = Reduce rule) by (rewrite <- Hst, Hstate; exact Eact).
  destruct (spath_reduce _ _ _ Hp Ha Hact0) as (Hlen & b & rest & Esk & Hg & Hnext). fold ln in Hlen, Esk. fold sym in Hg, Hnext.
  assert (Hact : m_act m (xc_state x) (t_sym (next_tok eoi (xc_input x))) [] = Reduce rule) by (rewrite Hstate, Hsym; exact Eact).
  destruct (plain_reduce_shape x rule Hact Hlen) as (e' & evs & He1 & He2 & Hpr).
  { fold ln. rewrite Esk. fold sym. lia. }
  fold ln in Hpr, He2. rewrite Esk in Hpr, He2. fold sym in He1, He2, Hpr.
  cbn [reduces_for]. rewrite Hpr.
  set (x1 := mkXC (e' :: b :: rest) (m_goto m (x_state b) sym) (xc_input x) evs) in *.
  assert (Hx1 : xsinv x1).
  { split; [simpl; symmetry; exact He2|]. split; [simpl; apply Hnext; assumption|]. simpl. rewrite Hsym. exact Ha. }
  (* the three shapes of the pop *)
  destruct ln as [|ln'] eqn:Eln.
  - (* empty rule: push *)
    simpl in Esk.
    assert (Hb : x_state b = state).
    { rewrite <- Hstate, Hst, Esk. reflexivity. }
    rewrite Hb in *.
    apply (IH stack (m_goto m state sym :: stack2) (m_goto m state sym) symbol x1); auto.
    + exists (e' :: new). split; [simpl; rewrite <- Esk, ES; reflexivity|]. simpl. rewrite He2, Enew. reflexivity.
    + discriminate.
  - rewrite <- Eln in *. clear Eln ln'.
    destruct (ln <? length stack2)%nat eqn:Elt.
    + apply Nat.ltb_lt in Elt.
      assert (Esk' : skipn ln (xc_stack x) = skipn ln new ++ stack).
      { rewrite ES, skipn_app. replace (ln - length new)%nat with O by lia. reflexivity. }
      assert (Hsn : skipn ln new <> []).
      { intros E. apply (f_equal (@length _)) in E. rewrite skipn_length in E. simpl in E. lia. }
      assert (Hb : hd 0 (skipn ln stack2) = x_state b).
      { rewrite <- Enew, skipn_map. rewrite Esk in Esk'. destruct (skipn ln new) as [|b0 r0]; [congruence|].
        simpl in Esk'. injection Esk' as -> _. reflexivity. }
      rewrite Hb in Hra.
      apply (IH stack (m_goto m (x_state b) sym :: skipn ln stack2) (m_goto m (x_state b) sym) symbol x1); auto.
      * exists (e' :: skipn ln new). split; [simpl; rewrite <- Esk, Esk'; reflexivity|].
        simpl. rewrite He2, <- Enew, skipn_map. reflexivity.
      * discriminate.
    + apply Nat.ltb_ge in Elt.
      assert (Esk' : skipn ln (xc_stack x) = skipn (ln - length stack2) stack).
      { rewrite ES, skipn_app, Hlnew. rewrite skipn_all2 by lia. reflexivity. }
      rewrite <- Esk', Esk in Hra.
      apply (IH (b :: rest) [m_goto m (x_state b) sym] (m_goto m (x_state b) sym) symbol x1); auto.
      * exists [e']. split; [reflexivity|]. simpl. rewrite He2. reflexivity.
      * discriminate.
Qed.


(* ---- recoverFromError on a certified path ---- *)
Lemma positions_suffix stack : forall st, In st (recover_positions p stack) ->
  exists k, (k < length stack)%nat /\ st = skipn k stack /\ m_goto m (x_state (hd xdummy st)) err <> -1.
Proof.
  induction stack as [|e rest IH]; intros st Hin; [destruct Hin|].
  cbn [recover_positions] in Hin. apply in_app_or in Hin. destruct Hin as [Hin|Hin].
  - destruct (m_goto m (x_state e) err =? -1) eqn:E; [destruct Hin|].
    destruct Hin as [<-|[]]. exists O. split; [simpl; lia|]. split; [reflexivity|]. simpl. apply Z.eqb_neq. exact E.
  - destruct (IH _ Hin) as (k & Hk & -> & Hg). exists (S k). split; [simpl; lia|]. split; [reflexivity|exact Hg].
Qed.

Lemma find_match_none positions symbol fuel : find_match p positions symbol fuel = None ->
  exists st, In st positions /\
    reduce_all fuel p st [m_goto m (x_state (hd xdummy st)) err] (m_goto m (x_state (hd xdummy st)) err) symbol = None.
Proof.
  induction positions as [|s more IH]; simpl; [discriminate|].
  destruct (reduce_all _ _ _ _ _ _) as [[q [|]]|] eqn:E; try discriminate.
  - intros H. destruct (IH H) as (st & Hin & Hra). exists st. split; [right; exact Hin|exact Hra].
  - intros _. exists s. split; [left; reflexivity|exact E].
Qed.

Lemma recover_loop_crash fuel : forall stack positions syms input s e,
  recover_loop fuel p stack positions syms input s e = RecCrash ->
  exists st input', In st positions /\ is_suffix input' input /\
    reduce_all (S (length stack) * 4 + 64) p st [m_goto m (x_state (hd xdummy st)) err] (m_goto m (x_state (hd xdummy st)) err)
               (t_sym (next_tok eoi input')) = None.
Proof.
  induction fuel as [|f IH]; intros stack positions syms input s e; simpl; [discriminate|].
  destruct (skip_broken syms input 0) as [e1 input1] eqn:Esk.
  pose proof (skip_broken_suffix syms input 0) as Hsuf. rewrite Esk in Hsuf. simpl in Hsuf.
  destruct (find_match p positions _ _) as [[st1|]|] eqn:Efm.
  - destruct (length stack - length st1)%nat; [discriminate|]. destruct (s =? _); discriminate.
  - destruct (_ =? 0); [discriminate|]. intros E. destruct (IH _ _ _ _ _ _ E) as (st & inp' & H1 & H2 & H3).
    exists st, inp'. split; [exact H1|]. split; [eapply is_suffix_trans; eauto|exact H3].
  - intros _. destruct (find_match_none _ _ _ Efm) as (st & Hin & Hra). exists st, input1. split; [exact Hin|]. split; [exact Hsuf|exact Hra].
Qed.

Lemma recover_loop_ok_sym fuel : forall stack positions syms input s e stk inp',
  recover_loop fuel p stack positions syms input s e = RecOk stk inp' ->
  exists st e0, In st positions /\ stk = e0 :: st /\ x_state e0 = m_goto m (x_state (hd xdummy st)) err /\ x_sym e0 = err.
Proof.
  induction fuel as [|f IH]; intros stack positions syms input s e stk inp'; simpl; [discriminate|].
  destruct (skip_broken syms input 0) as [e1 input1].
  destruct (find_match p positions _ _) as [[st1|]|] eqn:Efm; try discriminate.
  - apply RedTermRec_proofs.find_match_in in Efm.
    destruct (length stack - length st1)%nat.
    + intros E. injection E as <- _. eexists _, _. split; [exact Efm|]. split; [reflexivity|split; reflexivity].
    + destruct (s =? _); intros E; injection E as <- _; (eexists _, _; split; [exact Efm|]; split; [reflexivity|split; reflexivity]).
  - destruct (_ =? 0); [discriminate|]. intros E. eapply IH. exact E.
Qed.

Lemma suffix_toks (a b : list tok) : is_suffix a b -> Forall tok_in b -> Forall tok_in a.
Proof. intros (pre & ->) H. apply Forall_app in H. apply H. Qed.

(* RCrash 2 of the model = reduceAll's model fuel (4 * (|stack| + 1) + 64) is exhausted by a sequence of that many genuine
   reductions of the loop from a certified configuration (the Go code has no such limit) *)
Definition model_fuel_exhausted : Prop :=
  exists x n, xsinv x /\ (length (xc_stack x) <= n)%nat /\ reduces_for p (n * 4 + 64) x = true.

Definition crash_ok (o : routcome) : Prop := forall why, o = RCrash why -> why = 2 /\ model_fuel_exhausted.

Lemma handle_error_safe c0 stack events : spath stack -> Forall tok_in (xc_input (rc_x c0)) ->
  match handle_error p eh c0 stack events with
  | RContinue c1 => sinv c1
  | RStop o _ => crash_ok o
  end.
Proof.
  intros Hp Htok. unfold handle_error.
  destruct (_ && negb _); [intros why E; discriminate|].
  destruct (recover_from_error p stack (xc_input (rc_x c0))) as [stack' input'|input'| |] eqn:Erec.
  - unfold recover_from_error in Erec.
    destruct (recover_positions p stack) as [|pos0 positions] eqn:Epos; [discriminate|].
    pose proof (recover_loop_suffix p _ _ _ _ _ _ _ _ _ Erec) as Hsuf.
    apply recover_loop_ok_sym in Erec. destruct Erec as (st & e0 & Hin & -> & He0 & He1).
    rewrite <- Epos in Hin. destruct (positions_suffix _ _ Hin) as (k & Hk & -> & Hg).
    unfold sinv. cbn [rc_x xc_stack xc_state xc_input]. split; [reflexivity|]. split; [|eapply suffix_toks; eauto].
    eapply spath_err; eauto. apply spath_skipn; assumption.
  - intros why E; discriminate.
  - intros why E. injection E as <-. split; [reflexivity|].
    unfold recover_from_error in Erec.
    destruct (recover_positions p stack) as [|pos0 positions] eqn:Epos; [discriminate|].
    destruct (recover_loop_crash _ _ _ _ _ _ _ Erec) as (st & inp' & Hin & Hsuf & Hra).
    rewrite <- Epos in Hin. destruct (positions_suffix _ _ Hin) as (k & Hk & Est & Hg).
    set (st0 := m_goto m (x_state (hd xdummy st)) err) in *.
    set (e0 := mkX err 0 0 st0 (TLeaf 0 0 0)).
    set (x1 := mkXC (e0 :: st) st0 inp' []).
    assert (Hx1 : xsinv x1).
    { split; [reflexivity|]. split.
      - simpl. apply (spath_err st); [rewrite Est; apply spath_skipn; assumption|exact Hg|reflexivity|reflexivity].
      - simpl. apply next_in. eapply suffix_toks; eauto. }
    exists x1, (S (length stack)). split; [exact Hx1|]. split.
    + simpl. rewrite Est, skipn_length. lia.
    + apply (reduce_all_safe _ st [st0] st0 (t_sym (next_tok eoi inp')) x1); auto.
      * exists [e0]. split; reflexivity.
      * discriminate.
  - exfalso. eapply recover_terminates; eauto.
Qed.

Lemma rstep_safe c : sinv c ->
  match rstep p eh c with
  | RContinue c1 => sinv c1
  | RStop o _ => crash_ok o
  end.
Proof.
  intros Hinv. pose proof (sinv_xsinv c Hinv) as (_ & _ & Ha). destruct Hinv as (Hst & Hp & Htok).
  unfold rstep. rewrite Hnm.
  destruct (m_act m (xc_state (rc_x c)) (t_sym (next_tok eoi (xc_input (rc_x c)))) []) as [q|rule| |row] eqn:Eact.
  - unfold sinv. cbn [rc_x xc_stack xc_state xc_input]. split; [reflexivity|]. split.
    + apply (spath_shift _ (t_sym (next_tok eoi (xc_input (rc_x c)))) q); [exact Hp|exact Ha|rewrite <- Hst; exact Eact|reflexivity|reflexivity].
    + destruct (_ =? 0); [exact Htok|]. eapply suffix_toks; [apply is_suffix_tl|exact Htok].
  - rewrite Hst in Eact.
    destruct (spath_reduce _ _ _ Hp Ha Eact) as (Hlen & b & rest & Esk & Hg & Hnext).
    set (ln := Z.to_nat (m_rule_len m rule)) in *.
    destruct (length (xc_stack (rc_x c)) <=? ln)%nat eqn:El; [apply Nat.leb_le in El; lia|].
    destruct (lhs_range _ _) as [off endoff]. destruct (apply_rule _ _ _ _ _) as [evs endoff'].
    rewrite Esk.
    destruct (m_goto m (x_state b) (m_rule_sym m rule) =? -1) eqn:Est; [apply Z.eqb_eq in Est; lia|].
    unfold sinv. cbn [rc_x xc_stack xc_state xc_input]. split; [reflexivity|]. split; [|exact Htok].
    apply Hnext; reflexivity.
  - apply handle_error_safe; assumption.
  - apply handle_error_safe; assumption.
Qed.

Lemma rstep_sinv c c' : sinv c -> rstep p eh c = RContinue c' -> sinv c'.
Proof. intros H E. pose proof (rstep_safe c H) as Hs. rewrite E in Hs. exact Hs. Qed.

Lemma rrun_loop_safe f : forall c o c', sinv c -> rrun_loop f p eh c = (o, c') -> crash_ok o.
Proof.
  induction f as [|f IH]; intros c o c' Hinv; simpl.
  - intros E. injection E as <- _. intros why E; discriminate.
  - destruct (_ =? rp_end p); [intros E; injection E as <- _; intros why E; discriminate|].
    pose proof (rstep_safe c Hinv) as Hs.
    destruct (rstep p eh c) as [c1|o1 c1]; [apply IH; exact Hs|].
    intros E. injection E as <- _. exact Hs.
Qed.

(* the missing-goto branch of the loop (push the state -1, call recoverFromError, which then evaluates
   gotoState(-1, errSymbol)) is dead on certified configurations, and a reduction never pops the bottom entry *)
Lemma reduce_goto_present c rule : sinv c ->
  m_act m (xc_state (rc_x c)) (t_sym (next_tok eoi (xc_input (rc_x c)))) [] = Reduce rule ->
  (Z.to_nat (m_rule_len m rule) < length (xc_stack (rc_x c)))%nat /\
  exists b rest, skipn (Z.to_nat (m_rule_len m rule)) (xc_stack (rc_x c)) = b :: rest /\
    0 <= m_goto m (x_state b) (m_rule_sym m rule) < nstates.
Proof.
  intros Hinv Eact. pose proof (sinv_xsinv c Hinv) as (_ & _ & Ha). destruct Hinv as (Hst & Hp & Htok).
  rewrite Hst in Eact. destruct (spath_reduce _ _ _ Hp Ha Eact) as (Hlen & b & rest & Esk & Hg & Hnext).
  split; [exact Hlen|]. exists b, rest. split; [exact Esk|].
  specialize (Hnext (mkX (m_rule_sym m rule) 0 0 (m_goto m (x_state b) (m_rule_sym m rule)) (TLeaf 0 0 0)) eq_refl eq_refl).
  apply spath_top in Hnext. exact Hnext.
Qed.

Lemma sinv_init input : Forall tok_in input ->
  sinv (mkRC (mkXC [mkX 0 0 0 (Z.of_nat i) (TLeaf 0 0 0)] (Z.of_nat i) input []) 0 [] (0, 0)).
Proof.
  intros Ht. split; [reflexivity|]. split; [|exact Ht]. exists []. simpl. unfold pr. simpl. constructor.
Qed.

(* ---- with the reduction bound of RedTerm ---- *)
Section B.
Variable F : nat.
Hypothesis Hrg : check_range m nstates T NS = true.
Hypothesis Hrt : check_redterm m nstates T NS F = true.

Lemma xsinv_xinv x : xsinv x -> xinv p nstates T x.
Proof.
  intros (H1 & H2 & H3). split; [apply spath_ne; exact H2|]. split; [apply spath_all; exact H2|]. split; [exact H1|exact H3].
Qed.

Lemma xsinv_bound x : xsinv x -> reduces_for p (S (S (length (xc_stack x)) * F + 1)) x = false.
Proof. intros H. apply (redterm_bound p nstates T NS F Hnm Hrt Hrg). apply xsinv_xinv. exact H. Qed.

Lemma no_model_fuel_exhausted : (F <= 4)%nat -> ~ model_fuel_exhausted.
Proof.
  intros HF (x & n & Hx & Hlen & Hred).
  pose proof (reduces_for_lt p _ _ _ Hred (xsinv_bound x Hx)) as Hlt.
  assert (S (length (xc_stack x)) * F <= S n * 4)%nat by (apply Nat.mul_le_mono; lia). lia.
Qed.

Theorem rrun_loop_never_crashes : (F <= 4)%nat -> forall f c o c' why, sinv c -> rrun_loop f p eh c = (o, c') -> o <> RCrash why.
Proof.
  intros HF f c o c' why Hinv Hrun E. destruct (rrun_loop_safe f c o c' Hinv Hrun why E) as (_ & H).
  exact (no_model_fuel_exhausted HF H).
Qed.

Hypothesis Hso : shift_ok_sound p.
Hypothesis Hend : 0 <= rp_end p.
Hypothesis Heoi : check_eoi m nstates (rp_end p) = true.

Theorem rrun_terminates_certified : forall c, sinv c -> exists f, fst (rrun_loop f p eh c) <> RFuel.
Proof.
  apply (rrun_terminates_inv p eh Hnm Hso Hend sinv rstep_sinv).
  - intros c Hinv. eexists. apply xsinv_bound. apply sinv_xsinv. exact Hinv.
  - intros c q (Hst & Hp & _) Hq.
    assert (Hs : 0 <= xc_state (rc_x c) < nstates) by (rewrite Hst; apply spath_top; exact Hp).
    unfold check_eoi in Heoi. rewrite forallb_forall in Heoi.
    specialize (Heoi _ (proj2 (in_zrange0 _ _) Hs)). rewrite Hq in Heoi. apply Z.eqb_eq in Heoi. exact Heoi.
Qed.
End B.

End S.

(* ---- the statements used by Props/C19.v ---- *)
Definition toks_in (g : grammar) (input : list tok) : Prop := Forall (fun t => 0 <= t_sym t < vT g) input.

Theorem rrun_crash_only_model_fuel g p nstates finals nl ft ann eh i :
  lalr1 p -> check g (rp_m p) nstates finals nl ft ann = true ->
  check_err_goto (rp_m p) nstates (vT g) (rp_err_sym p) = true -> (i < ninputs g)%nat ->
  forall f input why, toks_in g input -> fst (rrun f p eh (Z.of_nat i) input) = RCrash why ->
  why = 2 /\ model_fuel_exhausted g p i.
Proof.
  intros Hnm Hchk Herr Hi f input why Ht E. unfold rrun in E.
  destruct (rrun_loop f p eh _) as [o c'] eqn:Erun. simpl in E.
  exact (rrun_loop_safe g p nstates finals nl ft ann eh i Hnm Hchk Herr Hi f _ o c' (sinv_init g p i input Ht) Erun why E).
Qed.

Theorem rrun_never_crashes_certified g p nstates finals nl ft ann eh F i :
  lalr1 p -> check g (rp_m p) nstates finals nl ft ann = true ->
  check_err_goto (rp_m p) nstates (vT g) (rp_err_sym p) = true ->
  check_range (rp_m p) nstates (vT g) (vNS g) = true -> check_redterm (rp_m p) nstates (vT g) (vNS g) F = true ->
  (F <= 4)%nat -> (i < ninputs g)%nat ->
  forall f input why, toks_in g input -> fst (rrun f p eh (Z.of_nat i) input) <> RCrash why.
Proof.
  intros Hnm Hchk Herr Hrg Hrt HF Hi f input why Ht. unfold rrun.
  destruct (rrun_loop f p eh _) as [o c'] eqn:Erun. simpl.
  exact (rrun_loop_never_crashes g p nstates finals nl ft ann eh i Hnm Hchk Herr Hi F Hrg Hrt HF f _ o c' why (sinv_init g p i input Ht) Erun).
Qed.

Theorem rrun_terminates_certified_tables g p nstates finals nl ft ann eh F i :
  lalr1 p -> shift_ok_sound p -> 0 <= rp_end p ->
  check g (rp_m p) nstates finals nl ft ann = true ->
  check_err_goto (rp_m p) nstates (vT g) (rp_err_sym p) = true ->
  check_range (rp_m p) nstates (vT g) (vNS g) = true -> check_redterm (rp_m p) nstates (vT g) (vNS g) F = true ->
  check_eoi (rp_m p) nstates (rp_end p) = true -> (i < ninputs g)%nat ->
  (forall c, sinv g p i c -> exists f, fst (rrun_loop f p eh c) <> RFuel) /\
  (forall input, toks_in g input -> exists f, fst (rrun f p eh (Z.of_nat i) input) <> RFuel).
Proof.
  intros Hnm Hso Hend Hchk Herr Hrg Hrt Heoi Hi.
  pose proof (rrun_terminates_certified g p nstates finals nl ft ann eh i Hnm Hchk Herr Hi F Hrg Hrt Hso Hend Heoi) as H.
  split; [exact H|]. intros input Ht. unfold rrun. apply H. apply sinv_init. exact Ht.
Qed.

Theorem rrun_terminates_certified_opt g p o terms rl rs nstates finals nl ft ann eh F i :
  rp_m p = opt_machine o terms rl rs -> rp_shift_ok p = shift_ok_opt o -> 0 <= rp_end p ->
  check g (rp_m p) nstates finals nl ft ann = true ->
  check_err_goto (rp_m p) nstates (vT g) (rp_err_sym p) = true ->
  check_range (rp_m p) nstates (vT g) (vNS g) = true -> check_redterm (rp_m p) nstates (vT g) (vNS g) F = true ->
  check_eoi (rp_m p) nstates (rp_end p) = true -> (i < ninputs g)%nat ->
  forall input, toks_in g input -> exists f, fst (rrun f p eh (Z.of_nat i) input) <> RFuel.
Proof.
  intros Hm Hs Hend Hchk Herr Hrg Hrt Heoi Hi.
  destruct (conditions_opt p o terms rl rs Hm Hs) as [Hnm Hso].
  exact (proj2 (rrun_terminates_certified_tables g p nstates finals nl ft ann eh F i Hnm Hso Hend Hchk Herr Hrg Hrt Heoi Hi)).
Qed.

(* no reduction of a certified configuration misses its goto or pops the bottom entry; the invariant is kept by every iteration *)
Theorem certified_invariant g p nstates finals nl ft ann eh i :
  lalr1 p -> check g (rp_m p) nstates finals nl ft ann = true ->
  check_err_goto (rp_m p) nstates (vT g) (rp_err_sym p) = true -> (i < ninputs g)%nat ->
  (forall input, toks_in g input -> sinv g p i (mkRC (mkXC [mkX 0 0 0 (Z.of_nat i) (TLeaf 0 0 0)] (Z.of_nat i) input []) 0 [] (0, 0))) /\
  (forall c c', sinv g p i c -> rstep p eh c = RContinue c' -> sinv g p i c') /\
  (forall c, sinv g p i c -> Forall (fun e => 0 <= x_state e < nstates) (xc_stack (rc_x c))) /\
  (forall c rule, sinv g p i c ->
     m_act (rp_m p) (xc_state (rc_x c)) (t_sym (next_tok (rp_eoi_off p) (xc_input (rc_x c)))) [] = Reduce rule ->
     (Z.to_nat (m_rule_len (rp_m p) rule) < length (xc_stack (rc_x c)))%nat /\
     exists b rest, skipn (Z.to_nat (m_rule_len (rp_m p) rule)) (xc_stack (rc_x c)) = b :: rest /\
       0 <= m_goto (rp_m p) (x_state b) (m_rule_sym (rp_m p) rule) < nstates).
Proof.
  intros Hnm Hchk Herr Hi. split; [intros input Ht; apply sinv_init; exact Ht|]. split.
  - intros c c'. eapply rstep_sinv; eauto.
  - split.
    + intros c (_ & Hp & _). eapply spath_all; eauto.
    + intros c rule. eapply reduce_goto_present; eauto.
Qed.

Lemma check_report_zero g m nstates finals nl ft ann :
  check_report g m nstates finals nl ft ann = 0 -> check g m nstates finals nl ft ann = true.
Proof.
  unfold check_report, check.
  repeat match goal with |- context [negb ?b] => destruct b; simpl; try discriminate end.
  reflexivity.
Qed.
