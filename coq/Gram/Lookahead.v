(* Model of lalr/lookahead.go: newLookaheadRule, pickLookahead and the generated if-chain that
   evaluates a LookaheadRule at run time.  Executable definitions only. *)
From Coq Require Import List ZArith Bool Arith.
Import ListNotations.
Local Open Scope Z_scope.

Record lookahead := mkLA { la_nonterm : Z; la_preds : list (Z * bool) (* (input, negated) *) }.
Record larule := mkRule { r_cases : list (Z * bool * Z) (* input, negated, target *); r_default : Z }.

Inductive la_result := LaOk (r : larule) | LaErr (why : Z).
(* why: 1 inconsistent order (cycle), 2 ambiguous order, 3 cannot decide, 9 fuel *)

(* Lookahead.Accepts *)
Fixpoint accepts (preds : list (Z * bool)) (input : Z) : option bool :=
  match preds with
  | [] => None
  | (i, neg) :: rest => if i =? input then Some neg else accepts rest input
  end.

(* ---- the order graph: nodes keyed by input, prev lists in insertion order ---- *)
Definition graph := list (Z * list Z).   (* input -> prev inputs *)

Fixpoint g_add_node (g : graph) (i : Z) : graph :=
  match g with
  | [] => [(i, [])]
  | (j, ps) :: rest => if j =? i then g else (j, ps) :: g_add_node rest i
  end.

Fixpoint g_add_prev (g : graph) (i p : Z) : graph :=
  match g with
  | [] => []
  | (j, ps) :: rest => if j =? i then (j, ps ++ [p]) :: rest else (j, ps) :: g_add_prev rest i p
  end.

Fixpoint g_prevs (g : graph) (i : Z) : list Z :=
  match g with
  | [] => []
  | (j, ps) :: rest => if j =? i then ps else g_prevs rest i
  end.

(* one lookahead: chain its predicates; returns the graph and the last node *)
Fixpoint chain (g : graph) (prev : option Z) (preds : list (Z * bool)) : graph * option Z :=
  match preds with
  | [] => (g, prev)
  | (i, _) :: rest =>
      let g := g_add_node g i in
      let g := match prev with Some p => g_add_prev g i p | None => g end in
      chain g (Some i) rest
  end.

Definition build_graph (las : list lookahead) : graph * list Z (* top.prev *) :=
  fold_left (fun '(g, top) la =>
      match chain g None (la_preds la) with
      | (g, Some lastn) => (g, top ++ [lastn])
      | (g, None) => (g, top)
      end) las ([], []).

(* dfs state per node: (state, depth) with state 0 = new, 1 = on the path, 2 = done *)
Record dfs_st := mkD { d_state : list (Z * (Z * Z)); d_cycle : bool; d_order : list Z; d_oof : bool }.

Fixpoint st_get (s : list (Z * (Z * Z))) (i : Z) : Z * Z :=
  match s with [] => (0, 0) | (j, v) :: rest => if j =? i then v else st_get rest i end.
Fixpoint st_set (s : list (Z * (Z * Z))) (i : Z) (v : Z * Z) : list (Z * (Z * Z)) :=
  match s with
  | [] => [(i, v)]
  | (j, w) :: rest => if j =? i then (j, v) :: rest else (j, w) :: st_set rest i v
  end.

Fixpoint dfs (fuel : nat) (g : graph) (n : Z) (st : dfs_st) : dfs_st :=
  match fuel with
  | O => mkD (d_state st) (d_cycle st) (d_order st) true
  | S f =>
    let '(state, _) := st_get (d_state st) n in
    if state =? 1 then mkD (d_state st) true (d_order st) (d_oof st)
    else if state =? 2 then st
    else
      let st := mkD (st_set (d_state st) n (1, 1)) (d_cycle st) (d_order st) (d_oof st) in
      let st := fold_left (fun st p =>
          let st := dfs f g p st in
          let dp := snd (st_get (d_state st) p) in
          let dn := snd (st_get (d_state st) n) in
          if dp >=? dn then mkD (st_set (d_state st) n (1, dp + 1)) (d_cycle st) (d_order st) (d_oof st) else st)
        (g_prevs g n) st in
      let dn := snd (st_get (d_state st) n) in
      mkD (st_set (d_state st) n (2, dn)) (d_cycle st) (d_order st ++ [n]) (d_oof st)
  end.

(* the top node is not in the map: handled apart; its input field is 0 *)
Definition dfs_top (g : graph) (top : list Z) : dfs_st * Z (* top depth *) :=
  let fuel := S (S (length g)) in
  let '(st, depth) := fold_left (fun '(st, depth) p =>
      let st := dfs fuel g p st in
      let dp := snd (st_get (d_state st) p) in
      (st, if dp >=? depth then dp + 1 else depth)) top (mkD [] false [] false, 1) in
  (mkD (d_state st) (d_cycle st) (d_order st ++ [0]) (d_oof st), depth).

(* pickLookahead: the scan keeps (pos, neg): -1 none yet, -2 ambiguous, else the index *)
Fixpoint pick_scan (input : Z) (las : list lookahead) (i : nat) (pos neg : Z) : option (Z * Z) :=
  match las with
  | [] => Some (pos, neg)
  | la :: rest =>
      match accepts (la_preds la) input with
      | None => None
      | Some negated =>
          if negb negated && (pos =? -1) then pick_scan input rest (S i) (Z.of_nat i) neg
          else if negated && (neg =? -1) then pick_scan input rest (S i) pos (Z.of_nat i)
          else if negated then pick_scan input rest (S i) pos (-2)
          else pick_scan input rest (S i) (-2) neg
      end
  end.

Definition pick (input : Z) (las : list lookahead) : option (nat * bool) :=
  match pick_scan input las 0%nat (-1) (-1) with
  | None => None
  | Some (pos, neg) =>
      if pos >=? 0 then Some (Z.to_nat pos, false)
      else if neg >=? 0 then Some (Z.to_nat neg, true) else None
  end.

(* x[k] = x[len-1]; x = x[:len-1] *)
Definition swap_remove {A} (l : list A) (k : nat) : list A :=
  match rev l with
  | [] => []
  | lastx :: _ =>
      let l' := removelast l in
      if (k <? length l')%nat then firstn k l' ++ lastx :: skipn (S k) l' else l'
  end.

(* for i, next := range order { if pick ok ... } *)
Fixpoint try_order (order : list Z) (i : nat) (las : list lookahead) : option (nat * Z * nat * bool) :=
  match order with
  | [] => None
  | next :: rest =>
      match pick next las with
      | Some (k, negated) => Some (i, next, k, negated)
      | None => try_order rest (S i) las
      end
  end.

Fixpoint main_loop (fuel : nat) (las : list lookahead) (order : list Z) (cases : list (Z * bool * Z)) : la_result :=
  match fuel with
  | O => LaErr 9
  | S f =>
    match las with
    | [] => LaErr 9                 (* lookaheads[0] on an empty slice: never reached (>= 1 lookahead) *)
    | [la] => LaOk (mkRule cases (la_nonterm la))
    | _ =>
      match try_order order 0%nat las with
      | None => LaErr 3
      | Some (i, next, k, negated) =>
          let target := la_nonterm (nth k las (mkLA 0 [])) in
          main_loop f (swap_remove las k) (swap_remove order i) (cases ++ [(next, negated, target)])
      end
    end
  end.

Definition new_rule (las : list lookahead) : la_result :=
  let '(g, top) := build_graph las in
  let '(st, depth) := dfs_top g top in
  if d_oof st then LaErr 9
  else if d_cycle st then LaErr 1
  else if negb (depth =? Z.of_nat (length g) + 1) then LaErr 2
  else main_loop (S (length las)) las (d_order st) [].

(* ---- run-time evaluation: the generated if / else-if chain ---- *)
Fixpoint eval_cases (cases : list (Z * bool * Z)) (dflt : Z) (rho : Z -> bool) : Z :=
  match cases with
  | [] => dflt
  | (input, negated, target) :: rest =>
      if xorb (rho input) negated then target else eval_cases rest dflt rho
  end.

Definition eval_rule (r : larule) (rho : Z -> bool) : Z := eval_cases (r_cases r) (r_default r) rho.

(* a lookahead alternative holds when each of its literals holds *)
Definition holds (rho : Z -> bool) (la : lookahead) : bool :=
  forallb (fun '(i, neg) => xorb (rho i) neg) (la_preds la).
