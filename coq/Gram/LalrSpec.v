(* Declarative LALR(1): nullable / FIRST as inductive predicates, LR(1)-validity of an item with a lookahead for
   a viable prefix (start items, closure step with FIRST(beta a), goto step), the state of an automaton reached
   by a symbol string, and LALR1(q, item) = union over all strings reaching q.  Also the declarative LR(0)
   kernel of goto*(start_i, gamma) and the boolean stability / closedness tests used as hypotheses of the
   completeness theorems.  Definitions only; proofs are in LalrSpec_proofs.v. *)
From Coq Require Import List ZArith Bool Arith.
From TM Require Import Gram.Cfg Gram.Derive Gram.LalrRef.
Import ListNotations.
Local Open Scope Z_scope.

(* ---------- nullable and FIRST, declaratively (sentential forms: no productivity requirement) ---------- *)
Inductive nullable_sym (g : grammar) : Z -> Prop :=
| nu_rule r : In r (g_rules g) -> nullable_seq g (r_rhs r) -> nullable_sym g (r_lhs r)
with nullable_seq (g : grammar) : list Z -> Prop :=
| nus_nil : nullable_seq g []
| nus_cons x xs : nullable_sym g x -> nullable_seq g xs -> nullable_seq g (x :: xs).

(* first_sym g X a : X =>* a delta for some sentential form delta *)
Inductive first_sym (g : grammar) : Z -> Z -> Prop :=
| fs_term a : is_term g a = true -> first_sym g a a
| fs_rule r pre x post a : In r (g_rules g) -> r_rhs r = pre ++ x :: post -> nullable_seq g pre ->
    first_sym g x a -> first_sym g (r_lhs r) a.

Definition first_seq_of (g : grammar) (w : list Z) (a : Z) : Prop :=
  exists pre x post, w = pre ++ x :: post /\ nullable_seq g pre /\ first_sym g x a.

(* b in FIRST(beta a) for a lookahead a *)
Definition first_la (g : grammar) (beta : list Z) (a b : Z) : Prop :=
  first_seq_of g beta b \/ (nullable_seq g beta /\ b = a).

(* symbols after the symbol behind the dot *)
Definition item_rest (g : grammar) (it : item) : list Z :=
  skipn (S (Z.to_nat (snd it))) (r_rhs (rule_at g (fst it))).

(* ---------- LR(0): items valid for gamma, kernels ---------- *)
Inductive lr0_valid (g : grammar) (i : Z) : list Z -> item -> Prop :=
| l0_start nt eoi r : 0 <= i -> nth_error (g_inputs g) (Z.to_nat i) = Some (nt, eoi) -> In r (rules_of g nt) ->
    lr0_valid g i [] (r, 0)
| l0_closure gamma it B r : lr0_valid g i gamma it -> sym_after g it = Some B -> is_term g B = false ->
    In r (rules_of g B) -> lr0_valid g i gamma (r, 0)
| l0_goto gamma it X : lr0_valid g i gamma it -> sym_after g it = Some X ->
    lr0_valid g i (gamma ++ [X]) (fst it, snd it + 1).

(* kernel items of goto*(start_i, gamma): the items produced by the goto step *)
Definition lr0_kernel (g : grammar) (i : Z) (gamma : list Z) (it : item) : Prop :=
  exists gamma' X it', gamma = gamma' ++ [X] /\ lr0_valid g i gamma' it' /\ sym_after g it' = Some X /\
                       it = (fst it', snd it' + 1).

(* ---------- LR(1) validity ---------- *)
(* lr1_valid g i gamma it a: the LR(1) item [it, a] belongs to goto*(closure(start_i), gamma) of input number i.
   The closure step [A -> alpha . B beta, a] => [B -> . delta, b], b in FIRST(beta a), is split in two: b in
   FIRST(beta) needs only the LR(0) item (DeRemer/Pennello "read" part), b = a needs beta nullable.  For
   grammars in which every LR(0)-valid item has some lookahead (e.g. every nonterminal has a non-empty FIRST or
   is nullable) this is the textbook definition lr1_valid_tb below; in general lr1_valid_tb is included. *)
Inductive lr1_valid (g : grammar) (i : Z) : list Z -> item -> Z -> Prop :=
| lv_start nt eoi r a : 0 <= i -> nth_error (g_inputs g) (Z.to_nat i) = Some (nt, eoi) -> In r (rules_of g nt) ->
    (if eoi : bool then a = 0 else is_term g a = true) -> lr1_valid g i [] (r, 0) a
| lv_closure_first gamma it B r b : lr0_valid g i gamma it -> sym_after g it = Some B -> is_term g B = false ->
    In r (rules_of g B) -> first_seq_of g (item_rest g it) b -> lr1_valid g i gamma (r, 0) b
| lv_closure_la gamma it a B r : lr1_valid g i gamma it a -> sym_after g it = Some B -> is_term g B = false ->
    In r (rules_of g B) -> nullable_seq g (item_rest g it) -> lr1_valid g i gamma (r, 0) a
| lv_goto gamma it a X : lr1_valid g i gamma it a -> sym_after g it = Some X ->
    lr1_valid g i (gamma ++ [X]) (fst it, snd it + 1) a.

(* textbook form: one closure rule with b in FIRST(beta a) *)
Inductive lr1_valid_tb (g : grammar) (i : Z) : list Z -> item -> Z -> Prop :=
| tb_start nt eoi r a : 0 <= i -> nth_error (g_inputs g) (Z.to_nat i) = Some (nt, eoi) -> In r (rules_of g nt) ->
    (if eoi : bool then a = 0 else is_term g a = true) -> lr1_valid_tb g i [] (r, 0) a
| tb_closure gamma it a B r b : lr1_valid_tb g i gamma it a -> sym_after g it = Some B -> is_term g B = false ->
    In r (rules_of g B) -> first_la g (item_rest g it) a b -> lr1_valid_tb g i gamma (r, 0) b
| tb_goto gamma it a X : lr1_valid_tb g i gamma it a -> sym_after g it = Some X ->
    lr1_valid_tb g i (gamma ++ [X]) (fst it, snd it + 1) a.

(* the state reached from start state i (= input number i) over gamma *)
Inductive reach (a : automaton) (i : Z) : list Z -> Z -> Prop :=
| reach_nil : reach a i [] i
| reach_step gamma q X q' : reach a i gamma q -> trans_target a q X = Some q' -> reach a i (gamma ++ [X]) q'.

(* LALR(1) lookahead set of an item in a state: union of the LR(1) lookaheads over all strings reaching it *)
Definition lalr1 (g : grammar) (a : automaton) (q : Z) (it : item) (x : Z) : Prop :=
  exists i gamma, reach a i gamma q /\ lr1_valid g i gamma it x.

(* ---------- hypotheses of the theorems ---------- *)
(* start states carry the input nonterminal of their number *)
Definition seeds_ok (g : grammar) (a : automaton) : Prop :=
  forall q st nt, 0 <= q -> nth_error (a_states a) (Z.to_nat q) = Some st -> s_seed st = Some nt -> s_kind st = 0 ->
                  exists e, nth_error (g_inputs g) (Z.to_nat q) = Some (nt, e).

(* every item of every state is LR(0)-valid for some string reaching the state *)
Definition aut_sound (g : grammar) (a : automaton) : Prop :=
  forall q st it, 0 <= q -> nth_error (a_states a) (Z.to_nat q) = Some st ->
                  In it (closure g (s_kernel st) (s_seed st)) ->
                  exists i gamma, reach a i gamma q /\ lr0_valid g i gamma it.

(* start states exist, and a state reached over gamma contains all LR(0)-valid items of gamma *)
Definition starts_present (g : grammar) (a : automaton) : Prop :=
  forall i nt e, 0 <= i -> nth_error (g_inputs g) (Z.to_nat i) = Some (nt, e) ->
                 exists st, nth_error (a_states a) (Z.to_nat i) = Some st /\ s_seed st = Some nt /\ s_kind st = 0.
Definition aut_complete (g : grammar) (a : automaton) : Prop :=
  forall i gamma q it, reach a i gamma q -> lr0_valid g i gamma it ->
                       0 <= q /\ exists st, nth_error (a_states a) (Z.to_nat q) = Some st /\
                                            In it (closure g (s_kernel st) (s_seed st)).

(* every symbol after a dot has a transition: the collection is complete *)
Definition aut_total (g : grammar) (a : automaton) : Prop :=
  forall q st it s, 0 <= q -> nth_error (a_states a) (Z.to_nat q) = Some st ->
                    In it (closure g (s_kernel st) (s_seed st)) -> sym_after g it = Some s ->
                    exists q', trans_target a q s = Some q'.

(* measure that la_fix compares *)
Definition la_stable (g : grammar) (a : automaton) (nl : list Z) (ft : first_table) (t : la_table) : bool :=
  let t' := la_round g a nl ft t in
  Nat.eqb (la_size t') (la_size t) && Nat.eqb (length t') (length t).

Definition subset_b (a b : list Z) : bool := forallb (fun x => mem x b) a.

(* nl is closed under the rules *)
Definition nullable_closed (g : grammar) (nl : list Z) : bool :=
  forallb (fun r => negb (forallb (fun s => negb (is_term g s) && mem s nl) (r_rhs r)) || mem (r_lhs r) nl) (g_rules g).

(* ft is closed under the rules *)
Definition first_closed (g : grammar) (nl : list Z) (ft : first_table) : bool :=
  forallb (fun r => subset_b (fst (first_seq g nl (ft_get ft) (r_rhs r))) (ft_get ft (r_lhs r))) (g_rules g).

Definition wf_lhs (g : grammar) : bool := forallb (fun r => negb (is_term g (r_lhs r))) (g_rules g).
