(* C03: soundness of the LR(0) collection build_loop: every state it creates is reached from a start state over
   some symbol string gamma, its kernel consists of kernel items of goto*(start_i, gamma) and all its items are
   LR(0)-valid for gamma. *)
From Coq Require Import List ZArith Bool Arith Lia FinFun.
From TM Require Import Gram.Cfg Gram.Derive Gram.LalrRef Gram.LalrSpec Gram.LalrSpec_proofs Gram.LalrSpec_proofs2
                       Gram.LalrCert Gram.LalrCert_proofs.
Import ListNotations.
Local Open Scope Z_scope.

Lemma find_app {A} (p : A -> bool) l1 l2 :
  find p (l1 ++ l2) = match find p l1 with Some x => Some x | None => find p l2 end.
Proof. induction l1 as [|x l1 IH]; simpl; auto. destruct (p x); auto. Qed.

Lemma find_none' {A} (p : A -> bool) l : (forall x, In x l -> p x = false) -> find p l = None.
Proof.
  induction l as [|x l IH]; intros H; simpl; auto. rewrite (H x) by (left; reflexivity).
  apply IH. intros; apply H; right; auto.
Qed.

Lemma trans_target_app_l sts sts' tr l q s t :
  trans_target (mkAut sts tr) q s = Some t -> trans_target (mkAut sts' (tr ++ l)) q s = Some t.
Proof.
  unfold trans_target. simpl. rewrite find_app.
  destruct (find _ tr) as [[[f s'] t']|]; [auto|discriminate].
Qed.

Lemma trans_target_new sts tr k sym j :
  (forall f s t, In (f, s, t) tr -> ~ (f = k /\ s = sym)) ->
  trans_target (mkAut sts (tr ++ [(k, sym, j)])) k sym = Some j.
Proof.
  intros H. unfold trans_target. simpl. rewrite find_app, find_none'.
  - simpl. rewrite !Z.eqb_refl. reflexivity.
  - intros [[f s] t] Hin. apply andb_false_iff.
    destruct (Z.eqb_spec f k) as [->|]; [|auto]. destruct (Z.eqb_spec s sym) as [->|]; [|auto].
    exfalso. eapply H; eauto.
Qed.

Lemma reach_mono a a' i gamma q :
  (forall q s t, trans_target a q s = Some t -> trans_target a' q s = Some t) ->
  reach a i gamma q -> reach a' i gamma q.
Proof. intros H. induction 1; econstructor; eauto. Qed.

Section Build.
Variable g : grammar.

Definition good (a : automaton) (q : Z) (st : lstate) : Prop :=
  exists i gamma, (0 <= i /\ exists inp, nth_error (g_inputs g) (Z.to_nat i) = Some inp) /\ reach a i gamma q /\
                  (forall it, In it (s_kernel st) -> lr0_kernel g i gamma it) /\
                  (forall it, In it (closure g (s_kernel st) (s_seed st)) -> lr0_valid g i gamma it).

Definition B1 (a : automaton) : Prop :=
  forall q st, 0 <= q -> nth_error (a_states a) (Z.to_nat q) = Some st -> good a q st.

Definition B2 (a : automaton) (k : Z) (proc : list Z) : Prop :=
  forall f s t, In (f, s, t) (a_trans a) -> f < k \/ (f = k /\ In s proc).

Lemma good_mono a a' q st :
  (forall q s t, trans_target a q s = Some t -> trans_target a' q s = Some t) -> good a q st -> good a' q st.
Proof. intros H (i & gamma & Hi & Hr & H1 & H2). exists i, gamma. split; auto. split; [eapply reach_mono; eauto|auto]. Qed.

Definition goto_kernel (cl : list item) (sym : Z) : list item :=
  fold_left (fun acc it => match sym_after g it with
                           | Some s => if s =? sym then ins_item (fst it, snd it + 1) acc else acc
                           | None => acc end) cl [].

Lemma goto_kernel_In cl sym it : In it (goto_kernel cl sym) ->
  exists it', In it' cl /\ sym_after g it' = Some sym /\ it = (fst it', snd it' + 1).
Proof.
  unfold goto_kernel.
  apply (fold_left_inv (fun acc => In it acc -> exists it', In it' cl /\ sym_after g it' = Some sym /\ it = (fst it', snd it' + 1))).
  - intros [].
  - intros acc it' Hin' IH. destruct (sym_after g it') as [s|] eqn:Es; auto.
    destruct (Z.eqb_spec s sym) as [->|]; auto. intros H. apply ins_item_In in H. destruct H as [->|H]; eauto.
Qed.

Definition expand_sym (k : Z) (cl : list item) (a : automaton) (sym : Z) : automaton :=
  let kern := goto_kernel cl sym in
  match kern with
  | [] => a
  | _ =>
      let tgt := mkState kern None 0 in
      match find_state tgt (a_states a) 0 with
      | Some j => mkAut (a_states a) (a_trans a ++ [(k, sym, j)])
      | None => mkAut (a_states a ++ [tgt]) (a_trans a ++ [(k, sym, Z.of_nat (length (a_states a)))])
      end
  end.

Lemma expand_state_eq a k :
  expand_state g a k =
  let st := nth (Z.to_nat k) (a_states a) (mkState [] None 0) in
  if negb (s_kind st =? 0) then a
  else fold_left (expand_sym k (closure g (s_kernel st) (s_seed st))) (zrange (nsyms g)) a.
Proof. reflexivity. Qed.

Lemma expand_sym_inv k st a proc sym :
  0 <= k -> nth_error (a_states a) (Z.to_nat k) = Some st -> B1 a -> B2 a k proc -> ~ In sym proc ->
  let a' := expand_sym k (closure g (s_kernel st) (s_seed st)) a sym in
  nth_error (a_states a') (Z.to_nat k) = Some st /\ B1 a' /\ B2 a' k (sym :: proc).
Proof.
  intros Hk Hst HB1 HB2 Hfresh. unfold expand_sym. cbv zeta.
  destruct (goto_kernel (closure g (s_kernel st) (s_seed st)) sym) as [|it0 kern0] eqn:Ekern.
  - simpl. split; auto. split; auto. intros f s t Hin. destruct (HB2 f s t Hin) as [H|[H1 H2]]; [auto|right; simpl; auto].
  - set (kern := it0 :: kern0) in *. set (tgt := mkState kern None 0).
    assert (Hfreshtr : forall f s t, In (f, s, t) (a_trans a) -> ~ (f = k /\ s = sym)).
    { intros f s t Hin [-> ->]. destruct (HB2 _ _ _ Hin) as [H|[_ H]]; [lia|auto]. }
    destruct a as [sts tr]. simpl in *.
    destruct (find_state tgt sts 0) as [j|] eqn:Efind; simpl.
    + split; auto. split.
      * intros q st' Hq Hst'. eapply good_mono; [|apply (HB1 q st' Hq Hst')].
        intros; eapply trans_target_app_l; eauto.
      * intros f s t Hin. apply in_app_or in Hin. destruct Hin as [Hin|[[= <- <- <-]|[]]].
        -- destruct (HB2 f s t Hin) as [H|[H1 H2]]; [auto|right; simpl; auto].
        -- right. simpl. auto.
    + assert (Hlt : (Z.to_nat k < length sts)%nat) by (apply nth_error_Some; congruence).
      split; [rewrite nth_error_app1; auto|]. split.
      * set (a' := mkAut (sts ++ [tgt]) (tr ++ [(k, sym, Z.of_nat (length sts))])).
        assert (Hmono : forall q s t, trans_target (mkAut sts tr) q s = Some t -> trans_target a' q s = Some t)
          by (intros; eapply trans_target_app_l; eauto).
        intros q st' Hq Hst'. simpl in Hst'.
        destruct (lt_dec (Z.to_nat q) (length sts)) as [Hl|Hl].
        -- rewrite nth_error_app1 in Hst' by auto. eapply good_mono; [exact Hmono|apply (HB1 q st' Hq Hst')].
        -- assert (Hqe : Z.to_nat q = length sts).
           { assert (Hs : (Z.to_nat q < length (sts ++ [tgt]))%nat) by (apply nth_error_Some; congruence).
             rewrite app_length in Hs. simpl in Hs. lia. }
           rewrite Hqe, nth_error_app2, Nat.sub_diag in Hst' by lia. simpl in Hst'. injection Hst' as <-.
           destruct (HB1 k st Hk Hst) as (i & gamma & Hi & Hr & _ & Hval).
           exists i, (gamma ++ [sym]). split; [exact Hi|]. split; [|split].
           ++ econstructor; [eapply reach_mono; [exact Hmono|exact Hr]|].
              assert (Eq : q = Z.of_nat (length sts)) by lia. rewrite Eq. unfold a'. apply trans_target_new. exact Hfreshtr.
           ++ intros it Hit0.
              assert (Hit : In it (goto_kernel (closure g (s_kernel st) (s_seed st)) sym)) by (rewrite Ekern; exact Hit0).
              apply goto_kernel_In in Hit. destruct Hit as (it' & Hin' & Es & ->).
              exists gamma, sym, it'. auto.
           ++ unfold tgt. cbn [s_kernel s_seed]. apply closure_sound.
              ** intros it Hit0.
                 assert (Hit : In it (goto_kernel (closure g (s_kernel st) (s_seed st)) sym)) by (rewrite Ekern; exact Hit0).
                 apply goto_kernel_In in Hit. destruct Hit as (it' & Hin' & Es & ->). apply l0_goto; auto.
              ** intros nt r [=].
              ** intros it s r Hv Es Et Hrr. eapply l0_closure; eauto.
      * intros f s t Hin. apply in_app_or in Hin. destruct Hin as [Hin|[[= <- <- <-]|[]]].
        -- destruct (HB2 f s t Hin) as [H|[H1 H2]]; [auto|right; simpl; auto].
        -- right. simpl. auto.
Qed.

Lemma expand_fold_inv k st : 0 <= k -> forall syms a proc,
  NoDup syms -> (forall x, In x syms -> ~ In x proc) ->
  nth_error (a_states a) (Z.to_nat k) = Some st -> B1 a -> B2 a k proc ->
  let a' := fold_left (expand_sym k (closure g (s_kernel st) (s_seed st))) syms a in
  B1 a' /\ exists proc', B2 a' k proc'.
Proof.
  intros Hk. induction syms as [|x syms IH]; intros a proc Hnd Hdis Hst HB1 HB2; simpl.
  - split; eauto.
  - inversion Hnd as [|x' l' Hx Hnd']; subst.
    destruct (expand_sym_inv k st a proc x Hk Hst HB1 HB2 (Hdis x (or_introl eq_refl))) as (Hst' & HB1' & HB2').
    apply (IH _ (x :: proc)); auto.
    intros y Hy [<-|Hp]; [contradiction|]. apply (Hdis y (or_intror Hy) Hp).
Qed.

Lemma zrange_NoDup n : NoDup (zrange n).
Proof.
  unfold zrange. apply FinFun.Injective_map_NoDup; [intros x y; apply Nat2Z.inj|apply seq_NoDup].
Qed.

Lemma build_loop_inv fuel : forall a k, 0 <= k -> B1 a -> B2 a k [] -> B1 (build_loop fuel g a k).
Proof.
  induction fuel as [|fuel IH]; intros a k Hk HB1 HB2; simpl; auto.
  destruct (k <? Z.of_nat (length (a_states a))) eqn:Elt; auto. apply Z.ltb_lt in Elt.
  assert (Hweak : forall a' proc, B2 a' k proc -> B2 a' (k + 1) []).
  { intros a' proc H f s t Hin. destruct (H f s t Hin) as [H1|[H1 _]]; left; lia. }
  rewrite expand_state_eq. cbv zeta.
  destruct (nth_error (a_states a) (Z.to_nat k)) as [st|] eqn:Est.
  2:{ apply nth_error_None in Est. lia. }
  rewrite (nth_error_nth _ _ _ Est).
  destruct (negb (s_kind st =? 0)).
  - apply IH; [lia|auto|eapply Hweak; eauto].
  - destruct (expand_fold_inv k st Hk (zrange (nsyms g)) a [] (zrange_NoDup _) (fun _ _ H => H) Est HB1 HB2)
      as (HB1' & proc' & HB2').
    apply IH; [lia|auto|eapply Hweak; eauto].
Qed.

Definition start_states : list lstate := map (fun inp => mkState [] (Some (fst inp)) 0) (g_inputs g).

Lemma start_inv : B1 (mkAut start_states []).
Proof.
  intros q st Hq Hst. simpl in Hst. unfold start_states in Hst. rewrite nth_error_map in Hst.
  destruct (nth_error (g_inputs g) (Z.to_nat q)) as [[nt e]|] eqn:Einp; [|discriminate].
  injection Hst as <-. exists q, []. split; [eauto|]. split; [constructor|]. split; [intros it []|]. simpl.
  apply closure_sound.
  - intros it [].
  - intros nt' r [= <-] Hr. eapply l0_start; eauto.
  - intros it s r Hv Es Et Hr. eapply l0_closure; eauto.
Qed.

Theorem build_loop_sound fuel :
  let a := build_loop fuel g (mkAut start_states []) 0 in
  forall q st, 0 <= q -> nth_error (a_states a) (Z.to_nat q) = Some st ->
  exists i gamma, reach a i gamma q /\
                  (forall it, In it (s_kernel st) -> lr0_kernel g i gamma it) /\
                  (forall it, In it (closure g (s_kernel st) (s_seed st)) -> lr0_valid g i gamma it).
Proof.
  intros a q st Hq Hst.
  destruct (build_loop_inv fuel (mkAut start_states []) 0 ltac:(lia) start_inv) with (q := q) (st := st)
    as (i & gamma & _ & H); [|exact Hq|exact Hst|eauto].
  intros f s t [].
Qed.

(* the same with the start state being the one of an input *)
Theorem build_loop_sound_input fuel :
  let a := build_loop fuel g (mkAut start_states []) 0 in
  forall q st, 0 <= q -> nth_error (a_states a) (Z.to_nat q) = Some st -> good a q st.
Proof.
  intros a q st Hq Hst.
  apply (build_loop_inv fuel (mkAut start_states []) 0 ltac:(lia) start_inv); [|exact Hq|exact Hst].
  intros f s t [].
Qed.
End Build.
