(* C19: termination of the recovering loop from the table validators (RedTerm.check_redterm, check_range) instead of
   the hypothesis reductions_terminate: the loop keeps the stack states inside the table and the tokens inside the
   terminals (rinv), and on such configurations reduction sequences are bounded (RedTerm_proofs.redterm_bound). *)
From Coq Require Import List ZArith Bool Arith Lia.
From TM Require Import Lib.ListX Gram.PTables Gram.Run Gram.Validator Gram.Validator_proofs Gram.Events Gram.Recover
  Gram.Recover_proofs Gram.Recover_progress Gram.RedTerm Gram.RedTerm_proofs.
Import ListNotations.
Local Open Scope Z_scope.

(* ---- rrun_terminates relative to an invariant of the loop ---- *)
Section G.
Variable p : rparams.
Variable eh : nat -> bool.
Notation m := (rp_m p).
Notation eoi := (rp_eoi_off p).
Hypothesis Hnm : lalr1 p.
Hypothesis Hso : shift_ok_sound p.
Hypothesis Hend : 0 <= rp_end p.
Variable Inv : rconfig -> Prop.
Hypothesis Hstep : forall c c', Inv c -> rstep p eh c = RContinue c' -> Inv c'.
Hypothesis Hred : forall c, Inv c -> exists n, reduces_for p n (rc_x c) = false.
(* end-of-input is only shifted into the end state, on the configurations of the invariant *)
Hypothesis Heoi : forall c q, Inv c -> m_act m (xc_state (rc_x c)) 0 [] = Shift q -> q = rp_end p.

Lemma rsteps_inv k c c' : rsteps p eh k c c' -> Inv c -> Inv c'.
Proof. induction 1 as [c | k c c1 c' Hne Hst _ IH]; intros H; [exact H|]. apply IH. eapply Hstep; eauto. Qed.

Theorem rrun_terminates_inv : forall c, Inv c -> exists f, fst (rrun_loop f p eh c) <> RFuel.
Proof.
  intros c Hinv.
  remember (length (xc_input (rc_x c))) as n eqn:En.
  assert (Hn : (length (xc_input (rc_x c)) <= n)%nat) by lia. clear En.
  revert c Hn Hinv. induction n as [n IHn] using lt_wf_ind. intros c Hn Hinv.
  assert (Hshift : forall c2 q c3, xc_state (rc_x c2) <> rp_end p ->
     (length (xc_input (rc_x c2)) <= n)%nat ->
     m_act m (xc_state (rc_x c2)) (t_sym (next_tok eoi (xc_input (rc_x c2)))) [] = Shift q ->
     rstep p eh c2 = RContinue c3 -> xc_state (rc_x c3) = q ->
     xc_input (rc_x c3) = (if t_sym (next_tok eoi (xc_input (rc_x c2))) =? 0 then xc_input (rc_x c2) else tl (xc_input (rc_x c2))) ->
     Inv c2 -> Inv c3 ->
     exists f, fst (rrun_loop f p eh c2) <> RFuel).
  { intros c2 q c3 Hne2 Hlen2 Hq Hstep2 Hst3 Hin3 Hinv2 Hinv3. apply Z.eqb_neq in Hne2.
    destruct (t_sym (next_tok eoi (xc_input (rc_x c2))) =? 0) eqn:E0.
    - apply Z.eqb_eq in E0. rewrite E0 in Hq. apply (Heoi c2 q Hinv2) in Hq. exists 2%nat.
      change (rrun_loop 2 p eh c2) with (if xc_state (rc_x c2) =? rp_end p then (RAccept, c2)
        else match rstep p eh c2 with RContinue c' => rrun_loop 1 p eh c' | RStop o c' => (o, c') end).
      rewrite Hne2, Hstep2. apply accept_now. congruence.
    - apply Z.eqb_neq in E0. pose proof (next_sym_nonzero_tl p _ E0) as Hlt.
      destruct (IHn (length (xc_input (rc_x c3))) ltac:(rewrite Hin3; lia) c3 ltac:(lia) Hinv3) as (f & Hf).
      exists (S f). simpl. rewrite Hne2, Hstep2. exact Hf. }
  destruct (Hred c Hinv) as [k Hk]. revert c Hn Hinv Hk. induction k as [|k IHk]; intros c Hn Hinv Hk; [discriminate|].
  destruct (Z.eq_dec (xc_state (rc_x c)) (rp_end p)) as [Eend|Eend]; [exists 1%nat; apply accept_now; exact Eend|].
  pose proof Eend as Eend'. apply Z.eqb_neq in Eend'.
  destruct c as [x r errs l]. cbn [rc_x] in *.
  destruct (rstep_cases p eh Hnm x r errs l) as [(o & c' & Hs)|[(x' & Hpr & Hin & Hs)|[(q & c1 & Hq & Hs & Hst & Hin)|(c0 & stack & events & Hs & Hin)]]];
    cbv zeta in *.
  - exists 1%nat. simpl. rewrite Eend', Hs. simpl. exact (rstep_stop _ _ _ _ _ Hs).
  - simpl in Hk. rewrite Hpr in Hk.
    destruct (IHk (mkRC x' r errs l) ltac:(cbn [rc_x]; rewrite Hin; exact Hn) (Hstep _ _ Hinv Hs) Hk) as (f & Hf).
    exists (S f). simpl. rewrite Eend', Hs. exact Hf.
  - apply (Hshift (mkRC x r errs l) q c1); auto. eapply Hstep; eauto.
  - destruct (handle_error p eh c0 stack events) as [c1|o c'] eqn:Ehe.
    + pose proof (Hstep _ _ Hinv Hs) as Hinv1.
      destruct (recovery_progress p eh Hnm Hso Hend _ _ _ _ Ehe) as (Hsuf & k2 & c2 & _ & Hsteps & Hin2 & _ & _ & Hfin).
      pose proof (rsteps_inv _ _ _ Hsteps Hinv1) as Hinv2.
      apply is_suffix_length in Hsuf. rewrite Hin in Hsuf.
      assert (Hgo : exists f2, fst (rrun_loop f2 p eh c2) <> RFuel).
      { destruct Hfin as [Hfin|(q & c3 & Hq & Hs3 & Hst3 & _ & Hin3)]; [exists 1%nat; apply accept_now; exact Hfin|].
        destruct (Z.eq_dec (xc_state (rc_x c2)) (rp_end p)) as [E2|E2]; [exists 1%nat; apply accept_now; exact E2|].
        apply (Hshift c2 q c3); auto; try (rewrite Hin2; auto); try lia. eapply Hstep; eauto. }
      destruct Hgo as (f2 & Hf2). exists (S (k2 + f2)). simpl. rewrite Eend', Hs.
      rewrite (rsteps_loop _ _ _ _ _ Hsteps). exact Hf2.
    + exists 1%nat. simpl. rewrite Eend', Hs. simpl. exact (handle_error_stop _ _ _ _ _ _ _ Ehe).
Qed.
End G.

(* ---- the invariant of the recovering loop on validated tables ---- *)
Section I.
Variable p : rparams.
Variable eh : nat -> bool.
Variables nstates T NS : Z.
Variable F : nat.
Notation m := (rp_m p).
Notation eoi := (rp_eoi_off p).
Hypothesis Hnm : lalr1 p.
Hypothesis Hrg : check_range m nstates T NS = true.
(* the 'error' symbol is a symbol of the tables, and there is no transition on it from the state -1 that a
   failed goto leaves on the stack (gotoState(-1, errSymbol) = -1) *)
Hypothesis Herr : 0 <= rp_err_sym p < NS.
Hypothesis Hm1 : m_goto m (-1) (rp_err_sym p) = -1.

Definition st_in (e : xentry) : Prop := 0 <= x_state e < nstates.
Definition tok_in (t : tok) : Prop := 0 <= t_sym t < T.

Definition rinv (c : rconfig) : Prop :=
  xc_stack (rc_x c) <> [] /\ Forall st_in (xc_stack (rc_x c)) /\
  xc_state (rc_x c) = x_state (hd xdummy (xc_stack (rc_x c))) /\ Forall tok_in (xc_input (rc_x c)).

Lemma nsym_in input : Forall tok_in input -> 0 <= t_sym (next_tok eoi input) < T.
Proof.
  destruct (range_parts p nstates T NS Hrg) as (HT & _).
  intros H. destruct input as [|t r]; simpl; [lia|]. inversion H; subst. assumption.
Qed.

Lemma rinv_xinv c : rinv c -> xinv p nstates T (rc_x c).
Proof. intros (H1 & H2 & H3 & H4). split; [exact H1|]. split; [exact H2|]. split; [exact H3|]. apply nsym_in. exact H4. Qed.

Lemma suffix_toks (a b : list tok) : is_suffix a b -> Forall tok_in b -> Forall tok_in a.
Proof. intros (pre & ->) H. apply Forall_app in H. apply H. Qed.

(* recovery positions of a stack whose entries below the top are table states *)
Lemma positions_in stack : Forall st_in stack -> forall st, In st (recover_positions p stack) ->
  st <> [] /\ Forall st_in st /\ m_goto m (x_state (hd xdummy st)) (rp_err_sym p) <> -1.
Proof.
  induction stack as [|e rest IH]; intros Hall st Hin; [destruct Hin|].
  cbn [recover_positions] in Hin. apply in_app_or in Hin. destruct Hin as [Hin|Hin].
  - destruct (m_goto m (x_state e) (rp_err_sym p) =? -1) eqn:E; [destruct Hin|].
    destruct Hin as [<-|[]]. split; [discriminate|]. split; [exact Hall|]. simpl. apply Z.eqb_neq. exact E.
  - inversion Hall; subst. apply IH; assumption.
Qed.

Lemma positions_top e rest : x_state e = -1 -> recover_positions p (e :: rest) = recover_positions p rest.
Proof. intros H. cbn [recover_positions]. rewrite H, Hm1. reflexivity. Qed.

Lemma find_match_in positions symbol fuel st : find_match p positions symbol fuel = Some (Some st) -> In st positions.
Proof.
  induction positions as [|s more IH]; simpl; [discriminate|].
  destruct (reduce_all _ _ _ _ _ _) as [[q [|]]|]; try discriminate.
  - intros E. injection E as <-. left. reflexivity.
  - intros E. right. apply IH. exact E.
Qed.

Lemma recover_loop_ok fuel : forall stack positions syms input s e stk inp',
  recover_loop fuel p stack positions syms input s e = RecOk stk inp' ->
  exists st e0, In st positions /\ stk = e0 :: st /\ x_state e0 = m_goto m (x_state (hd xdummy st)) (rp_err_sym p).
Proof.
  induction fuel as [|f IH]; intros stack positions syms input s e stk inp'; simpl; [discriminate|].
  destruct (skip_broken syms input 0) as [e1 input1].
  destruct (find_match p positions _ _) as [[st1|]|] eqn:Efm; try discriminate.
  - apply find_match_in in Efm.
    destruct (length stack - length st1)%nat.
    + intros E. injection E as <- _. eexists _, _. split; [exact Efm|]. split; reflexivity.
    + destruct (s =? _); intros E; injection E as <- _; (eexists _, _; split; [exact Efm|]; split; reflexivity).
  - destruct (_ =? 0); [discriminate|]. intros E. eapply IH. exact E.
Qed.

(* the stack handed to the error branch: table states, except possibly a top entry with the state -1 *)
Definition stack_in (stack : list xentry) : Prop :=
  Forall st_in stack \/ exists e rest, stack = e :: rest /\ x_state e = -1 /\ Forall st_in rest.

Lemma handle_error_inv c0 stack events c1 : handle_error p eh c0 stack events = RContinue c1 ->
  stack_in stack -> Forall tok_in (xc_input (rc_x c0)) -> rinv c1.
Proof.
  unfold handle_error. intros H Hstk Htok.
  destruct (_ && negb _); [discriminate|].
  destruct (recover_from_error p stack (xc_input (rc_x c0))) as [stack' input'| | |] eqn:Erec; try discriminate.
  injection H as <-. unfold recover_from_error in Erec.
  assert (Hpos : forall st, In st (recover_positions p stack) ->
            st <> [] /\ Forall st_in st /\ m_goto m (x_state (hd xdummy st)) (rp_err_sym p) <> -1).
  { destruct Hstk as [Hall|(e & rest & -> & He & Hall)]; [apply positions_in; exact Hall|].
    rewrite (positions_top e rest He). apply positions_in; exact Hall. }
  destruct (recover_positions p stack) as [|pos0 positions] eqn:Epos; [discriminate|].
  pose proof (recover_loop_suffix p _ _ _ _ _ _ _ _ _ Erec) as Hsuf.
  apply recover_loop_ok in Erec. destruct Erec as (st & e0 & Hin & -> & He0).
  destruct (Hpos st Hin) as (Hne & Hall & Hgo).
  unfold rinv. cbn [rc_x xc_stack xc_state xc_input]. split; [discriminate|]. split; [|split; [reflexivity|]].
  - constructor; [|exact Hall]. unfold st_in. rewrite He0.
    destruct (range_parts p nstates T NS Hrg) as (_ & _ & Hgoto).
    assert (Hh : 0 <= x_state (hd xdummy st) < nstates).
    { destruct st as [|e1 st']; [congruence|]. inversion Hall; subst. assumption. }
    destruct (Hgoto _ _ Hh Herr) as [H|H]; [contradiction|exact H].
  - eapply suffix_toks; eauto.
Qed.

Lemma rstep_rinv c c' : rinv c -> rstep p eh c = RContinue c' -> rinv c'.
Proof.
  intros Hinv. pose proof (rinv_xinv c Hinv) as Hx. destruct Hinv as (Hne & Hall & Hst & Htok).
  destruct (range_parts p nstates T NS Hrg) as (_ & Hact & Hgoto).
  assert (Hs : 0 <= xc_state (rc_x c) < nstates).
  { rewrite Hst. destruct (xc_stack (rc_x c)) as [|e0 s0]; [congruence|]. inversion Hall; subst. assumption. }
  pose proof (nsym_in _ Htok) as Ha. specialize (Hact _ _ Hs Ha).
  unfold rstep. rewrite Hnm.
  destruct (m_act m (xc_state (rc_x c)) (t_sym (next_tok eoi (xc_input (rc_x c)))) []) as [q|rule| |row] eqn:Eact.
  - intros E. injection E as <-. unfold rinv. cbn [rc_x xc_stack xc_state xc_input].
    split; [discriminate|]. split; [constructor; [exact Hact|exact Hall]|]. split; [reflexivity|].
    destruct (_ =? 0); [exact Htok|]. eapply suffix_toks; [apply is_suffix_tl|exact Htok].
  - set (ln := Z.to_nat (m_rule_len m rule)).
    destruct (length (xc_stack (rc_x c)) <=? ln)%nat eqn:El; [discriminate|]. apply Nat.leb_gt in El.
    destruct (lhs_range _ _) as [off endoff]. destruct (apply_rule _ _ _ _ _) as [evs endoff'].
    pose proof (Forall_skipn' _ ln _ Hall) as Hall'.
    destruct (skipn ln (xc_stack (rc_x c))) as [|e_b rest'] eqn:Esk.
    { exfalso. pose proof (skipn_length ln (xc_stack (rc_x c))) as Hl. rewrite Esk in Hl. simpl in Hl. lia. }
    assert (Hb : 0 <= x_state e_b < nstates) by (inversion Hall'; subst; assumption).
    destruct (m_goto m (x_state e_b) (m_rule_sym m rule) =? -1) eqn:Est.
    + intros E. eapply handle_error_inv; [exact E| |exact Htok].
      right. eexists _, _. split; [reflexivity|]. split; [apply Z.eqb_eq in Est; exact Est|exact Hall'].
    + intros E. injection E as <-. unfold rinv. cbn [rc_x xc_stack xc_state xc_input].
      split; [discriminate|]. split; [|split; [reflexivity|exact Htok]].
      constructor; [|exact Hall']. unfold st_in. cbn [x_state]. apply Z.eqb_neq in Est.
      destruct (Hgoto _ _ Hb Hact) as [H|H]; [contradiction|exact H].
  - intros E. eapply handle_error_inv; [exact E|left; exact Hall|exact Htok].
  - intros E. eapply handle_error_inv; [exact E|left; exact Hall|exact Htok].
Qed.

Hypothesis Hrt : check_redterm m nstates T NS F = true.
Hypothesis Hso : shift_ok_sound p.
Hypothesis Hend : 0 <= rp_end p.

(* Termination of the recovering parse from the validators: every configuration over table states and terminals *)
Hypothesis Heoi : check_eoi m nstates (rp_end p) = true.

Theorem rrun_terminates_checked : forall c, rinv c -> exists f, fst (rrun_loop f p eh c) <> RFuel.
Proof.
  apply (rrun_terminates_inv p eh Hnm Hso Hend rinv rstep_rinv).
  - intros c Hinv. eapply redterm_terminates; eauto. apply rinv_xinv. exact Hinv.
  - intros c q (Hne & Hall & Hst & _) Hq.
    assert (Hs : 0 <= xc_state (rc_x c) < nstates).
    { rewrite Hst. destruct (xc_stack (rc_x c)) as [|e0 s0]; [congruence|]. inversion Hall; subst. assumption. }
    unfold check_eoi in Heoi. rewrite forallb_forall in Heoi.
    specialize (Heoi _ (proj2 (in_zrange0 _ _) Hs)). rewrite Hq in Heoi. apply Z.eqb_eq in Heoi. exact Heoi.
Qed.

(* the initial configuration of a parse *)
Lemma rinv_init start input : 0 <= start < nstates -> Forall tok_in input ->
  rinv (mkRC (mkXC [mkX 0 0 0 start (TLeaf 0 0 0)] start input []) 0 [] (0, 0)).
Proof.
  intros Hs Ht. unfold rinv. cbn [rc_x xc_stack xc_state xc_input]. split; [discriminate|].
  split; [constructor; [exact Hs|constructor]|]. split; [reflexivity|exact Ht].
Qed.

End I.

(* the statement used by Props/C19.v: every configuration of the invariant, and every parse from a table state *)
Theorem rrun_terminates_validated p eh nstates T NS F :
  lalr1 p -> shift_ok_sound p -> 0 <= rp_end p ->
  check_range (rp_m p) nstates T NS = true -> check_redterm (rp_m p) nstates T NS F = true ->
  check_eoi (rp_m p) nstates (rp_end p) = true ->
  0 <= rp_err_sym p < NS -> m_goto (rp_m p) (-1) (rp_err_sym p) = -1 ->
  (forall c, rinv nstates T c -> exists f, fst (rrun_loop f p eh c) <> RFuel) /\
  (forall start input, 0 <= start < nstates -> Forall (fun t => 0 <= t_sym t < T) input ->
     exists f, fst (rrun f p eh start input) <> RFuel).
Proof.
  intros Hnm Hso Hend Hrg Hrt Heoi Herr Hm1.
  pose proof (rrun_terminates_checked p eh nstates T NS F Hnm Hrg Herr Hm1 Hrt Hso Hend Heoi) as H.
  split; [exact H|]. intros start input Hs Ht. unfold rrun. apply H. apply rinv_init; assumption.
Qed.
