(* C01: certificate generator (untrusted): LR items with LALR(1) lookaheads per state from the reference
   construction of LalrRef.v, plus the items of the augmented rules S'_i -> S_i [EOI].
   Nothing here is trusted: Validator.check judges its output. Executable definitions only. *)
From Coq Require Import List ZArith Bool Arith.
From TM Require Import Gram.Cfg Gram.LalrRef Gram.Validator Gram.ValidatorLive.
Import ListNotations.
Local Open Scope Z_scope.

Definition gen_cert (g : grammar) (fuel : nat) : cert * list Z :=
  let '(a, finals) := build_automaton g fuel in
  let la := lalr_la g a fuel in
  let nr := length (g_rules g) in
  let inputs := combine (seq 0 (length (g_inputs g))) (g_inputs g) in
  let c := map (fun '(q, st) =>
      let cl := closure g (s_kernel st) (s_seed st) in
      let real := if s_kind st =? 0
                  then map (fun it : item => (Z.to_nat (fst it), Z.to_nat (snd it), la_get la q it)) cl else [] in
      let aug := flat_map (fun '(i, (nt, eoi)) =>
          let L := if eoi : bool then [] else all_terms g in
          let last := match trans_target a (Z.of_nat i) nt with Some t => t | None => -1 end in
          (if q =? Z.of_nat i then [((nr + i)%nat, O, L)] else []) ++
          (if q =? last then [((nr + i)%nat, 1%nat, L)] else []) ++
          (if eoi && (q =? nth i finals (-1)) then [((nr + i)%nat, 2%nat, L)] else [])) inputs in
      aug ++ real) (combine (zrange (Z.of_nat (length (a_states a)))) (a_states a)) in
  (c, finals).

Definition validate (g : grammar) (m : Run.machine) (nstates : Z) (finals : list Z) (fuel : nat) : Z :=
  let '(c, _) := gen_cert g fuel in
  check_report g m nstates finals (nullable_set g) (first_sets g) c.

(* the second validator (correct-prefix property) on the same certificate, with the untrusted rank hint *)
Definition validate_live (g : grammar) (nstates : Z) (fuel : nat) : bool :=
  let '(c, _) := gen_cert g fuel in
  check_live g nstates c (live_ranks g c).
