(* C20 (producer half with reported skipped tokens): the stream of the fixWhitespace loop with pending skipped
   tokens (Pending.v) is well nested. Node/node pairs: Events_nest. A skipped token against a node: every offset on
   the stack is the offset/end of a shifted token (at most A, the end of the last shifted token, and not inside a
   skipped token reported so far) or the offset N of the next token; a node reported before a skipped token ends at
   or before A or is the empty range at N; a node reported after it has both ends outside of it. *)
From Coq Require Import List ZArith Bool Arith Lia Permutation.
From TM Require Import Lib.ListX Gram.PTables Gram.Run Gram.Events Gram.Events_proofs Gram.Events_strict Gram.Events_run
  Gram.TreeBuilder Gram.TreeBuilder_proofs Gram.Events_nest Gram.Pending Gram.Pending_sim.
Import ListNotations.
Local Open Scope Z_scope.

(* ---------- pairwise compatibility of a tagged stream, node/node pairs left out ---------- *)
Definition both_nodes (x y : pevent) : Prop := match x, y with PNode _, PNode _ => True | _, _ => False end.
Definition pcompat (x y : pevent) : Prop := both_nodes x y \/ compatible (untag x) (untag y) = true.
Definition skip_ok (x : pevent) : Prop := match x with PSkip s => ev_off s <= ev_end s | PNode _ => True end.
Fixpoint mokp (l : list pevent) : Prop :=
  match l with [] => True | x :: r => skip_ok x /\ Forall (pcompat x) r /\ mokp r end.

Lemma mokp_app a b : mokp (a ++ b) <-> mokp a /\ mokp b /\ Forall (fun x => Forall (pcompat x) b) a.
Proof.
  induction a as [|e a IH]; simpl.
  - split; [intros H; repeat split; [exact H|constructor]|tauto].
  - rewrite IH, Forall_app. split.
    + intros (H1 & (H2 & H3) & H4 & H5 & H6). repeat split; auto.
    + intros ((H1 & H2 & H3) & H4 & H5). inversion H5; subst. repeat split; auto.
Qed.

Lemma in_nodes_of e l : In (PNode e) l -> In e (nodes_of l).
Proof. induction l as [|[x|x] l IH]; simpl; [tauto| |]; intros [H|H]; try discriminate; auto. injection H as ->. auto. Qed.

Lemma in_skips_of e l : In (PSkip e) l -> In e (skips_of l).
Proof. induction l as [|[x|x] l IH]; simpl; [tauto| |]; intros [H|H]; try discriminate; auto. injection H as ->. auto. Qed.

Lemma merge_okp l : mokp l -> okp (nodes_of l) -> okp (map untag l).
Proof.
  induction l as [|x r IH]; intros Hm Hn; [exact I|]. destruct Hm as (H1 & H2 & H3).
  destruct x as [e|s]; simpl in Hn |- *.
  - destruct Hn as (N1 & N2 & N3). split; [exact N1|]. split; [|apply IH; assumption].
    apply Forall_forall. intros y Hy. apply in_map_iff in Hy. destruct Hy as (py & <- & Hpy).
    rewrite Forall_forall in H2. destruct (H2 _ Hpy) as [Hb|Hc]; [|exact Hc].
    destruct py as [e'|s']; [|destruct Hb]. rewrite Forall_forall in N2. apply N2. apply in_nodes_of. exact Hpy.
  - split; [exact H1|]. split; [|apply IH; assumption].
    apply Forall_forall. intros y Hy. apply in_map_iff in Hy. destruct Hy as (py & <- & Hpy).
    rewrite Forall_forall in H2. destruct (H2 _ Hpy) as [Hb|Hc]; [destruct Hb|exact Hc].
Qed.

Lemma mokp_nodes evs : mokp (map PNode evs).
Proof.
  induction evs as [|e evs IH]; simpl; [exact I|]. split; [exact I|]. split; [|exact IH].
  apply Forall_forall. intros y Hy. apply in_map_iff in Hy. destruct Hy as (z & <- & _). left. exact I.
Qed.

(* ---------- ordered token ranges ---------- *)
Lemma ordered_all ls : forall aft, ordered ls aft -> Forall (fun r => fst r < snd r /\ snd r <= aft) ls.
Proof.
  induction ls as [|r ls IH]; intros aft H; [constructor|]. simpl in H. destruct H as (H1 & H2 & H3).
  pose proof (wordered_fst_le _ _ (ordered_wordered _ _ H3)) as Hle. constructor; [lia|]. apply IH. exact H3.
Qed.

Lemma ordered_first_le ls : forall aft, ordered ls aft -> Forall (fun r => fst (span_of ls aft) <= fst r) ls.
Proof.
  induction ls as [|[o e] ls IH]; intros aft H; [constructor|]. simpl in H. destruct H as (H1 & H2 & H3).
  constructor; [simpl; lia|]. specialize (IH aft H3). eapply Forall_impl; [|exact IH]. intros r Hr. simpl in *. lia.
Qed.

Lemma ordered_skips_okp l : forall aft, ordered (map s_range l) aft -> mokp (map PSkip l).
Proof.
  induction l as [|s l IH]; intros aft H; [exact I|]. simpl in H. destruct H as (H1 & H2 & H3).
  simpl. split; [unfold s_off, s_end, ev_off, ev_end in *; lia|]. split; [|apply (IH aft); exact H3].
  pose proof (ordered_first_le _ _ H3) as Hf. apply Forall_forall. intros y Hy. apply in_map_iff in Hy.
  destruct Hy as (z & <- & Hz). right. simpl. apply compat_intro. left.
  rewrite Forall_forall in Hf. specialize (Hf (s_range z) (in_map _ _ _ Hz)). simpl in Hf.
  unfold s_off, s_end, ev_off, ev_end in *. lia.
Qed.

Lemma span_cons_fst o e (l : list range) aft : fst (span_of ((o, e) :: l) aft) = o.
Proof. reflexivity. Qed.

Lemma reals_ordered lex E : ordered (map l_range lex) E ->
  ordered (map tok_range (reals lex)) E /\
  fst (span_of (map l_range lex) E) <= fst (span_of (map tok_range (reals lex)) E).
Proof.
  induction lex as [|[t|s] rest IH]; intros H.
  - simpl. split; [exact I|lia].
  - change (map l_range (LReal t :: rest)) with ((t_off t, t_end t) :: map l_range rest) in *.
    change (reals (LReal t :: rest)) with (t :: reals rest).
    change (map tok_range (t :: reals rest)) with ((t_off t, t_end t) :: map tok_range (reals rest)).
    cbn [ordered fst snd] in H. destruct H as (H1 & H2 & H3). destruct (IH H3) as [I1 I2]. split.
    + cbn [ordered fst snd]. split; [exact H1|]. split; [lia|exact I1].
    + rewrite !span_cons_fst. lia.
  - change (map l_range (LSkip s :: rest)) with ((s_off s, s_end s) :: map l_range rest) in *.
    change (reals (LSkip s :: rest)) with (reals rest).
    cbn [ordered fst snd] in H. destruct H as (H1 & H2 & H3). destruct (IH H3) as [I1 I2]. split; [exact I1|].
    rewrite span_cons_fst. lia.
Qed.

Lemma skipped_in s l : In s (skipped l) -> In (LSkip s) l.
Proof. induction l as [|[t|x] l IH]; simpl; [tauto|auto|]. intros [->|H]; auto. Qed.

Lemma head_real_span lex E : head_real lex -> fst (span_of (map l_range lex) E) = t_off (next_tok E (reals lex)).
Proof. destruct lex as [|[t|s] r]; simpl; intros H; [reflexivity|reflexivity|destruct H]. Qed.

(* ---------- what the offsets on the stack are ---------- *)
Definition nocutF (F : list event) (x : Z) : Prop := Forall (fun s => x <= ev_off s \/ ev_end s <= x) F.
Definition cls (F : list event) (A x : Z) : Prop := x <= A /\ nocutF F x.
Definition oldr (F : list event) (A : Z) (r : range) : Prop := cls F A (fst r) /\ cls F A (snd r).
Definition r_ok (F : list event) (A N : Z) (r : range) : Prop := r = (N, N) \/ oldr F A r.
Definition ev_fine (F : list event) (A N : Z) (e : event) : Prop :=
  (cls F A (ev_off e) \/ ev_off e = N) /\ (cls F A (ev_end e) \/ (ev_off e = N /\ ev_end e = N)).

Lemma fine_compat F A N s e : In s F -> ev_end s <= A -> A <= N -> ev_fine F A N e -> compatible s e = true.
Proof.
  intros Hs HsA HAN [Ho He]. apply compat_intro.
  assert (Co : ev_off e <= ev_off s \/ ev_end s <= ev_off e).
  { destruct Ho as [[_ Ho]|Ho]; [unfold nocutF in Ho; rewrite Forall_forall in Ho; exact (Ho _ Hs)|lia]. }
  assert (Ce : ev_end e <= ev_off s \/ ev_end s <= ev_end e).
  { destruct He as [[_ He]|He]; [unfold nocutF in He; rewrite Forall_forall in He; exact (He _ Hs)|lia]. }
  lia.
Qed.

(* the shape of the ranges applyRule reports, in terms of the right-hand side ranges *)
Definition inV (rhs : list range) (x : Z) : Prop := x = 0 \/ exists r, In r rhs /\ (x = fst r \/ x = snd r).
Definition ev_shape (rhs : list range) (o e : Z) : Prop :=
  inV rhs o /\ (e = o \/ (exists r, In r rhs /\ is_empty r = false /\ e = snd r) \/ (exists r, In r rhs /\ o = fst r /\ e = snd r)).

Lemma trim_cons2 r r' t : trim_trailing (r :: r' :: t) = if is_empty r then trim_trailing (r' :: t) else r :: r' :: t.
Proof. reflexivity. Qed.

Lemma trim_hd l : l <> [] ->
  In (hd rdummy (trim_trailing l)) l /\
  (is_empty (hd rdummy (trim_trailing l)) = false \/ hd rdummy (trim_trailing l) = last l rdummy).
Proof.
  induction l as [|r l IH]; intros Hne; [congruence|]. destruct l as [|r' t].
  - simpl. split; [left; reflexivity|right; reflexivity].
  - rewrite trim_cons2. destruct (is_empty r) eqn:Er.
    + specialize (IH ltac:(discriminate)). destruct IH as [I1 I2].
      split; [right; exact I1|]. destruct I2 as [I2|I2]; [left; exact I2|right].
      change (last (r :: r' :: t) rdummy) with (last (r' :: t) rdummy). exact I2.
    + cbn [hd]. split; [left; reflexivity|left; exact Er].
Qed.

Lemma last_rev_hd {A} (l : list A) d : last (rev l) d = hd d l.
Proof. destruct l as [|a l]; [reflexivity|]. simpl. apply last_last. Qed.

Lemma report_event_shape rhs rep :
  ev_shape rhs (ev_off (report_event true rhs rep)) (ev_end (report_event true rhs rep)).
Proof.
  destruct rep as [[s e] ty]. unfold report_event. destruct (Nat.eqb s e).
  - unfold ev_off, ev_end. cbn [fst snd]. split; [|left; reflexivity].
    destruct (nth_in_or_default e rhs rdummy) as [Hin|Hd].
    + right. exists (nth e rhs rdummy). split; [exact Hin|left; reflexivity].
    + left. rewrite Hd. reflexivity.
  - unfold report_range. set (part := firstn (e - s) (skipn s rhs)).
    assert (Hincl : forall r, In r part -> In r rhs).
    { intros r Hr. unfold part in Hr. apply In_firstn in Hr. eapply In_skipn. exact Hr. }
    unfold ev_off, ev_end. cbn [fst snd]. destruct part as [|p1 ps] eqn:Ep.
    + simpl. split; [left; reflexivity|left; reflexivity].
    + assert (Hne : rev (p1 :: ps) <> []). { simpl. destruct (rev ps); discriminate. }
      pose proof (trim_hd _ Hne) as T. rewrite last_rev_hd in T. destruct T as [T1 T2].
      apply in_rev in T1. cbn [hd] in *. split.
      * right. exists p1. split; [apply Hincl; left; reflexivity|left; reflexivity].
      * destruct T2 as [T2|T2].
        -- right. left. eexists. split; [apply Hincl; exact T1|]. split; [exact T2|reflexivity].
        -- right. right. exists p1. split; [apply Hincl; left; reflexivity|]. rewrite T2. split; reflexivity.
Qed.

Lemma lne_some l : forall e, last_nonempty_end l = Some e -> exists r, In r l /\ is_empty r = false /\ e = snd r.
Proof.
  induction l as [|r l IH]; intros e H; simpl in H; [discriminate|]. destruct (is_empty r) eqn:Er.
  - destruct (IH _ H) as (r' & H1 & H2 & H3). exists r'. split; [right; exact H1|]. split; assumption.
  - injection H as <-. exists r. split; [left; reflexivity|]. split; [exact Er|reflexivity].
Qed.

Lemma fix_trailing_shape rhs off endoff : rhs <> [] ->
  fix_trailing rhs off endoff = off \/ exists r, In r rhs /\ is_empty r = false /\ fix_trailing rhs off endoff = snd r.
Proof.
  intros Hne. unfold fix_trailing. destruct rhs as [|r0 rhs0]; [congruence|].
  destruct (last_nonempty_end (rev (r0 :: rhs0))) as [e|] eqn:El; [|left; reflexivity].
  right. destruct (lne_some _ _ El) as (r & H1 & H2 & H3). exists r. split; [apply in_rev; exact H1|]. split; assumption.
Qed.

Section Fine.
Variable F : list event.
Variables A N : Z.
Hypothesis H0 : cls F A 0.
Hypothesis HN : nocutF F N.
Hypothesis HAN : A <= N.

Lemma r_ok_vals r : r_ok F A N r -> (cls F A (fst r) \/ fst r = N) /\ (cls F A (snd r) \/ snd r = N).
Proof. intros [->|[H1 H2]]; simpl; auto. Qed.

Lemma shape_fine rhs ty o e : Forall (r_ok F A N) rhs -> ev_shape rhs o e -> ev_fine F A N (ty, o, e).
Proof.
  intros Hok [Ho He]. rewrite Forall_forall in Hok. unfold ev_fine, ev_off, ev_end. cbn [fst snd].
  assert (Vo : cls F A o \/ o = N).
  { destruct Ho as [->|(r & Hr & [->| ->])]; [left; exact H0| |]; apply (r_ok_vals r (Hok _ Hr)). }
  split; [exact Vo|].
  destruct He as [->|[(r & Hr & Hemp & ->)|(r & Hr & -> & ->)]].
  - destruct Vo as [Vo|Vo]; [left; exact Vo|right; split; [exact Vo|exact Vo]].
  - destruct (Hok _ Hr) as [->|[_ H2]]; [unfold is_empty in Hemp; simpl in Hemp; rewrite Z.eqb_refl in Hemp; discriminate|].
    left. exact H2.
  - destruct (Hok _ Hr) as [->|[_ H2]]; [right; split; reflexivity|left; exact H2].
Qed.

Lemma apply_rule_fine er rhs off endoff evs e' :
  Forall (r_ok F A N) rhs ->
  (forall first more, rhs = first :: more -> Forall (fun r => fst first <= fst r) rhs) ->
  (er_trailing_nulls er = false -> rhs <> [] -> oldr F A (last rhs rdummy)) ->
  lhs_range rhs N = (off, endoff) -> apply_rule true er rhs off endoff = (evs, e') ->
  Forall (ev_fine F A N) evs /\ r_ok F A N (off, e') /\ ((exists r, In r rhs /\ oldr F A r) -> oldr F A (off, e')).
Proof.
  intros Hok Hfirst Hwf Hlhs Happ. unfold apply_rule in Happ. cbn [andb] in Happ. injection Happ as <- <-.
  set (e' := if er_trailing_nulls er then fix_trailing rhs off endoff else endoff).
  assert (M : r_ok F A N (off, e') /\ ((exists r, In r rhs /\ oldr F A r) -> oldr F A (off, e')) /\
              forall ty, ev_fine F A N (ty, off, e')).
  { destruct rhs as [|first more] eqn:Erhs.
    - simpl in Hlhs. injection Hlhs as <- <-.
      assert (Ee : e' = N) by (unfold e'; destruct (er_trailing_nulls er); reflexivity). rewrite Ee.
      split; [left; reflexivity|]. split; [intros (r & [] & _)|].
      intros ty. unfold ev_fine, ev_off, ev_end. cbn [fst snd]. split; [right; reflexivity|right; split; reflexivity].
    - rewrite <- Erhs in *. assert (Hne : rhs <> []) by (rewrite Erhs; discriminate).
      assert (Eoff : off = fst first /\ endoff = snd (last rhs rdummy)).
      { rewrite Erhs in Hlhs. cbn [lhs_range] in Hlhs. injection Hlhs as <- <-. rewrite Erhs. split; reflexivity. }
      destruct Eoff as [Eoff Eend].
      assert (Hfin : In first rhs) by (rewrite Erhs; left; reflexivity).
      assert (Hlast : In (last rhs rdummy) rhs).
      { rewrite Erhs. clear. revert first. induction more as [|b more IH]; intros a; [left; reflexivity|].
        right. apply (IH b). }
      rewrite Forall_forall in Hok.
      (* e' is off, the end of a non-empty entry, or (no trailing nulls) the end of the last entry, which is old *)
      assert (He' : e' = off \/ (exists r, In r rhs /\ oldr F A r /\ e' = snd r)).
      { unfold e'. rewrite <- ?Erhs. destruct (er_trailing_nulls er) eqn:Etn.
        - destruct (fix_trailing_shape rhs off endoff Hne) as [->|(r & Hr & Hemp & ->)]; [left; reflexivity|].
          right. exists r. split; [exact Hr|]. split; [|reflexivity].
          destruct (Hok _ Hr) as [->|Ho]; [unfold is_empty in Hemp; simpl in Hemp; rewrite Z.eqb_refl in Hemp; discriminate|exact Ho].
        - right. exists (last rhs rdummy). split; [exact Hlast|]. split; [apply Hwf; [reflexivity|exact Hne]|exact Eend]. }
      clearbody e'.
      destruct (Hok _ Hfin) as [EN|Hold].
      + (* the first entry is the empty range at N *)
        assert (EoffN : off = N) by (rewrite Eoff, EN; reflexivity).
        destruct (Z_le_gt_dec N A) as [HNA|HNA].
        * assert (CN : cls F A N) by (split; [exact HNA|exact HN]).
          assert (Ce : cls F A e').
          { destruct He' as [->|(r & _ & [_ Hr2] & ->)]; [rewrite EoffN; exact CN|exact Hr2]. }
          rewrite EoffN. split; [right; split; [exact CN|exact Ce]|]. split; [intros _; split; [exact CN|exact Ce]|].
          intros ty. unfold ev_fine, ev_off, ev_end. cbn [fst snd]. split; [left; exact CN|left; exact Ce].
        * assert (Hnone : forall r, In r rhs -> ~ oldr F A r).
          { intros r Hr [[Hr1 _] _]. specialize (Hfirst _ _ Erhs). rewrite Forall_forall in Hfirst.
            specialize (Hfirst _ Hr). rewrite EN in Hfirst. simpl in Hfirst. lia. }
          assert (Ee : e' = N).
          { destruct He' as [->|(r & Hr & Ho & _)]; [exact EoffN|]. exfalso. exact (Hnone _ Hr Ho). }
          rewrite Ee, EoffN. split; [left; reflexivity|]. split; [intros (r & Hr & Ho); exfalso; exact (Hnone _ Hr Ho)|].
          intros ty. unfold ev_fine, ev_off, ev_end. cbn [fst snd]. split; [right; reflexivity|right; split; reflexivity].
      + assert (Co : cls F A off) by (rewrite Eoff; exact (proj1 Hold)).
        assert (Ce : cls F A e').
        { destruct He' as [->|(r & _ & [_ Hr2] & ->)]; [exact Co|exact Hr2]. }
        split; [right; split; [exact Co|exact Ce]|]. split; [intros _; split; [exact Co|exact Ce]|].
        intros ty. unfold ev_fine, ev_off, ev_end. cbn [fst snd]. split; [left; exact Co|left; exact Ce]. }
  destruct M as (M1 & M2 & M3). split; [|split; [exact M1|exact M2]].
  apply Forall_app. split.
  - apply Forall_forall. intros x Hx. apply in_map_iff in Hx. destruct Hx as (rep & <- & _).
    pose proof (report_event_shape rhs rep) as Sh.
    destruct (report_event true rhs rep) as [[ty o] e]. unfold ev_off, ev_end in Sh. cbn [fst snd] in Sh.
    apply (shape_fine rhs); assumption.
  - destruct (er_type er =? 0); constructor; [apply M3|constructor].
Qed.

End Fine.

Ltac blia := cbv beta in *; lia.

(* ---------- the invariant of the loop ---------- *)
Definition U_of (c : pconfig) : list event := pc_pending c ++ skipped (pc_lex c).
Definition R_of (c : pconfig) : list range := map s_range (pc_pending c) ++ map l_range (pc_lex c).
Definition N_of (E : Z) (c : pconfig) : Z := t_off (next_tok E (reals (pc_lex c))).
Definition F_of (c : pconfig) : list event := skips_of (pc_events c).

Fixpoint mono (st : list xentry) (hi : Z) : Prop :=
  match st with [] => True | e :: rest => x_off e <= hi /\ mono rest (x_off e) end.

(* A: the end of the last shifted token *)
Record Inv (E A : Z) (c : pconfig) : Prop := mkInv {
  i_nz : Forall (fun t => t_sym t <> 0) (reals (pc_lex c));
  i_ord : ordered (R_of c) E;
  i_U : Forall (fun s => A <= ev_off s) (U_of c);
  i_F : Forall (fun s => 0 <= ev_off s /\ ev_end s <= A) (F_of c);
  i_A : 0 <= A <= N_of E c;
  i_st : Forall (fun e => r_ok (F_of c) A (N_of E c) (range_of e)) (pc_stack c);
  i_mono : mono (pc_stack c) (N_of E c);
  i_tree : Forall (fun e => leaves (x_tree e) <> [] -> oldr (F_of c) A (range_of e)) (pc_stack c);
  i_m : mokp (pc_events c);
  i_P : Forall (fun e => ev_end e <= A \/ (ev_off e = N_of E c /\ ev_end e = N_of E c)) (nodes_of (pc_events c))
}.

Lemma Inv_ext E A c c2 : Inv E A c -> reals (pc_lex c2) = reals (pc_lex c) -> R_of c2 = R_of c -> U_of c2 = U_of c ->
  pc_stack c2 = pc_stack c -> pc_events c2 = pc_events c -> Inv E A c2.
Proof.
  intros [H1 H2 H3 H4 H5 H6 H7 H8 H9 H10] E1 E2 E3 E4 E5.
  constructor; unfold N_of, F_of in *; rewrite ?E1, ?E2, ?E3, ?E4, ?E5; assumption.
Qed.

Lemma mono_split n : forall st hi, mono st hi ->
  mono (skipn n st) (match rev (firstn n st) with [] => hi | f :: _ => x_off f end) /\
  Forall (fun e => (match rev (firstn n st) with [] => hi | f :: _ => x_off f end) <= x_off e <= hi) (firstn n st) /\
  (match rev (firstn n st) with [] => hi | f :: _ => x_off f end) <= hi.
Proof.
  induction n as [|n IH]; intros st hi Hm.
  - simpl. split; [exact Hm|]. split; [constructor|blia].
  - destruct st as [|e rest].
    + simpl. split; [exact I|]. split; [constructor|blia].
    + destruct Hm as [Hm1 Hm2]. specialize (IH rest (x_off e) Hm2). cbn [firstn rev skipn].
      assert (Elo : match rev (firstn n rest) ++ [e] with [] => hi | f :: _ => x_off f end =
                    match rev (firstn n rest) with [] => x_off e | f :: _ => x_off f end).
      { destruct (rev (firstn n rest)); reflexivity. }
      rewrite Elo. destruct IH as (I1 & I2 & I3). split; [exact I1|]. split; [|blia].
      constructor; [blia|]. eapply Forall_impl; [|exact I2]. intros x Hx. cbv beta in Hx. blia.
Qed.

Lemma last_map_ne {X Y} (f : X -> Y) (l : list X) d d2 : l <> [] -> last (map f l) d = f (last l d2).
Proof.
  induction l as [|a l IH]; intros Hne; [congruence|]. destruct l as [|b l]; [reflexivity|].
  change (last (map f (a :: b :: l)) d) with (last (map f (b :: l)) d).
  change (last (a :: b :: l) d2) with (last (b :: l) d2). apply IH. discriminate.
Qed.

Lemma last_in {X} (l : list X) d : l <> [] -> In (last l d) l.
Proof.
  induction l as [|a l IH]; intros Hne; [congruence|]. destruct l as [|b l]; [left; reflexivity|].
  right. apply IH. discriminate.
Qed.

Lemma forest_leaves_ne l : forest_leaves l <> [] -> exists t, In t l /\ leaves t <> [].
Proof.
  induction l as [|t l IH]; intros H; [exfalso; apply H; reflexivity|].
  destruct (leaves t) as [|x xs] eqn:El.
  - unfold forest_leaves in *. simpl in H. rewrite El in H. simpl in H. destruct (IH H) as (t' & H1 & H2).
    exists t'. split; [right; exact H1|exact H2].
  - exists t. split; [left; reflexivity|]. rewrite El. discriminate.
Qed.

Lemma inv_cls0 E A c : Inv E A c -> cls (F_of c) A 0.
Proof.
  intros HI. split; [exact (proj1 (i_A _ _ _ HI))|]. eapply Forall_impl; [|exact (i_F _ _ _ HI)].
  intros s [Hs _]. left. exact Hs.
Qed.

Lemma inv_nocutN E A c : Inv E A c -> nocutF (F_of c) (N_of E c).
Proof.
  intros HI. pose proof (proj2 (i_A _ _ _ HI)) as HA. eapply Forall_impl; [|exact (i_F _ _ _ HI)].
  intros s [_ Hs]. right. blia.
Qed.

Lemma inv_reduce E A rl evt stk sta lex pend evs0 rule ln off endoff evs endoff' st sym :
  Inv E A (mkPC stk sta lex pend evs0) -> (ln < length stk)%nat ->
  lhs_range (map range_of (rev (firstn ln stk))) (N_of E (mkPC stk sta lex pend evs0)) = (off, endoff) ->
  apply_rule true (ev_at evt rule) (map range_of (rev (firstn ln stk))) off endoff = (evs, endoff') ->
  wf_tree evt rl (TNode rule (map x_tree (rev (firstn ln stk)))) ->
  Inv E A (mkPC (mkX sym off endoff' st (TNode rule (map x_tree (rev (firstn ln stk)))) :: skipn ln stk) st lex pend
                (evs0 ++ map PNode evs)).
Proof.
  intros HI Hln Hlhs Happ Hwf.
  pose proof (inv_cls0 _ _ _ HI) as H0c. pose proof (inv_nocutN _ _ _ HI) as HNc.
  destruct HI as [H1 H2 H3 H4 H5 H6 H7 H8 H9 H10].
  set (c := mkPC stk sta lex pend evs0) in *. set (F := F_of c) in *. set (N := N_of E c) in *.
  cbn [pc_stack pc_events] in H6, H7, H8, H9, H10.
  set (rhs := rev (firstn ln stk)) in *.
  destruct (mono_split ln stk N H7) as (M1 & M2 & M3). fold rhs in M1, M2, M3.
  assert (Hin : forall e, In e rhs -> In e stk).
  { intros e He. unfold rhs in He. apply in_rev in He. eapply In_firstn. exact He. }
  assert (Hok : Forall (r_ok F A N) (map range_of rhs)).
  { apply Forall_forall. intros r Hr. apply in_map_iff in Hr. destruct Hr as (e & <- & He).
    rewrite Forall_forall in H6. apply H6. apply Hin. exact He. }
  assert (Hfirst : forall first more, map range_of rhs = first :: more -> Forall (fun r => fst first <= fst r) (map range_of rhs)).
  { intros first more Erhs. apply Forall_forall. intros r Hr. apply in_map_iff in Hr. destruct Hr as (e & <- & He).
    destruct rhs as [|f rest'] eqn:Er; [destruct He|]. simpl in Erhs. injection Erhs as <- _. simpl.
    rewrite Forall_forall in M2. assert (He' : In e (firstn ln stk)).
    { apply in_rev. fold rhs. rewrite Er. exact He. }
    specialize (M2 _ He'). cbv beta in M2. blia. }
  assert (Hlite : er_trailing_nulls (ev_at evt rule) = false -> map range_of rhs <> [] -> oldr F A (last (map range_of rhs) rdummy)).
  { intros Hfl Hne. assert (Hne' : rhs <> []) by (intros E0; apply Hne; rewrite E0; reflexivity).
    inversion Hwf as [|? ? _ _ _ _ Htr]; subst.
    assert (Hne2 : map x_tree rhs <> []) by (intros E0; apply Hne'; destruct rhs; [reflexivity|discriminate]).
    specialize (Htr Hfl Hne2). rewrite (last_map_ne x_tree rhs _ xdummy Hne') in Htr.
    rewrite (last_map_ne range_of rhs _ xdummy Hne'). rewrite Forall_forall in H8. apply H8; [|exact Htr].
    apply Hin. apply last_in. exact Hne'. }
  destruct (apply_rule_fine F A N H0c HNc _ _ _ _ _ _ Hok Hfirst Hlite Hlhs Happ) as (Fine & Rok & Old).
  assert (Eoff : off = match rhs with [] => N | f :: _ => x_off f end).
  { destruct rhs as [|f rest']; simpl in Hlhs; injection Hlhs as <- _; reflexivity. }
  constructor; cbn [pc_stack pc_state pc_lex pc_pending pc_events]; unfold F_of, N_of, U_of, R_of;
    cbn [pc_stack pc_state pc_lex pc_pending pc_events];
    rewrite ?skips_of_app, ?skips_of_PNode, ?app_nil_r, ?nodes_of_app, ?nodes_of_PNode.
  - exact H1.
  - exact H2.
  - exact H3.
  - exact H4.
  - exact H5.
  - constructor; [exact Rok|apply Forall_skipn'; exact H6].
  - cbn [mono x_off]. rewrite Eoff. split; [exact M3|exact M1].
  - constructor; [|apply Forall_skipn'; exact H8]. cbn [x_tree range_of x_off x_end]. rewrite leaves_node. intros Hl.
    destruct (forest_leaves_ne _ Hl) as (t & Ht & Hlt). apply in_map_iff in Ht. destruct Ht as (e & <- & He).
    apply Old. exists (range_of e). split; [apply in_map; exact He|].
    rewrite Forall_forall in H8. apply H8; [apply Hin; exact He|exact Hlt].
  - apply mokp_app. split; [exact H9|]. split; [apply mokp_nodes|].
    apply Forall_forall. intros x Hx. apply Forall_forall. intros y Hy. apply in_map_iff in Hy. destruct Hy as (e & <- & He).
    destruct x as [e0|s]; [left; exact I|]. right. simpl. rewrite Forall_forall in Fine, H4.
    apply in_skips_of in Hx. apply (fine_compat F A N); [exact Hx|exact (proj2 (H4 _ Hx))|exact (proj2 H5)|apply Fine; exact He].
  - apply Forall_app. split; [exact H10|]. eapply Forall_impl; [|exact Fine]. intros e [_ [[He _]|He]]; [left; exact He|right; exact He].
Qed.

Lemma inv_shift E A stk sta lex pend evs0 sym nend q lex2 :
  Inv E A (mkPC stk sta lex pend evs0) -> N_of E (mkPC stk sta lex pend evs0) <= nend ->
  Forall (fun s => ev_end s <= N_of E (mkPC stk sta lex pend evs0)) pend ->
  ordered (map s_range pend) (N_of E (mkPC stk sta lex pend evs0)) ->
  Forall (fun t => t_sym t <> 0) (reals lex2) -> ordered (map l_range lex2) E ->
  Forall (fun s => nend <= ev_off s) (skipped lex2) ->
  nend <= t_off (next_tok E (reals lex2)) ->
  Inv E nend (mkPC (mkX sym (N_of E (mkPC stk sta lex pend evs0)) nend q (TLeaf sym (N_of E (mkPC stk sta lex pend evs0)) nend) :: stk)
                   q lex2 [] (evs0 ++ map PSkip pend)).
Proof.
  intros HI Hle Hpe Hpo Hnz Hord HU' HN'.
  destruct HI as [H1 H2 H3 H4 H5 H6 H7 H8 H9 H10].
  set (c := mkPC stk sta lex pend evs0) in *. set (F := F_of c) in *. set (N := N_of E c) in *.
  cbn [pc_stack pc_events] in H6, H7, H8, H9, H10.
  unfold U_of in H3. cbn [pc_pending pc_lex] in H3. apply Forall_app in H3. destruct H3 as [H3 _].
  assert (K1 : forall x, cls F A x -> cls (F ++ pend) nend x).
  { intros x [Hx1 Hx2]. split; [blia|]. apply Forall_app. split; [exact Hx2|].
    eapply Forall_impl; [|exact H3]. intros s Hs. left. blia. }
  assert (K2 : forall x, N <= x <= nend -> cls (F ++ pend) nend x).
  { intros x Hx. split; [blia|]. apply Forall_app. split.
    - eapply Forall_impl; [|exact H4]. intros s [_ Hs]. right. blia.
    - eapply Forall_impl; [|exact Hpe]. intros s Hs. right. blia. }
  assert (K3 : forall r, r_ok F A N r -> oldr (F ++ pend) nend r).
  { intros r [->|[Hr1 Hr2]]; split; simpl; auto; apply K2; blia. }
  constructor; cbn [pc_stack pc_state pc_lex pc_pending pc_events]; unfold F_of, N_of, U_of, R_of;
    cbn [pc_stack pc_state pc_lex pc_pending pc_events];
    rewrite ?skips_of_app, ?skips_of_PSkip, ?nodes_of_app, ?nodes_of_PSkip, ?app_nil_r; cbn [app map].
  - exact Hnz.
  - exact Hord.
  - exact HU'.
  - apply Forall_app. split.
    + eapply Forall_impl; [|exact H4]. intros s [Hs1 Hs2]. split; [exact Hs1|blia].
    + apply Forall_forall. intros s Hs. rewrite Forall_forall in H3, Hpe. specialize (H3 _ Hs). specialize (Hpe _ Hs). blia.
  - blia.
  - constructor.
    + right. split; cbn [range_of x_off x_end fst snd]; apply K2; blia.
    + eapply Forall_impl; [|exact H6]. intros e He. right. apply K3. exact He.
  - cbn [mono x_off]. split; [blia|exact H7].
  - constructor.
    + intros _. split; cbn [range_of x_off x_end fst snd]; apply K2; blia.
    + eapply Forall_impl; [|exact H6]. intros e He _. apply K3. exact He.
  - apply mokp_app. split; [exact H9|]. split; [apply (ordered_skips_okp _ _ Hpo)|].
    apply Forall_forall. intros x Hx. apply Forall_forall. intros y Hy. apply in_map_iff in Hy. destruct Hy as (s & <- & Hs).
    right. simpl. apply compat_intro. rewrite Forall_forall in H3, Hpe. specialize (H3 _ Hs). specialize (Hpe _ Hs).
    destruct x as [e|s0]; simpl.
    + apply in_nodes_of in Hx. rewrite Forall_forall in H10. destruct (H10 _ Hx) as [He|[He1 He2]]; [left; blia|right; left; blia].
    + apply in_skips_of in Hx. rewrite Forall_forall in H4. destruct (H4 _ Hx) as [_ Hs0]. left. blia.
  - eapply Forall_impl; [|exact H10]. intros e [He|[He1 He2]]; left; blia.
Qed.

Lemma flush_all e : forall p, Forall (fun s => ev_end s <= e) p -> flush p e = (p, []).
Proof.
  induction p as [|s p IH]; intros H; [reflexivity|]. inversion H as [|? ? Hs Hp]; subst. simpl.
  change (s_end s) with (ev_end s). destruct (ev_end s >? e) eqn:Eg; [apply Z.gtb_lt in Eg; blia|].
  rewrite (IH Hp). reflexivity.
Qed.

Section Loop.
Variable m : machine.
Variable evt : ev_table.
Variable rl : Z -> Z.
Variable E : Z.

Definition WFs (c : pconfig) : Prop := Forall (fun e => wf_tree evt rl (x_tree e)) (pc_stack c).

Lemma pstep_inv A c c' : Inv E A c -> pstep m evt true E c = PContinue c' -> WFs c' -> exists A', Inv E A' c'.
Proof.
  destruct c as [stk sta lx pd evs0]. intros HI. unfold pstep. cbn [pc_stack pc_state pc_lex pc_pending pc_events].
  destruct (fetch_next pd lx) as [pend lex] eqn:Ef.
  destruct (fetch_next_spec _ _ _ _ Ef) as (Hr & Hs & HR & Hh).
  assert (HI2 : Inv E A (mkPC stk sta lex pend evs0)).
  { apply (Inv_ext E A _ _ HI); try reflexivity; [exact Hr|exact HR|exact Hs]. }
  clear HI Ef Hr Hs HR.
  destruct (m_act m sta (t_sym (next_tok E (reals lex))) (map t_sym (tl (reals lex)))) as [q|rule| |row]; try discriminate.
  - (* shift *)
    pose proof (i_ord _ _ _ HI2) as Ho. unfold R_of in Ho. cbn [pc_pending pc_lex] in Ho. apply ordered_app in Ho.
    destruct Ho as [Ho1 Ho2]. rewrite (head_real_span _ _ Hh) in Ho1.
    assert (Hpe : Forall (fun s => ev_end s <= t_off (next_tok E (reals lex))) pend).
    { pose proof (ordered_all _ _ Ho1) as Hall. apply Forall_forall. intros s Hs. rewrite Forall_forall in Hall.
      destruct (Hall (s_range s) (in_map _ _ _ Hs)) as [_ H]. exact H. }
    pose proof (i_nz _ _ _ HI2) as Hnz. cbn [pc_lex] in Hnz.
    destruct lex as [|[t|s] r]; [| |destruct Hh].
    + (* end of input *)
      cbn [reals next_tok t_sym t_off t_end] in *.
      rewrite (flush_all E pend Hpe). rewrite Z.eqb_refl. intros Heq _. injection Heq as <-. exists E.
      apply (inv_shift E A stk sta [] pend evs0 0 E q []); try assumption; try apply Z.le_refl; try apply Forall_nil; try exact I.
    + cbn [reals next_tok] in *. inversion Hnz as [|? ? Ht Hnz']; subst.
      cbn [map l_range ordered fst snd] in Ho2. destruct Ho2 as (T1 & T2 & T3).
      assert (Hpe' : Forall (fun s => ev_end s <= t_end t) pend).
      { eapply Forall_impl; [|exact Hpe]. intros s Hs. cbv beta in Hs. blia. }
      rewrite (flush_all _ pend Hpe'). destruct (t_sym t =? 0) eqn:E0; [apply Z.eqb_eq in E0; congruence|].
      intros Heq _. injection Heq as <-. exists (t_end t). cbn [tl].
      apply (inv_shift E A stk sta (LReal t :: r) pend evs0 (t_sym t) (t_end t) q r); try assumption.
      * unfold N_of. cbn [pc_lex reals next_tok]. blia.
      * pose proof (ordered_first_le _ _ T3) as Hf. apply Forall_forall. intros s Hs. apply skipped_in in Hs.
        rewrite Forall_forall in Hf. specialize (Hf _ (in_map l_range _ _ Hs)). simpl in Hf. unfold s_off in Hf.
        unfold ev_off. blia.
      * rewrite next_off_span. destruct (reals_ordered _ _ T3) as [_ Hle]. blia.
  - (* reduce *)
    destruct (length stk <=? Z.to_nat (m_rule_len m rule))%nat eqn:El; [discriminate|]. apply Nat.leb_gt in El.
    destruct (lhs_range _ _) as [off endoff] eqn:Elhs. destruct (apply_rule _ _ _ _ _) as [evs endoff'] eqn:Eapp.
    destruct (_ =? -1); [discriminate|]. intros Heq Hwf. injection Heq as <-. exists A.
    unfold WFs in Hwf. cbn [pc_stack] in Hwf. inversion Hwf as [|? ? Hwn _]; subst. cbn [x_tree] in Hwn.
    eapply inv_reduce; eauto.
Qed.

Lemma pstep_back fixws c c' : pstep m evt fixws E c = PContinue c' -> WFs c' -> WFs c.
Proof.
  destruct c as [stk sta lx pd evs0]. unfold pstep, WFs. cbn [pc_stack pc_state pc_lex pc_pending pc_events].
  destruct (fetch_next pd lx) as [pend lex].
  destruct (m_act m sta (t_sym (next_tok E (reals lex))) (map t_sym (tl (reals lex)))) as [q|rule| |row]; try discriminate.
  - destruct (flush pend _) as [rep kept]. intros Heq. injection Heq as <-. cbn [pc_stack]. intros H. inversion H; assumption.
  - destruct (length stk <=? Z.to_nat (m_rule_len m rule))%nat; [discriminate|].
    destruct (lhs_range _ _) as [off endoff]. destruct (apply_rule _ _ _ _ _) as [evs endoff'].
    destruct (_ =? -1); [discriminate|]. intros Heq. injection Heq as <-. cbn [pc_stack]. intros H.
    inversion H as [|? ? Hn Hr]; subst. cbn [x_tree] in Hn. inversion Hn as [|? ? Hch _ _ _ _]; subst.
    rewrite <- (firstn_skipn (Z.to_nat (m_rule_len m rule)) stk). apply Forall_app. split; [|exact Hr].
    apply Forall_forall. intros e He. rewrite Forall_forall in Hch. apply Hch. apply in_map. apply -> in_rev. exact He.
Qed.

Lemma ploop_back fixws end_state fuel : forall c o c',
  pxrun_loop fuel m evt fixws E end_state c = (o, c') -> WFs c' -> WFs c.
Proof.
  induction fuel as [|f IH]; intros c o c' H Hw; cbn [pxrun_loop] in H.
  - injection H as _ <-. exact Hw.
  - destruct (pc_state c =? end_state); [injection H as _ <-; exact Hw|].
    destruct (pstep m evt fixws E c) as [c1|o1] eqn:Es; [|injection H as _ <-; exact Hw].
    eapply pstep_back; [exact Es|]. eapply IH; eauto.
Qed.

Lemma ploop_inv end_state fuel : forall c o c' A, Inv E A c ->
  pxrun_loop fuel m evt true E end_state c = (o, c') -> WFs c' -> exists A', Inv E A' c'.
Proof.
  induction fuel as [|f IH]; intros c o c' A HI H Hw; cbn [pxrun_loop] in H.
  - injection H as _ <-. exists A. exact HI.
  - destruct (pc_state c =? end_state); [injection H as _ <-; exists A; exact HI|].
    destruct (pstep m evt true E c) as [c1|o1] eqn:Es; [|injection H as _ <-; exists A; exact HI].
    destruct (pstep_inv A c c1 HI Es (ploop_back _ _ _ _ _ _ H Hw)) as [A1 HI1].
    eapply IH; eauto.
Qed.

End Loop.

(* the node stream of Events.xrun, with the pairwise (Prop) form of ok_events: the proof of Events_nest.xrun_events_nested *)
Lemma xrun_events_okp m evt rl eoi_off fuel start end_state input o c' :
  nested_table evt ->
  Forall (fun t => t_sym t <> 0) input ->
  ordered (map tok_range input) eoi_off ->
  Forall (fun t => 0 <= t_off t) input -> 0 <= eoi_off ->
  xrun fuel m evt true start end_state eoi_off input = (o, c') ->
  Forall (fun e => wf_tree evt rl (x_tree e)) (xc_stack c') ->
  Forall (fun e => is_leaf (x_tree e) \/ ~ In (eoi_off, eoi_off) (leaves (x_tree e))) (xc_stack c') ->
  okp (xc_events c') /\ Forall (fun ev => 0 <= ev_off ev /\ ev_end ev <= eoi_off) (xc_events c').
Proof.
  intros Hnest Hnz Hord Hpos Hpos0 Hrun Hwf Hlf. unfold xrun in Hrun.
  assert (Hinv : xinv evt true eoi_off input c').
  { eapply xrun_inv; [apply xinv_init; exact Hnz|exact Hrun]. }
  destruct Hinv as (_ & lvs & k & Hs & Hstream & _).
  set (E := eoi_off) in *.
  assert (W : wordered (map tok_range input ++ repeat (E, E) k) E).
  { apply wordered_app. destruct (wordered_repeat E k) as [W1 W2]. rewrite W2. split; [apply ordered_wordered; exact Hord|exact W1]. }
  assert (N : Forall (fun r => fst r < snd r \/ r = (E, E)) (map tok_range input ++ repeat (E, E) k)).
  { apply Forall_app. split.
    - eapply Forall_impl; [|exact (ordered_Forall_ne _ _ Hord)]. intros r Hr. left. exact Hr.
    - apply Forall_forall. intros r Hr. right. apply repeat_spec in Hr. exact Hr. }
  assert (P : Forall (fun r => 0 <= fst r) (map tok_range input ++ repeat (E, E) k)).
  { apply Forall_app. split.
    - apply Forall_forall. intros r Hr. apply in_map_iff in Hr. destruct Hr as (t & <- & Ht).
      rewrite Forall_forall in Hpos. simpl. apply Hpos. exact Ht.
    - apply Forall_forall. intros r Hr. apply repeat_spec in Hr. subst r. exact Hpos0. }
  rewrite <- Hstream in W, N, P.
  apply wordered_app in W. destruct W as [W1 W2]. apply Forall_app in N. destruct N as [N1 _].
  apply Forall_app in P. destruct P as [P1 P2].
  unfold next_off in Hs. rewrite next_off_span in Hs.
  set (aft := fst (span_of (map tok_range (xc_input c')) E)) in *.
  assert (Ha0 : 0 <= aft) by (apply span_fst_ge; assumption).
  assert (Ha1 : aft <= E) by (apply wordered_fst_le; exact W2).
  destruct (sok_nest evt rl Hnest E 0 _ _ _ _ Hs Hwf Hlf N1 P1 Ha0 W1) as [Ok In].
  split; [exact Ok|]. eapply Forall_impl; [|exact In]. intros ev Hev. cbv beta in Hev. lia.
Qed.

(* (2) the whole listener stream, node events and skipped tokens, of EVERY run of the fixWhitespace loop *)
Theorem pxrun_events_nested m evt rl E fuel start end_state lex o c' :
  nested_table evt ->
  Forall (fun t => t_sym t <> 0) (reals lex) ->
  ordered (map l_range lex) E ->
  Forall (fun r => 0 <= fst r) (map l_range lex) -> 0 <= E ->
  pxrun fuel m evt true start end_state E lex = (o, c') ->
  Forall (fun e => wf_tree evt rl (x_tree e)) (pc_stack c') ->
  Forall (fun e => is_leaf (x_tree e) \/ ~ In (E, E) (leaves (x_tree e))) (pc_stack c') ->
  ok_events (stream_of c') = true /\ in_input E (stream_of c') = true.
Proof.
  intros Hnest Hnz Hord Hpos HE Hrun Hwf Hlf.
  destruct (pxrun_sim _ _ _ _ _ _ _ _ _ _ Hrun) as [Hx _].
  destruct (reals_ordered _ _ Hord) as [Hord' Hspan].
  assert (Hpos' : Forall (fun t => 0 <= t_off t) (reals lex)).
  { clear -Hpos. induction lex as [|[t|s] r IH]; simpl in *; [constructor| |]; inversion Hpos; subst; auto. }
  destruct (xrun_events_okp m evt rl E fuel start end_state (reals lex) o (erase c') Hnest Hnz Hord' Hpos' HE Hx Hwf Hlf)
    as [Okn Inn]. cbn [erase xc_events] in Okn, Inn.
  assert (HN0 : 0 <= t_off (next_tok E (reals lex))).
  { rewrite next_off_span. pose proof (span_fst_ge 0 _ E Hpos HE). lia. }
  assert (HI0 : Inv E 0 (mkPC [mkX 0 0 0 start (TLeaf 0 0 0)] start lex [] [])).
  { constructor; cbn [pc_stack pc_state pc_lex pc_pending pc_events]; unfold F_of, N_of, U_of, R_of;
      cbn [pc_stack pc_state pc_lex pc_pending pc_events skips_of nodes_of app map].
    - exact Hnz.
    - exact Hord.
    - apply Forall_forall. intros s Hs. apply skipped_in in Hs. rewrite Forall_forall in Hpos.
      exact (Hpos _ (in_map l_range _ _ Hs)).
    - constructor.
    - lia.
    - constructor; [|constructor]. right. split; (split; [simpl; lia|constructor]).
    - cbn [mono x_off]. split; [exact HN0|exact I].
    - constructor; [|constructor]. intros _. split; (split; [simpl; lia|constructor]).
    - exact I.
    - constructor. }
  unfold pxrun in Hrun.
  destruct (ploop_inv m evt rl E end_state fuel _ _ _ 0 HI0 Hrun Hwf) as [A' HI].
  pose proof (merge_okp _ (i_m _ _ _ HI) Okn) as Ok. split; [apply okp_ok_events; exact Ok|].
  unfold in_input, stream_of. apply forallb_forall. intros ev Hev.
  apply (proj2 (stream_split (pc_events c'))) in Hev. rewrite andb_true_iff, !Z.leb_le.
  destruct Hev as [Hev|Hev].
  - rewrite Forall_forall in Inn. exact (Inn _ Hev).
  - pose proof (i_F _ _ _ HI) as HF. unfold F_of in HF. rewrite Forall_forall in HF. destruct (HF _ Hev) as [H1 H2].
    pose proof (i_A _ _ _ HI) as HA. pose proof (i_ord _ _ _ HI) as Ho. unfold R_of in Ho. apply ordered_app in Ho.
    destruct Ho as [_ Ho]. destruct (reals_ordered _ _ Ho) as [Ho' _].
    pose proof (wordered_fst_le _ _ (ordered_wordered _ _ Ho')) as Hle. rewrite <- next_off_span in Hle.
    unfold N_of in HA. lia.
Qed.

(* (3) hence the AST builder fed with that stream builds a well-formed forest with exactly the reported nodes and
   skipped tokens *)
Theorem pxrun_builder_correct m evt rl E fuel start end_state lex o c' :
  nested_table evt ->
  Forall (fun t => t_sym t <> 0) (reals lex) ->
  ordered (map l_range lex) E ->
  Forall (fun r => 0 <= fst r) (map l_range lex) -> 0 <= E ->
  pxrun fuel m evt true start end_state E lex = (o, c') ->
  Forall (fun e => wf_tree evt rl (x_tree e)) (pc_stack c') ->
  Forall (fun e => is_leaf (x_tree e) \/ ~ In (E, E) (leaves (x_tree e))) (pc_stack c') ->
  wf_forest (rev (build (stream_of c'))) = true /\
  Permutation (forest_nodes (rev (build (stream_of c')))) (stream_of c').
Proof.
  intros. apply builder_correct. eapply pxrun_events_nested; eauto.
Qed.

(* when the run is accepted after end-of-input was shifted, or whenever the lexer output is exhausted and the last
   shift flushed: nothing is pending, i.e. EVERY skipped token has been reported, in source order *)
Theorem pxrun_all_reported m evt fixws E fuel start end_state lex o c' :
  pxrun fuel m evt fixws start end_state E lex = (o, c') ->
  pc_pending c' = [] -> skipped (pc_lex c') = [] -> skips_of (pc_events c') = skipped lex.
Proof.
  intros H Hp Hl. destruct (pxrun_sim _ _ _ _ _ _ _ _ _ _ H) as [_ Hs]. rewrite Hp, Hl, !app_nil_r in Hs. exact Hs.
Qed.

(* the same with the condition on the machine (end-of-input is only shifted into the end state) instead of the
   end-of-input leaves of the final stack *)
Theorem pxrun_events_nested_eoi m evt rl E fuel start end_state lex o c' :
  nested_table evt -> eoi_stops m end_state ->
  Forall (fun t => t_sym t <> 0) (reals lex) ->
  ordered (map l_range lex) E ->
  Forall (fun r => 0 <= fst r) (map l_range lex) -> 0 <= E ->
  pxrun fuel m evt true start end_state E lex = (o, c') ->
  Forall (fun e => wf_tree evt rl (x_tree e)) (pc_stack c') ->
  ok_events (stream_of c') = true /\ in_input E (stream_of c') = true.
Proof.
  intros Hnest Heoi Hnz Hord Hpos HE Hrun Hwf. eapply pxrun_events_nested; eauto.
  destruct (pxrun_sim _ _ _ _ _ _ _ _ _ _ Hrun) as [Hx _]. unfold xrun in Hx.
  destruct (reals_ordered _ _ Hord) as [Hord' _].
  refine (xrun_eoi_leaf m evt true E end_state Heoi fuel _ _ _ _ _ Hx).
  - constructor. exact I.
  - simpl. pose proof (ordered_Forall_ne _ _ Hord') as H. rewrite Forall_forall in *. intros t Ht.
    apply (H (tok_range t)). apply in_map. exact Ht.
Qed.
