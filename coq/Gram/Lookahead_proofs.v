From Coq Require Import List ZArith Bool Arith Lia.
From TM Require Import Lib.ListX Gram.Lookahead.
Import ListNotations.
Local Open Scope Z_scope.

Definition dla := mkLA 0 [].

(* ---------- pickLookahead ---------- *)
Notation go := pick_scan.

Lemma pick_unfold input las : pick input las =
  match go input las 0%nat (-1) (-1) with
  | None => None
  | Some (pos, neg) =>
      if pos >=? 0 then Some (Z.to_nat pos, false)
      else if neg >=? 0 then Some (Z.to_nat neg, true) else None
  end.
Proof. reflexivity. Qed.

(* [seen i pos neg]: summary of the polarities of alternatives 0..i-1 *)
Record summary (input : Z) (all : list lookahead) (i : nat) (pos neg : Z) : Prop := {
  sm_all : forall j, (j < i)%nat -> exists ng, accepts (la_preds (nth j all dla)) input = Some ng;
  sm_pos_none : pos = -1 -> forall j, (j < i)%nat -> accepts (la_preds (nth j all dla)) input = Some true;
  sm_pos_one : 0 <= pos -> (Z.to_nat pos < i)%nat /\ forall j, (j < i)%nat ->
      accepts (la_preds (nth j all dla)) input = Some (negb (Nat.eqb j (Z.to_nat pos)));
  sm_neg_none : neg = -1 -> forall j, (j < i)%nat -> accepts (la_preds (nth j all dla)) input = Some false;
  sm_neg_one : 0 <= neg -> (Z.to_nat neg < i)%nat /\ forall j, (j < i)%nat ->
      accepts (la_preds (nth j all dla)) input = Some (Nat.eqb j (Z.to_nat neg));
  sm_range : (pos = -1 \/ pos = -2 \/ 0 <= pos) /\ (neg = -1 \/ neg = -2 \/ 0 <= neg)
}.

Lemma go_summary input all : forall rest i pos neg pos' neg',
  all = firstn i all ++ rest -> length (firstn i all) = i ->
  summary input all i pos neg -> go input rest i pos neg = Some (pos', neg') ->
  summary input all (length all) pos' neg'.
Proof.
  induction rest as [|la rest IH]; intros i pos neg pos' neg' Hall Hlen Hs Hgo.
  - cbn in Hgo. injection Hgo as <- <-. rewrite app_nil_r in Hall.
    assert (Hi : i = length all) by (rewrite <- Hlen; now rewrite <- Hall). now rewrite <- Hi.
  - cbn [pick_scan] in Hgo.
    assert (Hnth : nth i all dla = la).
    { rewrite Hall. rewrite app_nth2 by lia. rewrite Hlen, Nat.sub_diag. reflexivity. }
    assert (Hall' : all = firstn (S i) all ++ rest /\ length (firstn (S i) all) = S i).
    { assert (Hi : (i < length all)%nat) by (rewrite Hall, app_length, Hlen; cbn; lia).
      split; [|rewrite firstn_length; lia].
      rewrite Hall at 1. rewrite (firstn_S_nth' all i dla Hi), Hnth, <- app_assoc. reflexivity. }
    destruct Hall' as [Hall' Hlen'].
    destruct (accepts (la_preds la) input) as [negated|] eqn:Ea; [|discriminate].
    destruct Hs as [S1 S2 S3 S4 S5 [R1 R2]].
    assert (Hstep : forall P : nat -> bool -> Prop,
       (forall j, (j < i)%nat -> exists v, accepts (la_preds (nth j all dla)) input = Some v /\ P j v) ->
       P i negated -> forall j, (j < S i)%nat -> exists v, accepts (la_preds (nth j all dla)) input = Some v /\ P j v).
    { intros P Hold Hnew j Hj. destruct (Nat.eq_dec j i) as [->|Hne]; [rewrite Hnth; eauto|apply Hold; lia]. }
    destruct negated.
    + (* a negated literal *)
      cbn [negb andb] in Hgo. destruct (neg =? -1) eqn:En.
      * apply Z.eqb_eq in En. apply (IH _ _ _ _ _ Hall' Hlen' ) in Hgo; [exact Hgo|]. constructor.
        -- intros j Hj. destruct (Nat.eq_dec j i) as [->|]; [rewrite Hnth; eauto|apply S1; lia].
        -- intros Hp j Hj. destruct (Nat.eq_dec j i) as [->|]; [now rewrite Hnth|apply S2; [exact Hp|lia]].
        -- intros Hp. destruct (S3 Hp) as [Hr Hv]. split; [lia|]. intros j Hj.
           destruct (Nat.eq_dec j i) as [->|]; [rewrite Hnth, Ea; f_equal; symmetry; apply negb_true_iff, Nat.eqb_neq; lia|apply Hv; lia].
        -- intro Hc; lia.
        -- intros _. rewrite Nat2Z.id. split; [lia|]. intros j Hj.
           destruct (Nat.eq_dec j i) as [->|Hne]; [now rewrite Hnth, Ea, Nat.eqb_refl|].
           rewrite (S4 En j ltac:(lia)). f_equal. symmetry. now apply Nat.eqb_neq.
        -- split; [exact R1|lia].
      * apply (IH _ _ _ _ _ Hall' Hlen') in Hgo; [exact Hgo|]. constructor.
        -- intros j Hj. destruct (Nat.eq_dec j i) as [->|]; [rewrite Hnth; eauto|apply S1; lia].
        -- intros Hp j Hj. destruct (Nat.eq_dec j i) as [->|]; [now rewrite Hnth|apply S2; [exact Hp|lia]].
        -- intros Hp. destruct (S3 Hp) as [Hr Hv]. split; [lia|]. intros j Hj.
           destruct (Nat.eq_dec j i) as [->|]; [rewrite Hnth, Ea; f_equal; symmetry; apply negb_true_iff, Nat.eqb_neq; lia|apply Hv; lia].
        -- intro Hc; lia.
        -- intro Hc; lia.
        -- split; [exact R1|lia].
    + (* a positive literal *)
      cbn [negb andb] in Hgo. destruct (pos =? -1) eqn:Ep.
      * apply Z.eqb_eq in Ep. apply (IH _ _ _ _ _ Hall' Hlen') in Hgo; [exact Hgo|]. constructor.
        -- intros j Hj. destruct (Nat.eq_dec j i) as [->|]; [rewrite Hnth; eauto|apply S1; lia].
        -- intro Hc; lia.
        -- intros _. rewrite Nat2Z.id. split; [lia|]. intros j Hj.
           destruct (Nat.eq_dec j i) as [->|Hne]; [now rewrite Hnth, Ea, Nat.eqb_refl|].
           rewrite (S2 Ep j ltac:(lia)). f_equal. symmetry. apply negb_true_iff. now apply Nat.eqb_neq.
        -- intros Hn j Hj. destruct (Nat.eq_dec j i) as [->|]; [now rewrite Hnth|apply S4; [exact Hn|lia]].
        -- intros Hn. destruct (S5 Hn) as [Hr Hv]. split; [lia|]. intros j Hj.
           destruct (Nat.eq_dec j i) as [->|]; [rewrite Hnth, Ea; f_equal; symmetry; apply Nat.eqb_neq; lia|apply Hv; lia].
        -- split; [lia|exact R2].
      * apply (IH _ _ _ _ _ Hall' Hlen') in Hgo; [exact Hgo|]. constructor.
        -- intros j Hj. destruct (Nat.eq_dec j i) as [->|]; [rewrite Hnth; eauto|apply S1; lia].
        -- intro Hc; lia.
        -- intro Hc; lia.
        -- intros Hn j Hj. destruct (Nat.eq_dec j i) as [->|]; [now rewrite Hnth|apply S4; [exact Hn|lia]].
        -- intros Hn. destruct (S5 Hn) as [Hr Hv]. split; [lia|]. intros j Hj.
           destruct (Nat.eq_dec j i) as [->|]; [rewrite Hnth, Ea; f_equal; symmetry; apply Nat.eqb_neq; lia|apply Hv; lia].
        -- split; [lia|exact R2].
Qed.

(* what a successful pick means: alternative k carries polarity [negated] on the input, all others
   carry the opposite polarity *)
Theorem pick_spec input las k negated : pick input las = Some (k, negated) ->
  (k < length las)%nat /\
  forall j, (j < length las)%nat ->
    accepts (la_preds (nth j las dla)) input = Some (if Nat.eqb j k then negated else negb negated).
Proof.
  rewrite pick_unfold. destruct (go input las 0%nat (-1) (-1)) as [[pos neg]|] eqn:Eg; [|discriminate].
  assert (Hs : summary input las (length las) pos neg).
  { apply (go_summary input las las 0%nat (-1) (-1) pos neg); [reflexivity|reflexivity| |exact Eg].
    constructor; try (intros; lia); try (split; lia). }
  destruct Hs as [S1 S2 S3 S4 S5 [R1 R2]].
  destruct (pos >=? 0) eqn:Ep.
  - intros [= <- <-]. destruct (S3 ltac:(lia)) as [Hr Hv]. split; [exact Hr|].
    intros j Hj. rewrite (Hv j Hj). destruct (Nat.eqb j (Z.to_nat pos)); reflexivity.
  - destruct (neg >=? 0) eqn:En; [|discriminate]. intros [= <- <-].
    destruct (S5 ltac:(lia)) as [Hr Hv]. split; [exact Hr|].
    intros j Hj. rewrite (Hv j Hj). destruct (Nat.eqb j (Z.to_nat neg)); reflexivity.
Qed.

(* ---------- swap-remove keeps every other element ---------- *)
Lemma nth_in_without {A} (l : list A) k j d : (j < length l)%nat -> j <> k ->
  In (nth j l d) (firstn k l ++ skipn (S k) l).
Proof.
  intros Hj Hne. apply in_or_app. destruct (Nat.lt_ge_cases j k) as [Hlt|Hge].
  - left. rewrite <- (nth_firstn' l k j d Hlt). apply nth_In. rewrite firstn_length. lia.
  - right. replace j with (S k + (j - S k))%nat by lia. rewrite <- nth_skipn'. apply nth_In.
    rewrite skipn_length. lia.
Qed.

Lemma swap_remove_keeps {A} (l : list A) k j d : (j < length l)%nat -> (k < length l)%nat -> j <> k ->
  In (nth j l d) (swap_remove l k).
Proof.
  intros Hj Hk Hne. unfold swap_remove.
  destruct (rev l) as [|z r] eqn:Er.
  { apply (f_equal (@length A)) in Er. rewrite rev_length in Er. cbn in Er. lia. }
  assert (Hl : l = rev r ++ [z]) by (rewrite <- (rev_involutive l), Er; reflexivity).
  assert (Hrl : removelast l = rev r) by (rewrite Hl; apply removelast_last).
  rewrite Hrl. assert (Hlen : length l = S (length (rev r))) by (rewrite Hl, app_length; cbn; lia).
  destruct (k <? length (rev r))%nat eqn:Ek.
  - apply Nat.ltb_lt in Ek. destruct (Nat.lt_ge_cases j (length (rev r))) as [Hjl|Hjl].
    + rewrite Hl, app_nth1 by exact Hjl.
      pose proof (nth_in_without (rev r) k j d Hjl Hne) as H. apply in_app_iff in H.
      apply in_or_app. destruct H; [now left|right; now right].
    + assert (j = length (rev r)) by lia. subst j. rewrite Hl, app_nth2, Nat.sub_diag by lia. cbn [nth].
      apply in_or_app. right. now left.
  - apply Nat.ltb_ge in Ek. assert (Hjl : (j < length (rev r))%nat) by lia.
    rewrite Hl, app_nth1 by exact Hjl. now apply nth_In.
Qed.

(* ---------- run-time semantics ---------- *)
Lemma accepts_holds rho preds input ng :
  accepts preds input = Some ng -> forallb (fun '(i, neg) => xorb (rho i) neg) preds = true ->
  xorb (rho input) ng = true.
Proof.
  induction preds as [|[i neg] rest IH]; cbn [accepts forallb]; [discriminate|].
  intros Ha Hh. apply andb_true_iff in Hh as [H1 H2].
  destruct (i =? input) eqn:E; [apply Z.eqb_eq in E; subst i; now injection Ha as <-|now apply IH].
Qed.

Lemma try_order_pick order : forall i las i' next k negated,
  try_order order i las = Some (i', next, k, negated) -> pick next las = Some (k, negated).
Proof.
  induction order as [|nx rest IH]; intros i las i' next k negated H; cbn [try_order] in H; [discriminate|].
  destruct (pick nx las) as [[k0 n0]|] eqn:Ep; [now injection H as _ <- <- <-|eapply IH; eauto].
Qed.

Lemma eval_cases_app c1 c2 d rho : eval_cases (c1 ++ c2) d rho = eval_cases c1 (eval_cases c2 d rho) rho.
Proof.
  induction c1 as [|[[i n] t] c1 IH]; [reflexivity|]. cbn [app eval_cases]. now rewrite IH.
Qed.

Lemma main_loop_correct : forall fuel las order cases R,
  main_loop fuel las order cases = LaOk R ->
  exists newc, r_cases R = cases ++ newc /\
    forall rho la, In la las -> holds rho la = true -> eval_cases newc (r_default R) rho = la_nonterm la.
Proof.
  induction fuel as [|f IH]; intros las order cases R H; [discriminate|].
  cbn [main_loop] in H. destruct las as [|la0 [|la1 rest]]; [discriminate| |].
  - injection H as <-. exists []. split; [now rewrite app_nil_r|].
    intros rho la [<-|[]] _. reflexivity.
  - set (las := la0 :: la1 :: rest) in *.
    destruct (try_order order 0%nat las) as [[[[i next] k] negated]|] eqn:Et; [|discriminate].
    pose proof (try_order_pick _ _ _ _ _ _ _ Et) as Hp.
    destruct (pick_spec _ _ _ _ Hp) as [Hk Hpol].
    destruct (IH _ _ _ _ H) as [newc' [Hc Hev]].
    exists ((next, negated, la_nonterm (nth k las dla)) :: newc'). split; [now rewrite Hc, <- app_assoc|].
    intros rho la Hin Hh. apply (In_nth _ _ dla) in Hin as [j [Hj Hnth]].
    pose proof (Hpol j Hj) as Ha. rewrite Hnth in Ha.
    pose proof (accepts_holds rho _ _ _ Ha Hh) as Hx. cbn [eval_cases].
    destruct (Nat.eqb j k) eqn:Ejk.
    + apply Nat.eqb_eq in Ejk; subst j. rewrite Hx, Hnth. reflexivity.
    + apply Nat.eqb_neq in Ejk.
      replace (xorb (rho next) negated) with false by (destruct (rho next), negated; cbn in *; congruence).
      apply Hev; [|exact Hh]. rewrite <- Hnth. now apply swap_remove_keeps.
Qed.

(* C08: whenever the set is accepted, every assignment that makes some alternative's conjunction true
   selects that alternative *)
Theorem decision_correct las R : new_rule las = LaOk R ->
  forall rho la, In la las -> holds rho la = true -> eval_rule R rho = la_nonterm la.
Proof.
  unfold new_rule. destruct (build_graph las) as [g top]. destruct (dfs_top g top) as [st depth].
  destruct (d_oof st); [discriminate|]. destruct (d_cycle st); [discriminate|].
  destruct (negb _); [discriminate|]. intro H.
  destruct (main_loop_correct _ _ _ _ _ H) as [newc [Hc Hev]]. cbn [app] in Hc.
  intros rho la Hin Hh. unfold eval_rule. rewrite Hc. now apply Hev.
Qed.

(* hence two alternatives with different targets can never hold together: accepted sets are exclusive *)
Corollary accepted_is_exclusive las R : new_rule las = LaOk R ->
  forall rho la1 la2, In la1 las -> In la2 las -> la_nonterm la1 <> la_nonterm la2 ->
  holds rho la1 = true -> holds rho la2 = true -> False.
Proof.
  intros H rho la1 la2 H1 H2 Hne Hh1 Hh2.
  pose proof (decision_correct las R H rho la1 H1 Hh1). pose proof (decision_correct las R H rho la2 H2 Hh2). congruence.
Qed.
